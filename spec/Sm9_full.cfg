SPECIFICATION Spec
CONSTANTS Q = 7 Ids = {"A", "B"} Msgs = {"m", "n"} MaxSigs = 1 MaxPoints = 2
INVARIANTS OwnSignaturesVerify AcceptedAtSigningPointIsTheSignature OtherIdentityMovesTheOraclePoint AlteredHMovesTheOraclePoint AlteredMovesTheOraclePoint DecryptInverts OtherIdentityFails ExchangeAgrees
CHECK_DEADLOCK FALSE
