SPECIFICATION Spec
CONSTANTS Slots = {0, 1, 2, 3, 4, 5, 6, 7, 8, 9, 10, 11} MaxEdits = 2 StreamMode = FALSE
INVARIANT Emit
CHECK_DEADLOCK FALSE
