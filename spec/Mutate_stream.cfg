SPECIFICATION Spec
CONSTANTS Slots = {0, 1, 2, 3, 4, 5, 6, 7, 8, 9, 10, 11, 12, 13, 14, 15} MaxEdits = 1 StreamMode = TRUE
INVARIANT Emit
CHECK_DEADLOCK FALSE
