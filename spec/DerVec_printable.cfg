SPECIFICATION Spec
CONSTANTS Kind = "printable" MaxLen = 3
INVARIANT Emit
CHECK_DEADLOCK FALSE
