----------------------------- MODULE Sm2Judge -----------------------------
(***************************************************************************)
(* C01 / C02: what the SM2 signature, encryption and ECDH interfaces must  *)
(* return, as executable definitions (GB/T 32918.2/.4) over                *)
(*   - Crypto.tla   (Z value, digest e, KDF, C3: computed by TLC over the  *)
(*                   SM3 compression table),                               *)
(*   - Der.tla      (strict DER of signature and ciphertext),              *)
(*   - Sm2Curve.tla (ranges, curve membership, point-addition relations    *)
(*                   checked with witnesses in BigNat).                    *)
(* Scalar multiples ([k]G, [d]C1) are supplied by the reference and        *)
(* justified for the cases that carry a `chain` by a double-and-add        *)
(* sequence every step of which TLC checks (ChainOK).                       *)
(***************************************************************************)
EXTENDS Sm2Curve, Json, IOUtils
VARIABLE i
Cases == ndJsonDeserialize(IOEnv.TRACE)

Cr == INSTANCE Crypto
D == INSTANCE Der
B32(x) == x          \* 32-byte big-endian strings are passed as byte sequences

(* ------------------------------ Z and e ------------------------------ *)
ZValue(T, id, idlen, px, py) ==
    Cr!HashN(T, "sm3", Cr!BE((8 * idlen) % 65536, 2) \o Cr!Take(id, idlen) \o HexA \o HexB \o HexGx \o HexGy \o px \o py)
Digest(T, id, idlen, px, py, msg) == Cr!HashN(T, "sm3", ZValue(T, id, idlen, px, py) \o msg)

(* ------------------------------ verification ------------------------------ *)
(* r, s as big-endian magnitudes; eqholds = "the verification equation holds for (e, r, s, P)" from the reference *)
RangeOK(r, s) == LET rn == FromBytes(r)  sn == FromBytes(s) IN
                 SigScalarInRange(rn) /\ SigScalarInRange(sn) /\ ~Eq(Add(rn, sn), N)
VerifyExpected(c) ==
    IF c.iface = "do" THEN RangeOK(c.r, c.s) /\ c.eqholds
    ELSE LET d == D!TwoInts(c.sig) IN d.ok /\ Len(d.a) <= 32 /\ Len(d.b) <= 32 /\ RangeOK(d.a, d.b) /\ c.eqholds
(* for the context interface the digest is the standard's function of (ID, public key, message): the reference's e must equal TLC's *)
DigestConsistent(c) == c.iface # "ctx" \/ Digest(c.T, c.idb, Len(c.idb), c.px, c.py, c.msg) = c.eref

(* ------------------------------ signing ------------------------------ *)
SignOK(c) ==
    LET d == D!TwoInts(c.sig)
        rr == IF c.iface = "do" THEN Cr!Take(c.sig, 32) ELSE d.a
        ss == IF c.iface = "do" THEN Cr!Drop(c.sig, 32) ELSE d.b
        rn == FromBytes(rr)  sn == FromBytes(ss)  dn == FromBytes(c.d)  kn == c.k
    IN /\ c.rc = 1
       /\ (c.iface # "do" => d.ok)
       /\ (c.iface = "dgst" => D!EncTwoInts(d.a, d.b) = c.sig)                       \* canonical DER
       /\ (c.iface = "fixlen" => Len(c.sig) = c.siglen)
       /\ RangeOK(rr, ss)
       \* s*(1+d) + r*d == k (mod n): k is the nonce these (r, s) correspond to
       /\ DiffModOK(Add(Mul(sn, Add(One, dn)), Mul(rn, dn)), kn, N, c.wk, c.wside, <<>>)
       /\ ~IsZero(kn) /\ Lt(kn, N) /\ ~Eq(Add(rn, kn), N)
       \* r = (e + x1) mod n with x1 = x([k]G) (x1 from the reference, justified by the chain when present)
       /\ DiffModOK(Add(FromBytes(c.e), c.x1), rn, N, c.w2k, c.w2side, <<>>)
       /\ c.refverify
       /\ (c.checkdraw => \E j \in 0..((Len(c.draws32) \div 32) - 1) : Eq(FromBytes(SubSeq(c.draws32, 32 * j + 1, 32 * j + 32)), kn))

(* ------------------------------ encryption / decryption ------------------------------ *)
PtW(c) == [k |-> c.wk, side |-> c.wside, r |-> c.wr]
(* the ciphertext components as the standard defines them from the shared point (x2, y2) *)
KdfOf(T, x2, y2, n) == Cr!CounterKdf(T, "sm3", x2 \o y2, n)
C3Of(T, x2, m, y2) == Cr!HashN(T, "sm3", x2 \o m \o y2)
Pad32(m) == [j \in 1..(32 - Len(m)) |-> 0] \o m
EncryptOK(c) ==
    LET d == D!Sm2Cipher(c.ct) IN
    /\ c.rc = 1 /\ d.ok /\ Len(d.x) <= 32 /\ Len(d.y) <= 32
    /\ ValidPoint(FromBytes(d.x), FromBytes(d.y), PtW(c))                              \* C1 is a finite point of the curve
    /\ Len(d.c2) = Len(c.msg) /\ Len(c.msg) >= 1
    /\ LET t == KdfOf(c.T, c.x2, c.y2, Len(c.msg)) IN
       /\ \E j \in 1..Len(t) : t[j] # 0
       /\ d.c2 = Cr!XorB(c.msg, t)
       /\ d.c3 = C3Of(c.T, c.x2, c.msg, c.y2)
    /\ (c.iface = "fixlen" => Len(c.ct) = c.ctlen)
DecryptExpected(c) ==
    LET d == D!Sm2Cipher(c.ct) IN
    IF ~d.ok \/ Len(d.x) > 32 \/ Len(d.y) > 32 \/ Len(d.c2) < 1 \/ Len(d.c2) > 255 THEN [ok |-> FALSE, pt |-> <<>>]
    ELSE IF ~ValidPoint(FromBytes(d.x), FromBytes(d.y), PtW(c)) THEN [ok |-> FALSE, pt |-> <<>>]
    ELSE LET t == KdfOf(c.T, c.x2, c.y2, Len(d.c2))  m == Cr!XorB(d.c2, t) IN
         IF (\A j \in 1..Len(t) : t[j] = 0) \/ d.c3 # C3Of(c.T, c.x2, m, c.y2) THEN [ok |-> FALSE, pt |-> <<>>]
         ELSE [ok |-> TRUE, pt |-> m]

Judge(c) ==
    CASE c.kind = "z"       -> c.rc = 1 /\ c.z = ZValue(c.T, c.idb, c.idlen, c.px, c.py)
      [] c.kind = "verify"  -> DigestConsistent(c) /\ ((c.rc = 1) = VerifyExpected(c))
      [] c.kind = "sign"    -> SignOK(c)
      [] c.kind = "chain"   -> ChainOK(c.k, c.bx, c.by, c.chain, c.rx, c.ry)
      [] c.kind = "encrypt" -> EncryptOK(c)
      [] c.kind = "decrypt" -> LET e == DecryptExpected(c) IN IF e.ok THEN c.rc = 1 /\ c.pt = e.pt ELSE c.rc # 1
      [] c.kind = "ecdh"    -> IF c.peerok /\ ValidPoint(FromBytes(c.qx), FromBytes(c.qy), PtW(c)) THEN c.rc = 1 /\ c.shared = c.x2 \o c.y2 ELSE c.rc # 1
Init == i = 1
Next == /\ i <= Len(Cases) /\ i' = i + 1
        /\ IF Judge(Cases[i]) THEN TRUE ELSE PrintT(<<"MISMATCH", i, Cases[i].kind>>)
Spec == Init /\ [][Next]_i
=============================================================================
