SPECIFICATION Spec
CONSTANTS MaxCAs = 4 Depths = {0, 1, 2, 3, 4, 5} Forms = {"tls", "tlcp"} Roles = {"server", "client"} Full = TRUE BcRequired = TRUE
INVARIANTS Soundness Completeness GhostMatches
VIEW View
CHECK_DEADLOCK FALSE
