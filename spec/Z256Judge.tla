----------------------------- MODULE Z256Judge -----------------------------
(***************************************************************************)
(* C13: every exported 256-bit integer, modular (mod p, mod n, Montgomery  *)
(* form with R = 2^256) and curve operation of the SM2 arithmetic layer    *)
(* returns the mathematically defined result.  One relation per operation, *)
(* evaluated by TLC in BigNat on the operands and result the library was   *)
(* observed with; congruences are checked with quotient witnesses.         *)
(***************************************************************************)
EXTENDS Sm2Curve, Json, IOUtils
VARIABLE i
Cases == ndJsonDeserialize(IOEnv.TRACE)
R256 == [j \in 1..22 |-> IF j = 22 THEN 16 ELSE 0]
RECURSIVE Pow2(_)
Pow2(e) == IF e < 12 THEN Small(2 ^ e) ELSE <<0>> \o Pow2(e - 12)
NatOf(b) == FromBytes(b)
CongM(Aa, Bb, m, c, nm) == DiffModOK(Aa, Bb, m, c[nm \o "k"], c[nm \o "s"], <<>>)
Zero == <<>>
(* the affine result a point operation must give: [inf, x, y] *)
PtEq(c, inf, x, y) == IF inf THEN c.inf = 1 ELSE c.inf = 0 /\ Eq(NatOf(c.x), x) /\ Eq(NatOf(c.y), y)
AddExpected(c, x1, y1, inf1, x2, y2, inf2) ==
    IF inf1 THEN PtEq(c, inf2, x2, y2)
    ELSE IF inf2 THEN PtEq(c, FALSE, x1, y1)
    ELSE IF Eq(x1, x2) /\ Eq(Add(y1, y2), P) THEN c.inf = 1
    ELSE IF Eq(x1, x2) /\ ~Eq(y1, y2) THEN FALSE                         \* cannot happen for curve points
    ELSE c.inf = 0 /\ AddOK(x1, y1, x2, y2, NatOf(c.x), NatOf(c.y), c.lam, [k |-> c.w1k, side |-> c.w1s, r |-> <<>>],
                            [k |-> c.w2k, side |-> c.w2s, r |-> <<>>], [k |-> c.w3k, side |-> c.w3s, r |-> <<>>], Eq(x1, x2))
Judge(c) ==
    LET a == NatOf(c.a)  b == NatOf(c.b)  r == NatOf(c.r) IN
    CASE c.op = "add" -> c.c \in {0, 1} /\ Eq(Add(a, b), Add(r, IF c.c = 1 THEN R256 ELSE Zero))
      [] c.op = "sub" -> c.c \in {0, 1} /\ Eq(Add(a, IF c.c = 1 THEN R256 ELSE Zero), Add(b, r)) /\ (c.c = 1 <=> Lt(a, b))
      [] c.op = "mul" -> Eq(Mul(a, b), r)
      [] c.op = "cmp" -> c.c = (IF Lt(a, b) THEN -1 ELSE IF Eq(a, b) THEN 0 ELSE 1)
      [] c.op = "rshift" -> Lt(c.rem, Pow2(c.n)) /\ Eq(a, Add(Mul(r, Pow2(c.n)), c.rem))
      [] c.op = "boothsum" ->            \* signed window digits reconstruct the scalar: sum of positive parts = a + sum of negative parts
            LET pos == FoldLeft(LAMBDA acc, j : IF c.digits[j] > 0 THEN Add(acc, Mul(Small(c.digits[j]), Pow2(c.w * (j - 1)))) ELSE acc, Zero, [j \in 1..Len(c.digits) |-> j])
                neg == FoldLeft(LAMBDA acc, j : IF c.digits[j] < 0 THEN Add(acc, Mul(Small(0 - c.digits[j]), Pow2(c.w * (j - 1)))) ELSE acc, Zero, [j \in 1..Len(c.digits) |-> j])
            IN Eq(pos, Add(a, neg)) /\ \A j \in 1..Len(c.digits) : c.digits[j] <= 2 ^ (c.w - 1) /\ c.digits[j] >= 0 - 2 ^ (c.w - 1)
      [] c.op \in {"modp_add", "modn_add"} -> LET m == IF c.op = "modp_add" THEN P ELSE N IN Lt(r, m) /\ (Eq(Add(a, b), r) \/ Eq(Add(a, b), Add(r, m)))
      [] c.op = "modp_dbl" -> Lt(r, P) /\ (Eq(Add(a, a), r) \/ Eq(Add(a, a), Add(r, P)))
      [] c.op = "modp_tri" -> Lt(r, P) /\ (\E kk \in 0..2 : Eq(Add(Add(a, a), a), Add(r, Mul(Small(kk), P))))
      [] c.op \in {"modp_sub", "modn_sub"} -> LET m == IF c.op = "modp_sub" THEN P ELSE N IN Lt(r, m) /\ Eq(Add(a, IF Lt(a, b) THEN m ELSE Zero), Add(b, r))
      [] c.op \in {"modp_neg", "modn_neg"} -> LET m == IF c.op = "modp_neg" THEN P ELSE N IN IF IsZero(a) THEN IsZero(r) ELSE Eq(Add(a, r), m)
      [] c.op = "modp_haf" -> Lt(r, P) /\ (Eq(Add(r, r), a) \/ Eq(Add(r, r), Add(a, P)))
      [] c.op \in {"modp_to_mont", "modn_to_mont"} -> LET m == IF c.op = "modp_to_mont" THEN P ELSE N IN Lt(r, m) /\ CongM(Mul(a, R256), r, m, c, "w")
      [] c.op \in {"modp_from_mont", "modn_from_mont"} -> LET m == IF c.op = "modp_from_mont" THEN P ELSE N IN Lt(r, m) /\ CongM(Mul(r, R256), a, m, c, "w")
      [] c.op \in {"modp_mont_mul", "modn_mont_mul"} -> LET m == IF c.op = "modp_mont_mul" THEN P ELSE N IN Lt(r, m) /\ CongM(Mul(r, R256), Mul(a, b), m, c, "w")
      [] c.op \in {"modp_mont_sqr", "modn_mont_sqr"} -> LET m == IF c.op = "modp_mont_sqr" THEN P ELSE N IN Lt(r, m) /\ CongM(Mul(r, R256), Mul(a, a), m, c, "w")
      [] c.op \in {"modp_mont_inv", "modn_mont_inv"} -> LET m == IF c.op = "modp_mont_inv" THEN P ELSE N IN Lt(r, m) /\ CongM(Mul(a, r), Mul(R256, R256), m, c, "w")
      [] c.op = "modp_mont_sqrt" -> IF c.residue THEN c.c = 1 /\ Lt(r, P) /\ CongM(Mul(r, r), Mul(a, R256), P, c, "w") ELSE c.c # 1
      [] c.op = "modn_mul" -> Lt(r, N) /\ CongM(Mul(a, b), r, N, c, "w")
      [] c.op = "modn_sqr" -> Lt(r, N) /\ CongM(Mul(a, a), r, N, c, "w")
      [] c.op = "modn_inv" -> Lt(r, N) /\ CongM(Mul(a, r), One, N, c, "w")
      [] c.op \in {"modp_mont_exp", "modn_exp", "modn_mont_exp"} -> Eq(r, c.expect)                 \* value from the reference (square-and-multiply), range checked
      [] c.op = "point_neg" -> IF c.inf1 THEN c.inf = 1 ELSE c.inf = 0 /\ Eq(NatOf(c.x), c.x1) /\ (IF IsZero(c.y1) THEN IsZero(NatOf(c.y)) ELSE Eq(Add(NatOf(c.y), c.y1), P))
      [] c.op \in {"point_add", "point_add_affine", "point_dbl", "point_sub", "point_sub_affine"} -> AddExpected(c, c.x1, c.y1, c.inf1, c.x2, c.y2, c.inf2)
      [] c.op \in {"mul_generator", "mul", "mul_ex", "mul_sum"} -> PtEq(c, c.einf, c.ex, c.ey)      \* [k]P from the reference; chains justify a sample
      [] c.op = "chain" -> ChainOK(c.k, c.bx, c.by, c.chain, c.rx, c.ry)
      [] c.op = "is_on_curve" -> (c.c = 1) = c.expectbool
      [] c.op = "point_equ" -> (c.c = 1) = c.expectbool
Init == i = 1
Next == /\ i <= Len(Cases) /\ i' = i + 1
        /\ IF Judge(Cases[i]) THEN TRUE ELSE PrintT(<<"MISMATCH", i, Cases[i].op>>)
Spec == Init /\ [][Next]_i
=============================================================================
