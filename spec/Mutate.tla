------------------------------- MODULE Mutate -------------------------------
(***************************************************************************)
(* C06 (input space): the grammar of structure-aware mutations.  A mutant  *)
(* is a valid object plus an edit program; an edit names a node slot of    *)
(* the object's TLV tree (or, for non-TLV formats, a relative position), a *)
(* kind, an argument, and whether the enclosing lengths are repaired       *)
(* (fix = TRUE: a well-formed tree with one surprising member) or left as  *)
(* they were (fix = FALSE: inconsistent lengths).  TLC enumerates the      *)
(* programs (all single edits exhaustively; pairs by simulation); the      *)
(* harness interprets each program on every seed object and hands the      *)
(* result to every consumer under AddressSanitizer.  The same grammar      *)
(* drives the record-level edits of live handshakes (Stream programs).     *)
(***************************************************************************)
EXTENDS Integers, Sequences, TLC
CONSTANTS Slots, MaxEdits, StreamMode
VARIABLE prog
LenArgs == {1, 2, 127, 128, 255, 65535}
SetArgs == {0, 1, 127, 128, 255, 256, 65535, 16777215, 2147483647, -1}        \* -1 stands for 2^32 - 1
FormArgs == {0, 1, 2, 3, 4, 5}                                                  \* 0: indefinite 0x80; 1..4: that many length octets (non-minimal); 5: 0x85
TagArgs == {0, 2, 4, 5, 31, 48, 49, 128, 160, 255}
GrowArgs == {1, 16, 256, 300, 512, 70000}      \* 256 and 512 keep a block-cipher payload block-aligned while outgrowing fixed buffers
FillArgs == {0, 127, 128, 255}
NestArgs == {4, 64, 1000}
RepArgs == {3, 10, 33, 80, 400}                                                     \* a member repeated that many times (bounded output arrays)
TruncArgs == {0, 1, 2}
ArgsOf(k) == CASE k \in {"len+", "len-"} -> LenArgs [] k = "len=" -> SetArgs [] k = "lenform" -> FormArgs [] k = "tag=" -> TagArgs [] k = "grow" -> GrowArgs
               [] k = "fill" -> FillArgs [] k = "nest" -> NestArgs [] k = "rep" -> RepArgs [] k = "trunc" -> TruncArgs [] OTHER -> {0}
TreeKinds == {"len+", "len-", "len=", "lenform", "tag=", "trunc", "drop", "dup", "rep", "empty", "grow", "fill", "swap", "nest"}
(* live streams: which record, which edit of it *)
StreamKinds == {"setb", "flip", "cut", "pad", "trunc", "drop", "dup", "swap", "inject", "hdrflip"}
StreamArgsOf(k) == CASE k = "setb" -> {0, 1, 127, 128, 255} [] k = "flip" -> {0, 7} [] k = "pad" -> {1, 4, 40} [] k = "inject" -> {0, 1, 2, 3, 4} [] k = "hdrflip" -> {0, 7} [] OTHER -> {0}
Kinds == IF StreamMode THEN StreamKinds ELSE TreeKinds
Args(k) == IF StreamMode THEN StreamArgsOf(k) ELSE ArgsOf(k)
NoFixChoice(k) == StreamMode \/ k \in {"len+", "len-", "len=", "lenform", "tag=", "trunc", "fill", "swap"}     \* edits for which repairing the parents is meaningless
Edits == {e \in [slot : Slots, kind : Kinds, arg : Int, fix : BOOLEAN] : FALSE}   \* (type only)
Init == prog = <<>>
Next == /\ Len(prog) < MaxEdits
        /\ \E s \in Slots, k \in Kinds : \E a \in Args(k) : \E f \in (IF NoFixChoice(k) THEN {FALSE} ELSE BOOLEAN) :
              prog' = Append(prog, [slot |-> s, kind |-> k, arg |-> a, fix |-> f])
Spec == Init /\ [][Next]_prog
Emit == Len(prog) >= 1 => PrintT(<<"EDIT", [j \in 1..Len(prog) |-> <<prog[j].slot, prog[j].kind, prog[j].arg, prog[j].fix>>]>>)
=============================================================================
