SPECIFICATION Spec
CONSTANTS Kind = "encoid" MaxLen = 3
INVARIANT Emit
CHECK_DEADLOCK FALSE
