SPECIFICATION Spec
CONSTANTS NT = 4 K = 3 HiddenState = FALSE CallAtomic = TRUE
INVARIANTS SequentialResults PrintSchedules
CHECK_DEADLOCK FALSE
