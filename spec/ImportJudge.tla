---------------------------- MODULE ImportJudge ----------------------------
(***************************************************************************)
(* C12: the verdict every import interface must give.  A case carries the  *)
(* bytes offered (coordinates x, y or a scalar d), whether the container   *)
(* around them is well formed, witnesses for the curve-equation residue,   *)
(* and what the library answered.  TLC evaluates membership with BigNat.   *)
(***************************************************************************)
EXTENDS Sm2Curve, Json, IOUtils
VARIABLE i
Cases == ndJsonDeserialize(IOEnv.TRACE)
(* SM9 BN curve y^2 = x^3 + 5 over F_p9 *)
HexP9 == <<182,64,0,0,2,163,166,241,214,3,171,79,245,142,199,69,33,242,147,75,26,122,238,219,229,111,155,39,227,81,69,125>>
P9 == FromBytes(HexP9)
ValidG1(x, y, w) == Lt(x, P9) /\ Lt(y, P9) /\ DiffModOK(Mul(y, y), Add(Mul(Mul(x, x), x), Small(5)), P9, w.k, w.side, w.r) /\ IsZero(w.r)

Expected(c) ==
    CASE c.kind = "point"   -> c.wellformed /\ c.hascoords /\ ValidPoint(FromBytes(c.x), FromBytes(c.y), [k |-> c.wk, side |-> c.wside, r |-> c.wr])
      [] c.kind = "sm9g1"   -> c.wellformed /\ c.hascoords /\ ValidG1(FromBytes(c.x), FromBytes(c.y), [k |-> c.wk, side |-> c.wside, r |-> c.wr])
      [] c.kind = "scalar"  -> ScalarInRange(FromBytes(c.d))
      [] c.kind = "privkey" -> c.wellformed /\ ScalarInRange(FromBytes(c.d)) /\ c.pubmatches
      [] c.kind = "oracle"  -> c.expect                     \* verdict supplied by the reference (SM9 twist points, genuine ciphertexts)
Judge(c) == LET e == Expected(c) IN
            /\ (c.rc = 1) = e
            /\ (c.rc = 1 => c.inf = 0)                                                   \* never yields the point at infinity
            /\ (c.rc = 1 /\ c.kind \in {"point", "sm9g1"} /\ c.checkxy) => (c.libx = c.x /\ c.liby = c.y)   \* the object is the point that was offered
Init == i = 1
Next == /\ i <= Len(Cases) /\ i' = i + 1
        /\ IF Judge(Cases[i]) THEN TRUE ELSE PrintT(<<"MISMATCH", i, Expected(Cases[i])>>)
Spec == Init /\ [][Next]_i
=============================================================================
