-------------------------------- MODULE Cli --------------------------------
(***************************************************************************)
(* The command line tools as a user's session: artefacts (signatures,      *)
(* ciphertexts, CMS messages, certificates) are PRODUCED by one tool and   *)
(* later OPENED (verified / decrypted) by another, possibly after the file *)
(* or the circumstances changed.  What a shell script sees is the exit     *)
(* status, so the contract is stated on it:                                *)
(*   - producing succeeds (status 0, non-empty output) exactly for         *)
(*     admissible input, and never reports success for input it did not    *)
(*     process completely;                                                 *)
(*   - opening an artefact made in this session succeeds exactly when the  *)
(*     file is untouched AND the key, the identity and the message offered *)
(*     are the right ones, and then gives back the original content.       *)
(* Trace events (tools/clilib.py): CliProduce{id, tool, admissible, rc,    *)
(* outlen}, CliOpen{src, tool, untouched, rightkey, rightid, rightmsg, rc, *)
(* same}, Reset.  rc is the process exit status (0 = success).             *)
(***************************************************************************)
EXTENDS Integers, Sequences, FiniteSets, TLC, Json, IOUtils
VARIABLES l, made
TraceLog == ndJsonDeserialize(IOEnv.TRACE)
Ev == TraceLog[l]
IsEvent(e) == l <= Len(TraceLog) /\ Ev.e = e /\ l' = l + 1
Chk(cond) == IF cond THEN TRUE ELSE PrintT(<<"MISMATCH", l>>)
Init == l = 1 /\ made = {}
TProduce == /\ IsEvent("CliProduce")
            /\ Chk((Ev.admissible = 1) <=> (Ev.rc = 0))
            /\ Chk(Ev.rc = 0 => Ev.outlen > 0)
            /\ made' = IF Ev.rc = 0 THEN made \cup {Ev.id} ELSE made
Facts(e) == e.untouched = 1 /\ e.rightkey = 1 /\ e.rightid = 1 /\ e.rightmsg = 1
TOpen == /\ IsEvent("CliOpen") /\ Ev.src \in made
         /\ Chk((Ev.rc = 0) <=> Facts(Ev))
         /\ Chk(Facts(Ev) => Ev.same = 1)
         /\ UNCHANGED made
(* a digest / MAC / derived key printed by a tool equals the value the reference construction gives for the same file and parameters *)
TDigest == /\ IsEvent("CliDigest") /\ Chk(Ev.rc = 0 /\ Ev.got = Ev.expect) /\ UNCHANGED made
TReset == IsEvent("Reset") /\ made' = {}
Next == TProduce \/ TOpen \/ TDigest \/ TReset
Spec == Init /\ [][Next]_<<l, made>>
Accepted == LET d == TLCGet("stats").diameter IN IF d - 1 = Len(TraceLog) THEN TRUE ELSE PrintT(<<"REJECTED", d, TraceLog[d].e>>) /\ FALSE
=============================================================================
