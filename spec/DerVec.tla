------------------------------- MODULE DerVec -------------------------------
(***************************************************************************)
(* C14: TLC enumerates small inputs of every primitive ASN.1 type          *)
(* exhaustively, computes from the executable DER definitions what a       *)
(* strict decoder must answer (verdict, value, bytes consumed) and what    *)
(* the canonical encoder must produce, and prints the vectors that are     *)
(* replayed into the library (harness/derdrv.c).                           *)
(***************************************************************************)
EXTENDS Der

CONSTANTS Kind, MaxLen

VARIABLE v
Alpha == {0, 1, 2, 3, 127, 128, 129, 130, 255}
Strings(A, n) == UNION {[1..k -> A] : k \in 0..n}

(* ------------------------------ decoders (input = tag followed by the enumerated bytes) ------------------------------ *)
Bad == [ok |-> FALSE, val |-> <<>>, used |-> 0]
DecLength(s) == LET t == Tlv(<<4>> \o s, 1, 1 + Len(s) + 100000) IN       \* length octets only: place them behind a dummy tag, ignore the body bound
                IF Len(s) = 0 THEN Bad ELSE
                LET l0 == s[1] IN
                IF l0 < 128 THEN [ok |-> TRUE, val |-> <<l0>>, used |-> 1]
                ELSE LET nb == l0 - 128 IN
                     IF nb = 0 \/ nb > 4 \/ Len(s) < 1 + nb THEN Bad
                     ELSE LET x == BeVal(s, 2, nb, 0) IN
                          IF s[2] = 0 \/ (nb = 1 /\ x < 128) \/ (nb = 4 /\ s[2] >= 128) THEN Bad       \* shortest form; values below 2^31
                          ELSE [ok |-> TRUE, val |-> <<x>>, used |-> 1 + nb]
DecInteger(s) == LET b == <<2>> \o s  t == Tlv(b, 1, Len(b)) IN
                 IF ~t.ok \/ ~UIntContentOK(Sub(b, t.body, t.next - 1)) THEN Bad
                 ELSE [ok |-> TRUE, val |-> LET m == UIntMagnitude(Sub(b, t.body, t.next - 1)) IN (IF m = <<>> THEN <<0>> ELSE m), used |-> t.next - 1]
DecInt(s) == LET r == DecInteger(s) IN IF ~r.ok \/ Len(r.val) > 4 \/ (Len(r.val) = 4 /\ r.val[1] >= 128) THEN Bad ELSE [ok |-> TRUE, val |-> <<BeVal(r.val, 1, Len(r.val), 0)>>, used |-> r.used]
DecBoolean(s) == LET b == <<1>> \o s  t == Tlv(b, 1, Len(b)) IN
                 IF ~t.ok \/ ~BoolContentOK(Sub(b, t.body, t.next - 1)) THEN Bad ELSE [ok |-> TRUE, val |-> <<IF b[t.body] = 255 THEN 1 ELSE 0>>, used |-> t.next - 1]
(* BIT STRING: first content octet = unused bits 0..7 (0 when there are no data octets); the unused bits of the last octet are zero *)
DecBitString(s) == LET b == <<3>> \o s  t == Tlv(b, 1, Len(b)) IN
                   IF ~t.ok \/ t.len = 0 THEN Bad
                   ELSE IF t.len = 1 THEN (IF b[t.body] # 0 THEN Bad ELSE [ok |-> TRUE, val |-> <<0>>, used |-> t.next - 1])      \* the empty bit string, 03 01 00 -- what asn1_bit_string_to_der writes for 0 bits
                   ELSE LET u == b[t.body]  data == Sub(b, t.body + 1, t.next - 1) IN
                        IF u > 7 \/ (Len(data) = 0 /\ u # 0) THEN Bad
                        ELSE IF Len(data) > 0 /\ data[Len(data)] % (2 ^ u) # 0 THEN [ok |-> FALSE, val |-> <<>>, used |-> -2]      \* non-zero padding bits: tolerated
                        ELSE [ok |-> TRUE, val |-> <<8 * Len(data) - u>> \o data, used |-> t.next - 1]
(* OBJECT IDENTIFIER content: base-128 subidentifiers, each in shortest form (no leading 0x80), each below 2^31 here *)
RECURSIVE SubIds(_, _, _, _)
SubIds(c, i, cur, started) ==          \* returns a sequence of subidentifiers, or <<-1>> on a malformed content
    IF i > Len(c) THEN (IF started THEN <<-1>> ELSE <<>>)
    ELSE IF ~started /\ c[i] = 128 THEN <<-2>>                                     \* leading zero digit: not the shortest form (tolerated: not in the property's list)
    ELSE IF cur >= 16777216 THEN <<-2>>                                            \* beyond 31 bits: outside what this enumeration represents
    ELSE LET nv == cur * 128 + (c[i] % 128) IN
         IF c[i] >= 128 THEN SubIds(c, i + 1, nv, TRUE)
         ELSE LET rest == SubIds(c, i + 1, 0, FALSE) IN IF rest = <<-1>> \/ rest = <<-2>> THEN rest ELSE <<nv>> \o rest
DecOid(s) == LET b == <<6>> \o s  t == Tlv(b, 1, Len(b)) IN
             IF ~t.ok \/ t.len = 0 THEN Bad
             ELSE LET ids == SubIds(Sub(b, t.body, t.next - 1), 1, 0, FALSE) IN
                  IF ids = <<-2>> THEN [ok |-> FALSE, val |-> <<>>, used |-> -2]
                  ELSE IF ids = <<-1>> \/ Len(ids) + 1 > 32 THEN Bad
                  ELSE LET f == ids[1]  a0 == IF f < 40 THEN 0 ELSE IF f < 80 THEN 1 ELSE 2 IN
                       [ok |-> TRUE, val |-> <<a0, f - 40 * a0>> \o Tail(ids), used |-> t.next - 1]
(* ------------------------------ encoders ------------------------------ *)
RECURSIVE B128(_)
B128(x) == IF x < 128 THEN <<x>> ELSE LET hi == B128(x \div 128) IN [j \in 1..Len(hi) |-> IF hi[j] < 128 THEN hi[j] + 128 ELSE hi[j]] \o <<x % 128>>
EncOid(arcs) == EncTlv(6, B128(arcs[1] * 40 + arcs[2]) \o FoldLeft(LAMBDA acc, j : acc \o B128(arcs[j]), <<>>, [j \in 1..(Len(arcs) - 2) |-> j + 2]))
RECURSIVE MinBytes(_)
MinBytes(x) == IF x < 256 THEN <<x>> ELSE MinBytes(x \div 256) \o <<x % 256>>
EncInt(x) == EncUInt(MinBytes(x))
EncBool(x) == <<1, 1, IF x = 1 THEN 255 ELSE 0>>
(* ------------------------------ character strings ------------------------------ *)
In(x, lo, hi) == x >= lo /\ x <= hi
RECURSIVE Utf8OK(_, _)
Utf8OK(s, i) ==
    IF i > Len(s) THEN TRUE
    ELSE LET b == s[i]  n == Len(s) - i IN
         IF b < 128 THEN Utf8OK(s, i + 1)
         ELSE IF In(b, 194, 223) THEN n >= 1 /\ In(s[i + 1], 128, 191) /\ Utf8OK(s, i + 2)
         ELSE IF b = 224 THEN n >= 2 /\ In(s[i + 1], 160, 191) /\ In(s[i + 2], 128, 191) /\ Utf8OK(s, i + 3)
         ELSE IF In(b, 225, 236) \/ In(b, 238, 239) THEN n >= 2 /\ In(s[i + 1], 128, 191) /\ In(s[i + 2], 128, 191) /\ Utf8OK(s, i + 3)
         ELSE IF b = 237 THEN n >= 2 /\ In(s[i + 1], 128, 159) /\ In(s[i + 2], 128, 191) /\ Utf8OK(s, i + 3)
         ELSE IF b = 240 THEN n >= 3 /\ In(s[i + 1], 144, 191) /\ In(s[i + 2], 128, 191) /\ In(s[i + 3], 128, 191) /\ Utf8OK(s, i + 4)
         ELSE IF In(b, 241, 243) THEN n >= 3 /\ In(s[i + 1], 128, 191) /\ In(s[i + 2], 128, 191) /\ In(s[i + 3], 128, 191) /\ Utf8OK(s, i + 4)
         ELSE IF b = 244 THEN n >= 3 /\ In(s[i + 1], 128, 143) /\ In(s[i + 2], 128, 191) /\ In(s[i + 3], 128, 191) /\ Utf8OK(s, i + 4)
         ELSE FALSE
PrintableChar(x) == In(x, 65, 90) \/ In(x, 97, 122) \/ In(x, 48, 57) \/ x \in {32, 39, 40, 41, 43, 44, 45, 46, 47, 58, 61, 63}
PrintableOK(s) == \A j \in 1..Len(s) : PrintableChar(s[j])
Ia5OK(s) == \A j \in 1..Len(s) : s[j] < 128
(* ------------------------------ time: civil date <-> days since 1970-01-01 (proleptic Gregorian) ------------------------------ *)
Leap(y) == (y % 4 = 0 /\ y % 100 # 0) \/ y % 400 = 0
DaysInMonth(y, m) == IF m = 2 THEN (IF Leap(y) THEN 29 ELSE 28) ELSE IF m \in {4, 6, 9, 11} THEN 30 ELSE 31
DaysBeforeYear(y) == 365 * (y - 1970) + ((y - 1969) \div 4) - ((y - 1901) \div 100) + ((y - 1601) \div 400)
DaysBeforeMonth(y, m) == FoldLeft(LAMBDA acc, k : acc + DaysInMonth(y, k), 0, [k \in 1..(m - 1) |-> k])
DaysOf(y, m, d) == DaysBeforeYear(y) + DaysBeforeMonth(y, m) + d - 1
Dig2(x) == <<48 + (x \div 10), 48 + (x % 10)>>
Dig4(x) == Dig2(x \div 100) \o Dig2(x % 100)
UtcString(y, m, d, hh, mm, ss) == Dig2(y % 100) \o Dig2(m) \o Dig2(d) \o Dig2(hh) \o Dig2(mm) \o Dig2(ss) \o <<90>>
GenString(y, m, d, hh, mm, ss) == Dig4(y) \o Dig2(m) \o Dig2(d) \o Dig2(hh) \o Dig2(mm) \o Dig2(ss) \o <<90>>

(* ------------------------------ enumeration ------------------------------ *)
Dates == {<<1970, 1, 1>>, <<1999, 12, 31>>, <<2000, 1, 1>>, <<2000, 2, 28>>, <<2000, 2, 29>>, <<2000, 3, 1>>, <<2024, 2, 29>>, <<2026, 9, 21>>, <<2037, 12, 31>>, <<2038, 1, 19>>, <<2038, 1, 20>>,
          <<2049, 12, 31>>, <<2050, 1, 1>>, <<2099, 12, 31>>, <<2100, 2, 28>>, <<2100, 3, 1>>, <<2400, 2, 29>>, <<9999, 12, 31>>, <<1970, 12, 31>>, <<1972, 2, 29>>, <<2001, 9, 9>>}
Clock == {<<0, 0, 0>>, <<23, 59, 59>>, <<12, 30, 15>>, <<0, 0, 1>>}
Utf8Alpha == {65, 127, 128, 191, 192, 193, 194, 223, 224, 160, 159, 237, 239, 240, 144, 143, 244, 245, 255}
OidArcs == {0, 1, 39, 40, 127, 128, 16383, 16384, 2097151, 2097152, 268435455, 268435456, 2147483647}
Init ==
    CASE Kind \in {"length", "integer", "int", "boolean", "bitstring", "oid"} -> v \in Strings(Alpha, MaxLen)
      [] Kind = "utf8" -> v \in Strings(Utf8Alpha, MaxLen)
      [] Kind = "printable" -> v \in Strings({32, 33, 42, 43, 48, 57, 58, 59, 64, 65, 90, 91, 95, 96, 97, 122, 123, 127, 128, 39, 63}, MaxLen)
      [] Kind = "encint" -> v \in ({0, 1, 127, 128, 255, 256, 32767, 32768, 65535, 65536, 8388607, 8388608, 16777215, 16777216, 2147483647} \cup (0..300))
      [] Kind = "encoid" -> v \in {<<a0, a1>> \o r : a0 \in {0, 1, 2}, a1 \in {0, 1, 39}, r \in Strings(OidArcs, MaxLen)}
      [] Kind = "time" -> v \in {<<d, c>> : d \in Dates, c \in Clock}
Next == UNCHANGED v
Spec == Init /\ [][Next]_v
Res(r) == <<IF r.ok THEN 1 ELSE IF r.used = -2 THEN 2 ELSE 0, r.val, r.used>>      \* 2 = either answer is tolerated
Emit ==
    CASE Kind = "length"    -> PrintT(<<"V", Kind, v, Res(DecLength(v))>>)
      [] Kind = "integer"   -> PrintT(<<"V", Kind, <<2>> \o v, Res(DecInteger(v))>>)
      [] Kind = "int"       -> PrintT(<<"V", Kind, <<2>> \o v, Res(DecInt(v))>>)
      [] Kind = "boolean"   -> PrintT(<<"V", Kind, <<1>> \o v, Res(DecBoolean(v))>>)
      [] Kind = "bitstring" -> PrintT(<<"V", Kind, <<3>> \o v, Res(DecBitString(v))>>)
      [] Kind = "oid"       -> PrintT(<<"V", Kind, <<6>> \o v, Res(DecOid(v))>>)
      [] Kind = "utf8"      -> PrintT(<<"V", Kind, v, <<IF Len(v) > 0 /\ Utf8OK(v, 1) THEN 1 ELSE 2, <<>>, 0>>>>)   \* valid strings must be accepted; the property does not speak about invalid ones
      [] Kind = "printable" -> PrintT(<<"V", Kind, v, <<IF PrintableOK(v) THEN 1 ELSE 0, <<IF Ia5OK(v) THEN 1 ELSE 0>>, 0>>>>)
      [] Kind = "encint"    -> PrintT(<<"V", Kind, <<v>>, <<1, EncInt(v), 0>>>>)
      [] Kind = "encoid"    -> PrintT(<<"V", Kind, v, <<1, EncOid(v), 0>>>>)
      [] Kind = "time"      -> LET d == v[1]  c == v[2]  days == DaysOf(d[1], d[2], d[3])  secs == c[1] * 3600 + c[2] * 60 + c[3] IN
                               PrintT(<<"V", Kind, <<days, secs, d[1]>>, <<1, IF d[1] < 2050 /\ d[1] >= 1950 THEN UtcString(d[1], d[2], d[3], c[1], c[2], c[3]) ELSE <<>>, 0>>,
                                        GenString(d[1], d[2], d[3], c[1], c[2], c[3])>>)
=============================================================================
