SPECIFICATION Spec
CONSTANTS
  Protos <- P3
  Budget = 0
  MaxApp = 1
  CredCases <- AllCreds
INVARIANTS Agreement AuthServer AuthClient TamperDetected AppOnlyFromPeer
CHECK_DEADLOCK FALSE
