-------------------------------- MODULE Leak --------------------------------
(***************************************************************************)
(* C19: secret material never appears on diagnostic channels.              *)
(* Secrets are identities; the only action that may put secret s on file   *)
(* descriptor 1 or 2 is an explicitly requested print of the object that   *)
(* contains s, with that descriptor as the destination the caller chose.   *)
(* The trace judge: one Op event per library operation with the set of     *)
(* secrets the harness could name and the subset found (raw / hex of       *)
(* either case / base64) in what the operation wrote to fd 1 and fd 2.     *)
(***************************************************************************)
EXTENDS Integers, Sequences, FiniteSets, TLC, Json, IOUtils
VARIABLES l, leaked
TraceLog == ndJsonDeserialize(IOEnv.TRACE)
Ev == TraceLog[l]
Chk(cond) == IF cond THEN TRUE ELSE PrintT(<<"MISMATCH", l>>)
Init == l = 1 /\ leaked = {}
(* hits = names of the secrets found on fd 1 / fd 2 during this operation *)
TOp == /\ l <= Len(TraceLog) /\ Ev.e = "Op" /\ l' = l + 1
       /\ Chk(Ev.explicit = 1 \/ Len(Ev.hits) = 0)
       /\ leaked' = IF Ev.explicit = 1 THEN leaked ELSE leaked \cup {Ev.hits[i] : i \in 1..Len(Ev.hits)}
TReset == l <= Len(TraceLog) /\ Ev.e = "Reset" /\ l' = l + 1 /\ UNCHANGED leaked
Next == TOp \/ TReset
Spec == Init /\ [][Next]_<<l, leaked>>
NothingLeaked == leaked = {}
Accepted == LET d == TLCGet("stats").diameter IN IF d - 1 = Len(TraceLog) THEN TRUE ELSE PrintT(<<"REJECTED", d, TraceLog[d].e>>) /\ FALSE
=============================================================================
