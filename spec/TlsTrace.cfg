SPECIFICATION TraceSpec
CONSTANTS
  Protos <- TP
  Budget = 3
  MaxApp = 1000000
  CredCases <- TC
CONSTRAINT Progress
POSTCONDITION Accepted
CHECK_DEADLOCK FALSE
