------------------------------- MODULE Stream -------------------------------
(***************************************************************************)
(* The init / update* / finish contract shared by every hash, MAC, cipher  *)
(* mode, AEAD and text codec of the library (C03 C04 C05 C14), and the     *)
(* buffer machines that implement it.                                      *)
(*                                                                         *)
(* Contract: what the primitive is given, and what the caller gets back,   *)
(* depends only on the concatenation of the update inputs -- never on how  *)
(* they were cut into chunks, and every call writes no more than the size  *)
(* it reports when queried.                                                *)
(*                                                                         *)
(* Impl (four machines, chosen by Kind):                                   *)
(*   "md"     partial-block buffer; every completed block goes to the      *)
(*            compression function; finish appends padding and length      *)
(*   "enc"    block-cipher encryption with padding: completed blocks are   *)
(*            emitted, finish emits the padded last block                  *)
(*   "dec"    decryption with padding: the last complete block is held     *)
(*            back until finish, which strips the padding                  *)
(*   "aead"   streaming AEAD decryption: the last TagLen symbols are held  *)
(*            back as the tag; everything before is released               *)
(* Symbols stand for bytes, B for the block size.                          *)
(***************************************************************************)
EXTENDS Integers, Sequences, FiniteSets, TLC, SequencesExt

CONSTANTS Kind, B, TagLen, MaxLen, MaxChunks, MaxChunkLen, Sym

VARIABLES fed,        \* concatenation of all update inputs so far
          buf,        \* Impl: bytes buffered inside the context
          handed,     \* Impl: sequence of complete blocks handed to the primitive, in order
          released,   \* Impl: symbols released to the caller so far (enc/dec/aead: positions of fed they derive from)
          phase,      \* "open" | "done" | "error"
          chunks,     \* ghost: the chunk lengths used (behaviour generation)
          lastQ, lastN \* size reported for the last call when queried / size actually written
vars == <<fed, buf, handed, released, phase, chunks, lastQ, lastN>>

Blocks(s) == [i \in 1..(Len(s) \div B) |-> SubSeq(s, B * (i - 1) + 1, B * i)]
Rest(s) == SubSeq(s, B * (Len(s) \div B) + 1, Len(s))
PadSym == 0
(* padding used by "md" (one marker, zeros, one length symbol) and by "enc" (PKCS#7-like: always 1..B symbols) *)
MdPad(s) == LET z == (B - 2 - (Len(s) % B)) % B IN s \o <<1>> \o [i \in 1..(IF z < 0 THEN z + B ELSE z) |-> 0] \o <<Len(s) % 2>>
EncPad(s) == s \o [i \in 1..(B - (Len(s) % B)) |-> PadSym]

Init == fed = <<>> /\ buf = <<>> /\ handed = <<>> /\ released = 0 /\ phase = "open" /\ chunks = <<>> /\ lastQ = 0 /\ lastN = 0

(* number of symbols an update of n more symbols can release at most, as the query interface reports it *)
QueryUpdate(n) == CASE Kind = "md" -> 0
                    [] Kind \in {"enc", "dec"} -> ((Len(buf) + n) \div B) * B
                    [] Kind = "aead" -> n + Len(buf)
Update(c) ==
    /\ phase = "open" /\ Len(fed) + Len(c) <= MaxLen /\ Len(chunks) < MaxChunks
    /\ fed' = fed \o c /\ chunks' = Append(chunks, Len(c))
    /\ lastQ' = QueryUpdate(Len(c))
    /\ LET all == buf \o c IN
       CASE Kind = "md" ->
               /\ handed' = handed \o Blocks(all) /\ buf' = Rest(all) /\ released' = released /\ lastN' = 0
         [] Kind = "enc" ->
               /\ handed' = handed \o Blocks(all) /\ buf' = Rest(all)
               /\ released' = released + B * Len(Blocks(all)) /\ lastN' = B * Len(Blocks(all))
         [] Kind = "dec" ->
               \* keep the last complete block (it may be the padding block)
               LET nb == Len(all) \div B
                   keep == IF nb > 0 /\ Len(all) % B = 0 THEN nb - 1 ELSE nb IN
               /\ handed' = handed \o SubSeq(Blocks(all), 1, keep)
               /\ buf' = SubSeq(all, B * keep + 1, Len(all))
               /\ released' = released + B * keep /\ lastN' = B * keep
         [] Kind = "aead" ->
               LET rel == IF Len(all) > TagLen THEN Len(all) - TagLen ELSE 0 IN
               /\ handed' = handed \o <<SubSeq(all, 1, rel)>>
               /\ buf' = SubSeq(all, rel + 1, Len(all))
               /\ released' = released + rel /\ lastN' = rel
    /\ UNCHANGED phase
Finish ==
    /\ phase = "open"
    /\ CASE Kind = "md" ->
               /\ handed' = handed \o SubSeq(Blocks(MdPad(fed)), Len(handed) + 1, Len(Blocks(MdPad(fed))))
               /\ phase' = "done" /\ buf' = <<>> /\ UNCHANGED released /\ lastQ' = 1 /\ lastN' = 1
         [] Kind = "enc" ->
               /\ handed' = Append(handed, EncPad(buf)) /\ released' = released + B /\ phase' = "done" /\ buf' = <<>> /\ lastQ' = B /\ lastN' = B
         [] Kind = "dec" ->
               IF Len(buf) = B
               THEN /\ handed' = Append(handed, buf) /\ phase' = "done" /\ buf' = <<>>
                    /\ released' = released + (B - 1) /\ lastQ' = B /\ lastN' = B - 1       \* at most B-1 symbols remain after unpadding (toy: pad of 1)
               ELSE /\ phase' = "error" /\ UNCHANGED <<handed, buf, released>> /\ lastQ' = B /\ lastN' = 0
         [] Kind = "aead" ->
               IF Len(buf) = TagLen THEN phase' = "done" /\ UNCHANGED <<handed, buf, released>> /\ lastQ' = 0 /\ lastN' = 0
               ELSE phase' = "error" /\ UNCHANGED <<handed, buf, released>> /\ lastQ' = 0 /\ lastN' = 0
    /\ UNCHANGED <<fed, chunks>>
(* the content of the stream is a fixed function of the position (distinct neighbours), so only the chunk lengths branch *)
NextSyms(n) == [i \in 1..n |-> (Len(fed) + i) % Sym]
Next == (\E n \in 0..MaxChunkLen : Update(NextSyms(n))) \/ Finish
Spec == Init /\ [][Next]_vars

(* ------------------------------ contract ------------------------------ *)
Flat(ss) == FoldLeft(LAMBDA a, s : a \o s, <<>>, ss)
(* what reached the primitive is a function of the concatenation only *)
HandedIsFunctionOfFed ==
    CASE Kind = "md"  -> /\ phase = "open" => (handed = Blocks(fed) /\ buf = Rest(fed))
                         /\ phase = "done" => handed = Blocks(MdPad(fed))
      [] Kind = "enc" -> /\ phase = "open" => (handed = Blocks(fed) /\ buf = Rest(fed))
                         /\ phase = "done" => handed = Blocks(EncPad(fed))
      [] Kind = "dec" -> /\ Flat(handed) \o buf = fed \/ phase = "done"
                         /\ phase = "done" => Flat(handed) = fed
                         /\ phase = "open" => (Len(buf) <= B /\ (Len(fed) >= B => Len(buf) >= 1))
      [] Kind = "aead" -> /\ Flat(handed) \o buf = fed
                          /\ Len(fed) >= TagLen => Len(buf) = TagLen      \* exactly the tag is held back
(* nothing beyond the admissible prefix is ever released *)
ReleaseBound ==
    CASE Kind = "md" -> released = 0
      [] Kind = "enc" -> released = B * Len(handed)
      [] Kind = "dec" -> released <= Len(fed) /\ (phase = "open" => released = B * Len(handed))
      [] Kind = "aead" -> released = (IF Len(fed) > TagLen THEN Len(fed) - TagLen ELSE 0)
WritesWithinQuery == lastN <= lastQ
(* behaviour generation: print the chunking of every completed run (used with -workers 1 to obtain transition-covering chunkings) *)
EmitChunks == (phase = "done" /\ Len(fed) = MaxLen) => PrintT(<<"CHUNKS", chunks>>)
=============================================================================
