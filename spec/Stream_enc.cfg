SPECIFICATION Spec
CONSTANTS Kind = "enc" B = 3 TagLen = 2 MaxLen = 11 MaxChunks = 6 MaxChunkLen = 4 Sym = 5
INVARIANTS HandedIsFunctionOfFed ReleaseBound WritesWithinQuery
CHECK_DEADLOCK FALSE
