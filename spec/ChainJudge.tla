---------------------------- MODULE ChainJudge ----------------------------
(* Judge for the conformance replay of C07: evaluates the property (Chain!SoundOf / MustOf) on chains read from a file and prints the verdicts. *)
EXTENDS Integers, Sequences, FiniteSets, TLC, Json, IOUtils
VARIABLE i
C == INSTANCE Chain WITH MaxCAs <- 4, Depths <- {0}, Forms <- {"tls"}, Roles <- {"server"}, Full <- TRUE, BcRequired <- TRUE,
                         form <- "tls", role <- "server", depth <- 0, n <- 0, cur <- 0, encLeaf <- 0, pathLen <- 0, verdict <- "run", sound <- TRUE, must <- TRUE, hist <- <<>>
Cases == ndJsonDeserialize(IOEnv.TRACE)
Init == i = 1
Next == /\ i <= Len(Cases) /\ i' = i + 1
        /\ LET c == Cases[i] IN PrintT(<<"VERDICT", i, C!SoundOf(c.form, c.role, c.depth, c.hist), C!MustOf(c.form, c.role, c.depth, c.hist)>>)
Spec == Init /\ [][Next]_i
=============================================================================
