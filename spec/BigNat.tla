------------------------------- MODULE BigNat -------------------------------
(***************************************************************************)
(* Exact natural-number arithmetic beyond TLC's 32-bit integers: numbers   *)
(* are little-endian sequences of 12-bit limbs (base 4096), so that column *)
(* sums of a schoolbook product of 64-limb operands stay below 2^31.       *)
(* The specification never computes inverses or remainders itself: it      *)
(* CHECKS relations (a*b = q*m + r, r < m) on witnesses supplied from      *)
(* outside.  A wrong witness can only make a true statement unprovable,    *)
(* never a false one provable.                                              *)
(***************************************************************************)
EXTENDS Integers, Sequences, SequencesExt, TLC
Base == 4096

RECURSIVE Carry(_, _, _)
Carry(s, i, c) == IF i > Len(s) THEN (IF c = 0 THEN <<>> ELSE <<c % Base>> \o Carry(<<>>, 1, c \div Base))
                  ELSE LET v == s[i] + c IN <<v % Base>> \o Carry(s, i + 1, v \div Base)
RECURSIVE Strip(_)
Strip(a) == IF Len(a) > 0 /\ a[Len(a)] = 0 THEN Strip(SubSeq(a, 1, Len(a) - 1)) ELSE a
NormRaw(s) == Strip(Carry(s, 1, 0))
Norm(s) == CHOOSE r \in {NormRaw(x) : x \in {s}} : TRUE
MaxL(a, b) == IF Len(a) > Len(b) THEN Len(a) ELSE Len(b)
At(a, i) == IF i >= 1 /\ i <= Len(a) THEN a[i] ELSE 0
(* TLC passes operator arguments unevaluated and re-evaluates them at every use; binding them through a singleton set *)
(* ({Op(x, y) : x \in {a}, y \in {b}}) evaluates each argument exactly once, which keeps nested formulas linear.        *)
Once1(Op(_), a) == CHOOSE r \in {Op(x) : x \in {a}} : TRUE
Once2(Op(_, _), a, b) == CHOOSE r \in {Op(x, y) : x \in {a}, y \in {b}} : TRUE
AddRaw(a, b) == Norm([i \in 1..MaxL(a, b) |-> At(a, i) + At(b, i)])
Add(a, b) == Once2(AddRaw, a, b)
MulRaw(a, b) == IF Len(a) = 0 \/ Len(b) = 0 THEN <<>>
             ELSE Norm([k \in 1..(Len(a) + Len(b) - 1) |->
                      FoldLeft(LAMBDA acc, i : acc + At(a, i) * At(b, k - i + 1), 0, [i \in 1..Len(a) |-> i])])
Mul(a, b) == Once2(MulRaw, a, b)
Eq(a, b) == Strip(a) = Strip(b)
RECURSIVE LtFrom(_, _, _)
LtFrom(a, b, i) == IF i = 0 THEN FALSE ELSE IF At(a, i) < At(b, i) THEN TRUE ELSE IF At(a, i) > At(b, i) THEN FALSE ELSE LtFrom(a, b, i - 1)
LtRaw(a, b) == LtFrom(a, b, MaxL(a, b))
Lt(a, b) == \E x \in {a}, y \in {b} : LtRaw(x, y)
Le(a, b) == Lt(a, b) \/ Eq(a, b)
IsZero(a) == Strip(a) = <<>>
Small(n) == Norm(<<n>>)        \* n < 2^31
(* conversions from big-endian byte strings (as logged by the harness): 3 bytes = 2 limbs *)
FromBytes(b) == LET pad == (3 - (Len(b) % 3)) % 3
                    bb == [i \in 1..pad |-> 0] \o b
                    n == Len(bb) \div 3
                IN Strip([j \in 1..(2 * n) |->
                       LET t == n - ((j + 1) \div 2) + 1            \* triple index, counted from the front
                           b1 == bb[3 * t - 2]  b2 == bb[3 * t - 1]  b3 == bb[3 * t]
                       IN IF j % 2 = 1 THEN (b2 % 16) * 256 + b3 ELSE b1 * 16 + (b2 \div 16)])
(* witness relations *)
(* a*b = q*m + r with r < m: r is a*b mod m *)
MulModOK(a, b, m, q, r) == Eq(Mul(a, b), Add(Mul(q, m), r)) /\ Lt(r, m)
(* A == B + r (mod m) with 0 <= r < m, witnessed by k and a side flag: r = (A - B) mod m *)
DiffModOK(A, B, m, k, side, r) == /\ Lt(r, m)
                                  /\ IF side = 0 THEN Eq(A, Add(Add(B, r), Mul(k, m)))       \* A >= B + r
                                                 ELSE Eq(Add(A, Mul(k, m)), Add(B, r))       \* A + k*m = B + r
=============================================================================
