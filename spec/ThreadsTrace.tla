---------------------------- MODULE ThreadsTrace ----------------------------
(* Trace judge for C20: Run / Op events of harness/thrdrv.c.  Every thread's operations appear in its program order, each returns the    *)
(* digest it returns when the thread runs alone (field expect, taken from the sequential run of the same workload), a scheduled run      *)
(* follows its schedule, and a run ends only when every thread has completed all its operations.                                         *)
EXTENDS Integers, Sequences, TLC, Json, IOUtils
VARIABLES l, pc, pos, cur
TraceLog == ndJsonDeserialize(IOEnv.TRACE)
Ev == TraceLog[l]
Chk(cond) == IF cond THEN TRUE ELSE PrintT(<<"MISMATCH", l>>)
Init == l = 1 /\ pc = <<>> /\ pos = 0 /\ cur = [threads |-> 0, ops |-> 0, mode |-> "none", sched |-> <<>>]
TRun == /\ l <= Len(TraceLog) /\ Ev.e = "Run" /\ l' = l + 1
        /\ cur' = [threads |-> Ev.threads, ops |-> Ev.ops, mode |-> Ev.mode, sched |-> Ev.sched]
        /\ pc' = [t \in 1..Ev.threads |-> 0] /\ pos' = 0
TOp == /\ l <= Len(TraceLog) /\ Ev.e = "Op" /\ l' = l + 1 /\ UNCHANGED cur
       /\ Chk(/\ Ev.t + 1 \in DOMAIN pc /\ Ev.k = pc[Ev.t + 1]                       \* program order
              /\ Ev.d = Ev.expect                                                   \* the result of running alone
              /\ Ev.ones >= Ev.minones                                              \* the operation really succeeded (not vacuously equal failures)
              /\ (cur.mode = "sched" => pos + 1 <= Len(cur.sched) /\ cur.sched[pos + 1] = Ev.t))
       /\ pc' = (IF Ev.t + 1 \in DOMAIN pc THEN [pc EXCEPT ![Ev.t + 1] = @ + 1] ELSE pc) /\ pos' = pos + 1
TReset == /\ l <= Len(TraceLog) /\ Ev.e = "Reset" /\ l' = l + 1
          /\ Chk(\A t \in DOMAIN pc : pc[t] = cur.ops)
          /\ UNCHANGED <<pc, pos, cur>>
Next == TRun \/ TOp \/ TReset
Spec == Init /\ [][Next]_<<l, pc, pos, cur>>
Accepted == LET d == TLCGet("stats").diameter IN IF d - 1 = Len(TraceLog) THEN TRUE ELSE PrintT(<<"REJECTED", d, TraceLog[d].e>>) /\ FALSE
=============================================================================
