SPECIFICATION Spec
CONSTANTS
  Protos <- P3
  Budget = 3
  MaxApp = 1
  CredCases <- OnlyGood
INVARIANTS Agreement AuthServer AuthClient TamperDetected AppOnlyFromPeer
CHECK_DEADLOCK FALSE
