------------------------------- MODULE Sm2Sig -------------------------------
(***************************************************************************)
(* C01 / C02 context machines: the streaming SM2 signing context           *)
(* (sm2_sign_init / update / finish / reset) with its pool of pre-computed *)
(* nonces, and the encryption context with its pool of (k, C1) pairs.      *)
(* Contract: every finish consumes a nonce never used before (also across  *)
(* a pool refill and across resets), and what is signed is Z followed by   *)
(* exactly the bytes fed since the last init/reset, whatever the chunking. *)
(***************************************************************************)
EXTENDS Integers, Sequences, FiniteSets, TLC

CONSTANTS PoolSize, MaxFinish, MaxLen

VARIABLES pool,       \* Impl: remaining pre-computed nonces (identities = entropy positions)
          nextNonce,  \* next fresh entropy position
          fed,        \* Impl: digest input accumulated in the context after Z
          ghost,      \* what the caller fed since the last init / reset
          emitted,    \* sequence of [nonce, signed]
          nfin
vars == <<pool, nextNonce, fed, ghost, emitted, nfin>>
Fill(from) == [j \in 1..PoolSize |-> from + j - 1]
Init == pool = Fill(1) /\ nextNonce = PoolSize + 1 /\ fed = <<>> /\ ghost = <<>> /\ emitted = <<>> /\ nfin = 0
Update(c) == /\ Len(ghost) + Len(c) <= MaxLen /\ fed' = fed \o c /\ ghost' = ghost \o c /\ UNCHANGED <<pool, nextNonce, emitted, nfin>>
Finish == /\ nfin < MaxFinish /\ nfin' = nfin + 1
          /\ LET p == IF pool = <<>> THEN Fill(nextNonce) ELSE pool            \* refill an exhausted pool with fresh draws
                 nn == IF pool = <<>> THEN nextNonce + PoolSize ELSE nextNonce IN
             /\ emitted' = Append(emitted, [nonce |-> p[Len(p)], signed |-> <<"Z">> \o fed])
             /\ pool' = SubSeq(p, 1, Len(p) - 1) /\ nextNonce' = nn
          /\ UNCHANGED <<fed, ghost>>
Reset == fed' = <<>> /\ ghost' = <<>> /\ UNCHANGED <<pool, nextNonce, emitted, nfin>>
Next == (\E c \in {<<>>, <<1>>, <<1, 2>>} : Update(c)) \/ Finish \/ Reset
Spec == Init /\ [][Next]_vars
NonceUsedOnce == \A a, b \in 1..Len(emitted) : a # b => emitted[a].nonce # emitted[b].nonce
SignedIsZThenMessage == fed = ghost /\ \A a \in 1..Len(emitted) : emitted[a].signed[1] = "Z"
PoolBounded == Len(pool) <= PoolSize
=============================================================================
