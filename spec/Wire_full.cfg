SPECIFICATION Spec
CONSTANTS Alphabet = {0, 1, 2, 3, 4, 48, 128, 129, 130, 133, 255} MaxLen = 6 DropLenBytesCheck = FALSE
INVARIANTS NoOverread ScopesNested MachineAgreesWithFunction
CHECK_DEADLOCK FALSE
