--------------------------------- MODULE Der ---------------------------------
(***************************************************************************)
(* Strict DER (X.690) as executable definitions on byte sequences:         *)
(* canonical encoders and decoders that accept exactly the canonical form. *)
(* Used to judge what the library accepts and produces (C01 C02 C14).      *)
(***************************************************************************)
EXTENDS Integers, Sequences, FiniteSets, TLC, SequencesExt

Sub(b, from, to) == SubSeq(b, from, to)
NoTlv == [ok |-> FALSE, tag |-> 0, body |-> 0, len |-> 0, next |-> 0]
RECURSIVE BeVal(_, _, _, _)
BeVal(b, from, k, acc) == IF k = 0 THEN acc ELSE BeVal(b, from + 1, k - 1, acc * 256 + b[from])
(* header at position pos (1-based) of b, the element must end at or before `lim` (index of the last usable byte) *)
Tlv(b, pos, lim) ==
    IF pos + 1 > lim THEN NoTlv
    ELSE LET tag == b[pos]  l0 == b[pos + 1] IN
         IF tag % 32 = 31 THEN NoTlv                                            \* high tag numbers are not used by these formats
         ELSE IF l0 < 128 THEN
                 (IF pos + 1 + l0 > lim THEN NoTlv ELSE [ok |-> TRUE, tag |-> tag, body |-> pos + 2, len |-> l0, next |-> pos + 2 + l0])
         ELSE LET nb == l0 - 128 IN
              IF nb = 0 \/ nb > 3 \/ pos + 1 + nb > lim THEN NoTlv                \* indefinite length, or absurdly long
              ELSE LET v == BeVal(b, pos + 2, nb, 0) IN
                   IF b[pos + 2] = 0 \/ v < 128 \/ (nb = 2 /\ v < 256) \/ (nb = 3 /\ v < 65536) THEN NoTlv   \* not the shortest form
                   ELSE IF pos + 1 + nb + v > lim THEN NoTlv
                   ELSE [ok |-> TRUE, tag |-> tag, body |-> pos + 2 + nb, len |-> v, next |-> pos + 2 + nb + v]
(* canonical length octets *)
EncLen(n) == IF n < 128 THEN <<n>> ELSE IF n < 256 THEN <<129, n>> ELSE IF n < 65536 THEN <<130, n \div 256, n % 256>>
             ELSE <<131, n \div 65536, (n \div 256) % 256, n % 256>>
EncTlv(tag, content) == <<tag>> \o EncLen(Len(content)) \o content
(* INTEGER: content of a non-negative integer in minimal form *)
UIntContentOK(c) == Len(c) >= 1 /\ c[1] < 128 /\ (Len(c) > 1 /\ c[1] = 0 => c[2] >= 128)
RECURSIVE StripZeros(_)
StripZeros(c) == IF Len(c) > 0 /\ c[1] = 0 THEN StripZeros(Tail(c)) ELSE c
UIntMagnitude(c) == StripZeros(c)                      \* big-endian magnitude without leading zeros (<<>> = 0)
EncUInt(mag) == LET m == StripZeros(mag) IN            \* canonical INTEGER content for a big-endian magnitude
                EncTlv(2, IF Len(m) = 0 THEN <<0>> ELSE IF m[1] >= 128 THEN <<0>> \o m ELSE m)
BoolContentOK(c) == Len(c) = 1 /\ c[1] \in {0, 255}
(* a SEQUENCE of exactly two non-negative INTEGERs filling the whole input (SM2 signature) *)
TwoInts(b) ==
    LET outer == Tlv(b, 1, Len(b)) IN
    IF ~outer.ok \/ outer.tag # 48 \/ outer.next # Len(b) + 1 THEN [ok |-> FALSE, a |-> <<>>, b |-> <<>>]
    ELSE LET lim == outer.next - 1
             t1 == Tlv(b, outer.body, lim) IN
         IF ~t1.ok \/ t1.tag # 2 \/ ~UIntContentOK(Sub(b, t1.body, t1.next - 1)) THEN [ok |-> FALSE, a |-> <<>>, b |-> <<>>]
         ELSE LET t2 == Tlv(b, t1.next, lim) IN
              IF ~t2.ok \/ t2.tag # 2 \/ t2.next # lim + 1 \/ ~UIntContentOK(Sub(b, t2.body, t2.next - 1)) THEN [ok |-> FALSE, a |-> <<>>, b |-> <<>>]
              ELSE [ok |-> TRUE, a |-> UIntMagnitude(Sub(b, t1.body, t1.next - 1)), b |-> UIntMagnitude(Sub(b, t2.body, t2.next - 1))]
EncTwoInts(a, b) == EncTlv(48, EncUInt(a) \o EncUInt(b))
(* SM2 ciphertext: SEQUENCE { INTEGER x, INTEGER y, OCTET STRING hash (32), OCTET STRING ciphertext } filling the whole input *)
Sm2Cipher(b) ==
    LET bad == [ok |-> FALSE, x |-> <<>>, y |-> <<>>, c3 |-> <<>>, c2 |-> <<>>]
        outer == Tlv(b, 1, Len(b)) IN
    IF ~outer.ok \/ outer.tag # 48 \/ outer.next # Len(b) + 1 THEN bad
    ELSE LET lim == outer.next - 1  t1 == Tlv(b, outer.body, lim) IN
      IF ~t1.ok \/ t1.tag # 2 \/ ~UIntContentOK(Sub(b, t1.body, t1.next - 1)) THEN bad
      ELSE LET t2 == Tlv(b, t1.next, lim) IN
        IF ~t2.ok \/ t2.tag # 2 \/ ~UIntContentOK(Sub(b, t2.body, t2.next - 1)) THEN bad
        ELSE LET t3 == Tlv(b, t2.next, lim) IN
          IF ~t3.ok \/ t3.tag # 4 \/ t3.len # 32 THEN bad
          ELSE LET t4 == Tlv(b, t3.next, lim) IN
            IF ~t4.ok \/ t4.tag # 4 \/ t4.next # lim + 1 THEN bad
            ELSE [ok |-> TRUE, x |-> UIntMagnitude(Sub(b, t1.body, t1.next - 1)), y |-> UIntMagnitude(Sub(b, t2.body, t2.next - 1)),
                  c3 |-> Sub(b, t3.body, t3.next - 1), c2 |-> Sub(b, t4.body, t4.next - 1)]
=============================================================================
