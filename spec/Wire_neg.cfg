SPECIFICATION Spec
CONSTANTS Alphabet = {0, 1, 2, 3, 4, 48, 128, 129, 130, 133, 255} MaxLen = 4 DropLenBytesCheck = TRUE
INVARIANTS NoOverread
CHECK_DEADLOCK FALSE
