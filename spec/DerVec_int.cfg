SPECIFICATION Spec
CONSTANTS Kind = "int" MaxLen = 4
INVARIANT Emit
CHECK_DEADLOCK FALSE
