SPECIFICATION Spec
CONSTANTS MaxLen = 3 TagLen = 2 MaxChunks = 4
INVARIANTS AcceptOnlyUntouched UntouchedAccepted HoldBackExact
CHECK_DEADLOCK FALSE
