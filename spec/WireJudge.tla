----------------------------- MODULE WireJudge -----------------------------
(* Conformance judge for the reader core (C06): for every byte string the real asn1_any_type_from_der-based walk was run on, its verdict  *)
(* and node count must be those of Wire!Walk -- the functional form that Wire.cfg shows equal to the checked step machine.              *)
EXTENDS Integers, Sequences, TLC, Json, IOUtils
CONSTANTS Alphabet, MaxLen, DropLenBytesCheck
VARIABLES buf, pos, scopes, phase, tag, len, maxread, nodes, i
W == INSTANCE Wire
Cases == ndJsonDeserialize(IOEnv.TRACE)
Judge(c) == LET r == W!Walk(c.data) IN IF r.ok THEN c.rc = 1 /\ c.nodes = r.nodes ELSE c.rc # 1
Init == i = 1 /\ buf = <<>> /\ pos = 1 /\ scopes = <<0>> /\ phase = "done" /\ tag = 0 /\ len = 0 /\ maxread = 0 /\ nodes = 0
Next == /\ i <= Len(Cases) /\ i' = i + 1 /\ UNCHANGED <<buf, pos, scopes, phase, tag, len, maxread, nodes>>
        /\ IF Judge(Cases[i]) THEN TRUE ELSE PrintT(<<"MISMATCH", i, Cases[i].rc>>)
Spec == Init /\ [][Next]_<<buf, pos, scopes, phase, tag, len, maxread, nodes, i>>
=============================================================================
