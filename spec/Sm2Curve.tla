------------------------------ MODULE Sm2Curve ------------------------------
(***************************************************************************)
(* The SM2 curve y^2 = x^3 + a*x + b over F_p (GB/T 32918.5) and the       *)
(* relations used to judge points, signatures and ciphertexts.  All values *)
(* are BigNat limb sequences; modular facts are checked with witnesses.    *)
(***************************************************************************)
EXTENDS BigNat
HexP == <<255,255,255,254,255,255,255,255,255,255,255,255,255,255,255,255,255,255,255,255,0,0,0,0,255,255,255,255,255,255,255,255>>
HexA == <<255,255,255,254,255,255,255,255,255,255,255,255,255,255,255,255,255,255,255,255,0,0,0,0,255,255,255,255,255,255,255,252>>
HexB == <<40,233,250,158,157,159,94,52,77,90,158,75,207,101,9,167,243,151,137,245,21,171,143,146,221,188,189,65,77,148,14,147>>
HexN == <<255,255,255,254,255,255,255,255,255,255,255,255,255,255,255,255,114,3,223,107,33,198,5,43,83,187,244,9,57,213,65,35>>
HexGx == <<50,196,174,44,31,25,129,25,95,153,4,70,106,57,201,148,143,227,11,191,242,102,11,225,113,90,69,137,51,76,116,199>>
HexGy == <<188,55,54,162,244,246,119,156,89,189,206,227,107,105,33,83,208,169,135,124,198,42,71,64,2,223,50,229,33,57,240,160>>
P == FromBytes(HexP)  A == FromBytes(HexA)  B == FromBytes(HexB)  N == FromBytes(HexN)  Gx == FromBytes(HexGx)  Gy == FromBytes(HexGy)
One == Small(1)
(* y^2 - (x^3 + a*x + b) mod p = r, witnessed by (k, side); the point is on the curve iff r = 0 *)
CurveLhs(y) == Mul(y, y)
CurveRhs(x) == Add(Add(Mul(Mul(x, x), x), Mul(A, x)), B)
CurveResidueOK(x, y, w) == DiffModOK(CurveLhs(y), CurveRhs(x), P, w.k, w.side, w.r)
(* a finite point with both coordinates below p that satisfies the equation *)
ValidPoint(x, y, w) == Lt(x, P) /\ Lt(y, P) /\ CurveResidueOK(x, y, w) /\ IsZero(w.r)
(* chord / tangent addition P1 + P2 = P3 (affine, finite result), with slope lam and three congruence witnesses:   *)
(*   lam*(x2 - x1) == y2 - y1          (or lam*2*y1 == 3*x1^2 + a for doubling)                                    *)
(*   x3 == lam^2 - x1 - x2 ;  y3 == lam*(x1 - x3) - y1            -- written without subtraction                   *)
Cong(Aa, Bb, w) == DiffModOK(Aa, Bb, P, w.k, w.side, <<>>)
AddOK(x1, y1, x2, y2, x3, y3, lam, w1, w2, w3, dbl) ==
    /\ Lt(x3, P) /\ Lt(y3, P) /\ Lt(lam, P)
    /\ IF dbl THEN Eq(x1, x2) /\ Eq(y1, y2) /\ Cong(Mul(lam, Mul(Small(2), y1)), Add(Mul(Small(3), Mul(x1, x1)), A), w1)
              ELSE ~Eq(x1, x2) /\ Cong(Add(Mul(lam, x2), y1), Add(Mul(lam, x1), y2), w1)
    /\ Cong(Add(Add(x3, x1), x2), Mul(lam, lam), w2)
    /\ Cong(Add(Add(y3, y1), Mul(lam, x3)), Mul(lam, x1), w3)
(* ------------------------------ scalar multiplication chain ------------------------------ *)
(* chain: steps [x1,y1,x2,y2,x3,y3,lam,w1k,w1s,w2k,w2s,w3k,w3s,dbl]; left-to-right double-and-add of scalar k on base (bx,by) *)
StepOK(st) == AddOK(st.x1, st.y1, st.x2, st.y2, st.x3, st.y3, st.lam, [k |-> st.w1k, side |-> st.w1s, r |-> <<>>],
                    [k |-> st.w2k, side |-> st.w2s, r |-> <<>>], [k |-> st.w3k, side |-> st.w3s, r |-> <<>>], st.dbl)
Bit(k, j) == (At(k, (j \div 12) + 1) \div (2 ^ (j % 12))) % 2            \* bit j (0 = least significant) of limb sequence k
RECURSIVE TopBit(_, _)
TopBit(k, j) == IF j < 0 THEN -1 ELSE IF Bit(k, j) = 1 THEN j ELSE TopBit(k, j - 1)
(* walk: state = <<x, y, next step index>>; for bits below the top one: double, then add the base if the bit is set *)
ChainOK(k, bx, by, chain, rx, ry) ==
    LET top == TopBit(k, 12 * Len(k) - 1)
        run == FoldLeft(LAMBDA acc, jj :
                   LET j == top - jj                                   \* bit index processed (top-1 down to 0)
                       s1 == chain[acc[3]] IN
                   IF ~acc[4] THEN acc
                   ELSE LET okd == s1.dbl /\ Eq(s1.x1, acc[1]) /\ Eq(s1.y1, acc[2]) /\ StepOK(s1) IN
                        IF Bit(k, j) = 0 THEN <<s1.x3, s1.y3, acc[3] + 1, okd>>
                        ELSE LET s2 == chain[acc[3] + 1]
                                 oka == ~s2.dbl /\ Eq(s2.x1, s1.x3) /\ Eq(s2.y1, s1.y3) /\ Eq(s2.x2, bx) /\ Eq(s2.y2, by) /\ StepOK(s2) IN
                             <<s2.x3, s2.y3, acc[3] + 2, okd /\ oka>>,
                   <<bx, by, 1, top >= 0>>, [jj \in 1..top |-> jj])
    IN run[4] /\ Eq(run[1], rx) /\ Eq(run[2], ry) /\ run[3] = Len(chain) + 1

(* scalars *)
ScalarInRange(d) == ~IsZero(d) /\ Lt(Add(d, One), N)          \* 1 <= d <= n-2
SigScalarInRange(r) == ~IsZero(r) /\ Lt(r, N)                 \* 1 <= r <= n-1
=============================================================================
