------------------------------ MODULE Sm2Curve ------------------------------
(***************************************************************************)
(* The SM2 curve y^2 = x^3 + a*x + b over F_p (GB/T 32918.5) and the       *)
(* relations used to judge points, signatures and ciphertexts.  All values *)
(* are BigNat limb sequences; modular facts are checked with witnesses.    *)
(***************************************************************************)
EXTENDS BigNat
HexP == <<255,255,255,254,255,255,255,255,255,255,255,255,255,255,255,255,255,255,255,255,0,0,0,0,255,255,255,255,255,255,255,255>>
HexA == <<255,255,255,254,255,255,255,255,255,255,255,255,255,255,255,255,255,255,255,255,0,0,0,0,255,255,255,255,255,255,255,252>>
HexB == <<40,233,250,158,157,159,94,52,77,90,158,75,207,101,9,167,243,151,137,245,21,171,143,146,221,188,189,65,77,148,14,147>>
HexN == <<255,255,255,254,255,255,255,255,255,255,255,255,255,255,255,255,114,3,223,107,33,198,5,43,83,187,244,9,57,213,65,35>>
HexGx == <<50,196,174,44,31,25,129,25,95,153,4,70,106,57,201,148,143,227,11,191,242,102,11,225,113,90,69,137,51,76,116,199>>
HexGy == <<188,55,54,162,244,246,119,156,89,189,206,227,107,105,33,83,208,169,135,124,198,42,71,64,2,223,50,229,33,57,240,160>>
P == FromBytes(HexP)  A == FromBytes(HexA)  B == FromBytes(HexB)  N == FromBytes(HexN)  Gx == FromBytes(HexGx)  Gy == FromBytes(HexGy)
One == Small(1)
(* y^2 - (x^3 + a*x + b) mod p = r, witnessed by (k, side); the point is on the curve iff r = 0 *)
CurveLhs(y) == Mul(y, y)
CurveRhs(x) == Add(Add(Mul(Mul(x, x), x), Mul(A, x)), B)
CurveResidueOK(x, y, w) == DiffModOK(CurveLhs(y), CurveRhs(x), P, w.k, w.side, w.r)
(* a finite point with both coordinates below p that satisfies the equation *)
ValidPoint(x, y, w) == Lt(x, P) /\ Lt(y, P) /\ CurveResidueOK(x, y, w) /\ IsZero(w.r)
(* chord / tangent addition P1 + P2 = P3 (affine, finite result), with slope lam and three congruence witnesses:   *)
(*   lam*(x2 - x1) == y2 - y1          (or lam*2*y1 == 3*x1^2 + a for doubling)                                    *)
(*   x3 == lam^2 - x1 - x2 ;  y3 == lam*(x1 - x3) - y1            -- written without subtraction                   *)
Cong(Aa, Bb, w) == DiffModOK(Aa, Bb, P, w.k, w.side, <<>>)
AddOK(x1, y1, x2, y2, x3, y3, lam, w1, w2, w3, dbl) ==
    /\ Lt(x3, P) /\ Lt(y3, P) /\ Lt(lam, P)
    /\ IF dbl THEN Eq(x1, x2) /\ Eq(y1, y2) /\ Cong(Mul(lam, Mul(Small(2), y1)), Add(Mul(Small(3), Mul(x1, x1)), A), w1)
              ELSE ~Eq(x1, x2) /\ Cong(Add(Mul(lam, x2), y1), Add(Mul(lam, x1), y2), w1)
    /\ Cong(Add(Add(x3, x1), x2), Mul(lam, lam), w2)
    /\ Cong(Add(Add(y3, y1), Mul(lam, x3)), Mul(lam, x1), w3)
(* scalars *)
ScalarInRange(d) == ~IsZero(d) /\ Lt(Add(d, One), N)          \* 1 <= d <= n-2
SigScalarInRange(r) == ~IsZero(r) /\ Lt(r, N)                 \* 1 <= r <= n-1
=============================================================================
