SPECIFICATION Spec
CONSTANTS Objects = {"k1", "k2", "k3"} DebugBuild = FALSE
INVARIANT OnlyAskedSecretsAppear
CHECK_DEADLOCK FALSE
