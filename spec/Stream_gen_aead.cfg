SPECIFICATION Spec
CONSTANTS Kind = "aead" B = 3 TagLen = 2 MaxLen = 9 MaxChunks = 4 MaxChunkLen = 7 Sym = 5
INVARIANTS EmitChunks
CHECK_DEADLOCK FALSE
