--------------------------- MODULE EntropyTrace ---------------------------
(***************************************************************************)
(* Trace validation for C18 (harness/entdrv.c and the handshake driver):   *)
(* events  Stream{seed}  OpBegin{op,seed,failat}  Draw{ok,pos,n}            *)
(*         Emit{kind}  OpEnd{op,rc,eph,outlen}.                             *)
(* Contract:                                                                *)
(*  - positions of the entropy stream are consumed in order, once;          *)
(*  - an operation whose draw failed returns failure and emits nothing     *)
(*    (protocol endpoints may still emit an alert);                         *)
(*  - a successful operation consumed entropy;                              *)
(*  - same operation, same stream => same ephemeral value; different       *)
(*    stream => different value; within one stream no value repeats.        *)
(***************************************************************************)
EXTENDS Integers, Sequences, FiniteSets, TLC, Json, IOUtils
VARIABLES l, pos, inOp, failed, drew, emittedAfterFail, seen, stream, streamVals
vars == <<l, pos, inOp, failed, drew, emittedAfterFail, seen, stream, streamVals>>
TraceLog == ndJsonDeserialize(IOEnv.TRACE)
Ev == TraceLog[l]
IsEvent(e) == l <= Len(TraceLog) /\ Ev.e = e /\ l' = l + 1
Chk(cond) == IF cond THEN TRUE ELSE PrintT(<<"MISMATCH", l>>)

Init == l = 1 /\ pos = 0 /\ inOp = FALSE /\ failed = FALSE /\ drew = 0 /\ emittedAfterFail = FALSE /\ seen = {} /\ stream = 0 /\ streamVals = {}
TBegin == /\ IsEvent("OpBegin") /\ ~inOp /\ inOp' = TRUE /\ failed' = FALSE /\ drew' = 0 /\ emittedAfterFail' = FALSE
          /\ IF Ev.rep = 0 THEN pos' = 0 /\ stream' = Ev.seed /\ streamVals' = {} ELSE UNCHANGED <<pos, stream, streamVals>>
          /\ UNCHANGED seen
TDraw == /\ IsEvent("Draw")
         /\ IF Ev.ok = 1 THEN Chk(Ev.pos = pos) /\ pos' = Ev.pos + Ev.n /\ drew' = drew + 1 /\ UNCHANGED failed
                         ELSE failed' = TRUE /\ UNCHANGED <<pos, drew>>
         /\ UNCHANGED <<inOp, emittedAfterFail, seen, stream, streamVals>>
(* something left the operation (a protocol record): after a failed draw only an alert may *)
TEmit == /\ IsEvent("Emit") /\ emittedAfterFail' = (emittedAfterFail \/ (failed /\ Ev.kind # "alert"))
         /\ UNCHANGED <<pos, inOp, failed, drew, seen, stream, streamVals>>
TEnd == /\ IsEvent("OpEnd") /\ inOp /\ inOp' = FALSE
        /\ Chk((failed \/ Ev.entfail = 1) => (Ev.rc # 1 /\ ~emittedAfterFail))                       \* fail closed
        /\ Chk((Ev.rc = 1 /\ Ev.persist = 0) => Ev.draws >= 1)                                       \* takes its randomness from the source (a persistent context may have drawn it earlier)
        /\ Chk((Ev.rc = 1 /\ Ev.nonceop = 1) => Ev.nsrc >= 1)                                        \* the secret scalar behind the result is one of the values drawn (and in range)
        /\ IF Ev.rc = 1 /\ Ev.failat = 0
           THEN /\ Chk(\A s \in seen : (s[1] = Ev.op /\ s[3] = Ev.rep) => ((s[2] = stream) <=> (s[4] = Ev.eph)))   \* same stream <=> same value
                /\ seen' = seen \cup {<<Ev.op, stream, Ev.rep, Ev.eph>>}
           ELSE UNCHANGED seen
        /\ IF Ev.rc = 1 /\ (Ev.failat = 0 \/ Ev.persist = 1)          \* a context that outlives a failed draw must not fall back on randomness it has already used
           THEN Chk(Ev.eph \notin streamVals) /\ streamVals' = streamVals \cup {Ev.eph}         \* no ephemeral value repeats within a stream
           ELSE UNCHANGED streamVals
        /\ UNCHANGED <<pos, failed, drew, emittedAfterFail, stream>>
TReset == IsEvent("Reset") /\ inOp' = FALSE /\ UNCHANGED <<pos, failed, drew, emittedAfterFail, seen, stream, streamVals>>
TNewGroup == IsEvent("Group") /\ seen' = {} /\ inOp' = FALSE /\ UNCHANGED <<pos, failed, drew, emittedAfterFail, stream, streamVals>>
Next == TBegin \/ TDraw \/ TEmit \/ TEnd \/ TReset \/ TNewGroup
Spec == Init /\ [][Next]_vars
Accepted == LET d == TLCGet("stats").diameter IN IF d - 1 = Len(TraceLog) THEN TRUE ELSE PrintT(<<"REJECTED", d, TraceLog[d].e>>) /\ FALSE
=============================================================================
