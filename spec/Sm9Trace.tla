------------------------------ MODULE Sm9Trace ------------------------------
(* Trace judge for the SM9 scheme calls of harness/sm9drv.c (C17).  Facts the harness cannot know (what the independent reference     *)
(* implementation of GM/T 0044 derives, verifies or decrypts) are attached to each event by the check; the contract is Sm9.tla's:     *)
(* genuine signatures verify and nothing else does, the addressee decrypts and nobody else does, both exchange sides agree.            *)
EXTENDS Integers, Sequences, TLC, Json, IOUtils
VARIABLES l
TraceLog == ndJsonDeserialize(IOEnv.TRACE)
Ev == TraceLog[l]
Chk(cond) == IF cond THEN TRUE ELSE PrintT(<<"MISMATCH", l>>)
IsOp(o) == l <= Len(TraceLog) /\ Ev.e = "S9" /\ Ev.op = o /\ l' = l + 1
Init == l = 1
(* extraction yields the key the standard defines; signing succeeds and the reference verifier accepts the signature *)
TSign == IsOp("sign") /\ Chk(Ev.bad = 0 /\ Ev.xrc = 1 /\ Ev.ppub = Ev.refppub /\ Ev.ds = Ev.refds /\ Ev.rc = 1 /\ Ev.refverifies)
(* verification accepts exactly the genuine (master key, identity, message, signature) combinations *)
TVerify == IsOp("verify") /\ Chk(IF Ev.genuine THEN Ev.rc = 1 ELSE Ev.rc # 1)
(* encryption succeeds and the reference decrypts it to the plaintext *)
TEncrypt == IsOp("encrypt") /\ Chk(Ev.bad = 0 /\ Ev.rc = 1 /\ Ev.ppub = Ev.refppub /\ Ev.refdecrypts)
(* decryption returns the plaintext exactly for the addressee's key and identity on the unmodified ciphertext *)
TDecrypt == IsOp("decrypt") /\ Chk(Ev.xrc = 1 /\ Ev.de = Ev.refde /\ (IF Ev.genuine THEN Ev.rc = 1 /\ Ev.out = Ev.expect ELSE Ev.rc # 1))
(* both parties derive the key the reference derives *)
TExchange == IsOp("exchange") /\ Chk(Ev.xa = 1 /\ Ev.xb = 1 /\ Ev.rc1a = 1 /\ Ev.rc1b = 1 /\ Ev.rc2a = 1 /\ Ev.RA = Ev.refRA /\ Ev.skA = Ev.skB /\ Ev.skA = Ev.refsk)
(* key extraction: the key GM/T 0044 defines -- and no key at all for the one master secret per identity with t1 = H1(ID||hid) + ks = 0 (mod N) *)
TExtract == (IsOp("sign_extract") \/ IsOp("enc_extract") \/ IsOp("exch_extract"))
            /\ Chk(IF Ev.t1zero THEN Ev.xrc # 1 ELSE Ev.xrc = 1 /\ Ev.key = Ev.refkey)
(* many encapsulations / exchanges with a one-octet key (about one in 256 has to draw a second nonce because an all-zero key is not output): in every one of *)
(* them both sides hold the same key                                                                                                                           *)
TLoop == (IsOp("kemloop") \/ IsOp("exchloop")) /\ Chk(Ev.xrc = 1 /\ Ev.rcbad = 0 /\ Ev.agree = Ev.trials)
TReset == l <= Len(TraceLog) /\ Ev.e = "Reset" /\ l' = l + 1
Next == TSign \/ TVerify \/ TEncrypt \/ TDecrypt \/ TExchange \/ TExtract \/ TLoop \/ TReset
Spec == Init /\ [][Next]_l
Accepted == LET d == TLCGet("stats").diameter IN IF d - 1 = Len(TraceLog) THEN TRUE ELSE PrintT(<<"REJECTED", d, TraceLog[d].e>>) /\ FALSE
=============================================================================
