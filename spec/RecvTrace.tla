----------------------------- MODULE RecvTrace -----------------------------
(***************************************************************************)
(* What an application may be handed by tls_recv / tls13_recv after the     *)
(* handshake, when it keeps calling the function also after an error       *)
(* return (a retry loop, a second reader thread, a poll loop).              *)
(*                                                                         *)
(* The peer (tools/roguepeer.py, which holds the keys) sends a sequence of *)
(* protected records: application data, and records that must be refused   *)
(* (another content type, a malformed alert, an all-padding inner          *)
(* plaintext, a broken MAC or tag).  State: `sent` = the application-data  *)
(* payloads the peer really wrote, in order; `got` = everything the        *)
(* application was handed so far.  Contract: `got` is always the           *)
(* concatenation of a subsequence of `sent` -- a refused record is never   *)
(* delivered later, nothing is delivered twice or out of order, and        *)
(* nothing is invented.  (That every genuine record IS delivered on an     *)
(* undisturbed connection is C08's business, TlsTrace.tla.)                *)
(* Events: PeerData{data}, PeerOther{what}, Recv{rc, data}, Reset.         *)
(***************************************************************************)
EXTENDS Integers, Sequences, FiniteSets, TLC, Json, IOUtils
VARIABLES l, sent, got
TraceLog == ndJsonDeserialize(IOEnv.TRACE)
Ev == TraceLog[l]
IsEvent(e) == l <= Len(TraceLog) /\ Ev.e = e /\ l' = l + 1
Chk(cond) == IF cond THEN TRUE ELSE PrintT(<<"MISMATCH", l>>)

RECURSIVE Flat(_)
Flat(ss) == IF ss = <<>> THEN <<>> ELSE Head(ss) \o Flat(Tail(ss))
(* the records of `ss` whose index is in I, in order *)
SetToSortedSeq(I) == CHOOSE q \in [1..Cardinality(I) -> I] : \A a, b \in 1..Cardinality(I) : a < b => q[a] < q[b]
Explained(g, ss) == \E I \in SUBSET (1..Len(ss)) : Flat([k \in 1..Cardinality(I) |-> ss[SetToSortedSeq(I)[k]]]) = g

Init == l = 1 /\ sent = <<>> /\ got = <<>>
TPeerData == IsEvent("PeerData") /\ sent' = Append(sent, Ev.data) /\ UNCHANGED got
TPeerOther == IsEvent("PeerOther") /\ UNCHANGED <<sent, got>>
TRecv == /\ IsEvent("Recv")
         /\ got' = IF Ev.rc = 1 THEN got \o Ev.data ELSE got
         /\ Chk(Ev.rc # 1 => Len(Ev.data) = 0)
         /\ Chk(Explained(got', sent))
         /\ UNCHANGED sent
TReset == IsEvent("Reset") /\ sent' = <<>> /\ got' = <<>>
Next == TPeerData \/ TPeerOther \/ TRecv \/ TReset
Spec == Init /\ [][Next]_<<l, sent, got>>
Accepted == LET d == TLCGet("stats").diameter IN IF d - 1 = Len(TraceLog) THEN TRUE ELSE PrintT(<<"REJECTED", d, TraceLog[d].e>>) /\ FALSE
=============================================================================
