------------------------------- MODULE Modes -------------------------------
(***************************************************************************)
(* Block-cipher modes of operation, AEAD constructions and the TLS record  *)
(* protection layouts, written from their standards over an uninterpreted  *)
(* block cipher (table rows p = "<cipher>e" / "<cipher>d", i = key \o      *)
(* block) and an uninterpreted GF(2^128) multiplication (p = "gfmul",      *)
(* i = x \o y).  GB/T 17964 (ECB CBC CFB OFB CTR XTS), SP 800-38C (CCM),   *)
(* SP 800-38D (GCM), ISO 9797-1 alg. 1 (CBC-MAC), RFC 5246 6.2.3.2 (CBC +  *)
(* HMAC records), RFC 8446 5.2 (TLS 1.3 records).                          *)
(***************************************************************************)
EXTENDS Crypto

E(T, c, k, b) == Lookup(T, c \o "e", k \o b)
D(T, c, k, b) == Lookup(T, c \o "d", k \o b)
Blk(s, i) == SubSeq(s, 16 * (i - 1) + 1, 16 * i)
NBlk(s) == Len(s) \div 16
IdxSeq(n) == [i \in 1..n |-> i]

(* ------------------------------ ECB ------------------------------ *)
EcbEnc(T, c, k, m) == Concat([i \in 1..NBlk(m) |-> E(T, c, k, Blk(m, i))])
EcbDec(T, c, k, m) == Concat([i \in 1..NBlk(m) |-> D(T, c, k, Blk(m, i))])

(* ------------------------------ CBC ------------------------------ *)
CbcEnc(T, c, k, iv, m) ==
    FoldLeft(LAMBDA acc, i : LET x == E(T, c, k, XorB(Blk(m, i), acc[1])) IN <<x, acc[2] \o x>>, <<iv, <<>>>>, IdxSeq(NBlk(m)))[2]
CbcDec(T, c, k, iv, ct) ==
    Concat([i \in 1..NBlk(ct) |-> XorB(D(T, c, k, Blk(ct, i)), IF i = 1 THEN iv ELSE Blk(ct, i - 1))])
Pkcs7(m) == LET p == 16 - (Len(m) % 16) IN m \o Rep(p, p)
CbcPadEnc(T, c, k, iv, m) == CbcEnc(T, c, k, iv, Pkcs7(m))
(* decryption with padding: [ok, out] *)
Unpad(p) == LET n == Len(p)  v == IF n = 0 THEN 0 ELSE p[n] IN
            IF n = 0 \/ n % 16 # 0 \/ v < 1 \/ v > 16 \/ (\E j \in (n - v + 1)..n : p[j] # v)
            THEN [ok |-> FALSE, out |-> <<>>] ELSE [ok |-> TRUE, out |-> Take(p, n - v)]
CbcPadDec(T, c, k, iv, ct) == IF Len(ct) = 0 \/ Len(ct) % 16 # 0 THEN [ok |-> FALSE, out |-> <<>>] ELSE Unpad(CbcDec(T, c, k, iv, ct))

(* ------------------------------ counters ------------------------------ *)
(* add n to the big-endian integer held in the last w bytes of the 16-byte counter block, modulo 256^w *)
RECURSIVE AddBE(_, _)
AddBE(bytes, n) == IF Len(bytes) = 0 THEN <<>>
                   ELSE LET v == bytes[Len(bytes)] + (n % 256)
                        IN AddBE(Take(bytes, Len(bytes) - 1), (n \div 256) + (v \div 256)) \o <<v % 256>>
CtrBlock(ctr, n, w) == Take(ctr, 16 - w) \o AddBE(Drop(ctr, 16 - w), n)
(* keystream of len bytes from counter blocks ctr, ctr+1, ... (counter width w bytes) *)
CtrStream(T, c, k, ctr, len, w) == Take(Concat([i \in 1..CeilDiv(len, 16) |-> E(T, c, k, CtrBlock(ctr, i - 1, w))]), len)
CtrEnc(T, c, k, ctr, m) == XorB(m, CtrStream(T, c, k, ctr, Len(m), 16))
Ctr32Enc(T, c, k, ctr, m) == XorB(m, CtrStream(T, c, k, ctr, Len(m), 4))

(* ------------------------------ OFB ------------------------------ *)
OfbStream(T, c, k, iv, len) ==
    Take(FoldLeft(LAMBDA acc, i : LET x == E(T, c, k, acc[1]) IN <<x, acc[2] \o x>>, <<iv, <<>>>>, IdxSeq(CeilDiv(len, 16)))[2], len)
OfbEnc(T, c, k, iv, m) == XorB(m, OfbStream(T, c, k, iv, Len(m)))

(* ------------------------------ CFB with s-byte segments ------------------------------ *)
Seg(m, s, j) == SubSeq(m, s * (j - 1) + 1, MinI(s * j, Len(m)))
CfbEnc(T, c, k, iv, s, m) ==
    FoldLeft(LAMBDA acc, j : LET p == Seg(m, s, j)
                                 x == XorB(p, Take(E(T, c, k, acc[1]), Len(p)))
                             IN <<Drop(acc[1], s) \o x \o Zeros(s - Len(x)), acc[2] \o x>>,
             <<iv, <<>>>>, IdxSeq(CeilDiv(Len(m), s)))[2]
CfbDec(T, c, k, iv, s, ct) ==
    FoldLeft(LAMBDA acc, j : LET x == Seg(ct, s, j)
                                 p == XorB(x, Take(E(T, c, k, acc[1]), Len(x)))
                             IN <<Drop(acc[1], s) \o x \o Zeros(s - Len(x)), acc[2] \o p>>,
             <<iv, <<>>>>, IdxSeq(CeilDiv(Len(ct), s)))[2]

(* ------------------------------ XTS (GB/T 17964-2021: tweak multiplication in the GCM bit order) ------------------------------ *)
(* multiply by x: shift the 128-bit string right by one bit (bit 0 = most significant bit of byte 1); reduce with 0xE1 *)
MulX(t) == LET sh == [i \in 1..16 |-> (t[i] \div 2) + (IF i > 1 THEN (t[i - 1] % 2) * 128 ELSE 0)]
           IN IF t[16] % 2 = 1 THEN <<sh[1] ^^ 225>> \o Drop(sh, 1) ELSE sh
RECURSIVE MulXn(_, _)
MulXn(t, n) == IF n = 0 THEN t ELSE MulXn(MulX(t), n - 1)
XtsBlockEnc(T, c, k1, tw, b) == XorB(E(T, c, k1, XorB(b, tw)), tw)
XtsBlockDec(T, c, k1, tw, b) == XorB(D(T, c, k1, XorB(b, tw)), tw)
XtsEnc(T, c, k1, k2, tweak, m) ==
    LET t0 == E(T, c, k2, tweak)
        n == Len(m) \div 16   r == Len(m) % 16
        full == IF r = 0 THEN n ELSE n - 1
        head == Concat([i \in 1..full |-> XtsBlockEnc(T, c, k1, MulXn(t0, i - 1), Blk(m, i))])
    IN IF r = 0 THEN head
       ELSE LET cc == XtsBlockEnc(T, c, k1, MulXn(t0, n - 1), Blk(m, n))
                pp == Drop(m, 16 * n) \o Drop(cc, r)
            IN head \o XtsBlockEnc(T, c, k1, MulXn(t0, n), pp) \o Take(cc, r)
XtsDec(T, c, k1, k2, tweak, ct) ==
    LET t0 == E(T, c, k2, tweak)
        n == Len(ct) \div 16   r == Len(ct) % 16
        full == IF r = 0 THEN n ELSE n - 1
        head == Concat([i \in 1..full |-> XtsBlockDec(T, c, k1, MulXn(t0, i - 1), Blk(ct, i))])
    IN IF r = 0 THEN head
       ELSE LET pp == XtsBlockDec(T, c, k1, MulXn(t0, n), Blk(ct, n))
                cc == Drop(ct, 16 * n) \o Drop(pp, r)
            IN head \o XtsBlockDec(T, c, k1, MulXn(t0, n - 1), cc) \o Take(pp, r)

(* the streaming XTS interface: consecutive data units of `unit` bytes, the tweak being a little-endian counter of units *)
Rev(s) == [i \in 1..Len(s) |-> s[Len(s) + 1 - i]]
TweakAdd(iv, n) == Rev(AddBE(Rev(iv), n))
XtsUnits(T, c, k1, k2, iv, unit, m, enc) ==
    IF Len(m) % unit # 0 THEN [ok |-> FALSE, out |-> <<>>]
    ELSE [ok |-> TRUE, out |-> Concat([j \in 1..(Len(m) \div unit) |->
              LET u == SubSeq(m, unit * (j - 1) + 1, unit * j) IN
              IF enc THEN XtsEnc(T, c, k1, k2, TweakAdd(iv, j - 1), u) ELSE XtsDec(T, c, k1, k2, TweakAdd(iv, j - 1), u)])]

(* ------------------------------ CBC-MAC (zero IV, zero padding of the last block, as sm4_cbc_mac) ------------------------------ *)
CbcMac(T, c, k, m) == LET p == m \o Zeros((16 - (Len(m) % 16)) % 16)
                      IN IF Len(m) = 0 THEN Zeros(16)
                         ELSE FoldLeft(LAMBDA acc, i : E(T, c, k, XorB(acc, Blk(p, i))), Zeros(16), IdxSeq(NBlk(p)))

(* ------------------------------ GHASH / GCM (SP 800-38D) ------------------------------ *)
GfMul(T, x, y) == Lookup(T, "gfmul", x \o y)
ZPad16(s) == s \o Zeros((16 - (Len(s) % 16)) % 16)
GhashBlocks(T, h, s) == FoldLeft(LAMBDA acc, i : GfMul(T, XorB(acc, Blk(s, i)), h), Zeros(16), IdxSeq(NBlk(s)))
Ghash(T, h, aad, ct) == GhashBlocks(T, h, ZPad16(aad) \o ZPad16(ct) \o BitLenBE(Len(aad), 8) \o BitLenBE(Len(ct), 8))
GcmJ0(T, h, iv) == IF Len(iv) = 12 THEN iv \o <<0, 0, 0, 1>> ELSE GhashBlocks(T, h, ZPad16(iv) \o Zeros(8) \o BitLenBE(Len(iv), 8))
GcmEnc(T, c, k, iv, aad, m, taglen) ==
    LET h == E(T, c, k, Zeros(16))  j0 == GcmJ0(T, h, iv)
        ct == XorB(m, CtrStream(T, c, k, CtrBlock(j0, 1, 4), Len(m), 4))
        tag == XorB(E(T, c, k, j0), Ghash(T, h, aad, ct))
    IN [ct |-> ct, tag |-> Take(tag, taglen)]
GcmDec(T, c, k, iv, aad, ct, tag) ==
    LET h == E(T, c, k, Zeros(16))  j0 == GcmJ0(T, h, iv)
        full == XorB(E(T, c, k, j0), Ghash(T, h, aad, ct))
    IN IF Take(full, Len(tag)) = tag THEN [ok |-> TRUE, out |-> XorB(ct, CtrStream(T, c, k, CtrBlock(j0, 1, 4), Len(ct), 4))]
       ELSE [ok |-> FALSE, out |-> <<>>]

(* ------------------------------ CCM (SP 800-38C) ------------------------------ *)
CcmB0(nonce, alen, mlen, tlen) ==
    LET q == 15 - Len(nonce)
        flags == (IF alen > 0 THEN 64 ELSE 0) + 8 * ((tlen - 2) \div 2) + (q - 1)
    IN <<flags>> \o nonce \o Zeros(q - 4) \o BE(mlen, MinI(q, 4))           \* q >= 2; lengths < 2^31
CcmAadEnc(alen) == IF alen = 0 THEN <<>> ELSE IF alen < 65280 THEN BE(alen, 2) ELSE <<255, 254>> \o BE4(alen)
CcmTagRaw(T, c, k, nonce, aad, m, tlen) ==
    LET b == CcmB0(nonce, Len(aad), Len(m), tlen) \o (IF Len(aad) = 0 THEN <<>> ELSE ZPad16(CcmAadEnc(Len(aad)) \o aad)) \o ZPad16(m)
    IN FoldLeft(LAMBDA acc, i : E(T, c, k, XorB(acc, Blk(b, i))), Zeros(16), IdxSeq(NBlk(b)))
CcmCtr(nonce, i) == LET q == 15 - Len(nonce) IN <<q - 1>> \o nonce \o Zeros(q - MinI(q, 4)) \o BE(i, MinI(q, 4))
CcmStream(T, c, k, nonce, len) == Take(Concat([i \in 1..CeilDiv(len, 16) |-> E(T, c, k, CcmCtr(nonce, i))]), len)
CcmEnc(T, c, k, nonce, aad, m, tlen) ==
    [ct |-> XorB(m, CcmStream(T, c, k, nonce, Len(m))),
     tag |-> Take(XorB(CcmTagRaw(T, c, k, nonce, aad, m, tlen), E(T, c, k, CcmCtr(nonce, 0))), tlen)]
CcmDec(T, c, k, nonce, aad, ct, tag) ==
    LET m == XorB(ct, CcmStream(T, c, k, nonce, Len(ct)))
        t == Take(XorB(CcmTagRaw(T, c, k, nonce, aad, m, Len(tag)), E(T, c, k, CcmCtr(nonce, 0))), Len(tag))
    IN IF t = tag THEN [ok |-> TRUE, out |-> m] ELSE [ok |-> FALSE, out |-> <<>>]

(* ------------------------------ encrypt-then-MAC composites of the library (SM4-CBC / SM4-CTR with SM3-HMAC) ------------------------------ *)
(* layout produced by sm4_cbc_sm3_hmac / sm4_ctr_sm3_hmac: ciphertext \o HMAC-SM3(mackey, aad \o ciphertext) *)
CbcHmacEnc(T, k, mk, iv, aad, m) == LET ct == CbcPadEnc(T, "sm4", k, iv, m) IN ct \o Hmac(T, "sm3", mk, aad \o ct)
CbcHmacDec(T, k, mk, iv, aad, in) ==
    IF Len(in) < 32 + 16 THEN [ok |-> FALSE, out |-> <<>>]
    ELSE LET ct == Take(in, Len(in) - 32)  mac == Drop(in, Len(in) - 32) IN
         IF Hmac(T, "sm3", mk, aad \o ct) # mac THEN [ok |-> FALSE, out |-> <<>>] ELSE CbcPadDec(T, "sm4", k, iv, ct)
CtrHmacEnc(T, k, mk, ctr, aad, m) == LET ct == CtrEnc(T, "sm4", k, ctr, m) IN ct \o Hmac(T, "sm3", mk, aad \o ct)
CtrHmacDec(T, k, mk, ctr, aad, in) ==
    IF Len(in) < 32 THEN [ok |-> FALSE, out |-> <<>>]
    ELSE LET ct == Take(in, Len(in) - 32)  mac == Drop(in, Len(in) - 32) IN
         IF Hmac(T, "sm3", mk, aad \o ct) # mac THEN [ok |-> FALSE, out |-> <<>>] ELSE [ok |-> TRUE, out |-> CtrEnc(T, "sm4", k, ctr, ct)]

(* ------------------------------ TLS record protection ------------------------------ *)
(* TLCP / TLS 1.2 CBC + HMAC (RFC 5246 6.2.3.2): body = IV \o CBC(payload \o MAC(seq \o type \o version \o len \o payload) \o padding) *)
TlsCbcBody(T, mk, k, seq, hdr3, iv, payload) ==
    LET mac == Hmac(T, "sm3", mk, seq \o hdr3 \o BE(Len(payload), 2) \o payload)
        pl == 16 - ((Len(payload) + 32) % 16)                      \* 1..16 bytes each holding pl-1
        pt == payload \o mac \o Rep(pl - 1, pl)
    IN iv \o CbcEnc(T, "sm4", k, iv, pt)
TlsCbcOpen(T, mk, k, seq, hdr3, body) ==
    IF Len(body) < 16 + 48 \/ Len(body) % 16 # 0 THEN [ok |-> FALSE, out |-> <<>>]
    ELSE LET iv == Take(body, 16)  pt == CbcDec(T, "sm4", k, iv, Drop(body, 16))
             n == Len(pt)  pv == pt[n] IN
         IF pv + 1 + 32 > n \/ (\E j \in (n - pv)..n : pt[j] # pv) THEN [ok |-> FALSE, out |-> <<>>]
         ELSE LET payload == Take(pt, n - pv - 1 - 32)  mac == SubSeq(pt, n - pv - 32, n - pv - 1) IN
              IF Hmac(T, "sm3", mk, seq \o hdr3 \o BE(Len(payload), 2) \o payload) = mac THEN [ok |-> TRUE, out |-> payload]
              ELSE [ok |-> FALSE, out |-> <<>>]
(* TLS 1.3 (RFC 8446 5.2/5.3): nonce = iv xor (0^4 \o seq); inner = payload \o type \o zeros; AAD = record header *)
Tls13Nonce(iv, seq) == XorB(iv, Zeros(4) \o seq)
Tls13Body(T, k, iv, seq, type, payload, padlen) ==
    LET inner == payload \o <<type>> \o Zeros(padlen)
        hdr == <<23, 3, 3>> \o BE(Len(inner) + 16, 2)
        r == GcmEnc(T, "sm4", k, Tls13Nonce(iv, seq), hdr, inner, 16)
    IN r.ct \o r.tag
RECURSIVE LastNonZero(_, _)
LastNonZero(s, i) == IF i = 0 THEN 0 ELSE IF s[i] # 0 THEN i ELSE LastNonZero(s, i - 1)
Tls13Open(T, k, iv, seq, body) ==
    IF Len(body) < 17 THEN [ok |-> FALSE, type |-> 0, out |-> <<>>]
    ELSE LET hdr == <<23, 3, 3>> \o BE(Len(body), 2)
             r == GcmDec(T, "sm4", k, Tls13Nonce(iv, seq), hdr, Take(body, Len(body) - 16), Drop(body, Len(body) - 16)) IN
         IF ~r.ok THEN [ok |-> FALSE, type |-> 0, out |-> <<>>]
         ELSE LET i == LastNonZero(r.out, Len(r.out)) IN
              IF i = 0 THEN [ok |-> FALSE, type |-> 0, out |-> <<>>] ELSE [ok |-> TRUE, type |-> r.out[i], out |-> Take(r.out, i - 1)]
(* ---------------------------------------------------------------------------------------------------------------------- *)
(* Stream ciphers.  The keystream generators are the primitives (table rows "zuc", "zuc256", "zuc256mac32/64/128": key \o iv *)
(* -> keystream bytes; "chacha": key \o counter \o nonce -> one 64-byte block); everything above them is defined here:      *)
(* byte and bit-exact encryption (128-EEA3), the universal-hash MACs (128-EIA3, ZUC-256 MAC) over keystream bit windows,   *)
(* the 3GPP IV layouts, the ChaCha20 block counter.                                                                        *)
KsBytes(T, v, key, iv, n) == Take(Lookup(T, v, key \o iv), n)
ZucEnc(T, key, iv, m) == XorB(m, KsBytes(T, "zuc", key, iv, Len(m)))
EeaIv(count4, bearer, dir) == LET h == count4 \o <<bearer * 8 + dir * 4, 0, 0, 0>> IN h \o h
EiaIv(count4, bearer, dir) == LET h == count4 \o <<bearer * 8, 0, 0, 0>> IN
                              [i \in 1..16 |-> IF i \in {9, 15} THEN h[((i - 1) % 8) + 1] ^^ (dir * 128) ELSE h[((i - 1) % 8) + 1]]
(* keep the first nbits bits of s, clear the rest *)
MaskBits(s, nbits) == [i \in 1..Len(s) |-> IF 8 * i <= nbits THEN s[i] ELSE IF 8 * (i - 1) >= nbits THEN 0
                                            ELSE LET d == 2 ^ (8 * i - nbits) IN (s[i] \div d) * d]
Eea3(T, key, count4, bearer, dir, nbits, m) == MaskBits(XorB(m, KsBytes(T, "zuc", key, EeaIv(count4, bearer, dir), Len(m))), nbits)   \* m: whole 32-bit words
BitAt(s, i) == (s[(i \div 8) + 1] \div (2 ^ (7 - (i % 8)))) % 2                                   \* bit i of s, most significant first
ByteAtBit(z, b) == LET q == b \div 8  r == b % 8 IN IF r = 0 THEN z[q + 1] ELSE ((z[q + 1] * (2 ^ r)) % 256) + (z[q + 2] \div (2 ^ (8 - r)))
Window(z, b, nbytes) == [j \in 1..nbytes |-> ByteAtBit(z, b + 8 * (j - 1))]                       \* 8*nbytes keystream bits starting at bit b
HashBits(z, m, nbits, off, nbytes) == FoldLeft(LAMBDA acc, i : IF BitAt(m, i - 1) = 1 THEN XorB(acc, Window(z, off + i - 1, nbytes)) ELSE acc,
                                              Zeros(nbytes), IdxSeq(nbits))
EiaCore(T, key, iv, nbits, m) == LET L == CeilDiv(nbits, 32) + 2
                                     z == KsBytes(T, "zuc", key, iv, 4 * L + 1)
                                 IN XorB(XorB(HashBits(z, m, nbits, 0, 4), Window(z, nbits, 4)), Window(z, 32 * (L - 1), 4))
Eia3(T, key, count4, bearer, dir, nbits, m) == EiaCore(T, key, EiaIv(count4, bearer, dir), nbits, m)
Zuc256Mac(T, key, iv, t, nbits, m) == LET nw == CeilDiv(nbits + 2 * t, 32)
                                          z == KsBytes(T, IF t = 32 THEN "zuc256mac32" ELSE IF t = 64 THEN "zuc256mac64" ELSE "zuc256mac128", key, iv, 4 * nw + 1)
                                      IN XorB(XorB(Window(z, 0, t \div 8), HashBits(z, m, nbits, t, t \div 8)), Window(z, t + nbits, t \div 8))
AddLE(b, n) == Rev(AddBE(Rev(b), n))
ChaChaKs(T, key, ctr, nonce, blocks) == Concat([i \in 1..blocks |-> Lookup(T, "chacha", key \o AddLE(ctr, i - 1) \o nonce)])
=============================================================================
