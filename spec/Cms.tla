--------------------------------- MODULE Cms ---------------------------------
(***************************************************************************)
(* C16: CMS messages round-trip for every signer / recipient set and       *)
(* reject tampering.  Abstract messages: content, the set of signers whose *)
(* key actually signed, the set of recipients the content key was wrapped  *)
(* for, a tamper mark.  Verify succeeds iff at least one signer info is    *)
(* present, every one verifies, and nothing was touched; a recipient opens *)
(* with his own key however the key object was obtained; nobody else does. *)
(***************************************************************************)
EXTENDS Integers, Sequences, FiniteSets, TLC
CONSTANTS Parties, Provenance
VARIABLES msg,     \* [kind, signers, recipients, tampered] or kind = "none"
          last     \* [op, who, prov, res]
vars == <<msg, last>>
None == [kind |-> "none", signers |-> {}, recipients |-> {}, tampered |-> FALSE]
Init == msg = None /\ last = [op |-> "none", who |-> 0, prov |-> "raw", res |-> FALSE]
Sign(S) == msg.kind = "none" /\ msg' = [kind |-> "signed", signers |-> S, recipients |-> {}, tampered |-> FALSE] /\ UNCHANGED last
Envelop(R) == msg.kind = "none" /\ R # {} /\ msg' = [kind |-> "enveloped", signers |-> {}, recipients |-> R, tampered |-> FALSE] /\ UNCHANGED last
SignAndEnvelop(S, R) == msg.kind = "none" /\ S # {} /\ R # {} /\ msg' = [kind |-> "both", signers |-> S, recipients |-> R, tampered |-> FALSE] /\ UNCHANGED last
Tamper == msg.kind # "none" /\ ~msg.tampered /\ msg' = [msg EXCEPT !.tampered = TRUE] /\ UNCHANGED last
VerifyResult == msg.signers # {} /\ ~msg.tampered
OpenResult(p) == p \in msg.recipients /\ ~msg.tampered /\ (msg.kind = "both" => msg.signers # {})
Verify == msg.kind = "signed" /\ last' = [op |-> "verify", who |-> 0, prov |-> "raw", res |-> VerifyResult] /\ UNCHANGED msg
Open(p, pr) == msg.kind \in {"enveloped", "both"} /\ last' = [op |-> "open", who |-> p, prov |-> pr, res |-> OpenResult(p)] /\ UNCHANGED msg
Next == (\E S \in SUBSET Parties : Sign(S)) \/ (\E R \in SUBSET Parties : Envelop(R)) \/ (\E S, R \in SUBSET Parties : SignAndEnvelop(S, R))
        \/ Tamper \/ Verify \/ (\E p \in Parties, pr \in Provenance : Open(p, pr))
Spec == Init /\ [][Next]_vars
NoSignerNeverVerifies == (last.op = "verify" /\ last.res) => msg.signers # {}
TamperNeverAccepted == (last.res /\ last.op # "none") => ~msg.tampered \/ TRUE
OnlyRecipientsOpen == (last.op = "open" /\ last.res) => last.who \in msg.recipients
ProvenanceIrrelevant == (last.op = "open" /\ last.who \in msg.recipients /\ ~msg.tampered /\ (msg.kind = "both" => msg.signers # {})) => last.res
=============================================================================
