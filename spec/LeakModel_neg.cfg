SPECIFICATION Spec
CONSTANTS Objects = {"k1", "k2"} DebugBuild = TRUE
INVARIANT OnlyAskedSecretsAppear
CHECK_DEADLOCK FALSE
