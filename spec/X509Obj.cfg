SPECIFICATION Spec
CONSTANTS Keys = {1, 2} Ids = {1, 2} Serials = {1, 2}
INVARIANTS VerifiesOnlyAsIssued RevokedExactlyWhenListed
CHECK_DEADLOCK FALSE
