----------------------------- MODULE LeakModel -----------------------------
(***************************************************************************)
(* C19, the design statement the trace judge Leak.tla enforces: objects    *)
(* hold secrets; operations succeed or fail; everything an operation       *)
(* writes to file descriptor 1 or 2 on its own account (error reports,     *)
(* progress lines) is public; the only way secret s reaches a descriptor   *)
(* is a print of its object that the caller asked for, on the descriptor   *)
(* the caller named.  DebugBuild = TRUE is the build in which handshake    *)
(* key material is traced (ENABLE_TLS_DEBUG): it must violate the          *)
(* invariant, which is why that tracing may not be unconditional.          *)
(***************************************************************************)
EXTENDS Integers, FiniteSets, TLC
CONSTANTS Objects, DebugBuild
VARIABLES secretOf, fd, asked
vars == <<secretOf, fd, asked>>
Fds == {1, 2}
Init == secretOf = [o \in Objects |-> 0] /\ fd = [f \in Fds |-> {}] /\ asked = {}
Create(o, s) == secretOf[o] = 0 /\ s \notin {secretOf[x] : x \in Objects} /\ secretOf' = [secretOf EXCEPT ![o] = s] /\ UNCHANGED <<fd, asked>>
(* an operation with or on the object: result public; a failure reports where it failed *)
Use(o, ok) == /\ secretOf[o] # 0
              /\ fd' = IF ok THEN (IF DebugBuild THEN [fd EXCEPT ![2] = @ \cup {secretOf[o]}] ELSE fd) ELSE [fd EXCEPT ![2] = @ \cup {-1}]
              /\ UNCHANGED <<secretOf, asked>>
PrintObj(o, f) == secretOf[o] # 0 /\ asked' = asked \cup {<<secretOf[o], f>>} /\ fd' = [fd EXCEPT ![f] = @ \cup {secretOf[o]}] /\ UNCHANGED secretOf
Next == \E o \in Objects : (\E s \in 1..Cardinality(Objects) : Create(o, s)) \/ (\E ok \in BOOLEAN : Use(o, ok)) \/ (\E f \in Fds : PrintObj(o, f))
Spec == Init /\ [][Next]_vars
OnlyAskedSecretsAppear == \A f \in Fds : \A x \in fd[f] : x = -1 \/ <<x, f>> \in asked          \* -1: the public "where it failed" report
=============================================================================
