SPECIFICATION Spec
CONSTANTS
  Protos <- P3
  Budget = 1
  MaxApp = 1
  CredCases <- OnlyGood
INVARIANTS NoFaultedCompletion
CHECK_DEADLOCK FALSE
