------------------------------ MODULE Sm9Field ------------------------------
(***************************************************************************)
(* The SM9 fields (GB/T 38635): F_p, F_p^2 = F_p[u]/(u^2+2),               *)
(* F_p^4 = F_p^2[v]/(v^2-u), F_p^12 = F_p^4[w]/(w^3-v), the curve          *)
(* y^2 = x^3 + 5 and its twist y^2 = x^3 + 5u.  Tower formulas are         *)
(* evaluated exactly over the integers (signed pairs of BigNat naturals,   *)
(* no reduction anywhere); an observed result coordinate r is accepted     *)
(* when formula == r (mod p), r < p, checked with a quotient witness.      *)
(***************************************************************************)
EXTENDS BigNat
HexP9 == <<182,64,0,0,2,163,166,241,214,3,171,79,245,142,199,69,33,242,147,75,26,122,238,219,229,111,155,39,227,81,69,125>>
HexN9 == <<182,64,0,0,2,163,166,241,214,3,171,79,245,142,199,68,73,242,147,75,24,234,139,238,229,110,225,156,214,158,207,37>>
P9 == FromBytes(HexP9)  N9 == FromBytes(HexN9)
One == Small(1)  Zero == <<>>
R256 == [j \in 1..22 |-> IF j = 22 THEN 16 ELSE 0]
(* ---- signed integers ---- *)
SOf(x) == [p |-> x, n |-> <<>>]
SZero == SOf(<<>>)  SOne == SOf(One)
SAddR(a, b) == [p |-> Add(a.p, b.p), n |-> Add(a.n, b.n)]
SAdd(a, b) == Once2(SAddR, a, b)
SSubR(a, b) == [p |-> Add(a.p, b.n), n |-> Add(a.n, b.p)]
SSub(a, b) == Once2(SSubR, a, b)
SNegR(a) == [p |-> a.n, n |-> a.p]
SNeg(a) == Once1(SNegR, a)
SMulR(a, b) == [p |-> Add(Mul(a.p, b.p), Mul(a.n, b.n)), n |-> Add(Mul(a.p, b.n), Mul(a.n, b.p))]
SMul(a, b) == Once2(SMulR, a, b)
SScaleR(k, a) == [p |-> Mul(Small(k), a.p), n |-> Mul(Small(k), a.n)]
SScale(k, a) == Once2(SScaleR, k, a)
(* value == r (mod P9), 0 <= r < P9, witnessed by w = [k, s] *)
SCong(v, r, w) == DiffModOK(v.p, v.n, P9, w.k, w.s, r)
(* ---- F_p^2: <<a0, a1>> = a0 + a1 u, u^2 = -2 ---- *)
F2AddR(a, b) == <<SAdd(a[1], b[1]), SAdd(a[2], b[2])>>
F2Add(a, b) == Once2(F2AddR, a, b)
F2SubR(a, b) == <<SSub(a[1], b[1]), SSub(a[2], b[2])>>
F2Sub(a, b) == Once2(F2SubR, a, b)
F2NegR(a) == <<SNeg(a[1]), SNeg(a[2])>>
F2Neg(a) == Once1(F2NegR, a)
F2ScaleR(k, a) == <<SScale(k, a[1]), SScale(k, a[2])>>
F2Scale(k, a) == Once2(F2ScaleR, k, a)
F2MulR(a, b) == <<SSub(SMul(a[1], b[1]), SScale(2, SMul(a[2], b[2]))), SAdd(SMul(a[1], b[2]), SMul(a[2], b[1]))>>
F2Mul(a, b) == Once2(F2MulR, a, b)
F2MulUR(a) == <<SNeg(SScale(2, a[2])), a[1]>>                       \* a * u
F2MulU(a) == Once1(F2MulUR, a)
F2MulFpR(a, k) == <<SMul(a[1], k), SMul(a[2], k)>>
F2MulFp(a, k) == Once2(F2MulFpR, a, k)
F2ConjR(a) == <<a[1], SNeg(a[2])>>                                  \* = a^p, since u^p = -u
F2Conj(a) == Once1(F2ConjR, a)
F2Zero == <<SZero, SZero>>  F2One == <<SOne, SZero>>
(* ---- F_p^4: <<b0, b1>> = b0 + b1 v, v^2 = u ---- *)
F4AddR(a, b) == <<F2Add(a[1], b[1]), F2Add(a[2], b[2])>>
F4Add(a, b) == Once2(F4AddR, a, b)
F4SubR(a, b) == <<F2Sub(a[1], b[1]), F2Sub(a[2], b[2])>>
F4Sub(a, b) == Once2(F4SubR, a, b)
F4NegR(a) == <<F2Neg(a[1]), F2Neg(a[2])>>
F4Neg(a) == Once1(F4NegR, a)
F4ScaleR(k, a) == <<F2Scale(k, a[1]), F2Scale(k, a[2])>>
F4Scale(k, a) == Once2(F4ScaleR, k, a)
F4MulR(a, b) == <<F2Add(F2Mul(a[1], b[1]), F2MulU(F2Mul(a[2], b[2]))), F2Add(F2Mul(a[1], b[2]), F2Mul(a[2], b[1]))>>
F4Mul(a, b) == Once2(F4MulR, a, b)
F4MulVR(a) == <<F2MulU(a[2]), a[1]>>                                \* a * v
F4MulV(a) == Once1(F4MulVR, a)
F4MulFpR(a, k) == <<F2MulFp(a[1], k), F2MulFp(a[2], k)>>
F4MulFp(a, k) == Once2(F4MulFpR, a, k)
F4MulFp2R(a, c) == <<F2Mul(a[1], c), F2Mul(a[2], c)>>
F4MulFp2(a, c) == Once2(F4MulFp2R, a, c)
F4ConjR(a) == <<a[1], F2Neg(a[2])>>
F4Conj(a) == Once1(F4ConjR, a)
F4Zero == <<F2Zero, F2Zero>>  F4One == <<F2One, F2Zero>>
(* ---- F_p^12: <<c0, c1, c2>> = c0 + c1 w + c2 w^2, w^3 = v ---- *)
F12AddR(a, b) == <<F4Add(a[1], b[1]), F4Add(a[2], b[2]), F4Add(a[3], b[3])>>
F12Add(a, b) == Once2(F12AddR, a, b)
F12SubR(a, b) == <<F4Sub(a[1], b[1]), F4Sub(a[2], b[2]), F4Sub(a[3], b[3])>>
F12Sub(a, b) == Once2(F12SubR, a, b)
F12NegR(a) == <<F4Neg(a[1]), F4Neg(a[2]), F4Neg(a[3])>>
F12Neg(a) == Once1(F12NegR, a)
F12ScaleR(k, a) == <<F4Scale(k, a[1]), F4Scale(k, a[2]), F4Scale(k, a[3])>>
F12Scale(k, a) == Once2(F12ScaleR, k, a)
F12MulR(a, b) == <<F4Add(F4Mul(a[1], b[1]), F4MulV(F4Add(F4Mul(a[2], b[3]), F4Mul(a[3], b[2])))),
                  F4Add(F4Add(F4Mul(a[1], b[2]), F4Mul(a[2], b[1])), F4MulV(F4Mul(a[3], b[3]))),
                  F4Add(F4Add(F4Mul(a[1], b[3]), F4Mul(a[2], b[2])), F4Mul(a[3], b[1]))>>
F12Mul(a, b) == Once2(F12MulR, a, b)
F12One == <<F4One, F4Zero, F4Zero>>
(* ---- byte serialisations (high coefficient first, as in the standard) ---- *)
F2B(b) == <<SOf(FromBytes(SubSeq(b, 33, 64))), SOf(FromBytes(SubSeq(b, 1, 32)))>>
F4B(b) == <<F2B(SubSeq(b, 65, 128)), F2B(SubSeq(b, 1, 64))>>
F12B(b) == <<F4B(SubSeq(b, 257, 384)), F4B(SubSeq(b, 129, 256)), F4B(SubSeq(b, 1, 128))>>
Flat2R(a) == <<a[1], a[2]>>
Flat2(a) == Once1(Flat2R, a)
Flat4R(a) == Flat2(a[1]) \o Flat2(a[2])
Flat4(a) == Once1(Flat4R, a)
Flat12R(a) == Flat4(a[1]) \o Flat4(a[2]) \o Flat4(a[3])
Flat12(a) == Once1(Flat12R, a)
(* coordinates of formula f are congruent to the coordinates r (signed leaves, each below p), witnesses ws *)
AllCong(f, r, ws) == \E ff \in {f}, rr \in {r} : Len(ff) = Len(rr) /\ Len(ws) = Len(ff) /\ \A j \in 1..Len(ff) : \E v \in {ff[j]} : SCong(v, rr[j].p, ws[j])
(* ---- G1: y^2 = x^3 + 5, chord / tangent relations with slope witness (as Sm2Curve, a = 0) ---- *)
Cong9(Aa, Bb, w) == DiffModOK(Aa, Bb, P9, w.k, w.s, <<>>)
AddOK9(x1, y1, x2, y2, x3, y3, lam, w1, w2, w3, dbl) ==
    /\ Lt(x3, P9) /\ Lt(y3, P9) /\ Lt(lam, P9)
    /\ IF dbl THEN Eq(x1, x2) /\ Eq(y1, y2) /\ Cong9(Mul(lam, Mul(Small(2), y1)), Mul(Small(3), Mul(x1, x1)), w1)
              ELSE ~Eq(x1, x2) /\ Cong9(Add(Mul(lam, x2), y1), Add(Mul(lam, x1), y2), w1)
    /\ Cong9(Add(Add(x3, x1), x2), Mul(lam, lam), w2)
    /\ Cong9(Add(Add(y3, y1), Mul(lam, x3)), Mul(lam, x1), w3)
OnCurve9(x, y, w) == Lt(x, P9) /\ Lt(y, P9) /\ Cong9(Mul(y, y), Add(Mul(Mul(x, x), x), Small(5)), w)
(* twist: y^2 = x^3 + 5u over F_p^2 *)
OnTwist(x, y, ws) == AllCong(Flat2(F2Sub(F2Mul(y, y), F2Add(F2Mul(F2Mul(x, x), x), <<SZero, SOf(Small(5))>>))), Flat2(F2Zero), ws)
=============================================================================
