SPECIFICATION FairSpec
CONSTANTS
  Protos <- P3
  Budget = 0
  MaxApp = 1
  CredCases <- OnlyGood
PROPERTY HonestCompletes
CHECK_DEADLOCK FALSE
