-------------------------------- MODULE Wire --------------------------------
(***************************************************************************)
(* C06 (reader core): the TLV reader every DER consumer of the library is  *)
(* built on (asn1_any_type_from_der / asn1_length_from_der), transcribed   *)
(* check for check, walking an arbitrary byte string and descending into   *)
(* constructed values.  TLC runs it on EVERY byte string over Alphabet up  *)
(* to MaxLen: the reader never touches an index outside the buffer         *)
(* (NoOverread), scopes stay nested, it terminates, and the step machine   *)
(* agrees with the functional definition Walk that the conformance judge   *)
(* (WireJudge) evaluates on what the real functions returned for the same  *)
(* strings.  Removing any one of the transcribed checks makes TLC produce  *)
(* the over-reading input (Wire_neg.cfg drops the "enough bytes for the    *)
(* long-form length" check).                                               *)
(***************************************************************************)
EXTENDS Integers, Sequences, FiniteSets, TLC
CONSTANTS Alphabet, MaxLen, DropLenBytesCheck
VARIABLES buf, pos, scopes, phase, tag, len, maxread, nodes
vars == <<buf, pos, scopes, phase, tag, len, maxread, nodes>>
Strings == UNION {[1..n -> Alphabet] : n \in 0..MaxLen}
Top == scopes[Len(scopes)]
Rem == Top - pos + 1                      \* bytes left in the innermost scope
Constructed(t) == (t \div 32) % 2 = 1
MaxI(a, b) == IF a > b THEN a ELSE b
At(i) == IF i \in 1..Len(buf) THEN buf[i] ELSE 0          \* an out-of-range read is what NoOverread forbids; 0 stands for whatever memory holds
(* the input is any string: it is grown byte by byte (phase "build") and handed to the reader at any length up to MaxLen *)
Init == /\ buf = <<>> /\ pos = 1 /\ scopes = <<0>> /\ phase = "build" /\ tag = 0 /\ len = 0 /\ maxread = 0 /\ nodes = 0
Extend == /\ phase = "build" /\ Len(buf) < MaxLen /\ \E b \in Alphabet : buf' = Append(buf, b)
          /\ UNCHANGED <<pos, scopes, phase, tag, len, maxread, nodes>>
Start == /\ phase = "build" /\ phase' = "tag" /\ scopes' = <<Len(buf)>> /\ UNCHANGED <<buf, pos, tag, len, maxread, nodes>>
Fail == phase' = "err" /\ UNCHANGED <<buf, pos, scopes, tag, len, maxread, nodes>>
ReadTag == /\ phase = "tag"
           /\ IF Rem = 0
              THEN IF Len(scopes) = 1 THEN phase' = "done" /\ UNCHANGED <<buf, pos, scopes, tag, len, maxread, nodes>>
                   ELSE scopes' = SubSeq(scopes, 1, Len(scopes) - 1) /\ UNCHANGED <<buf, pos, phase, tag, len, maxread, nodes>>
              ELSE /\ tag' = At(pos) /\ maxread' = MaxI(maxread, pos) /\ pos' = pos + 1 /\ phase' = "len"
                   /\ UNCHANGED <<buf, scopes, len, nodes>>
(* asn1_length_from_der *)
ReadLen == /\ phase = "len"
           /\ IF Rem = 0 THEN Fail
              ELSE LET b == At(pos) IN
                   IF b < 128 THEN /\ len' = b /\ pos' = pos + 1 /\ maxread' = MaxI(maxread, pos) /\ phase' = "content" /\ UNCHANGED <<buf, scopes, tag, nodes>>
                   ELSE LET nb == b - 128  rem1 == Rem - 1 IN
                        IF nb < 1 \/ nb > 4 THEN Fail
                        ELSE IF ~DropLenBytesCheck /\ rem1 < nb THEN Fail
                        ELSE IF nb = 1 /\ At(pos + 1) < 128 THEN phase' = "err" /\ maxread' = MaxI(maxread, pos + 1) /\ UNCHANGED <<buf, pos, scopes, tag, len, nodes>>
                        ELSE IF nb > 1 /\ At(pos + 1) = 0 THEN phase' = "err" /\ maxread' = MaxI(maxread, pos + 1) /\ UNCHANGED <<buf, pos, scopes, tag, len, nodes>>
                        ELSE /\ len' = (IF nb = 1 THEN At(pos + 1) ELSE IF nb = 2 THEN At(pos + 1) * 256 + At(pos + 2)
                                        ELSE IF nb = 3 THEN (At(pos + 1) * 256 + At(pos + 2)) * 256 + At(pos + 3)
                                        ELSE ((At(pos + 1) * 256 + At(pos + 2)) * 256 + At(pos + 3)) * 256 + At(pos + 4))
                             /\ maxread' = MaxI(maxread, pos + nb) /\ pos' = pos + 1 + nb /\ phase' = "content" /\ UNCHANGED <<buf, scopes, tag, nodes>>
Content == /\ phase = "content"
           /\ IF Rem < len THEN Fail
              ELSE /\ nodes' = nodes + 1 /\ phase' = "tag" /\ UNCHANGED <<buf, tag, len, maxread>>
                   /\ IF Constructed(tag) THEN scopes' = Append(scopes, pos + len - 1) /\ UNCHANGED pos
                      ELSE pos' = pos + len /\ UNCHANGED scopes
Next == Extend \/ Start \/ ReadTag \/ ReadLen \/ Content
Spec == Init /\ [][Next]_vars
FairSpec == Spec /\ WF_vars(Start \/ ReadTag \/ ReadLen \/ Content)
(* ---- properties ---- *)
NoOverread == maxread <= Len(buf)
ScopesNested == /\ \A i \in 1..(Len(scopes) - 1) : scopes[i + 1] <= scopes[i]
                /\ pos - 1 <= Top
Terminates == <>(phase \in {"done", "err"})          \* under FairSpec the input is eventually handed over and the reader finishes
(* ---- the same reader as a function: result [ok, nodes] ---- *)
LenAt(s, p, e) ==       \* length field starting at index p inside scope ending at e: [ok, len, next]
    IF p > e THEN [ok |-> FALSE, len |-> 0, next |-> p]
    ELSE LET b == s[p] IN
         IF b < 128 THEN [ok |-> TRUE, len |-> b, next |-> p + 1]
         ELSE LET nb == b - 128 IN
              IF nb < 1 \/ nb > 4 \/ e - p < nb THEN [ok |-> FALSE, len |-> 0, next |-> p]
              ELSE IF (nb = 1 /\ s[p + 1] < 128) \/ (nb > 1 /\ s[p + 1] = 0) THEN [ok |-> FALSE, len |-> 0, next |-> p]
              ELSE [ok |-> TRUE, next |-> p + 1 + nb,
                    len |-> IF nb = 1 THEN s[p + 1] ELSE IF nb = 2 THEN s[p + 1] * 256 + s[p + 2]
                            ELSE IF nb = 3 THEN (s[p + 1] * 256 + s[p + 2]) * 256 + s[p + 3] ELSE ((s[p + 1] * 256 + s[p + 2]) * 256 + s[p + 3]) * 256 + s[p + 4]]
RECURSIVE WalkFrom(_, _, _)
WalkFrom(s, p, e) ==    \* all TLVs in s[p..e], depth first: [ok, nodes]
    IF p > e THEN [ok |-> TRUE, nodes |-> 0]
    ELSE LET l == LenAt(s, p + 1, e) IN
         IF ~l.ok \/ e - l.next + 1 < l.len THEN [ok |-> FALSE, nodes |-> 0]
         ELSE LET inner == IF Constructed(s[p]) THEN WalkFrom(s, l.next, l.next + l.len - 1) ELSE [ok |-> TRUE, nodes |-> 0]
                  rest == IF inner.ok THEN WalkFrom(s, l.next + l.len, e) ELSE [ok |-> FALSE, nodes |-> 0]
              IN IF inner.ok /\ rest.ok THEN [ok |-> TRUE, nodes |-> 1 + inner.nodes + rest.nodes] ELSE [ok |-> FALSE, nodes |-> 0]
Walk(s) == WalkFrom(s, 1, Len(s))
MachineAgreesWithFunction == /\ (phase = "done" => Walk(buf).ok /\ Walk(buf).nodes = nodes)
                             /\ (phase = "err" => ~Walk(buf).ok)
=============================================================================
