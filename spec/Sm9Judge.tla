------------------------------ MODULE Sm9Judge ------------------------------
(***************************************************************************)
(* C17 (arithmetic half): every SM9 field-tower, group and pairing         *)
(* operation the library exports returns the mathematically defined value. *)
(* Field and tower operations are judged by evaluating the defining        *)
(* formula of Sm9Field over the integers on the recorded operands and      *)
(* checking it congruent, coordinate by coordinate, to the recorded result *)
(* (quotient witnesses come from outside and are checked, not trusted).    *)
(* Frobenius maps, exponentiation, scalar multiplication and the pairing   *)
(* are compared with the independent reference implementation (field       *)
(* "expect"), and the pairing additionally with the algebraic laws         *)
(* e([a]P,[b]Q) = e(P,Q)^(ab), e(P,Q)^N = 1, e(P,Q) # 1 on the library's   *)
(* own outputs.                                                            *)
(***************************************************************************)
EXTENDS Sm9Field, Json, IOUtils
VARIABLE i
Cases == ndJsonDeserialize(IOEnv.TRACE)
NatOf(b) == FromBytes(b)
W(c, nm) == [k |-> c[nm \o "k"], s |-> c[nm \o "s"]]
CongM(Aa, Bb, m, c, nm) == DiffModOK(Aa, Bb, m, c[nm \o "k"], c[nm \o "s"], <<>>)
InRange(f) == \A j \in 1..Len(f) : Lt(f[j].p, P9)
OneBytes384 == [j \in 1..384 |-> IF j = 384 THEN 1 ELSE 0]
(* ---- F_p and F_N on raw 256-bit values (Montgomery representation where the name says so) ---- *)
JudgeZ(c) ==
    LET a == NatOf(c.a)  b == NatOf(c.b)  r == NatOf(c.r) IN
    CASE c.op = "z_add" -> c.c \in {0, 1} /\ Eq(Add(a, b), Add(r, IF c.c = 1 THEN R256 ELSE Zero))
      [] c.op = "z_sub" -> c.c \in {0, 1} /\ Eq(Add(a, IF c.c = 1 THEN R256 ELSE Zero), Add(b, r)) /\ (c.c = 1 <=> Lt(a, b))
      [] c.op = "z_mul" -> Eq(Mul(a, b), r)
      [] c.op = "z_cmp" -> c.c = (IF Lt(a, b) THEN -1 ELSE IF Eq(a, b) THEN 0 ELSE 1)
      [] c.op \in {"modp_add", "modn_add"} -> LET m == IF c.op = "modp_add" THEN P9 ELSE N9 IN Lt(r, m) /\ (Eq(Add(a, b), r) \/ Eq(Add(a, b), Add(r, m)))
      [] c.op \in {"modp_sub", "modn_sub"} -> LET m == IF c.op = "modp_sub" THEN P9 ELSE N9 IN Lt(r, m) /\ Eq(Add(a, IF Lt(a, b) THEN m ELSE Zero), Add(b, r))
      [] c.op = "modp_dbl" -> Lt(r, P9) /\ (Eq(Add(a, a), r) \/ Eq(Add(a, a), Add(r, P9)))
      [] c.op = "modp_tri" -> Lt(r, P9) /\ (\E kk \in 0..2 : Eq(Add(Add(a, a), a), Add(r, Mul(Small(kk), P9))))
      [] c.op = "modp_haf" -> Lt(r, P9) /\ (Eq(Add(r, r), a) \/ Eq(Add(r, r), Add(a, P9)))
      [] c.op = "modp_neg" -> IF IsZero(a) THEN IsZero(r) ELSE Eq(Add(a, r), P9)
      [] c.op = "modp_to_mont" -> Lt(r, P9) /\ CongM(Mul(a, R256), r, P9, c, "w")
      [] c.op = "modp_from_mont" -> Lt(r, P9) /\ CongM(Mul(r, R256), a, P9, c, "w")
      [] c.op = "modp_mont_mul" -> Lt(r, P9) /\ CongM(Mul(r, R256), Mul(a, b), P9, c, "w")
      [] c.op = "modp_mont_sqr" -> Lt(r, P9) /\ CongM(Mul(r, R256), Mul(a, a), P9, c, "w")
      [] c.op = "modp_mont_inv" -> Lt(r, P9) /\ CongM(Mul(a, r), Mul(R256, R256), P9, c, "w")
      [] c.op = "modn_mul" -> Lt(r, N9) /\ CongM(Mul(a, b), r, N9, c, "w")
      [] c.op = "modn_inv" -> Lt(r, N9) /\ CongM(Mul(a, r), One, N9, c, "w")
      [] c.op \in {"modp_mont_pow", "modn_pow"} -> Eq(r, c.expect)
      [] c.op = "modn_from_hash" ->          \* h = (Ha mod (N-1)) + 1 :  Ha = q (N-1) + (h - 1),  1 <= h <= N-1
            ~IsZero(r) /\ Lt(r, N9) /\ Eq(Add(a, Add(c.wq, One)), Add(Mul(c.wq, N9), r))
(* ---- the tower: defining formula vs recorded result ---- *)
Lhs2(c) == LET a == F2B(c.a)  b == IF Len(c.b) = 64 THEN F2B(c.b) ELSE F2Zero  r == F2B(c.r) IN
    CASE c.op = "fp2_add" -> F2Add(a, b) [] c.op = "fp2_sub" -> F2Sub(a, b) [] c.op = "fp2_neg" -> F2Neg(a)
      [] c.op = "fp2_dbl" -> F2Scale(2, a) [] c.op = "fp2_tri" -> F2Scale(3, a) [] c.op = "fp2_haf" -> F2Scale(2, r)
      [] c.op = "fp2_a_mul_u" -> F2MulU(a) [] c.op \in {"fp2_mul", "fp2_inplace_mul"} -> F2Mul(a, b) [] c.op = "fp2_mul_u" -> F2MulU(F2Mul(a, b))
      [] c.op = "fp2_mul_fp" -> F2MulFp(a, SOf(NatOf(c.k))) [] c.op \in {"fp2_sqr", "fp2_inplace_sqr"} -> F2Mul(a, a) [] c.op = "fp2_sqr_u" -> F2MulU(F2Mul(a, a))
      [] c.op = "fp2_inv" -> F2Mul(a, r) [] c.op = "fp2_div" -> F2Mul(r, b) [] c.op \in {"fp2_conjugate", "fp2_frobenius"} -> F2Conj(a)
Rhs2(c) == CASE c.op \in {"fp2_haf", "fp2_div"} -> F2B(c.a) [] c.op = "fp2_inv" -> F2One [] OTHER -> F2B(c.r)
Lhs4(c) == LET a == F4B(c.a)  b == IF Len(c.b) = 128 THEN F4B(c.b) ELSE F4Zero  r == F4B(c.r) IN
    CASE c.op = "fp4_add" -> F4Add(a, b) [] c.op = "fp4_sub" -> F4Sub(a, b) [] c.op = "fp4_neg" -> F4Neg(a) [] c.op = "fp4_dbl" -> F4Scale(2, a)
      [] c.op = "fp4_haf" -> F4Scale(2, r) [] c.op = "fp4_a_mul_v" -> F4MulV(a) [] c.op \in {"fp4_mul", "fp4_inplace_mul"} -> F4Mul(a, b)
      [] c.op = "fp4_mul_fp" -> F4MulFp(a, SOf(NatOf(c.k))) [] c.op = "fp4_mul_fp2" -> F4MulFp2(a, F2B(c.b)) [] c.op = "fp4_mul_v" -> F4MulV(F4Mul(a, b))
      [] c.op \in {"fp4_sqr", "fp4_inplace_sqr"} -> F4Mul(a, a) [] c.op = "fp4_sqr_v" -> F4MulV(F4Mul(a, a)) [] c.op = "fp4_inv" -> F4Mul(a, r) [] c.op = "fp4_conjugate" -> F4Conj(a)
Rhs4(c) == CASE c.op = "fp4_haf" -> F4B(c.a) [] c.op = "fp4_inv" -> F4One [] OTHER -> F4B(c.r)
Lhs12(c) == LET a == F12B(c.a)  b == IF Len(c.b) = 384 THEN F12B(c.b) ELSE a  r == F12B(c.r) IN
    CASE c.op = "fp12_add" -> F12Add(a, b) [] c.op = "fp12_sub" -> F12Sub(a, b) [] c.op = "fp12_neg" -> F12Neg(a) [] c.op = "fp12_dbl" -> F12Scale(2, a)
      [] c.op = "fp12_tri" -> F12Scale(3, a) [] c.op \in {"fp12_mul", "fp12_inplace_mul"} -> F12Mul(a, b) [] c.op \in {"fp12_sqr", "fp12_inplace_sqr"} -> F12Mul(a, a) [] c.op = "fp12_inv" -> F12Mul(a, r)
Rhs12(c) == IF c.op = "fp12_inv" THEN F12One ELSE F12B(c.r)
ByFormula == {"fp2_add", "fp2_sub", "fp2_neg", "fp2_dbl", "fp2_tri", "fp2_haf", "fp2_a_mul_u", "fp2_mul", "fp2_inplace_mul", "fp2_mul_u", "fp2_mul_fp", "fp2_sqr", "fp2_inplace_sqr", "fp2_sqr_u",
              "fp2_inv", "fp2_div", "fp2_conjugate", "fp2_frobenius",
              "fp4_add", "fp4_sub", "fp4_neg", "fp4_dbl", "fp4_haf", "fp4_a_mul_v", "fp4_mul", "fp4_inplace_mul", "fp4_mul_fp", "fp4_mul_fp2", "fp4_mul_v", "fp4_sqr", "fp4_inplace_sqr", "fp4_sqr_v",
              "fp4_inv", "fp4_conjugate",
              "fp12_add", "fp12_sub", "fp12_neg", "fp12_dbl", "fp12_tri", "fp12_mul", "fp12_inplace_mul", "fp12_sqr", "fp12_inplace_sqr", "fp12_inv"}
JudgeTower(c) ==
    IF c.op \in ByFormula THEN
        CASE c.lvl = 2 -> InRange(Flat2(F2B(c.r))) /\ AllCong(Flat2(Lhs2(c)), Flat2(Rhs2(c)), c.w)
          [] c.lvl = 4 -> InRange(Flat4(F4B(c.r))) /\ AllCong(Flat4(Lhs4(c)), Flat4(Rhs4(c)), c.w)
          [] c.lvl = 12 -> InRange(Flat12(F12B(c.r))) /\ AllCong(Flat12(Lhs12(c)), Flat12(Rhs12(c)), c.w)
    ELSE c.r = c.expect                     \* Frobenius maps, exponentiation: the reference's value
(* ---- G1 ---- *)
PtEq(c, inf, x, y) == IF inf THEN c.inf = 1 ELSE c.inf = 0 /\ Eq(NatOf(SubSeq(c.r, 2, 33)), x) /\ Eq(NatOf(SubSeq(c.r, 34, 65)), y)
AddExpected(c) ==
    IF c.inf1 THEN PtEq(c, c.inf2, c.x2, c.y2)
    ELSE IF c.inf2 THEN PtEq(c, FALSE, c.x1, c.y1)
    ELSE IF Eq(c.x1, c.x2) /\ Eq(Add(c.y1, c.y2), P9) THEN c.inf = 1
    ELSE IF Eq(c.x1, c.x2) /\ ~Eq(c.y1, c.y2) THEN FALSE
    ELSE c.inf = 0 /\ Len(c.r) = 65 /\ c.r[1] = 4
         /\ AddOK9(c.x1, c.y1, c.x2, c.y2, NatOf(SubSeq(c.r, 2, 33)), NatOf(SubSeq(c.r, 34, 65)), c.lam, W(c, "w1"), W(c, "w2"), W(c, "w3"), Eq(c.x1, c.x2))
JudgePoint(c) ==
    CASE c.op \in {"point_add", "point_sub", "point_dbl", "point_add_jac"} -> AddExpected(c)
      [] c.op = "point_neg" -> IF c.inf1 THEN c.inf = 1 ELSE c.inf = 0 /\ Eq(NatOf(SubSeq(c.r, 2, 33)), c.x1) /\ (IF IsZero(c.y1) THEN IsZero(NatOf(SubSeq(c.r, 34, 65))) ELSE Eq(Add(NatOf(SubSeq(c.r, 34, 65)), c.y1), P9))
      [] c.op \in {"point_mul", "point_mul_generator"} -> c.inf = c.einf /\ c.r = c.expect /\ (c.inf = 0 => OnCurve9(NatOf(SubSeq(c.r, 2, 33)), NatOf(SubSeq(c.r, 34, 65)), W(c, "wc")))
      [] c.op \in {"point_is_on_curve", "point_equ", "point_from_octets", "twist_is_on_curve", "twist_equ", "twist_from_octets"} -> (c.c = 1) = c.expectbool
(* ---- G2: the reference's value, and the result lies on the twist ---- *)
JudgeTwist(c) == c.inf = c.einf /\ c.r = c.expect /\ (c.inf = 0 => OnTwist(F2B(SubSeq(c.r, 2, 65)), F2B(SubSeq(c.r, 66, 129)), c.wt))
(* ---- pairing ---- *)
JudgePairing(c) ==
    CASE c.op = "pairing" -> c.r = c.expect
      [] c.op = "bilinear" -> c.lhs = c.rhs /\ c.lhs = c.expect /\ c.tothen = OneBytes384 /\ c.base # OneBytes384
      [] c.op = "hash1" -> c.c = 1 /\ c.r = c.expect
Judge(c) ==
    IF c.bad # 0 THEN FALSE
    ELSE IF c.grp = "z" THEN JudgeZ(c) ELSE IF c.grp = "tower" THEN JudgeTower(c) ELSE IF c.grp = "g1" THEN JudgePoint(c)
    ELSE IF c.grp = "g2" THEN (IF c.op \in {"twist_is_on_curve", "twist_equ", "twist_from_octets"} THEN JudgePoint(c) ELSE JudgeTwist(c)) ELSE JudgePairing(c)
Init == i = 1
Next == /\ i <= Len(Cases) /\ i' = i + 1
        /\ IF Judge(Cases[i]) THEN TRUE ELSE PrintT(<<"MISMATCH", i, Cases[i].op>>)
Spec == Init /\ [][Next]_i
=============================================================================
