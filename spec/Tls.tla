------------------------------- MODULE Tls -------------------------------
(***************************************************************************)
(* Contract model of the TLCP / TLS 1.2 / TLS 1.3 handshakes and of the    *)
(* record-level data phase of GmSSL, with a record-aware proxy (the        *)
(* adversary) between client and server.  The same actions are reused by   *)
(* TlsTrace.tla to validate executions of the real library (C08 C09 C10    *)
(* C11 live part).                                                         *)
(*                                                                         *)
(* Abstraction: a record is [m, ok, key, seq, tr].  m is the message it    *)
(* carries, ok says whether its bytes are as sent, key is the key term it  *)
(* is protected under (the key-relevant part of the sender's transcript),  *)
(* seq its sequence number, tr the transcript a Finished vouches for.      *)
(* Equality of key terms models equality of derived keys.                  *)
(***************************************************************************)
EXTENDS Integers, Sequences, FiniteSets, TLC

CONSTANTS Protos,      \* subset of {257 (TLCP), 771 (TLS 1.2), 772 (TLS 1.3)}
          Budget,      \* number of faults the proxy may apply
          MaxApp,      \* application writes per endpoint in the model
          CredCases    \* set of credential-defect records explored, see Honest below

VARIABLES proto, mutual,      \* configuration of this run
          cmutual,            \* the client's view: has the server asked for a certificate (CertificateRequest is optional for the client)
          cred,               \* [sOK, sPoss, sEnc, cCert, cOK, cPoss] : credential facts (C09)
          cpc, spc,           \* 0 = failed, 1..Len(prog) running, Len+1 = handshake complete
          c2m, m2s, s2m, m2c, \* sender->proxy and proxy->receiver record queues
          held,               \* record held back by a swap fault, per direction
          first,              \* first record seen per direction (replay injection)
          ctr, str,           \* transcripts: sequences of <<message, intact?>>
          cwseq, swseq, crseq, srseq,
          csent, ssent, cgot, sgot,   \* handshake records sent / consumed (ghost, for the C10 invariant)
          budget, hsFault,    \* remaining faults; a fault hit a record while its receiver was still in the handshake
          closed,             \* proxy has shut both connections
          capp, sapp,         \* application records written so far
          cacc, sacc          \* application records accepted so far (ghost)

vars == <<proto, mutual, cmutual, cred, cpc, spc, c2m, m2s, s2m, m2c, held, first, ctr, str, cwseq, swseq, crseq, srseq,
          csent, ssent, cgot, sgot, budget, hsFault, closed, capp, sapp, cacc, sacc>>

S(m) == [op |-> "send", m |-> m]
R(m) == [op |-> "recv", m |-> m]
Opt(b, s) == IF b THEN s ELSE <<>>
IsTls13 == proto = 772

ClientProg ==
  IF ~IsTls13 THEN
       <<S("CH"), R("SH"), R("CERT_S"), R("SKE")>> \o Opt(cmutual, <<R("CR")>>) \o <<R("SHD")>>
    \o Opt(cmutual, <<S("CERT_C")>>) \o <<S("CKE")>> \o Opt(cmutual /\ cred.cCert, <<S("CV_C")>>)
    \o <<S("CCS_C"), S("FIN_C"), R("CCS_S"), R("FIN_S")>>
  ELSE <<S("CH"), R("SH"), R("EE")>> \o Opt(cmutual, <<R("CR")>>)
    \o <<R("CERT_S"), R("CV_S"), R("FIN_S")>>
    \o Opt(cmutual, <<S("CERT_C")>>) \o Opt(cmutual /\ cred.cCert, <<S("CV_C")>>) \o <<S("FIN_C")>>
ServerProg ==
  IF ~IsTls13 THEN
       <<R("CH"), S("SH"), S("CERT_S"), S("SKE")>> \o Opt(mutual, <<S("CR")>>) \o <<S("SHD")>>
    \o Opt(mutual, <<R("CERT_C")>>) \o <<R("CKE")>> \o Opt(mutual, <<R("CV_C")>>)
    \o <<R("CCS_C"), R("FIN_C"), S("CCS_S"), S("FIN_S")>>
  ELSE <<R("CH"), S("SH"), S("EE")>> \o Opt(mutual, <<S("CR")>>)
    \o <<S("CERT_S"), S("CV_S"), S("FIN_S")>>
    \o Opt(mutual, <<R("CERT_C"), R("CV_C")>>) \o <<R("FIN_C")>>
CDone == Len(ClientProg) + 1
SDone == Len(ServerProg) + 1
CRunning == cpc \in 1..Len(ClientProg)
SRunning == spc \in 1..Len(ServerProg)

DataMsg(m) == m \in {"APP", "CLOSE"}
Protected(m) == IF ~IsTls13 THEN m \in {"FIN_C", "FIN_S", "APP", "CLOSE"} ELSE m \notin {"CH", "SH", "ALERT", "JUNK"}
IsFin(m) == m \in {"FIN_C", "FIN_S"}
InTranscript(m) == m \notin {"CCS_C", "CCS_S", "APP", "CLOSE", "ALERT", "JUNK"}
KeyRel(m) == IF ~IsTls13 THEN m \in {"CH", "SH", "SKE", "CKE", "CERT_S"} ELSE m \in {"CH", "SH"}
(* the key term: the key-relevant messages as this endpoint saw them; a TLCP server whose      *)
(* encryption key does not match its certificate decrypts a different pre-master secret        *)
KeyOf(tr, isServer) == LET k == SelectSeq(tr, LAMBDA e : KeyRel(e[1]))
                       IN IF isServer /\ proto = 257 /\ ~cred.sEnc THEN k \o <<<<"WRONG_PMS", FALSE>>>> ELSE k

Rec(m, tr, seq, isServer) ==
   [m |-> m, ok |-> TRUE,
    key |-> IF Protected(m) THEN KeyOf(tr, isServer) ELSE <<>>,
    seq |-> IF Protected(m) THEN seq ELSE 0,
    tr  |-> IF IsFin(m) THEN tr ELSE <<>>]
Junk == [m |-> "JUNK", ok |-> FALSE, key |-> <<>>, seq |-> 0, tr |-> <<>>]

(* what a receiver may accept as message m: right message, and -- if the message is protected, *)
(* vouches for a transcript or is outside the transcript -- intact, under the receiver's key   *)
(* and sequence number, for the receiver's transcript.  Credential checks (C09): the peer's    *)
(* certificate message is accepted only for a valid chain, its signature message only with     *)
(* possession of the certified key.                                                            *)
Accepts(r, m, tr, rs, isServer) ==
    /\ r.m = m
    /\ Protected(m) => (r.ok /\ r.key = KeyOf(tr, isServer) /\ r.seq = rs)
    /\ IsFin(m) => r.tr = tr
    /\ ~InTranscript(m) => r.ok
    /\ (~isServer /\ m = "CERT_S") => cred.sOK
    /\ (~isServer /\ m = (IF IsTls13 THEN "CV_S" ELSE "SKE")) => cred.sPoss
    /\ (isServer /\ m = "CERT_C") => (cred.cCert /\ cred.cOK)
    /\ (isServer /\ m = "CV_C") => cred.cPoss

AllCredsGood == cred.sOK /\ cred.sPoss /\ cred.sEnc /\ (mutual => (cred.cCert /\ cred.cOK /\ cred.cPoss))
Honest == budget = Budget /\ AllCredsGood /\ ~closed

(* ------------------------------ endpoints ------------------------------ *)
CSend == /\ CRunning /\ ClientProg[cpc].op = "send"
         /\ LET m == ClientProg[cpc].m  r == Rec(m, ctr, cwseq, FALSE) IN
            /\ c2m' = Append(c2m, r) /\ csent' = Append(csent, r)
            /\ ctr' = IF InTranscript(m) THEN Append(ctr, <<m, TRUE>>) ELSE ctr
            /\ cwseq' = IF Protected(m) THEN cwseq + 1 ELSE (IF m = "CCS_C" THEN 0 ELSE cwseq)
         /\ cpc' = cpc + 1
         /\ UNCHANGED <<proto, mutual, cmutual, cred, spc, m2s, s2m, m2c, held, first, str, swseq, crseq, srseq, ssent, cgot, sgot,
                        budget, hsFault, closed, capp, sapp, cacc, sacc>>
CRecvOK == /\ CRunning /\ ClientProg[cpc].op = "recv" /\ m2c # <<>>
           /\ LET m == ClientProg[cpc].m  r == Head(m2c) IN
              /\ Accepts(r, m, ctr, crseq, FALSE)
              /\ ctr' = IF InTranscript(m) THEN Append(ctr, <<m, r.ok>>) ELSE ctr
              /\ crseq' = IF Protected(m) THEN crseq + 1 ELSE crseq
           /\ cgot' = Append(cgot, Head(m2c)) /\ m2c' = Tail(m2c) /\ cpc' = cpc + 1
           /\ UNCHANGED <<proto, mutual, cmutual, cred, spc, c2m, m2s, s2m, held, first, str, cwseq, swseq, srseq, csent, ssent, sgot,
                          budget, hsFault, closed, capp, sapp, cacc, sacc>>
(* An endpoint may give up during the handshake only if the run is not honest any more (some   *)
(* fault was applied, some credential is defective, the proxy closed) or nothing can arrive.   *)
CStarved == m2c = <<>> /\ s2m = <<>> /\ held.s2c = <<>> /\ (closed \/ spc = 0 \/ spc = SDone)
CFail == /\ CRunning /\ ClientProg[cpc].op = "recv"
         /\ (~Honest \/ CStarved)
         /\ cpc' = 0
         /\ \/ c2m' = Append(c2m, Rec("ALERT", ctr, cwseq, FALSE))
            \/ c2m' = c2m
         /\ UNCHANGED <<proto, mutual, cmutual, cred, spc, m2s, s2m, m2c, held, first, ctr, str, cwseq, swseq, crseq, srseq, csent, ssent,
                        cgot, sgot, budget, hsFault, closed, capp, sapp, cacc, sacc>>
(* CertificateRequest is optional from the client's point of view: when the next message is the one that follows it, *)
(* the client carries on without client authentication (the server, which asked, will then refuse)                    *)
CSkipCR == /\ CRunning /\ cmutual /\ ClientProg[cpc] = R("CR") /\ m2c # <<>>
           /\ Head(m2c).m = (IF IsTls13 THEN "CERT_S" ELSE "SHD")
           /\ cmutual' = FALSE
           /\ UNCHANGED <<proto, mutual, cred, cpc, spc, c2m, m2s, s2m, m2c, held, first, ctr, str, cwseq, swseq, crseq, srseq, csent, ssent,
                          cgot, sgot, budget, hsFault, closed, capp, sapp, cacc, sacc>>
SSend == /\ SRunning /\ ServerProg[spc].op = "send"
         /\ LET m == ServerProg[spc].m  r == Rec(m, str, swseq, TRUE) IN
            /\ s2m' = Append(s2m, r) /\ ssent' = Append(ssent, r)
            /\ str' = IF InTranscript(m) THEN Append(str, <<m, TRUE>>) ELSE str
            /\ swseq' = IF Protected(m) THEN swseq + 1 ELSE (IF m = "CCS_S" THEN 0 ELSE swseq)
         /\ spc' = spc + 1
         /\ UNCHANGED <<proto, mutual, cmutual, cred, cpc, c2m, m2s, m2c, held, first, ctr, cwseq, crseq, srseq, csent, cgot, sgot,
                        budget, hsFault, closed, capp, sapp, cacc, sacc>>
SRecvOK == /\ SRunning /\ ServerProg[spc].op = "recv" /\ m2s # <<>>
           /\ LET m == ServerProg[spc].m  r == Head(m2s) IN
              /\ Accepts(r, m, str, srseq, TRUE)
              /\ str' = IF InTranscript(m) THEN Append(str, <<m, r.ok>>) ELSE str
              /\ srseq' = IF Protected(m) THEN srseq + 1 ELSE srseq
           /\ sgot' = Append(sgot, Head(m2s)) /\ m2s' = Tail(m2s) /\ spc' = spc + 1
           /\ UNCHANGED <<proto, mutual, cmutual, cred, cpc, c2m, s2m, m2c, held, first, ctr, cwseq, swseq, crseq, csent, ssent, cgot,
                          budget, hsFault, closed, capp, sapp, cacc, sacc>>
SStarved == m2s = <<>> /\ c2m = <<>> /\ held.c2s = <<>> /\ (closed \/ cpc = 0 \/ cpc = CDone)
SFail == /\ SRunning /\ ServerProg[spc].op = "recv"
         /\ (~Honest \/ SStarved)
         /\ spc' = 0
         /\ \/ s2m' = Append(s2m, Rec("ALERT", str, swseq, TRUE))
            \/ s2m' = s2m
         /\ UNCHANGED <<proto, mutual, cmutual, cred, cpc, c2m, m2s, m2c, held, first, ctr, str, cwseq, swseq, crseq, srseq, csent, ssent,
                        cgot, sgot, budget, hsFault, closed, capp, sapp, cacc, sacc>>

(* ------------------------------ data phase (record level) ------------------------------ *)
CEmit(m) == /\ cpc = CDone
            /\ c2m' = Append(c2m, Rec(m, ctr, cwseq, FALSE)) /\ cwseq' = cwseq + 1 /\ capp' = capp + 1
            /\ UNCHANGED <<proto, mutual, cmutual, cred, cpc, spc, m2s, s2m, m2c, held, first, ctr, str, swseq, crseq, srseq, csent, ssent,
                           cgot, sgot, budget, hsFault, closed, sapp, cacc, sacc>>
SEmit(m) == /\ spc = SDone
            /\ s2m' = Append(s2m, Rec(m, str, swseq, TRUE)) /\ swseq' = swseq + 1 /\ sapp' = sapp + 1
            /\ UNCHANGED <<proto, mutual, cmutual, cred, cpc, spc, c2m, m2s, m2c, held, first, ctr, str, cwseq, crseq, srseq, csent, ssent,
                           cgot, sgot, budget, hsFault, closed, capp, cacc, sacc>>
(* accepting a data record: only an intact record of the completed peer, under the agreed key, in sequence *)
CAccept(m) == /\ cpc = CDone /\ m2c # <<>> /\ Accepts(Head(m2c), m, ctr, crseq, FALSE)
              /\ m2c' = Tail(m2c) /\ crseq' = crseq + 1 /\ cacc' = cacc + 1
              /\ UNCHANGED <<proto, mutual, cmutual, cred, cpc, spc, c2m, m2s, s2m, held, first, ctr, str, cwseq, swseq, srseq, csent, ssent,
                             cgot, sgot, budget, hsFault, closed, capp, sapp, sacc>>
SAccept(m) == /\ spc = SDone /\ m2s # <<>> /\ Accepts(Head(m2s), m, str, srseq, TRUE)
              /\ m2s' = Tail(m2s) /\ srseq' = srseq + 1 /\ sacc' = sacc + 1
              /\ UNCHANGED <<proto, mutual, cmutual, cred, cpc, spc, c2m, s2m, m2c, held, first, ctr, str, cwseq, swseq, crseq, csent, ssent,
                             cgot, sgot, budget, hsFault, closed, capp, sapp, cacc>>
(* a data record that is not acceptable is discarded with an error (the connection is then dead for this reader) *)
CReject == /\ cpc = CDone /\ m2c # <<>> /\ ~Accepts(Head(m2c), Head(m2c).m, ctr, crseq, FALSE) /\ m2c' = Tail(m2c) /\ cpc' = 0
           /\ UNCHANGED <<proto, mutual, cmutual, cred, spc, c2m, m2s, s2m, held, first, ctr, str, cwseq, swseq, crseq, srseq, csent, ssent,
                          cgot, sgot, budget, hsFault, closed, capp, sapp, cacc, sacc>>
SReject == /\ spc = SDone /\ m2s # <<>> /\ ~Accepts(Head(m2s), Head(m2s).m, str, srseq, TRUE) /\ m2s' = Tail(m2s) /\ spc' = 0
           /\ UNCHANGED <<proto, mutual, cmutual, cred, cpc, c2m, s2m, m2c, held, first, ctr, str, cwseq, swseq, crseq, srseq, csent, ssent,
                          cgot, sgot, budget, hsFault, closed, capp, sapp, cacc, sacc>>

(* ------------------------------ the proxy / adversary ------------------------------ *)
Garble(r) == [r EXCEPT !.ok = FALSE]
Faults == {"none", "flip", "hdrflip", "trunc", "drop", "dup", "swap", "inject0", "injectJunk", "injectCcs"}
Deliver(q, h, r, fault, f1, dir) ==
   CASE fault = "none"  -> <<q \o <<r>> \o h, <<>>>>
     [] fault \in {"flip", "trunc", "hdrflip"} -> <<q \o <<Garble(r)>> \o h, <<>>>>
     [] fault = "drop"  -> <<q \o h, <<>>>>
     [] fault = "dup"   -> <<q \o <<r, r>> \o h, <<>>>>
     [] fault = "swap"  -> <<q, <<r>>>>
     [] fault = "inject0" -> <<q \o f1 \o <<r>> \o h, <<>>>>
     [] fault = "injectJunk" -> <<q \o <<Junk>> \o <<r>> \o h, <<>>>>
     [] fault = "injectCcs" -> <<q \o <<[Junk EXCEPT !.m = IF dir = "c2s" THEN "CCS_C" ELSE "CCS_S", !.ok = TRUE]>> \o <<r>> \o h, <<>>>>
FwdC2S(fault) ==
    /\ c2m # <<>>
    /\ fault # "none" => (budget > 0 /\ (fault = "inject0" => first.c2s # <<>>))
    /\ LET r == Head(c2m)  d == Deliver(m2s, held.c2s, r, fault, first.c2s, "c2s") IN
         /\ m2s' = d[1] /\ held' = [held EXCEPT !.c2s = d[2]]
         /\ first' = IF first.c2s = <<>> THEN [first EXCEPT !.c2s = <<r>>] ELSE first
    /\ c2m' = Tail(c2m)
    /\ budget' = IF fault = "none" THEN budget ELSE budget - 1
    /\ hsFault' = (hsFault \/ (fault # "none" /\ SRunning))
    /\ UNCHANGED <<proto, mutual, cmutual, cred, cpc, spc, s2m, m2c, ctr, str, cwseq, swseq, crseq, srseq, csent, ssent, cgot, sgot,
                   closed, capp, sapp, cacc, sacc>>
FwdS2C(fault) ==
    /\ s2m # <<>>
    /\ fault # "none" => (budget > 0 /\ (fault = "inject0" => first.s2c # <<>>))
    /\ LET r == Head(s2m)  d == Deliver(m2c, held.s2c, r, fault, first.s2c, "s2c") IN
         /\ m2c' = d[1] /\ held' = [held EXCEPT !.s2c = d[2]]
         /\ first' = IF first.s2c = <<>> THEN [first EXCEPT !.s2c = <<r>>] ELSE first
    /\ s2m' = Tail(s2m)
    /\ budget' = IF fault = "none" THEN budget ELSE budget - 1
    /\ hsFault' = (hsFault \/ (fault # "none" /\ CRunning))
    /\ UNCHANGED <<proto, mutual, cmutual, cred, cpc, spc, c2m, m2s, ctr, str, cwseq, swseq, crseq, srseq, csent, ssent, cgot, sgot,
                   closed, capp, sapp, cacc, sacc>>
ProxyClose == /\ ~closed /\ closed' = TRUE
              /\ UNCHANGED <<proto, mutual, cmutual, cred, cpc, spc, c2m, m2s, s2m, m2c, held, first, ctr, str, cwseq, swseq, crseq, srseq,
                             csent, ssent, cgot, sgot, budget, hsFault, capp, sapp, cacc, sacc>>

Init == /\ proto \in Protos /\ mutual \in BOOLEAN /\ cmutual = mutual /\ cred \in CredCases
        /\ cpc = 1 /\ spc = 1
        /\ c2m = <<>> /\ m2s = <<>> /\ s2m = <<>> /\ m2c = <<>>
        /\ held = [c2s |-> <<>>, s2c |-> <<>>] /\ first = [c2s |-> <<>>, s2c |-> <<>>]
        /\ ctr = <<>> /\ str = <<>> /\ cwseq = 0 /\ swseq = 0 /\ crseq = 0 /\ srseq = 0
        /\ csent = <<>> /\ ssent = <<>> /\ cgot = <<>> /\ sgot = <<>>
        /\ budget = Budget /\ hsFault = FALSE /\ closed = FALSE
        /\ capp = 0 /\ sapp = 0 /\ cacc = 0 /\ sacc = 0

Endpoint == CSend \/ CRecvOK \/ CFail \/ CSkipCR \/ SSend \/ SRecvOK \/ SFail
Data == (capp < MaxApp /\ CEmit("APP")) \/ (sapp < MaxApp /\ SEmit("APP")) \/ CAccept("APP") \/ SAccept("APP") \/ CReject \/ SReject
Proxy == (\E f \in Faults : FwdC2S(f) \/ FwdS2C(f)) \/ (budget < Budget /\ ProxyClose)
Next == Endpoint \/ Data \/ Proxy
Spec == Init /\ [][Next]_vars
FairSpec == Spec /\ WF_vars(CSend) /\ WF_vars(CRecvOK) /\ WF_vars(SSend) /\ WF_vars(SRecvOK)
                 /\ WF_vars(FwdC2S("none")) /\ WF_vars(FwdS2C("none"))

(* ------------------------------ properties ------------------------------ *)
BothDone == cpc = CDone /\ spc = SDone
(* C08: honest peers agree on the keys (same key term) *)
Agreement == (cpc = CDone /\ spc = SDone) => KeyOf(ctr, FALSE) = KeyOf(str, TRUE)
(* C09: authentication cannot be bypassed *)
AuthServer == cpc = CDone => (cred.sOK /\ cred.sPoss /\ (proto = 257 => cred.sEnc))
AuthClient == (spc = SDone /\ mutual) => (cred.cCert /\ cred.cOK /\ cred.cPoss)
(* C10: if both complete, each consumed during its handshake exactly what the other sent *)
TamperDetected == BothDone => (cgot = ssent /\ sgot = csent)
NoFaultedCompletion == ~(hsFault /\ BothDone)
(* C10/C11: application data is accepted only from a completed peer, intact and in order: the *)
(* number of accepted records never exceeds the number written, and acceptance needs BothDone *)
AppOnlyFromPeer == cacc <= sapp /\ sacc <= capp
(* C08 liveness: with no faults and good credentials both complete *)
HonestCompletes == (Budget = 0 /\ AllCredsGood) => <>BothDone
=============================================================================
