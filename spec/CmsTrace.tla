------------------------------ MODULE CmsTrace ------------------------------
(* Trace judge for C16: events of harness/cmsdrv.c, annotated with the facts the harness knows (what was changed, whose key is offered). *)
EXTENDS Integers, Sequences, FiniteSets, TLC, Json, IOUtils
VARIABLES l
TraceLog == ndJsonDeserialize(IOEnv.TRACE)
Ev == TraceLog[l]
Chk(cond) == IF cond THEN TRUE ELSE PrintT(<<"MISMATCH", l>>)
Init == l = 1
TMake == /\ l <= Len(TraceLog) /\ Ev.e = "Cms" /\ Ev.op \in {"sign", "encrypt", "envelop", "sign_and_envelop"} /\ l' = l + 1 /\ Chk(Ev.rc = 1)
(* verification: succeeds exactly for an untouched message with at least one signer info, returning the content *)
TVerify == /\ l <= Len(TraceLog) /\ Ev.e = "Cms" /\ Ev.op = "verify" /\ l' = l + 1
           /\ Chk(IF Ev.nsi >= 1 /\ ~Ev.tampered THEN Ev.rc = 1 /\ Ev.content = Ev.expect /\ Ev.certs = Ev.expectcerts ELSE Ev.rc # 1)
(* opening: succeeds exactly for an untouched message and a recipient's (or the right symmetric) key, whatever the provenance of the key object *)
TOpen == /\ l <= Len(TraceLog) /\ Ev.e = "Cms" /\ Ev.op \in {"decrypt", "deenvelop", "deenvelop_and_verify"} /\ l' = l + 1
         /\ Chk(IF Ev.rightkey /\ ~Ev.tampered /\ (Ev.op = "deenvelop_and_verify" => Ev.nsi >= 1) THEN Ev.rc = 1 /\ Ev.content = Ev.expect ELSE Ev.rc # 1)
TReset == l <= Len(TraceLog) /\ Ev.e = "Reset" /\ l' = l + 1
Next == TMake \/ TVerify \/ TOpen \/ TReset
Spec == Init /\ [][Next]_l
Accepted == LET d == TLCGet("stats").diameter IN IF d - 1 = Len(TraceLog) THEN TRUE ELSE PrintT(<<"REJECTED", d, TraceLog[d].e>>) /\ FALSE
=============================================================================
