SPECIFICATION Spec
CONSTANTS Kind = "utf8" MaxLen = 4
INVARIANT Emit
CHECK_DEADLOCK FALSE
