SPECIFICATION Spec
CONSTANTS NT = 2 K = 2 HiddenState = TRUE CallAtomic = FALSE
INVARIANT SequentialResults
CHECK_DEADLOCK FALSE
