SPECIFICATION Spec
CONSTANTS Kind = "integer" MaxLen = 4
INVARIANT Emit
CHECK_DEADLOCK FALSE
