SPECIFICATION Spec
CONSTANTS PoolSize = 2 MaxFinish = 5 MaxLen = 2
INVARIANTS NonceUsedOnce SignedIsZThenMessage PoolBounded
CHECK_DEADLOCK FALSE
