SPECIFICATION Spec
CONSTANTS
  Protos <- P3
  Budget = 0
  MaxApp = 0
  CredCases <- AllCreds
  Accepts <- AcceptsNoChain
INVARIANTS AuthServer
CHECK_DEADLOCK FALSE
