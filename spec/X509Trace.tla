----------------------------- MODULE X509Trace -----------------------------
(* Trace judge for C15: Issue / Parse / Verify / Lookup events of harness/x509drv.c against the X509Obj contract. *)
EXTENDS Integers, Sequences, FiniteSets, TLC, Json, IOUtils
VARIABLES l, cur
TraceLog == ndJsonDeserialize(IOEnv.TRACE)
Ev == TraceLog[l]
IsEvent(e) == l <= Len(TraceLog) /\ Ev.e = e /\ l' = l + 1
Chk(cond) == IF cond THEN TRUE ELSE PrintT(<<"MISMATCH", l>>)
RECURSIVE StripZ(_)
StripZ(c) == IF Len(c) > 1 /\ c[1] = 0 THEN StripZ(Tail(c)) ELSE c
D == INSTANCE Der
(* the Extensions content as a list of Extension ::= SEQUENCE { extnID OID, critical BOOLEAN DEFAULT FALSE, extnValue OCTET STRING (holding one DER value) } *)
NoExt == [ok |-> FALSE, oid |-> <<>>, crit |-> FALSE, val |-> <<>>]
RECURSIVE ExtWalk(_, _, _)
ExtWalk(b, pos, lim) ==
    IF pos > lim THEN <<>>
    ELSE LET t == D!Tlv(b, pos, lim) IN
         IF ~t.ok \/ t.tag # 48 THEN <<NoExt>>
         ELSE LET e == t.body + t.len - 1
                  o == D!Tlv(b, t.body, e)
                  c == IF o.ok THEN D!Tlv(b, o.next, e) ELSE D!NoTlv
                  hasc == c.ok /\ c.tag = 1
                  v == IF hasc THEN D!Tlv(b, c.next, e) ELSE c
                  inner == IF v.ok THEN D!Tlv(b, v.body, v.body + v.len - 1) ELSE D!NoTlv
                  good == o.ok /\ o.tag = 6 /\ v.ok /\ v.tag = 4 /\ v.next = e + 1 /\ (hasc => c.len = 1) /\ inner.ok /\ inner.next = v.body + v.len
              IN IF ~good THEN <<NoExt>>
                 ELSE <<[ok |-> TRUE, oid |-> SubSeq(b, o.body, o.body + o.len - 1), crit |-> hasc /\ b[c.body] # 0, val |-> SubSeq(b, v.body, v.body + v.len - 1)]>> \o ExtWalk(b, t.next, lim)
(* the extensions that come back are the ones supplied: same number and order, identifier, criticality, and (where the harness knows it) value; the library's own walk agrees *)
ExtsAsSupplied(x, e) == LET w == ExtWalk(e.exts, 1, Len(e.exts)) IN
    /\ Len(w) = Len(x.xoids) /\ e.extwalk = Len(x.xoids)
    /\ \A j \in 1..Len(w) : w[j].ok /\ w[j].oid = x.xoids[j] /\ w[j].crit = (x.xcrit[j] = 1) /\ (x.xvals[j] # <<>> => w[j].val = x.xvals[j])
Init == l = 1 /\ cur = <<>>
TIssue == /\ IsEvent("Issue") /\ Chk(Ev.rc = 1) /\ cur' = Ev
(* every field comes back exactly as supplied *)
TParse == /\ IsEvent("Parse") /\ UNCHANGED cur
          /\ Chk(/\ Ev.rc = 1
                 /\ (cur.kind = "cert" => (Ev.version = 2 /\ StripZ(Ev.serial) = StripZ(cur.serial) /\ Ev.subject = cur.subject /\ Ev.pub = cur.pub))
                 /\ (cur.kind = "req"  => (Ev.version = 0 /\ Ev.subject = cur.subject /\ Ev.pub = cur.pub))
                 /\ (cur.kind = "crl"  => (Ev.version = 1 /\ Ev.revoked = cur.revoked))
                 /\ (cur.kind # "req"  => (Ev.issuer = cur.issuer /\ Ev.nb_d = cur.nb_d /\ Ev.nb_s = cur.nb_s /\ Ev.na_d = cur.na_d /\ Ev.na_s = cur.na_s /\ Ev.exts = cur.exts /\ ExtsAsSupplied(cur, Ev) /\ Ev.alg1 = Ev.alg2)))
(* verification succeeds exactly under the issuing key and signer ID, on the untouched object *)
TVerify == /\ IsEvent("Verify") /\ UNCHANGED cur
           /\ Chk((Ev.rc = 1) <=> (Ev.keyright /\ Ev.sidright /\ ~Ev.tampered))
(* a listed serial is found with the revocation date, reason and invalidity date it was listed with (-1: extension absent) *)
TLookup == /\ IsEvent("Lookup") /\ UNCHANGED cur
           /\ Chk(((Ev.rc = 1) <=> Ev.listed) /\ (Ev.listed => Ev.rd = Ev.erd /\ Ev.reason = Ev.ereason /\ Ev.inv = Ev.einv /\ ((Ev.ereason # -1 \/ Ev.einv # -1) => Ev.xrc = 1)))
TReset == IsEvent("Reset") /\ UNCHANGED cur
Next == TIssue \/ TParse \/ TVerify \/ TLookup \/ TReset
Spec == Init /\ [][Next]_<<l, cur>>
Accepted == LET d == TLCGet("stats").diameter IN IF d - 1 = Len(TraceLog) THEN TRUE ELSE PrintT(<<"REJECTED", d, TraceLog[d].e>>) /\ FALSE
=============================================================================
