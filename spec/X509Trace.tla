----------------------------- MODULE X509Trace -----------------------------
(* Trace judge for C15: Issue / Parse / Verify / Lookup events of harness/x509drv.c against the X509Obj contract. *)
EXTENDS Integers, Sequences, FiniteSets, TLC, Json, IOUtils
VARIABLES l, cur
TraceLog == ndJsonDeserialize(IOEnv.TRACE)
Ev == TraceLog[l]
IsEvent(e) == l <= Len(TraceLog) /\ Ev.e = e /\ l' = l + 1
Chk(cond) == IF cond THEN TRUE ELSE PrintT(<<"MISMATCH", l>>)
RECURSIVE StripZ(_)
StripZ(c) == IF Len(c) > 1 /\ c[1] = 0 THEN StripZ(Tail(c)) ELSE c
Init == l = 1 /\ cur = <<>>
TIssue == /\ IsEvent("Issue") /\ Chk(Ev.rc = 1) /\ cur' = Ev
(* every field comes back exactly as supplied *)
TParse == /\ IsEvent("Parse") /\ UNCHANGED cur
          /\ Chk(/\ Ev.rc = 1
                 /\ (cur.kind = "cert" => (Ev.version = 2 /\ StripZ(Ev.serial) = StripZ(cur.serial) /\ Ev.subject = cur.subject /\ Ev.pub = cur.pub))
                 /\ (cur.kind = "req"  => (Ev.version = 0 /\ Ev.subject = cur.subject /\ Ev.pub = cur.pub))
                 /\ (cur.kind = "crl"  => (Ev.version = 1 /\ Ev.revoked = cur.revoked))
                 /\ (cur.kind # "req"  => (Ev.issuer = cur.issuer /\ Ev.nb_d = cur.nb_d /\ Ev.nb_s = cur.nb_s /\ Ev.na_d = cur.na_d /\ Ev.na_s = cur.na_s /\ Ev.exts = cur.exts /\ Ev.alg1 = Ev.alg2)))
(* verification succeeds exactly under the issuing key and signer ID, on the untouched object *)
TVerify == /\ IsEvent("Verify") /\ UNCHANGED cur
           /\ Chk((Ev.rc = 1) <=> (Ev.keyright /\ Ev.sidright /\ ~Ev.tampered))
(* a listed serial is found with the revocation date, reason and invalidity date it was listed with (-1: extension absent) *)
TLookup == /\ IsEvent("Lookup") /\ UNCHANGED cur
           /\ Chk(((Ev.rc = 1) <=> Ev.listed) /\ (Ev.listed => Ev.rd = Ev.erd /\ Ev.reason = Ev.ereason /\ Ev.inv = Ev.einv /\ ((Ev.ereason # -1 \/ Ev.einv # -1) => Ev.xrc = 1)))
TReset == IsEvent("Reset") /\ UNCHANGED cur
Next == TIssue \/ TParse \/ TVerify \/ TLookup \/ TReset
Spec == Init /\ [][Next]_<<l, cur>>
Accepted == LET d == TLCGet("stats").diameter IN IF d - 1 = Len(TraceLog) THEN TRUE ELSE PrintT(<<"REJECTED", d, TraceLog[d].e>>) /\ FALSE
=============================================================================
