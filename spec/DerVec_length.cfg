SPECIFICATION Spec
CONSTANTS Kind = "length" MaxLen = 4
INVARIANT Emit
CHECK_DEADLOCK FALSE
