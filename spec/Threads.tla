------------------------------ MODULE Threads ------------------------------
(***************************************************************************)
(* C20: operations on distinct objects may run concurrently from many      *)
(* threads and each returns what it returns when run alone.                *)
(* Every thread owns an object (loc) and runs K operations on it.  An      *)
(* operation is a call into the library: Begin (the call is entered),      *)
(* then End (it returns a result computed from the caller's own object and *)
(* the library's internal state).  The library's internal state is what    *)
(* the property is about: with HiddenState = FALSE the library keeps none  *)
(* (constant tables only) and results are independent of the schedule;     *)
(* with HiddenState = TRUE an operation parks an intermediate value in a   *)
(* library-internal scratch cell between Begin and End, and TLC exhibits   *)
(* the schedule under which another thread's call corrupts it.  `sched` is *)
(* the history of call entries -- the call-level schedules the harness     *)
(* replays (Threads_gen.cfg prints them at the terminal states).           *)
(***************************************************************************)
EXTENDS Integers, Sequences, FiniteSets, TLC
CONSTANTS NT, K, HiddenState, CallAtomic
Thr == 0..(NT - 1)
VARIABLES pc, inop, loc, res, scratch, sched
vars == <<pc, inop, loc, res, scratch, sched>>
Val(t, k) == 10 * (t + 1) + k
Init == /\ pc = [t \in Thr |-> 0] /\ inop = [t \in Thr |-> FALSE] /\ loc = [t \in Thr |-> 0] /\ res = [t \in Thr |-> <<>>] /\ scratch = 0 /\ sched = <<>>
Begin(t) == /\ pc[t] < K /\ ~inop[t]
            /\ (CallAtomic => \A u \in Thr : ~inop[u])          \* call-level schedules: one call at a time
            /\ inop' = [inop EXCEPT ![t] = TRUE]
            /\ scratch' = IF HiddenState THEN Val(t, pc[t]) ELSE scratch
            /\ sched' = Append(sched, t)
            /\ UNCHANGED <<pc, loc, res>>
End(t) == /\ inop[t]
          /\ LET v == IF HiddenState THEN scratch ELSE Val(t, pc[t]) IN
             /\ loc' = [loc EXCEPT ![t] = @ + v]
             /\ res' = [res EXCEPT ![t] = Append(@, loc[t] + v)]
          /\ pc' = [pc EXCEPT ![t] = @ + 1] /\ inop' = [inop EXCEPT ![t] = FALSE]
          /\ UNCHANGED <<scratch, sched>>
Next == \E t \in Thr : Begin(t) \/ End(t)
Spec == Init /\ [][Next]_vars
FairSpec == Spec /\ \A t \in Thr : WF_vars(Begin(t) \/ End(t))
(* what thread t's k-th operation returns when t runs alone *)
RECURSIVE Alone(_, _)
Alone(t, k) == IF k = 0 THEN 0 ELSE Alone(t, k - 1) + Val(t, k - 1)
SequentialResults == \A t \in Thr : \A k \in 1..Len(res[t]) : res[t][k] = Alone(t, k)
Done == \A t \in Thr : pc[t] = K
EveryoneFinishes == <>Done
PrintSchedules == Done => PrintT(<<"SCHED", sched>>)
=============================================================================
