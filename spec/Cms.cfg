SPECIFICATION Spec
CONSTANTS Parties = {1, 2, 3, 4} Provenance = {"raw", "der", "pem"}
INVARIANTS NoSignerNeverVerifies OnlyRecipientsOpen ProvenanceIrrelevant
CHECK_DEADLOCK FALSE
