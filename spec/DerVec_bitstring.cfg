SPECIFICATION Spec
CONSTANTS Kind = "bitstring" MaxLen = 4
INVARIANT Emit
CHECK_DEADLOCK FALSE
