SPECIFICATION Spec
CONSTANTS Kind = "boolean" MaxLen = 4
INVARIANT Emit
CHECK_DEADLOCK FALSE
