------------------------------- MODULE Crypto -------------------------------
(***************************************************************************)
(* Executable definitions, on byte sequences, of every construction that   *)
(* sits above a cryptographic primitive: Merkle-Damgard hashing (SM3,      *)
(* SHA-1, SHA-2 family), HMAC, PBKDF2, HKDF, the SM3 / SM2 counter KDF,    *)
(* the TLS 1.2 PRF and the TLS 1.3 HKDF-Expand-Label.                      *)
(*                                                                         *)
(* The primitives themselves (compression functions, block ciphers) are    *)
(* NOT defined here: they are looked up in a finite table T of rows        *)
(* [p |-> name, i |-> input bytes, o |-> output bytes] produced by the     *)
(* independent reference implementations in /verif/ref for exactly the     *)
(* calls an execution needs.  A missing row is an oracle fault (evaluation *)
(* error), never a verdict.                                                *)
(***************************************************************************)
EXTENDS Integers, Sequences, FiniteSets, TLC, SequencesExt, Bitwise

(* ------------------------------ bytes ------------------------------ *)
Zeros(k) == [i \in 1..k |-> 0]
Rep(b, k) == [i \in 1..k |-> b]
XorB(a, b) == [i \in 1..Len(a) |-> a[i] ^^ b[i]]
Take(s, k) == SubSeq(s, 1, k)
Drop(s, k) == SubSeq(s, k + 1, Len(s))
BE(n, k) == [i \in 1..k |-> (n \div (256 ^ (k - i))) % 256]       \* big-endian, n < 2^31, k <= 4 meaningful digits
BE4(n) == BE(n, 4)
(* 8*n as a big-endian integer of k >= 8 bytes, for n < 2^31 (no overflow: split at 2^24) *)
BitLenBE(n, k) == LET lo == (n % 16777216) * 8              \* < 2^27
                      up == (n \div 16777216) * 8 + (lo \div 16777216)
                  IN Zeros(k - 8) \o BE(0, 1) \o BE(up, 4) \o BE(lo % 16777216, 3)
MinI(a, b) == IF a < b THEN a ELSE b
MaxI(a, b) == IF a > b THEN a ELSE b
CeilDiv(a, b) == (a + b - 1) \div b
Concat(ss) == FoldLeft(LAMBDA acc, s : acc \o s, <<>>, ss)
Str(s) == s   \* strings are passed as byte sequences by the harness

(* ------------------------------ primitive table ------------------------------ *)
Lookup(T, p, in) == LET I == {j \in 1..Len(T) : T[j].p = p /\ T[j].i = in}
                    IN IF I = {} THEN Assert(FALSE, <<"ORACLE-FAULT: no table row for primitive", p>>) ELSE T[CHOOSE j \in I : TRUE].o

(* ------------------------------ Merkle-Damgard hashes ------------------------------ *)
SM3IV == <<115,128,22,111, 73,20,178,185, 23,36,66,215, 218,138,6,0, 169,111,48,188, 22,49,56,170, 227,141,238,77, 176,251,14,78>>
SHA1IV == <<103,69,35,1, 239,205,171,137, 152,186,220,254, 16,50,84,118, 195,210,225,240>>
SHA256IV == <<106,9,230,103, 187,103,174,133, 60,110,243,114, 165,79,245,58, 81,14,82,127, 155,5,104,140, 31,131,217,171, 91,224,205,25>>
SHA224IV == <<193,5,158,216, 54,124,213,7, 48,112,221,23, 247,14,89,57, 255,192,11,49, 104,88,21,17, 100,249,143,167, 190,250,79,164>>
SHA512IV == <<106,9,230,103,243,188,201,8, 187,103,174,133,132,202,167,59, 60,110,243,114,254,148,248,43, 165,79,245,58,95,29,54,241,
              81,14,82,127,173,230,130,209, 155,5,104,140,43,62,108,31, 31,131,217,171,251,65,189,107, 91,224,205,25,19,126,33,121>>
SHA384IV == <<203,187,157,93,193,5,158,216, 98,154,41,42,54,124,213,7, 145,89,1,90,48,112,221,23, 21,47,236,216,247,14,89,57,
              103,51,38,103,255,192,11,49, 142,180,74,135,104,88,21,17, 219,12,46,13,100,249,143,167, 71,181,72,29,190,250,79,164>>
SHA512_224IV == <<140,61,55,200,25,84,77,162,115,225,153,102,137,220,212,214,29,250,183,174,50,255,156,130,103,157,213,20,88,47,159,207,
                  15,109,43,105,123,212,77,168,119,227,111,115,4,196,137,66,63,157,133,168,106,29,54,200,17,18,230,173,145,214,146,161>>
SHA512_256IV == <<34,49,33,148,252,43,247,44,159,85,95,163,200,76,100,194,35,147,184,107,111,83,177,81,150,56,119,25,89,64,234,189,
                  150,40,62,226,168,142,255,227,190,94,30,37,83,134,57,146,43,1,153,252,44,133,184,170,14,183,45,220,129,197,44,162>>

(* algorithm descriptors: p = compression function name, B = block bytes, L = bytes of the length field, iv, out = digest bytes *)
Alg(name) ==
    CASE name = "sm3"        -> [p |-> "sm3",    B |-> 64,  L |-> 8,  iv |-> SM3IV,        out |-> 32]
      [] name = "sha1"       -> [p |-> "sha1",   B |-> 64,  L |-> 8,  iv |-> SHA1IV,       out |-> 20]
      [] name = "sha224"     -> [p |-> "sha256", B |-> 64,  L |-> 8,  iv |-> SHA224IV,     out |-> 28]
      [] name = "sha256"     -> [p |-> "sha256", B |-> 64,  L |-> 8,  iv |-> SHA256IV,     out |-> 32]
      [] name = "sha384"     -> [p |-> "sha512", B |-> 128, L |-> 16, iv |-> SHA384IV,     out |-> 48]
      [] name = "sha512"     -> [p |-> "sha512", B |-> 128, L |-> 16, iv |-> SHA512IV,     out |-> 64]
      [] name = "sha512-224" -> [p |-> "sha512", B |-> 128, L |-> 16, iv |-> SHA512_224IV, out |-> 28]
      [] name = "sha512-256" -> [p |-> "sha512", B |-> 128, L |-> 16, iv |-> SHA512_256IV, out |-> 32]

(* the padding of a message of n bytes: 0x80, zeros up to B-L modulo B, then the bit length in L bytes *)
PadTail(a, n) == LET z == (a.B - a.L - 1 - (n % a.B)) % a.B
                 IN <<128>> \o Zeros(IF z < 0 THEN z + a.B ELSE z) \o BitLenBE(n, a.L)
Pad(a, m) == m \o PadTail(a, Len(m))
NBlocks(a, p) == Len(p) \div a.B
BlockOf(a, p, i) == SubSeq(p, a.B * (i - 1) + 1, a.B * i)
(* chaining from state h over the blocks of the (already padded, block-aligned) string p *)
ChainFrom(T, a, h, p) == FoldLeft(LAMBDA acc, i : Lookup(T, a.p, acc \o BlockOf(a, p, i)), h, [i \in 1..NBlocks(a, p) |-> i])
HashN(T, name, m) == LET a == Alg(name) IN Take(ChainFrom(T, a, a.iv, Pad(a, m)), a.out)

(* ------------------------------ HMAC (RFC 2104 / GB/T 15852.2) ------------------------------ *)
HmacKey0(T, name, key) == LET a == Alg(name)
                              k == IF Len(key) > a.B THEN HashN(T, name, key) ELSE key
                          IN k \o Zeros(a.B - Len(k))
Hmac(T, name, key, msg) == LET a == Alg(name)  k0 == HmacKey0(T, name, key)
                           IN HashN(T, name, XorB(k0, Rep(92, a.B)) \o HashN(T, name, XorB(k0, Rep(54, a.B)) \o msg))

(* ------------------------------ PBKDF2 (RFC 8018) ------------------------------ *)
Pbkdf2F(T, name, pass, salt, iter, i) ==
    LET u1 == Hmac(T, name, pass, salt \o BE4(i))
        st == FoldLeft(LAMBDA acc, j : LET u == Hmac(T, name, pass, acc[1]) IN <<u, XorB(acc[2], u)>>, <<u1, u1>>, [j \in 1..(iter - 1) |-> j])
    IN st[2]
Pbkdf2(T, name, pass, salt, iter, outlen) ==
    LET hl == Alg(name).out  nb == CeilDiv(outlen, hl)
    IN Take(Concat([i \in 1..nb |-> Pbkdf2F(T, name, pass, salt, iter, i)]), outlen)

(* ------------------------------ HKDF (RFC 5869) ------------------------------ *)
HkdfExtract(T, name, salt, ikm) == Hmac(T, name, IF Len(salt) = 0 THEN Zeros(Alg(name).out) ELSE salt, ikm)
HkdfExpand(T, name, prk, info, outlen) ==
    LET hl == Alg(name).out  nb == CeilDiv(outlen, hl)
        st == FoldLeft(LAMBDA acc, i : LET t == Hmac(T, name, prk, acc[1] \o info \o <<i>>) IN <<t, acc[2] \o t>>, <<<<>>, <<>>>>, [i \in 1..nb |-> i])
    IN Take(st[2], outlen)

(* ------------------------------ counter KDF of GB/T 32918 (SM2) and sm3_kdf ------------------------------ *)
CounterKdf(T, name, z, outlen) ==
    LET hl == Alg(name).out  nb == CeilDiv(outlen, hl)
    IN Take(Concat([i \in 1..nb |-> HashN(T, name, z \o BE4(i))]), outlen)

(* ------------------------------ TLS 1.2 / TLCP PRF (RFC 5246 section 5, one hash) ------------------------------ *)
TlsPHash(T, name, secret, seed, outlen) ==
    LET hl == Alg(name).out  nb == CeilDiv(outlen, hl)
        st == FoldLeft(LAMBDA acc, i : LET a == Hmac(T, name, secret, acc[1]) IN <<a, acc[2] \o Hmac(T, name, secret, a \o seed)>>,
                       <<seed, <<>>>>, [i \in 1..nb |-> i])
    IN Take(st[2], outlen)
TlsPrf(T, name, secret, label, seed, outlen) == TlsPHash(T, name, secret, label \o seed, outlen)

(* ------------------------------ TLS 1.3 HKDF-Expand-Label (RFC 8446 7.1) ------------------------------ *)
Tls13Prefix == <<116, 108, 115, 49, 51, 32>>   \* "tls13 "
HkdfLabel(label, ctx, outlen) == BE(outlen, 2) \o <<Len(label) + 6>> \o Tls13Prefix \o label \o <<Len(ctx)>> \o ctx
HkdfExpandLabel(T, name, secret, label, ctx, outlen) == HkdfExpand(T, name, secret, HkdfLabel(label, ctx, outlen), outlen)
=============================================================================
