----------------------------- MODULE RogueTrace -----------------------------
(* C09, the server against a peer that is not the library (tools/roguepeer.py): one event per handshake with what the peer did (its      *)
(* deviation expressed as the credential facts of Tls.tla: a certificate was presented (cCert), it chains to the server's anchors (cOK), *)
(* the peer proved possession of its key over the current transcript (cPoss)) and what the library server reported.  The contract is     *)
(* Tls.tla's: a server configured with client-authentication anchors completes only if all three hold; an honest peer is accepted.       *)
EXTENDS Integers, Sequences, TLC, Json, IOUtils
VARIABLES l
TraceLog == ndJsonDeserialize(IOEnv.TRACE)
Ev == TraceLog[l]
Chk(cond) == IF cond THEN TRUE ELSE PrintT(<<"MISMATCH", l>>)
Init == l = 1
TRogue == /\ l <= Len(TraceLog) /\ Ev.e = "Rogue" /\ l' = l + 1
          /\ Chk(IF ~Ev.wellformed THEN Ev.srvrc # 1              \* message sequence deviations (ChangeCipherSpec early / missing / twice, Finished in clear, wrong or missing)
                 ELSE IF Ev.mutual THEN ((Ev.srvrc = 1) <=> (Ev.cCert /\ Ev.cOK /\ Ev.cPoss)) ELSE Ev.srvrc = 1)
          /\ Chk((Ev.srvrc # 1) => ~Ev.peerdone)             \* the peer never sees a server Finished for a handshake the server refused
          /\ Chk(Ev.srvrc = 1 => Ev.delivered)               \* and after a completed one the application data arrives
(* the library client against a server that is not the library: it completes only if the chain validates (sOK), the server proved      *)
(* possession of the certified key over this handshake (sPoss) and the message sequence is the protocol's                              *)
TRogueS == /\ l <= Len(TraceLog) /\ Ev.e = "RogueS" /\ l' = l + 1
           /\ Chk((Ev.clirc = 1) <=> (Ev.sOK /\ Ev.sPoss /\ Ev.wellformed))
           /\ Chk(Ev.clirc = 1 => Ev.delivered)
TReset == l <= Len(TraceLog) /\ Ev.e = "Reset" /\ l' = l + 1
Next == TRogue \/ TRogueS \/ TReset
Spec == Init /\ [][Next]_l
Accepted == LET d == TLCGet("stats").diameter IN IF d - 1 = Len(TraceLog) THEN TRUE ELSE PrintT(<<"REJECTED", d, TraceLog[d].e>>) /\ FALSE
=============================================================================
