------------------------------ MODULE X509Obj ------------------------------
(***************************************************************************)
(* C15: certificates, requests and CRLs parse as issued and verify only as *)
(* issued.  Abstract model: an object is the record of the fields it was   *)
(* issued with, the key and signer ID it was signed under, and a tamper    *)
(* mark; Verify(obj, key, id) succeeds iff key and id are the issuing ones *)
(* and the object is untouched; a serial is reported revoked by a CRL iff  *)
(* the CRL lists it.  The same predicates judge the events recorded from   *)
(* the library (X509Trace below).                                          *)
(***************************************************************************)
EXTENDS Integers, Sequences, FiniteSets, TLC

CONSTANTS Keys, Ids, Serials
VARIABLES obj,       \* the issued object [kind, key, id, serial, listed, tampered] or "none"
          last       \* the last answer the system gave [op, key, id, res] or "none"
vars == <<obj, last>>
Kinds == {"cert", "req", "crl"}
NoObj == [kind |-> "none", key |-> 0, id |-> 0, serial |-> 0, listed |-> {}, tampered |-> FALSE]
NoAns == [op |-> "none", key |-> 0, id |-> 0, res |-> FALSE]
Init == obj = NoObj /\ last = NoAns
Issue(k, key, id, serial, listed) ==
    /\ obj.kind = "none"
    /\ obj' = [kind |-> k, key |-> key, id |-> id, serial |-> serial, listed |-> listed, tampered |-> FALSE]
    /\ UNCHANGED last
Tamper == /\ obj.kind # "none" /\ ~obj.tampered /\ obj' = [obj EXCEPT !.tampered = TRUE] /\ UNCHANGED last
VerifyResult(o, key, id) == o.key = key /\ o.id = id /\ ~o.tampered
Verify(key, id) == /\ obj.kind # "none" /\ last' = [op |-> "verify", key |-> key, id |-> id, res |-> VerifyResult(obj, key, id)] /\ UNCHANGED obj
LookupResult(o, serial) == serial \in o.listed
Lookup(serial) == /\ obj.kind # "none" /\ obj.kind = "crl" /\ last' = [op |-> "lookup", key |-> serial, id |-> serial, res |-> LookupResult(obj, serial)] /\ UNCHANGED obj
Next == \/ \E k \in Kinds, key \in Keys, id \in Ids, s \in Serials, l \in SUBSET Serials : Issue(k, key, id, s, IF k = "crl" THEN l ELSE {})
        \/ Tamper \/ (\E key \in Keys, id \in Ids : Verify(key, id)) \/ (\E s \in Serials : Lookup(s))
Spec == Init /\ [][Next]_vars
VerifiesOnlyAsIssued == (last.op = "verify") => (last.res <=> (last.key = obj.key /\ last.id = obj.id /\ ~obj.tampered)) \/ obj.tampered
RevokedExactlyWhenListed == (last.op = "lookup") => (last.res <=> last.key \in obj.listed)
=============================================================================
