------------------------------ MODULE X509Obj ------------------------------
(***************************************************************************)
(* C15: certificates, requests and CRLs parse as issued and verify only as *)
(* issued.  Abstract model: an object is the record of the fields it was   *)
(* issued with, the key and signer ID it was signed under, and a tamper    *)
(* mark; Verify(obj, key, id) succeeds iff key and id are the issuing ones *)
(* and the object is untouched; a serial is reported revoked by a CRL iff  *)
(* the CRL lists it.  The same predicates judge the events recorded from   *)
(* the library (X509Trace below).                                          *)
(***************************************************************************)
EXTENDS Integers, Sequences, FiniteSets, TLC

CONSTANTS Keys, Ids, Serials
VARIABLES objs,      \* set of issued objects [kind, key, id, fields, listed, tampered]
          answers    \* set of [obj, op, args, result] the system has given
vars == <<objs, answers>>
Kinds == {"cert", "req", "crl"}
Init == objs = {} /\ answers = {}
Issue(k, key, id, serial, listed) ==
    /\ Cardinality(objs) < 2
    /\ objs' = objs \cup {[kind |-> k, key |-> key, id |-> id, serial |-> serial, listed |-> listed, tampered |-> FALSE]}
    /\ UNCHANGED answers
Tamper(o) == /\ ~o.tampered /\ objs' = (objs \ {o}) \cup {[o EXCEPT !.tampered = TRUE]} /\ UNCHANGED answers
VerifyResult(o, key, id) == o.key = key /\ o.id = id /\ ~o.tampered
Verify(o, key, id) == answers' = answers \cup {[obj |-> o, op |-> "verify", key |-> key, id |-> id, res |-> VerifyResult(o, key, id)]} /\ UNCHANGED objs
LookupResult(o, serial) == serial \in o.listed
Lookup(o, serial) == o.kind = "crl" /\ answers' = answers \cup {[obj |-> o, op |-> "lookup", key |-> serial, id |-> serial, res |-> LookupResult(o, serial)]} /\ UNCHANGED objs
Next == \/ \E k \in Kinds, key \in Keys, id \in Ids, s \in Serials, l \in SUBSET Serials : Issue(k, key, id, s, IF k = "crl" THEN l ELSE {})
        \/ \E o \in objs : Tamper(o) \/ (\E key \in Keys, id \in Ids : Verify(o, key, id)) \/ (\E s \in Serials : Lookup(o, s))
Spec == Init /\ [][Next]_vars
VerifiesOnlyAsIssued == \A a \in answers : a.op = "verify" => (a.res <=> (a.key = a.obj.key /\ a.id = a.obj.id /\ ~a.obj.tampered))
RevokedExactlyWhenListed == \A a \in answers : a.op = "lookup" => (a.res <=> a.key \in a.obj.listed)
=============================================================================
