SPECIFICATION Spec
CONSTANTS MaxCAs = 2 Depths = {0, 1, 5} Forms = {"tls", "tlcp"} Roles = {"server", "client"} Full = FALSE BcRequired = TRUE
INVARIANTS EmitChain
CHECK_DEADLOCK FALSE
