---------------------------- MODULE CryptoTrace ----------------------------
(***************************************************************************)
(* Trace validation of the init / update* / finish interfaces and of the   *)
(* one-shot calls of the hash, MAC, KDF, cipher-mode, AEAD and TLS record  *)
(* functions against the definitions in Crypto.tla and Modes.tla.          *)
(*                                                                         *)
(* Contract (Stream.tla): the result depends only on the concatenation of  *)
(* the update inputs (`fed`); concatenated outputs equal the standard's    *)
(* function of `fed`; each call writes at most what it reported when       *)
(* queried; an operation that must fail (wrong tag, bad padding) fails and *)
(* one that must succeed succeeds.                                         *)
(***************************************************************************)
EXTENDS Modes, Json, IOUtils

VARIABLES l, phase, par, fed, outs
vars == <<l, phase, par, fed, outs>>

TraceLog == ndJsonDeserialize(IOEnv.TRACE)
Ev == TraceLog[l]
IsEvent(e) == l <= Len(TraceLog) /\ Ev.e = e /\ l' = l + 1
Has(r, f) == f \in DOMAIN r
Opt(r, f, d) == IF Has(r, f) THEN r[f] ELSE d

OK(x) == [ok |-> TRUE, out |-> x]
FAIL == [ok |-> FALSE, out |-> <<>>]

(* the function the operation described by p must compute on input `in`, over the primitive table p.T *)
Expected(p, in) ==
    LET T == p.T IN
    CASE p.f = "hash"         -> OK(HashN(T, p.alg, in))
      [] p.f = "hmac"         -> OK(Hmac(T, p.alg, p.key, in))
      [] p.f = "sm3kdf"       -> OK(CounterKdf(T, "sm3", in, p.outlen))
      [] p.f = "sm2kdf"       -> OK(CounterKdf(T, "sm3", p.z, p.outlen))
      [] p.f = "pbkdf2"       -> OK(Pbkdf2(T, p.alg, p.pass, p.salt, p.iter, p.outlen))
      [] p.f = "hkdf_extract" -> OK(HkdfExtract(T, p.alg, p.salt, p.ikm))
      [] p.f = "hkdf_expand"  -> OK(HkdfExpand(T, p.alg, p.prk, p.info, p.outlen))
      [] p.f = "ecb_enc"      -> IF Len(in) % 16 = 0 THEN OK(EcbEnc(T, p.c, p.key, in)) ELSE FAIL
      [] p.f = "ecb_dec"      -> IF Len(in) % 16 = 0 THEN OK(EcbDec(T, p.c, p.key, in)) ELSE FAIL
      [] p.f = "cbc_enc"      -> OK(CbcPadEnc(T, p.c, p.key, p.iv, in))
      [] p.f = "cbc_dec"      -> CbcPadDec(T, p.c, p.key, p.iv, in)
      [] p.f = "cbc_enc_blocks" -> OK(CbcEnc(T, p.c, p.key, p.iv, in))
      [] p.f = "cbc_dec_blocks" -> OK(CbcDec(T, p.c, p.key, p.iv, in))
      [] p.f = "ctr"          -> OK(CtrEnc(T, p.c, p.key, p.iv, in))
      [] p.f = "ctr32"        -> OK(Ctr32Enc(T, p.c, p.key, p.iv, in))
      [] p.f = "ofb"          -> OK(OfbEnc(T, p.c, p.key, p.iv, in))
      [] p.f = "cfb_enc"      -> OK(CfbEnc(T, p.c, p.key, p.iv, p.s, in))
      [] p.f = "cfb_dec"      -> OK(CfbDec(T, p.c, p.key, p.iv, p.s, in))
      [] p.f = "xts_enc"      -> IF Len(in) < 16 THEN FAIL ELSE OK(XtsEnc(T, p.c, Take(p.key, 16), Drop(p.key, 16), p.iv, in))
      [] p.f = "xts_dec"      -> IF Len(in) < 16 THEN FAIL ELSE OK(XtsDec(T, p.c, Take(p.key, 16), Drop(p.key, 16), p.iv, in))
      [] p.f = "xts_units_enc" -> XtsUnits(T, p.c, Take(p.key, 16), Drop(p.key, 16), p.iv, p.unit, in, TRUE)
      [] p.f = "xts_units_dec" -> XtsUnits(T, p.c, Take(p.key, 16), Drop(p.key, 16), p.iv, p.unit, in, FALSE)
      [] p.f = "cbc_mac"      -> OK(CbcMac(T, p.c, p.key, in))
      [] p.f = "gcm_enc"      -> LET r == GcmEnc(T, p.c, p.key, p.iv, p.aad, in, p.taglen) IN OK(r.ct \o r.tag)
      [] p.f = "gcm_dec"      -> IF Len(in) < p.taglen THEN FAIL
                                 ELSE GcmDec(T, p.c, p.key, p.iv, p.aad, Take(in, Len(in) - p.taglen), Drop(in, Len(in) - p.taglen))
      [] p.f = "ccm_enc"      -> LET r == CcmEnc(T, p.c, p.key, p.iv, p.aad, in, p.taglen) IN OK(r.ct \o r.tag)
      [] p.f = "ccm_dec"      -> IF Len(in) < p.taglen THEN FAIL
                                 ELSE CcmDec(T, p.c, p.key, p.iv, p.aad, Take(in, Len(in) - p.taglen), Drop(in, Len(in) - p.taglen))
      [] p.f = "zuc_ks"       -> OK(KsBytes(T, "zuc", p.key, p.iv, 4 * p.nwords))
      [] p.f = "zuc256_ks"    -> OK(KsBytes(T, "zuc256", p.key, p.iv, 4 * p.nwords))
      [] p.f = "zuc_enc"      -> OK(ZucEnc(T, p.key, p.iv, in))
      [] p.f = "eea3"         -> OK(Eea3(T, p.key, p.count4, p.bearer, p.dir, p.nbits, in))
      [] p.f = "eia3"         -> OK(Eia3(T, p.key, p.count4, p.bearer, p.dir, p.nbits, in))
      [] p.f = "zuc_mac"      -> OK(EiaCore(T, p.key, p.iv, p.nbits, in))
      [] p.f = "zuc256_mac"   -> OK(Zuc256Mac(T, p.key, p.iv, p.macbits, p.nbits, in))
      [] p.f = "chacha20_ks"  -> OK(ChaChaKs(T, p.key, p.counter, p.iv, p.nwords))
      [] p.f = "cbc_hmac_enc" -> OK(CbcHmacEnc(T, p.key, p.mackey, p.iv, p.aad, in))
      [] p.f = "cbc_hmac_dec" -> CbcHmacDec(T, p.key, p.mackey, p.iv, p.aad, in)
      [] p.f = "ctr_hmac_enc" -> OK(CtrHmacEnc(T, p.key, p.mackey, p.iv, p.aad, in))
      [] p.f = "ctr_hmac_dec" -> CtrHmacDec(T, p.key, p.mackey, p.iv, p.aad, in)
      [] p.f = "tls_cbc_enc"  -> OK(TlsCbcBody(T, p.mackey, p.key, p.seq, p.hdr3, p.iv, in))
      [] p.f = "tls_cbc_dec"  -> TlsCbcOpen(T, p.mackey, p.key, p.seq, p.hdr3, in)
      [] p.f = "tls13_enc"    -> OK(Tls13Body(T, p.key, p.iv, p.seq, p.type, in, p.padlen))
      [] p.f = "tls13_dec"    -> LET r == Tls13Open(T, p.key, p.iv, p.seq, in) IN
                                 IF r.ok THEN OK(<<r.type>> \o r.out) ELSE FAIL

(* verdict of a completed operation: must succeed exactly when the definition says so, with exactly that output *)
(* C05: a tuple that differs in any bit from a genuine output of the matching encryption (marked touched by the harness that  *)
(* made the change) must be refused, whatever the construction computes for it                                             *)
Touched(p) == Has(p, "touched") /\ p.touched = 1
Verdict(p, in, out, rc) == IF Touched(p) THEN rc # 1
                           ELSE LET x == Expected(p, in) IN IF x.ok THEN rc = 1 /\ out = x.out ELSE rc # 1
WithinQuery(ev) == (Has(ev, "qs") /\ ev.qs >= 0 /\ Has(ev, "out")) => Len(ev.out) <= ev.qs   \* qs = size reported by the same call with a NULL output buffer

(* A failed contract condition at line l is reported and the run continues with the next execution (equivalent to rejecting *)
(* the execution that contains line l, without restarting the checker for the executions after it)                        *)
Chk(cond) == IF cond THEN TRUE ELSE PrintT(<<"MISMATCH", l>>)

Init == l = 1 /\ phase = "idle" /\ par = <<>> /\ fed = <<>> /\ outs = <<>>
TInit == /\ IsEvent("Init") /\ phase = "idle"
         /\ IF Ev.rc = 1 THEN phase' = "open" ELSE phase' = "refused"
         /\ par' = Ev /\ fed' = <<>> /\ outs' = <<>>
(* an update may be refused for an empty chunk (nothing changes); a refusal of a non-empty chunk ends the operation: *)
(* the harness reports the unfed remainder at Finish and the whole input must then be one the definition rejects       *)
TUpdate == /\ IsEvent("Update") /\ phase = "open" /\ Chk(WithinQuery(Ev))
           /\ IF Ev.rc = 1 THEN fed' = fed \o Ev["in"] /\ outs' = outs \o Opt(Ev, "out", <<>>) /\ UNCHANGED phase
              ELSE IF Len(Ev["in"]) = 0 THEN UNCHANGED <<fed, outs, phase>>
              ELSE fed' = fed \o Ev["in"] /\ phase' = "failed" /\ UNCHANGED outs
           /\ UNCHANGED par
TFinish == /\ IsEvent("Finish") /\ phase = "open" /\ Chk(WithinQuery(Ev))
           /\ Chk(Verdict(par, fed, outs \o Opt(Ev, "out", <<>>), Ev.rc))
           /\ phase' = "idle" /\ UNCHANGED <<par, fed, outs>>
TFinishFailed == /\ IsEvent("Finish") /\ phase = "failed" /\ Ev.rc # 1
                 /\ Chk(Verdict(par, fed \o Opt(Ev, "rest", <<>>), <<>>, Ev.rc))
                 /\ phase' = "idle" /\ UNCHANGED <<par, fed, outs>>
(* a context whose init was refused: only acceptable when the definition itself has no value for these parameters *)
TFinishRefused == /\ IsEvent("Finish") /\ phase = "refused" /\ Has(par, "mayrefuse") /\ phase' = "idle" /\ UNCHANGED <<par, fed, outs>>
TCall == /\ IsEvent("Call") /\ phase = "idle" /\ Chk(WithinQuery(Ev))
         /\ Chk(Verdict(Ev, Opt(Ev, "in", <<>>), Ev.out, Ev.rc) \/ (Has(Ev, "mayrefuse") /\ Ev.rc # 1))
         /\ UNCHANGED <<phase, par, fed, outs>>
(* protect-then-unprotect through the library for every payload length: identity, type preserved, reported length within the ciphertext *)
TRoundTrip == /\ IsEvent("RoundTrip") /\ phase = "idle"
              /\ Chk(Ev.rc1 = 1 /\ Ev.rc2 = 1 /\ Ev.same = 1 /\ Ev.outlen = Ev.n /\ Ev.outlen <= Ev.midlen
                     /\ (Ev.f = "tls13_rt" => (Ev.rtype = Ev.type /\ Ev.midlen = Ev.n + 1 + Ev.padlen + 16))
                     /\ (Ev.f = "tls_cbc_rt" => (Ev.midlen % 16 = 0 /\ Ev.midlen >= 16 + Ev.n + 32 + 1 /\ Ev.midlen <= 16 + Ev.n + 32 + 256)))
              /\ UNCHANGED <<phase, par, fed, outs>>
(* the same through the command line tools (tools/clilib.py): a file is protected by `gmssl <tool> -encrypt`, the result compared with the reference      *)
(* construction (refsame), unprotected by `-decrypt` and compared; CliTamper: a modified protected file handed to an authenticated tool is refused       *)
TCliRoundTrip == /\ IsEvent("CliRoundTrip") /\ phase = "idle"
                 /\ Chk(Ev.rc1 = 1 /\ Ev.rc2 = 1 /\ Ev.same = 1 /\ Ev.outlen = Ev.n /\ Ev.refsame = 1 /\ Ev.midlen = Ev.expectmid)
                 /\ UNCHANGED <<phase, par, fed, outs>>
TCliTamper == /\ IsEvent("CliTamper") /\ phase = "idle" /\ Chk(Ev.rc # 1 /\ Ev.outlen = 0) /\ UNCHANGED <<phase, par, fed, outs>>
TReset == IsEvent("Reset") /\ phase' = "idle" /\ par' = <<>> /\ fed' = <<>> /\ outs' = <<>>
Next == TInit \/ TUpdate \/ TFinish \/ TFinishFailed \/ TFinishRefused \/ TCall \/ TRoundTrip \/ TCliRoundTrip \/ TCliTamper \/ TReset
Spec == Init /\ [][Next]_vars

Accepted == LET d == TLCGet("stats").diameter IN
            IF d - 1 = Len(TraceLog) THEN TRUE ELSE PrintT(<<"REJECTED", d, TraceLog[d].e>>) /\ FALSE
=============================================================================
