---- MODULE MCTlsNeg ----
(* Negative configurations for the vacuity guard of C09: the same model with a verification step removed    *)
(* (the receive rule no longer looks at the credential fact).  TLC must then violate AuthServer / AuthClient. *)
EXTENDS Tls
GoodCred == [sOK |-> TRUE, sPoss |-> TRUE, sEnc |-> TRUE, cCert |-> TRUE, cOK |-> TRUE, cPoss |-> TRUE]
AllCreds == [sOK : BOOLEAN, sPoss : BOOLEAN, sEnc : {TRUE}, cCert : {TRUE}, cOK : BOOLEAN, cPoss : BOOLEAN]
P3 == {257, 771, 772}
\* receive rule without the chain check / without the possession check
AcceptsNoChain(r, m, tr, rs, isServer) ==
    /\ r.m = m
    /\ Protected(m) => (r.ok /\ r.key = KeyOf(tr, isServer) /\ r.seq = rs)
    /\ IsFin(m) => r.tr = tr
    /\ ~InTranscript(m) => r.ok
    /\ (~isServer /\ m = (IF IsTls13 THEN "CV_S" ELSE "SKE")) => cred.sPoss
    /\ (isServer /\ m = "CV_C") => cred.cPoss
AcceptsNoPoss(r, m, tr, rs, isServer) ==
    /\ r.m = m
    /\ Protected(m) => (r.ok /\ r.key = KeyOf(tr, isServer) /\ r.seq = rs)
    /\ IsFin(m) => r.tr = tr
    /\ ~InTranscript(m) => r.ok
    /\ (~isServer /\ m = "CERT_S") => cred.sOK
    /\ (isServer /\ m = "CERT_C") => (cred.cCert /\ cred.cOK)
====
