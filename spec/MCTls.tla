---- MODULE MCTls ----
EXTENDS Tls
GoodCred == [sOK |-> TRUE, sPoss |-> TRUE, sEnc |-> TRUE, cCert |-> TRUE, cOK |-> TRUE, cPoss |-> TRUE]
OnlyGood == {GoodCred}
AllCreds == [sOK : BOOLEAN, sPoss : BOOLEAN, sEnc : BOOLEAN, cCert : BOOLEAN, cOK : BOOLEAN, cPoss : BOOLEAN]
P3 == {257, 771, 772}
====
