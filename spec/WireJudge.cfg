SPECIFICATION Spec
CONSTANTS Alphabet = {0} MaxLen = 0 DropLenBytesCheck = FALSE
CHECK_DEADLOCK FALSE
