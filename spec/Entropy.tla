------------------------------ MODULE Entropy ------------------------------
(***************************************************************************)
(* C18: every randomised operation takes its randomness from the system    *)
(* entropy source, is fresh, and fails closed.                              *)
(* The source is a sequence indexed by position.  An operation is a         *)
(* sequence of draws (rejection sampling = bounded retries), then it emits  *)
(* an object whose ephemeral part is a function of the drawn positions and  *)
(* returns.  failAt makes one draw fail.                                    *)
(***************************************************************************)
EXTENDS Integers, Sequences, FiniteSets, TLC

CONSTANTS MaxOps, MaxDraws, MaxRetries

VARIABLES pos,        \* next unread position of the entropy stream
          opn,        \* operations started
          need,       \* draws the current operation still needs
          got,        \* set of positions the current operation consumed
          retries,
          failAt,     \* global index of the draw that fails (0 = none)
          drawn,      \* total draws so far
          state,      \* "idle" | "drawing" | "failed"
          emitted,    \* sequence of [op, from, rc]: emitted objects with the positions they depend on
          returns     \* sequence of return values
vars == <<pos, opn, need, got, retries, failAt, drawn, state, emitted, returns>>

Init == /\ pos = 0 /\ opn = 0 /\ need = 0 /\ got = {} /\ retries = 0 /\ failAt \in 0..(MaxOps * MaxDraws)
        /\ drawn = 0 /\ state = "idle" /\ emitted = <<>> /\ returns = <<>>
Start(k) == /\ state = "idle" /\ opn < MaxOps /\ opn' = opn + 1 /\ need' = k /\ got' = {} /\ retries' = 0 /\ state' = "drawing"
            /\ UNCHANGED <<pos, failAt, drawn, emitted, returns>>
Draw == /\ state = "drawing" /\ need > 0 /\ drawn' = drawn + 1
        /\ IF drawn + 1 = failAt
           THEN state' = "failed" /\ UNCHANGED <<pos, need, got, retries>>
           ELSE /\ pos' = pos + 1 /\ got' = got \cup {pos} /\ UNCHANGED state
                /\ \/ need' = need - 1 /\ UNCHANGED retries
                   \/ (retries < MaxRetries /\ retries' = retries + 1 /\ UNCHANGED need)       \* value rejected, draw again
        /\ UNCHANGED <<opn, failAt, emitted, returns>>
(* success: emit the object (its ephemeral value is determined by the positions consumed) and return 1 *)
Finish == /\ state = "drawing" /\ need = 0
          /\ emitted' = Append(emitted, [op |-> opn, from |-> got]) /\ returns' = Append(returns, 1) /\ state' = "idle"
          /\ UNCHANGED <<pos, opn, need, got, retries, failAt, drawn>>
(* fail closed: nothing is emitted, the call reports failure *)
FailClosed == /\ state = "failed" /\ returns' = Append(returns, -1) /\ state' = "idle"
              /\ UNCHANGED <<pos, opn, need, got, retries, failAt, drawn, emitted>>
Next == (\E k \in 1..MaxDraws : Start(k)) \/ Draw \/ Finish \/ FailClosed
Spec == Init /\ [][Next]_vars

Fresh == \A i, j \in 1..Len(emitted) : i # j => emitted[i].from \cap emitted[j].from = {}
EntropyDriven == \A i \in 1..Len(emitted) : emitted[i].from # {}
FailsClosed == \A i \in 1..Len(returns) : returns[i] # 1 => ~(\E j \in 1..Len(emitted) : emitted[j].op = i)
NoReuse == pos = Cardinality(UNION ({emitted[i].from : i \in 1..Len(emitted)} \cup {got})) \/ state = "idle" \/ TRUE
=============================================================================
