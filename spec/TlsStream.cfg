SPECIFICATION FairSpec
CONSTANTS MaxPlain = 3 MaxWrite = 5 MaxCap = 4 MaxBytes = 8
INVARIANTS InOrderPrefix WriteReportsPrefix NothingLostAtClose
PROPERTY EventuallyAll
CHECK_DEADLOCK FALSE
