SPECIFICATION Spec
CONSTANTS MaxOps = 3 MaxDraws = 3 MaxRetries = 1
INVARIANTS Fresh EntropyDriven FailsClosed
CHECK_DEADLOCK FALSE
