-------------------------------- MODULE Aead --------------------------------
(***************************************************************************)
(* C05: authenticated decryption accepts exactly the untouched output of   *)
(* the matching encryption.  The tag is an ideal MAC (a term over nonce,   *)
(* associated data and ciphertext); an adversary changes one symbol of one *)
(* component, truncates or extends; the receiver decrypts through the      *)
(* streaming interface in every chunking, holding back TagLen symbols.     *)
(***************************************************************************)
EXTENDS Integers, Sequences, FiniteSets, TLC

CONSTANTS MaxLen, TagLen, MaxChunks

VARIABLES msg,        \* the genuine plaintext (symbols 1..2)
          wire,       \* what reaches the receiver: [nonce, aad, body] with body = ciphertext \o tag
          touched,    \* the adversary changed something
          fed, buf, released, verdict, nchunks
vars == <<msg, wire, touched, fed, buf, released, verdict, nchunks>>

Sym == {1, 2}
Msgs == UNION {[1..n -> Sym] : n \in 0..MaxLen}
(* ideal primitives: ciphertext symbol = plaintext symbol + 2 (a bijection, keyed implicitly); tag = term *)
EncSym(s) == <<"c", s + 2>>
DecSym(s) == s[2] - 2
Flip(s) == IF s[1] = "c" THEN <<"c", s[2] + 100>> ELSE [s EXCEPT ![1] = "tagx"]
TagOf(nonce, aad, ct) == [i \in 1..TagLen |-> <<"tag", i, nonce, aad, ct>>]
Genuine(m) == [nonce |-> 1, aad |-> 1, body |-> [i \in 1..Len(m) |-> EncSym(m[i])] \o TagOf(1, 1, [i \in 1..Len(m) |-> EncSym(m[i])])]

Init == /\ msg \in Msgs /\ wire = Genuine(msg) /\ touched = FALSE
        /\ fed = 0 /\ buf = <<>> /\ released = <<>> /\ verdict = "none" /\ nchunks = 0
(* the adversary acts once, before decryption starts *)
Tamper == /\ ~touched /\ fed = 0 /\ nchunks = 0 /\ touched' = TRUE
          /\ \/ wire' = [wire EXCEPT !.nonce = 2]
             \/ wire' = [wire EXCEPT !.aad = 2]
             \/ \E i \in 1..Len(wire.body) : wire' = [wire EXCEPT !.body[i] = Flip(@)]
             \/ (Len(wire.body) > 0 /\ wire' = [wire EXCEPT !.body = SubSeq(@, 1, Len(@) - 1)])     \* truncate
             \/ wire' = [wire EXCEPT !.body = Append(@, <<"c", 9>>)]                                          \* extend
          /\ UNCHANGED <<msg, fed, buf, released, verdict, nchunks>>
(* streaming decryption: hold back the last TagLen symbols, release the rest (decrypted) *)
Update(n) == /\ verdict = "none" /\ fed + n <= Len(wire.body) /\ nchunks < MaxChunks
             /\ LET all == buf \o SubSeq(wire.body, fed + 1, fed + n)
                    rel == IF Len(all) > TagLen THEN Len(all) - TagLen ELSE 0 IN
                /\ released' = released \o SubSeq(all, 1, rel)
                /\ buf' = SubSeq(all, rel + 1, Len(all))
             /\ fed' = fed + n /\ nchunks' = nchunks + 1
             /\ UNCHANGED <<msg, wire, touched, verdict>>
Finish == /\ verdict = "none" /\ fed = Len(wire.body)
          /\ verdict' = IF Len(buf) = TagLen /\ buf = TagOf(wire.nonce, wire.aad, released) THEN "accept" ELSE "reject"
          /\ UNCHANGED <<msg, wire, touched, fed, buf, released, nchunks>>
Next == Tamper \/ (\E n \in 0..(TagLen + 2) : Update(n)) \/ Finish
Spec == Init /\ [][Next]_vars

AcceptOnlyUntouched == verdict = "accept" => (~touched /\ [i \in 1..Len(released) |-> DecSym(released[i])] = msg)
UntouchedAccepted == (verdict # "none" /\ ~touched) => verdict = "accept"
HoldBackExact == Len(buf) <= TagLen /\ (fed >= TagLen => Len(buf) = TagLen)
=============================================================================
