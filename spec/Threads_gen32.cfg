SPECIFICATION Spec
CONSTANTS NT = 3 K = 2 HiddenState = FALSE CallAtomic = TRUE
INVARIANTS SequentialResults PrintSchedules
CHECK_DEADLOCK FALSE
