SPECIFICATION Spec
CONSTANTS Kind = "time" MaxLen = 4
INVARIANT Emit
CHECK_DEADLOCK FALSE
