-------------------------------- MODULE Sm9 --------------------------------
(***************************************************************************)
(* C17 (scheme half): the SM9 signature, encryption (KEM) and key exchange *)
(* equations of GM/T 0044 over an abstract bilinear group.  G1, G2 and GT  *)
(* are written by their discrete logarithms modulo a small prime Q, so     *)
(* e(a, b) = a * b and g^r = g * r; H1 is an arbitrary function chosen at  *)
(* the start, H2 is a lazily sampled oracle (every fresh query may return  *)
(* any value), key derivation is injective (the tuple itself).             *)
(* Checked: own signatures verify; an accepted verification of anything    *)
(* else queried the oracle at a different point that happened to return    *)
(* the same value (a hash coincidence); decryption with the addressee's    *)
(* key inverts encryption and any other identity's key derives a different *)
(* key unless H1 collides; both sides of the exchange derive one key.      *)
(***************************************************************************)
EXTENDS Integers, FiniteSets, TLC
CONSTANTS Q, Ids, Msgs, MaxSigs, MaxPoints
VARIABLES ks, ke, h1, h2, signed, last
vars == <<ks, ke, h1, h2, signed, last>>
Zq == 0..(Q - 1)
Zs == 1..(Q - 1)
Inv(x) == CHOOSE y \in Zs : (x * y) % Q = 1
None == [op |-> "none"]
Init == /\ ks \in Zs /\ ke \in Zs /\ h1 \in [Ids -> Zs] /\ h2 = <<>> /\ signed = {} /\ last = None
(* key extraction: t1 = H1(id) + s must be invertible, d = s / t1 *)
CanExtract(s, id) == (h1[id] + s) % Q # 0
D(s, id) == (s * Inv((h1[id] + s) % Q)) % Q
(* oracle *)
Pt(m, w) == <<m, w>>
Known(pt) == pt \in DOMAIN h2
Query(pt, v) == IF Known(pt) THEN v = h2[pt] /\ UNCHANGED h2 ELSE v \in Zs /\ h2' = [x \in DOMAIN h2 \cup {pt} |-> IF x = pt THEN v ELSE h2[x]]
(* A1-A7: w = g^r, h = H2(M || w), l = r - h (retry when 0), S = [l] ds *)
Sign(id, m, r) ==
    /\ CanExtract(ks, id) /\ Cardinality(signed) < MaxSigs
    /\ LET w == (ks * r) % Q IN
       \E h \in Zs : /\ Query(Pt(m, w), h)
                     /\ (r - h) % Q # 0
                     /\ signed' = signed \cup {[id |-> id, m |-> m, h |-> h, S |-> (((r - h) % Q) * D(ks, id)) % Q, w |-> w]}
    /\ last' = None /\ UNCHANGED <<ks, ke, h1>>
(* B1-B9: t = g^h, P = [H1(id)] P2 + Ppub, u = e(S, P), w' = u t, accept iff H2(M || w') = h *)
Verify(id, m, h, S) ==
    /\ signed # {} /\ Cardinality(DOMAIN h2) < MaxPoints
    /\ LET w == ((S * ((h1[id] + ks) % Q)) + ks * h) % Q IN
       \E v \in Zs : /\ Query(Pt(m, w), v)
                     /\ last' = [op |-> "verify", id |-> id, m |-> m, h |-> h, S |-> S, w |-> w, acc |-> (v = h)]
    /\ UNCHANGED <<ks, ke, h1, signed>>
(* KEM / encryption: C1 = [r] QB, w = e(Ppub, P2)^r; the recipient computes e(C1, de) *)
Encap(id, idkey, idclaim, r) ==
    /\ CanExtract(ke, idkey)
    /\ LET c1 == (r * ((h1[id] + ke) % Q)) % Q
           w == (ke * r) % Q
           w2 == (c1 * D(ke, idkey)) % Q
       IN last' = [op |-> "decap", id |-> id, idkey |-> idkey, idclaim |-> idclaim, ok |-> (<<c1, w, id>> = <<c1, w2, idclaim>>)]
    /\ UNCHANGED <<ks, ke, h1, h2, signed>>
(* key exchange, initiator A and responder B *)
Exchange(a, b, ra, rb) ==
    /\ a # b /\ CanExtract(ke, a) /\ CanExtract(ke, b)
    /\ LET RA == (ra * ((h1[b] + ke) % Q)) % Q
           RB == (rb * ((h1[a] + ke) % Q)) % Q
           g1b == (RA * D(ke, b)) % Q   g2b == (ke * rb) % Q   g3b == (g1b * rb) % Q
           g1a == (ke * ra) % Q         g2a == (RB * D(ke, a)) % Q   g3a == (g2a * ra) % Q
       IN last' = [op |-> "exch", ska |-> <<a, b, RA, RB, g1a, g2a, g3a>>, skb |-> <<a, b, RA, RB, g1b, g2b, g3b>>]
    /\ UNCHANGED <<ks, ke, h1, h2, signed>>
(* observations are leaves: nothing follows a step that recorded a result *)
Next == last = None /\
     (  \/ \E id \in Ids, m \in Msgs, r \in Zs : Sign(id, m, r)
        \/ \E id \in Ids, m \in Msgs, h \in Zs, S \in Zq : Verify(id, m, h, S)
        \/ \E id, idkey, idclaim \in Ids, r \in Zs : Encap(id, idkey, idclaim, r)
        \/ \E a, b \in Ids, ra, rb \in Zs : Exchange(a, b, ra, rb))
Spec == Init /\ [][Next]_vars
(* ---- properties ---- *)
OwnSignaturesVerify == (last.op = "verify" /\ \E s \in signed : s.id = last.id /\ s.m = last.m /\ s.h = last.h /\ s.S = last.S) => last.acc
(* The group is tiny and the adversary unbounded, so forgeries exist by brute force; what the algebra must guarantee is that every  *)
(* change to a signed tuple moves the oracle query to a different point (acceptance then needs a hash coincidence), and that at a     *)
(* signing's own oracle point only that signature is accepted for that identity.                                                      *)
AcceptedAtSigningPointIsTheSignature ==
    (last.op = "verify" /\ last.acc) => \A s \in signed : (s.id = last.id /\ Pt(s.m, s.w) = Pt(last.m, last.w)) => (last.h = s.h /\ last.S = s.S)
OtherIdentityMovesTheOraclePoint ==
    (last.op = "verify") => \A s \in signed : (s.m = last.m /\ s.h = last.h /\ s.S = last.S /\ h1[s.id] # h1[last.id]) => last.w # s.w
AlteredHMovesTheOraclePoint ==
    (last.op = "verify") => \A s \in signed : (s.id = last.id /\ s.m = last.m /\ s.S = last.S /\ s.h # last.h) => last.w # s.w
AlteredMovesTheOraclePoint ==
    (last.op = "verify") => \A s \in signed : (s.id = last.id /\ s.m = last.m /\ s.h = last.h /\ s.S # last.S) => last.w # s.w
DecryptInverts == (last.op = "decap" /\ last.idkey = last.id /\ last.idclaim = last.id) => last.ok
OtherIdentityFails == (last.op = "decap" /\ last.ok) => (last.idclaim = last.id /\ h1[last.idkey] = h1[last.id])
ExchangeAgrees == (last.op = "exch") => last.ska = last.skb
=============================================================================
