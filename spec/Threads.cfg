SPECIFICATION FairSpec
CONSTANTS NT = 3 K = 2 HiddenState = FALSE CallAtomic = FALSE
INVARIANT SequentialResults
PROPERTY EveryoneFinishes
CHECK_DEADLOCK FALSE
