SPECIFICATION Spec
CONSTANTS Kind = "oid" MaxLen = 4
INVARIANT Emit
CHECK_DEADLOCK FALSE
