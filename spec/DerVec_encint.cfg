SPECIFICATION Spec
CONSTANTS Kind = "encint" MaxLen = 4
INVARIANT Emit
CHECK_DEADLOCK FALSE
