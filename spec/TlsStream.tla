----------------------------- MODULE TlsStream -----------------------------
(***************************************************************************)
(* C08, data phase: one direction of an established connection.  A writer  *)
(* calls Write(n): the call puts the first k = min(n, MaxPlain) bytes into *)
(* one record and reports k (the contract allows any 1..n; Impl says min). *)
(* The network delivers records in order but a record arrives in pieces    *)
(* (short socket reads).  A reader call Read(cap) returns up to cap bytes   *)
(* of the oldest completely received record.  Bytes are identified by      *)
(* their stream offset.                                                    *)
(***************************************************************************)
EXTENDS Integers, Sequences, FiniteSets

CONSTANTS MaxPlain,   \* record payload limit (2^14 in the code)
          MaxWrite,   \* largest write the model tries
          MaxCap,     \* largest read capacity
          MaxBytes    \* bound on total bytes written

VARIABLES sent,       \* bytes accepted from the writer so far
          wire,       \* records on the wire: <<first offset, length, bytes arrived at the receiver>>
          cur,        \* reader's current record <<next offset, remaining>> or <<>>
          delivered,  \* sequence of offsets handed to the reading application
          closing, closedRead,
          lastWrite   \* <<n, k>> of the last write (ghost)
vars == <<sent, wire, cur, delivered, closing, closedRead, lastWrite>>
Min(a, b) == IF a < b THEN a ELSE b

Init == sent = 0 /\ wire = <<>> /\ cur = <<>> /\ delivered = <<>> /\ closing = FALSE /\ closedRead = FALSE /\ lastWrite = <<0, 0>>

Write(n) == /\ ~closing /\ sent + n <= MaxBytes
            /\ LET k == Min(n, MaxPlain) IN
               /\ wire' = Append(wire, <<sent, k, 0>>) /\ sent' = sent + k /\ lastWrite' = <<n, k>>
            /\ UNCHANGED <<cur, delivered, closing, closedRead>>
(* a piece of the oldest incomplete record arrives *)
Arrive == \E i \in 1..Len(wire) :
            /\ wire[i][3] < wire[i][2]
            /\ \A j \in 1..(i-1) : wire[j][3] = wire[j][2]
            /\ \E piece \in 1..(wire[i][2] - wire[i][3]) : wire' = [wire EXCEPT ![i][3] = @ + piece]
            /\ UNCHANGED <<sent, cur, delivered, closing, closedRead, lastWrite>>
(* the reader takes the next complete record when it has nothing buffered *)
Read(cap) == /\ ~closedRead
             /\ \/ /\ cur # <<>>
                   /\ LET k == Min(cap, cur[2]) IN
                      /\ delivered' = delivered \o [i \in 1..k |-> cur[1] + i - 1]
                      /\ cur' = IF k = cur[2] THEN <<>> ELSE <<cur[1] + k, cur[2] - k>>
                   /\ UNCHANGED <<wire, closedRead>>
                \/ /\ cur = <<>> /\ wire # <<>> /\ wire[1][3] = wire[1][2]
                   /\ LET k == Min(cap, wire[1][2]) IN
                      /\ delivered' = delivered \o [i \in 1..k |-> wire[1][1] + i - 1]
                      /\ cur' = IF k = wire[1][2] THEN <<>> ELSE <<wire[1][1] + k, wire[1][2] - k>>
                   /\ wire' = Tail(wire) /\ UNCHANGED closedRead
                \/ /\ cur = <<>> /\ wire = <<>> /\ closing /\ closedRead' = TRUE
                   /\ UNCHANGED <<wire, cur, delivered>>
             /\ UNCHANGED <<sent, closing, lastWrite>>
Close == ~closing /\ closing' = TRUE /\ UNCHANGED <<sent, wire, cur, delivered, closedRead, lastWrite>>

Next == (\E n \in 1..MaxWrite : Write(n)) \/ Arrive \/ (\E c \in 1..MaxCap : Read(c)) \/ Close
Spec == Init /\ [][Next]_vars
FairSpec == Spec /\ WF_vars(Arrive) /\ WF_vars(\E c \in 1..MaxCap : Read(c))

(* properties *)
InOrderPrefix == /\ Len(delivered) <= sent
                 /\ \A i \in 1..Len(delivered) : delivered[i] = i - 1
WriteReportsPrefix == lastWrite[2] <= lastWrite[1] /\ (lastWrite[1] > 0 => lastWrite[2] >= 1) /\ lastWrite[2] <= MaxPlain
NothingLostAtClose == closedRead => Len(delivered) = sent
EventuallyAll == closing ~> closedRead
=============================================================================
