SPECIFICATION Spec
CONSTANTS
  Protos <- P3
  Budget = 0
  MaxApp = 0
  CredCases <- AllCreds
  Accepts <- AcceptsNoPoss
INVARIANTS AuthClient
CHECK_DEADLOCK FALSE
