SPECIFICATION Spec
CONSTANTS NT = 2 K = 4 HiddenState = FALSE CallAtomic = TRUE
INVARIANTS SequentialResults PrintSchedules
CHECK_DEADLOCK FALSE
