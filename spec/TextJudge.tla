----------------------------- MODULE TextJudge -----------------------------
(***************************************************************************)
(* C14, text codecs: base64 (RFC 4648 alphabet, '=' padding, lines),       *)
(* hexadecimal and PEM framing as executable definitions; TLC judges what  *)
(* the library's encoders produced and what its decoders answered for      *)
(* well-formed and malformed text, in every chunking the harness used.     *)
(***************************************************************************)
EXTENDS Integers, Sequences, FiniteSets, TLC, SequencesExt, Json, IOUtils
VARIABLE i
Cases == ndJsonDeserialize(IOEnv.TRACE)
Ch(idx) == IF idx < 26 THEN 65 + idx ELSE IF idx < 52 THEN 97 + idx - 26 ELSE IF idx < 62 THEN 48 + idx - 52 ELSE IF idx = 62 THEN 43 ELSE 47
Idx(c) == IF c >= 65 /\ c <= 90 THEN c - 65 ELSE IF c >= 97 /\ c <= 122 THEN c - 97 + 26 ELSE IF c >= 48 /\ c <= 57 THEN c - 48 + 52 ELSE IF c = 43 THEN 62 ELSE IF c = 47 THEN 63 ELSE -1
At0(s, j) == IF j <= Len(s) THEN s[j] ELSE 0
Quantum(d, q) ==       \* the 4 characters for the q-th group of 3 bytes (1-based), with padding for a short last group
    LET b1 == At0(d, 3 * q - 2)  b2 == At0(d, 3 * q - 1)  b3 == At0(d, 3 * q)  have == Len(d) - 3 * (q - 1) IN
    <<Ch(b1 \div 4), Ch((b1 % 4) * 16 + (b2 \div 16)),
      IF have >= 2 THEN Ch((b2 % 16) * 4 + (b3 \div 64)) ELSE 61, IF have >= 3 THEN Ch(b3 % 64) ELSE 61>>
B64Enc(d) == FoldLeft(LAMBDA acc, q : acc \o Quantum(d, q), <<>>, [q \in 1..((Len(d) + 2) \div 3) |-> q])
Strip(t) == SelectSeq(t, LAMBDA c : c # 10 /\ c # 13)
(* blanks and tabs are not line structure: a decoder may skip them or refuse the text, but if it accepts, the answer is that of the text without them *)
StripWs(t) == SelectSeq(t, LAMBDA c : c \notin {9, 10, 13, 32})
HasBlank(t) == \E j \in 1..Len(t) : t[j] \in {9, 32}
(* canonical base64 text (no line breaks): length multiple of 4, alphabet only, padding only in the last one or two places with zero spare bits *)
PadCount(t) == IF Len(t) >= 2 /\ t[Len(t)] = 61 /\ t[Len(t) - 1] = 61 THEN 2 ELSE IF Len(t) >= 1 /\ t[Len(t)] = 61 THEN 1 ELSE 0
Canonical(t) == /\ Len(t) % 4 = 0
                /\ \A j \in 1..(Len(t) - PadCount(t)) : Idx(t[j]) >= 0
                /\ (PadCount(t) = 1 => Idx(t[Len(t) - 1]) % 4 = 0)
                /\ (PadCount(t) = 2 => Idx(t[Len(t) - 2]) % 16 = 0)
(* clearly malformed: a character outside the alphabet, '=' before the end, or a length that is not a multiple of 4 *)
Malformed(t) == \/ Len(t) % 4 # 0
                \/ \E j \in 1..(Len(t) - PadCount(t)) : Idx(t[j]) < 0
B64Dec(t) == LET n == Len(t) \div 4
                 all == FoldLeft(LAMBDA acc, q : LET a == Idx(t[4 * q - 3])  b == Idx(t[4 * q - 2])  c == IF t[4 * q - 1] = 61 THEN 0 ELSE Idx(t[4 * q - 1])  d == IF t[4 * q] = 61 THEN 0 ELSE Idx(t[4 * q]) IN
                                               acc \o <<a * 4 + (b \div 16), (b % 16) * 16 + (c \div 4), (c % 4) * 64 + d>>, <<>>, [q \in 1..n |-> q])
             IN SubSeq(all, 1, 3 * n - PadCount(t))
HexVal(c) == IF c >= 48 /\ c <= 57 THEN c - 48 ELSE IF c >= 97 /\ c <= 102 THEN c - 87 ELSE IF c >= 65 /\ c <= 70 THEN c - 55 ELSE -1
HexOK(t) == Len(t) % 2 = 0 /\ \A j \in 1..Len(t) : HexVal(t[j]) >= 0
HexDec(t) == [j \in 1..(Len(t) \div 2) |-> HexVal(t[2 * j - 1]) * 16 + HexVal(t[2 * j])]
Judge(c) ==
    CASE c.kind = "b64enc" -> c.rc = 1 /\ Strip(c.text) = B64Enc(c.data) /\ \A j \in 1..Len(c.text) : (Idx(c.text[j]) >= 0 \/ c.text[j] \in {61, 10})
      [] c.kind = "b64dec" -> LET t == Strip(c.text)  w == StripWs(c.text) IN
                              IF HasBlank(t) THEN (IF Canonical(w) THEN (c.rc = 1 => c.out = B64Dec(w)) ELSE (Malformed(w) => c.rc # 1))
                              ELSE IF Canonical(t) THEN c.rc = 1 /\ c.out = B64Dec(t)
                              ELSE IF Malformed(t) THEN c.rc # 1
                              ELSE TRUE                                             \* non-zero spare bits: either answer is tolerated
      [] c.kind = "hexdec" -> IF HexOK(c.text) THEN c.rc = 1 /\ c.out = HexDec(c.text) ELSE c.rc # 1
      [] c.kind = "pem"    -> \* write then read with a declared capacity: succeeds iff the data fits, returns the data, never more than the capacity
                              /\ c.wrc = 1
                              /\ Strip(c.body) = B64Enc(c.data)
                              /\ IF Len(c.data) <= c.maxlen THEN c.rc = 1 /\ c.out = c.data ELSE c.rc # 1
                              /\ c.written <= c.maxlen
      [] c.kind = "pemtext" -> \* reading arbitrary PEM text: malformed bodies are refused; nothing beyond the capacity is written
                              /\ c.written <= c.maxlen
                              /\ (c.badbody => c.rc # 1)
                              /\ (c.good => c.rc = 1 /\ c.out = c.data)
Init == i = 1
Next == /\ i <= Len(Cases) /\ i' = i + 1
        /\ IF Judge(Cases[i]) THEN TRUE ELSE PrintT(<<"MISMATCH", i, Cases[i].kind>>)
Spec == Init /\ [][Next]_i
=============================================================================
