------------------------------- MODULE Chain -------------------------------
(***************************************************************************)
(* C07: certificate chain validation, sound and complete for the           *)
(* supported profile.                                                      *)
(*                                                                         *)
(* The chain is not one huge initial state: the walk chooses the next      *)
(* certificate nondeterministically at each step, and two ghost variables  *)
(* carry what the PROPERTY says about the prefix seen so far:              *)
(*   sound - every condition the property lists for acceptance holds       *)
(*   must  - sound, and the chain is built the way the CA commands build   *)
(*           it (so it has to be accepted)                                  *)
(* Impl is the path walk of x509_certs_verify / x509_certs_verify_tlcp.    *)
(* Invariants: accept => sound, reject => ~must.  The pair (hist, sound,   *)
(* must) of finished walks is printed for the conformance replay.          *)
(***************************************************************************)
EXTENDS Integers, Sequences, FiniteSets, TLC

CONSTANTS MaxCAs,     \* intermediate CA certificates presented in the chain: 0..MaxCAs
          Depths,     \* set of caller depth limits explored
          Forms,      \* subset of {"tls", "tlcp"}
          Roles,      \* subset of {"server", "client"}
          Full,       \* TRUE: full attribute product; FALSE: reduced product (quick)
          BcRequired  \* Impl: a CA certificate must carry basicConstraints (FALSE = the defect repaired by fix e7102ac, kept as a negative config)

BC == {"absent", "ca", "notca"}
PLC == IF Full THEN {-1, 0, 1, 2, 3} ELSE {-1, 0, 1, 2}
KU == {"absent", "sign", "enc", "certsign", "sign+certsign", "crlsign"}   \* keyUsage: absent or the named bits ("certsign" = keyCertSign with or without cRLSign; "crlsign" = cRLSign without keyCertSign)
EKU == IF Full THEN {"absent", "server", "client", "other"} ELSE {"absent", "other"}
VALID == {"in", "before", "after"}
SIG == {"good", "bad", "wrongkey"}                                    \* signature on this certificate by the next one's key
CRIT == IF Full THEN {"none", "unknown", "unknowncrit"} ELSE {"none", "unknowncrit"}
Cert == [bc : BC, plc : PLC, ku : KU, eku : EKU, valid : VALID, sig : SIG, iss : BOOLEAN, crit : CRIT]
(* a well-formed record: pathLen only with cA *)
WF(c) == (c.bc # "ca" => c.plc = -1)
Absent == [bc |-> "none", plc |-> -1, ku |-> "absent", eku |-> "absent", valid |-> "in", sig |-> "good", iss |-> TRUE, crit |-> "none"]

VARIABLES form, role, depth,
          n,          \* certificates consumed (leaf, [enc leaf], CAs)
          cur,        \* [link, iss] of the certificate whose issuer is looked for next (all the rest of the walk depends on)
          encLeaf,    \* TLCP: [link] of the key-encipherment certificate (verified under the first issuer), or "none"
          pathLen,    \* Impl: number of CAs walked
          verdict,    \* "run" | "accept" | "reject"
          sound, must,
          hist        \* the chain chosen so far, anchor last (ghost; hidden by the VIEW)
vars == <<form, role, depth, n, cur, encLeaf, pathLen, verdict, sound, must, hist>>

(* ------------------------------ what the property says ------------------------------ *)
InValidity(c) == c.valid = "in"
NoBadCritical(c) == c.crit # "unknowncrit"
LinkOK(c) == c.iss /\ c.sig = "good"                  \* names the next one as issuer and verifies under its key
IsIssuerCA(c, below) == /\ c.bc = "ca" /\ c.ku \in {"absent", "certsign", "sign+certsign"}
                        /\ (c.plc = -1 \/ c.plc >= below)
RoleFits(c, r) == /\ c.ku \in {"absent", "sign", "sign+certsign"}           \* digitalSignature if keyUsage is present
                  /\ c.eku \in {"absent", IF r = "server" THEN "server" ELSE "client"}
EncFits(c) == c.ku \in {"absent", "enc"} /\ c.eku \in {"absent", "server"}
(* built the way the CA commands build it *)
LeafAsBuilt(c) == c.bc = "absent" /\ c.ku = "sign" /\ c.eku = "absent" /\ c.crit = "none"
EncAsBuilt(c) == c.bc = "absent" /\ c.ku = "enc" /\ c.eku = "absent" /\ c.crit = "none"
CAAsBuilt(c, below) == c.bc = "ca" /\ c.plc = below /\ c.ku \in {"certsign", "sign+certsign"} /\ c.eku = "absent" /\ c.crit = "none"
RootAsBuilt(c, below) == c.bc = "ca" /\ (c.plc = -1 \/ c.plc >= below) /\ c.ku \in {"certsign", "sign+certsign"} /\ c.eku = "absent" /\ c.crit = "none"

(* ------------------------------ Impl: x509_cert_check / x509_exts_check / the walk ------------------------------ *)
ExtsCheckLeaf(c, r) ==                   \* cert_type server_auth / client_auth
    /\ NoBadCritical(c)
    /\ c.ku \in {"absent", "sign"}                                          \* digitalSignature, and neither keyCertSign nor cRLSign
    /\ c.bc \in {"absent", "notca"}
    /\ c.eku \in {"absent", IF r = "server" THEN "server" ELSE "client"}
ExtsCheckEnc(c) ==
    /\ NoBadCritical(c) /\ c.ku \in {"absent", "enc"} /\ c.bc \in {"absent", "notca"} /\ c.eku \in {"absent", "server"}
ExtsCheckCA(c) ==                        \* cert_type ca (with the basicConstraints-required repair)
    /\ NoBadCritical(c) /\ c.ku \in {"absent", "certsign", "sign+certsign"} /\ (IF BcRequired THEN c.bc = "ca" ELSE c.bc \in {"ca", "absent"})
CertCheck(c) == InValidity(c)
Feat(c) == [link |-> LinkOK(c), iss |-> c.iss]
TlcpRole(r) == "server"                  \* x509_certs_verify_tlcp uses the server certificate types for both roles

Init == /\ form \in Forms /\ role \in Roles /\ depth \in Depths
        /\ n = 0 /\ cur = Feat(Absent) /\ encLeaf = "none" /\ pathLen = 0 /\ verdict = "run"
        /\ sound = TRUE /\ must = TRUE /\ hist = <<>>

PickLeaf == /\ n = 0
            /\ \E c \in Cert : WF(c) /\
                 /\ n' = 1 /\ cur' = Feat(c) /\ hist' = <<c>>
                 /\ sound' = (InValidity(c) /\ NoBadCritical(c) /\ RoleFits(c, IF form = "tlcp" THEN TlcpRole(role) ELSE role))
                 /\ must'  = (InValidity(c) /\ LeafAsBuilt(c))
                 /\ verdict' = IF CertCheck(c) /\ ExtsCheckLeaf(c, IF form = "tlcp" THEN TlcpRole(role) ELSE role) THEN "run" ELSE "reject"
                 /\ UNCHANGED <<form, role, depth, encLeaf, pathLen>>
(* TLCP: the second certificate is the key-encipherment certificate of the same entity *)
PickEnc == /\ n = 1 /\ form = "tlcp" /\ encLeaf = "none"
           /\ \E c \in Cert : WF(c) /\ c.eku \in {"absent", "other"} /\ c.crit # "unknown" /\
                 /\ n' = 2 /\ encLeaf' = (IF LinkOK(c) THEN "ok" ELSE "bad") /\ hist' = Append(hist, c)
                 /\ sound' = (sound /\ InValidity(c) /\ NoBadCritical(c) /\ EncFits(c))
                 /\ must'  = (must /\ InValidity(c) /\ EncAsBuilt(c))
                 /\ verdict' = IF verdict = "run" /\ CertCheck(c) /\ ExtsCheckEnc(c) THEN "run" ELSE "reject"
                 /\ UNCHANGED <<form, role, depth, cur, pathLen>>
(* the walk goes on after a rejection (the verdict is sticky) so that every finished state describes a complete chain *)
Ready == n < 100 /\ (IF form = "tlcp" THEN n >= 2 ELSE n >= 1)
NumCAs == IF form = "tlcp" THEN n - 2 ELSE n - 1
(* the next presented certificate is an issuer: cur (and at the first issuer the enc leaf) must chain to it *)
PickCA == /\ Ready /\ NumCAs < MaxCAs
          /\ \E ca \in Cert : WF(ca) /\
               LET below == NumCAs
                   encOK == (form = "tlcp" /\ below = 0) => encLeaf = "ok"
               IN
               /\ n' = n + 1 /\ cur' = Feat(ca) /\ hist' = Append(hist, ca)
               /\ sound' = (sound /\ cur.link /\ encOK /\ InValidity(ca) /\ NoBadCritical(ca) /\ IsIssuerCA(ca, below) /\ below < depth + 1)
               /\ must'  = (must  /\ cur.link /\ encOK /\ InValidity(ca) /\ CAAsBuilt(ca, below) /\ below < depth + 1)
               /\ IF /\ verdict = "run" /\ CertCheck(ca) /\ ExtsCheckCA(ca)
                     /\ (pathLen = 0 => ca.plc = 0)                               \* the first issuer must carry pathLen 0
                     /\ ~(ca.plc >= 0 /\ pathLen > ca.plc) /\ pathLen <= depth
                     /\ cur.link /\ encOK
                  THEN verdict' = "run" /\ pathLen' = pathLen + 1
                  ELSE verdict' = "reject" /\ pathLen' = pathLen + 1
               /\ UNCHANGED <<form, role, depth, encLeaf>>
(* end of the presented chain: the issuer of cur is looked up in the trust store (Absent = not there) *)
Anchor == /\ Ready
          /\ \E a \in (Cert \cup {Absent}) : (a = Absent \/ (WF(a) /\ a.sig = "good" /\ a.iss)) /\
               LET below == NumCAs
                   found == a # Absent /\ cur.iss                                 \* lookup is by issuer name
                   encOK == (form = "tlcp" /\ below = 0) => encLeaf = "ok"
               IN
               /\ hist' = Append(hist, a) /\ n' = n + 100
               /\ sound' = (sound /\ found /\ cur.link /\ encOK /\ InValidity(a) /\ NoBadCritical(a) /\ IsIssuerCA(a, below) /\ below <= depth)
               /\ must'  = (must  /\ found /\ cur.link /\ encOK /\ InValidity(a) /\ RootAsBuilt(a, below) /\ below <= depth)
               /\ verdict' = IF /\ verdict = "run" /\ found /\ CertCheck(a) /\ ExtsCheckCA(a)
                                /\ ~(a.plc >= 0 /\ pathLen > a.plc) /\ pathLen <= depth
                                /\ cur.link /\ encOK
                             THEN "accept" ELSE "reject"
               /\ UNCHANGED <<form, role, depth, cur, encLeaf, pathLen>>
Next == PickLeaf \/ PickEnc \/ PickCA \/ Anchor
Spec == Init /\ [][Next]_vars

Finished == n >= 100
Soundness == verdict = "accept" => sound
Completeness == (verdict = "reject" /\ Finished) => ~must

(* ------------------------------ the property as a function of a complete chain ------------------------------ *)
(* h = <<leaf, [enc leaf], CA_1 .. CA_k, anchor>>; used to judge chains proposed from outside (conformance replay) and checked equal *)
(* to the incrementally maintained ghost variables in every finished state (GhostMatches)                                             *)
Lead(f) == IF f = "tlcp" THEN 2 ELSE 1
SoundOf(f, r, d, h) ==
    LET k == Len(h) - Lead(f) - 1                       \* number of intermediate CAs
        a == h[Len(h)]
        rr == IF f = "tlcp" THEN TlcpRole(r) ELSE r
        issuerOf(i) == IF i <= Lead(f) THEN Lead(f) + 1 ELSE i + 1     \* position of the certificate that must have issued h[i]
    IN /\ a # Absent
       /\ \A i \in 1..Len(h) : InValidity(h[i]) /\ NoBadCritical(h[i])
       /\ \A i \in 1..(Len(h) - 1) : LinkOK(h[i])
       /\ RoleFits(h[1], rr) /\ (f = "tlcp" => EncFits(h[2]))
       /\ \A j \in 1..(k + 1) : IsIssuerCA(h[Lead(f) + j], j - 1)
       /\ k <= d
MustOf(f, r, d, h) ==
    LET k == Len(h) - Lead(f) - 1  a == h[Len(h)] IN
    /\ SoundOf(f, r, d, h)
    /\ LeafAsBuilt(h[1]) /\ (f = "tlcp" => EncAsBuilt(h[2]))
    /\ \A j \in 1..k : CAAsBuilt(h[Lead(f) + j], j - 1)
    /\ RootAsBuilt(a, k)
GhostMatches == Finished => (sound = SoundOf(form, role, depth, hist) /\ must = MustOf(form, role, depth, hist))
View == <<form, role, depth, n, cur, encLeaf, pathLen, verdict, sound, must>>
(* behaviour generation for the conformance replay *)
EmitChain == Finished => PrintT(<<"CHAIN", form, role, depth, hist, sound, must, verdict>>)
=============================================================================
