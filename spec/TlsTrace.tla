----------------------------- MODULE TlsTrace -----------------------------
(***************************************************************************)
(* Trace validation of real GmSSL connections (harness/tlsdrv.c) against   *)
(* the contract in Tls.tla.  Endpoint protocol steps are silent; what the  *)
(* proxy saw on the wire and what the API calls returned is logged.        *)
(* An execution is accepted iff some interleaving of silent steps explains *)
(* every logged event.  The stream contract of C08 (bytes written arrive   *)
(* complete, unmodified, in order) is stated on the Write/Read events.     *)
(***************************************************************************)
EXTENDS Tls, Json, IOUtils, SequencesExt

VARIABLES l,                 \* next trace line
          cret, sret,        \* handshake return value as logged (0 = not yet)
          ckeys, skeys,      \* <<keys, version, suite>> reported at completion
          cpend, spend,      \* write call in progress: 0 no, 1 begun, 2 record emitted
          cshut, sshut,      \* shutdown call: 0 no, 1 begun, 2 close_notify emitted
          cav, sav,          \* reader holds an accepted application record that may have unread bytes
          cfin, sfin,        \* reader has consumed the peer's close_notify
          ceof, seof,        \* proxy saw end-of-stream from this endpoint
          wpos, wmax, rpos   \* per direction ("c2s", "s2c"): bytes confirmed written, upper bound incl. a write in progress, bytes delivered
tvars == <<l, cret, sret, ckeys, skeys, cpend, spend, cshut, sshut, cav, sav, cfin, sfin, ceof, seof, wpos, wmax, rpos>>
allvars == <<vars, tvars>>

TraceLog == ndJsonDeserialize(IOEnv.TRACE)
Ev == TraceLog[l]
IsEvent(e) == l <= Len(TraceLog) /\ Ev.e = e /\ l' = l + 1

(* the application stream: byte at offset off of direction d (0 = client to server); same function in harness/tlsdrv.c *)
StreamByte(d, off) == (off * 131 + (off \div 256) * 17 + (off \div 65536) * 5 + d * 77 + 3) % 256
WSum(d, pos, n) == FoldLeft(LAMBDA acc, i : (acc + StreamByte(d, pos + i) * ((i % 251) + 1)) % 65521, 0, [i \in 1..n |-> i - 1])
MinI(a, b) == IF a < b THEN a ELSE b
ExpHead(d, pos, n) == [i \in 1..MinI(n, 24) |-> StreamByte(d, pos + i - 1)]
ExpTail(d, pos, n) == IF n <= 24 THEN <<>> ELSE LET k == MinI(n - 24, 24) IN [i \in 1..k |-> StreamByte(d, pos + n - k + i - 1)]

(* wire appearance of a record *)
HsType(m) == CASE m = "CH" -> 1 [] m = "SH" -> 2 [] m \in {"CERT_S", "CERT_C"} -> 11 [] m = "SKE" -> 12
               [] m = "CR" -> 13 [] m = "SHD" -> 14 [] m = "CV_C" -> 15 [] m = "CKE" -> 16 [] OTHER -> -1
WireOK(r) ==
    CASE r.m \in {"CCS_C", "CCS_S"} -> Ev.rtype = 20
      [] r.m = "ALERT" -> Ev.rtype \in {21, 23}
      [] r.m = "APP"   -> Ev.rtype = 23
      [] r.m = "CLOSE" -> Ev.rtype \in {21, 23}
      [] OTHER -> IF IsTls13 /\ Protected(r.m) THEN Ev.rtype = 23
                  ELSE Ev.rtype = 22 /\ (~Protected(r.m) => Ev.hs = HsType(r.m))
(* a replayed old record is, for the receiver, a record that does not carry the expected sequence number: the contract treats it like junk *)
FaultOf(ev) == IF ev.fault = "replay" THEN "injectJunk" ELSE IF ev.fault = "inject" THEN (IF ev.kind = 0 THEN "inject0" ELSE IF ev.kind = 2 THEN "injectCcs" ELSE "injectJunk") ELSE ev.fault

D2 == [c2s |-> 0, s2c |-> 0]
TP == {257, 771, 772}
TC == {}
Blank == /\ proto = 0 /\ mutual = FALSE /\ cmutual = FALSE
         /\ cred = [sOK |-> TRUE, sPoss |-> TRUE, sEnc |-> TRUE, cCert |-> TRUE, cOK |-> TRUE, cPoss |-> TRUE]
         /\ cpc = 0 /\ spc = 0 /\ c2m = <<>> /\ m2s = <<>> /\ s2m = <<>> /\ m2c = <<>>
         /\ held = [c2s |-> <<>>, s2c |-> <<>>] /\ first = [c2s |-> <<>>, s2c |-> <<>>]
         /\ ctr = <<>> /\ str = <<>> /\ cwseq = 0 /\ swseq = 0 /\ crseq = 0 /\ srseq = 0
         /\ csent = <<>> /\ ssent = <<>> /\ cgot = <<>> /\ sgot = <<>>
         /\ budget = Budget /\ hsFault = FALSE /\ closed = FALSE /\ capp = 0 /\ sapp = 0 /\ cacc = 0 /\ sacc = 0
         /\ cret = 0 /\ sret = 0 /\ ckeys = <<>> /\ skeys = <<>> /\ cpend = 0 /\ spend = 0 /\ cshut = 0 /\ sshut = 0
         /\ cav = FALSE /\ sav = FALSE /\ cfin = FALSE /\ sfin = FALSE /\ ceof = FALSE /\ seof = FALSE
         /\ wpos = D2 /\ wmax = D2 /\ rpos = D2
BlankNext == /\ proto' = 0 /\ mutual' = FALSE /\ cmutual' = FALSE
         /\ cred' = [sOK |-> TRUE, sPoss |-> TRUE, sEnc |-> TRUE, cCert |-> TRUE, cOK |-> TRUE, cPoss |-> TRUE]
         /\ cpc' = 0 /\ spc' = 0 /\ c2m' = <<>> /\ m2s' = <<>> /\ s2m' = <<>> /\ m2c' = <<>>
         /\ held' = [c2s |-> <<>>, s2c |-> <<>>] /\ first' = [c2s |-> <<>>, s2c |-> <<>>]
         /\ ctr' = <<>> /\ str' = <<>> /\ cwseq' = 0 /\ swseq' = 0 /\ crseq' = 0 /\ srseq' = 0
         /\ csent' = <<>> /\ ssent' = <<>> /\ cgot' = <<>> /\ sgot' = <<>>
         /\ budget' = Budget /\ hsFault' = FALSE /\ closed' = FALSE /\ capp' = 0 /\ sapp' = 0 /\ cacc' = 0 /\ sacc' = 0
         /\ cret' = 0 /\ sret' = 0 /\ ckeys' = <<>> /\ skeys' = <<>> /\ cpend' = 0 /\ spend' = 0 /\ cshut' = 0 /\ sshut' = 0
         /\ cav' = FALSE /\ sav' = FALSE /\ cfin' = FALSE /\ sfin' = FALSE /\ ceof' = FALSE /\ seof' = FALSE
         /\ wpos' = D2 /\ wmax' = D2 /\ rpos' = D2

TraceInit == Blank /\ l = 1 /\ TLCSet(1, 1)

(* ------------------------------ silent steps ------------------------------ *)
KeepT == UNCHANGED tvars
SilentHs == (CSend \/ CRecvOK \/ CFail \/ CSkipCR \/ SSend \/ SRecvOK \/ SFail) /\ KeepT
\* failing at a send step (e.g. the peer is gone) is possible only when the run is not honest
CFailSend == /\ CRunning /\ ~Honest /\ cpc' = 0
             /\ UNCHANGED <<proto, mutual, cmutual, cred, spc, c2m, m2s, s2m, m2c, held, first, ctr, str, cwseq, swseq, crseq, srseq, csent, ssent,
                            cgot, sgot, budget, hsFault, closed, capp, sapp, cacc, sacc>> /\ KeepT
SFailSend == /\ SRunning /\ ~Honest /\ spc' = 0
             /\ UNCHANGED <<proto, mutual, cmutual, cred, cpc, c2m, m2s, s2m, m2c, held, first, ctr, str, cwseq, swseq, crseq, srseq, csent, ssent,
                            cgot, sgot, budget, hsFault, closed, capp, sapp, cacc, sacc>> /\ KeepT
CEmitApp == cpend = 1 /\ CEmit("APP") /\ cpend' = 2
            /\ UNCHANGED <<l, cret, sret, ckeys, skeys, spend, cshut, sshut, cav, sav, cfin, sfin, ceof, seof, wpos, wmax, rpos>>
SEmitApp == spend = 1 /\ SEmit("APP") /\ spend' = 2
            /\ UNCHANGED <<l, cret, sret, ckeys, skeys, cpend, cshut, sshut, cav, sav, cfin, sfin, ceof, seof, wpos, wmax, rpos>>
CEmitClose == cshut = 1 /\ CEmit("CLOSE") /\ cshut' = 2
            /\ UNCHANGED <<l, cret, sret, ckeys, skeys, cpend, spend, sshut, cav, sav, cfin, sfin, ceof, seof, wpos, wmax, rpos>>
SEmitClose == sshut = 1 /\ SEmit("CLOSE") /\ sshut' = 2
            /\ UNCHANGED <<l, cret, sret, ckeys, skeys, cpend, spend, cshut, cav, sav, cfin, sfin, ceof, seof, wpos, wmax, rpos>>
CAcceptApp == cret = 1 /\ CAccept("APP") /\ cav' = TRUE
            /\ UNCHANGED <<l, cret, sret, ckeys, skeys, cpend, spend, cshut, sshut, sav, cfin, sfin, ceof, seof, wpos, wmax, rpos>>
SAcceptApp == sret = 1 /\ SAccept("APP") /\ sav' = TRUE
            /\ UNCHANGED <<l, cret, sret, ckeys, skeys, cpend, spend, cshut, sshut, cav, cfin, sfin, ceof, seof, wpos, wmax, rpos>>
CAcceptClose == cret = 1 /\ CAccept("CLOSE") /\ cfin' = TRUE
            /\ UNCHANGED <<l, cret, sret, ckeys, skeys, cpend, spend, cshut, sshut, cav, sav, sfin, ceof, seof, wpos, wmax, rpos>>
SAcceptClose == sret = 1 /\ SAccept("CLOSE") /\ sfin' = TRUE
            /\ UNCHANGED <<l, cret, sret, ckeys, skeys, cpend, spend, cshut, sshut, cav, sav, cfin, ceof, seof, wpos, wmax, rpos>>
CRejectData == cret = 1 /\ CReject /\ cav' = FALSE
            /\ UNCHANGED <<l, cret, sret, ckeys, skeys, cpend, spend, cshut, sshut, sav, cfin, sfin, ceof, seof, wpos, wmax, rpos>>
SRejectData == sret = 1 /\ SReject /\ sav' = FALSE
            /\ UNCHANGED <<l, cret, sret, ckeys, skeys, cpend, spend, cshut, sshut, cav, cfin, sfin, ceof, seof, wpos, wmax, rpos>>
Silent == SilentHs \/ CFailSend \/ SFailSend \/ CEmitApp \/ SEmitApp \/ CEmitClose \/ SEmitClose
          \/ CAcceptApp \/ SAcceptApp \/ CAcceptClose \/ SAcceptClose \/ CRejectData \/ SRejectData

(* ------------------------------ logged events ------------------------------ *)
TStart == /\ IsEvent("Start") /\ proto = 0
          /\ proto' = Ev.proto /\ mutual' = (Ev.mutual = 1) /\ cmutual' = (Ev.mutual = 1)
          /\ cred' = [sOK |-> Ev.sok, sPoss |-> Ev.sposs, sEnc |-> Ev.senc, cCert |-> (Ev.ccert = 1), cOK |-> Ev.cok, cPoss |-> Ev.cposs]
          /\ cpc' = 1 /\ spc' = 1
          /\ UNCHANGED <<c2m, m2s, s2m, m2c, held, first, ctr, str, cwseq, swseq, crseq, srseq, csent, ssent, cgot, sgot,
                         budget, hsFault, closed, capp, sapp, cacc, sacc>>
          /\ UNCHANGED <<cret, sret, ckeys, skeys, cpend, spend, cshut, sshut, cav, sav, cfin, sfin, ceof, seof, wpos, wmax, rpos>>
TRec == /\ IsEvent("Rec")
        /\ IF Ev.dir = "c2s" THEN c2m # <<>> /\ WireOK(Head(c2m)) /\ FwdC2S(FaultOf(Ev))
                             ELSE s2m # <<>> /\ WireOK(Head(s2m)) /\ FwdS2C(FaultOf(Ev))
        /\ UNCHANGED <<cret, sret, ckeys, skeys, cpend, spend, cshut, sshut, cav, sav, cfin, sfin, ceof, seof, wpos, wmax, rpos>>
TClose == /\ IsEvent("Close") /\ closed' = TRUE
          /\ UNCHANGED <<proto, mutual, cmutual, cred, cpc, spc, c2m, m2s, s2m, m2c, held, first, ctr, str, cwseq, swseq, crseq, srseq,
                         csent, ssent, cgot, sgot, budget, hsFault, capp, sapp, cacc, sacc>>
          /\ UNCHANGED <<cret, sret, ckeys, skeys, cpend, spend, cshut, sshut, cav, sav, cfin, sfin, ceof, seof, wpos, wmax, rpos>>
          /\ ~Honest    \* the proxy only ever has to close a stuck run after it applied a fault: an honest run that stalls is a liveness failure
KeysOf(ev) == <<ev.keys, ev.ver, ev.suite>>
THsRet == /\ IsEvent("HsRet")
          /\ IF Ev.who = "C"
             THEN /\ cret = 0 /\ (IF Ev.rc = 1 THEN cpc = CDone ELSE cpc = 0)
                  /\ cret' = Ev.rc /\ UNCHANGED <<sret, skeys>>
                  /\ ckeys' = IF Ev.rc = 1 THEN KeysOf(Ev) ELSE <<>>
                  /\ Ev.rc = 1 => (Ev.ver = proto /\ (sret = 1 => KeysOf(Ev) = skeys))       \* C08 agreement
             ELSE /\ sret = 0 /\ (IF Ev.rc = 1 THEN spc = SDone ELSE spc = 0)
                  /\ sret' = Ev.rc /\ UNCHANGED <<cret, ckeys>>
                  /\ skeys' = IF Ev.rc = 1 THEN KeysOf(Ev) ELSE <<>>
                  /\ Ev.rc = 1 => (Ev.ver = proto /\ (cret = 1 => KeysOf(Ev) = ckeys))
          /\ UNCHANGED vars
          /\ UNCHANGED <<cpend, spend, cshut, sshut, cav, sav, cfin, sfin, ceof, seof, wpos, wmax, rpos>>
TWriteBegin == /\ IsEvent("WriteBegin")
               /\ IF Ev.who = "C" THEN /\ cret = 1 /\ cpend = 0 /\ cpend' = 1 /\ UNCHANGED spend
                                       /\ wmax' = [wmax EXCEPT !.c2s = wpos.c2s + Ev.n]
                                  ELSE /\ sret = 1 /\ spend = 0 /\ spend' = 1 /\ UNCHANGED cpend
                                       /\ wmax' = [wmax EXCEPT !.s2c = wpos.s2c + Ev.n]
               /\ UNCHANGED vars
               /\ UNCHANGED <<cret, sret, ckeys, skeys, cshut, sshut, cav, sav, cfin, sfin, ceof, seof, wpos, rpos>>
(* a write that reports success has put exactly its first `sent` bytes (1..n) into the stream, as one record *)
TWrite == /\ IsEvent("Write")
          /\ LET d == IF Ev.who = "C" THEN "c2s" ELSE "s2c"   pend == IF Ev.who = "C" THEN cpend ELSE spend IN
             /\ pend \in {1, 2}
             /\ IF Ev.rc = 1
                THEN /\ pend = 2 /\ Ev.sent >= 1 /\ Ev.sent <= Ev.n
                     /\ wpos' = [wpos EXCEPT ![d] = @ + Ev.sent] /\ wmax' = [wmax EXCEPT ![d] = wpos[d] + Ev.sent]
                     /\ rpos[d] <= wpos[d] + Ev.sent
                ELSE /\ UNCHANGED <<wpos, wmax>>                 \* an honest connection accepts every write -- except that TLCP / TLS 1.2 refuse to send while
                     /\ (~Honest \/ (~IsTls13 /\ (IF Ev.who = "C" THEN cav ELSE sav)))     \* received data is still buffered ("recv all buffered data before send"): nothing is lost by that
          /\ IF Ev.who = "C" THEN cpend' = 0 /\ UNCHANGED spend ELSE spend' = 0 /\ UNCHANGED cpend
          /\ UNCHANGED vars
          /\ UNCHANGED <<cret, sret, ckeys, skeys, cshut, sshut, cav, sav, cfin, sfin, ceof, seof, rpos>>
(* a read that returns bytes returns the next bytes of the peer's stream, never more than were written *)
TRead == /\ IsEvent("Read")
         /\ LET isC == Ev.who = "C"
                d == IF isC THEN "s2c" ELSE "c2s"   dn == IF isC THEN 1 ELSE 0
                av == IF isC THEN cav ELSE sav
            IN
            /\ (IF isC THEN cret ELSE sret) = 1
            /\ CASE Ev.rc = 1 /\ Ev.got > 0 ->
                      /\ av /\ Ev.got <= Ev.cap
                      /\ Ev.head = ExpHead(dn, rpos[d], Ev.got) /\ Ev.tail = ExpTail(dn, rpos[d], Ev.got)
                      /\ Ev.wsum = WSum(dn, rpos[d], Ev.got)
                      /\ rpos' = [rpos EXCEPT ![d] = @ + Ev.got] /\ rpos[d] + Ev.got <= wmax[d]
                      /\ IF isC THEN cav' = (Ev.got = Ev.cap) /\ UNCHANGED sav ELSE sav' = (Ev.got = Ev.cap) /\ UNCHANGED cav
                 [] Ev.rc = 1 /\ Ev.got = 0 -> UNCHANGED <<rpos, cav, sav>>
                 [] Ev.rc = 0 ->
                      \* orderly close: everything written before the close_notify has been delivered; or the stream just ended
                      /\ \/ (IF isC THEN cfin ELSE sfin) /\ rpos[d] = wpos[d]
                         \* (what is still on its way to the reader may only be records that were damaged in flight: a record whose length field was
                         \*  raised beyond the rest of the stream never completes, and the reader sees the end of the stream inside it)
                         \*  -- whatever follows it in the stream is then swallowed as its body, so only the record at the head has to be a damaged one)
                         \/ (IF isC THEN (IF m2c = <<>> THEN TRUE ELSE ~m2c[1].ok) /\ s2m = <<>> /\ (seof \/ closed)
                                     ELSE (IF m2s = <<>> THEN TRUE ELSE ~m2s[1].ok) /\ c2m = <<>> /\ (ceof \/ closed))
                      /\ UNCHANGED <<rpos, cav, sav>>
                 [] OTHER ->
                      \* a failing read: the reader has discarded an unacceptable record, or the run is not honest
                      /\ (~Honest \/ (IF isC THEN cpc = 0 ELSE spc = 0))
                      /\ UNCHANGED <<rpos, cav, sav>>
         /\ UNCHANGED vars
         /\ UNCHANGED <<cret, sret, ckeys, skeys, cpend, spend, cshut, sshut, cfin, sfin, ceof, seof, wpos, wmax>>
TShutBegin == /\ IsEvent("ShutBegin")
              /\ IF Ev.who = "C" THEN cret = 1 /\ cshut' = (IF IsTls13 THEN 2 ELSE 1) /\ UNCHANGED sshut
                                 ELSE sret = 1 /\ sshut' = (IF IsTls13 THEN 2 ELSE 1) /\ UNCHANGED cshut
              /\ UNCHANGED vars
              /\ UNCHANGED <<cret, sret, ckeys, skeys, cpend, spend, cav, sav, cfin, sfin, ceof, seof, wpos, wmax, rpos>>
TShut == /\ IsEvent("Shut") /\ (IF Ev.who = "C" THEN cshut = 2 ELSE sshut = 2)
         /\ UNCHANGED vars /\ UNCHANGED <<cret, sret, ckeys, skeys, cpend, spend, cshut, sshut, cav, sav, cfin, sfin, ceof, seof, wpos, wmax, rpos>>
TEof == /\ IsEvent("Eof")
        /\ IF Ev.dir = "c2s" THEN ceof' = TRUE /\ UNCHANGED seof ELSE seof' = TRUE /\ UNCHANGED ceof
        /\ UNCHANGED vars /\ UNCHANGED <<cret, sret, ckeys, skeys, cpend, spend, cshut, sshut, cav, sav, cfin, sfin, wpos, wmax, rpos>>
(* End: both endpoints have returned; their reports must have been logged *)
TEnd == /\ IsEvent("End") /\ (Ev.crc = -9 \/ (cret = Ev.crc /\ sret = Ev.src))
        /\ UNCHANGED vars /\ UNCHANGED <<cret, sret, ckeys, skeys, cpend, spend, cshut, sshut, cav, sav, cfin, sfin, ceof, seof, wpos, wmax, rpos>>
TIgnored == /\ (IsEvent("Draw") \/ IsEvent("InitFail") \/ IsEvent("Sent"))
            /\ UNCHANGED vars /\ UNCHANGED <<cret, sret, ckeys, skeys, cpend, spend, cshut, sshut, cav, sav, cfin, sfin, ceof, seof, wpos, wmax, rpos>>
TReset == IsEvent("Reset") /\ BlankNext

Logged == TStart \/ TRec \/ TClose \/ THsRet \/ TWriteBegin \/ TWrite \/ TRead \/ TShutBegin \/ TShut \/ TEof \/ TEnd \/ TIgnored \/ TReset
TraceNext == (Silent /\ proto # 0) \/ Logged
TraceSpec == TraceInit /\ [][TraceNext]_allvars

(* the contract's safety properties, evaluated in every state of every explanation *)
PropOK == Agreement /\ AuthServer /\ AuthClient /\ TamperDetected /\ AppOnlyFromPeer
(* progress register: highest line reached by any explanation (needs -workers 1) *)
Progress == (IF l > TLCGet(1) THEN TLCSet(1, l) ELSE TRUE) /\ PropOK
Accepted == IF TLCGet(1) > Len(TraceLog) THEN TRUE
            ELSE PrintT(<<"REJECTED", TLCGet(1), TraceLog[TLCGet(1)].e>>) /\ FALSE
=============================================================================
