// C13 driver: the exported SM2 256-bit integer / modular / curve arithmetic.
// script: op=<name> a=<32B hex> b= e= n=<int> w=<int> i=<int> P=<64B affine|-> Q= lam=<32B> k= t= s=
// event Z{op, r (bytes), c (carry/borrow/cmp/int result), inf, x, y}
#include <stdio.h>
#include <stdlib.h>
#include <string.h>
#include <gmssl/sm2_z256.h>
#include "vh.h"

static void tob(const sm2_z256_t a, uint8_t out[32]) { sm2_z256_to_bytes(a, out); }
// build a Jacobian point (Montgomery coordinates) from affine bytes; lam != 0 gives the non-normalised representative (lam^2 x, lam^3 y, lam)
static void mkpoint(SM2_Z256_POINT *P, const uint8_t *xy, size_t n, const uint8_t *lam, size_t lamn)
{
	if (n != 64) { sm2_z256_point_set_infinity(P); return; }
	sm2_z256_t x, y, l, l2, l3; sm2_z256_from_bytes(x, xy); sm2_z256_from_bytes(y, xy + 32);
	sm2_z256_modp_to_mont(x, P->X); sm2_z256_modp_to_mont(y, P->Y); sm2_z256_copy(P->Z, sm2_z256_one()); sm2_z256_modp_to_mont(P->Z, P->Z);
	if (lamn == 32) {
		sm2_z256_from_bytes(l, lam); sm2_z256_modp_to_mont(l, l); sm2_z256_modp_mont_sqr(l2, l); sm2_z256_modp_mont_mul(l3, l2, l);
		sm2_z256_modp_mont_mul(P->X, P->X, l2); sm2_z256_modp_mont_mul(P->Y, P->Y, l3); sm2_z256_copy(P->Z, l);
	}
}
static void outpoint(const SM2_Z256_POINT *R)
{
	uint8_t xy[64] = {0}; int inf = sm2_z256_point_is_at_infinity(R) == 1; if (!inf) sm2_z256_point_to_bytes(R, xy);
	vt_int("inf", inf); vt_bytes("x", xy, inf ? 0 : 32); vt_bytes("y", xy + 32, inf ? 0 : 32);
}

int main(int argc, char **argv)
{
	if (argc < 3) return 2;
	FILE *sf = fopen(argv[1], "r"); if (!sf) return 3;
	vt_open(argv[2]);
	char line[4096];
	while (fgets(line, sizeof line, sf)) {
		KV kv; kv_parse(&kv, line); if (!kv.n) continue;
		const char *op = kv_str(&kv, "op", "add"); size_t al, bl, el, pl, ql, ll, kl, tl, sl;
		uint8_t *ab = kv_hex(&kv, "a", &al), *bb = kv_hex(&kv, "b", &bl), *eb = kv_hex(&kv, "e", &el), *Pb = kv_hex(&kv, "P", &pl), *Qb = kv_hex(&kv, "Q", &ql),
			*lb = kv_hex(&kv, "lam", &ll), *kb = kv_hex(&kv, "k", &kl), *tb = kv_hex(&kv, "t", &tl), *sb = kv_hex(&kv, "s", &sl);
		sm2_z256_t a = {0}, b = {0}, e = {0}, r = {0}, k = {0}, t = {0}, s = {0}; uint8_t out[64] = {0}; size_t outl = 32; long c = 0; int haspoint = 0; SM2_Z256_POINT P, Q, R;
		if (al == 32) sm2_z256_from_bytes(a, ab); if (bl == 32) sm2_z256_from_bytes(b, bb); if (el == 32) sm2_z256_from_bytes(e, eb);
		if (kl == 32) sm2_z256_from_bytes(k, kb); if (tl == 32) sm2_z256_from_bytes(t, tb); if (sl == 32) sm2_z256_from_bytes(s, sb);
		if (!strcmp(op, "add")) c = (long)sm2_z256_add(r, a, b);
		else if (!strcmp(op, "sub")) c = (long)sm2_z256_sub(r, a, b);
		else if (!strcmp(op, "mul")) { sm2_z512_t m; sm2_z256_mul(m, a, b); sm2_z256_to_bytes(m + 4, out); sm2_z256_to_bytes(m, out + 32); outl = 64; }
		else if (!strcmp(op, "cmp")) { c = sm2_z256_cmp(a, b); outl = 0; }
		else if (!strcmp(op, "rshift")) sm2_z256_rshift(r, a, (unsigned)kv_int(&kv, "n", 1));
		else if (!strcmp(op, "booth")) { c = sm2_z256_get_booth(a, (unsigned)kv_int(&kv, "w", 5), (int)kv_int(&kv, "i", 0)); outl = 0; }
		else if (!strcmp(op, "modp_add")) sm2_z256_modp_add(r, a, b); else if (!strcmp(op, "modp_sub")) sm2_z256_modp_sub(r, a, b);
		else if (!strcmp(op, "modp_dbl")) sm2_z256_modp_dbl(r, a); else if (!strcmp(op, "modp_tri")) sm2_z256_modp_tri(r, a);
		else if (!strcmp(op, "modp_neg")) sm2_z256_modp_neg(r, a); else if (!strcmp(op, "modp_haf")) sm2_z256_modp_haf(r, a);
		else if (!strcmp(op, "modp_to_mont")) sm2_z256_modp_to_mont(a, r); else if (!strcmp(op, "modp_from_mont")) sm2_z256_modp_from_mont(r, a);
		else if (!strcmp(op, "modp_mont_mul")) sm2_z256_modp_mont_mul(r, a, b); else if (!strcmp(op, "modp_mont_sqr")) sm2_z256_modp_mont_sqr(r, a);
		else if (!strcmp(op, "modp_mont_exp")) sm2_z256_modp_mont_exp(r, a, e); else if (!strcmp(op, "modp_mont_inv")) sm2_z256_modp_mont_inv(r, a);
		else if (!strcmp(op, "modp_mont_sqrt")) c = sm2_z256_modp_mont_sqrt(r, a);
		else if (!strcmp(op, "modn_add")) sm2_z256_modn_add(r, a, b); else if (!strcmp(op, "modn_sub")) sm2_z256_modn_sub(r, a, b);
		else if (!strcmp(op, "modn_neg")) sm2_z256_modn_neg(r, a); else if (!strcmp(op, "modn_mul")) sm2_z256_modn_mul(r, a, b);
		else if (!strcmp(op, "modn_sqr")) sm2_z256_modn_sqr(r, a); else if (!strcmp(op, "modn_exp")) sm2_z256_modn_exp(r, a, e);
		else if (!strcmp(op, "modn_inv")) sm2_z256_modn_inv(r, a);
		else if (!strcmp(op, "modn_to_mont")) sm2_z256_modn_to_mont(a, r); else if (!strcmp(op, "modn_from_mont")) sm2_z256_modn_from_mont(r, a);
		else if (!strcmp(op, "modn_mont_mul")) sm2_z256_modn_mont_mul(r, a, b); else if (!strcmp(op, "modn_mont_sqr")) sm2_z256_modn_mont_sqr(r, a);
		else if (!strcmp(op, "modn_mont_exp")) sm2_z256_modn_mont_exp(r, a, e); else if (!strcmp(op, "modn_mont_inv")) sm2_z256_modn_mont_inv(r, a);
		else {
			haspoint = 1; mkpoint(&P, Pb, pl, lb, ll); mkpoint(&Q, Qb, ql, NULL, 0);
			// the point at infinity in the form the library's own operations produce it, (0:0:0), instead of set_infinity's (1:1:0)
			if (pl != 64 && kv_int(&kv, "zinfP", 0)) memset(&P, 0, sizeof P);
			if (ql != 64 && kv_int(&kv, "zinfQ", 0)) memset(&Q, 0, sizeof Q);
			if (!strcmp(op, "point_dbl")) sm2_z256_point_dbl(&R, &P);
			else if (!strcmp(op, "point_add")) sm2_z256_point_add(&R, &P, &Q);
			else if (!strcmp(op, "point_sub")) sm2_z256_point_sub(&R, &P, &Q);
			else if (!strcmp(op, "point_neg")) sm2_z256_point_neg(&R, &P);
			else if (!strcmp(op, "point_add_affine")) { SM2_Z256_AFFINE_POINT A; memcpy(A.x, Q.X, 32); memcpy(A.y, Q.Y, 32); sm2_z256_point_add_affine(&R, &P, &A); }
			else if (!strcmp(op, "point_sub_affine")) { SM2_Z256_AFFINE_POINT A; memcpy(A.x, Q.X, 32); memcpy(A.y, Q.Y, 32); sm2_z256_point_sub_affine(&R, &P, &A); }
			else if (!strcmp(op, "mul_generator")) sm2_z256_point_mul_generator(&R, k);
			else if (!strcmp(op, "mul")) sm2_z256_point_mul(&R, k, &P);
			else if (!strcmp(op, "mul_ex")) { SM2_Z256_POINT T[16]; sm2_z256_point_mul_pre_compute(&P, T); sm2_z256_point_mul_ex(&R, k, T); }
			else if (!strcmp(op, "mul_sum")) sm2_z256_point_mul_sum(&R, t, &P, s);
			else if (!strcmp(op, "is_on_curve")) { c = sm2_z256_point_is_on_curve(&P); R = P; }
			else if (!strcmp(op, "point_equ")) { c = sm2_z256_point_equ(&P, &Q); R = P; }
			else { haspoint = 0; outl = 0; c = -99; }
		}
		vt_begin("Z"); vt_int("id", kv_int(&kv, "id", 0)); vt_str("op", op); vt_int("c", c);
		if (haspoint) outpoint(&R); else { if (outl == 32) tob(r, out); vt_bytes("r", out, outl); }
		vt_end(); vt_begin("Reset"); vt_end();
	}
	vt_close(); return 0;
}
