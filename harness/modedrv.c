// C04 / C05 / C11(api) driver: block-cipher modes, AEAD, composites and TLS record protection.
// usage: modedrv <script> <trace-out>
// script line: f=<fn> api=stream|oneshot|blockcipher c=sm4|aes key= iv= aad= mackey= taglen= s= unit= seq= hdr3= type= padlen= msg= chunks= inplace=0|1 expect...
#define _GNU_SOURCE
#include <stdio.h>
#include <stdlib.h>
#include <string.h>
#include <gmssl/sm4.h>
#include <gmssl/aes.h>
#include <gmssl/block_cipher.h>
#include <gmssl/sm4_cbc_mac.h>
#include <gmssl/sm4_cbc_sm3_hmac.h>
#include <gmssl/sm4_ctr_sm3_hmac.h>
#include <gmssl/sm3.h>
#include <gmssl/tls.h>
#include "vh.h"

typedef struct {
	const char *f, *api, *c; uint8_t *key, *iv, *aad, *mackey, *msg, *seq, *hdr3; size_t keylen, ivlen, aadlen, mackeylen, msglen, seqlen, hdr3len;
	long taglen, s, unit, type, padlen, inplace;
} P;

typedef union { SM4_CBC_CTX cbc; SM4_CTR_CTX ctr; SM4_ECB_CTX ecb; SM4_OFB_CTX ofb; SM4_CFB_CTX cfb; SM4_XTS_CTX xts; SM4_GCM_CTX gcm;
	SM4_CBC_MAC_CTX mac; SM4_CBC_SM3_HMAC_CTX cbch; SM4_CTR_SM3_HMAC_CTX ctrh; } CTX;

static int has_query(const char *f) { return !strncmp(f, "cbc_", 4) && !strstr(f, "hmac") && !strstr(f, "blocks") && strcmp(f, "cbc_mac") || !strncmp(f, "cfb", 3) || !strncmp(f, "ctr", 3) && !strstr(f, "hmac") || !strncmp(f, "ecb", 3) || !strncmp(f, "gcm", 3) || !strcmp(f, "ofb"); }

static int s_init(CTX *x, const P *p)
{
	const char *f = p->f; uint8_t k48[48];
	if (p->keylen >= 16 && p->mackeylen == 32) { memcpy(k48, p->key, 16); memcpy(k48 + 16, p->mackey, 32); }
	if (!strcmp(f, "ecb_enc")) return sm4_ecb_encrypt_init(&x->ecb, p->key);
	if (!strcmp(f, "ecb_dec")) return sm4_ecb_decrypt_init(&x->ecb, p->key);
	if (!strcmp(f, "cbc_enc")) return sm4_cbc_encrypt_init(&x->cbc, p->key, p->iv);
	if (!strcmp(f, "cbc_dec")) return sm4_cbc_decrypt_init(&x->cbc, p->key, p->iv);
	if (!strcmp(f, "ctr")) return sm4_ctr_encrypt_init(&x->ctr, p->key, p->iv);
	if (!strcmp(f, "ctr32")) return sm4_ctr32_encrypt_init(&x->ctr, p->key, p->iv);
	if (!strcmp(f, "ofb")) return sm4_ofb_encrypt_init(&x->ofb, p->key, p->iv);
	if (!strcmp(f, "cfb_enc")) return sm4_cfb_encrypt_init(&x->cfb, (size_t)p->s, p->key, p->iv);
	if (!strcmp(f, "cfb_dec")) return sm4_cfb_decrypt_init(&x->cfb, (size_t)p->s, p->key, p->iv);
	if (!strcmp(f, "xts_units_enc")) return sm4_xts_encrypt_init(&x->xts, p->key, p->iv, (size_t)p->unit);
	if (!strcmp(f, "xts_units_dec")) return sm4_xts_decrypt_init(&x->xts, p->key, p->iv, (size_t)p->unit);
	if (!strcmp(f, "gcm_enc")) return sm4_gcm_encrypt_init(&x->gcm, p->key, p->keylen, p->iv, p->ivlen, p->aad, p->aadlen, (size_t)p->taglen);
	if (!strcmp(f, "gcm_dec")) return sm4_gcm_decrypt_init(&x->gcm, p->key, p->keylen, p->iv, p->ivlen, p->aad, p->aadlen, (size_t)p->taglen);
	if (!strcmp(f, "cbc_mac")) { sm4_cbc_mac_init(&x->mac, p->key); return 1; }
	if (!strcmp(f, "cbc_hmac_enc")) return sm4_cbc_sm3_hmac_encrypt_init(&x->cbch, k48, p->iv, p->aad, p->aadlen);
	if (!strcmp(f, "cbc_hmac_dec")) return sm4_cbc_sm3_hmac_decrypt_init(&x->cbch, k48, p->iv, p->aad, p->aadlen);
	if (!strcmp(f, "ctr_hmac_enc")) return sm4_ctr_sm3_hmac_encrypt_init(&x->ctrh, k48, p->iv, p->aad, p->aadlen);
	if (!strcmp(f, "ctr_hmac_dec")) return sm4_ctr_sm3_hmac_decrypt_init(&x->ctrh, k48, p->iv, p->aad, p->aadlen);
	return -99;
}
static int s_update(CTX *x, const P *p, const uint8_t *in, size_t n, uint8_t *out, size_t *ol)
{
	const char *f = p->f;
	if (!strcmp(f, "ecb_enc")) return sm4_ecb_encrypt_update(&x->ecb, in, n, out, ol);
	if (!strcmp(f, "ecb_dec")) return sm4_ecb_decrypt_update(&x->ecb, in, n, out, ol);
	if (!strcmp(f, "cbc_enc")) return sm4_cbc_encrypt_update(&x->cbc, in, n, out, ol);
	if (!strcmp(f, "cbc_dec")) return sm4_cbc_decrypt_update(&x->cbc, in, n, out, ol);
	if (!strcmp(f, "ctr")) return sm4_ctr_encrypt_update(&x->ctr, in, n, out, ol);
	if (!strcmp(f, "ctr32")) return sm4_ctr32_encrypt_update(&x->ctr, in, n, out, ol);
	if (!strcmp(f, "ofb")) return sm4_ofb_encrypt_update(&x->ofb, in, n, out, ol);
	if (!strcmp(f, "cfb_enc")) return sm4_cfb_encrypt_update(&x->cfb, in, n, out, ol);
	if (!strcmp(f, "cfb_dec")) return sm4_cfb_decrypt_update(&x->cfb, in, n, out, ol);
	if (!strcmp(f, "xts_units_enc")) return sm4_xts_encrypt_update(&x->xts, in, n, out, ol);
	if (!strcmp(f, "xts_units_dec")) return sm4_xts_decrypt_update(&x->xts, in, n, out, ol);
	if (!strcmp(f, "gcm_enc")) return sm4_gcm_encrypt_update(&x->gcm, in, n, out, ol);
	if (!strcmp(f, "gcm_dec")) return sm4_gcm_decrypt_update(&x->gcm, in, n, out, ol);
	if (!strcmp(f, "cbc_mac")) { sm4_cbc_mac_update(&x->mac, in, n); *ol = 0; return 1; }
	if (!strcmp(f, "cbc_hmac_enc")) return sm4_cbc_sm3_hmac_encrypt_update(&x->cbch, in, n, out, ol);
	if (!strcmp(f, "cbc_hmac_dec")) return sm4_cbc_sm3_hmac_decrypt_update(&x->cbch, in, n, out, ol);
	if (!strcmp(f, "ctr_hmac_enc")) return sm4_ctr_sm3_hmac_encrypt_update(&x->ctrh, in, n, out, ol);
	if (!strcmp(f, "ctr_hmac_dec")) return sm4_ctr_sm3_hmac_decrypt_update(&x->ctrh, in, n, out, ol);
	return -99;
}
static int s_finish(CTX *x, const P *p, uint8_t *out, size_t *ol)
{
	const char *f = p->f;
	if (!strcmp(f, "ecb_enc")) return sm4_ecb_encrypt_finish(&x->ecb, out, ol);
	if (!strcmp(f, "ecb_dec")) return sm4_ecb_decrypt_finish(&x->ecb, out, ol);
	if (!strcmp(f, "cbc_enc")) return sm4_cbc_encrypt_finish(&x->cbc, out, ol);
	if (!strcmp(f, "cbc_dec")) return sm4_cbc_decrypt_finish(&x->cbc, out, ol);
	if (!strcmp(f, "ctr")) return sm4_ctr_encrypt_finish(&x->ctr, out, ol);
	if (!strcmp(f, "ctr32")) return sm4_ctr32_encrypt_finish(&x->ctr, out, ol);
	if (!strcmp(f, "ofb")) return sm4_ofb_encrypt_finish(&x->ofb, out, ol);
	if (!strcmp(f, "cfb_enc")) return sm4_cfb_encrypt_finish(&x->cfb, out, ol);
	if (!strcmp(f, "cfb_dec")) return sm4_cfb_decrypt_finish(&x->cfb, out, ol);
	if (!strcmp(f, "xts_units_enc")) return sm4_xts_encrypt_finish(&x->xts, out, ol);
	if (!strcmp(f, "xts_units_dec")) return sm4_xts_decrypt_finish(&x->xts, out, ol);
	if (!strcmp(f, "gcm_enc")) return sm4_gcm_encrypt_finish(&x->gcm, out, ol);
	if (!strcmp(f, "gcm_dec")) return sm4_gcm_decrypt_finish(&x->gcm, out, ol);
	if (!strcmp(f, "cbc_mac")) { sm4_cbc_mac_finish(&x->mac, out); *ol = 16; return 1; }
	if (!strcmp(f, "cbc_hmac_enc")) return sm4_cbc_sm3_hmac_encrypt_finish(&x->cbch, out, ol);
	if (!strcmp(f, "cbc_hmac_dec")) return sm4_cbc_sm3_hmac_decrypt_finish(&x->cbch, out, ol);
	if (!strcmp(f, "ctr_hmac_enc")) return sm4_ctr_sm3_hmac_encrypt_finish(&x->ctrh, out, ol);
	if (!strcmp(f, "ctr_hmac_dec")) return sm4_ctr_sm3_hmac_decrypt_finish(&x->ctrh, out, ol);
	return -99;
}

static void ev_params(const P *p)
{
	vt_str("f", p->f); vt_str("api", p->api); vt_str("c", p->c);
	vt_bytes("key", p->key, p->keylen); vt_bytes("iv", p->iv, p->ivlen); vt_bytes("aad", p->aad, p->aadlen);
	if (p->mackeylen) vt_bytes("mackey", p->mackey, p->mackeylen);
	if (p->seqlen) vt_bytes("seq", p->seq, p->seqlen);
	if (p->hdr3len) vt_bytes("hdr3", p->hdr3, p->hdr3len);
	vt_int("taglen", p->taglen); vt_int("s", p->s); vt_int("unit", p->unit); vt_int("type", p->type); vt_int("padlen", p->padlen); vt_int("inplace", p->inplace);
}

static void run_stream(const KV *kv, const P *p)
{
	long chunks[256]; int nch = kv_ints(kv, "chunks", chunks, 256);
	CTX *x = calloc(1, sizeof(CTX));
	int rc = s_init(x, p);
	vt_begin("Init"); vt_int("id", kv_int(kv, "id", 0)); ev_params(p); if (kv_has(kv, "mayrefuse")) vt_int("mayrefuse", 1); if (kv_has(kv, "touched")) vt_int("touched", kv_int(kv, "touched", 0)); vt_int("rc", rc); vt_end();
	size_t off = 0; int q = has_query(p->f);
	for (int i = 0; i <= nch && rc == 1; i++) {
		size_t n = i < nch ? (size_t)chunks[i] : p->msglen - off; if (i == nch && n == 0) break;
		if (off + n > p->msglen) n = p->msglen - off;
		size_t qs = 0; long qsv = -1; size_t ol = (size_t)-7; int r, unset = 0;       // a call that returns 1 has reported how much it wrote: the caller's variable does not keep its old value
		if (q && n) { const uint8_t *tmp = p->msg + off; if (s_update(x, p, tmp, n, NULL, &qs) == 1) qsv = (long)qs; }
		size_t cap = qsv >= 0 ? (size_t)qsv : n + 16 + (size_t)(strncmp(p->f, "xts", 3) ? 0 : p->unit) + (strstr(p->f, "hmac") ? 48 : 0); // no size query: the most the context can hold back plus this input
		uint8_t *in, *out;
		if (p->inplace) { size_t m = cap > n ? cap : n; in = vh_exact(m); out = in; memcpy(in, p->msg + off, n); }
		else { in = vh_exact(n); memcpy(in, p->msg + off, n); out = vh_exact(cap); }
		r = s_update(x, p, in, n, out, &ol);
		if (ol == (size_t)-7) { unset = (r == 1); ol = 0; }
		vt_begin("Update"); vt_bytes("in", p->msg + off, n); vt_int("rc", r); vt_int("qs", qsv); vt_bytes("out", out, r == 1 ? ol : 0); if (unset) vt_int("unset", 1); vt_end();
		off += n; if (r != 1 && n) { rc = r; }
		if (r != 1 && n) break;
	}
	size_t qs = 0, ol = 0; long qsv = -1; int fr = rc;
	if (rc == 1) {
		if (q && s_finish(x, p, NULL, &qs) == 1) qsv = (long)qs;
		size_t cap = qsv >= 0 ? (size_t)qsv : 64;
		uint8_t *out = vh_exact(cap);
		fr = s_finish(x, p, out, &ol);
		vt_begin("Finish"); vt_int("rc", fr); vt_int("qs", qsv); vt_bytes("out", out, fr == 1 ? ol : 0); vt_end();
	} else { vt_begin("Finish"); vt_int("rc", fr); vt_int("qs", -1); vt_bytes("out", NULL, 0); vt_bytes("rest", p->msg + off, p->msglen - off); vt_end(); }
	free(x);
}

static void run_oneshot(const KV *kv, const P *p)
{
	const char *f = p->f; int aes = !strcmp(p->c, "aes"), bc = !strcmp(p->api, "blockcipher");
	size_t n = p->msglen, ol = 0; int rc = -99;
	size_t cap = n + 64;
	if (!strcmp(f, "cbc_enc")) cap = n + 16 - n % 16; else if (!strcmp(f, "cbc_dec") || !strcmp(f, "ecb_enc") || !strcmp(f, "ecb_dec") || strstr(f, "blocks")) cap = n;
	else if (!strcmp(f, "ctr") || !strcmp(f, "ctr32") || !strcmp(f, "ofb") || !strncmp(f, "cfb", 3) || !strncmp(f, "xts", 3)) cap = n;
	else if (!strcmp(f, "gcm_enc") || !strcmp(f, "ccm_enc")) cap = n + (size_t)p->taglen;
	else if (!strcmp(f, "gcm_dec") || !strcmp(f, "ccm_dec")) cap = n >= (size_t)p->taglen ? n - (size_t)p->taglen : 0;
	else if (!strcmp(f, "tls_cbc_enc")) cap = 16 + n + 32 + 16 - (n + 32) % 16; else if (!strcmp(f, "tls_cbc_dec")) cap = n;
	else if (!strcmp(f, "tls13_enc")) cap = n + 1 + (size_t)p->padlen + 16; else if (!strcmp(f, "tls13_dec")) cap = n;
	uint8_t *in, *out;
	if (p->inplace) { size_t m = cap > n ? cap : n; in = vh_exact(m); out = in; memcpy(in, p->msg, n); }
	else { in = vh_exact(n); memcpy(in, p->msg, n); out = vh_exact(cap); }
	uint8_t iv[16] = {0}; if (p->ivlen <= 16) memcpy(iv, p->iv, p->ivlen);
	SM4_KEY ek, dk, k2; AES_KEY aek, adk; BLOCK_CIPHER_KEY bek, bdk;
	if (!aes && p->keylen >= 16) { sm4_set_encrypt_key(&ek, p->key); sm4_set_decrypt_key(&dk, p->key); if (p->keylen >= 32) sm4_set_encrypt_key(&k2, p->key + 16); }
	if (aes) { aes_set_encrypt_key(&aek, p->key, p->keylen); aes_set_decrypt_key(&adk, p->key, p->keylen); }
	if (bc) { const BLOCK_CIPHER *bcp = BLOCK_CIPHER_sm4(); /* the AES dispatch entry is compiled only under ENABLE_AES, which the build never defines */ block_cipher_set_encrypt_key(&bek, bcp, p->key); block_cipher_set_decrypt_key(&bdk, bcp, p->key); }
	int skip_out_event = 0;
	if (!strcmp(f, "tls_cbc_rt") || !strcmp(f, "tls13_rt")) {
		// protect then unprotect with the library itself; the specification requires identity and length bounds (all payload lengths)
		size_t midcap = n + 1 + 256 + 16 + 64, l1 = 0, l2 = 0; uint8_t *mid = vh_exact(midcap); int rc1, rc2 = -99, rt = -1;
		uint8_t *back = vh_exact(midcap);
		if (!strcmp(f, "tls_cbc_rt")) {
			SM3_HMAC_CTX h; sm3_hmac_init(&h, p->mackey, p->mackeylen); uint8_t hdr[5]; memcpy(hdr, p->hdr3, 3); hdr[3] = (uint8_t)(n >> 8); hdr[4] = (uint8_t)n;
			rc1 = tls_cbc_encrypt(&h, &ek, p->seq, hdr, in, n, mid, &l1);
			if (rc1 == 1) { hdr[3] = (uint8_t)(l1 >> 8); hdr[4] = (uint8_t)l1; rc2 = tls_cbc_decrypt(&h, &dk, p->seq, hdr, mid, l1, back, &l2); rt = hdr[0]; }
		} else {
			block_cipher_set_encrypt_key(&bek, BLOCK_CIPHER_sm4(), p->key);
			rc1 = tls13_gcm_encrypt(&bek, p->iv, p->seq, (int)p->type, in, n, (size_t)p->padlen, mid, &l1);
			if (rc1 == 1) rc2 = tls13_gcm_decrypt(&bek, p->iv, p->seq, mid, l1, &rt, back, &l2);
		}
		vt_begin("RoundTrip"); vt_int("id", kv_int(kv, "id", 0)); vt_str("f", f); vt_int("n", (long)n); vt_int("type", p->type); vt_int("padlen", p->padlen);
		vt_int("rc1", rc1); vt_int("rc2", rc2); vt_int("midlen", (long)l1); vt_int("outlen", rc2 == 1 ? (long)l2 : 0); vt_int("rtype", rt);
		vt_int("same", rc2 == 1 && l2 == n && !memcmp(back, p->msg, n)); vt_end();
		return;
	}
	if (!strcmp(f, "ecb_enc")) { ol = n; rc = 1;
		if (bc) for (size_t i = 0; i + 16 <= n; i += 16) rc = block_cipher_encrypt(&bek, in + i, out + i);
		else if (aes) for (size_t i = 0; i + 16 <= n; i += 16) aes_encrypt(&aek, in + i, out + i); else sm4_encrypt_blocks(&ek, in, n / 16, out);
	} else if (!strcmp(f, "ecb_dec")) { ol = n; rc = 1;
		if (bc) for (size_t i = 0; i + 16 <= n; i += 16) rc = block_cipher_decrypt(&bdk, in + i, out + i);
		else if (aes) for (size_t i = 0; i + 16 <= n; i += 16) aes_decrypt(&adk, in + i, out + i); else sm4_encrypt_blocks(&dk, in, n / 16, out);
	} else if (!strcmp(f, "cbc_enc")) rc = aes ? aes_cbc_padding_encrypt(&aek, iv, in, n, out, &ol) : sm4_cbc_padding_encrypt(&ek, iv, in, n, out, &ol);
	else if (!strcmp(f, "cbc_dec")) rc = aes ? aes_cbc_padding_decrypt(&adk, iv, in, n, out, &ol) : sm4_cbc_padding_decrypt(&dk, iv, in, n, out, &ol);
	else if (!strcmp(f, "cbc_enc_blocks")) { rc = 1; ol = n; if (aes) aes_cbc_encrypt(&aek, iv, in, n / 16, out); else sm4_cbc_encrypt_blocks(&ek, iv, in, n / 16, out); }
	else if (!strcmp(f, "cbc_dec_blocks")) { rc = 1; ol = n; if (aes) aes_cbc_decrypt(&adk, iv, in, n / 16, out); else sm4_cbc_decrypt_blocks(&dk, iv, in, n / 16, out); }
	else if (!strcmp(f, "ctr")) { rc = 1; ol = n; if (aes) aes_ctr_encrypt(&aek, iv, in, n, out); else sm4_ctr_encrypt(&ek, iv, in, n, out); }
	else if (!strcmp(f, "ctr32")) { rc = 1; ol = n; sm4_ctr32_encrypt(&ek, iv, in, n, out); }
	else if (!strcmp(f, "ofb")) { rc = 1; ol = n; sm4_ofb_encrypt(&ek, iv, in, n, out); }
	else if (!strcmp(f, "cfb_enc")) { rc = 1; ol = n; sm4_cfb_encrypt(&ek, (size_t)p->s, iv, in, n, out); }
	else if (!strcmp(f, "cfb_dec")) { rc = 1; ol = n; sm4_cfb_decrypt(&ek, (size_t)p->s, iv, in, n, out); }
	else if (!strcmp(f, "xts_enc")) { rc = sm4_xts_encrypt(&ek, &k2, iv, in, n, out); ol = n; }
	else if (!strcmp(f, "xts_dec")) { rc = sm4_xts_decrypt(&dk, &k2, iv, in, n, out); ol = n; }
	else if (!strcmp(f, "gcm_enc")) { uint8_t *tag = vh_exact((size_t)p->taglen);
		rc = aes ? aes_gcm_encrypt(&aek, p->iv, p->ivlen, p->aad, p->aadlen, in, n, out, (size_t)p->taglen, tag) : sm4_gcm_encrypt(&ek, p->iv, p->ivlen, p->aad, p->aadlen, in, n, out, (size_t)p->taglen, tag);
		if (rc == 1) { uint8_t *o2 = malloc(n + 16); memcpy(o2, out, n); memcpy(o2 + n, tag, (size_t)p->taglen); out = o2; } ol = n + (size_t)p->taglen; }
	else if (!strcmp(f, "gcm_dec")) { size_t t = (size_t)p->taglen; if (n >= t) { uint8_t *tag = vh_exact(t); memcpy(tag, p->msg + n - t, t);
		rc = aes ? aes_gcm_decrypt(&aek, p->iv, p->ivlen, p->aad, p->aadlen, in, n - t, tag, t, out) : sm4_gcm_decrypt(&ek, p->iv, p->ivlen, p->aad, p->aadlen, in, n - t, tag, t, out); ol = n - t; } else rc = -1; }
	else if (!strcmp(f, "ccm_enc")) { uint8_t *tag = vh_exact((size_t)p->taglen);
		rc = sm4_ccm_encrypt(&ek, p->iv, p->ivlen, p->aad, p->aadlen, in, n, out, (size_t)p->taglen, tag);
		if (rc == 1) { uint8_t *o2 = malloc(n + 16); memcpy(o2, out, n); memcpy(o2 + n, tag, (size_t)p->taglen); out = o2; } ol = n + (size_t)p->taglen; }
	else if (!strcmp(f, "ccm_dec")) { size_t t = (size_t)p->taglen; if (n >= t) { uint8_t *tag = vh_exact(t); memcpy(tag, p->msg + n - t, t);
		rc = sm4_ccm_decrypt(&ek, p->iv, p->ivlen, p->aad, p->aadlen, in, n - t, tag, t, out); ol = n - t; } else rc = -1; }
	else if (!strcmp(f, "tls_cbc_enc") || !strcmp(f, "tls_cbc_dec")) {
		SM3_HMAC_CTX h; sm3_hmac_init(&h, p->mackey, p->mackeylen);
		uint8_t hdr[5]; memcpy(hdr, p->hdr3, 3);
		if (!strcmp(f, "tls_cbc_enc")) { hdr[3] = (uint8_t)(n >> 8); hdr[4] = (uint8_t)n; ent_reset_counters();
			rc = tls_cbc_encrypt(&h, &ek, p->seq, hdr, in, n, out, &ol);
			// the IV is whatever the library drew: report it so the specification can recompute the record
			const ENT_DRAW *d = ent_get(1); P q = *p; if (d && d->len == 16) { q.iv = (uint8_t *)d->data; q.ivlen = 16; }
			vt_begin("Call"); vt_int("id", kv_int(kv, "id", 0)); ev_params(&q);
			vt_bytes("in", p->msg, n); vt_int("rc", rc); vt_int("cap", (long)cap); vt_bytes("out", out, rc == 1 ? ol : 0); vt_end(); skip_out_event = 1;
		} else if (kv_has(kv, "hlen")) {      // through the record-level wrapper: header (with the length field the script says) || body, handed over with its real size
			long hl = kv_int(kv, "hlen", (long)n); uint8_t *rec = vh_exact(5 + n), *orec = vh_exact(5 + n + 64); size_t orl = 0;
			memcpy(rec, p->hdr3, 3); rec[3] = (uint8_t)(hl >> 8); rec[4] = (uint8_t)hl; memcpy(rec + 5, in, n);
			rc = tls_record_decrypt(&h, &dk, p->seq, rec, 5 + n, orec, &orl);
			if (rc == 1 && orl >= 5) { ol = orl - 5; if (ol <= cap) memcpy(out, orec + 5, ol); else rc = -77; }
		} else { hdr[3] = (uint8_t)(n >> 8); hdr[4] = (uint8_t)n; rc = tls_cbc_decrypt(&h, &dk, p->seq, hdr, in, n, out, &ol); }
	}
	else if (!strcmp(f, "tls13_enc")) { block_cipher_set_encrypt_key(&bek, BLOCK_CIPHER_sm4(), p->key); rc = tls13_gcm_encrypt(&bek, p->iv, p->seq, (int)p->type, in, n, (size_t)p->padlen, out, &ol); }
	else if (!strcmp(f, "tls13_dec")) { block_cipher_set_encrypt_key(&bek, BLOCK_CIPHER_sm4(), p->key); int rt = 0; size_t l2 = 0;
		uint8_t *o2 = vh_exact(cap + 1); rc = tls13_gcm_decrypt(&bek, p->iv, p->seq, in, n, &rt, o2 + 1, &l2); o2[0] = (uint8_t)rt; out = o2; ol = l2 + 1; if (l2 > n) { vt_begin("Overlong"); vt_int("len", (long)l2); vt_end(); } }
	if (!skip_out_event) {
		vt_begin("Call"); vt_int("id", kv_int(kv, "id", 0)); ev_params(p); if (kv_has(kv, "mayrefuse")) vt_int("mayrefuse", 1); if (kv_has(kv, "touched")) vt_int("touched", kv_int(kv, "touched", 0));
		vt_bytes("in", p->msg, n); vt_int("rc", rc); vt_int("cap", (long)cap); vt_bytes("out", out, rc == 1 ? ol : 0); vt_end();
	}
}

int main(int argc, char **argv)
{
	if (argc < 3) return 2;
	FILE *sf = fopen(argv[1], "r"); if (!sf) return 3;
	vt_open(argv[2]); ent_seed(12345);
	char *line = malloc(1 << 22);
	while (fgets(line, 1 << 22, sf)) {
		KV kv; kv_parse(&kv, line); if (!kv.n) continue;
		P p; memset(&p, 0, sizeof p);
		p.f = kv_str(&kv, "f", "ecb_enc"); p.api = kv_str(&kv, "api", "stream"); p.c = kv_str(&kv, "c", "sm4");
		p.key = kv_hex(&kv, "key", &p.keylen); p.iv = kv_hex(&kv, "iv", &p.ivlen); p.aad = kv_hex(&kv, "aad", &p.aadlen); p.mackey = kv_hex(&kv, "mackey", &p.mackeylen);
		p.msg = kv_hex(&kv, "msg", &p.msglen); p.seq = kv_hex(&kv, "seq", &p.seqlen); p.hdr3 = kv_hex(&kv, "hdr3", &p.hdr3len);
		p.taglen = kv_int(&kv, "taglen", 16); p.s = kv_int(&kv, "s", 16); p.unit = kv_int(&kv, "unit", 32); p.type = kv_int(&kv, "type", 23); p.padlen = kv_int(&kv, "padlen", 0);
		p.inplace = kv_int(&kv, "inplace", 0);
		if (!strcmp(p.api, "stream")) run_stream(&kv, &p); else run_oneshot(&kv, &p);
		vt_begin("Reset"); vt_end();
	}
	vt_close();
	return 0;
}
