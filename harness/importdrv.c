// C12 driver: every interface that imports a public key / curve point / private scalar from bytes.
// script line: path=<name> data=<hex> [aux=<hex>]   event: Import{path, rc, inf, x, y}  (x,y exported affine coordinates when accepted)
#define _GNU_SOURCE
#include <stdio.h>
#include <stdlib.h>
#include <string.h>
#include <gmssl/sm2.h>
#include <gmssl/sm9.h>
#include <gmssl/x509.h>
#include <gmssl/tls.h>
#include <gmssl/pem.h>
#include "vh.h"

static void out_point(const SM2_Z256_POINT *P, int rc)
{
	uint8_t xy[64] = {0}; int inf = 0;
	if (rc == 1) { inf = sm2_z256_point_is_at_infinity(P) == 1; if (!inf) sm2_z256_point_to_bytes(P, xy); }
	vt_int("rc", rc); vt_int("inf", inf); vt_bytes("x", xy, rc == 1 && !inf ? 32 : 0); vt_bytes("y", xy + 32, rc == 1 && !inf ? 32 : 0);
}

int main(int argc, char **argv)
{
	if (argc < 3) return 2;
	FILE *sf = fopen(argv[1], "r"); if (!sf) return 3;
	vt_open(argv[2]); ent_seed(77);
	char *line = malloc(1 << 20);
	uint8_t dfix[32]; memset(dfix, 0x5a, 32); dfix[0] = 0x12; sm2_z256_t dz; sm2_z256_from_bytes(dz, dfix); SM2_KEY mykey; sm2_key_set_private_key(&mykey, dz);
	while (fgets(line, 1 << 20, sf)) {
		KV kv; kv_parse(&kv, line); if (!kv.n) continue;
		const char *path = kv_str(&kv, "path", "raw64"); size_t n, an; uint8_t *d = kv_hex(&kv, "data", &n), *aux = kv_hex(&kv, "aux", &an);
		SM2_Z256_POINT P; SM2_KEY key; memset(&P, 0xAB, sizeof P); memset(&key, 0xAB, sizeof key); int rc = -99;
		vt_begin("Import"); vt_int("id", kv_int(&kv, "id", 0)); vt_str("path", path);
		if (!strcmp(path, "raw64")) { rc = n == 64 ? sm2_z256_point_from_bytes(&P, d) : -98; out_point(&P, rc); }
		else if (!strcmp(path, "octets")) { rc = n ? sm2_z256_point_from_octets(&P, d, n) : -98; out_point(&P, rc); }
		else if (!strcmp(path, "spki_der")) { const uint8_t *p = d; size_t l = n; rc = sm2_public_key_info_from_der(&key, &p, &l); if (rc == 1 && l) rc = -97; out_point(&key.public_key, rc); }
		else if (!strcmp(path, "spki_pem")) { FILE *fp = fmemopen(d, n, "r"); rc = sm2_public_key_info_from_pem(&key, fp); fclose(fp); out_point(&key.public_key, rc); }
		else if (!strcmp(path, "cert")) { rc = x509_cert_get_subject_public_key(d, n, &key); out_point(&key.public_key, rc); }
		else if (!strcmp(path, "ske")) { int curve; const uint8_t *sig; size_t siglen; rc = tls_record_get_handshake_server_key_exchange_ecdhe(d, &curve, &P, &sig, &siglen); out_point(&P, rc); }
		else if (!strcmp(path, "cke")) { rc = tls_record_get_handshake_client_key_exchange_ecdhe(d, &P); out_point(&P, rc); }
		else if (!strcmp(path, "ks13_server")) { rc = tls13_process_server_key_share(d, n, &P); out_point(&P, rc); }
		else if (!strcmp(path, "ecdh_peer")) { uint8_t sh[64]; rc = sm2_ecdh(&mykey, d, n, sh); vt_int("rc", rc); vt_int("inf", 0); vt_bytes("x", NULL, 0); vt_bytes("y", NULL, 0); vt_bytes("shared", sh, rc == 1 ? 64 : 0); }
		else if (!strcmp(path, "set_public_key")) { SM2_Z256_POINT Q; int r0 = n == 64 ? sm2_z256_point_from_bytes(&Q, d) : -98; rc = r0 == 1 ? sm2_key_set_public_key(&key, &Q) : r0; out_point(&key.public_key, rc); }
		else if (!strcmp(path, "scalar")) { sm2_z256_t z; sm2_z256_from_bytes(z, d); rc = sm2_key_set_private_key(&key, z); vt_int("rc", rc); vt_int("inf", 0); vt_bytes("x", NULL, 0); vt_bytes("y", NULL, 0); }
		else if (!strcmp(path, "ecprivkey_der")) { const uint8_t *p = d; size_t l = n; rc = sm2_private_key_from_der(&key, &p, &l); out_point(&key.public_key, rc); }
		else if (!strcmp(path, "pkcs8_der")) { const uint8_t *p = d, *at; size_t l = n, al; rc = sm2_private_key_info_from_der(&key, &at, &al, &p, &l); out_point(&key.public_key, rc); }
		else if (!strcmp(path, "compress_roundtrip")) {
			// data = 64 bytes of a valid point: compress, decompress, export
			uint8_t c[33]; SM2_Z256_POINT Q; rc = sm2_z256_point_from_bytes(&Q, d);
			if (rc == 1) rc = sm2_z256_point_to_compressed_octets(&Q, c);
			if (rc == 1) rc = sm2_z256_point_from_octets(&P, c, 33);
			out_point(&P, rc); if (rc == 1 || rc < 0) vt_bytes("comp", c, 33);
		}
		else if (!strcmp(path, "c1")) { uint8_t out[512]; size_t ol = 0; rc = sm2_decrypt(&mykey, d, n, out, &ol); vt_int("rc", rc); vt_int("inf", 0); vt_bytes("x", NULL, 0); vt_bytes("y", NULL, 0); vt_bytes("pt", out, rc == 1 ? ol : 0); }
		else if (!strcmp(path, "sm9_g1")) { SM9_Z256_POINT Q; rc = n == 65 ? sm9_z256_point_from_uncompressed_octets(&Q, d) : -98; uint8_t o[65] = {0}; if (rc == 1) sm9_z256_point_to_uncompressed_octets(&Q, o);
			vt_int("rc", rc); vt_int("inf", 0); vt_bytes("x", o + 1, rc == 1 ? 32 : 0); vt_bytes("y", o + 33, rc == 1 ? 32 : 0); }
		else if (!strcmp(path, "sm9_g2")) { SM9_Z256_TWIST_POINT Q; rc = n == 129 ? sm9_z256_twist_point_from_uncompressed_octets(&Q, d) : -98; uint8_t o[129] = {0}; if (rc == 1) sm9_z256_twist_point_to_uncompressed_octets(&Q, o);
			vt_int("rc", rc); vt_int("inf", 0); vt_bytes("x", o + 1, rc == 1 ? 64 : 0); vt_bytes("y", o + 65, rc == 1 ? 64 : 0); }
		else if (!strcmp(path, "sm9_sign_mpk_der")) { SM9_SIGN_MASTER_KEY mk; memset(&mk, 0, sizeof mk); const uint8_t *p = d; size_t l = n; rc = sm9_sign_master_public_key_from_der(&mk, &p, &l); if (rc == 1 && l) rc = -97;
			uint8_t o[129] = {0}; if (rc == 1) sm9_z256_twist_point_to_uncompressed_octets(&mk.Ppubs, o); vt_int("rc", rc); vt_int("inf", 0); vt_bytes("x", o + 1, rc == 1 ? 64 : 0); vt_bytes("y", o + 65, rc == 1 ? 64 : 0); }
		else if (!strcmp(path, "sm9_enc_mpk_der")) { SM9_ENC_MASTER_KEY mk; memset(&mk, 0, sizeof mk); const uint8_t *p = d; size_t l = n; rc = sm9_enc_master_public_key_from_der(&mk, &p, &l); if (rc == 1 && l) rc = -97;
			uint8_t o[65] = {0}; if (rc == 1) sm9_z256_point_to_uncompressed_octets(&mk.Ppube, o); vt_int("rc", rc); vt_int("inf", 0); vt_bytes("x", o + 1, rc == 1 ? 32 : 0); vt_bytes("y", o + 33, rc == 1 ? 32 : 0); }
		vt_end();
		vt_begin("Reset"); vt_end();
	}
	vt_close(); return 0;
}
