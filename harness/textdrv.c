// C14 driver (text codecs and composite objects).
// script: kind=b64enc data=<hex> chunks= | kind=b64dec text=<hex> chunks= | kind=hexdec text=<hex> | kind=pem data=<hex> maxlen=N
//         kind=pemtext text=<hex> maxlen=N | kind=composite obj=<name> seed=N | kind=pkcs8pass
#define _GNU_SOURCE
#include <stdio.h>
#include <stdlib.h>
#include <string.h>
#include <gmssl/base64.h>
#include <gmssl/hex.h>
#include <gmssl/pem.h>
#include <gmssl/sm2.h>
#include <gmssl/sm9.h>
#include <gmssl/x509.h>
#include <gmssl/asn1.h>
#include "vh.h"

static void fixed_key(SM2_KEY *k, uint8_t b) { uint8_t d[32]; memset(d, b, 32); d[0] = 0x21; sm2_z256_t z; sm2_z256_from_bytes(z, d); sm2_key_set_private_key(k, z); }

// composite objects: encode (dry run, then real), decode, re-encode; report lengths and byte equality
typedef int (*enc_fn)(void *obj, uint8_t **out, size_t *outlen);
static void composite(const char *name, uint8_t *der, size_t derlen, size_t dry, int rc_enc, int rc_dec, size_t left, const uint8_t *re, size_t relen, int same_value)
{
	vt_begin("V"); vt_str("kind", "composite"); vt_str("obj", name); vt_int("rcenc", rc_enc); vt_int("dry", (long)dry); vt_int("len", (long)derlen);
	vt_int("rcdec", rc_dec); vt_int("left", (long)left); vt_int("relen", (long)relen); vt_int("resame", relen == derlen && !memcmp(re, der, derlen)); vt_int("same", same_value);
	vt_bytes("der", der, derlen < 400 ? derlen : 400); vt_end(); vt_begin("Reset"); vt_end();
}

int main(int argc, char **argv)
{
	if (argc < 3) return 2;
	FILE *sf = fopen(argv[1], "r"); if (!sf) return 3;
	vt_open(argv[2]);
	char *line = malloc(1 << 20);
	while (fgets(line, 1 << 20, sf)) {
		KV kv; kv_parse(&kv, line); if (!kv.n) continue;
		const char *kind = kv_str(&kv, "kind", "b64enc"); size_t dn, tn; uint8_t *data = kv_hex(&kv, "data", &dn), *text = kv_hex(&kv, "text", &tn);
		long chunks[128]; int nch = kv_ints(&kv, "chunks", chunks, 128);
		if (!strcmp(kind, "b64enc")) {
			BASE64_CTX c; base64_encode_init(&c); uint8_t *out = malloc(dn * 2 + 200); int ol = 0, total = 0, rc = 1; size_t off = 0;
			for (int i = 0; i <= nch; i++) { size_t n = i < nch ? (size_t)chunks[i] : dn - off; if (off + n > dn) n = dn - off; if (!n) continue;
				if (base64_encode_update(&c, data + off, (int)n, out + total, &ol) != 1) { rc = -1; break; } total += ol; off += n; }
			if (rc == 1) { base64_encode_finish(&c, out + total, &ol); total += ol; }
			vt_begin("V"); vt_int("id", kv_int(&kv, "id", 0)); vt_str("kind", kind); vt_int("rc", rc); vt_bytes("text", out, (size_t)total); vt_end();
		} else if (!strcmp(kind, "b64dec")) {
			BASE64_CTX c; base64_decode_init(&c); size_t cap = tn / 4 * 3 + 8; uint8_t *out = vh_exact(cap + 64); int ol = 0, total = 0, rc = 1, ended = 0; size_t off = 0;
			for (int i = 0; i <= nch && rc == 1; i++) { size_t n = i < nch ? (size_t)chunks[i] : tn - off; if (off + n > tn) n = tn - off; if (!n) continue;
				uint8_t *in = vh_exact(n); memcpy(in, text + off, n);
				// 1 = more expected, 0 = end of content (padding) seen, -1 = error; base64.c leaves rejecting data after a 0 return to the caller, so this caller does
				if (ended) { for (size_t j = 0; j < n; j++) if (!strchr(" \t\r\n", in[j]) || !in[j]) rc = -1; if (rc != 1) break; }
				int r = base64_decode_update(&c, in, (int)n, out + total, &ol); if (r < 0) rc = -1; else { total += ol; if (r == 0) ended = 1; } off += n; }
			if (rc == 1) { if (base64_decode_finish(&c, out + total, &ol) != 1) rc = -1; else total += ol; }
			vt_begin("V"); vt_int("id", kv_int(&kv, "id", 0)); vt_str("kind", kind); vt_int("rc", rc); vt_int("cap", (long)cap); vt_bytes("out", out, rc == 1 ? (size_t)total : 0); vt_end();
		} else if (!strcmp(kind, "hexdec")) {
			uint8_t *out = vh_exact(tn / 2 + 1); size_t ol = 0; uint8_t *in = vh_exact(tn); memcpy(in, text, tn);
			int rc = hex_to_bytes((char *)in, tn, out, &ol);
			vt_begin("V"); vt_int("id", kv_int(&kv, "id", 0)); vt_str("kind", kind); vt_int("rc", rc); vt_bytes("out", out, rc == 1 ? ol : 0); vt_end();
		} else if (!strcmp(kind, "pem") || !strcmp(kind, "pemtext")) {
			size_t maxlen = (size_t)kv_int(&kv, "maxlen", 64); char *tbuf = NULL; size_t tlen = 0; int wrc = 1;
			if (!strcmp(kind, "pem")) { FILE *fp = open_memstream(&tbuf, &tlen); wrc = pem_write(fp, "TEST DATA", data, dn); fclose(fp); }
			else { tbuf = malloc(tn + 1); memcpy(tbuf, text, tn); tbuf[tn] = 0; tlen = tn; }
			// exact-size output buffer with a guard zone; count what was written beyond the declared capacity
			size_t guard = 4096; uint8_t *out = malloc(maxlen + guard); memset(out, 0xA5, maxlen + guard); size_t ol = 0;
			FILE *rf = fmemopen(tbuf, tlen ? tlen : 1, "r"); int rc = pem_read(rf, "TEST DATA", out, &ol, maxlen); fclose(rf);
			size_t written = 0; for (size_t i = 0; i < maxlen + guard; i++) if (out[i] != 0xA5) written = i + 1;
			// body = the text between the BEGIN and END lines
			const char *b = strstr(tbuf, "-----\n"); const char *e = strstr(tbuf, "-----END"); size_t bl = (b && e && e > b + 6) ? (size_t)(e - (b + 6)) : 0;
			vt_begin("V"); vt_int("id", kv_int(&kv, "id", 0)); vt_str("kind", kind); vt_int("wrc", wrc); vt_int("rc", rc); vt_int("maxlen", (long)maxlen); vt_int("written", (long)written);
			vt_bytes("body", (const uint8_t *)(b ? b + 6 : ""), bl); vt_bytes("out", out, rc == 1 && ol <= maxlen + guard ? ol : 0); vt_end();
		} else if (!strcmp(kind, "composite")) {
			const char *obj = kv_str(&kv, "obj", "sig"); ent_seed((uint64_t)kv_int(&kv, "seed", 1));
			SM2_KEY key; fixed_key(&key, (uint8_t)kv_int(&kv, "seed", 1)); uint8_t buf[4096], re[4096]; uint8_t *p; const uint8_t *cp; size_t len = 0, dry = 0, relen = 0, left; int r1, r2, same = 0;
			if (!strcmp(obj, "sig")) { SM2_SIGNATURE s, t; uint8_t dg[32] = {1}; sm2_do_sign(&key, dg, &s); p = NULL; r1 = sm2_signature_to_der(&s, &p, &dry); p = buf; if (r1 == 1) r1 = sm2_signature_to_der(&s, &p, &len);
				cp = buf; left = len; r2 = sm2_signature_from_der(&t, &cp, &left); same = !memcmp(&s, &t, sizeof s); p = re; sm2_signature_to_der(&t, &p, &relen); composite(obj, buf, len, dry, r1, r2, left, re, relen, same); }
			else if (!strcmp(obj, "ciphertext")) { SM2_CIPHERTEXT c, t; uint8_t m[40] = {9}; sm2_do_encrypt(&key, m, (size_t)(1 + kv_int(&kv, "seed", 1) % 40), &c); p = NULL; r1 = sm2_ciphertext_to_der(&c, &p, &dry); p = buf; if (r1 == 1) r1 = sm2_ciphertext_to_der(&c, &p, &len);
				cp = buf; left = len; memset(&t, 0, sizeof t); r2 = sm2_ciphertext_from_der(&t, &cp, &left); same = !memcmp(&c.point, &t.point, 64) && !memcmp(c.hash, t.hash, 32) && c.ciphertext_size == t.ciphertext_size && !memcmp(c.ciphertext, t.ciphertext, c.ciphertext_size);
				p = re; sm2_ciphertext_to_der(&t, &p, &relen); composite(obj, buf, len, dry, r1, r2, left, re, relen, same); }
			else if (!strcmp(obj, "pubkeyinfo")) { SM2_KEY t; p = NULL; r1 = sm2_public_key_info_to_der(&key, &p, &dry); p = buf; if (r1 == 1) r1 = sm2_public_key_info_to_der(&key, &p, &len);
				cp = buf; left = len; r2 = sm2_public_key_info_from_der(&t, &cp, &left); same = sm2_public_key_equ(&key, &t) == 1; p = re; sm2_public_key_info_to_der(&t, &p, &relen); composite(obj, buf, len, dry, r1, r2, left, re, relen, same); }
			else if (!strcmp(obj, "privkey")) { SM2_KEY t; p = NULL; r1 = sm2_private_key_to_der(&key, &p, &dry); p = buf; if (r1 == 1) r1 = sm2_private_key_to_der(&key, &p, &len);
				cp = buf; left = len; r2 = sm2_private_key_from_der(&t, &cp, &left); same = !memcmp(key.private_key, t.private_key, 32); p = re; sm2_private_key_to_der(&t, &p, &relen); composite(obj, buf, len, dry, r1, r2, left, re, relen, same); }
			else if (!strcmp(obj, "pkcs8")) { SM2_KEY t; const uint8_t *at; size_t al; p = NULL; r1 = sm2_private_key_info_to_der(&key, &p, &dry); p = buf; if (r1 == 1) r1 = sm2_private_key_info_to_der(&key, &p, &len);
				cp = buf; left = len; r2 = sm2_private_key_info_from_der(&t, &at, &al, &cp, &left); same = !memcmp(key.private_key, t.private_key, 32); p = re; sm2_private_key_info_to_der(&t, &p, &relen); composite(obj, buf, len, dry, r1, r2, left, re, relen, same); }
			else if (!strcmp(obj, "pkcs8enc")) { SM2_KEY t; const uint8_t *at; size_t al; p = NULL; r1 = sm2_private_key_info_encrypt_to_der(&key, "Passw0rd", &p, &dry); ent_seed((uint64_t)kv_int(&kv, "seed", 1)); p = buf; if (r1 == 1) r1 = sm2_private_key_info_encrypt_to_der(&key, "Passw0rd", &p, &len);
				cp = buf; left = len; r2 = sm2_private_key_info_decrypt_from_der(&t, &at, &al, "Passw0rd", &cp, &left); same = r2 == 1 && !memcmp(key.private_key, t.private_key, 32);
				// a wrong password never yields a key
				SM2_KEY w; cp = buf; size_t l2 = len; int r3 = sm2_private_key_info_decrypt_from_der(&w, &at, &al, "Passw0re", &cp, &l2); int r4; cp = buf; l2 = len; r4 = sm2_private_key_info_decrypt_from_der(&w, &at, &al, "", &cp, &l2);
				memcpy(re, buf, len); relen = len; composite(obj, buf, len, dry, r1, r2, left, re, relen, same && r3 != 1 && r4 != 1); }
			else if (!strcmp(obj, "ctder") || !strcmp(obj, "sigder")) {      // a DER value from the script: decode into an exact-size object, re-encode, compare
				const uint8_t *in = vh_exact(dn); memcpy((uint8_t *)in, data, dn); cp = in; left = dn; size_t osz = !strcmp(obj, "ctder") ? sizeof(SM2_CIPHERTEXT) : sizeof(SM2_SIGNATURE); void *o = vh_exact(osz); memset(o, 0, osz);
				r2 = !strcmp(obj, "ctder") ? sm2_ciphertext_from_der(o, &cp, &left) : sm2_signature_from_der(o, &cp, &left); p = re; relen = 0;
				if (r2 == 1) { if (!strcmp(obj, "ctder")) sm2_ciphertext_to_der(o, &p, &relen); else sm2_signature_to_der(o, &p, &relen); }
				composite(obj, (uint8_t *)in, dn, dn, 1, r2, left, re, relen, 1); }
			else if (!strncmp(obj, "sm9", 3)) {
				// SM9 master and user keys; `lead` zero octets at the top of the master secret (the INTEGER then has fewer than 32 octets)
				long lead = kv_int(&kv, "lead", 0); uint8_t ksb[32]; for (int i = 0; i < 32; i++) ksb[i] = i < lead ? 0 : (uint8_t)(0x11 + i * 7 + kv_int(&kv, "seed", 1)); if (lead < 32) ksb[lead] |= 0x01;
				if (!strcmp(obj, "sm9signmaster")) { SM9_SIGN_MASTER_KEY m, t; memset(&m, 0, sizeof m); sm9_z256_from_bytes(m.ks, ksb); sm9_z256_twist_point_mul_generator(&m.Ppubs, m.ks);
					p = NULL; r1 = sm9_sign_master_key_to_der(&m, &p, &dry); p = buf; if (r1 == 1) r1 = sm9_sign_master_key_to_der(&m, &p, &len); cp = buf; left = len; memset(&t, 0, sizeof t); r2 = sm9_sign_master_key_from_der(&t, &cp, &left);
					same = r2 == 1 && !memcmp(m.ks, t.ks, 32); p = re; if (r2 == 1) sm9_sign_master_key_to_der(&t, &p, &relen); composite(obj, buf, len, dry, r1, r2, left, re, relen, same); }
				else if (!strcmp(obj, "sm9encmaster")) { SM9_ENC_MASTER_KEY m, t; memset(&m, 0, sizeof m); sm9_z256_from_bytes(m.ke, ksb); sm9_z256_point_mul_generator(&m.Ppube, m.ke);
					p = NULL; r1 = sm9_enc_master_key_to_der(&m, &p, &dry); p = buf; if (r1 == 1) r1 = sm9_enc_master_key_to_der(&m, &p, &len); cp = buf; left = len; memset(&t, 0, sizeof t); r2 = sm9_enc_master_key_from_der(&t, &cp, &left);
					same = r2 == 1 && !memcmp(m.ke, t.ke, 32); p = re; if (r2 == 1) sm9_enc_master_key_to_der(&t, &p, &relen); composite(obj, buf, len, dry, r1, r2, left, re, relen, same); }
				else if (!strcmp(obj, "sm9signkey")) { SM9_SIGN_MASTER_KEY m; SM9_SIGN_KEY k, t; memset(&m, 0, sizeof m); sm9_z256_from_bytes(m.ks, ksb); sm9_z256_twist_point_mul_generator(&m.Ppubs, m.ks); r1 = sm9_sign_master_key_extract_key(&m, "Alice", 5, &k);
					p = NULL; if (r1 == 1) r1 = sm9_sign_key_to_der(&k, &p, &dry); p = buf; if (r1 == 1) r1 = sm9_sign_key_to_der(&k, &p, &len); cp = buf; left = len; memset(&t, 0, sizeof t); r2 = sm9_sign_key_from_der(&t, &cp, &left);
					same = r2 == 1 && sm9_z256_point_equ(&k.ds, &t.ds) == 1; p = re; if (r2 == 1) sm9_sign_key_to_der(&t, &p, &relen); composite(obj, buf, len, dry, r1, r2, left, re, relen, same); }
				else { SM9_ENC_MASTER_KEY m; SM9_ENC_KEY k, t; memset(&m, 0, sizeof m); sm9_z256_from_bytes(m.ke, ksb); sm9_z256_point_mul_generator(&m.Ppube, m.ke); r1 = sm9_enc_master_key_extract_key(&m, "Bob", 3, &k);
					p = NULL; if (r1 == 1) r1 = sm9_enc_key_to_der(&k, &p, &dry); p = buf; if (r1 == 1) r1 = sm9_enc_key_to_der(&k, &p, &len); cp = buf; left = len; memset(&t, 0, sizeof t); r2 = sm9_enc_key_from_der(&t, &cp, &left);
					same = r2 == 1 && sm9_z256_twist_point_equ(&k.de, &t.de) == 1; p = re; if (r2 == 1) sm9_enc_key_to_der(&t, &p, &relen); composite(obj, buf, len, dry, r1, r2, left, re, relen, same); }
			}
			else if (!strcmp(obj, "name")) { uint8_t nm[512]; size_t nl = 0; r1 = x509_name_set(nm, &nl, sizeof nm, "CN", "Beijing", "Haidian", "PKU", "CS", "Alice"); p = NULL; dry = 0; x509_name_to_der(nm, nl, &p, &dry); p = buf; len = 0; if (r1 == 1) r1 = x509_name_to_der(nm, nl, &p, &len);
				const uint8_t *d2; size_t d2l; cp = buf; left = len; r2 = x509_name_from_der(&d2, &d2l, &cp, &left); same = r2 == 1 && d2l == nl && !memcmp(d2, nm, nl); p = re; if (r2 == 1) x509_name_to_der(d2, d2l, &p, &relen); composite(obj, buf, len, dry, r1, r2, left, re, relen, same); }
			continue;
		}
		vt_begin("Reset"); vt_end();
	}
	vt_close(); return 0;
}
