// C17 driver: the SM9 arithmetic layer (Fp, Fn, Fp2, Fp4, Fp12, G1, G2, pairing) and the SM9 schemes.
// script: op=<name> a=<hex> b=<hex> c=<hex> k=<32B hex> P=<65B octets|-> Q=<129B octets|-> id= idb= msg= sig= ct= ks= hid= klen=
// values of the tower are given and returned in the library's byte serialisation (ordinary, not Montgomery, representation)
#define _GNU_SOURCE
#include <stdio.h>
#include <stdlib.h>
#include <string.h>
#include <gmssl/sm9.h>
#include <gmssl/sm9_z256.h>
#include <gmssl/sm3.h>
#include "vh.h"

static void setpt(SM9_Z256_POINT *P, const uint8_t *b, size_t n, int *bad) { if (n == 65) { if (sm9_z256_point_from_uncompressed_octets(P, b) != 1) *bad = 1; } else sm9_z256_point_set_infinity(P); }
static void settw(SM9_Z256_TWIST_POINT *P, const uint8_t *b, size_t n, int *bad) { if (n == 129) { if (sm9_z256_twist_point_from_uncompressed_octets(P, b) != 1) *bad = 1; } else sm9_z256_twist_point_set_infinity(P); }
// another Jacobian representative of the same point: (X l^2, Y l^3, Z l) for a non-zero field element l given by the script (lamP / lamQ)
static void rescale_pt(SM9_Z256_POINT *P, const uint8_t *l32, size_t n) { if (n != 32 || sm9_z256_point_is_at_infinity(P) == 1) return; sm9_z256_t l, l2, l3; sm9_z256_from_bytes(l, l32); sm9_z256_modp_to_mont(l, l);
	sm9_z256_modp_mont_mul(l2, l, l); sm9_z256_modp_mont_mul(l3, l2, l); sm9_z256_modp_mont_mul(P->X, P->X, l2); sm9_z256_modp_mont_mul(P->Y, P->Y, l3); sm9_z256_modp_mont_mul(P->Z, P->Z, l); }
static void rescale_tw(SM9_Z256_TWIST_POINT *P, const uint8_t *l64, size_t n) { if (n != 64 || sm9_z256_twist_point_is_at_infinity(P) == 1) return; sm9_z256_fp2_t l, l2, l3; if (sm9_z256_fp2_from_bytes(l, l64) != 1) return;
	sm9_z256_fp2_sqr(l2, l); sm9_z256_fp2_mul(l3, l2, l); sm9_z256_fp2_mul(P->X, P->X, l2); sm9_z256_fp2_mul(P->Y, P->Y, l3); sm9_z256_fp2_mul(P->Z, P->Z, l); }
static void outpt(const SM9_Z256_POINT *R) { uint8_t o[65]; int inf = sm9_z256_point_is_at_infinity(R) == 1; vt_int("inf", inf); if (!inf) sm9_z256_point_to_uncompressed_octets(R, o); vt_hex("r", o, inf ? 0 : 65); }
static void outtw(const SM9_Z256_TWIST_POINT *R) { uint8_t o[129]; int inf = sm9_z256_twist_point_is_at_infinity(R) == 1; vt_int("inf", inf); if (!inf) sm9_z256_twist_point_to_uncompressed_octets(R, o); vt_hex("r", o, inf ? 0 : 129); }
static int sign_master(SM9_SIGN_MASTER_KEY *m, const uint8_t *ks) { sm9_z256_from_bytes(m->ks, ks); sm9_z256_twist_point_mul_generator(&m->Ppubs, m->ks); return 1; }
static int enc_master(SM9_ENC_MASTER_KEY *m, const uint8_t *ke) { sm9_z256_from_bytes(m->ke, ke); sm9_z256_point_mul_generator(&m->Ppube, m->ke); return 1; }

int main(int argc, char **argv)
{
	if (argc < 3) return 2;
	FILE *sf = fopen(argv[1], "r"); if (!sf) return 3;
	vt_open(argv[2]);
	char *line = malloc(1 << 16);
	while (fgets(line, 1 << 16, sf)) {
		KV kv; kv_parse(&kv, line); if (!kv.n) continue;
		const char *op = kv_str(&kv, "op", "add"); ent_seed((uint64_t)kv_int(&kv, "seed", 17));
		size_t al, bl, cl, kl, pl, ql, p2l, q2l, idl, idbl, ml, sl, ctl, ksl;
		uint8_t *ab = kv_hex(&kv, "a", &al), *bb = kv_hex(&kv, "b", &bl), *cb = kv_hex(&kv, "c", &cl), *kb = kv_hex(&kv, "k", &kl), *Pb = kv_hex(&kv, "P", &pl), *Qb = kv_hex(&kv, "Q", &ql),
			*P2b = kv_hex(&kv, "P2", &p2l), *Q2b = kv_hex(&kv, "Q2", &q2l), *id = kv_hex(&kv, "ident", &idl), *idb = kv_hex(&kv, "idb", &idbl), *msg = kv_hex(&kv, "msg", &ml), *sigb = kv_hex(&kv, "sig", &sl),
			*ctb = kv_hex(&kv, "ct", &ctl), *ksb = kv_hex(&kv, "ks", &ksl);
		(void)cb; (void)cl;
		vt_begin("S9"); vt_int("id", kv_int(&kv, "id", 0)); vt_str("op", op);
		uint8_t out[384]; long c = 0; int bad = 0;
		if (!strncmp(op, "z_", 2) || !strncmp(op, "modp_", 5) || !strncmp(op, "modn_", 5)) {
			sm9_z256_t a = {0}, b = {0}, r = {0}; if (al == 32) sm9_z256_from_bytes(a, ab); if (bl == 32) sm9_z256_from_bytes(b, bb); size_t outl = 32;
			if (!strcmp(op, "z_add")) c = (long)sm9_z256_add(r, a, b); else if (!strcmp(op, "z_sub")) c = (long)sm9_z256_sub(r, a, b);
			else if (!strcmp(op, "z_mul")) { uint64_t m[8]; sm9_z256_mul(m, a, b); sm9_z256_to_bytes(m + 4, out); sm9_z256_to_bytes(m, out + 32); outl = 64; }
			else if (!strcmp(op, "z_cmp")) { c = sm9_z256_cmp(a, b); outl = 0; }
			else if (!strcmp(op, "modp_add")) sm9_z256_modp_add(r, a, b); else if (!strcmp(op, "modp_sub")) sm9_z256_modp_sub(r, a, b);
			else if (!strcmp(op, "modp_dbl")) sm9_z256_modp_dbl(r, a); else if (!strcmp(op, "modp_tri")) sm9_z256_modp_tri(r, a);
			else if (!strcmp(op, "modp_haf")) sm9_z256_modp_haf(r, a); else if (!strcmp(op, "modp_neg")) sm9_z256_modp_neg(r, a);
			else if (!strcmp(op, "modp_to_mont")) sm9_z256_modp_to_mont(r, a); else if (!strcmp(op, "modp_from_mont")) sm9_z256_modp_from_mont(r, a);
			else if (!strcmp(op, "modp_mont_mul")) sm9_z256_modp_mont_mul(r, a, b); else if (!strcmp(op, "modp_mont_sqr")) sm9_z256_modp_mont_sqr(r, a);
			else if (!strcmp(op, "modp_mont_pow")) sm9_z256_modp_mont_pow(r, a, b); else if (!strcmp(op, "modp_mont_inv")) sm9_z256_modp_mont_inv(r, a);
			else if (!strcmp(op, "modn_add")) sm9_z256_modn_add(r, a, b); else if (!strcmp(op, "modn_sub")) sm9_z256_modn_sub(r, a, b);
			else if (!strcmp(op, "modn_mul")) sm9_z256_modn_mul(r, a, b); else if (!strcmp(op, "modn_pow")) sm9_z256_modn_pow(r, a, b);
			else if (!strcmp(op, "modn_inv")) sm9_z256_modn_inv(r, a);
			else if (!strcmp(op, "modn_from_hash")) { uint8_t ha[40] = {0}; memcpy(ha, ab, al < 40 ? al : 40); sm9_z256_modn_from_hash(r, ha); }
			else bad = 2;
			if (outl == 32) sm9_z256_to_bytes(r, out);
			vt_int("c", c); vt_hex("r", out, outl);
		} else if (!strncmp(op, "fp2_", 4)) {
			sm9_z256_fp2_t a, b, r; sm9_z256_t k; sm9_z256_fp2_set_zero(a); sm9_z256_fp2_set_zero(b); sm9_z256_fp2_set_zero(r);
			if (al == 64 && sm9_z256_fp2_from_bytes(a, ab) != 1) bad = 1; if (bl == 64 && sm9_z256_fp2_from_bytes(b, bb) != 1) bad = 1;
			if (kl == 32) { sm9_z256_from_bytes(k, kb); sm9_z256_modp_to_mont(k, k); }
			const char *o = op + 4;
			if (bad) ; else if (!strcmp(o, "add")) sm9_z256_fp2_add(r, a, b); else if (!strcmp(o, "dbl")) sm9_z256_fp2_dbl(r, a); else if (!strcmp(o, "tri")) sm9_z256_fp2_tri(r, a);
			else if (!strcmp(o, "sub")) sm9_z256_fp2_sub(r, a, b); else if (!strcmp(o, "neg")) sm9_z256_fp2_neg(r, a); else if (!strcmp(o, "a_mul_u")) sm9_z256_fp2_a_mul_u(r, a);
			else if (!strcmp(o, "mul")) sm9_z256_fp2_mul(r, a, b); else if (!strcmp(o, "mul_u")) sm9_z256_fp2_mul_u(r, a, b); else if (!strcmp(o, "mul_fp")) sm9_z256_fp2_mul_fp(r, a, k);
			else if (!strcmp(o, "sqr")) sm9_z256_fp2_sqr(r, a); else if (!strcmp(o, "sqr_u")) sm9_z256_fp2_sqr_u(r, a); else if (!strcmp(o, "inv")) sm9_z256_fp2_inv(r, a);
			else if (!strcmp(o, "div")) sm9_z256_fp2_div(r, a, b); else if (!strcmp(o, "haf")) sm9_z256_fp2_haf(r, a); else if (!strcmp(o, "conjugate")) sm9_z256_fp2_conjugate(r, a);
			else if (!strcmp(o, "frobenius")) sm9_z256_fp2_frobenius(r, a);
			else if (!strcmp(o, "inplace_mul")) { sm9_z256_fp2_copy(r, a); sm9_z256_fp2_mul(r, r, b); } else if (!strcmp(o, "inplace_sqr")) { sm9_z256_fp2_copy(r, a); sm9_z256_fp2_sqr(r, r); }
			else if (!strcmp(o, "is_one")) { c = sm9_z256_fp2_is_one(a); } else if (!strcmp(o, "is_zero")) { c = sm9_z256_fp2_is_zero(a); } else if (!strcmp(o, "equ")) { c = sm9_z256_fp2_equ(a, b); }
			else bad = 2;
			sm9_z256_fp2_to_bytes(r, out); vt_int("c", c); vt_hex("r", out, 64);
		} else if (!strncmp(op, "fp4_", 4)) {
			sm9_z256_fp4_t a, b, r; sm9_z256_fp2_t b2; sm9_z256_t k; memset(a, 0, sizeof a); memset(b, 0, sizeof b); memset(r, 0, sizeof r); memset(b2, 0, sizeof b2);
			if (al == 128 && sm9_z256_fp4_from_bytes(a, ab) != 1) bad = 1; if (bl == 128 && sm9_z256_fp4_from_bytes(b, bb) != 1) bad = 1; if (bl == 64 && sm9_z256_fp2_from_bytes(b2, bb) != 1) bad = 1;
			if (kl == 32) { sm9_z256_from_bytes(k, kb); sm9_z256_modp_to_mont(k, k); }
			const char *o = op + 4;
			if (bad) ; else if (!strcmp(o, "add")) sm9_z256_fp4_add(r, a, b); else if (!strcmp(o, "dbl")) sm9_z256_fp4_dbl(r, a); else if (!strcmp(o, "sub")) sm9_z256_fp4_sub(r, a, b);
			else if (!strcmp(o, "neg")) sm9_z256_fp4_neg(r, a); else if (!strcmp(o, "haf")) sm9_z256_fp4_haf(r, a); else if (!strcmp(o, "a_mul_v")) sm9_z256_fp4_a_mul_v(r, a);
			else if (!strcmp(o, "mul")) sm9_z256_fp4_mul(r, a, b); else if (!strcmp(o, "mul_fp")) sm9_z256_fp4_mul_fp(r, a, k); else if (!strcmp(o, "mul_fp2")) sm9_z256_fp4_mul_fp2(r, a, b2);
			else if (!strcmp(o, "mul_v")) sm9_z256_fp4_mul_v(r, a, b); else if (!strcmp(o, "sqr")) sm9_z256_fp4_sqr(r, a); else if (!strcmp(o, "sqr_v")) sm9_z256_fp4_sqr_v(r, a);
			else if (!strcmp(o, "inv")) sm9_z256_fp4_inv(r, a); else if (!strcmp(o, "frobenius")) sm9_z256_fp4_frobenius(r, a); else if (!strcmp(o, "conjugate")) sm9_z256_fp4_conjugate(r, a);
			else if (!strcmp(o, "frobenius2")) sm9_z256_fp4_frobenius2(r, a); else if (!strcmp(o, "frobenius3")) sm9_z256_fp4_frobenius3(r, a);
			else if (!strcmp(o, "inplace_mul")) { sm9_z256_fp4_copy(r, a); sm9_z256_fp4_mul(r, r, b); } else if (!strcmp(o, "inplace_sqr")) { sm9_z256_fp4_copy(r, a); sm9_z256_fp4_sqr(r, r); }
			else bad = 2;
			sm9_z256_fp4_to_bytes(r, out); vt_int("c", c); vt_hex("r", out, 128);
		} else if (!strncmp(op, "fp12_", 5)) {
			sm9_z256_fp12_t a, b, r; sm9_z256_t k = {0}; sm9_z256_fp12_set_zero(a); sm9_z256_fp12_set_zero(b); sm9_z256_fp12_set_zero(r);
			if (al == 384 && sm9_z256_fp12_from_bytes(a, ab) != 1) bad = 1; if (bl == 384 && sm9_z256_fp12_from_bytes(b, bb) != 1) bad = 1;
			if (kl == 32) sm9_z256_from_bytes(k, kb);
			const char *o = op + 5;
			if (bad) ; else if (!strcmp(o, "add")) sm9_z256_fp12_add(r, a, b); else if (!strcmp(o, "dbl")) sm9_z256_fp12_dbl(r, a); else if (!strcmp(o, "tri")) sm9_z256_fp12_tri(r, a);
			else if (!strcmp(o, "sub")) sm9_z256_fp12_sub(r, a, b); else if (!strcmp(o, "neg")) sm9_z256_fp12_neg(r, a); else if (!strcmp(o, "mul")) sm9_z256_fp12_mul(r, a, b);
			else if (!strcmp(o, "sqr")) sm9_z256_fp12_sqr(r, a); else if (!strcmp(o, "inv")) sm9_z256_fp12_inv(r, a); else if (!strcmp(o, "pow")) sm9_z256_fp12_pow(r, a, k);
			else if (!strcmp(o, "frobenius")) sm9_z256_fp12_frobenius(r, a); else if (!strcmp(o, "frobenius2")) sm9_z256_fp12_frobenius2(r, a);
			else if (!strcmp(o, "frobenius3")) sm9_z256_fp12_frobenius3(r, a); else if (!strcmp(o, "frobenius6")) sm9_z256_fp12_frobenius6(r, a);
			else if (!strcmp(o, "inplace_mul")) { sm9_z256_fp12_copy(r, a); sm9_z256_fp12_mul(r, r, b); } else if (!strcmp(o, "inplace_sqr")) { sm9_z256_fp12_copy(r, a); sm9_z256_fp12_sqr(r, r); }
			else bad = 2;
			sm9_z256_fp12_to_bytes(r, out); vt_int("c", c); vt_hex("r", out, 384);
		} else if (!strncmp(op, "point_", 6)) {
			SM9_Z256_POINT P, Q, R; sm9_z256_t k = {0}; setpt(&P, Pb, pl, &bad); setpt(&Q, Qb, ql, &bad); sm9_z256_point_set_infinity(&R); if (kl == 32) sm9_z256_from_bytes(k, kb);
			{ size_t ll; uint8_t *lp = kv_hex(&kv, "lamP", &ll); if (!bad && lp) rescale_pt(&P, lp, ll); lp = kv_hex(&kv, "lamQ", &ll); if (!bad && lp) rescale_pt(&Q, lp, ll); }
			const char *o = op + 6; int haspt = 1;
			if (bad) ; else if (!strcmp(o, "dbl")) sm9_z256_point_dbl(&R, &P); else if (!strcmp(o, "neg")) sm9_z256_point_neg(&R, &P); else if (!strcmp(o, "add")) sm9_z256_point_add(&R, &P, &Q);
			else if (!strcmp(o, "sub")) sm9_z256_point_sub(&R, &P, &Q); else if (!strcmp(o, "mul")) sm9_z256_point_mul(&R, k, &P); else if (!strcmp(o, "mul_generator")) sm9_z256_point_mul_generator(&R, k);
			else if (!strcmp(o, "add_jac")) { SM9_Z256_POINT T; sm9_z256_point_dbl(&T, &P); sm9_z256_point_add(&R, &T, &Q); /* first operand not normalised: 2P + Q */ }
			else if (!strcmp(o, "is_on_curve")) { c = sm9_z256_point_is_on_curve(&P); haspt = 0; } else if (!strcmp(o, "equ")) { c = sm9_z256_point_equ(&P, &Q); haspt = 0; }
			else if (!strcmp(o, "from_octets")) { c = sm9_z256_point_from_uncompressed_octets(&R, ab); haspt = 0; }
			else bad = 2;
			vt_int("c", c); if (haspt && !bad) outpt(&R);
		} else if (!strncmp(op, "twist_", 6)) {
			SM9_Z256_TWIST_POINT P, Q, R; sm9_z256_t k = {0}; settw(&P, Pb, pl, &bad); settw(&Q, Qb, ql, &bad); sm9_z256_twist_point_set_infinity(&R); if (kl == 32) sm9_z256_from_bytes(k, kb);
			{ size_t ll; uint8_t *lp = kv_hex(&kv, "lamP", &ll); if (!bad && lp) rescale_tw(&P, lp, ll); lp = kv_hex(&kv, "lamQ", &ll); if (!bad && lp) rescale_tw(&Q, lp, ll); }
			const char *o = op + 6; int haspt = 1;
			if (bad) ; else if (!strcmp(o, "dbl")) sm9_z256_twist_point_dbl(&R, &P); else if (!strcmp(o, "neg")) sm9_z256_twist_point_neg(&R, &P); else if (!strcmp(o, "add")) sm9_z256_twist_point_add(&R, &P, &Q);
			else if (!strcmp(o, "sub")) sm9_z256_twist_point_sub(&R, &P, &Q); else if (!strcmp(o, "add_full")) sm9_z256_twist_point_add_full(&R, &P, &Q);
			else if (!strcmp(o, "mul")) sm9_z256_twist_point_mul(&R, k, &P); else if (!strcmp(o, "mul_generator")) sm9_z256_twist_point_mul_generator(&R, k);
			else if (!strcmp(o, "is_on_curve")) { c = sm9_z256_twist_point_is_on_curve(&P); haspt = 0; } else if (!strcmp(o, "equ")) { c = sm9_z256_twist_point_equ(&P, &Q); haspt = 0; }
			else if (!strcmp(o, "from_octets")) { c = sm9_z256_twist_point_from_uncompressed_octets(&R, ab); haspt = 0; }
			else bad = 2;
			vt_int("c", c); if (haspt && !bad) outtw(&R);
		} else if (!strcmp(op, "pairing")) {
			SM9_Z256_TWIST_POINT Q; SM9_Z256_POINT P; sm9_z256_fp12_t r; settw(&Q, Qb, ql, &bad); setpt(&P, Pb, pl, &bad);
			if (!bad) { sm9_z256_pairing(r, &Q, &P); sm9_z256_fp12_to_bytes(r, out); vt_hex("r", out, 384); }
		} else if (!strcmp(op, "bilinear")) {
			// e([a]P, [b]Q) and e(P, Q)^(ab) computed by the library's own routes; also e(P,Q)^N
			SM9_Z256_TWIST_POINT Q, bQ; SM9_Z256_POINT P, aP; sm9_z256_fp12_t e1, e2, e3; sm9_z256_t a, b, ab2; settw(&Q, Qb, ql, &bad); setpt(&P, Pb, pl, &bad);
			sm9_z256_from_bytes(a, ab); sm9_z256_from_bytes(b, bb);
			if (!bad) {
				sm9_z256_point_mul(&aP, a, &P); sm9_z256_twist_point_mul(&bQ, b, &Q); sm9_z256_pairing(e1, &bQ, &aP); sm9_z256_pairing(e2, &Q, &P); sm9_z256_modn_mul(ab2, a, b);
				sm9_z256_fp12_pow(e3, e2, ab2); sm9_z256_fp12_to_bytes(e1, out); vt_hex("lhs", out, 384); sm9_z256_fp12_to_bytes(e3, out); vt_hex("rhs", out, 384); sm9_z256_fp12_to_bytes(e2, out); vt_hex("base", out, 384);
				{ sm9_z256_t two = {2, 0, 0, 0}, nm2; sm9_z256_sub(nm2, sm9_z256_order(), two); sm9_z256_fp12_pow(e3, e2, nm2); sm9_z256_fp12_mul(e3, e3, e2); sm9_z256_fp12_mul(e3, e3, e2); /* e^(N-2) e e: the exponent of fp12_pow must stay below N-1 */ }
				sm9_z256_fp12_to_bytes(e3, out); vt_hex("tothen", out, 384);
			}
		} else if (!strcmp(op, "hash1")) {
			sm9_z256_t h; c = sm9_z256_hash1(h, (char *)id, idl, (uint8_t)kv_int(&kv, "hid", 1)); sm9_z256_to_bytes(h, out); vt_int("c", c); vt_hex("r", out, 32);
		} else if (!strcmp(op, "sign_extract") || !strcmp(op, "sign")) {
			SM9_SIGN_MASTER_KEY m; SM9_SIGN_KEY key; sign_master(&m, ksb); int rc = sm9_sign_master_key_extract_key(&m, (char *)id, idl, &key);
			uint8_t o2[129]; sm9_z256_twist_point_to_uncompressed_octets(&m.Ppubs, o2); vt_hex("ppub", o2, 129); vt_int("xrc", rc);
			if (rc == 1) { uint8_t o1[65]; sm9_z256_point_to_uncompressed_octets(&key.ds, o1); vt_hex("ds", o1, 65); }
			if (rc == 1 && !strcmp(op, "sign")) {
				SM9_SIGN_CTX ctx; uint8_t sig[SM9_SIGNATURE_SIZE + 32]; size_t siglen = 0; int r1 = sm9_sign_init(&ctx); long chunk = kv_int(&kv, "chunk", 0);
				if (r1 == 1) { if (chunk > 0 && (size_t)chunk < ml) { r1 = sm9_sign_update(&ctx, msg, (size_t)chunk); if (r1 == 1) r1 = sm9_sign_update(&ctx, msg + chunk, ml - (size_t)chunk); } else r1 = sm9_sign_update(&ctx, msg, ml); }
				if (r1 == 1) r1 = sm9_sign_finish(&ctx, &key, sig, &siglen);
				vt_int("rc", r1); vt_hex("sig", sig, r1 == 1 ? siglen : 0);
			}
		} else if (!strcmp(op, "verify")) {
			SM9_SIGN_MASTER_KEY m; memset(&m, 0, sizeof m); if (ksl == 32) sign_master(&m, ksb); else settw(&m.Ppubs, Qb, ql, &bad);
			SM9_SIGN_CTX ctx; int r1 = sm9_verify_init(&ctx); if (r1 == 1) r1 = sm9_verify_update(&ctx, msg, ml);
			if (r1 == 1 && !bad) r1 = sm9_verify_finish(&ctx, sigb, sl, &m, (char *)id, idl);
			vt_int("rc", r1);
		} else if (!strcmp(op, "enc_extract") || !strcmp(op, "encrypt") || !strcmp(op, "decrypt") || !strcmp(op, "exch_extract")) {
			SM9_ENC_MASTER_KEY m; SM9_ENC_KEY key; enc_master(&m, ksb); uint8_t o1[65]; sm9_z256_point_to_uncompressed_octets(&m.Ppube, o1); vt_hex("ppub", o1, 65);
			if (!strcmp(op, "encrypt")) { uint8_t ct[SM9_MAX_CIPHERTEXT_SIZE + 64]; size_t ctlen = 0; int rc = sm9_encrypt(&m, (char *)id, idl, msg, ml, ct, &ctlen); vt_int("rc", rc); vt_hex("ct", ct, rc == 1 ? ctlen : 0); }
			else {
				int rc = !strcmp(op, "exch_extract") ? sm9_exch_master_key_extract_key(&m, (char *)id, idl, &key) : sm9_enc_master_key_extract_key(&m, (char *)id, idl, &key); vt_int("xrc", rc);
				if (rc == 1) { uint8_t o2[129]; sm9_z256_twist_point_to_uncompressed_octets(&key.de, o2); vt_hex("de", o2, 129); }
				if (rc == 1 && !strcmp(op, "decrypt")) { uint8_t pt[512]; size_t ptl = 0; const char *did = idbl ? (char *)idb : (char *)id; size_t didl = idbl ? idbl : idl;
					int r1 = sm9_decrypt(&key, did, didl, ctb, ctl, pt, &ptl); vt_int("rc", r1); vt_hex("out", pt, r1 == 1 ? ptl : 0); }
			}
		} else if (!strcmp(op, "kemloop") || !strcmp(op, "exchloop")) {
			// many encapsulations / exchanges with a ONE-octet key: about one in 256 of them has to draw a second nonce (an all-zero key is not output), and the
			// retry must produce a pair the other side still agrees with
			SM9_ENC_MASTER_KEY m; SM9_ENC_KEY key, keyA; enc_master(&m, ksb); long trials = kv_int(&kv, "trials", 1000), agree = 0, rcbad = 0, first = -1; size_t klen = (size_t)kv_int(&kv, "klen", 1);
			int kem = !strcmp(op, "kemloop");
			int xr = kem ? sm9_enc_master_key_extract_key(&m, (char *)id, idl, &key) : sm9_exch_master_key_extract_key((SM9_EXCH_MASTER_KEY *)&m, (char *)idb, idbl, (SM9_EXCH_KEY *)&key);
			if (!kem && xr == 1) xr = sm9_exch_master_key_extract_key((SM9_EXCH_MASTER_KEY *)&m, (char *)id, idl, (SM9_EXCH_KEY *)&keyA);
			vt_int("xrc", xr);
			for (long i = kv_int(&kv, "start", 0); xr == 1 && i < kv_int(&kv, "start", 0) + trials; i++) {
				ent_seed((uint64_t)(kv_int(&kv, "seed", 1) * 100003 + i)); uint8_t k1[64] = {0}, k2[64] = {0}; int ok = 0;
				if (kem) { SM9_Z256_POINT C; int r1 = sm9_kem_encrypt(&m, (char *)id, idl, klen, k1, &C); int r2 = r1 == 1 ? sm9_kem_decrypt(&key, (char *)id, idl, &C, klen, k2) : -1; if (r1 != 1 || r2 != 1) rcbad++; else ok = !memcmp(k1, k2, klen); }
				else { SM9_Z256_POINT RA, RB; sm9_z256_t rA; int r1 = sm9_exch_step_1A((SM9_EXCH_MASTER_KEY *)&m, (char *)idb, idbl, &RA, rA);
					int r2 = r1 == 1 ? sm9_exch_step_1B((SM9_EXCH_MASTER_KEY *)&m, (char *)id, idl, (char *)idb, idbl, (SM9_EXCH_KEY *)&key, &RA, &RB, k2, klen) : -1;
					int r3 = r2 == 1 ? sm9_exch_step_2A((SM9_EXCH_MASTER_KEY *)&m, (char *)id, idl, (char *)idb, idbl, (SM9_EXCH_KEY *)&keyA, rA, &RA, &RB, k1, klen) : -1;
					if (r1 != 1 || r2 != 1 || r3 != 1) rcbad++; else ok = !memcmp(k1, k2, klen); }
				if (ok) agree++; else if (first < 0) first = i;
			}
			vt_int("trials", trials); vt_int("agree", agree); vt_int("rcbad", rcbad); vt_int("first", first);
		} else if (!strcmp(op, "exchange")) {
			SM9_EXCH_MASTER_KEY m; SM9_EXCH_KEY kA, kB; enc_master(&m, ksb); size_t klen = (size_t)kv_int(&kv, "klen", 16); uint8_t skA[256] = {0}, skB[256] = {0}, o[65];
			int xa = sm9_exch_master_key_extract_key(&m, (char *)id, idl, &kA), xb = sm9_exch_master_key_extract_key(&m, (char *)idb, idbl, &kB); vt_int("xa", xa); vt_int("xb", xb);
			if (xa == 1 && xb == 1) {
				SM9_Z256_POINT RA, RB; sm9_z256_t rA; int r1 = sm9_exch_step_1A(&m, (char *)idb, idbl, &RA, rA); vt_int("rc1a", r1);
				if (r1 == 1) { sm9_z256_point_to_uncompressed_octets(&RA, o); vt_hex("RA", o, 65); sm9_z256_to_bytes(rA, out); vt_hex("rA", out, 32);
					int r2 = sm9_exch_step_1B(&m, (char *)id, idl, (char *)idb, idbl, &kB, &RA, &RB, skB, klen); vt_int("rc1b", r2);
					if (r2 == 1) { sm9_z256_point_to_uncompressed_octets(&RB, o); vt_hex("RB", o, 65); vt_hex("skB", skB, klen);
						int r3 = sm9_exch_step_2A(&m, (char *)id, idl, (char *)idb, idbl, &kA, rA, &RA, &RB, skA, klen); vt_int("rc2a", r3); vt_hex("skA", skA, r3 == 1 ? klen : 0); } }
			}
		} else bad = 2;
		vt_int("bad", bad);
		vt_end(); vt_begin("Reset"); vt_end();
	}
	vt_close(); return 0;
}
