// In-process TLS/TLCP/TLS1.3 endpoints with a record-aware man-in-the-middle proxy.
// usage: tlsdrv <creds-dir> <scenario-file> <trace-out>
// Each scenario line is a list of key=value tokens:
//   id= proto=257|771|772 scred= ccred=|- ctrust=|- strust=|- fault=none|flip|drop|dup|swap|trunc|inject
//   dir=c2s|s2c idx= off= bit= frag= cs=<script> ss=<script> cfail= sfail= cseed= sseed= drawlog=
// script ops, comma separated:  w<n> (write n bytes in a loop)  r<n>:<cap> (read until n bytes)  p (one probe read)  x (shutdown)
#define _GNU_SOURCE
#include <stdio.h>
#include <stdlib.h>
#include <string.h>
#include <pthread.h>
#include <signal.h>
#include <poll.h>
#include <unistd.h>
#include <errno.h>
#include <sched.h>
#include <sys/socket.h>
#include <sys/ioctl.h>
#include <sys/syscall.h>
#include <gmssl/tls.h>
#include <gmssl/sm2.h>
#include <gmssl/x509.h>
#include <gmssl/error.h>
#include "vh.h"

typedef struct { char name[64]; uint8_t *chain; size_t chainlen; SM2_KEY sign, enc; int has_sign, has_enc; uint8_t *ca; size_t calen; int loaded; } CRED;
static CRED creds[128]; static int ncreds; static const char *creddir;

static uint8_t *slurp(const char *path, size_t *len)
{
	FILE *f = fopen(path, "rb"); if (!f) return NULL;
	uint8_t *b = malloc(1 << 16); *len = fread(b, 1, 1 << 16, f); fclose(f); return b;
}
static int loadkey(const char *path, SM2_KEY *k)
{
	size_t n; uint8_t *h = slurp(path, &n); if (!h) return 0;
	uint8_t d[32]; char hex[65]; memcpy(hex, h, 64); hex[64] = 0; free(h);
	if (vh_unhex(hex, d, 32) != 32) return 0;
	sm2_z256_t dz; sm2_z256_from_bytes(dz, d);
	if (sm2_key_set_private_key(k, dz) != 1) { fprintf(stderr, "tlsdrv: bad key %s\n", path); exit(4); }
	return 1;
}
static CRED *cred(const char *name)
{
	if (!strcmp(name, "-")) return NULL;
	for (int i = 0; i < ncreds; i++) if (!strcmp(creds[i].name, name)) return &creds[i];
	CRED *c = &creds[ncreds++]; memset(c, 0, sizeof *c); snprintf(c->name, sizeof c->name, "%s", name);
	char p[512];
	snprintf(p, sizeof p, "%s/%s/chain.der", creddir, name); c->chain = slurp(p, &c->chainlen);
	snprintf(p, sizeof p, "%s/%s/ca.der", creddir, name); c->ca = slurp(p, &c->calen);
	snprintf(p, sizeof p, "%s/%s/sign.key", creddir, name); c->has_sign = loadkey(p, &c->sign);
	snprintf(p, sizeof p, "%s/%s/enc.key", creddir, name); c->has_enc = loadkey(p, &c->enc);
	if (!c->chain && !c->ca) { fprintf(stderr, "tlsdrv: no credential set %s\n", name); exit(4); }
	return c;
}

typedef struct {
	int id, proto, idx, off, bit, frag, dirn; long cfail, sfail; unsigned long cseed, sseed; int drawlog;
	char scred[64], ccred[64], ctrust[64], strust[64], fault[16], cs[256], ss[256];
} SCN;
static SCN sc;
static TLS_CONNECT *cc, *sv;
static volatile int c_fin, s_fin; static int c_rc, s_rc; static volatile pid_t c_tid, s_tid;

// link-time interposition of send(): records written by an endpoint are logged in that endpoint's own program order
// (needed by C18: what an endpoint emits after a failed entropy draw); the proxy's own sends are not logged
static __thread const char *ep_who;
ssize_t send(int fd, const void *buf, size_t n, int flags)
{
	if (ep_who && sc.drawlog && n) { vt_begin("Sent"); vt_str("who", ep_who); vt_int("rtype", ((const uint8_t *)buf)[0]); vt_int("n", (long)n); vt_end(); }
	return syscall(SYS_sendto, fd, buf, n, flags, NULL, 0);
}

static int is13(void) { return sc.proto == TLS_protocol_tls13; }
static int xsend(TLS_CONNECT *c, const uint8_t *d, size_t n, size_t *s) { return is13() ? tls13_send(c, d, n, s) : tls_send(c, d, n, s); }
static int xrecv(TLS_CONNECT *c, uint8_t *d, size_t n, size_t *s) { return is13() ? tls13_recv(c, d, n, s) : tls_recv(c, d, n, s); }
// application stream content: a function of direction and offset (the same definition is in spec/TlsStream.tla)
static uint8_t fbyte(int dir, long off) { return (uint8_t)(off * 131 + (off >> 8) * 17 + (off >> 16) * 5 + dir * 77 + 3); }

static void log_read(const char *who, size_t cap, int rc, const uint8_t *buf, size_t n)
{
	vt_begin("Read"); vt_str("who", who); vt_int("cap", (long)cap); vt_int("rc", rc);
	if (rc == 1) {
		long ws = 0; for (size_t i = 0; i < n; i++) ws = (ws + (long)buf[i] * (long)(i % 251 + 1)) % 65521;
		vt_int("got", (long)n); vt_int("wsum", ws);
		vt_bytes("head", buf, n < 24 ? n : 24);
		vt_bytes("tail", n > 24 ? buf + n - (n - 24 < 24 ? n - 24 : 24) : buf, n > 24 ? (n - 24 < 24 ? n - 24 : 24) : 0);
	} else vt_int("got", 0);
	vt_end();
}

static void run_script(TLS_CONNECT *conn, const char *who, int dir, const char *script)
{
	long woff = 0; char buf[256]; snprintf(buf, sizeof buf, "%s", script);
	char *sp = NULL;
	for (char *op = strtok_r(buf, ",", &sp); op; op = strtok_r(NULL, ",", &sp)) {
		if (op[0] == 'm') {            // m<k>: k writes of one byte each (k records)
			long k = atol(op + 1);
			for (long j = 0; j < k; j++) {
				uint8_t b = fbyte(dir, woff); size_t sent = 0;
				vt_begin("WriteBegin"); vt_str("who", who); vt_int("n", 1); vt_end();
				int rc = xsend(conn, &b, 1, &sent);
				vt_begin("Write"); vt_str("who", who); vt_int("n", 1); vt_int("rc", rc); vt_int("sent", rc == 1 ? (long)sent : 0); vt_end();
				if (rc != 1 || sent == 0) return;
				woff += 1;
			}
		} else if (op[0] == 'W') {           // one attempt to write n bytes that may be refused (TLCP / TLS 1.2 refuse to send while received data is still buffered): a refusal does not end the script
			long n = atol(op + 1), done = 0; uint8_t *data = malloc(n ? n : 1); for (long i = 0; i < n; i++) data[i] = fbyte(dir, woff + i);
			int calls = 0;
			while (done < n && calls++ < 64) {          // like 'w' (a call sends at most one record), except that a refusal of the FIRST call is not the end of the script
				size_t sent = 0; vt_begin("WriteBegin"); vt_str("who", who); vt_int("n", n - done); vt_end();
				int rc = xsend(conn, data + done, (size_t)(n - done), &sent);
				vt_begin("Write"); vt_str("who", who); vt_int("n", n - done); vt_int("rc", rc); vt_int("sent", rc == 1 ? (long)sent : 0); vt_end();
				if (rc != 1 || sent == 0) { if (done) { free(data); return; } break; }
				done += (long)sent;
			}
			woff += done;
			free(data);
		} else if (op[0] == 'w') {
			long n = atol(op + 1), done = 0; uint8_t *data = malloc(n ? n : 1);
			for (long i = 0; i < n; i++) data[i] = fbyte(dir, woff + i);
			int calls = 0;
			while (done < n && calls++ < 64) {
				size_t sent = 0;
				vt_begin("WriteBegin"); vt_str("who", who); vt_int("n", n - done); vt_end();
				int rc = xsend(conn, data + done, (size_t)(n - done), &sent);
				vt_begin("Write"); vt_str("who", who); vt_int("n", n - done); vt_int("rc", rc); vt_int("sent", rc == 1 ? (long)sent : 0); vt_end();
				if (rc != 1 || sent == 0) { free(data); return; }
				done += (long)sent;
			}
			woff += n; free(data);
		} else if (op[0] == 'r') {
			long n = atol(op + 1), got = 0; char *c = strchr(op, ':'); size_t cap = c ? (size_t)atol(c + 1) : 4096;
			uint8_t *out = malloc(cap ? cap : 1);
			while (got < n) {
				size_t k = 0, want = (size_t)(n - got) < cap ? (size_t)(n - got) : cap; int rc = xrecv(conn, out, want, &k);
				log_read(who, want, rc, out, rc == 1 ? k : 0);
				if (rc != 1) { free(out); return; }
				got += (long)k;
			}
			free(out);
		} else if (op[0] == 'p') {
			uint8_t out[256]; size_t k = 0; int rc = xrecv(conn, out, sizeof out, &k);
			log_read(who, sizeof out, rc, out, rc == 1 ? k : 0);
			if (rc != 1) return;
		} else if (op[0] == 'x') {
			vt_begin("ShutBegin"); vt_str("who", who); vt_end();
			int rc = is13() ? 0 : tls_shutdown(conn);
			vt_begin("Shut"); vt_str("who", who); vt_int("rc", rc); vt_end();
			return;
		}
	}
}

static void hexn(char *out, const void *p, size_t n) { for (size_t i = 0; i < n; i++) sprintf(out + 2 * i, "%02x", ((const uint8_t *)p)[i]); }

static void *endpoint(void *arg)
{
	int is_client = arg != NULL;
	TLS_CONNECT *conn = is_client ? cc : sv;
	const char *who = is_client ? "C" : "S";
	if (is_client) c_tid = (pid_t)syscall(SYS_gettid); else s_tid = (pid_t)syscall(SYS_gettid);
	ep_who = who;
	ent_tag(who); ent_seed(is_client ? sc.cseed : sc.sseed); ent_fail_at(is_client ? sc.cfail : sc.sfail);
	ent_log(sc.drawlog);
	int rc = tls_do_handshake(conn);
	vt_begin("HsRet"); vt_str("who", who); vt_int("rc", rc); vt_int("draws", ent_draws()); vt_int("entfail", ent_failed());
	if (rc == 1) {
		char k[400];
		vt_int("ver", conn->protocol); vt_int("suite", conn->cipher_suite);
		if (is13()) {
			hexn(k, conn->client_write_iv, 12); hexn(k + 24, conn->server_write_iv, 12);
			hexn(k + 48, &conn->client_write_key, 32); hexn(k + 112, &conn->server_write_key, 32);
		} else { hexn(k, conn->master_secret, 48); hexn(k + 96, conn->key_block, 96); }
		vt_str("keys", k);
	}
	vt_end();
	ent_fail_at(0);
	if (rc == 1) run_script(conn, who, is_client ? 0 : 1, is_client ? sc.cs : sc.ss);
	shutdown(conn->sock, SHUT_RDWR);
	if (is_client) { c_rc = rc; c_fin = 1; } else { s_rc = rc; s_fin = 1; }
	return NULL;
}

typedef struct { int in, out; uint8_t buf[80000]; size_t len; int idx; int eof; uint8_t held[20000]; size_t heldlen; uint8_t first[20000]; size_t firstlen; uint8_t saved[20000]; size_t savedlen; } LEG;
static uint64_t fragst;
static void wr(int fd, const uint8_t *p, size_t n)
{
	while (n) {
		size_t k = n;
		if (sc.frag) { k = 1 + (size_t)(vh_rand(&fragst) % (n < 40 ? n : (vh_rand(&fragst) & 1 ? 40 : n))); }
		ssize_t r = send(fd, p, k, MSG_NOSIGNAL); if (r <= 0) return; p += r; n -= (size_t)r;
		if (sc.frag && n) { sched_yield(); if ((vh_rand(&fragst) & 7) == 0) usleep(200); }
	}
}

static void forward(LEG *g, int dir)
{
	for (;;) {
		if (g->len < 5) return;
		size_t rl = 5 + ((size_t)g->buf[3] << 8 | g->buf[4]);
		if (rl > sizeof g->held) rl = g->len; // absurd length: pass through whatever is there
		if (g->len < rl) return;
		g->idx++;
		int hit = (dir == sc.dirn && g->idx == sc.idx);
		static uint8_t rec[80000]; memcpy(rec, g->buf, rl);
		int hs = (rec[0] == 22 && rl > 5) ? rec[5] : -1; int rtype0 = rec[0]; // as sent (before any fault)
		const char *applied = "none"; size_t outl = rl; int drop = 0, dup = 0, hold = 0, inj = 0;
		uint8_t injrec[20000]; size_t injlen = 0;
		if (g->idx == 1) { memcpy(g->first, rec, rl); g->firstlen = rl; }
		// replay: record idx is remembered and presented again, unchanged, off records later (before the record then in flight)
		if (!strcmp(sc.fault, "replay") && dir == sc.dirn) {
			if (g->idx == sc.idx && rl <= sizeof g->saved) { memcpy(g->saved, rec, rl); g->savedlen = rl; }
			else if (g->idx == sc.idx + sc.off && g->savedlen) { memcpy(injrec, g->saved, g->savedlen); injlen = g->savedlen; inj = 1; applied = "replay"; }
			hit = 0;
		}
		if (hit) {
			applied = sc.fault;
			if (!strcmp(sc.fault, "flip")) { if ((size_t)(5 + sc.off) < rl) rec[5 + sc.off] ^= (uint8_t)(1 << sc.bit); else applied = "none"; }
			else if (!strcmp(sc.fault, "xor")) { if ((size_t)(5 + sc.off) < rl && (sc.bit & 255)) { rec[5 + sc.off] ^= (uint8_t)sc.bit; applied = "flip"; } else applied = "none"; }      // bit = an 8-bit mask: the octet becomes another chosen value
			else if (!strcmp(sc.fault, "hdrflip")) { rec[sc.off % 5] ^= (uint8_t)(1 << sc.bit); }
			else if (!strcmp(sc.fault, "setb")) { if ((size_t)(5 + sc.off) < rl) rec[5 + sc.off] = (uint8_t)sc.bit; else applied = "none"; }          // set a body byte (length fields!) to a value
			else if (!strcmp(sc.fault, "cut")) { if ((size_t)sc.off < rl - 5) { outl = 5 + (size_t)sc.off; rec[3] = (uint8_t)(sc.off >> 8); rec[4] = (uint8_t)sc.off; } else applied = "none"; } // consistent record, truncated message
			else if (!strcmp(sc.fault, "pad")) { size_t add = (size_t)sc.bit * 64; if (rl + add < sizeof rec) { memset(rec + rl, 0xAA, add); outl = rl + add; rec[3] = (uint8_t)((outl - 5) >> 8); rec[4] = (uint8_t)(outl - 5); } else applied = "none"; }
			else if (!strcmp(sc.fault, "drop")) drop = 1;
			else if (!strcmp(sc.fault, "dup")) dup = 1;
			else if (!strcmp(sc.fault, "swap")) hold = 1;
			else if (!strcmp(sc.fault, "trunc")) { if (rl > 6) outl = rl - 1; else applied = "none"; }
			else if (!strcmp(sc.fault, "inject")) {
				inj = 1;
				switch (sc.off) {
				case 0: if (g->firstlen && g->idx > 1) { memcpy(injrec, g->first, g->firstlen); injlen = g->firstlen; } else { inj = 0; applied = "none"; } break;
				case 1: { uint8_t t[] = { 22, rec[1], rec[2], 0, 8, 14, 0, 0, 4, 1, 2, 3, 4 }; memcpy(injrec, t, sizeof t); injlen = sizeof t; } break;
				case 2: { uint8_t t[] = { 20, rec[1], rec[2], 0, 1, 1 }; memcpy(injrec, t, sizeof t); injlen = sizeof t; } break;
				case 3: { uint8_t t[] = { 21, rec[1], rec[2], 0, 2, 1, 0 }; memcpy(injrec, t, sizeof t); injlen = sizeof t; } break;
				case 5: { uint8_t t[] = { 22, rec[1], rec[2], 0, 0 }; memcpy(injrec, t, sizeof t); injlen = sizeof t; } break;                      // an empty handshake record
				case 6: { uint8_t t[] = { 21, rec[1], rec[2], 0, 2, 1, 90 }; memcpy(injrec, t, sizeof t); injlen = sizeof t; } break;               // warning alert user_canceled
				case 7: { uint8_t t[] = { 21, rec[1], rec[2], 0, 2, 1, 100 }; memcpy(injrec, t, sizeof t); injlen = sizeof t; } break;              // warning alert no_renegotiation
				case 8: { uint8_t t[] = { 22, rec[1], rec[2], 0, 4, 0, 0, 0, 0 }; memcpy(injrec, t, sizeof t); injlen = sizeof t; } break;          // HelloRequest (type 0, empty)
				default: { uint8_t t[] = { 23, rec[1], rec[2], 0, 4, 9, 9, 9, 9 }; memcpy(injrec, t, sizeof t); injlen = sizeof t; } break;
				}
			} else applied = "none";
		}
		vt_begin("Rec"); vt_str("dir", dir ? "s2c" : "c2s"); vt_int("idx", g->idx); vt_int("rtype", rtype0); vt_int("hs", hs);
		vt_int("len", (long)rl); vt_str("fault", applied); if (inj) vt_int("kind", sc.off); vt_end();
		if (inj) wr(g->out, injrec, injlen);
		if (hold) { memcpy(g->held, rec, rl); g->heldlen = rl; }
		else if (!drop) {
			wr(g->out, rec, outl);
			if (dup) wr(g->out, rec, outl);
			if (g->heldlen) { wr(g->out, g->held, g->heldlen); g->heldlen = 0; }
		}
		memmove(g->buf, g->buf + rl, g->len - rl); g->len -= rl;
	}
}

static char tstate(pid_t tid)
{
	char p[64], b[256]; snprintf(p, sizeof p, "/proc/self/task/%d/stat", (int)tid);
	FILE *f = fopen(p, "r"); if (!f) return 'X';
	size_t n = fread(b, 1, sizeof b - 1, f); fclose(f); b[n] = 0;
	char *r = strrchr(b, ')'); return r && r[1] ? r[2] : 'X';
}
static int pending(int fd) { int n = 0; ioctl(fd, FIONREAD, &n); return n; }

static void setup_ctx(TLS_CTX *ctx, int is_client, CRED *own, CRED *trust)
{
	tls_ctx_init(ctx, sc.proto, is_client ? TLS_client_mode : TLS_server_mode);
	ctx->quiet = 1;
	if (own && own->chain) {
		ctx->certs = own->chain; ctx->certslen = own->chainlen;
		if (own->has_sign) ctx->signkey = own->sign;
		if (own->has_enc) ctx->kenckey = own->enc;
	}
	if (trust && trust->ca) { ctx->cacerts = trust->ca; ctx->cacertslen = trust->calen; ctx->verify_depth = 5; }
}

static void run_scenario(void)
{
	static TLS_CTX cctx, sctx;
	memset(&cctx, 0, sizeof cctx); memset(&sctx, 0, sizeof sctx);
	setup_ctx(&cctx, 1, cred(sc.ccred), cred(sc.ctrust));
	setup_ctx(&sctx, 0, cred(sc.scred), cred(sc.strust));
	cc = calloc(1, sizeof(TLS_CONNECT)); sv = calloc(1, sizeof(TLS_CONNECT));
	vt_begin("Start"); vt_int("id", sc.id); vt_int("proto", sc.proto); vt_int("mutual", strcmp(sc.strust, "-") ? 1 : 0);
	vt_int("ccert", strcmp(sc.ccred, "-") ? 1 : 0); vt_str("scred", sc.scred); vt_str("ccred", sc.ccred); vt_str("ctrust", sc.ctrust); vt_str("strust", sc.strust);
	vt_str("fault", sc.fault); vt_str("dir", sc.dirn ? "s2c" : "c2s"); vt_int("idx", sc.idx); vt_int("off", sc.off); vt_int("bit", sc.bit); vt_end();
	if (tls_init(cc, &cctx) != 1 || tls_init(sv, &sctx) != 1) { vt_begin("InitFail"); vt_end(); vt_begin("End"); vt_int("crc", -9); vt_int("src", -9); vt_end(); free(cc); free(sv); return; }
	int a[2], b[2]; socketpair(AF_UNIX, SOCK_STREAM, 0, a); socketpair(AF_UNIX, SOCK_STREAM, 0, b);
	tls_set_socket(cc, a[0]); tls_set_socket(sv, b[1]);
	static LEG c2s, s2c; memset(&c2s, 0, sizeof c2s); memset(&s2c, 0, sizeof s2c);
	c2s.in = a[1]; c2s.out = b[0]; s2c.in = b[0]; s2c.out = a[1];
	c_fin = s_fin = 0; c_tid = s_tid = 0; fragst = (uint64_t)sc.frag * 7919 + 1;
	pthread_t tc, ts; pthread_create(&ts, NULL, endpoint, NULL); pthread_create(&tc, NULL, endpoint, (void *)1);
	int idle = 0; struct timespec t0; clock_gettime(CLOCK_MONOTONIC, &t0);
	while (!(c2s.eof && s2c.eof)) {
		struct pollfd p[2] = { { c2s.eof ? -1 : a[1], POLLIN, 0 }, { s2c.eof ? -1 : b[0], POLLIN, 0 } };
		int r = poll(p, 2, 10);
		if (r == 0) {
			if (c_fin && s_fin) break;
			// quiescent: every unfinished endpoint is blocked (sleeping) with nothing unread on its socket
			int cq = c_fin || (c_tid && tstate(c_tid) == 'S' && pending(a[0]) == 0);
			int sq = s_fin || (s_tid && tstate(s_tid) == 'S' && pending(b[1]) == 0);
			if (cq && sq && pending(a[1]) == 0 && pending(b[0]) == 0) idle++; else idle = 0;
			struct timespec t1; clock_gettime(CLOCK_MONOTONIC, &t1);
			int hard = (t1.tv_sec - t0.tv_sec) > 20;
			if (idle >= 3 || hard) {
				vt_begin("Close"); vt_str("why", hard ? "watchdog" : "quiescent"); vt_end();
				shutdown(a[1], SHUT_RDWR); shutdown(b[0], SHUT_RDWR); break;
			}
			continue;
		}
		idle = 0;
		LEG *g[2] = { &c2s, &s2c };
		for (int i = 0; i < 2; i++) if (!g[i]->eof && (p[i].revents & (POLLIN | POLLHUP | POLLERR))) {
			ssize_t k = recv(g[i]->in, g[i]->buf + g[i]->len, sizeof(g[i]->buf) - g[i]->len, 0);
			if (k <= 0) {
				g[i]->eof = 1;
				vt_begin("Eof"); vt_str("dir", i ? "s2c" : "c2s"); vt_int("partial", (long)g[i]->len); vt_int("held", (long)g[i]->heldlen); vt_end();
				shutdown(g[i]->out, SHUT_WR);
			} else { g[i]->len += (size_t)k; forward(g[i], i); }
		}
	}
	pthread_join(tc, NULL); pthread_join(ts, NULL);
	vt_begin("End"); vt_int("crc", c_rc); vt_int("src", s_rc); vt_end();
	close(a[0]); close(a[1]); close(b[0]); close(b[1]);
	free(cc); free(sv);
}

int main(int argc, char **argv)
{
	if (argc < 4) return 2;
	creddir = argv[1];
	signal(SIGPIPE, SIG_IGN);
	FILE *sf = fopen(argv[2], "r"); if (!sf) return 3;
	vt_open(argv[3]);
	char line[2048];
	while (fgets(line, sizeof line, sf)) {
		memset(&sc, 0, sizeof sc);
		strcpy(sc.scred, "-"); strcpy(sc.ccred, "-"); strcpy(sc.ctrust, "-"); strcpy(sc.strust, "-"); strcpy(sc.fault, "none");
		sc.cseed = 1; sc.sseed = 2;
		int any = 0;
		for (char *t = strtok(line, " \t\r\n"); t; t = strtok(NULL, " \t\r\n")) {
			char *v = strchr(t, '='); if (!v) continue; *v++ = 0; any = 1;
			if (!strcmp(t, "id")) sc.id = atoi(v); else if (!strcmp(t, "proto")) sc.proto = atoi(v);
			else if (!strcmp(t, "scred")) snprintf(sc.scred, 64, "%s", v); else if (!strcmp(t, "ccred")) snprintf(sc.ccred, 64, "%s", v);
			else if (!strcmp(t, "ctrust")) snprintf(sc.ctrust, 64, "%s", v); else if (!strcmp(t, "strust")) snprintf(sc.strust, 64, "%s", v);
			else if (!strcmp(t, "fault")) snprintf(sc.fault, 16, "%s", v); else if (!strcmp(t, "dir")) sc.dirn = !strcmp(v, "s2c");
			else if (!strcmp(t, "idx")) sc.idx = atoi(v); else if (!strcmp(t, "off")) sc.off = atoi(v); else if (!strcmp(t, "bit")) sc.bit = atoi(v);
			else if (!strcmp(t, "frag")) sc.frag = atoi(v); else if (!strcmp(t, "cs")) snprintf(sc.cs, 256, "%s", v); else if (!strcmp(t, "ss")) snprintf(sc.ss, 256, "%s", v);
			else if (!strcmp(t, "cfail")) sc.cfail = atol(v); else if (!strcmp(t, "sfail")) sc.sfail = atol(v);
			else if (!strcmp(t, "cseed")) sc.cseed = strtoul(v, 0, 10); else if (!strcmp(t, "sseed")) sc.sseed = strtoul(v, 0, 10);
			else if (!strcmp(t, "drawlog")) sc.drawlog = atoi(v);
		}
		if (!any) continue;
		run_scenario();
	}
	vt_close();
	return 0;
}
