// C07 driver: x509_certs_verify / x509_certs_verify_tlcp on generated chains.
// script line: id= form=tls|tlcp role=server|client depth=N chain=<hex> trust=<hex>
#include <stdio.h>
#include <stdlib.h>
#include <string.h>
#include <unistd.h>
#include <fcntl.h>
#include <gmssl/x509.h>
#include "vh.h"
int main(int argc, char **argv)
{
	if (argc < 3) return 2;
	FILE *sf = fopen(argv[1], "r"); if (!sf) return 3;
	vt_open(argv[2]);
	int dn = open("/dev/null", O_WRONLY); dup2(dn, 2); // the library prints every rejected certificate to stderr
	char *line = malloc(1 << 20);
	while (fgets(line, 1 << 20, sf)) {
		KV kv; kv_parse(&kv, line); if (!kv.n) continue;
		size_t cl, tl; uint8_t *chain = kv_hex(&kv, "chain", &cl), *trust = kv_hex(&kv, "trust", &tl);
		int type = !strcmp(kv_str(&kv, "role", "server"), "server") ? X509_cert_chain_server : X509_cert_chain_client;
		int depth = (int)kv_int(&kv, "depth", 5), vr = 0, rc;
		if (!strcmp(kv_str(&kv, "form", "tls"), "tlcp")) rc = x509_certs_verify_tlcp(chain, cl, type, trust, tl, depth, &vr);
		else rc = x509_certs_verify(chain, cl, type, trust, tl, depth, &vr);
		vt_begin("Verify"); vt_int("id", kv_int(&kv, "id", 0)); vt_int("rc", rc); vt_end();
		vt_begin("Reset"); vt_end();
	}
	vt_close(); return 0;
}
