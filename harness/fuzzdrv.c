// Robustness driver: feeds arbitrary byte strings to the decoding / verifying / printing interfaces, one call group per target.
// usage: fuzzdrv <script> <trace>
// script line: id=<n> target=<name> data=<hex> [aux=<hex>] | id=<n> target=<name> sample=1 [variant=<v>]
//   optional keys: alarm=<secs> (SIGALRM ends a hanging line), dead=1 (also call tls_client_key_shares_from_bytes, dead code),
//   skip=<names> leaves out calls whose crash a campaign has already recorded (nothing is skipped by default):
//     access_method (x509_access_method_from_der and the AIA parsers/printers above it), sequence_of_int,
//     tls12_client_exts, tls13_client_exts, tls12_certificate, tls13_certificate
// targets: asn1 oid x509_cert x509_exts x509_name x509_crl x509_req cms pkcs8 pem base64 hex sm2_sig sm2_ct sm2_point
//          sm9_sig sm9_ct sm9_key tls_record tls_cbc tls13_gcm http     (aux: x509_cert/x509_crl CA certificate(s), cms 16-byte key, tls_cbc 5-byte header)
// event F{id,target,rc,n}            rc = return code of the main decode call of the target, n = number of library calls made
// event F{id,target,rc,sample,nvariants}  with sample=1: one valid object of the target's kind made by the library's own encoders
// Rules kept throughout: the input is handed to the library in its exact-size allocation (kv_hex); every output buffer is an
// exact-size allocation of the capacity the interface is told (or documents); nothing here inspects the results: the
// sanitizer is the observer.
// For targets that accept several formats (pkcs8, pem, sm9_key, sm2_point, cms ...) rc is 1 when any of the alternative
// top-level decoders accepted the input, otherwise the rc of the first one.
#define _GNU_SOURCE
#include <stdio.h>
#include <stdlib.h>
#include <string.h>
#include <unistd.h>
#include <gmssl/asn1.h>
#include <gmssl/oid.h>
#include <gmssl/ec.h>
#include <gmssl/sm2.h>
#include <gmssl/sm3.h>
#include <gmssl/sm4.h>
#include <gmssl/sm9.h>
#include <gmssl/sm9_z256.h>
#include <gmssl/x509.h>
#include <gmssl/x509_alg.h>
#include <gmssl/x509_ext.h>
#include <gmssl/x509_req.h>
#include <gmssl/x509_crl.h>
#include <gmssl/cms.h>
#include <gmssl/pkcs8.h>
#include <gmssl/pem.h>
#include <gmssl/base64.h>
#include <gmssl/hex.h>
#include <gmssl/http.h>
#include <gmssl/block_cipher.h>
#include <gmssl/tls.h>
#include "vh.h"

// built and used by the library but not declared in a public header
int hex2bin(const char *in, size_t inlen, uint8_t *out);
int sm2_public_key_from_der(SM2_KEY *key, const uint8_t **in, size_t *inlen);
int sm2_public_key_to_der(const SM2_KEY *key, uint8_t **out, size_t *outlen);
int sm2_z256_point_to_der(const SM2_Z256_POINT *P, uint8_t **out, size_t *outlen);
int tls_extensions_print(FILE *fp, const uint8_t *exts, size_t extslen, int format, int indent);
int tls_extension_print(FILE *fp, int type, const uint8_t *data, size_t datalen, int format, int indent);
int tls13_handshake_print(FILE *fp, int fmt, int ind, const uint8_t *handshake, size_t handshake_len);
int tls_certificate_print(FILE *fp, const uint8_t *data, size_t datalen, int format, int indent);
int tls_certificate_subjects_print(FILE *fp, int fmt, int ind, const char *label, const uint8_t *d, size_t dlen);
int tls12_record_print(FILE *fp, const uint8_t *record, size_t recordlen, int format, int indent);
int tls13_record_decrypt(const BLOCK_CIPHER_KEY *key, const uint8_t iv[12], const uint8_t seq_num[8], const uint8_t *enced_record, size_t enced_recordlen, uint8_t *record, size_t *recordlen);
int tls13_record_encrypt(const BLOCK_CIPHER_KEY *key, const uint8_t iv[12], const uint8_t seq_num[8], const uint8_t *record, size_t recordlen, size_t padding_len, uint8_t *enced_record, size_t *enced_recordlen);
int tls13_process_client_hello_exts(const uint8_t *exts, size_t extslen, const SM2_KEY *server_ecdhe_key, SM2_Z256_POINT *client_ecdhe_public, uint8_t *server_exts, size_t *server_exts_len, size_t server_exts_maxlen);
int tls13_server_hello_extensions_get(const uint8_t *exts, size_t extslen, SM2_Z256_POINT *sm2_point);
int tls13_process_certificate_list(const uint8_t *cert_list, size_t cert_list_len, uint8_t *certs, size_t *certs_len);
int tls13_client_hello_exts_set(uint8_t *exts, size_t *extslen, size_t maxlen, const SM2_Z256_POINT *client_ecdhe_public);
int tls13_record_get_handshake_encrypted_extensions(const uint8_t *record);
int tls13_record_set_handshake_encrypted_extensions(uint8_t *record, size_t *recordlen);
int tls13_record_get_handshake_certificate(const uint8_t *record, const uint8_t **ctx, size_t *ctxlen, const uint8_t **cert_list, size_t *cert_list_len);
int tls13_record_set_handshake_certificate(uint8_t *record, size_t *recordlen, const uint8_t *ctx, size_t ctxlen, const uint8_t *certs, size_t certslen);
int tls13_record_get_handshake_certificate_request(const uint8_t *record, const uint8_t **ctx, size_t *ctxlen, const uint8_t **exts, size_t *exts_len);
int tls13_record_set_handshake_certificate_request_default(uint8_t *record, size_t *recordlen);
int tls13_record_get_handshake_certificate_verify(const uint8_t *record, int *sign_algor, const uint8_t **sig, size_t *siglen);
int tls13_record_set_handshake_certificate_verify(uint8_t *record, size_t *recordlen, int sign_algor, const uint8_t *sig, size_t siglen);
int tls13_record_get_handshake_finished(const uint8_t *record, const uint8_t **verify_data, size_t *verify_data_len);
int tls13_record_set_handshake_finished(uint8_t *record, size_t *recordlen, const uint8_t *verify_data, size_t verify_data_len);
int tls_client_key_shares_from_bytes(SM2_Z256_POINT *sm2_point, const uint8_t **in, size_t *inlen);

static FILE *nul;        // every *_print goes here
static long ncalls;      // library calls made for the current line
// skip=<name,name..> on a script line leaves out the named calls: only for campaigns that have already recorded the crash of
// that call and want to see what lies behind it. Nothing is skipped by default.
static const char *skiplist; static int skp(const char *name) { return skiplist && strstr(skiplist, name) != NULL; }
#define C(x) (ncalls++, (x))

// ---- per-line arena of exact-size allocations (a write or read one byte past the size is a sanitizer report) ----
static void *arena[8192]; static int narena;
static uint8_t *xa(size_t n) { uint8_t *b = malloc(n ? n : 1); if (!b) exit(6); if (narena < 8192) arena[narena++] = b; return n ? b : b + 1; }
static void xfree_all(void) { while (narena) free(arena[--narena]); }
static uint8_t *xdup(const uint8_t *p, size_t n) { uint8_t *b = xa(n); if (n) memcpy(b, p, n); return b; }
static char *xstr(const uint8_t *p, size_t n) { char *s = (char *)xa(n + 1); if (n) memcpy(s, p, n); s[n] = 0; return s; } // exactly len+1 for interfaces that want a C string
static FILE *files[256]; static int nfiles;
static FILE *xfp(const uint8_t *p, size_t n) { FILE *f = n ? fmemopen((void *)p, n, "r") : fopen("/dev/null", "r"); if (!f) exit(7); if (nfiles < 256) files[nfiles++] = f; return f; }
static void xclose_all(void) { while (nfiles) fclose(files[--nfiles]); }
static int best(int a, int b) { return a == 1 || b == 1 ? 1 : a; } // rc of multi-format targets

// ---- fixed material, made once at startup from the deterministic entropy stream ----
static SM2_KEY kca, kee, kenc, kother;
static time_t NB, NA;
static const uint8_t SER_CA[] = { 0x01, 0x23, 0x45, 0x67, 0x89, 0xab, 0xcd, 0x01 }, SER_EE[] = { 0x11, 0x22, 0x33, 0x44, 0x55, 0x66, 0x77, 0x02 },
	SER_ENC[] = { 0x21, 0x22, 0x33, 0x44, 0x55, 0x66, 0x77, 0x03 }, SER_REV[] = { 0x31, 0x32, 0x33, 0x04 };
static uint8_t nm_ca[256], nm_ee[256], nm_enc[256]; static size_t nm_ca_len, nm_ee_len, nm_enc_len;
static uint8_t ex_ca[512], ex_ee[1024], ex_enc[512], ex_misc[1536]; static size_t ex_ca_len, ex_ee_len, ex_enc_len, ex_misc_len;
static uint8_t ca_cert[1536], ee_cert[2048], enc_cert[1536], chain[4096], crl_der[2048], req_der[1024]; static size_t ca_len, ee_len, enc_len, chain_len, crl_len, req_len;
static SM9_SIGN_MASTER_KEY s9sm; static SM9_SIGN_KEY s9sk; static SM9_ENC_MASTER_KEY s9em; static SM9_ENC_KEY s9ek;
static const char *S9ID = "Alice";
static uint8_t DGST[32], KEY16[16], IV16[16], MACKEY[32], IV12[12], SEQ[8], CONTENT[40], RND32[32];
static SM3_HMAC_CTX hmac0; static SM4_KEY sm4enc, sm4dec; static BLOCK_CIPHER_KEY bck;

static void fixed_key(SM2_KEY *k, uint8_t b) { uint8_t d[32]; memset(d, b, 32); d[0] = 0x31; sm2_z256_t z; sm2_z256_from_bytes(z, d); if (sm2_key_set_private_key(k, z) != 1) exit(5); }
#define MUST(x) do { if ((x) != 1) { fprintf(stderr, "fuzzdrv: setup step failed: %s\n", #x); exit(5); } } while (0)
static int sign_cert(uint8_t *out, size_t *outlen, const uint8_t *ser, size_t sl, const uint8_t *iss, size_t il, const uint8_t *sub, size_t subl, const SM2_KEY *subkey, const uint8_t *ex, size_t el, const SM2_KEY *sk)
{
	uint8_t *p = out; *outlen = 0;
	return x509_cert_sign_to_der(X509_version_v3, ser, sl, OID_sm2sign_with_sm3, iss, il, NB, NA, sub, subl, subkey, NULL, 0, NULL, 0, el ? ex : NULL, el, sk, SM2_DEFAULT_ID, SM2_DEFAULT_ID_LENGTH, &p, outlen);
}
static void setup(void)
{
	ent_seed(7);
	for (int i = 0; i < 32; i++) { DGST[i] = (uint8_t)(i * 7 + 1); MACKEY[i] = (uint8_t)(i + 0x40); RND32[i] = (uint8_t)(0xa0 + i); }
	for (int i = 0; i < 16; i++) { KEY16[i] = (uint8_t)(i + 1); IV16[i] = (uint8_t)(0xf0 - i); }
	for (int i = 0; i < 12; i++) IV12[i] = (uint8_t)(0x30 + i);
	for (int i = 0; i < 40; i++) CONTENT[i] = (uint8_t)('A' + i % 26);
	NB = vh_now - 86400; NA = vh_now + 365 * 86400;
	fixed_key(&kca, 0x55); fixed_key(&kee, 0x66); fixed_key(&kenc, 0x67); fixed_key(&kother, 0x77);
	sm3_hmac_init(&hmac0, MACKEY, 32); sm4_set_encrypt_key(&sm4enc, KEY16); sm4_set_decrypt_key(&sm4dec, KEY16);
	MUST(block_cipher_set_encrypt_key(&bck, BLOCK_CIPHER_sm4(), KEY16));
	MUST(x509_name_set(nm_ca, &nm_ca_len, sizeof nm_ca, "CN", "Beijing", "Haidian", "Verif", "CA", "Verif Root CA"));
	MUST(x509_name_set(nm_ee, &nm_ee_len, sizeof nm_ee, "CN", "Beijing", NULL, "Verif", "EE", "leaf.example.org"));
	MUST(x509_name_set(nm_enc, &nm_enc_len, sizeof nm_enc, "CN", NULL, NULL, "Verif", NULL, "enc.example.org"));
	// CA extensions
	MUST(x509_exts_add_basic_constraints(ex_ca, &ex_ca_len, sizeof ex_ca, 1, 1, 3));
	MUST(x509_exts_add_key_usage(ex_ca, &ex_ca_len, sizeof ex_ca, 1, X509_KU_KEY_CERT_SIGN | X509_KU_CRL_SIGN));
	MUST(x509_exts_add_subject_key_identifier_ex(ex_ca, &ex_ca_len, sizeof ex_ca, 0, &kca));
	// end-entity (signing) extensions
	{ int kp[2] = { OID_kp_server_auth, OID_kp_client_auth }; uint8_t gns[128]; size_t gl = 0;
	  MUST(x509_exts_add_default_authority_key_identifier(ex_ee, &ex_ee_len, sizeof ex_ee, &kca));
	  MUST(x509_exts_add_subject_key_identifier_ex(ex_ee, &ex_ee_len, sizeof ex_ee, 0, &kee));
	  MUST(x509_exts_add_key_usage(ex_ee, &ex_ee_len, sizeof ex_ee, 1, X509_KU_DIGITAL_SIGNATURE | X509_KU_NON_REPUDIATION));
	  MUST(x509_exts_add_basic_constraints(ex_ee, &ex_ee_len, sizeof ex_ee, 0, 0, -1));
	  MUST(x509_exts_add_ext_key_usage(ex_ee, &ex_ee_len, sizeof ex_ee, 0, kp, 2));
	  MUST(x509_general_names_add_dns_name(gns, &gl, sizeof gns, "leaf.example.org"));
	  MUST(x509_general_names_add_rfc822_name(gns, &gl, sizeof gns, "ops@example.org"));
	  MUST(x509_exts_add_subject_alt_name(ex_ee, &ex_ee_len, sizeof ex_ee, 0, gns, gl));
	  MUST(x509_exts_add_crl_distribution_points(ex_ee, &ex_ee_len, sizeof ex_ee, 0, "http://example.org/ca.crl", 25, NULL, 0)); }
	MUST(x509_exts_add_key_usage(ex_enc, &ex_enc_len, sizeof ex_enc, 1, X509_KU_KEY_ENCIPHERMENT | X509_KU_DATA_ENCIPHERMENT));
	MUST(sign_cert(ca_cert, &ca_len, SER_CA, sizeof SER_CA, nm_ca, nm_ca_len, nm_ca, nm_ca_len, &kca, ex_ca, ex_ca_len, &kca));
	MUST(sign_cert(ee_cert, &ee_len, SER_EE, sizeof SER_EE, nm_ca, nm_ca_len, nm_ee, nm_ee_len, &kee, ex_ee, ex_ee_len, &kca));
	MUST(sign_cert(enc_cert, &enc_len, SER_ENC, sizeof SER_ENC, nm_ca, nm_ca_len, nm_enc, nm_enc_len, &kenc, ex_enc, ex_enc_len, &kca));
	memcpy(chain, ee_cert, ee_len); memcpy(chain + ee_len, ca_cert, ca_len); chain_len = ee_len + ca_len;
	// a wider selection of extension kinds (only used as a seed for the x509_exts target; pieces that the library refuses to build are left out)
	{ uint8_t t[512], q[256]; size_t tl = 0, ql = 0; uint8_t gns[128]; size_t gl = 0;
	  x509_exts_add_policy_constraints(ex_misc, &ex_misc_len, sizeof ex_misc, 1, 1, 2);
	  // x509_general_subtrees_add_general_subtree and x509_certificate_policies_add_policy_information are stubs that always fail: the single-element encoders are used
	  { uint8_t *tp = t; if (x509_general_subtree_to_der(X509_gn_dns_name, (uint8_t *)".example.org", 12, 0, -1, &tp, &tl) == 1) x509_exts_add_name_constraints(ex_misc, &ex_misc_len, sizeof ex_misc, 1, t, tl, NULL, 0); }
	  tl = 0; { uint8_t *qp = q; if (x509_policy_qualifier_info_to_der(OID_qt_cps, (uint8_t *)"\x16\x12http://cps.example", 20, &qp, &ql) != 1) ql = 0; }
	  { uint8_t *tp = t; if (x509_policy_information_to_der(OID_any_policy, NULL, 0, ql ? q : NULL, ql, &tp, &tl) == 1) x509_exts_add_certificate_policies(ex_misc, &ex_misc_len, sizeof ex_misc, 0, t, tl); }
	  if (x509_general_names_add_uniform_resource_identifier(gns, &gl, sizeof gns, "http://ca.example.org") == 1)
		x509_exts_add_issuer_alt_name(ex_misc, &ex_misc_len, sizeof ex_misc, 0, gns, gl);
	  x509_exts_add_authority_info_access(ex_misc, &ex_misc_len, sizeof ex_misc, 0, "http://example.org/ca.crt", 25, "http://ocsp.example.org", 23);
	  { uint8_t dp[128], *dpp = dp; size_t dpl = 0; if (x509_uri_as_distribution_point_to_der("http://example.org/delta.crl", 28, -1, NULL, 0, &dpp, &dpl) == 1) x509_exts_add_freshest_crl(ex_misc, &ex_misc_len, sizeof ex_misc, 0, dp, dpl); } }
	// CRL with two revoked entries and CRL extensions; request
	{ uint8_t rev[512], *rp = rev, ce[512]; size_t rl = 0, cel = 0; uint8_t *p = crl_der;
	  MUST(x509_revoked_cert_to_der_ex(SER_REV, sizeof SER_REV, NB, X509_cr_key_compromise, NB - 3600, NULL, 0, &rp, &rl));
	  MUST(x509_revoked_cert_to_der(SER_EE, sizeof SER_EE, NB, NULL, 0, &rp, &rl));
	  MUST(x509_crl_exts_add_default_authority_key_identifier(ce, &cel, sizeof ce, &kca));
	  MUST(x509_crl_exts_add_crl_number(ce, &cel, sizeof ce, 0, 7));
	  MUST(x509_crl_sign_to_der(X509_version_v2, OID_sm2sign_with_sm3, nm_ca, nm_ca_len, NB, NB + 30 * 86400, rev, rl, ce, cel, &kca, SM2_DEFAULT_ID, SM2_DEFAULT_ID_LENGTH, &p, &crl_len));
	  p = req_der; MUST(x509_req_sign_to_der(X509_version_v1, nm_ee, nm_ee_len, &kee, nm_ee /* empty attribute set: a buffer with length 0, as the tools pass */, 0, OID_sm2sign_with_sm3, &kee, SM2_DEFAULT_ID, SM2_DEFAULT_ID_LENGTH, &p, &req_len)); }
	MUST(sm9_sign_master_key_generate(&s9sm)); MUST(sm9_sign_master_key_extract_key(&s9sm, S9ID, strlen(S9ID), &s9sk));
	MUST(sm9_enc_master_key_generate(&s9em)); MUST(sm9_enc_master_key_extract_key(&s9em, S9ID, strlen(S9ID), &s9ek));
}

// =====================================================================================================================
// asn1: every primitive decoder on a fresh copy of (pointer, length)
// =====================================================================================================================
static int t_asn1(const uint8_t *in, size_t n)
{
	const uint8_t *p, *d; size_t l, dl; int rc, v, tag; time_t tv; const char *s;
#define FRESH (p = in, l = n)
	{ size_t len = 0; FRESH; C(asn1_length_from_der(&len, &p, &l)); }
	{ size_t len = 0; FRESH; if (C(asn1_tag_from_der(&tag, &p, &l)) == 1) C(asn1_length_from_der(&len, &p, &l)); FRESH; C(asn1_tag_from_der_readonly(&tag, &p, &l)); }
	// the name of whatever tag octet the input starts with (and of its class variants): printing paths name tags taken from the input
	if (n) { for (int k = 0; k < 4; k++) { const char *nm = asn1_tag_name((in[0] & 0x3f) | (k << 6)); if (nm) { volatile char ch = nm[0]; (void)ch; } } }
	FRESH; C(asn1_boolean_from_der(&v, &p, &l));
	FRESH; C(asn1_integer_from_der(&d, &dl, &p, &l));
	FRESH; C(asn1_int_from_der(&v, &p, &l));
	{ size_t nbits = 0; FRESH; C(asn1_bit_string_from_der(&d, &nbits, &p, &l)); }
	FRESH; C(asn1_bit_octets_from_der(&d, &dl, &p, &l));
	FRESH; if (C(asn1_bits_from_der(&v, &p, &l)) == 1) { static const char *names[] = { "b0", "b1", "b2", "b3", "b4", "b5", "b6", "b7", "b8" }; C(asn1_bits_print(nul, 0, 0, "bits", names, 9, v)); }
	FRESH; C(asn1_null_from_der(&p, &l));
	{ uint32_t *nodes = (uint32_t *)xa(sizeof(uint32_t) * ASN1_OID_MAX_NODES); size_t cnt = 0; FRESH;
	  if (C(asn1_object_identifier_from_der(nodes, &cnt, &p, &l)) == 1) C(asn1_object_identifier_print(nul, 0, 0, "oid", NULL, nodes, cnt)); }
	FRESH; C(asn1_octet_string_from_der(&d, &dl, &p, &l));
	FRESH; if (C(asn1_utf8_string_from_der(&s, &dl, &p, &l)) == 1) C(asn1_string_print(nul, 0, 0, "s", ASN1_TAG_UTF8String, (const uint8_t *)s, dl));
	FRESH; if (C(asn1_printable_string_from_der(&s, &dl, &p, &l)) == 1) C(asn1_string_print(nul, 0, 0, "s", ASN1_TAG_PrintableString, (const uint8_t *)s, dl));
	FRESH; if (C(asn1_ia5_string_from_der(&s, &dl, &p, &l)) == 1) C(asn1_string_print(nul, 0, 0, "s", ASN1_TAG_IA5String, (const uint8_t *)s, dl));
	FRESH; C(asn1_utc_time_from_der(&tv, &p, &l));
	FRESH; C(asn1_generalized_time_from_der(&tv, &p, &l));
	FRESH; if (C(asn1_sequence_from_der(&d, &dl, &p, &l)) == 1 && d) {
		size_t cnt = 0; const uint8_t *q = d; size_t ql = dl; int t0 = ASN1_TAG_INTEGER; const uint8_t *it; size_t itl;
		if (asn1_tag_from_der_readonly(&t0, &q, &ql) != 1) t0 = ASN1_TAG_INTEGER;
		C(asn1_types_get_count(d, dl, ASN1_TAG_INTEGER, &cnt));
		if (C(asn1_types_get_count(d, dl, t0, &cnt)) == 1) { C(asn1_types_get_item_by_index(d, dl, t0, 0, &it, &itl)); C(asn1_types_get_item_by_index(d, dl, t0, (int)cnt - 1, &it, &itl)); C(asn1_types_get_item_by_index(d, dl, t0, (int)cnt, &it, &itl)); }
		C(asn1_sequence_of_int_print(nul, 0, 0, "ints", d, dl)); }
	FRESH; C(asn1_set_from_der(&d, &dl, &p, &l));
	FRESH; C(asn1_any_type_from_der(&tag, &d, &dl, &p, &l));
	FRESH; C(asn1_nonempty_type_from_der(ASN1_TAG_OCTET_STRING, &d, &dl, &p, &l));
	if (!skp("sequence_of_int")) { enum { MAXN = 8 }; int *nums = (int *)xa(sizeof(int) * MAXN); size_t cnt = 0; FRESH; C(asn1_sequence_of_int_from_der(nums, &cnt, MAXN, &p, &l)); }
	C(asn1_string_is_utf8_string((const char *)in, n)); C(asn1_string_is_printable_string((const char *)in, n)); C(asn1_string_is_ia5_string((const char *)in, n));
	{ char *str = xstr(in, n); time_t t; if (n == ASN1_UTC_TIME_STRLEN) C(asn1_time_from_str(1, &t, str)); if (n == ASN1_GENERALIZED_TIME_STRLEN) C(asn1_time_from_str(0, &t, str)); }
	FRESH; rc = C(asn1_any_from_der(&d, &dl, &p, &l));
	return rc;
}
static int s_asn1(int v, uint8_t *o, size_t *ol)
{
	uint8_t *p = o; *ol = 0; int nums[3] = { 1, 300, 70000 }; uint32_t oid[] = { 1, 2, 156, 10197, 1, 301 };
	switch (v) {
	case 0: return asn1_boolean_to_der(1, &p, ol);
	case 1: return asn1_integer_to_der(SER_CA, sizeof SER_CA, &p, ol);
	case 2: return asn1_int_to_der(65537, &p, ol);
	case 3: return asn1_bit_string_to_der(SER_EE, 13, &p, ol);
	case 4: return asn1_bits_to_der(0x61, &p, ol);
	case 5: return asn1_null_to_der(&p, ol);
	case 6: return asn1_object_identifier_to_der(oid, 6, &p, ol);
	case 7: return asn1_octet_string_to_der(CONTENT, 20, &p, ol);
	case 8: return asn1_utf8_string_to_der("h\xc3\xa9llo", 6, &p, ol);
	case 9: return asn1_printable_string_to_der("Verif CA", 8, &p, ol);
	case 10: return asn1_ia5_string_to_der("a@b.example", 11, &p, ol);
	case 11: return asn1_utc_time_to_der(NB, &p, ol);
	case 12: return asn1_generalized_time_to_der(NA, &p, ol);
	case 13: return asn1_sequence_of_int_to_der(nums, 3, &p, ol);
	default: return asn1_set_to_der(nm_ca + 2, nm_ca[1] < 0x80 ? nm_ca[1] : 0, &p, ol);
	}
}
enum { NV_ASN1 = 15 };

// =====================================================================================================================
// oid: raw OID octets; plus every cheap table lookup on the TLV
// =====================================================================================================================
static void oid_lookups(const uint8_t *tlv, size_t n)
{
	const uint8_t *p; size_t l; int oid; uint32_t *nodes = (uint32_t *)xa(sizeof(uint32_t) * ASN1_OID_MAX_NODES); size_t cnt;
#define FR2 (p = tlv, l = n)
	FR2; C(x509_ext_id_from_der(&oid, nodes, &cnt, &p, &l));
	FR2; C(x509_name_type_from_der(&oid, &p, &l));
	FR2; C(x509_key_purpose_from_der(&oid, &p, &l));
	FR2; C(x509_cert_policy_id_from_der(&oid, nodes, &cnt, &p, &l));
	FR2; C(x509_qualifier_id_from_der(&oid, &p, &l));
	if (!skp("access_method")) { FR2; C(x509_access_method_from_der(&oid, &p, &l)); }
	FR2; C(x509_crl_ext_id_from_der(&oid, &p, &l));
	FR2; C(x509_crl_ext_id_from_der_ex(&oid, nodes, &cnt, &p, &l));
	FR2; C(x509_crl_entry_ext_id_from_der(&oid, &p, &l));
	FR2; C(cms_content_type_from_der(&oid, &p, &l));
	FR2; C(sm9_oid_from_der(&oid, &p, &l));
	FR2; C(ec_named_curve_from_der(&oid, &p, &l));
}
static int t_oid(const uint8_t *in, size_t n)
{
	uint32_t *nodes = (uint32_t *)xa(sizeof(uint32_t) * ASN1_OID_MAX_NODES); size_t cnt = 0;
	int rc = C(asn1_object_identifier_from_octets(nodes, &cnt, in, n));
	if (rc == 1) {
		uint8_t *oct = xa(ASN1_OID_MAX_OCTETS); size_t ol = 0;
		C(asn1_object_identifier_print(nul, 0, 0, "oid", NULL, nodes, cnt));
		C(asn1_object_identifier_to_octets(nodes, cnt, oct, &ol));
	}
	if (n < 128) { uint8_t *tlv = xa(n + 2); tlv[0] = ASN1_TAG_OBJECT_IDENTIFIER; tlv[1] = (uint8_t)n; if (n) memcpy(tlv + 2, in, n); oid_lookups(tlv, n + 2); }
	oid_lookups(in, n); // the input taken as a TLV itself
	return rc;
}
static int s_oid(int v, uint8_t *o, size_t *ol)
{
	uint32_t a[] = { 1, 2, 156, 10197, 1, 301 }, b[ASN1_OID_MAX_NODES]; b[0] = 2; b[1] = 5; for (int i = 2; i < ASN1_OID_MAX_NODES; i++) b[i] = 0x0fffffffu - (uint32_t)i * 1000003u;
	uint32_t c[] = { 2, 5, 29, 19 };
	if (v == 0) return asn1_object_identifier_to_octets(a, 6, o, ol);
	if (v == 1) return asn1_object_identifier_to_octets(b, ASN1_OID_MAX_NODES, o, ol);
	return asn1_object_identifier_to_octets(c, 4, o, ol);
}
enum { NV_OID = 3 };

// =====================================================================================================================
// base64 / hex / http: text interfaces
// =====================================================================================================================
static int b64_run(const uint8_t *in, size_t n, size_t chunk)
{
	// capacity: BASE64_DECODE_LENGTH(total input) as base64.h documents; the pieces are written one after the other
	BASE64_CTX ctx; uint8_t *out = xa(BASE64_DECODE_LENGTH(n)); size_t off = 0, pos = 0; int ol = 0, rc = 1;
	C((base64_decode_init(&ctx), 1));
	while (pos < n || (n == 0 && pos == 0)) {
		size_t k = n - pos < chunk ? n - pos : chunk; ol = 0;
		rc = C(base64_decode_update(&ctx, in + pos, (int)k, out + off, &ol)); if (rc < 0) return rc; if (ol > 0) off += (size_t)ol;
		pos += k; if (!n) break;
	}
	ol = 0; rc = C(base64_decode_finish(&ctx, out + off, &ol));
	return rc;
}
static int t_base64(const uint8_t *in, size_t n)
{
	int rc = b64_run(in, n, n ? n : 1); b64_run(in, n, 1); b64_run(in, n, 7);
	if (n < (1u << 20)) { BASE64_CTX ctx; uint8_t *out = xa(BASE64_ENCODE_LENGTH(n)); int ol = 0, o2 = 0; C((base64_encode_init(&ctx), 1));
		C(base64_encode_update(&ctx, in, (int)n, out, &ol)); C((base64_encode_finish(&ctx, out + ol, &o2), 1)); }
	return rc;
}
static int s_base64(int v, uint8_t *o, size_t *ol)
{
	BASE64_CTX ctx; int a = 0, b = 0; size_t n = v == 0 ? 100 : (v == 1 ? 47 : 1); base64_encode_init(&ctx);
	base64_encode_update(&ctx, ca_cert, (int)n, o, &a); base64_encode_finish(&ctx, o + a, &b); *ol = (size_t)(a + b); return 1;
}
enum { NV_BASE64 = 3 };

static int t_hex(const uint8_t *in, size_t n)
{
	uint8_t *out = xa(n / 2); size_t ol = 0; int rc = C(hex_to_bytes((const char *)in, n, out, &ol));
	{ uint8_t *o2 = xa(n / 2); C(hex2bin((const char *)in, n, o2)); }
	// fixed-width helpers read a fixed number of characters of a C string: only called with at least that many
	{ char *s = xstr(in, n); sm2_z256_t a; sm9_z256_t b; SM2_Z256_POINT P; SM9_Z256_POINT Q;
	  if (n >= 64) C((sm2_z256_from_hex(a, s), 1));
	  if (n >= 128) C(sm2_z256_point_from_hex(&P, s));
	  C(sm9_z256_from_hex(b, s));
	  if (n >= 129) C(sm9_z256_point_from_hex(&Q, s)); }
	return rc;
}
static int s_hex(int v, uint8_t *o, size_t *ol)
{
	static const char *hx = "0123456789abcdefABCDEF"; size_t n = v == 0 ? 64 : (v == 1 ? 128 : 10);
	for (size_t i = 0; i < n; i++) o[i] = (uint8_t)hx[(i * 7 + v) % 22]; *ol = n; return 1;
}
enum { NV_HEX = 3 };

static int t_http(const uint8_t *in, size_t n)
{
	char *uri = xstr(in, n); char *host = (char *)xa(128), *path = (char *)xa(256); int port = 0;
	int rc = C(http_parse_uri(uri, host, &port, path));
	{ char *buf = xstr(in, n); uint8_t *content = NULL; size_t cl = 0, left = 0; int r2 = C(http_parse_response(buf, n, &content, &cl, &left)); rc = best(rc, r2); } // the interface requires buf[buflen] == 0
	return rc;
}
static int s_http(int v, uint8_t *o, size_t *ol)
{
	const char *s = v == 0 ? "http://crl.example.org:8080/ca/root.crl" : (v == 1 ? "http://example.org/a" : "HTTP/1.1 200 OK\r\nServer: x\r\nContent-Length: 5\r\n\r\nhello");
	*ol = strlen(s); memcpy(o, s, *ol); return 1;
}
enum { NV_HTTP = 3 };

// =====================================================================================================================
// SM2: signature, ciphertext, points and keys
// =====================================================================================================================
static int t_sm2_sig(const uint8_t *in, size_t n)
{
	SM2_SIGNATURE sig; const uint8_t *p = in; size_t l = n; int rc = C(sm2_signature_from_der(&sig, &p, &l));
	C(sm2_signature_print(nul, 0, 0, "sig", in, n));
	if (rc == 1) C(sm2_do_verify(&kee, DGST, &sig));
	C(sm2_verify(&kee, DGST, in, n));
	{ SM2_VERIFY_CTX *ctx = (SM2_VERIFY_CTX *)xa(sizeof *ctx); if (C(sm2_verify_init(ctx, &kee, SM2_DEFAULT_ID, SM2_DEFAULT_ID_LENGTH)) == 1) { C(sm2_verify_update(ctx, CONTENT, sizeof CONTENT)); C(sm2_verify_finish(ctx, in, n)); } }
	return rc;
}
static int s_sm2_sig(int v, uint8_t *o, size_t *ol)
{
	if (v == 0) return sm2_sign(&kee, DGST, o, ol);
	if (v == 1) { *ol = 72; return sm2_sign_fixlen(&kee, DGST, 72, o); }
	SM2_SIGN_CTX ctx; if (sm2_sign_init(&ctx, &kee, SM2_DEFAULT_ID, SM2_DEFAULT_ID_LENGTH) != 1 || sm2_sign_update(&ctx, CONTENT, sizeof CONTENT) != 1) return -1; return sm2_sign_finish(&ctx, o, ol);
}
enum { NV_SM2_SIG = 3 };

static int t_sm2_ct(const uint8_t *in, size_t n)
{
	SM2_CIPHERTEXT *c = (SM2_CIPHERTEXT *)xa(sizeof *c); const uint8_t *p = in; size_t l = n; int rc = C(sm2_ciphertext_from_der(c, &p, &l));
	C(sm2_ciphertext_print(nul, 0, 0, "ct", in, n));
	if (rc == 1) { uint8_t *out = xa(SM2_MAX_PLAINTEXT_SIZE); size_t ol = 0; C(sm2_do_decrypt(&kenc, c, out, &ol)); }
	{ uint8_t *out = xa(SM2_MAX_PLAINTEXT_SIZE); size_t ol = 0; C(sm2_decrypt(&kenc, in, n, out, &ol)); }
	{ SM2_DEC_CTX *ctx = (SM2_DEC_CTX *)xa(sizeof *ctx); uint8_t *out = xa(SM2_MAX_PLAINTEXT_SIZE); size_t ol = 0;
	  if (C(sm2_decrypt_init(ctx)) == 1 && C(sm2_decrypt_update(ctx, in, n)) == 1) C(sm2_decrypt_finish(ctx, &kenc, out, &ol)); }
	return rc;
}
static int s_sm2_ct(int v, uint8_t *o, size_t *ol)
{
	uint8_t big[SM2_MAX_PLAINTEXT_SIZE]; memset(big, 0x5a, sizeof big);
	if (v == 0) return sm2_encrypt(&kenc, CONTENT, 16, o, ol);
	if (v == 1) return sm2_encrypt(&kenc, big, sizeof big, o, ol);
	return sm2_encrypt_fixlen(&kenc, CONTENT, 1, SM2_ciphertext_typical_point_size, o, ol);
}
enum { NV_SM2_CT = 3 };

static int t_sm2_point(const uint8_t *in, size_t n)
{
	SM2_Z256_POINT P; SM2_KEY k; const uint8_t *p; size_t l; int rc = -1, r;
	// sm2_z256_point_from_octets looks at the first octet before the length: every caller in the library (sm2_ecdh,
	// sm2_z256_point_from_der, the TLS key-share readers) passes at least one octet, and so does this driver
	if (n >= 1) { rc = C(sm2_z256_point_from_octets(&P, in, n)); if (rc == 1) { C(sm2_z256_point_print(nul, 0, 0, "P", &P)); C(sm2_z256_point_is_on_curve(&P)); if (C(sm2_key_set_public_key(&k, &P)) == 1) C(sm2_public_key_print(nul, 0, 0, "pub", &k)); } }
	{ uint8_t *out = xa(64); C(sm2_ecdh(&kee, in, n, out)); }
	if (n == 32) { r = C(sm2_z256_point_from_x_bytes(&P, in, 0)); rc = best(rc, r); C(sm2_z256_point_from_x_bytes(&P, in, 1)); }
	if (n == 64) { r = C(sm2_z256_point_from_bytes(&P, in)); rc = best(rc, r); }
	C(sm2_z256_point_from_hash(&P, in, n, 0));
	p = in; l = n; r = C(sm2_z256_point_from_der(&P, &p, &l)); rc = best(rc, r);
	p = in; l = n; r = C(sm2_public_key_from_der(&k, &p, &l)); rc = best(rc, r); if (r == 1) C(sm2_public_key_print(nul, 0, 0, "pub", &k));
	p = in; l = n; r = C(sm2_public_key_info_from_der(&k, &p, &l)); rc = best(rc, r); if (r == 1) { uint8_t *dg = xa(32); C(sm2_public_key_print(nul, 0, 0, "pub", &k)); C(sm2_public_key_digest(&k, dg)); }
	C(ec_point_print(nul, 0, 0, "ecpoint", in, n));
	return rc;
}
static int s_sm2_point(int v, uint8_t *o, size_t *ol)
{
	uint8_t *p = o; *ol = 0;
	switch (v) {
	case 0: *ol = 65; return sm2_z256_point_to_uncompressed_octets(&kee.public_key, o);
	case 1: *ol = 33; return sm2_z256_point_to_compressed_octets(&kee.public_key, o);
	case 2: return sm2_z256_point_to_der(&kee.public_key, &p, ol);
	case 3: return sm2_public_key_to_der(&kee, &p, ol);
	case 4: return sm2_public_key_info_to_der(&kee, &p, ol);
	case 5: { uint8_t t[64]; sm2_z256_point_to_bytes(&kee.public_key, t); memcpy(o, t, 32); *ol = 32; return 1; }
	default: sm2_z256_point_to_bytes(&kee.public_key, o); *ol = 64; return 1;
	}
}
enum { NV_SM2_POINT = 7 };

// =====================================================================================================================
// pkcs8 and the other SM2 key containers
// =====================================================================================================================
static int t_pkcs8(const uint8_t *in, size_t n)
{
	SM2_KEY k; const uint8_t *p, *at, *salt, *iv, *enc; size_t l, atl, sl, ivl, el; int rc, r, iter, keylen, prf, cipher;
#define FR3 (p = in, l = n)
	FR3; rc = C(sm2_private_key_info_from_der(&k, &at, &atl, &p, &l)); if (rc == 1) C(sm2_key_print(nul, 0, 0, "key", &k));
	FR3; r = C(pkcs8_enced_private_key_info_from_der(&salt, &sl, &iter, &keylen, &prf, &cipher, &iv, &ivl, &enc, &el, &p, &l)); rc = best(rc, r);
	FR3; r = C(sm2_private_key_info_decrypt_from_der(&k, &at, &atl, "pw", &p, &l)); rc = best(rc, r); if (r == 1) C(sm2_key_print(nul, 0, 0, "key", &k));
	FR3; r = C(sm2_private_key_from_der(&k, &p, &l)); rc = best(rc, r); if (r == 1) C(sm2_key_print(nul, 0, 0, "key", &k));
	FR3; r = C(sm2_public_key_info_from_der(&k, &p, &l)); rc = best(rc, r); if (r == 1) C(sm2_public_key_print(nul, 0, 0, "pub", &k));
	FR3; r = C(sm2_public_key_algor_from_der(&p, &l)); rc = best(rc, r);
	FR3; r = C(pbkdf2_params_from_der(&salt, &sl, &iter, &keylen, &prf, &p, &l)); rc = best(rc, r);
	FR3; r = C(pbkdf2_algor_from_der(&salt, &sl, &iter, &keylen, &prf, &p, &l)); rc = best(rc, r);
	FR3; r = C(pbes2_enc_algor_from_der(&cipher, &iv, &ivl, &p, &l)); rc = best(rc, r);
	FR3; r = C(pbes2_params_from_der(&salt, &sl, &iter, &keylen, &prf, &cipher, &iv, &ivl, &p, &l)); rc = best(rc, r);
	FR3; r = C(pbes2_algor_from_der(&salt, &sl, &iter, &keylen, &prf, &cipher, &iv, &ivl, &p, &l)); rc = best(rc, r);
	{ int oid, curve; const uint8_t *prm; size_t prml;
	  FR3; C(x509_public_key_algor_from_der(&oid, &curve, &p, &l)); FR3; C(x509_signature_algor_from_der(&oid, &p, &l)); FR3; C(x509_digest_algor_from_der(&oid, &p, &l));
	  FR3; C(x509_encryption_algor_from_der(&oid, &iv, &ivl, &p, &l)); FR3; C(x509_public_key_encryption_algor_from_der(&oid, &prm, &prml, &p, &l)); }
	// printers take the content of the outer SEQUENCE
	{ const uint8_t *d; size_t dl; FR3; if (C(asn1_sequence_from_der(&d, &dl, &p, &l)) == 1) {
		C(sm2_private_key_print(nul, 0, 0, "k", d, dl)); C(sm2_private_key_info_print(nul, 0, 0, "k", d, dl)); C(pkcs8_enced_private_key_info_print(nul, 0, 0, "k", d, dl));
		C(x509_public_key_info_print(nul, 0, 0, "k", d, dl)); C(ec_private_key_print(nul, 0, 0, "k", d, dl));
		C(pbkdf2_params_print(nul, 0, 0, "k", d, dl)); C(pbkdf2_algor_print(nul, 0, 0, "k", d, dl)); C(pbes2_enc_algor_print(nul, 0, 0, "k", d, dl)); C(pbes2_params_print(nul, 0, 0, "k", d, dl)); C(pbes2_algor_print(nul, 0, 0, "k", d, dl));
		C(x509_public_key_algor_print(nul, 0, 0, "k", d, dl)); C(x509_signature_algor_print(nul, 0, 0, "k", d, dl)); C(x509_digest_algor_print(nul, 0, 0, "k", d, dl)); C(x509_encryption_algor_print(nul, 0, 0, "k", d, dl)); C(x509_public_key_encryption_algor_print(nul, 0, 0, "k", d, dl)); } }
	return rc;
}
static int s_pkcs8(int v, uint8_t *o, size_t *ol)
{
	uint8_t *p = o; *ol = 0; uint8_t salt[8] = { 1, 2, 3, 4, 5, 6, 7, 8 };
	switch (v) {
	case 0: return sm2_private_key_info_encrypt_to_der(&kee, "pw", &p, ol);
	case 1: return sm2_private_key_info_to_der(&kee, &p, ol);
	case 2: return sm2_private_key_to_der(&kee, &p, ol);
	case 3: return sm2_public_key_info_to_der(&kee, &p, ol);
	case 4: return sm2_public_key_algor_to_der(&p, ol);
	case 5: return pbkdf2_params_to_der(salt, 8, 65536, 16, OID_hmac_sm3, &p, ol);
	default: return pbes2_algor_to_der(salt, 8, 65536, 16, OID_hmac_sm3, OID_sm4_cbc, IV16, 16, &p, ol);
	}
}
enum { NV_PKCS8 = 7 };

// =====================================================================================================================
// SM9
// =====================================================================================================================
static int t_sm9_sig(const uint8_t *in, size_t n)
{
	SM9_SIGNATURE sig; const uint8_t *p = in; size_t l = n; int rc = C(sm9_signature_from_der(&sig, &p, &l));
	C(sm9_signature_print(nul, 0, 0, "sig", in, n));
	{ SM9_SIGN_CTX ctx; if (C(sm9_verify_init(&ctx)) == 1 && C(sm9_verify_update(&ctx, CONTENT, sizeof CONTENT)) == 1) C(sm9_verify_finish(&ctx, in, n, &s9sm, S9ID, strlen(S9ID))); }
	return rc;
}
static int s_sm9_sig(int v, uint8_t *o, size_t *ol)
{
	SM9_SIGN_CTX ctx; (void)v; if (sm9_sign_init(&ctx) != 1 || sm9_sign_update(&ctx, CONTENT, sizeof CONTENT) != 1) return -1; return sm9_sign_finish(&ctx, &s9sk, o, ol);
}
enum { NV_SM9_SIG = 1 };

static int t_sm9_ct(const uint8_t *in, size_t n)
{
	SM9_Z256_POINT C1; const uint8_t *c2, *c3, *p = in; size_t c2l, l = n; int rc = C(sm9_ciphertext_from_der(&C1, &c2, &c2l, &c3, &p, &l));
	C(sm9_ciphertext_print(nul, 0, 0, "ct", in, n));
	{ uint8_t *out = xa(SM9_MAX_PLAINTEXT_SIZE); size_t ol = 0; C(sm9_decrypt(&s9ek, S9ID, strlen(S9ID), in, n, out, &ol)); }
	return rc;
}
static int s_sm9_ct(int v, uint8_t *o, size_t *ol)
{
	uint8_t big[SM9_MAX_PLAINTEXT_SIZE]; memset(big, 0x33, sizeof big);
	return v == 0 ? sm9_encrypt(&s9em, S9ID, strlen(S9ID), CONTENT, 20, o, ol) : sm9_encrypt(&s9em, S9ID, strlen(S9ID), big, sizeof big, o, ol);
}
enum { NV_SM9_CT = 2 };

static int t_sm9_key(const uint8_t *in, size_t n)
{
	SM9_SIGN_MASTER_KEY *sm = (SM9_SIGN_MASTER_KEY *)xa(sizeof *sm); SM9_SIGN_KEY *sk = (SM9_SIGN_KEY *)xa(sizeof *sk);
	SM9_ENC_MASTER_KEY *em = (SM9_ENC_MASTER_KEY *)xa(sizeof *em); SM9_ENC_KEY *ek = (SM9_ENC_KEY *)xa(sizeof *ek);
	const uint8_t *p; size_t l; int rc, r, a, b;
#define FR4 (p = in, l = n)
	FR4; rc = C(sm9_sign_master_key_from_der(sm, &p, &l)); if (rc == 1) C(sm9_sign_master_key_print(nul, 0, 0, "k", sm));
	FR4; r = C(sm9_sign_master_public_key_from_der(sm, &p, &l)); rc = best(rc, r); if (r == 1) C(sm9_sign_master_public_key_print(nul, 0, 0, "k", sm));
	FR4; r = C(sm9_sign_key_from_der(sk, &p, &l)); rc = best(rc, r); if (r == 1) C(sm9_sign_key_print(nul, 0, 0, "k", sk));
	FR4; r = C(sm9_enc_master_key_from_der(em, &p, &l)); rc = best(rc, r); if (r == 1) C(sm9_enc_master_key_print(nul, 0, 0, "k", em));
	FR4; r = C(sm9_enc_master_public_key_from_der(em, &p, &l)); rc = best(rc, r); if (r == 1) C(sm9_enc_master_public_key_print(nul, 0, 0, "k", em));
	FR4; r = C(sm9_enc_key_from_der(ek, &p, &l)); rc = best(rc, r); if (r == 1) C(sm9_enc_key_print(nul, 0, 0, "k", ek));
	FR4; r = C(sm9_sign_master_key_info_decrypt_from_der(sm, "pw", &p, &l)); rc = best(rc, r); if (r == 1) C(sm9_sign_master_key_print(nul, 0, 0, "k", sm));
	FR4; r = C(sm9_sign_key_info_decrypt_from_der(sk, "pw", &p, &l)); rc = best(rc, r); if (r == 1) C(sm9_sign_key_print(nul, 0, 0, "k", sk));
	FR4; r = C(sm9_enc_master_key_info_decrypt_from_der(em, "pw", &p, &l)); rc = best(rc, r); if (r == 1) C(sm9_enc_master_key_print(nul, 0, 0, "k", em));
	FR4; r = C(sm9_enc_key_info_decrypt_from_der(ek, "pw", &p, &l)); rc = best(rc, r); if (r == 1) C(sm9_enc_key_print(nul, 0, 0, "k", ek));
	FR4; C(sm9_algor_from_der(&a, &b, &p, &l));
	if (n == 65) { SM9_Z256_POINT P; r = C(sm9_z256_point_from_uncompressed_octets(&P, in)); rc = best(rc, r); if (r == 1) { C(sm9_z256_point_print(nul, 0, 0, "P", &P)); C(sm9_z256_point_is_on_curve(&P)); } }
	if (n == 129) { SM9_Z256_TWIST_POINT Q; r = C(sm9_z256_twist_point_from_uncompressed_octets(&Q, in)); rc = best(rc, r); if (r == 1) { C(sm9_z256_twist_point_print(nul, 0, 0, "Q", &Q)); C(sm9_z256_twist_point_is_on_curve(&Q)); } }
	return rc;
}
static int s_sm9_key(int v, uint8_t *o, size_t *ol)
{
	uint8_t *p = o; *ol = 0;
	switch (v) {
	case 0: return sm9_sign_master_key_to_der(&s9sm, &p, ol);
	case 1: return sm9_sign_master_public_key_to_der(&s9sm, &p, ol);
	case 2: return sm9_sign_key_to_der(&s9sk, &p, ol);
	case 3: return sm9_enc_master_key_to_der(&s9em, &p, ol);
	case 4: return sm9_enc_master_public_key_to_der(&s9em, &p, ol);
	case 5: return sm9_enc_key_to_der(&s9ek, &p, ol);
	case 6: return sm9_sign_master_key_info_encrypt_to_der(&s9sm, "pw", &p, ol);
	case 7: return sm9_sign_key_info_encrypt_to_der(&s9sk, "pw", &p, ol);
	case 8: return sm9_enc_master_key_info_encrypt_to_der(&s9em, "pw", &p, ol);
	case 9: return sm9_enc_key_info_encrypt_to_der(&s9ek, "pw", &p, ol);
	case 10: *ol = 65; return sm9_z256_point_to_uncompressed_octets(&s9em.Ppube, o);
	default: *ol = 129; return sm9_z256_twist_point_to_uncompressed_octets(&s9sm.Ppubs, o);
	}
}
enum { NV_SM9_KEY = 12 };

// =====================================================================================================================
// X.509: every extension-value parser on one value (v,n is a DER TLV); printers get the content of the outer SEQUENCE
// =====================================================================================================================
static void ext_value_parsers(const uint8_t *v, size_t n)
{
	const uint8_t *p, *d, *a, *b, *c; const char *u1, *u2; size_t l, dl, al, bl, cl, cnt, c2; int i1, i2, i3, i4, i5, i6, i7; time_t tv;
	uint32_t *nodes = (uint32_t *)xa(sizeof(uint32_t) * ASN1_OID_MAX_NODES), *nodes2 = (uint32_t *)xa(sizeof(uint32_t) * ASN1_OID_MAX_NODES);
	int *nums = (int *)xa(sizeof(int) * X509_MAX_NOTICE_NUMBERS), *kps = (int *)xa(sizeof(int) * X509_MAX_KEY_PURPOSES);
#define FR (p = v, l = n)
	FR; C(x509_authority_key_identifier_from_der(&a, &al, &b, &bl, &c, &cl, &p, &l));
	FR; if (C(x509_key_usage_from_der(&i1, &p, &l)) == 1) { C(x509_key_usage_print(nul, 0, 0, "ku", i1)); C(x509_key_usage_check(i1, X509_cert_server_auth)); C(x509_revoke_reason_flags_print(nul, 0, 0, "rf", i1)); C(x509_netscape_cert_type_print(nul, 0, 0, "ns", i1)); }
	FR; if (C(x509_basic_constraints_from_der(&i1, &i2, &p, &l)) == 1) C(x509_basic_constraints_check(i1, i2, X509_cert_ca));
	FR; if (C(x509_name_constraints_from_der(&a, &al, &b, &bl, &p, &l)) == 1) { if (a) C(x509_general_subtrees_print(nul, 0, 0, "permitted", a, al)); if (b) C(x509_general_subtrees_print(nul, 0, 0, "excluded", b, bl)); }
	FR; C(x509_policy_constraints_from_der(&i1, &i2, &p, &l));
	FR; if (C(x509_ext_key_usage_from_der(kps, &cnt, X509_MAX_KEY_PURPOSES, &p, &l)) == 1) C(x509_ext_key_usage_check(kps, cnt, X509_cert_server_auth));
	FR; C(x509_uri_as_distribution_points_from_der(&u1, &al, &i1, &b, &bl, &p, &l));
	FR; C(x509_uri_as_distribution_point_from_der(&u1, &al, &i1, &b, &bl, &p, &l));
	FR; C(x509_uri_as_distribution_point_name_from_der(&u1, &al, &p, &l));
	FR; C(x509_uri_as_explicit_distribution_point_name_from_der(0, &u1, &al, &p, &l));
	FR; if (C(x509_distribution_point_name_from_der(&i1, &d, &dl, &p, &l)) == 1) C(x509_distribution_point_name_print(nul, 0, 0, "dpn", v, n));
	if (!skp("access_method")) { FR; C(x509_authority_info_access_from_der(&u1, &al, &u2, &bl, &p, &l)); FR; C(x509_access_description_from_der(&i1, &u1, &al, &p, &l)); }
	FR; C(asn1_octet_string_from_der(&d, &dl, &p, &l));
	FR; C(asn1_int_from_der(&i1, &p, &l));
	FR; if (C(x509_general_name_from_der(&i1, &d, &dl, &p, &l)) == 1) C(x509_general_name_print(nul, 0, 0, "gn", i1, d, dl));
	FR; C(x509_other_name_from_der(nodes, &cnt, &d, &dl, &p, &l));
	FR; C(x509_edi_party_name_from_der(&i1, &a, &al, &i2, &b, &bl, &p, &l));
	FR; C(x509_notice_reference_from_der(&i1, &a, &al, nums, &cnt, X509_MAX_NOTICE_NUMBERS, &p, &l));
	FR; C(x509_user_notice_from_der(&i1, &a, &al, nums, &cnt, X509_MAX_NOTICE_NUMBERS, &i2, &b, &bl, &p, &l));
	FR; if (C(x509_display_text_from_der(&i1, &d, &dl, &p, &l)) == 1) { C(x509_display_text_check(i1, d, dl)); C(x509_display_text_print(nul, 0, 0, "dt", i1, d, dl)); }
	FR; if (C(x509_directory_name_from_der(&i1, &d, &dl, &p, &l)) == 1) { C(x509_directory_name_check(i1, d, dl)); C(x509_directory_name_print(nul, 0, 0, "dn", i1, d, dl)); }
	FR; C(x509_explicit_directory_name_from_der(0, &i1, &d, &dl, &p, &l));
	FR; C(x509_policy_qualifier_info_from_der(&i1, &d, &dl, &p, &l));
	FR; C(x509_policy_information_from_der(&i1, nodes, &cnt, &d, &dl, &p, &l));
	FR; C(x509_policy_mapping_from_der(&i1, nodes, &cnt, &i2, nodes2, &c2, &p, &l));
	FR; C(x509_attribute_from_der(&i1, nodes, &cnt, &d, &dl, &p, &l));
	FR; C(x509_general_subtree_from_der(&i1, &d, &dl, &i2, &i3, &p, &l));
	FR; C(x509_issuing_distribution_point_from_der(&i1, &d, &dl, &i2, &i3, &i4, &i5, &i6, &p, &l));
	FR; C(x509_crl_reason_from_der(&i1, &p, &l));
	FR; C(x509_time_from_der(&tv, &p, &l));
	FR; { time_t t2; C(x509_validity_from_der(&tv, &t2, &p, &l)); }
	FR; C(x509_explicit_version_from_der(0, &i1, &p, &l));
	FR; C(x509_ext_from_der(&i1, nodes, &cnt, &i2, &d, &dl, &p, &l));
	FR; C(x509_crl_ext_from_der_ex(&i1, nodes, &cnt, &i2, &d, &dl, &p, &l));
	FR; C(x509_crl_entry_ext_from_der(&i1, &i2, &d, &dl, &p, &l));
	FR; C(x509_crl_entry_ext_from_der_ex(&i1, &i2, &i3, &tv, &d, &dl, &p, &l));
	FR; C(x509_crl_entry_exts_from_der(&i1, &tv, &d, &dl, &p, &l));
	FR; C(x509_attr_type_and_value_from_der(&i1, &i2, &d, &dl, &p, &l));
	FR; C(x509_rdn_from_der(&i1, &i2, &a, &al, &b, &bl, &p, &l));
	(void)i7;
	FR; if (C(asn1_sequence_from_der(&d, &dl, &p, &l)) == 1) {
		C(x509_authority_key_identifier_print(nul, 0, 0, "x", d, dl)); C(x509_certificate_policies_print(nul, 0, 0, "x", d, dl)); C(x509_policy_mappings_print(nul, 0, 0, "x", d, dl));
		C(x509_general_names_print(nul, 0, 0, "x", d, dl)); C(x509_attributes_print(nul, 0, 0, "x", d, dl)); C(x509_basic_constraints_print(nul, 0, 0, "x", d, dl));
		C(x509_name_constraints_print(nul, 0, 0, "x", d, dl)); C(x509_policy_constraints_print(nul, 0, 0, "x", d, dl)); C(x509_ext_key_usage_print(nul, 0, 0, "x", d, dl));
		C(x509_distribution_points_print(nul, 0, 0, "x", d, dl)); C(x509_distribution_point_print(nul, 0, 0, "x", d, dl));
		if (!skp("access_method")) { C(x509_authority_info_access_print(nul, 0, 0, "x", d, dl)); C(x509_access_description_print(nul, 0, 0, "x", d, dl)); }
		C(x509_other_name_print(nul, 0, 0, "x", d, dl)); C(x509_edi_party_name_print(nul, 0, 0, "x", d, dl));
		C(x509_notice_reference_print(nul, 0, 0, "x", d, dl)); C(x509_user_notice_print(nul, 0, 0, "x", d, dl)); C(x509_policy_qualifier_info_print(nul, 0, 0, "x", d, dl));
		C(x509_policy_qualifier_infos_print(nul, 0, 0, "x", d, dl)); C(x509_policy_information_print(nul, 0, 0, "x", d, dl)); C(x509_policy_mapping_print(nul, 0, 0, "x", d, dl));
		C(x509_attribute_print(nul, 0, 0, "x", d, dl)); C(x509_general_subtree_print(nul, 0, 0, "x", d, dl)); C(x509_general_subtrees_print(nul, 0, 0, "x", d, dl));
		C(x509_issuing_distribution_point_print(nul, 0, 0, "x", d, dl)); C(x509_ext_print(nul, 0, 0, "x", d, dl)); C(x509_crl_ext_print(nul, 0, 0, "x", d, dl)); C(x509_crl_entry_ext_print(nul, 0, 0, "x", d, dl));
		C(x509_validity_print(nul, 0, 0, "x", d, dl)); C(x509_attr_type_and_value_print(nul, 0, 0, "x", d, dl)); }
}
static const int EXT_OIDS[] = { OID_ce_authority_key_identifier, OID_ce_subject_key_identifier, OID_ce_key_usage, OID_ce_basic_constraints, OID_ce_ext_key_usage, OID_ce_subject_alt_name, OID_ce_crl_distribution_points, OID_ce_name_constraints, OID_ce_certificate_policies };
static int exts_walk(const uint8_t *d, size_t n, int deep)
{
	int rc, pl = -1, crit; const uint8_t *val; size_t vl;
	C(x509_exts_print(nul, 0, 0, "exts", d, n));
	rc = C(x509_exts_check(d, n, X509_cert_server_auth, &pl)); // rc: accepted for any of the certificate types tried
	{ int r = C(x509_exts_check(d, n, X509_cert_ca, &pl)); rc = best(rc, r); r = C(x509_exts_check(d, n, X509_cert_client_key_encipher, &pl)); rc = best(rc, r); r = C(x509_exts_check(d, n, X509_cert_crl_sign, &pl)); rc = best(rc, r); }
	for (size_t i = 0; i < sizeof EXT_OIDS / sizeof EXT_OIDS[0]; i++) C(x509_exts_get_ext_by_oid(d, n, EXT_OIDS[i], &crit, &val, &vl));
	if (deep) {
		const uint8_t *p = d; size_t l = n; int guard = 0; uint32_t *nodes = (uint32_t *)xa(sizeof(uint32_t) * ASN1_OID_MAX_NODES); size_t cnt; int oid;
		while (l && guard++ < 64) { const uint8_t *q = p; size_t ql = l, el; const uint8_t *e;
			if (C(x509_ext_from_der(&oid, nodes, &cnt, &crit, &val, &vl, &p, &l)) != 1) break;
			if (asn1_sequence_from_der(&e, &el, &q, &ql) == 1) C(x509_ext_print(nul, 0, 0, "ext", e, el));
			ext_value_parsers(val, vl); }
	}
	return rc;
}
static int t_x509_exts(const uint8_t *in, size_t n)
{
	const uint8_t *p, *d; size_t l, dl; int rc = exts_walk(in, n, 1);
	C(x509_crl_exts_print(nul, 0, 0, "crlexts", in, n)); C(x509_crl_exts_check(in, n)); C(x509_crl_entry_exts_print(nul, 0, 0, "entryexts", in, n)); C(x509_crl_entry_exts_check(in, n));
	{ int reason; time_t inv; C(x509_crl_entry_exts_get(in, n, &reason, &inv, &d, &dl)); }
	p = in; l = n; C(x509_explicit_exts_from_der(3, &d, &dl, &p, &l)); p = in; l = n; C(x509_explicit_exts_from_der(0, &d, &dl, &p, &l));
	ext_value_parsers(in, n);
	return rc;
}
static int s_x509_exts(int v, uint8_t *o, size_t *ol)
{
	const uint8_t *s = v == 0 ? ex_ee : (v == 1 ? ex_ca : (v == 2 ? ex_misc : ex_enc)); *ol = v == 0 ? ex_ee_len : (v == 1 ? ex_ca_len : (v == 2 ? ex_misc_len : ex_enc_len));
	// inhibitAnyPolicy is kept in a variant of its own: x509_ext_print falls through from that case into the freshestCRL printer with an unset pointer
	if (v == 4) { *ol = 0; return x509_exts_add_inhibit_any_policy(o, ol, 512, 1, 2); }
	memcpy(o, s, *ol); return 1;
}
enum { NV_X509_EXTS = 5 };

static int name_walk(const uint8_t *d, size_t n)
{
	static const int types[] = { OID_at_common_name, OID_at_country_name, OID_at_organization_name, OID_at_organizational_unit_name, OID_at_state_or_province_name, OID_at_locality_name, OID_at_serial_number };
	int rc = C(x509_name_check(d, n)), tag; const uint8_t *val, *p = d; size_t vl, l = n; int guard = 0;
	C(x509_name_print(nul, 0, 0, "name", d, n));
	for (size_t i = 0; i < sizeof types / sizeof types[0]; i++) C(x509_name_get_value_by_type(d, n, types[i], &tag, &val, &vl));
	C(x509_name_get_common_name(d, n, &tag, &val, &vl));
	C(x509_name_equ(d, n, d, n)); C(x509_name_equ(d, n, nm_ca, nm_ca_len)); C(x509_name_equ(nm_ca, nm_ca_len, d, n));
	while (l && guard++ < 64) { const uint8_t *rdn; size_t rl; if (asn1_set_from_der(&rdn, &rl, &p, &l) != 1) break;
		C(x509_rdn_check(rdn, rl)); C(x509_rdn_print(nul, 0, 0, "rdn", rdn, rl));
		{ int oid; const uint8_t *q = rdn; size_t ql = rl; if (C(x509_attr_type_and_value_from_der(&oid, &tag, &val, &vl, &q, &ql)) == 1) { C(x509_attr_type_and_value_check(oid, tag, val, vl)); C(x509_directory_name_check(tag, val, vl)); C(x509_directory_name_print(nul, 0, 0, "v", tag, val, vl)); } } }
	return rc;
}
static int t_x509_name(const uint8_t *in, size_t n)
{
	const uint8_t *p = in, *d; size_t l = n, dl; int rc = name_walk(in, n);
	C(x509_names_print(nul, 0, 0, "names", in, n));
	C(tls_certificate_subjects_print(nul, 0, 0, "subjects", in, n));
	if (C(x509_name_from_der(&d, &dl, &p, &l)) == 1) name_walk(d, dl); // the input taken as the Name TLV
	{ int oid, tag; const uint8_t *v, *m; size_t vl, ml; p = in; l = n; C(x509_rdn_from_der(&oid, &tag, &v, &vl, &m, &ml, &p, &l)); }
	return rc;
}
static int s_x509_name(int v, uint8_t *o, size_t *ol)
{
	if (v == 0) { memcpy(o, nm_ca, nm_ca_len); *ol = nm_ca_len; return 1; }
	if (v == 1) { memcpy(o, nm_ee, nm_ee_len); *ol = nm_ee_len; return 1; }
	*ol = 0; x509_name_add_country_name(o, ol, 512, "CN"); x509_name_add_organization_name(o, ol, 512, ASN1_TAG_PrintableString, (uint8_t *)"Verif Org", 9);
	x509_name_add_domain_component(o, ol, 512, "example", 7); x509_name_add_locality_name(o, ol, 512, ASN1_TAG_UTF8String, (uint8_t *)"n\xc3\xa4me", 5);
	return x509_name_add_common_name(o, ol, 512, ASN1_TAG_PrintableString, (uint8_t *)"leaf two", 8);
}
enum { NV_X509_NAME = 3 };

static int t_x509_cert(const uint8_t *in, size_t n, const uint8_t *aux, size_t auxl)
{
	const uint8_t *p = in, *a, *ser, *iss, *sub, *iu, *su, *ex, *sig, *cert; size_t l = n, al, serl, issl, subl, iul, sul, exl, sigl, certl, cnt = 0; int ver, a1, a2, pl, vr = 0; time_t t1, t2; SM2_KEY *pub = (SM2_KEY *)xa(sizeof *pub);
	C(x509_cert_from_der(&a, &al, &p, &l));
	int rc = C(x509_cert_get_details(in, n, &ver, &ser, &serl, &a1, &iss, &issl, &t1, &t2, &sub, &subl, pub, &iu, &iul, &su, &sul, &ex, &exl, &a2, &sig, &sigl));
	if (rc == 1) { name_walk(iss, issl); name_walk(sub, subl); C(sm2_public_key_print(nul, 0, 0, "pub", pub)); C(x509_validity_check(t1, t2, vh_now, X509_VALIDITY_MAX_SECONDS)); }
	C(x509_cert_get_issuer_and_serial_number(in, n, &iss, &issl, &ser, &serl));
	C(x509_cert_get_issuer(in, n, &iss, &issl)); C(x509_cert_get_subject(in, n, &sub, &subl));
	C(x509_cert_get_subject_public_key(in, n, pub));
	if (C(x509_cert_get_exts(in, n, &ex, &exl)) == 1 && ex) exts_walk(ex, exl, 1);
	C(x509_cert_print(nul, 0, 0, "cert", in, n));
	for (int t = X509_cert_server_auth; t <= X509_cert_crl_sign; t++) C(x509_cert_check(in, n, t, &pl));
	C(x509_signed_verify(in, n, &kca, SM2_DEFAULT_ID, SM2_DEFAULT_ID_LENGTH));
	if (auxl) { C(x509_cert_verify_by_ca_cert(in, n, aux, auxl, SM2_DEFAULT_ID, SM2_DEFAULT_ID_LENGTH)); C(x509_signed_verify_by_ca_cert(in, n, aux, auxl, SM2_DEFAULT_ID, SM2_DEFAULT_ID_LENGTH)); }
	else { C(x509_cert_verify_by_ca_cert(in, n, in, n, SM2_DEFAULT_ID, SM2_DEFAULT_ID_LENGTH)); C(x509_cert_verify_by_ca_cert(in, n, ca_cert, ca_len, SM2_DEFAULT_ID, SM2_DEFAULT_ID_LENGTH)); }
	{ const uint8_t *tbs; size_t tbsl; p = in; l = n; if (C(x509_signed_from_der(&tbs, &tbsl, &a1, &sig, &sigl, &p, &l)) == 1) { const uint8_t *d; size_t dl; if (asn1_sequence_from_der(&d, &dl, &tbs, &tbsl) == 1) C(x509_tbs_cert_print(nul, 0, 0, "tbs", d, dl)); } }
	// the same bytes as a certificate chain
	{ int r = C(x509_certs_get_count(in, n, &cnt)); if (r == 1 && cnt > 1) rc = best(rc, r); } // a chain of several certificates counts as decoded
	if (cnt) { C(x509_certs_get_cert_by_index(in, n, 0, &cert, &certl)); C(x509_certs_get_cert_by_index(in, n, (int)cnt - 1, &cert, &certl)); C(x509_certs_get_cert_by_index(in, n, (int)cnt, &cert, &certl)); }
	C(x509_certs_get_last(in, n, &cert, &certl));
	C(x509_certs_get_cert_by_subject(in, n, nm_ee, nm_ee_len, &cert, &certl));
	C(x509_certs_get_cert_by_issuer_and_serial_number(in, n, nm_ca, nm_ca_len, SER_EE, sizeof SER_EE, &cert, &certl));
	C(x509_certs_verify(in, n, X509_cert_chain_server, auxl ? aux : ca_cert, auxl ? auxl : ca_len, X509_MAX_VERIFY_DEPTH, &vr));
	C(x509_certs_verify(in, n, X509_cert_chain_client, auxl ? aux : ca_cert, auxl ? auxl : ca_len, X509_MAX_VERIFY_DEPTH, &vr));
	C(x509_certs_verify_tlcp(in, n, X509_cert_chain_server, auxl ? aux : ca_cert, auxl ? auxl : ca_len, X509_MAX_VERIFY_DEPTH, &vr));
	C(x509_certs_print(nul, 0, 0, "certs", in, n));
	{ uint8_t *names = xa(n + 16); size_t nl = 0; C(tls_authorities_from_certs(names, &nl, n + 16, in, n)); C(tls_authorities_issued_certificate(nm_ca, nm_ca_len, in, n)); }
	// x509_cert_check_crl is left out on purpose: it fetches the CRL named in the certificate over the network
	return rc;
}
static int s_x509_cert(int v, uint8_t *o, size_t *ol)
{
	const uint8_t *s = v == 0 ? ee_cert : (v == 1 ? ca_cert : (v == 2 ? chain : enc_cert)); *ol = v == 0 ? ee_len : (v == 1 ? ca_len : (v == 2 ? chain_len : enc_len));
	if (v == 4) { uint8_t iu[32], su[32]; memset(iu, 0x11, 32); memset(su, 0x22, 32); uint8_t *p = o; *ol = 0; // v2-style unique identifiers and the misc extensions
		return x509_cert_sign_to_der(X509_version_v3, SER_REV, sizeof SER_REV, OID_sm2sign_with_sm3, nm_ca, nm_ca_len, NB, NA, nm_enc, nm_enc_len, &kother, iu, 32, su, 32, ex_misc, ex_misc_len, &kca, SM2_DEFAULT_ID, SM2_DEFAULT_ID_LENGTH, &p, ol); }
	memcpy(o, s, *ol); return 1;
}
enum { NV_X509_CERT = 5 };

static int t_x509_crl(const uint8_t *in, size_t n, const uint8_t *aux, size_t auxl)
{
	const uint8_t *p = in, *a, *iss, *rev, *ex, *sig, *ee, *d; size_t l = n, al, issl, revl, exl, sigl, eel, dl; int ver, a1, a2; time_t t1, t2, rd;
	C(x509_crl_from_der(&a, &al, &p, &l));
	int rc = C(x509_crl_get_details(in, n, &ver, &a1, &iss, &issl, &t1, &t2, &rev, &revl, &ex, &exl, &a2, &sig, &sigl));
	C(x509_crl_print(nul, 0, 0, "crl", in, n));
	C(x509_crl_check(in, n, vh_now));
	C(x509_signed_verify(in, n, &kca, SM2_DEFAULT_ID, SM2_DEFAULT_ID_LENGTH)); // x509_crl_verify is declared but not built: CRLs verify through the generic signed-object check
	C(x509_crl_verify_by_ca_cert(in, n, auxl ? aux : ca_cert, auxl ? auxl : ca_len, SM2_DEFAULT_ID, SM2_DEFAULT_ID_LENGTH));
	C(x509_crl_get_issuer(in, n, &iss, &issl)); C(x509_crl_get_revoked_certs(in, n, &d, &dl));
	if (C(x509_crl_find_revoked_cert_by_serial_number(in, n, SER_REV, sizeof SER_REV, &rd, &ee, &eel)) == 1 && ee) {
		int reason; time_t inv; C(x509_crl_entry_exts_get(ee, eel, &reason, &inv, &d, &dl)); C(x509_crl_entry_exts_print(nul, 0, 0, "ee", ee, eel)); C(x509_crl_entry_exts_check(ee, eel)); }
	C(x509_crl_find_revoked_cert_by_serial_number(in, n, SER_CA, sizeof SER_CA, &rd, &ee, &eel));
	p = in; l = n; C(x509_crl_from_der_ex(&ver, &a1, &iss, &issl, &t1, &t2, &rev, &revl, &ex, &exl, &a2, &sig, &sigl, &p, &l));
	if (rc == 1) {
		name_walk(iss, issl);
		if (ex) { C(x509_crl_exts_print(nul, 0, 0, "exts", ex, exl)); C(x509_crl_exts_check(ex, exl)); exts_walk(ex, exl, 0);
			{ const uint8_t *q = ex; size_t ql = exl; int guard = 0, oid, crit; uint32_t *nodes = (uint32_t *)xa(sizeof(uint32_t) * ASN1_OID_MAX_NODES); size_t cnt; const uint8_t *val; size_t vl;
			  while (ql && guard++ < 64) { if (C(x509_crl_ext_from_der_ex(&oid, nodes, &cnt, &crit, &val, &vl, &q, &ql)) != 1) break; C(x509_crl_ext_critical_check(oid, crit)); ext_value_parsers(val, vl); } } }
		if (rev) { const uint8_t *q = rev, *ser; size_t ql = revl, serl; int guard = 0;
			C(x509_revoked_certs_print(nul, 0, 0, "revoked", rev, revl));
			C(x509_revoked_certs_find_revoked_cert_by_serial_number(rev, revl, SER_REV, sizeof SER_REV, &rd, &ee, &eel));
			while (ql && guard++ < 256) { const uint8_t *q2 = q; size_t ql2 = ql; int reason; time_t inv;
				C(x509_revoked_cert_from_der_ex(&ser, &serl, &rd, &reason, &inv, &d, &dl, &q2, &ql2));
				if (C(x509_revoked_cert_from_der(&ser, &serl, &rd, &ee, &eel, &q, &ql)) != 1) break;
				if (ee) { C(x509_crl_entry_exts_print(nul, 0, 0, "ee", ee, eel)); C(x509_crl_entry_exts_get(ee, eel, &reason, &inv, &d, &dl)); C(x509_crl_entry_exts_check(ee, eel)); } } }
	}
	{ const uint8_t *tbs; size_t tbsl; p = in; l = n; if (C(x509_signed_from_der(&tbs, &tbsl, &a1, &sig, &sigl, &p, &l)) == 1) { if (asn1_sequence_from_der(&d, &dl, &tbs, &tbsl) == 1) C(x509_tbs_crl_print(nul, 0, 0, "tbs", d, dl)); } }
	C(x509_crls_print(nul, 0, 0, "crls", in, n));
	return rc;
}
static int s_x509_crl(int v, uint8_t *o, size_t *ol)
{
	uint8_t *p = o; *ol = 0;
	if (v == 0) { memcpy(o, crl_der, crl_len); *ol = crl_len; return 1; }
	if (v == 1) return x509_crl_sign_to_der(X509_version_v2, OID_sm2sign_with_sm3, nm_ca, nm_ca_len, NB, (time_t)-1, NULL, 0, NULL, 0, &kca, SM2_DEFAULT_ID, SM2_DEFAULT_ID_LENGTH, &p, ol);
	{ uint8_t rev[256], *rp = rev, ce[512]; size_t rl = 0, cel = 0;
	  if (x509_revoked_cert_to_der_ex(SER_REV, sizeof SER_REV, NB, X509_cr_ca_compromise, (time_t)-1, nm_ca, nm_ca_len, &rp, &rl) != 1) return -1;
	  x509_crl_exts_add_crl_number(ce, &cel, sizeof ce, 0, 9); x509_crl_exts_add_delta_crl_indicator(ce, &cel, sizeof ce, 1, 7);
	  x509_crl_exts_add_issuing_distribution_point(ce, &cel, sizeof ce, 1, "http://example.org/ca.crl", 25, 1, 0, 0, 0, 0);
	  x509_crl_exts_add_freshest_crl(ce, &cel, sizeof ce, 0, "http://example.org/delta.crl", 28, NULL, 0);
	  return x509_crl_sign_to_der(X509_version_v2, OID_sm2sign_with_sm3, nm_ca, nm_ca_len, NB, NB + 86400, rev, rl, ce, cel, &kca, SM2_DEFAULT_ID, SM2_DEFAULT_ID_LENGTH, &p, ol); }
}
enum { NV_X509_CRL = 3 };

static int t_x509_req(const uint8_t *in, size_t n)
{
	const uint8_t *p = in, *a, *sub, *at, *sig; size_t l = n, al, subl, atl, sigl; int ver, a2; SM2_KEY *pub = (SM2_KEY *)xa(sizeof *pub);
	C(x509_req_from_der(&a, &al, &p, &l));
	int rc = C(x509_req_get_details(in, n, &ver, &sub, &subl, pub, &at, &atl, &a2, &sig, &sigl));
	C(x509_req_print(nul, 0, 0, "req", in, n));
	C(x509_req_verify(in, n, SM2_DEFAULT_ID, SM2_DEFAULT_ID_LENGTH));
	C(x509_signed_verify(in, n, &kee, SM2_DEFAULT_ID, SM2_DEFAULT_ID_LENGTH));
	if (rc == 1) { name_walk(sub, subl); if (at) C(x509_attributes_print(nul, 0, 0, "attrs", at, atl)); C(sm2_public_key_print(nul, 0, 0, "pub", pub)); }
	{ const uint8_t *tbs, *d; size_t tbsl, dl; int a1; p = in; l = n; if (C(x509_signed_from_der(&tbs, &tbsl, &a1, &sig, &sigl, &p, &l)) == 1) {
		const uint8_t *q = tbs; size_t ql = tbsl; C(x509_request_info_from_der(&ver, &sub, &subl, pub, &at, &atl, &q, &ql));
		if (asn1_sequence_from_der(&d, &dl, &tbs, &tbsl) == 1) C(x509_request_info_print(nul, 0, 0, "info", d, dl)); } }
	return rc;
}
static int s_x509_req(int v, uint8_t *o, size_t *ol)
{
	uint8_t *p = o; *ol = 0; if (v == 0) { memcpy(o, req_der, req_len); *ol = req_len; return 1; }
	return x509_req_sign_to_der(X509_version_v1, nm_enc, nm_enc_len, &kenc, nm_enc, 0, OID_sm2sign_with_sm3, &kenc, "reqid", 5, &p, ol);
}
enum { NV_X509_REQ = 2 };

// =====================================================================================================================
// CMS. Content output buffers have exactly the length of the CMS input (what the command line tools allocate).
// =====================================================================================================================
static int t_cms(const uint8_t *in, size_t n, const uint8_t *aux, size_t auxl)
{
	const uint8_t *p = in, *content, *pc, *certs, *crls, *sis, *ris, *s1, *s2, *q, *d; size_t l = n, cl, pcl, certsl, crlsl, sisl, risl, s1l, s2l, ql, dl, outl; int ct, ct2, alg, ver, rc;
	const uint8_t *key = auxl == 16 ? aux : KEY16; enum { MAXD = 4 };
	C(cms_print(nul, 0, 0, "cms", in, n));
	rc = C(cms_content_info_from_der(&ct, &content, &cl, &p, &l));
	if (C(cms_verify(in, n, NULL, 0, NULL, 0, &ct2, &pc, &pcl, &certs, &certsl, &crls, &crlsl, &sis, &sisl)) == 1) {
		if (sis) C(cms_signer_infos_print(nul, 0, 0, "signerInfos", sis, sisl)); if (certs) C(x509_certs_print(nul, 0, 0, "certs", certs, certsl)); if (crls) C(x509_crls_print(nul, 0, 0, "crls", crls, crlsl)); }
	C(cms_verify(in, n, chain, chain_len, crl_der, crl_len, &ct2, &pc, &pcl, &certs, &certsl, &crls, &crlsl, &sis, &sisl));
	{ uint8_t *out = xa(n); outl = 0; C(cms_decrypt(in, n, &alg, key, 16, &ct2, out, &outl, &s1, &s1l, &s2, &s2l)); }
	{ uint8_t *out = xa(n); outl = 0; if (C(cms_deenvelop(in, n, &kenc, enc_cert, enc_len, &ct2, out, &outl, &ris, &risl, &s1, &s1l, &s2, &s2l)) == 1 && ris) C(cms_recipient_infos_print(nul, 0, 0, "rcpts", ris, risl)); }
	{ uint8_t *out = xa(n); outl = 0; C(cms_deenvelop_and_verify(in, n, &kenc, enc_cert, enc_len, NULL, 0, NULL, 0, &ct2, out, &outl, &ris, &risl, &sis, &sisl, &certs, &certsl, &crls, &crlsl, &s1, &s1l, &s2, &s2l)); }
	if (rc == 1 && content) {
		int *da = (int *)xa(sizeof(int) * MAXD); size_t dac; const uint8_t *eci, *iv, *ec; size_t ecil, ivl, ecl;
		q = content; ql = cl; if (C(cms_signed_data_from_der(&ver, da, &dac, MAXD, &ct2, &pc, &pcl, &certs, &certsl, &crls, &crlsl, &sis, &sisl, &q, &ql)) == 1 && sis) {
			const uint8_t *s = sis; size_t sl = sisl; int guard = 0, a1, a2; const uint8_t *iss, *ser, *aa, *ed, *ua; size_t issl, serl, aal, edl, ual;
			C(cms_signer_infos_print(nul, 0, 0, "signerInfos", sis, sisl));
			while (sl && guard++ < 32) if (C(cms_signer_info_from_der(&ver, &iss, &issl, &ser, &serl, &a1, &aa, &aal, &a2, &ed, &edl, &ua, &ual, &s, &sl)) != 1) break; }
		q = content; ql = cl; if (C(cms_enveloped_data_from_der(&ver, &ris, &risl, &eci, &ecil, &q, &ql)) == 1) {
			const uint8_t *s = ris; size_t sl = risl; int guard = 0, pke; const uint8_t *iss, *ser, *prm, *ek; size_t issl, serl, prml, ekl;
			if (ris) C(cms_recipient_infos_print(nul, 0, 0, "rcpts", ris, risl));
			while (s && sl && guard++ < 32) if (C(cms_recipient_info_from_der(&ver, &iss, &issl, &ser, &serl, &pke, &prm, &prml, &ek, &ekl, &s, &sl)) != 1) break;
			s = eci; sl = ecil; C(cms_enced_content_info_from_der(&ct2, &alg, &iv, &ivl, &ec, &ecl, &s1, &s1l, &s2, &s2l, &s, &sl)); }
		q = content; ql = cl; C(cms_encrypted_data_from_der(&ver, &ct2, &alg, &iv, &ivl, &ec, &ecl, &s1, &s1l, &s2, &s2l, &q, &ql));
		q = content; ql = cl; C(cms_signed_and_enveloped_data_from_der(&ver, &ris, &risl, da, &dac, MAXD, &eci, &ecil, &certs, &certsl, &crls, &crlsl, &sis, &sisl, &q, &ql));
		{ SM2_KEY *tk = (SM2_KEY *)xa(sizeof *tk); const uint8_t *uc, *uid; size_t ucl, uidl; q = content; ql = cl; C(cms_key_agreement_info_from_der(&ver, tk, &uc, &ucl, &uid, &uidl, &q, &ql)); }
		q = content; ql = cl; C(cms_enced_content_info_from_der(&ct2, &alg, &iv, &ivl, &ec, &ecl, &s1, &s1l, &s2, &s2l, &q, &ql));
		q = content; ql = cl; C(cms_digest_algors_from_der(da, &dac, MAXD, &q, &ql));
		{ const uint8_t *iss, *ser; size_t issl, serl; q = content; ql = cl; C(cms_issuer_and_serial_number_from_der(&iss, &issl, &ser, &serl, &q, &ql)); }
		q = content; ql = cl; if (C(asn1_sequence_from_der(&d, &dl, &q, &ql)) == 1) {
			C(cms_signed_data_print(nul, 0, 0, "x", d, dl)); C(cms_enveloped_data_print(nul, 0, 0, "x", d, dl)); C(cms_encrypted_data_print(nul, 0, 0, "x", d, dl)); C(cms_signed_and_enveloped_data_print(nul, 0, 0, "x", d, dl));
			C(cms_key_agreement_info_print(nul, 0, 0, "x", d, dl)); C(cms_enced_content_info_print(nul, 0, 0, "x", d, dl)); C(cms_signer_info_print(nul, 0, 0, "x", d, dl)); C(cms_recipient_info_print(nul, 0, 0, "x", d, dl));
			C(cms_issuer_and_serial_number_print(nul, 0, 0, "x", d, dl)); C(cms_signer_infos_print(nul, 0, 0, "x", d, dl)); C(cms_recipient_infos_print(nul, 0, 0, "x", d, dl)); C(cms_digest_algors_print(nul, 0, 0, "x", d, dl)); }
	}
	p = in; l = n; if (C(asn1_sequence_from_der(&d, &dl, &p, &l)) == 1) C(cms_content_info_print(nul, 0, 0, "ci", d, dl));
	return rc;
}
static int s_cms(int v, uint8_t *o, size_t *ol)
{
	CMS_CERTS_AND_KEY sg = { ee_cert, ee_len, &kee }; // one certificate per signer: cms_sign reads the issuer and serial number from it *ol = 0;
	switch (v) {
	case 0: return cms_sign(o, ol, &sg, 1, OID_cms_data, CONTENT, sizeof CONTENT, NULL, 0);
	case 1: return cms_envelop(o, ol, enc_cert, enc_len, OID_sm4_cbc, KEY16, 16, IV16, 16, OID_cms_data, CONTENT, sizeof CONTENT, NULL, 0, NULL, 0);
	case 2: return cms_encrypt(o, ol, OID_sm4_cbc, KEY16, 16, IV16, 16, OID_cms_data, CONTENT, sizeof CONTENT, NULL, 0, NULL, 0);
	case 3: return cms_sign_and_envelop(o, ol, &sg, 1, enc_cert, enc_len, OID_sm4_cbc, KEY16, 16, IV16, 16, OID_cms_data, CONTENT, sizeof CONTENT, NULL, 0, NULL, 0, NULL, 0);
	case 4: return cms_set_data(o, ol, CONTENT, sizeof CONTENT);
	case 5: return cms_set_key_agreement_info(o, ol, &kother, ee_cert, ee_len, (const uint8_t *)"userid", 6);
	case 6: return cms_sign(o, ol, &sg, 1, OID_cms_data, CONTENT, sizeof CONTENT, crl_der, crl_len);
	default: return cms_encrypt(o, ol, OID_sm4_cbc, KEY16, 16, IV16, 16, OID_cms_data, CONTENT, sizeof CONTENT, SER_CA, sizeof SER_CA, SER_EE, sizeof SER_EE);
	}
}
enum { NV_CMS = 8 };

// =====================================================================================================================
// PEM: the input is text; every reader gets its own FILE* opened on the exact buffer
// =====================================================================================================================
static int t_pem(const uint8_t *in, size_t n)
{
	int rc, r; size_t ol; SM2_KEY *k = (SM2_KEY *)xa(sizeof *k);
	{ uint8_t *out = xa(512); ol = 0; rc = C(pem_read(xfp(in, n), "CERTIFICATE", out, &ol, 512)); }
	{ uint8_t *out = xa(64); ol = 0; C(pem_read(xfp(in, n), "CERTIFICATE", out, &ol, 64)); }
	{ uint8_t *out = xa(2048); ol = 0; FILE *f = xfp(in, n); int guard = 0; while (guard++ < 16 && (r = C(x509_cert_from_pem(out, &ol, 2048, f))) == 1) { rc = 1; C(x509_cert_print(nul, 0, 0, "cert", out, ol)); } }
	{ uint8_t *out = xa(4096); ol = 0; r = C(x509_certs_from_pem(out, &ol, 4096, xfp(in, n))); rc = best(rc, r); if (r == 1) C(x509_certs_print(nul, 0, 0, "certs", out, ol)); }
	{ uint8_t *out = xa(100); ol = 0; C(x509_certs_from_pem(out, &ol, 100, xfp(in, n))); }
	{ uint8_t *out = xa(2048); ol = 0; C(x509_cert_from_pem_by_subject(out, &ol, 2048, nm_ca, nm_ca_len, xfp(in, n))); }
	r = C(sm2_private_key_info_decrypt_from_pem(k, "pw", xfp(in, n))); rc = best(rc, r); if (r == 1) C(sm2_key_print(nul, 0, 0, "k", k));
	r = C(sm2_private_key_info_from_pem(k, xfp(in, n))); rc = best(rc, r);
	r = C(sm2_private_key_from_pem(k, xfp(in, n))); rc = best(rc, r);
	r = C(sm2_public_key_info_from_pem(k, xfp(in, n))); rc = best(rc, r); if (r == 1) C(sm2_public_key_print(nul, 0, 0, "k", k));
	{ uint8_t *out = xa(1024); ol = 0; r = C(x509_req_from_pem(out, &ol, 1024, xfp(in, n))); rc = best(rc, r); if (r == 1) C(x509_req_print(nul, 0, 0, "req", out, ol)); }
	{ uint8_t *out = xa(2048); ol = 0; r = C(pem_read(xfp(in, n), "X509 CRL", out, &ol, 2048)); rc = best(rc, r); if (r == 1) C(x509_crl_print(nul, 0, 0, "crl", out, ol)); } // x509_crl_from_pem is declared but not built
	{ uint8_t *out = xa(4096); ol = 0; r = C(cms_from_pem(out, &ol, 4096, xfp(in, n))); rc = best(rc, r); if (r == 1) C(cms_print(nul, 0, 0, "cms", out, ol)); }
	{ uint8_t *out = xa(128); ol = 0; C(cms_from_pem(out, &ol, 128, xfp(in, n))); }
	{ SM9_SIGN_MASTER_KEY *a = (SM9_SIGN_MASTER_KEY *)xa(sizeof *a); SM9_SIGN_KEY *b = (SM9_SIGN_KEY *)xa(sizeof *b); SM9_ENC_MASTER_KEY *c = (SM9_ENC_MASTER_KEY *)xa(sizeof *c); SM9_ENC_KEY *d = (SM9_ENC_KEY *)xa(sizeof *d);
	  r = C(sm9_sign_master_public_key_from_pem(a, xfp(in, n))); rc = best(rc, r); r = C(sm9_enc_master_public_key_from_pem(c, xfp(in, n))); rc = best(rc, r);
	  r = C(sm9_sign_master_key_info_decrypt_from_pem(a, "pw", xfp(in, n))); rc = best(rc, r); r = C(sm9_sign_key_info_decrypt_from_pem(b, "pw", xfp(in, n))); rc = best(rc, r);
	  r = C(sm9_enc_master_key_info_decrypt_from_pem(c, "pw", xfp(in, n))); rc = best(rc, r); r = C(sm9_enc_key_info_decrypt_from_pem(d, "pw", xfp(in, n))); rc = best(rc, r); }
	return rc;
}
static int s_pem(int v, uint8_t *o, size_t *ol)
{
	char *txt = NULL; size_t tl = 0; FILE *fp = open_memstream(&txt, &tl); int rc; uint8_t buf[4096]; size_t bl = 0;
	switch (v) {
	case 0: rc = x509_cert_to_pem(ee_cert, ee_len, fp); break;
	case 1: rc = x509_certs_to_pem(chain, chain_len, fp); break;
	case 2: rc = sm2_private_key_info_encrypt_to_pem(&kee, "pw", fp); break;
	case 3: rc = sm2_public_key_info_to_pem(&kee, fp); break;
	case 4: rc = sm2_private_key_info_to_pem(&kee, fp); break;
	case 5: rc = sm2_private_key_to_pem(&kee, fp); break;
	case 6: rc = x509_req_to_pem(req_der, req_len, fp); break;
	case 7: rc = pem_write(fp, "X509 CRL", crl_der, crl_len); break;
	case 8: rc = s_cms(0, buf, &bl); if (rc == 1) rc = cms_to_pem(buf, bl, fp); break;
	case 9: rc = sm9_sign_master_public_key_to_pem(&s9sm, fp); break;
	case 10: rc = sm9_enc_master_public_key_to_pem(&s9em, fp); break;
	case 11: rc = sm9_sign_master_key_info_encrypt_to_pem(&s9sm, "pw", fp); break;
	case 12: rc = sm9_sign_key_info_encrypt_to_pem(&s9sk, "pw", fp); break;
	case 13: rc = sm9_enc_master_key_info_encrypt_to_pem(&s9em, "pw", fp); break;
	default: rc = sm9_enc_key_info_encrypt_to_pem(&s9ek, "pw", fp); break;
	}
	fclose(fp); *ol = tl; if (tl) memcpy(o, txt, tl); free(txt); return rc;
}
enum { NV_PEM = 15 };

// =====================================================================================================================
// TLS records
// =====================================================================================================================
typedef int (*client_ext_fn)(const uint8_t *, size_t, uint8_t **, size_t *);
static void client_ext_one(client_ext_fn f, const uint8_t *d, size_t dl)
{
	// the library's own two-pass idiom: first with a NULL output to learn the length, then into a buffer of exactly that length
	size_t need = 0, ol = 0; if (C(f(d, dl, NULL, &need)) != 1) return; uint8_t *out = xa(need), *o = out; C(f(d, dl, &o, &ol));
}
static int key_share_wrap(const uint8_t *d, size_t dl, uint8_t **out, size_t *outlen) { SM2_Z256_POINT pt; return tls13_process_client_key_share(d, dl, &kee, &pt, out, outlen); }
static void hello_exts(const uint8_t *ex, size_t el, int hs_type, int dead)
{
	const uint8_t *p = ex, *d; size_t l = el, dl; int type, guard = 0; SM2_Z256_POINT pt;
	C(tls_extensions_print(nul, ex, el, 0, 0)); C(tls13_extensions_print(nul, 0, 0, hs_type, ex, el));
	if (hs_type == TLS_handshake_client_hello) {
		// server side: the output area is TLS_MAX_EXTENSIONS_SIZE bytes in the TLS 1.2 and 1.3 servers and that is the maxlen they pass
		if (!skp("tls12_client_exts")) { uint8_t *out = xa(TLS_MAX_EXTENSIONS_SIZE); size_t ol = 0; C(tls_process_client_hello_exts(ex, el, out, &ol, TLS_MAX_EXTENSIONS_SIZE)); }
		if (!skp("tls13_client_exts")) { uint8_t *out = xa(TLS_MAX_EXTENSIONS_SIZE); size_t ol = 0; C(tls13_process_client_hello_exts(ex, el, &kee, &pt, out, &ol, TLS_MAX_EXTENSIONS_SIZE)); }
	} else {
		int a, b, c; C(tls_process_server_hello_exts(ex, el, &a, &b, &c)); C(tls13_server_hello_extensions_get(ex, el, &pt));
	}
	while (l && guard++ < 64) {
		if (C(tls_ext_from_bytes(&type, &d, &dl, &p, &l)) != 1) break;
		C(tls_extension_print(nul, type, d, dl, 0, 0)); C(tls13_extension_print(nul, 0, 0, hs_type, type, d, dl));
		C(tls13_supported_versions_ext_print(nul, 0, 0, hs_type, d, dl)); C(tls13_key_share_ext_print(nul, 0, 0, hs_type, d, dl));
		if (hs_type == TLS_handshake_client_hello) {
			client_ext_one(tls_process_client_ec_point_formats, d, dl); client_ext_one(tls_process_client_supported_groups, d, dl); client_ext_one(tls_process_client_signature_algorithms, d, dl);
			client_ext_one(tls13_process_client_supported_versions, d, dl); client_ext_one(key_share_wrap, d, dl);
			// not declared, not called anywhere in the library, ignores the results of its own length reads: only on request
			if (dead && type == TLS_extension_key_share) { const uint8_t *q = d; size_t ql = dl; C(tls_client_key_shares_from_bytes(&pt, &q, &ql)); }
		} else {
			C(tls_process_server_ec_point_formats(d, dl)); C(tls_process_server_supported_groups(d, dl)); C(tls_process_server_signature_algors(d, dl));
			C(tls13_process_server_supported_versions(d, dl)); C(tls13_process_server_key_share(d, dl, &pt));
		}
	}
}
static int t_tls_record(const uint8_t *in, size_t n, int dead)
{
	const int f1 = TLS_cipher_ecdhe_sm4_cbc_sm3 << 8, f2 = TLS_cipher_ecc_sm4_cbc_sm3 << 8; int rc, r;
	// (1) the record printers are told the length: any input
	rc = C(tls_record_print(nul, in, n, 0, 0)); r = C(tls_record_print(nul, in, n, f1, 0)); rc = best(rc, r); r = C(tls_record_print(nul, in, n, f2, 0)); rc = best(rc, r);
	C(tlcp_record_print(nul, in, n, 0, 0)); C(tls12_record_print(nul, in, n, 0, 0)); r = C(tls13_record_print(nul, 0, 0, in, n)); rc = best(rc, r);
	C(tls13_record_print(nul, 1 << 24, 0, in, n));
	C(tls_encrypted_record_print(nul, in, n, 0, 0));        // takes the buffer length: a header announcing more than was handed over is its business
	if (n < 5) return rc;
	size_t dlen = (size_t)in[3] << 8 | in[4]; if (dlen > n - 5) return rc;
	// (2) everything else takes a bare `record` pointer and believes bytes 3..4. The record handed over is an allocation of
	// exactly 5 + length bytes, and, as tls_record_recv() does before any getter of a real endpoint sees a record, it is only
	// handed over when its type and protocol version are known ones and it is not longer than TLS_MAX_RECORD_SIZE.
	size_t rl = 5 + dlen; const uint8_t *rec = rl == n ? in : xdup(in, rl);
	C(tls_encrypted_record_print(nul, rec, rl, 0, 0));
	if (!tls_record_type_name(tls_record_type(rec)) || !tls_protocol_name(tls_record_protocol(rec)) || rl > TLS_MAX_RECORD_SIZE) return rc;
	int type, proto, cs, curve, a, b; const uint8_t *hd, *rnd, *sid, *css, *ex, *sig, *x, *y; size_t hl, sidl, cssl, exl, sigl, xl, yl; SM2_Z256_POINT pt;
	if (C(tls_record_get_handshake(rec, &type, &hd, &hl)) == 1) {
		C(tls_handshake_print(nul, rec + 5, dlen, 0, 0)); C(tls_handshake_print(nul, rec + 5, dlen, f1, 0)); C(tls_handshake_print(nul, rec + 5, dlen, f2, 0)); C(tls13_handshake_print(nul, 0, 0, rec + 5, dlen));
		if (C(tls_record_get_handshake_client_hello(rec, &proto, &rnd, &sid, &sidl, &css, &cssl, &ex, &exl)) == 1) {
			static const int mine[] = { TLS_cipher_ecdhe_sm4_cbc_sm3, TLS_cipher_ecc_sm4_cbc_sm3, TLS_cipher_sm4_gcm_sm3 }; int sel;
			C(tls_random_print(nul, rnd, 0, 0)); C(tls_cipher_suites_select(css, cssl, mine, 3, &sel)); if (ex) hello_exts(ex, exl, TLS_handshake_client_hello, dead); }
		if (C(tls_record_get_handshake_server_hello(rec, &proto, &rnd, &sid, &sidl, &cs, &ex, &exl)) == 1 && ex) hello_exts(ex, exl, TLS_handshake_server_hello, dead);
		// tls_record_get_handshake_certificate has no capacity argument; every caller in the library hands it a
		// TLS_MAX_CERTIFICATES_SIZE (2048) byte field of TLS_CONNECT, so that is the capacity given here
		if (!skp("tls12_certificate")) { uint8_t *certs = xa(TLS_MAX_CERTIFICATES_SIZE); size_t cl = 0; if (C(tls_record_get_handshake_certificate(rec, certs, &cl)) == 1) { int vr; C(x509_certs_print(nul, 0, 0, "certs", certs, cl)); C(x509_certs_verify(certs, cl, X509_cert_chain_server, ca_cert, ca_len, X509_MAX_VERIFY_DEPTH, &vr)); } }
		if (C(tls13_record_get_handshake_certificate(rec, &x, &xl, &y, &yl)) == 1 && !skp("tls13_certificate")) { uint8_t *certs = xa(TLS_MAX_CERTIFICATES_SIZE); size_t cl = 0; C(tls13_process_certificate_list(y, yl, certs, &cl)); }
		if (C(tls_record_get_handshake_server_key_exchange_ecdhe(rec, &curve, &pt, &sig, &sigl)) == 1) C(tls_verify_server_ecdh_params(&kee, RND32, RND32, curve, &pt, sig, sigl));
		if (C(tlcp_record_get_handshake_server_key_exchange_pke(rec, &sig, &sigl)) == 1) C(sm2_signature_print(nul, 0, 0, "sig", sig, sigl));
		if (C(tls_record_get_handshake_certificate_request(rec, &x, &xl, &y, &yl)) == 1) { C(tls_cert_types_accepted(x, xl, chain, chain_len)); if (y) { C(tls_authorities_issued_certificate(y, yl, chain, chain_len)); C(tls_certificate_subjects_print(nul, 0, 0, "cas", y, yl)); } }
		if (C(tls13_record_get_handshake_certificate_request(rec, &x, &xl, &y, &yl)) == 1 && y) C(tls13_extensions_print(nul, 0, 0, TLS_handshake_certificate_request, y, yl));
		C(tls_record_get_handshake_server_hello_done(rec));
		if (C(tls_record_get_handshake_client_key_exchange_pke(rec, &x, &xl)) == 1) { uint8_t *out = xa(SM2_MAX_PLAINTEXT_SIZE); size_t ol = 0; C(sm2_decrypt(&kenc, x, xl, out, &ol)); }
		C(tls_record_get_handshake_client_key_exchange_ecdhe(rec, &pt));
		if (C(tls_record_get_handshake_certificate_verify(rec, &sig, &sigl)) == 1) C(sm2_verify(&kee, DGST, sig, sigl));
		sig = NULL; sigl = 0; C(tls13_record_get_handshake_certificate_verify(rec, &a, &sig, &sigl));
		C(tls_record_get_handshake_finished(rec, &x, &xl)); C(tls13_record_get_handshake_finished(rec, &x, &xl));
		C(tls13_record_get_handshake_encrypted_extensions(rec));
	}
	C(tls_record_get_alert(rec, &a, &b)); C(tls_record_get_change_cipher_spec(rec)); C(tls_record_get_application_data((uint8_t *)rec, &x, &xl));
	return rc;
}
static int s_tls_record(int v, uint8_t *o, size_t *ol)
{
	static uint8_t rec[TLS_MAX_RECORD_SIZE]; size_t rl = 0; int rc = 1; uint8_t ex[512], *p = ex; size_t el = 0, sl = 0; uint8_t sig[SM2_MAX_SIGNATURE_SIZE], ct[SM2_MAX_CIPHERTEXT_SIZE];
	int ciphers[] = { TLS_cipher_ecdhe_sm4_cbc_sm3, TLS_cipher_ecc_sm4_cbc_sm3, TLS_cipher_empty_renegotiation_info_scsv }, c13[] = { TLS_cipher_sm4_gcm_sm3 };
	int fm[] = { TLS_point_uncompressed }, gr[] = { TLS_curve_sm2p256v1 }, sa[] = { TLS_sig_sm2sig_sm3 }, pv[] = { TLS_protocol_tls13 };
	memset(rec, 0, 16); tls_record_set_protocol(rec, v == 4 || v == 7 || v == 21 ? TLS_protocol_tlcp : TLS_protocol_tls12);
	switch (v) {
	case 0: tls_ec_point_formats_ext_to_bytes(fm, 1, &p, &el); tls_supported_groups_ext_to_bytes(gr, 1, &p, &el); tls_signature_algorithms_ext_to_bytes(sa, 1, &p, &el);
		rc = tls_record_set_handshake_client_hello(rec, &rl, TLS_protocol_tls12, RND32, DGST, 32, ciphers, 3, ex, el); break;
	case 1: tls_ec_point_formats_ext_to_bytes(fm, 1, &p, &el); tls_supported_groups_ext_to_bytes(gr, 1, &p, &el); tls_signature_algorithms_ext_to_bytes(sa, 1, &p, &el);
		rc = tls_record_set_handshake_server_hello(rec, &rl, TLS_protocol_tls12, RND32, DGST, 32, TLS_cipher_ecdhe_sm4_cbc_sm3, ex, el); break;
	case 2: rc = tls_record_set_handshake_certificate(rec, &rl, chain, chain_len); break;
	case 3: rc = tls_sign_server_ecdh_params(&kee, RND32, RND32, TLS_curve_sm2p256v1, &kother.public_key, sig, &sl); if (rc == 1) rc = tls_record_set_handshake_server_key_exchange_ecdhe(rec, &rl, TLS_curve_sm2p256v1, &kother.public_key, sig, sl); break;
	case 4: rc = sm2_sign(&kee, DGST, sig, &sl); if (rc == 1) rc = tlcp_record_set_handshake_server_key_exchange_pke(rec, &rl, sig, sl); break;
	case 5: { uint8_t types[] = { TLS_cert_type_ecdsa_sign, TLS_cert_type_rsa_sign }, names[512]; size_t nl = 0; rc = tls_authorities_from_certs(names, &nl, sizeof names, chain, chain_len);
		if (rc == 1) rc = tls_record_set_handshake_certificate_request(rec, &rl, types, 2, names, nl); break; }
	case 6: rc = tls_record_set_handshake_server_hello_done(rec, &rl); break;
	case 7: { uint8_t pms[48]; memset(pms, 0x42, 48); pms[0] = 1; pms[1] = 1; rc = sm2_encrypt(&kenc, pms, 48, ct, &sl); if (rc == 1) rc = tls_record_set_handshake_client_key_exchange_pke(rec, &rl, ct, sl); break; }
	case 8: rc = tls_record_set_handshake_client_key_exchange_ecdhe(rec, &rl, &kother.public_key); break;
	case 9: rc = sm2_sign(&kee, DGST, sig, &sl); if (rc == 1) rc = tls_record_set_handshake_certificate_verify(rec, &rl, sig, sl); break;
	case 10: rc = tls_record_set_handshake_finished(rec, &rl, DGST, 12); break;
	case 11: rc = tls_record_set_alert(rec, &rl, TLS_alert_level_fatal, TLS_alert_handshake_failure); break;
	case 12: rc = tls_record_set_change_cipher_spec(rec, &rl); break;
	case 13: rc = tls_record_set_application_data(rec, &rl, CONTENT, sizeof CONTENT); break;
	case 14: rc = tls13_client_hello_exts_set(ex, &el, sizeof ex, &kother.public_key); if (rc == 1) rc = tls_record_set_handshake_client_hello(rec, &rl, TLS_protocol_tls12, RND32, DGST, 32, c13, 1, ex, el); break;
	case 15: tls13_supported_versions_ext_to_bytes(TLS_handshake_server_hello, pv, 1, &p, &el); tls13_server_key_share_ext_to_bytes(&kother.public_key, &p, &el);
		rc = tls_record_set_handshake_server_hello(rec, &rl, TLS_protocol_tls12, RND32, DGST, 32, TLS_cipher_sm4_gcm_sm3, ex, el); break;
	case 16: rc = tls13_record_set_handshake_encrypted_extensions(rec, &rl); break;
	case 17: rc = tls13_record_set_handshake_certificate(rec, &rl, NULL, 0, chain, chain_len); break;
	case 18: rc = tls13_record_set_handshake_certificate_request_default(rec, &rl); break;
	case 19: rc = sm2_sign(&kee, DGST, sig, &sl); if (rc == 1) rc = tls13_record_set_handshake_certificate_verify(rec, &rl, TLS_sig_sm2sig_sm3, sig, sl); break;
	case 20: rc = tls13_record_set_handshake_finished(rec, &rl, DGST, 32); break;
	default: rc = tls_record_set_handshake_client_hello(rec, &rl, TLS_protocol_tlcp, RND32, NULL, 0, ciphers + 1, 1, NULL, 0); break;
	}
	*ol = rl; if (rc == 1) memcpy(o, rec, rl); return rc;
}
enum { NV_TLS_RECORD = 22 };

// CBC-HMAC fragment (data = iv || ciphertext) and whole record; GCM likewise. Output capacity exactly the input length.
static int t_tls_cbc(const uint8_t *in, size_t n, const uint8_t *aux, size_t auxl)
{
	static const uint8_t hdr0[5] = { TLS_record_application_data, 1, 1, 0, 0 }; const uint8_t *hdr = auxl == 5 ? aux : hdr0;
	uint8_t *out = xa(n); size_t ol = 0; int rc = C(tls_cbc_decrypt(&hmac0, &sm4dec, SEQ, hdr, in, n, out, &ol));
	if (n >= 5) { uint8_t *o2 = xa(n); size_t l2 = 0; int r = C(tls_record_decrypt(&hmac0, &sm4dec, SEQ, in, n, o2, &l2)); rc = best(rc, r); } // a record always has its 5 byte header (tls_record_recv)
	return rc;
}
static int s_tls_cbc(int v, uint8_t *o, size_t *ol)
{
	uint8_t rec[5 + 300]; size_t len = v == 0 ? 40 : (v == 1 ? 0 : 263); rec[0] = TLS_record_application_data; rec[1] = 1; rec[2] = 1; rec[3] = (uint8_t)(len >> 8); rec[4] = (uint8_t)len;
	for (size_t i = 0; i < len; i++) rec[5 + i] = CONTENT[i % 40];
	if (v == 3) { len = 40; rec[3] = 0; rec[4] = 40; return tls_record_encrypt(&hmac0, &sm4enc, SEQ, rec, 45, o, ol); }
	return tls_cbc_encrypt(&hmac0, &sm4enc, SEQ, rec, rec + 5, len, o, ol);
}
enum { NV_TLS_CBC = 4 };
static int t_tls13_gcm(const uint8_t *in, size_t n)
{
	uint8_t *out = xa(n); size_t ol = 0; int rt = 0, rc = C(tls13_gcm_decrypt(&bck, IV12, SEQ, in, n, &rt, out, &ol));
	if (n >= 5) { uint8_t *o2 = xa(n); size_t l2 = 0; int r = C(tls13_record_decrypt(&bck, IV12, SEQ, in, n, o2, &l2)); rc = best(rc, r); }
	return rc;
}
static int s_tls13_gcm(int v, uint8_t *o, size_t *ol)
{
	uint8_t rec[5 + 64]; rec[0] = TLS_record_handshake; rec[1] = 3; rec[2] = 3; rec[3] = 0; rec[4] = 40; memcpy(rec + 5, CONTENT, 40);
	if (v == 0) return tls13_gcm_encrypt(&bck, IV12, SEQ, TLS_record_application_data, CONTENT, 40, 7, o, ol);
	if (v == 1) return tls13_gcm_encrypt(&bck, IV12, SEQ, TLS_record_alert, CONTENT, 2, 0, o, ol);
	return tls13_record_encrypt(&bck, IV12, SEQ, rec, 45, 3, o, ol);
}
enum { NV_TLS13_GCM = 3 };

// ---- records protected by a peer that holds the keys: the input is the INNER plaintext, protected here with the raw primitives -----------------
// tls13_inner: data = TLSInnerPlaintext (content || type || zero padding, or anything else) -> AES/SM4-GCM with the TLS 1.3 nonce and header -> library opens it
static int t_tls13_inner(const uint8_t *in, size_t n)
{
	if (n > 16384 + 256) return -2;
	uint8_t nonce[12], aad[5]; size_t clen = n + 16; uint8_t *ct = xa(clen);
	nonce[0] = nonce[1] = nonce[2] = nonce[3] = 0; memcpy(nonce + 4, SEQ, 8); for (int i = 0; i < 12; i++) nonce[i] ^= IV12[i];
	aad[0] = TLS_record_application_data; aad[1] = 3; aad[2] = 3; aad[3] = (uint8_t)(clen >> 8); aad[4] = (uint8_t)clen;
	uint8_t *pt = xa(n); memcpy(pt, in, n);
	if (gcm_encrypt(&bck, nonce, 12, aad, 5, pt, n, ct, 16, ct + n) != 1) return -3;
	uint8_t *out = xa(clen); size_t ol = 0; int rt = 0, rc = C(tls13_gcm_decrypt(&bck, IV12, SEQ, ct, clen, &rt, out, &ol));
	uint8_t *rec = xa(5 + clen); memcpy(rec, aad, 5); memcpy(rec + 5, ct, clen);
	uint8_t *o2 = xa(5 + clen); size_t l2 = 0; int r = C(tls13_record_decrypt(&bck, IV12, SEQ, rec, 5 + clen, o2, &l2)); rc = best(rc, r);
	return rc;
}
static int s_tls13_inner(int v, uint8_t *o, size_t *ol)
{
	memset(o, 0, 64);
	switch (v) {
	case 0: memcpy(o, CONTENT, 40); o[40] = TLS_record_application_data; *ol = 48; break;      // content, type, 7 bytes of padding
	case 1: *ol = 16; break;                                                                   // nothing but zeros: no content type at all
	case 2: *ol = 0; break;                                                                    // empty inner plaintext
	case 3: *ol = 1; break;                                                                    // a single zero
	case 4: o[0] = TLS_record_alert; *ol = 1; break;                                           // a type and no content
	default: o[0] = 2; o[1] = 40; o[2] = TLS_record_handshake; *ol = 3; break;
	}
	return 1;
}
enum { NV_TLS13_INNER = 6 };
// tls_cbc_inner: data = the block-aligned bytes under the CBC encryption (content || MAC || padding as the peer chose them) -> SM4-CBC with an explicit IV -> library opens it
static int t_tls_cbc_inner(const uint8_t *in, size_t n)
{
	if (n == 0 || n % 16 || n > 16384 + 512) return -2;
	uint8_t iv[16]; memset(iv, 0x5a, 16); uint8_t *frag = xa(16 + n); memcpy(frag, iv, 16);
	uint8_t civ[16]; memcpy(civ, iv, 16); uint8_t *pt = xa(n); memcpy(pt, in, n);
	sm4_cbc_encrypt_blocks(&sm4enc, civ, pt, n / 16, frag + 16);
	uint8_t hdr[5] = { TLS_record_application_data, 1, 1, (uint8_t)((16 + n) >> 8), (uint8_t)(16 + n) };
	uint8_t *out = xa(16 + n); size_t ol = 0;
	return C(tls_cbc_decrypt(&hmac0, &sm4dec, SEQ, hdr, frag, 16 + n, out, &ol));
}
static int s_tls_cbc_inner(int v, uint8_t *o, size_t *ol)
{
	// a genuine protected fragment, opened with the raw cipher: content || HMAC || padding
	uint8_t hdr[5] = { TLS_record_application_data, 1, 1, 0, 0 }, enc[512]; size_t el = 0, len = v == 0 ? 40 : (v == 1 ? 0 : 200);
	hdr[3] = (uint8_t)(len >> 8); hdr[4] = (uint8_t)len;
	uint8_t data[256]; for (size_t i = 0; i < len; i++) data[i] = CONTENT[i % 40];
	if (tls_cbc_encrypt(&hmac0, &sm4enc, SEQ, hdr, data, len, enc, &el) != 1) return -1;
	uint8_t civ[16]; memcpy(civ, enc, 16);
	sm4_cbc_decrypt_blocks(&sm4dec, civ, enc + 16, (el - 16) / 16, o); *ol = el - 16;
	return 1;
}
enum { NV_TLS_CBC_INNER = 3 };

// =====================================================================================================================
int main(int argc, char **argv)
{
	if (argc < 3) return 2;
	FILE *sf = fopen(argv[1], "r"); if (!sf) return 3;
	vt_open(argv[2]); nul = fopen("/dev/null", "w"); if (!nul) return 4;
	setup();
	size_t cap = 1 << 22; char *line = malloc(cap); static uint8_t sbuf[1 << 16];
	while (fgets(line, (int)cap, sf)) {
		KV kv; kv_parse(&kv, line); if (!kv.n) continue;
		long id = kv_int(&kv, "id", 0); const char *t = kv_str(&kv, "target", "asn1"); int variant = (int)kv_int(&kv, "variant", 0), dead = (int)kv_int(&kv, "dead", 0); skiplist = kv_str(&kv, "skip", NULL);
		ent_seed(7); ncalls = 0; alarm((unsigned)kv_int(&kv, "alarm", 0)); // alarm=<secs>: a hang ends the process with SIGALRM instead of stalling the campaign
		if (kv_int(&kv, "sample", 0)) {
			size_t sl = 0; int rc = -1, nv = 0;
#define SAMPLE(name, fn, cnt) else if (!strcmp(t, name)) { nv = cnt; rc = fn(variant, sbuf, &sl); }
			if (0) ;
			SAMPLE("asn1", s_asn1, NV_ASN1) SAMPLE("oid", s_oid, NV_OID) SAMPLE("x509_cert", s_x509_cert, NV_X509_CERT) SAMPLE("x509_exts", s_x509_exts, NV_X509_EXTS)
			SAMPLE("x509_name", s_x509_name, NV_X509_NAME) SAMPLE("x509_crl", s_x509_crl, NV_X509_CRL) SAMPLE("x509_req", s_x509_req, NV_X509_REQ) SAMPLE("cms", s_cms, NV_CMS)
			SAMPLE("pkcs8", s_pkcs8, NV_PKCS8) SAMPLE("pem", s_pem, NV_PEM) SAMPLE("base64", s_base64, NV_BASE64) SAMPLE("hex", s_hex, NV_HEX) SAMPLE("sm2_sig", s_sm2_sig, NV_SM2_SIG)
			SAMPLE("sm2_ct", s_sm2_ct, NV_SM2_CT) SAMPLE("sm2_point", s_sm2_point, NV_SM2_POINT) SAMPLE("sm9_sig", s_sm9_sig, NV_SM9_SIG) SAMPLE("sm9_ct", s_sm9_ct, NV_SM9_CT)
			SAMPLE("sm9_key", s_sm9_key, NV_SM9_KEY) SAMPLE("tls_record", s_tls_record, NV_TLS_RECORD) SAMPLE("tls_cbc", s_tls_cbc, NV_TLS_CBC) SAMPLE("tls13_gcm", s_tls13_gcm, NV_TLS13_GCM)
			SAMPLE("http", s_http, NV_HTTP) SAMPLE("tls13_inner", s_tls13_inner, NV_TLS13_INNER) SAMPLE("tls_cbc_inner", s_tls_cbc_inner, NV_TLS_CBC_INNER)
			vt_begin("F"); vt_int("id", id); vt_str("target", t); vt_int("rc", rc); vt_hex("sample", sbuf, rc == 1 ? sl : 0); vt_int("variant", variant); vt_int("nvariants", nv); vt_end();
		} else {
			size_t n, auxl; uint8_t *in = kv_hex(&kv, "data", &n), *aux = kv_hex(&kv, "aux", &auxl); int rc = -99;
			if (!strcmp(t, "asn1")) rc = t_asn1(in, n);
			else if (!strcmp(t, "oid")) rc = t_oid(in, n);
			else if (!strcmp(t, "x509_cert")) rc = t_x509_cert(in, n, aux, auxl);
			else if (!strcmp(t, "x509_exts")) rc = t_x509_exts(in, n);
			else if (!strcmp(t, "x509_name")) rc = t_x509_name(in, n);
			else if (!strcmp(t, "x509_crl")) rc = t_x509_crl(in, n, aux, auxl);
			else if (!strcmp(t, "x509_req")) rc = t_x509_req(in, n);
			else if (!strcmp(t, "cms")) rc = t_cms(in, n, aux, auxl);
			else if (!strcmp(t, "pkcs8")) rc = t_pkcs8(in, n);
			else if (!strcmp(t, "pem")) rc = t_pem(in, n);
			else if (!strcmp(t, "base64")) rc = t_base64(in, n);
			else if (!strcmp(t, "hex")) rc = t_hex(in, n);
			else if (!strcmp(t, "sm2_sig")) rc = t_sm2_sig(in, n);
			else if (!strcmp(t, "sm2_ct")) rc = t_sm2_ct(in, n);
			else if (!strcmp(t, "sm2_point")) rc = t_sm2_point(in, n);
			else if (!strcmp(t, "sm9_sig")) rc = t_sm9_sig(in, n);
			else if (!strcmp(t, "sm9_ct")) rc = t_sm9_ct(in, n);
			else if (!strcmp(t, "sm9_key")) rc = t_sm9_key(in, n);
			else if (!strcmp(t, "tls_record")) rc = t_tls_record(in, n, dead);
			else if (!strcmp(t, "tls_cbc")) rc = t_tls_cbc(in, n, aux, auxl);
			else if (!strcmp(t, "tls13_gcm")) rc = t_tls13_gcm(in, n);
			else if (!strcmp(t, "http")) rc = t_http(in, n);
			else if (!strcmp(t, "tls13_inner")) rc = t_tls13_inner(in, n);
			else if (!strcmp(t, "tls_cbc_inner")) rc = t_tls_cbc_inner(in, n);
			vt_begin("F"); vt_int("id", id); vt_str("target", t); vt_int("rc", rc); vt_int("n", ncalls); vt_end();
			xclose_all(); xfree_all(); free(n ? in : in - 1); free(auxl ? aux : aux - 1);
		}
		alarm(0);
		vt_begin("Reset"); vt_end();
	}
	vt_close(); return 0;
}
