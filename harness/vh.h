// Common harness support: NDJSON trace emitter, interposed getentropy()/time(), helpers.
#ifndef VH_H
#define VH_H
#include <stdio.h>
#include <stdint.h>
#include <stdlib.h>
#include <string.h>
#include <time.h>

// ---- trace ----
void vt_open(const char *path);          // open trace file (never stdout: the library prints there)
void vt_close(void);
void vt_begin(const char *ev);           // {"q":N,"e":"ev"   (takes the trace lock)
void vt_int(const char *k, long v);
void vt_str(const char *k, const char *v);
void vt_bytes(const char *k, const uint8_t *p, size_t n);   // JSON array of 0..255
void vt_hex(const char *k, const uint8_t *p, size_t n);     // hex string
void vt_raw(const char *k, const char *json);                // pre-formatted JSON value
void vt_end(void);                       // }\n  (releases the lock)

// ---- entropy (link-time interposition of getentropy) ----
void ent_seed(uint64_t seed);            // (re)start this thread's deterministic stream
void ent_fail_at(long draw_index);       // 1-based draw index that fails (0 = never); counted from the last ent_seed/ent_reset
void ent_reset_counters(void);
void ent_push32(const uint8_t v[32]);    // the next 32-byte draw(s) deliver these bytes (up to 8 queued; cleared by ent_seed)
void ent_fail_from(long i, int err);    // from the i-th draw on EVERY draw fails with errno err (a source that stays down: EINTR / EAGAIN / EIO for ever); 0 = off
void ent_high_for(long k);               // the next k 32-byte draws deliver FF..FF (out of range for every scalar draw); cleared by ent_seed
long ent_draws(void);                    // draws since reset (including a failed one)
long ent_bytes(void);                    // bytes delivered since reset
int  ent_failed(void);                   // a failure was injected since reset
long ent_failures(void);                 // number of failed draws on this thread (never reset)
void ent_log(int on);
void ent_tag(const char *who);           // "who" field of this thread's Draw events                    // emit a "Draw" trace event per draw
// the last draws (ring of 256 entries) for harnesses that need the drawn bytes
typedef struct { long idx; long pos; size_t len; uint8_t data[256]; int failed; } ENT_DRAW;
const ENT_DRAW *ent_get(long draw_index); // 1-based, since reset; NULL if out of ring

// ---- time ----
extern time_t vh_now;                    // value returned by time()

// ---- misc ----
uint64_t vh_rand(uint64_t *state);       // splitmix64 for workload generation (not the entropy stream)
void vh_fill(uint64_t *state, uint8_t *p, size_t n);
uint8_t *vh_exact(size_t n);             // malloc'ed exactly n bytes (n==0 -> 1 byte region, returned pointer at its end)
int vh_unhex(const char *s, uint8_t *out, size_t max);


// ---- key=value script lines ----
typedef struct { char *k[64]; char *v[64]; int n; } KV;
void kv_parse(KV *kv, char *line);                       // destructive split on whitespace and '='
const char *kv_str(const KV *kv, const char *k, const char *dflt);
long kv_int(const KV *kv, const char *k, long dflt);
uint8_t *kv_hex(const KV *kv, const char *k, size_t *len); // malloc'ed exact-size buffer ("-" or missing -> len 0)
int kv_has(const KV *kv, const char *k);
int kv_ints(const KV *kv, const char *k, long *out, int max); // comma separated list
#endif
