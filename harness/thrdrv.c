// C20 driver: independent objects used from many threads.
// usage: thrdrv <script> <trace> <creddir>
// script line: id=<n> mode=seq|free|sched threads=<T> ops=<K> seed=<S> sched=<t,t,t,...>   (sched: thread index that runs its next operation, in order)
// Every thread t runs the workload W(seed, t): K operations on objects it creates itself, with its own entropy stream.  One event per
// operation: Op{run, t, k, kind, d = SM3 digest of everything the operation returned}.  mode=seq runs the threads one after another,
// mode=free lets them run concurrently (released together by a barrier), mode=sched runs them under a call-level schedule.
#define _GNU_SOURCE
#include <stdio.h>
#include <stdlib.h>
#include <string.h>
#include <unistd.h>
#include <pthread.h>
#include <sys/socket.h>
#include <fcntl.h>
#include <gmssl/sm2.h>
#include <gmssl/sm3.h>
#include <gmssl/sm4.h>
#include <gmssl/sm9.h>
#include <gmssl/aes.h>
#include <gmssl/zuc.h>
#include <gmssl/x509.h>
#include <gmssl/cms.h>
#include <gmssl/tls.h>
#include <gmssl/asn1.h>
#include <gmssl/base64.h>
#include <gmssl/hex.h>
#include "vh.h"

static const char *creddir;
static uint8_t *slurp(const char *p, size_t *n) { FILE *f = fopen(p, "rb"); if (!f) { *n = 0; return NULL; } fseek(f, 0, SEEK_END); long l = ftell(f); fseek(f, 0, SEEK_SET); uint8_t *b = malloc(l + 1); *n = fread(b, 1, l, f); fclose(f); return b; }
static uint8_t *srv_chain, *cli_chain, *ca; static size_t srv_chainlen, cli_chainlen, calen; static SM2_KEY srv_key, cli_key;
static int loadkey(const char *p, SM2_KEY *k) { size_t n; uint8_t *h = slurp(p, &n); if (!h) return 0; h[n] = 0; uint8_t d[32]; vh_unhex((char *)h, d, 32); sm2_z256_t z; sm2_z256_from_bytes(z, d); free(h); return sm2_key_set_private_key(k, z) == 1; }

#define NKIND 12
static const char *kinds[NKIND] = { "sm3", "sm4cbc", "sm4gcm", "sm2sign", "sm2enc", "sm9sign", "sm9enc", "der", "x509", "cms", "record", "handshake" };
typedef struct { int run, t, K; uint64_t seed; int mode; } TH;
static pthread_barrier_t bar;
// call-level scheduler: sched[pos] names the thread allowed to run its next operation
static int *sched, nsched, spos; static pthread_mutex_t smu = PTHREAD_MUTEX_INITIALIZER; static pthread_cond_t scv = PTHREAD_COND_INITIALIZER;
static void turn_begin(int t) { pthread_mutex_lock(&smu); while (spos < nsched && sched[spos] != t) pthread_cond_wait(&scv, &smu); pthread_mutex_unlock(&smu); }
static void turn_end(void) { pthread_mutex_lock(&smu); spos++; pthread_cond_broadcast(&scv); pthread_mutex_unlock(&smu); }

typedef struct { TLS_CONNECT *c; int rc; uint8_t got[64]; size_t gotlen; uint64_t seed; } HS;
static void *hs_server(void *arg)
{
	HS *h = arg; ent_seed(h->seed); ent_tag("S");
	h->rc = tls_do_handshake(h->c);
	if (h->rc == 1) { size_t n = 0; if (tls_recv(h->c, h->got, sizeof h->got, &n) == 1) h->gotlen = n; size_t s; tls_send(h->c, h->got, h->gotlen, &s); }
	return NULL;
}

static __thread int ones;
#define ACC(p, l) sm3_update(acc, (const uint8_t *)(p), (l))
#define ACCI(v) do { int _v = (v); ACC(&_v, sizeof _v); if (_v == 1) ones++; } while (0)
static void do_op(int kind, uint64_t *st, SM3_CTX *acc, int t)
{
	ones = 0;
	uint8_t buf[4096] = {0}, out[8192] = {0}, key[32], iv[16]; size_t n, outl = 0; int rc = 0;
	vh_fill(st, key, 32); vh_fill(st, iv, 16); n = (size_t)(vh_rand(st) % 600); vh_fill(st, buf, n);
	switch (kind) {
	case 0: { SM3_CTX c; uint8_t d[32]; sm3_init(&c); sm3_update(&c, buf, n / 2); sm3_update(&c, buf + n / 2, n - n / 2); sm3_finish(&c, d); ACC(d, 32);
		  SM3_HMAC_CTX h; sm3_hmac_init(&h, key, 32); sm3_hmac_update(&h, buf, n); sm3_hmac_finish(&h, d); ACC(d, 32); break; }
	case 1: { SM4_KEY ek, dk; sm4_set_encrypt_key(&ek, key); sm4_set_decrypt_key(&dk, key); rc = sm4_cbc_padding_encrypt(&ek, iv, buf, n, out, &outl); ACCI(rc); ACC(out, outl);
		  uint8_t back[1024]; size_t bl = 0; rc = sm4_cbc_padding_decrypt(&dk, iv, out, outl, back, &bl); ACCI(rc); ACC(back, bl);
		  AES_KEY ak; aes_set_encrypt_key(&ak, key, 16); uint8_t blk[16]; aes_encrypt(&ak, iv, blk); ACC(blk, 16);
		  ZUC_STATE z; zuc_init(&z, key, iv); uint32_t ks[8]; zuc_generate_keystream(&z, 8, ks); ACC(ks, sizeof ks); break; }
	case 2: { SM4_KEY ek; sm4_set_encrypt_key(&ek, key); uint8_t tag[16]; rc = sm4_gcm_encrypt(&ek, iv, 12, key, 16, buf, n, out, 16, tag); ACCI(rc); ACC(out, n); ACC(tag, 16);
		  uint8_t back[1024]; rc = sm4_gcm_decrypt(&ek, iv, 12, key, 16, out, n, tag, 16, back); ACCI(rc); ACC(back, n); break; }
	case 3: { SM2_KEY k; rc = sm2_key_generate(&k); ACCI(rc); SM2_SIGN_CTX sc; uint8_t sig[SM2_MAX_SIGNATURE_SIZE]; size_t sl = 0;
		  rc = sm2_sign_init(&sc, &k, SM2_DEFAULT_ID, SM2_DEFAULT_ID_LENGTH); ACCI(rc); sm2_sign_update(&sc, buf, n); rc = sm2_sign_finish(&sc, sig, &sl); ACCI(rc); ACC(sig, sl);
		  SM2_VERIFY_CTX vc; sm2_verify_init(&vc, &k, SM2_DEFAULT_ID, SM2_DEFAULT_ID_LENGTH); sm2_verify_update(&vc, buf, n); rc = sm2_verify_finish(&vc, sig, sl); ACCI(rc);
		  buf[0] ^= 1; sm2_verify_init(&vc, &k, SM2_DEFAULT_ID, SM2_DEFAULT_ID_LENGTH); sm2_verify_update(&vc, buf, n ? n : 1); rc = sm2_verify_finish(&vc, sig, sl); ACCI(rc); break; }
	case 4: { SM2_KEY k; sm2_key_generate(&k); size_t m = n % 200 + 1; rc = sm2_encrypt(&k, buf, m, out, &outl); ACCI(rc); ACC(out, outl); uint8_t back[256]; size_t bl = 0; rc = sm2_decrypt(&k, out, outl, back, &bl); ACCI(rc); ACC(back, bl);
		  SM2_KEY k2; sm2_key_generate(&k2); uint8_t sh[64]; SM2_Z256_POINT P; rc = sm2_do_ecdh(&k, &k2.public_key, &P); ACCI(rc); sm2_z256_point_to_bytes(&P, sh); ACC(sh, 64); break; }
	case 5: { SM9_SIGN_MASTER_KEY m; SM9_SIGN_KEY k; rc = sm9_sign_master_key_generate(&m); ACCI(rc); rc = sm9_sign_master_key_extract_key(&m, "Alice", 5, &k); ACCI(rc);
		  SM9_SIGN_CTX c; uint8_t sig[SM9_SIGNATURE_SIZE]; size_t sl = 0; sm9_sign_init(&c); sm9_sign_update(&c, buf, n); rc = sm9_sign_finish(&c, &k, sig, &sl); ACCI(rc); ACC(sig, sl);
		  sm9_verify_init(&c); sm9_verify_update(&c, buf, n); rc = sm9_verify_finish(&c, sig, sl, &m, "Alice", 5); ACCI(rc); break; }
	case 6: { SM9_ENC_MASTER_KEY m; SM9_ENC_KEY k; sm9_enc_master_key_generate(&m); rc = sm9_enc_master_key_extract_key(&m, "Bob", 3, &k); ACCI(rc); size_t m2 = n % 200;
		  rc = sm9_encrypt(&m, "Bob", 3, buf, m2, out, &outl); ACCI(rc); ACC(out, outl); uint8_t back[256]; size_t bl = 0; rc = sm9_decrypt(&k, "Bob", 3, out, outl, back, &bl); ACCI(rc); ACC(back, bl); break; }
	case 7: { uint8_t *p = out; size_t l = 0; rc = asn1_integer_to_der(buf, n % 40 + 1, &p, &l); ACCI(rc); rc = asn1_octet_string_to_der(buf, n, &p, &l); ACCI(rc);
		  uint32_t nodes[8] = { 1, 2, (uint32_t)(vh_rand(st) % 100000), 7, (uint32_t)vh_rand(st), 1 }; rc = asn1_object_identifier_to_der(nodes, 6, &p, &l); ACCI(rc); ACC(out, l);
		  const uint8_t *cp = out, *q; size_t ql; rc = asn1_integer_from_der(&q, &ql, &cp, &l); ACCI(rc); ACC(q, ql);
		  // names of tags of every class: what a lookup returns stays what it was while other lookups (of this or another thread) go on
		  { const char *n1 = asn1_tag_name(0x40 | (int)(vh_rand(st) & 0x1f)), *n2 = asn1_tag_name(0xc0 | (int)(vh_rand(st) & 0x1f)), *n3 = asn1_tag_name((int)(vh_rand(st) & 0x1f)), *n4 = asn1_tag_name(0xa0 | (int)(vh_rand(st) & 7));
		    if (n1) ACC(n1, strlen(n1)); if (n2) ACC(n2, strlen(n2)); if (n3) ACC(n3, strlen(n3)); if (n4) ACC(n4, strlen(n4)); }
		  char b64[2048]; BASE64_CTX bc; int o1 = 0, o2 = 0; base64_encode_init(&bc); base64_encode_update(&bc, buf, (int)(n % 300), (uint8_t *)b64, &o1); base64_encode_finish(&bc, (uint8_t *)b64 + o1, &o2); ACC(b64, (size_t)(o1 + o2));
		  char hx[1300]; for (size_t i = 0; i < n % 300; i++) sprintf(hx + 2 * i, "%02x", buf[i]); uint8_t hb[300]; size_t hl = 0; rc = hex_to_bytes(hx, 2 * (n % 300), hb, &hl); ACCI(rc); ACC(hb, hl); break; }
	case 8: { const uint8_t *cert; size_t cl; rc = x509_certs_get_cert_by_index(srv_chain, srv_chainlen, 0, &cert, &cl); ACCI(rc); SM2_KEY pk; rc = x509_cert_get_subject_public_key(cert, cl, &pk); ACCI(rc);
		  const uint8_t *iss, *ser; size_t il, sl; rc = x509_cert_get_issuer_and_serial_number(cert, cl, &iss, &il, &ser, &sl); ACCI(rc); ACC(iss, il); ACC(ser, sl);
		  int vr = 0; rc = x509_certs_verify(srv_chain, srv_chainlen, X509_cert_chain_server, ca, calen, 5, &vr); ACCI(rc); ACCI(vr);
		  uint8_t nm[256]; size_t nl = 0; rc = x509_name_set(nm, &nl, sizeof nm, "CN", "BJ", "BJ", "Org", "Unit", "thread"); ACCI(rc); ACC(nm, nl); break; }
	case 9: { CMS_CERTS_AND_KEY s = { cli_chain, cli_chainlen, &cli_key }; size_t cl = 0; static __thread uint8_t cms[16384];
		  const uint8_t *c1; size_t c1l; x509_certs_get_cert_by_index(cli_chain, cli_chainlen, 0, &c1, &c1l); s.certs = (uint8_t *)c1; s.certs_len = c1l;
		  rc = cms_sign(cms, &cl, &s, 1, OID_cms_data, buf, n, NULL, 0); ACCI(rc); ACCI((int)cl);
		  int ct; const uint8_t *pc, *p1, *p2, *p3; size_t pcl, l1, l2, l3; rc = cms_verify(cms, cl, NULL, 0, NULL, 0, &ct, &pc, &pcl, &p1, &l1, &p2, &l2, &p3, &l3); ACCI(rc); if (rc == 1) ACC(pc, pcl);
		  rc = cms_encrypt(cms, &cl, OID_sm4_cbc, key, 16, iv, 16, OID_cms_data, buf, n, NULL, 0, NULL, 0); ACCI(rc); ACC(cms, cl); break; }
	case 10: { SM3_HMAC_CTX h; sm3_hmac_init(&h, key, 32); SM4_KEY ek, dk; sm4_set_encrypt_key(&ek, key); sm4_set_decrypt_key(&dk, key); uint8_t seq[8] = {0, 0, 0, 0, 0, 0, 0, (uint8_t)t}, hdr[5] = {23, 1, 1, (uint8_t)(n >> 8), (uint8_t)n};
		  rc = tls_cbc_encrypt(&h, &ek, seq, hdr, buf, n, out, &outl); ACCI(rc); ACCI((int)outl); hdr[3] = (uint8_t)(outl >> 8); hdr[4] = (uint8_t)outl;
		  uint8_t back[2048]; size_t bl = 0; rc = tls_cbc_decrypt(&h, &dk, seq, hdr, out, outl, back, &bl); ACCI(rc); ACC(back, bl); break; }
	case 11: { int proto = (int[]){ TLS_protocol_tls12, TLS_protocol_tls13, TLS_protocol_tls12 }[vh_rand(st) % 3];
		  TLS_CTX *cctx = calloc(1, sizeof *cctx), *sctx = calloc(1, sizeof *sctx); TLS_CONNECT *cc = calloc(1, sizeof *cc), *sv = calloc(1, sizeof *sv);
		  tls_ctx_init(cctx, proto, TLS_client_mode); tls_ctx_init(sctx, proto, TLS_server_mode); cctx->quiet = sctx->quiet = 1;
		  sctx->certs = srv_chain; sctx->certslen = srv_chainlen; sctx->signkey = srv_key; cctx->cacerts = ca; cctx->cacertslen = calen; cctx->verify_depth = 5;
		  int sp[2]; socketpair(AF_UNIX, SOCK_STREAM, 0, sp);
		  if (tls_init(cc, cctx) == 1 && tls_init(sv, sctx) == 1) {
			tls_set_socket(cc, sp[0]); tls_set_socket(sv, sp[1]);
			HS h = { sv, 0, {0}, 0, vh_rand(st) }; pthread_t th; pthread_create(&th, NULL, hs_server, &h);
			rc = tls_do_handshake(cc); ACCI(rc);
			if (rc == 1) { size_t s = 0; uint8_t back[64]; size_t bl = 0; rc = tls_send(cc, buf, 40, &s); ACCI(rc); rc = tls_recv(cc, back, sizeof back, &bl); ACCI(rc); ACC(back, bl); }
			else shutdown(sp[0], SHUT_RDWR);
			pthread_join(th, NULL); ACCI(h.rc); ACC(h.got, h.gotlen);
		  } else ACCI(-9);
		  close(sp[0]); close(sp[1]); free(cc); free(sv); free(cctx); free(sctx); break; }
	}
}

// ---- streaming workload: every thread owns ONE multi-call object (hash, MAC, KDF, CBC, CTR, GCM encrypt / decrypt, ZUC, base64, SM2 / SM9 signing context); operation k
// is its k-th call (k = 0: init and a first piece, last k: a last piece and finish, in between: one piece).  Interleaving the calls of different threads' objects is then
// exactly what a schedule does -- state hidden behind the contexts (a static table keyed by nothing, a shared scratch block) changes somebody's result ----
#define NSTREAM 11
static const char *skinds[NSTREAM] = { "st-sm3", "st-hmac", "st-kdf", "st-cbc", "st-ctr", "st-gcmenc", "st-gcmdec", "st-zuc", "st-b64", "st-sm2sign", "st-nbrec" };
typedef struct { int fam; uint8_t key[32], iv[16], aad[20], msg[2048]; size_t mlen, off; SM3_CTX sm3; SM3_HMAC_CTX hmac; SM3_KDF_CTX kdf; SM4_CBC_CTX cbc; SM4_CTR_CTX ctr; SM4_GCM_CTX gcm;
	ZUC_CTX zuc; BASE64_CTX b64; SM2_SIGN_CTX sign; SM2_KEY sk; uint8_t ct[2048 + 64]; size_t ctlen, ctoff; int rd, wr, pending; uint8_t rec[5 + 2048], rbuf[TLS_MAX_RECORD_SIZE]; size_t reclen, cut; } STREAM;
// st-nbrec: the object is a record stream on a NON-BLOCKING socket.  Each call offers the first octets of a record, lets the rest arrive a few milliseconds later (a helper that belongs
// to the call) and asks tls_record_recv once: the record layer waits for the rest of a record it has begun and returns that stream's record, whatever other streams are doing.
static void *nbrec_feeder(void *arg) { STREAM *s = arg; usleep(3000); if (write(s->wr, s->rec + s->cut, s->reclen - s->cut) != (ssize_t)(s->reclen - s->cut)) perror("thrdrv: feeder"); return NULL; }
static void stream_phase(STREAM *s, int k, int K, uint64_t *st, SM3_CTX *acc)
{
	ones = 0; int rc; uint8_t out[4096]; size_t ol = 0; int ilen = 0;
	if (k == 0) {
		vh_fill(st, s->key, 32); vh_fill(st, s->iv, 16); vh_fill(st, s->aad, 20); s->mlen = 64 * (size_t)K + (size_t)(vh_rand(st) % 200); vh_fill(st, s->msg, s->mlen); s->off = 0; s->ctoff = 0;
		switch (s->fam) {
		case 0: sm3_init(&s->sm3); ACCI(1); break;
		case 1: sm3_hmac_init(&s->hmac, s->key, 32); ACCI(1); break;
		case 2: sm3_kdf_init(&s->kdf, 100); ACCI(1); break;
		case 3: rc = sm4_cbc_encrypt_init(&s->cbc, s->key, s->iv); ACCI(rc); break;
		case 4: rc = sm4_ctr_encrypt_init(&s->ctr, s->key, s->iv); ACCI(rc); break;
		case 5: rc = sm4_gcm_encrypt_init(&s->gcm, s->key, 16, s->iv, 12, s->aad, 20, 16); ACCI(rc); break;
		case 6: { SM4_KEY ek; sm4_set_encrypt_key(&ek, s->key); rc = sm4_gcm_encrypt(&ek, s->iv, 12, s->aad, 20, s->msg, s->mlen, s->ct, 16, s->ct + s->mlen); s->ctlen = s->mlen + 16;    // one-shot, then streamed decryption
			  if (rc == 1) rc = sm4_gcm_decrypt_init(&s->gcm, s->key, 16, s->iv, 12, s->aad, 20, 16); ACCI(rc); break; }
		case 7: rc = zuc_encrypt_init(&s->zuc, s->key, s->iv); ACCI(rc); break;
		case 8: base64_encode_init(&s->b64); ACCI(1); break;
		case 10: { int sp[2]; rc = socketpair(AF_UNIX, SOCK_STREAM, 0, sp) == 0 ? 1 : -1; s->rd = sp[0]; s->wr = sp[1]; s->pending = 0; fcntl(s->rd, F_SETFL, fcntl(s->rd, F_GETFL) | O_NONBLOCK); ACCI(rc); break; }
		default: { uint8_t d[32]; memcpy(d, s->key, 32); d[0] = 0x31; sm2_z256_t z; sm2_z256_from_bytes(z, d); sm2_key_set_private_key(&s->sk, z); rc = sm2_sign_init(&s->sign, &s->sk, SM2_DEFAULT_ID, SM2_DEFAULT_ID_LENGTH); ACCI(rc); break; }
		}
	}
	// one piece of the message (the last call takes whatever is left)
	size_t left = s->mlen - s->off, n = (k == K - 1) ? left : (left / (size_t)(K - k)) + (size_t)(vh_rand(st) % 7); if (n > left) n = left; const uint8_t *m = s->msg + s->off;
	switch (s->fam) {
	case 0: sm3_update(&s->sm3, m, n); ACCI(1); break;
	case 1: sm3_hmac_update(&s->hmac, m, n); ACCI(1); break;
	case 2: sm3_kdf_update(&s->kdf, m, n); ACCI(1); break;
	case 3: rc = sm4_cbc_encrypt_update(&s->cbc, m, n, out, &ol); ACCI(rc); ACC(out, ol); break;
	case 4: rc = sm4_ctr_encrypt_update(&s->ctr, m, n, out, &ol); ACCI(rc); ACC(out, ol); break;
	case 5: rc = sm4_gcm_encrypt_update(&s->gcm, m, n, out, &ol); ACCI(rc); ACC(out, ol); break;
	case 6: { size_t cl = s->ctlen - s->ctoff, cn = (k == K - 1) ? cl : cl / (size_t)(K - k); rc = sm4_gcm_decrypt_update(&s->gcm, s->ct + s->ctoff, cn, out, &ol); s->ctoff += cn; ACCI(rc); ACC(out, ol); break; }
	case 7: rc = zuc_encrypt_update(&s->zuc, m, n, out, &ol); ACCI(rc); ACC(out, ol); break;
	case 8: rc = base64_encode_update(&s->b64, m, (int)n, out, &ilen); ACCI(rc); ACC(out, (size_t)ilen); break;
	case 10: { pthread_t th; int fed = 0; size_t rl = 0;
		   if (!s->pending) { s->rec[0] = 23; s->rec[1] = 3; s->rec[2] = 3; s->rec[3] = (uint8_t)(n >> 8); s->rec[4] = (uint8_t)n; memcpy(s->rec + 5, m, n); s->reclen = 5 + n;
			s->cut = (size_t[]){ 3, 1, 5, 4, 7, 2 }[(k + s->key[0]) % 6]; if (s->cut > s->reclen) s->cut = s->reclen;
			if (write(s->wr, s->rec, s->cut) != (ssize_t)s->cut) perror("thrdrv: write"); if (s->cut < s->reclen) { pthread_create(&th, NULL, nbrec_feeder, s); fed = 1; } }
		   rc = tls_record_recv(s->rbuf, &rl, s->rd); ACCI(rc); if (rc == 1) { ACC(s->rbuf, rl); ACCI(rl == s->reclen && memcmp(s->rbuf, s->rec, rl) == 0 ? 1 : -7); s->pending = 0; } else s->pending = 1;
		   if (fed) pthread_join(th, NULL); break; }
	default: rc = sm2_sign_update(&s->sign, m, n); ACCI(rc); break;
	}
	s->off += n;
	if (k == K - 1) {
		switch (s->fam) {
		case 0: sm3_finish(&s->sm3, out); ACC(out, 32); break;
		case 1: sm3_hmac_finish(&s->hmac, out); ACC(out, 32); break;
		case 2: sm3_kdf_finish(&s->kdf, out); ACC(out, 100); break;
		case 3: rc = sm4_cbc_encrypt_finish(&s->cbc, out, &ol); ACCI(rc); ACC(out, ol); break;
		case 4: rc = sm4_ctr_encrypt_finish(&s->ctr, out, &ol); ACCI(rc); ACC(out, ol); break;
		case 5: rc = sm4_gcm_encrypt_finish(&s->gcm, out, &ol); ACCI(rc); ACC(out, ol); break;
		case 6: rc = sm4_gcm_decrypt_finish(&s->gcm, out, &ol); ACCI(rc); ACC(out, ol); break;           // the genuine tag must be accepted
		case 7: rc = zuc_encrypt_finish(&s->zuc, out, &ol); ACCI(rc); ACC(out, ol); break;
		case 8: base64_encode_finish(&s->b64, out, &ilen); ACC(out, (size_t)ilen); break;
		case 10: close(s->rd); close(s->wr); break;
		default: { size_t sl = 0; rc = sm2_sign_finish(&s->sign, out, &sl); ACCI(rc); SM2_VERIFY_CTX vc; rc = sm2_verify_init(&vc, &s->sk, SM2_DEFAULT_ID, SM2_DEFAULT_ID_LENGTH); if (rc == 1) rc = sm2_verify_update(&vc, s->msg, s->mlen);
			   if (rc == 1) rc = sm2_verify_finish(&vc, out, sl); ACCI(rc); break; }        // signatures are randomised: what is compared is that the stream verifies
		}
	}
}

static int g_stream, g_fam = -1;
static void *worker(void *arg)
{
	TH *th = arg; uint64_t st = th->seed * 1000003ULL + (uint64_t)th->t * 7919 + 1; ent_seed(th->seed * 31 + (uint64_t)th->t); char tag[8]; snprintf(tag, sizeof tag, "T%d", th->t); ent_tag(tag);
	if (th->mode == 1) pthread_barrier_wait(&bar);
	STREAM *so = NULL; if (g_stream) { so = calloc(1, sizeof *so); so->fam = g_fam >= 0 ? g_fam % NSTREAM : (int)((th->seed + (uint64_t)th->t * 3) % NSTREAM); }
	for (int k = 0; k < th->K; k++) {
		int kind = (int)(vh_rand(&st) % NKIND);
		if (th->mode == 2) turn_begin(th->t);
		SM3_CTX acc; sm3_init(&acc); uint8_t d[32];
		if (so) stream_phase(so, k, th->K, &st, &acc); else do_op(kind, &st, &acc, th->t);
		sm3_finish(&acc, d);
		vt_begin("Op"); vt_int("run", th->run); vt_int("t", th->t); vt_int("k", k); vt_str("kind", so ? skinds[so->fam] : kinds[kind]); vt_hex("d", d, 16); vt_int("ones", ones); vt_end();
		if (th->mode == 2) turn_end();
	}
	return NULL;
}

int main(int argc, char **argv)
{
	if (argc < 4) return 2;
	FILE *sf = fopen(argv[1], "r"); if (!sf) return 3;
	vt_open(argv[2]); creddir = argv[3];
	char p[512]; snprintf(p, sizeof p, "%s/srv_d2/chain.der", creddir); srv_chain = slurp(p, &srv_chainlen); snprintf(p, sizeof p, "%s/srv_d2/sign.key", creddir); loadkey(p, &srv_key);
	snprintf(p, sizeof p, "%s/cli_d2/chain.der", creddir); cli_chain = slurp(p, &cli_chainlen); snprintf(p, sizeof p, "%s/cli_d2/sign.key", creddir); loadkey(p, &cli_key);
	snprintf(p, sizeof p, "%s/trust_root/ca.der", creddir); ca = slurp(p, &calen);
	if (!srv_chain || !cli_chain || !ca) { fprintf(stderr, "thrdrv: credentials missing\n"); return 4; }
	char line[65536];
	while (fgets(line, sizeof line, sf)) {
		KV kv; kv_parse(&kv, line); if (!kv.n) continue;
		int T = (int)kv_int(&kv, "threads", 2), K = (int)kv_int(&kv, "ops", 4), run = (int)kv_int(&kv, "id", 0); uint64_t seed = (uint64_t)kv_int(&kv, "seed", 1);
		g_stream = !strcmp(kv_str(&kv, "work", "mixed"), "stream"); g_fam = (int)kv_int(&kv, "fam", -1);      // fam >= 0: every thread's object is of that one kind (with its own key)
		const char *m = kv_str(&kv, "mode", "seq"); int mode = !strcmp(m, "free") ? 1 : !strcmp(m, "sched") ? 2 : 0;
		static long sc[8192]; nsched = kv_ints(&kv, "sched", sc, 8192); sched = malloc(sizeof(int) * (nsched + 1)); for (int i = 0; i < nsched; i++) sched[i] = (int)sc[i]; spos = 0;
		vt_begin("Run"); vt_int("run", run); vt_str("mode", m); vt_int("threads", T); vt_int("ops", K); vt_int("seed", (long)seed); vt_end();
		TH th[64]; pthread_t tid[64]; if (T > 64) T = 64;
		if (mode == 1) pthread_barrier_init(&bar, NULL, (unsigned)T);
		for (int t = 0; t < T; t++) { th[t] = (TH){ run, t, K, seed, mode }; if (mode == 0) worker(&th[t]); else pthread_create(&tid[t], NULL, worker, &th[t]); }
		if (mode != 0) for (int t = 0; t < T; t++) pthread_join(tid[t], NULL);
		if (mode == 1) pthread_barrier_destroy(&bar);
		free(sched);
		vt_begin("Reset"); vt_end();
	}
	vt_close(); return 0;
}
