// C14 driver: primitive ASN.1 decoders / encoders / validators on vectors computed by TLC (spec/DerVec.tla).
// script: kind=<k> in=<hex> | val=<int> | arcs=a,b,c | days= secs= year=
// event V{kind, rc, used, val:[...], dry, out:[...]}
#include <stdio.h>
#include <stdlib.h>
#include <string.h>
#include <gmssl/asn1.h>
#include "vh.h"
// depth-first walk over all TLVs with the library's own reader, descending into constructed values (C06 / spec/Wire.tla)
static int walk(const uint8_t *p, size_t l, long *nodes)
{
	while (l) {
		int tag; const uint8_t *d; size_t dl;
		if (asn1_any_type_from_der(&tag, &d, &dl, &p, &l) != 1) return -1;
		(*nodes)++;
		if ((tag & 0x20) && walk(d, dl, nodes) != 1) return -1;
	}
	return 1;
}
int main(int argc, char **argv)
{
	if (argc < 3) return 2;
	FILE *sf = fopen(argv[1], "r"); if (!sf) return 3;
	vt_open(argv[2]);
	char *line = malloc(1 << 16);
	while (fgets(line, 1 << 16, sf)) {
		KV kv; kv_parse(&kv, line); if (!kv.n) continue;
		const char *kind = kv_str(&kv, "kind", "integer"); size_t n; uint8_t *in = kv_hex(&kv, "in", &n);
		const uint8_t *p = in; size_t l = n; int rc = -99; long vals[80]; int nv = 0; uint8_t outb[600]; size_t outl = 0, dry = 0;
		vt_begin("V"); vt_int("id", kv_int(&kv, "id", 0)); vt_str("kind", kind);
		if (!strcmp(kind, "length")) { size_t len = 0; rc = asn1_length_from_der(&len, &p, &l); if (rc == -2) rc = 1; /* -2: the length itself is fine, the body announced is longer than the input */ vals[nv++] = (long)len; }
		else if (!strcmp(kind, "walk")) { long nn = 0; rc = n ? walk(in, n, &nn) : 1; vals[nv++] = rc == 1 ? nn : 0; }
		else if (!strcmp(kind, "integer")) { const uint8_t *a; size_t al = 0; rc = asn1_integer_from_der_ex(2, &a, &al, &p, &l); if (rc == 1) for (size_t i = 0; i < al && nv < 80; i++) vals[nv++] = a[i]; }
		else if (!strcmp(kind, "int")) { int v = 0; rc = asn1_int_from_der_ex(2, &v, &p, &l); vals[nv++] = v; }
		else if (!strcmp(kind, "boolean")) { int v = 0; rc = asn1_boolean_from_der_ex(1, &v, &p, &l); vals[nv++] = v; }
		else if (!strcmp(kind, "bitstring")) { const uint8_t *d; size_t nb = 0; rc = asn1_bit_string_from_der_ex(3, &d, &nb, &p, &l); if (rc == 1) { vals[nv++] = (long)nb; for (size_t i = 0; i < (nb + 7) / 8 && nv < 80; i++) vals[nv++] = d[i]; } }
		else if (!strcmp(kind, "oid")) { uint32_t nodes[40]; size_t cnt = 0; rc = asn1_object_identifier_from_der_ex(6, nodes, &cnt, &p, &l); if (rc == 1) for (size_t i = 0; i < cnt && nv < 80; i++) vals[nv++] = (long)nodes[i]; }
		else if (!strcmp(kind, "utf8")) { rc = asn1_string_is_utf8_string((char *)in, n); }
		else if (!strcmp(kind, "printable")) { rc = asn1_string_is_printable_string((char *)in, n); vals[nv++] = asn1_string_is_ia5_string((char *)in, n) == 1; }
		else if (!strcmp(kind, "encint")) { int v = (int)kv_int(&kv, "val", 0); uint8_t *o = NULL; rc = asn1_int_to_der_ex(2, v, &o, &dry); o = outb; if (rc == 1) rc = asn1_int_to_der_ex(2, v, &o, &outl); }
		else if (!strcmp(kind, "encoid")) { long a[40]; int c = kv_ints(&kv, "arcs", a, 40); uint32_t nodes[40]; for (int i = 0; i < c; i++) nodes[i] = (uint32_t)a[i]; uint8_t *o = NULL;
			rc = asn1_object_identifier_to_der_ex(6, nodes, (size_t)c, &o, &dry); o = outb; if (rc == 1) rc = asn1_object_identifier_to_der_ex(6, nodes, (size_t)c, &o, &outl);
			if (rc == 1) { uint32_t back[40]; size_t bc = 0; const uint8_t *q = outb; size_t ql = outl; int r2 = asn1_object_identifier_from_der_ex(6, back, &bc, &q, &ql); vals[nv++] = r2; vals[nv++] = (long)ql; for (size_t i = 0; i < bc && nv < 80; i++) vals[nv++] = back[i]; } }
		else if (!strcmp(kind, "time")) { time_t tv = (time_t)kv_int(&kv, "days", 0) * 86400 + kv_int(&kv, "secs", 0); int utc = kv_int(&kv, "utc", 0); uint8_t *o = NULL;
			rc = utc ? asn1_utc_time_to_der_ex(ASN1_TAG_UTCTime, tv, &o, &dry) : asn1_generalized_time_to_der_ex(ASN1_TAG_GeneralizedTime, tv, &o, &dry); o = outb;
			if (rc == 1) rc = utc ? asn1_utc_time_to_der_ex(ASN1_TAG_UTCTime, tv, &o, &outl) : asn1_generalized_time_to_der_ex(ASN1_TAG_GeneralizedTime, tv, &o, &outl);
			if (rc == 1) { time_t back = 0; const uint8_t *q = outb; size_t ql = outl; int r2 = utc ? asn1_utc_time_from_der_ex(ASN1_TAG_UTCTime, &back, &q, &ql) : asn1_generalized_time_from_der_ex(ASN1_TAG_GeneralizedTime, &back, &q, &ql);
				vals[nv++] = r2; vals[nv++] = (long)ql; vals[nv++] = (long)(back / 86400); vals[nv++] = (long)(back % 86400); } }
		vt_int("rc", rc); vt_int("used", (long)(n - l)); vt_int("dry", (long)dry);
		fprintf(stderr, "%s", ""); // keep stderr quiet
		{ uint8_t tmp[1]; (void)tmp; }
		// values as a JSON array of integers
		{ char buf[2048]; size_t o = 0; o += (size_t)snprintf(buf + o, sizeof buf - o, "["); for (int i = 0; i < nv; i++) o += (size_t)snprintf(buf + o, sizeof buf - o, i ? ",%ld" : "%ld", vals[i]); snprintf(buf + o, sizeof buf - o, "]");
		  vt_raw("val", buf); }
		vt_bytes("out", outb, outl); vt_end(); vt_begin("Reset"); vt_end();
	}
	vt_close(); return 0;
}
