// C03 driver: hashes, HMAC, KDFs through every API path, with caller-chosen chunkings.
// usage: hashdrv <script> <trace-out>
// script lines (key=value, hex bytes):
//   f=hash  api=native|generic|oneshot|sm3digest alg=<name> msg=<hex> chunks=a,b,c
//   f=hmac  api=native|generic|oneshot|sm3digest alg=<name> key=<hex> msg=<hex> chunks=...
//   f=pbkdf2 api=sm3|generic|hmac_sm3 alg= pass=<hex> salt=<hex> iter= outlen=
//   f=hkdf_extract api=generic|sm3 alg= salt= ikm=      f=hkdf_expand api=generic|sm3 alg= prk= info= outlen=
//   f=sm3kdf z=<hex> outlen= chunks=      f=sm2kdf z=<hex> outlen=
#include <stdio.h>
#include <stdlib.h>
#include <string.h>
#include <gmssl/sm3.h>
#include <gmssl/sha1.h>
#include <gmssl/sha2.h>
#include <gmssl/digest.h>
#include <gmssl/hmac.h>
#include <gmssl/hkdf.h>
#include <gmssl/pbkdf2.h>
#include <gmssl/sm2.h>
#include "vh.h"

static const DIGEST *dg(const char *alg)
{
	if (!strcmp(alg, "sm3")) return DIGEST_sm3(); if (!strcmp(alg, "sha1")) return DIGEST_sha1();
	if (!strcmp(alg, "sha224")) return DIGEST_sha224(); if (!strcmp(alg, "sha256")) return DIGEST_sha256();
	if (!strcmp(alg, "sha384")) return DIGEST_sha384(); if (!strcmp(alg, "sha512")) return DIGEST_sha512();
	if (!strcmp(alg, "sha512-224")) return DIGEST_sha512_224(); if (!strcmp(alg, "sha512-256")) return DIGEST_sha512_256();
	return NULL;
}

typedef union { SM3_CTX sm3; SHA1_CTX sha1; SHA224_CTX sha224; SHA256_CTX sha256; SHA384_CTX sha384; SHA512_CTX sha512;
	DIGEST_CTX d; SM3_DIGEST_CTX sd; SM3_HMAC_CTX sh; HMAC_CTX h; SM3_KDF_CTX kdf; } CTX;

static void ev_init(const KV *kv, const char *f)
{
	vt_begin("Init"); vt_int("id", kv_int(kv, "id", 0)); vt_str("f", f); if (kv_has(kv, "mayrefuse")) vt_int("mayrefuse", 1); vt_str("api", kv_str(kv, "api", "-")); vt_str("alg", kv_str(kv, "alg", "sm3"));
}

static void run_stream(const KV *kv, const char *f)
{
	const char *api = kv_str(kv, "api", "native"), *alg = kv_str(kv, "alg", "sm3");
	size_t msglen, keylen; uint8_t *msg = kv_hex(kv, f[0] == 's' ? "z" : "msg", &msglen); uint8_t *key = kv_hex(kv, "key", &keylen);
	long chunks[256]; int nch = kv_ints(kv, "chunks", chunks, 256);
	long outlen = kv_int(kv, "outlen", 32);
	int is_hmac = !strcmp(f, "hmac"), is_kdf = !strcmp(f, "sm3kdf");
	CTX *c = calloc(1, sizeof(CTX)); int rc = 1;
	ev_init(kv, f); if (is_hmac) vt_bytes("key", key, keylen); if (is_kdf) vt_int("outlen", outlen);
	if (is_kdf) sm3_kdf_init(&c->kdf, (size_t)outlen);
	else if (!strcmp(api, "native")) {
		if (is_hmac) sm3_hmac_init(&c->sh, key, keylen);
		else if (!strcmp(alg, "sm3")) sm3_init(&c->sm3); else if (!strcmp(alg, "sha1")) sha1_init(&c->sha1);
		else if (!strcmp(alg, "sha224")) sha224_init(&c->sha224); else if (!strcmp(alg, "sha256")) sha256_init(&c->sha256);
		else if (!strcmp(alg, "sha384")) sha384_init(&c->sha384); else if (!strcmp(alg, "sha512")) sha512_init(&c->sha512);
		else rc = -99;
	} else if (!strcmp(api, "generic")) rc = is_hmac ? hmac_init(&c->h, dg(alg), key, keylen) : digest_init(&c->d, dg(alg));
	else if (!strcmp(api, "sm3digest")) rc = sm3_digest_init(&c->sd, is_hmac ? key : NULL, is_hmac ? keylen : 0);
	vt_int("rc", rc); vt_end();
	size_t off = 0;
	for (int i = 0; i <= nch && rc == 1; i++) {
		size_t n = i < nch ? (size_t)chunks[i] : msglen - off; if (i == nch && n == 0) break;
		if (off + n > msglen) n = msglen - off;
		uint8_t *p = vh_exact(n); memcpy(p, msg + off, n);
		int r = 1;
		if (is_kdf) sm3_kdf_update(&c->kdf, p, n);
		else if (!strcmp(api, "native")) {
			if (is_hmac) sm3_hmac_update(&c->sh, p, n);
			else if (!strcmp(alg, "sm3")) sm3_update(&c->sm3, p, n); else if (!strcmp(alg, "sha1")) sha1_update(&c->sha1, p, n);
			else if (!strcmp(alg, "sha224")) sha224_update(&c->sha224, p, n); else if (!strcmp(alg, "sha256")) sha256_update(&c->sha256, p, n);
			else if (!strcmp(alg, "sha384")) sha384_update(&c->sha384, p, n); else if (!strcmp(alg, "sha512")) sha512_update(&c->sha512, p, n);
		} else if (!strcmp(api, "generic")) r = is_hmac ? hmac_update(&c->h, p, n) : digest_update(&c->d, p, n);
		else r = sm3_digest_update(&c->sd, p, n);
		vt_begin("Update"); vt_bytes("in", p, n); vt_int("rc", r); vt_end();
		if (n) free(p); else free(p - 1);
		// a refused chunk leaves the state unchanged: the caller simply carries on (empty chunks may be refused)
		if (r == 1 || n == 0) off += (r == 1 ? n : 0); else { rc = r; }
		if (r != 1 && n != 0) break;
	}
	uint8_t out[16384]; size_t outl = 0; int fr = rc;
	if (rc == 1) {
		if (is_kdf) { sm3_kdf_finish(&c->kdf, out); outl = (size_t)outlen; }
		else if (!strcmp(api, "native")) {
			if (is_hmac) { sm3_hmac_finish(&c->sh, out); outl = 32; }
			else if (!strcmp(alg, "sm3")) { sm3_finish(&c->sm3, out); outl = 32; } else if (!strcmp(alg, "sha1")) { sha1_finish(&c->sha1, out); outl = 20; }
			else if (!strcmp(alg, "sha224")) { sha224_finish(&c->sha224, out); outl = 28; } else if (!strcmp(alg, "sha256")) { sha256_finish(&c->sha256, out); outl = 32; }
			else if (!strcmp(alg, "sha384")) { sha384_finish(&c->sha384, out); outl = 48; } else if (!strcmp(alg, "sha512")) { sha512_finish(&c->sha512, out); outl = 64; }
		} else if (!strcmp(api, "generic")) fr = is_hmac ? hmac_finish(&c->h, out, &outl) : digest_finish(&c->d, out, &outl);
		else { fr = sm3_digest_finish(&c->sd, out); outl = 32; }
	}
	vt_begin("Finish"); vt_int("rc", fr); vt_bytes("out", out, fr == 1 ? outl : 0); vt_end();
	free(c);
}

static void run_call(const KV *kv, const char *f)
{
	const char *api = kv_str(kv, "api", "generic"), *alg = kv_str(kv, "alg", "sm3");
	uint8_t out[16384]; size_t outl = 0; int rc = -99;
	vt_begin("Call"); vt_int("id", kv_int(kv, "id", 0)); vt_str("f", f); if (kv_has(kv, "mayrefuse")) vt_int("mayrefuse", 1); vt_str("api", api); vt_str("alg", alg);
	if (!strcmp(f, "hash")) {
		size_t n; uint8_t *m = kv_hex(kv, "msg", &n); vt_bytes("in", m, n);
		rc = digest(dg(alg), m, n, out, &outl);
	} else if (!strcmp(f, "hmac")) {
		size_t n, kl; uint8_t *m = kv_hex(kv, "msg", &n), *k = kv_hex(kv, "key", &kl); vt_bytes("in", m, n); vt_bytes("key", k, kl);
		rc = hmac(dg(alg), k, kl, m, n, out, &outl);
		// the verifying variant of finish: accepts this MAC and nothing that differs from it, however the difference is distributed (-77 / -78 tell the judge otherwise)
		if (rc == 1 && outl >= 8) { HMAC_CTX hc; uint8_t t[64];
			if (hmac_init(&hc, dg(alg), k, kl) == 1 && hmac_update(&hc, m, n) == 1 && hmac_finish_and_verify(&hc, out, outl) != 1) rc = -77;
			for (int v = 0; v < 6 && rc == 1; v++) { memcpy(t, out, outl); size_t tl = outl;
				if (v == 0) { t[0] ^= 0x80; t[1] ^= 0x80; } else if (v == 1) { t[0] ^= 0x40; t[1] ^= 0x40; t[2] ^= 0x40; t[3] ^= 0x40; } else if (v == 2) { uint8_t x = t[0]; t[0] = t[outl - 1]; t[outl - 1] = x; if (!memcmp(t, out, outl)) t[0] ^= 1; }
				else if (v == 3) t[outl - 1] ^= 0x01; else if (v == 4) t[8] ^= 0x10; else tl = outl - 1;
				if (hmac_init(&hc, dg(alg), k, kl) == 1 && hmac_update(&hc, m, n) == 1 && hmac_finish_and_verify(&hc, t, tl) == 1) rc = -78; } }
	} else if (!strcmp(f, "pbkdf2")) {
		size_t pl, sl; uint8_t *pw = kv_hex(kv, "pass", &pl), *salt = kv_hex(kv, "salt", &sl); long it = kv_int(kv, "iter", 1), ol = kv_int(kv, "outlen", 32);
		vt_bytes("pass", pw, pl); vt_bytes("salt", salt, sl); vt_int("iter", it); vt_int("outlen", ol);
		rc = sm3_pbkdf2((char *)pw, pl, salt, sl, (size_t)it, (size_t)ol, out); // the only PBKDF2 the library builds (pbkdf2.h declares more)
		outl = (size_t)ol;
	} else if (!strcmp(f, "hkdf_extract")) {
		size_t sl, il; uint8_t *salt = kv_hex(kv, "salt", &sl), *ikm = kv_hex(kv, "ikm", &il); vt_bytes("salt", salt, sl); vt_bytes("ikm", ikm, il);
		if (!strcmp(api, "sm3")) { rc = sm3_hkdf_extract(salt, sl, ikm, il, out); outl = 32; }
		else rc = hkdf_extract(dg(alg), salt, sl, ikm, il, out, &outl);
	} else if (!strcmp(f, "hkdf_expand")) {
		size_t pl, il; uint8_t *prk = kv_hex(kv, "prk", &pl), *info = kv_hex(kv, "info", &il); long ol = kv_int(kv, "outlen", 32);
		vt_bytes("prk", prk, pl); vt_bytes("info", info, il); vt_int("outlen", ol);
		if (!strcmp(api, "sm3")) rc = sm3_hkdf_expand(prk, info, il, (size_t)ol, out);
		else rc = hkdf_expand(dg(alg), prk, pl, info, il, (size_t)ol, out);
		outl = (size_t)ol;
	} else if (!strcmp(f, "sm2kdf")) {
		size_t zl; uint8_t *z = kv_hex(kv, "z", &zl); long ol = kv_int(kv, "outlen", 32); vt_bytes("z", z, zl); vt_int("outlen", ol);
		rc = sm2_kdf(z, zl, (size_t)ol, out); outl = (size_t)ol;
	}
	vt_int("rc", rc); vt_bytes("out", out, rc == 1 ? outl : 0); vt_end();
}

int main(int argc, char **argv)
{
	if (argc < 3) return 2;
	FILE *sf = fopen(argv[1], "r"); if (!sf) return 3;
	vt_open(argv[2]);
	char *line = malloc(1 << 22);
	while (fgets(line, 1 << 22, sf)) {
		KV kv; kv_parse(&kv, line); if (!kv.n) continue;
		const char *f = kv_str(&kv, "f", "hash"), *api = kv_str(&kv, "api", "native");
		int stream = (!strcmp(f, "hash") || !strcmp(f, "hmac")) ? strcmp(api, "oneshot") != 0 : !strcmp(f, "sm3kdf");
		if (stream) run_stream(&kv, f); else run_call(&kv, f);
		vt_begin("Reset"); vt_end();
	}
	vt_close();
	return 0;
}
