// C15 driver: certificates, requests and CRLs issued through the library, parsed back and verified.
// script lines:
//  kind=cert|req|crl serial=<hex> nb=<days> nbs=<secs> na=<days> nas=<secs> cn=<hex> cntag=12|19|22.. org=<hex> exts=<list> sid=<hex> revoked=<hexserial,hexserial..> seed=
//  kind=verify obj=cert|req|crl der=<hex> key=right|other sid=<hex>
//  kind=lookup der=<hex> serial=<hex>
#define _GNU_SOURCE
#include <stdio.h>
#include <stdlib.h>
#include <string.h>
#include <gmssl/sm2.h>
#include <gmssl/x509.h>
#include <gmssl/x509_ext.h>
#include <gmssl/x509_req.h>
#include <gmssl/x509_crl.h>
#include <gmssl/oid.h>
#include "vh.h"

static SM2_KEY kiss, ksub, kother;
static void fixed_key(SM2_KEY *k, uint8_t b) { uint8_t d[32]; memset(d, b, 32); d[0] = 0x31; sm2_z256_t z; sm2_z256_from_bytes(z, d); sm2_key_set_private_key(k, z); }
static time_t tv(const KV *kv, const char *d, const char *s) { return (time_t)kv_int(kv, d, 20000) * 86400 + kv_int(kv, s, 0); }
static void vt_time(const char *k, time_t t) { char a[32], b[32]; snprintf(a, 32, "%s_d", k); snprintf(b, 32, "%s_s", k); vt_int(a, (long)(t / 86400)); vt_int(b, (long)(t % 86400)); }

static int build_name(uint8_t *nm, size_t *nl, size_t max, const KV *kv, const char *prefix)
{
	char k[32]; size_t l; *nl = 0; int rc = 1;
	snprintf(k, 32, "%sc", prefix); const char *c = kv_str(kv, k, "CN"); if (strcmp(c, "-")) rc = x509_name_add_country_name(nm, nl, max, c);
	snprintf(k, 32, "%sorg", prefix); uint8_t *org = kv_hex(kv, k, &l); if (rc == 1 && l) rc = x509_name_add_organization_name(nm, nl, max, ASN1_TAG_UTF8String, org, l);
	snprintf(k, 32, "%scn", prefix); uint8_t *cn = kv_hex(kv, k, &l); snprintf(k, 32, "%scntag", prefix);
	if (rc == 1 && l) rc = x509_name_add_common_name(nm, nl, max, (int)kv_int(kv, k, ASN1_TAG_UTF8String), cn, l);
	return rc;
}
static int build_exts(uint8_t *ex, size_t *el, size_t max, const KV *kv)
{
	char buf[256]; snprintf(buf, sizeof buf, "%s", kv_str(kv, "exts", "")); *el = 0; int rc = 1; char *sp = NULL;
	for (char *t = strtok_r(buf, ",", &sp); t && rc == 1; t = strtok_r(NULL, ",", &sp)) {
		int crit = t[strlen(t) - 1] == '!' ? 1 : (t[strlen(t) - 1] == '?' ? 0 : -1); if (crit != -1) t[strlen(t) - 1] = 0;
		if (!strcmp(t, "bc_ca")) rc = x509_exts_add_basic_constraints(ex, el, max, crit, 1, 3);
		else if (!strcmp(t, "bc_ca0")) rc = x509_exts_add_basic_constraints(ex, el, max, crit, 1, 0);
		else if (!strcmp(t, "bc_ee")) rc = x509_exts_add_basic_constraints(ex, el, max, crit, 0, -1);
		else if (!strcmp(t, "ku_sign")) rc = x509_exts_add_key_usage(ex, el, max, crit, X509_KU_DIGITAL_SIGNATURE);
		else if (!strcmp(t, "ku_ca")) rc = x509_exts_add_key_usage(ex, el, max, crit, X509_KU_KEY_CERT_SIGN | X509_KU_CRL_SIGN);
		else if (!strcmp(t, "ku_all")) rc = x509_exts_add_key_usage(ex, el, max, crit, 0x1ff);
		else if (!strcmp(t, "eku")) { int kp[2] = { OID_kp_server_auth, OID_kp_client_auth }; rc = x509_exts_add_ext_key_usage(ex, el, max, crit, kp, 2); }
		else if (!strcmp(t, "ski")) rc = x509_exts_add_subject_key_identifier_ex(ex, el, max, crit, &ksub);
		else if (!strcmp(t, "aki")) rc = x509_exts_add_default_authority_key_identifier(ex, el, max, &kiss);
		else if (!strcmp(t, "crldp")) rc = x509_exts_add_crl_distribution_points_ex(ex, el, max, OID_ce_crl_distribution_points, crit, "http://example.org/ca.crl", 25, NULL, 0);
		else if (!strcmp(t, "pc")) rc = x509_exts_add_policy_constraints(ex, el, max, crit, 1, 2);
		else if (!strcmp(t, "iap")) rc = x509_exts_add_inhibit_any_policy(ex, el, max, crit, 2);
		else if (!strcmp(t, "aia")) rc = x509_exts_add_authority_info_access(ex, el, max, crit, "http://example.org/ca.crt", 25, "http://ocsp.example.org", 23);
		// (x509_certificate_policies_add_policy_information / x509_general_subtrees_add_general_subtree are stubs that return -1: the inner values are written by hand)
		else if (!strcmp(t, "cp")) { static const uint8_t d[] = { 0x30, 0x06, 0x06, 0x04, 0x55, 0x1d, 0x20, 0x00, 0x30, 0x09, 0x06, 0x07, 0x2a, 0x81, 0x1c, 0xcf, 0x55, 0x06, 0x01 }; rc = x509_exts_add_certificate_policies(ex, el, max, crit, d, sizeof d); }
		else if (!strcmp(t, "pm")) { uint8_t d[256]; size_t dl = 0; uint32_t a[6] = {1, 2, 156, 10197, 6, 1}, b[6] = {1, 2, 156, 10197, 6, 2}; uint8_t in2[128], *q2 = in2; size_t il = 0;      // (x509_policy_mappings_add_policy_mapping is declared but not defined: one PolicyMapping written by hand)
			rc = asn1_object_identifier_to_der(a, 6, &q2, &il); if (rc == 1) rc = asn1_object_identifier_to_der(b, 6, &q2, &il); uint8_t *q3 = d; if (rc == 1) rc = asn1_sequence_to_der(in2, il, &q3, &dl);
			if (rc == 1) rc = x509_exts_add_policy_mappings(ex, el, max, crit, d, dl); }
		else if (!strcmp(t, "nc")) { static const uint8_t p1[] = { 0x30, 0x0e, 0x82, 0x0c, '.', 'e', 'x', 'a', 'm', 'p', 'l', 'e', '.', 'o', 'r', 'g' }, p2[] = { 0x30, 0x09, 0x82, 0x07, 'b', 'a', 'd', '.', 'o', 'r', 'g' };
			rc = x509_exts_add_name_constraints(ex, el, max, crit, p1, sizeof p1, p2, sizeof p2); }
		else if (!strcmp(t, "fcrl")) { uint8_t d[256]; size_t dl = 0; uint8_t *pp = d; rc = x509_uri_as_distribution_points_to_der("http://example.org/delta.crl", 28, -1, NULL, 0, &pp, &dl); if (rc == 1) { const uint8_t *c = d; size_t cl = dl; const uint8_t *in; size_t inl; rc = asn1_sequence_from_der(&in, &inl, &c, &cl); if (rc == 1) rc = x509_exts_add_freshest_crl(ex, el, max, crit, in, inl); } }
		else if (!strncmp(t, "san", 3) || !strncmp(t, "ian", 3)) {      // subject / issuer alternative name with one dNSName of the given length (x509_exts_add_sequence path)
			static uint8_t gns[2048]; static char nm[1600]; size_t gl = 0; long n = atol(t + 3); if (n < 1) n = 1; if (n > 1500) n = 1500; memset(nm, 'a', (size_t)n); nm[n] = 0;
			rc = x509_general_names_add_dns_name(gns, &gl, sizeof gns, nm);
			if (rc == 1) rc = t[0] == 's' ? x509_exts_add_subject_alt_name(ex, el, max, crit, gns, gl) : x509_exts_add_issuer_alt_name(ex, el, max, crit, gns, gl); }
	}
	return rc;
}

int main(int argc, char **argv)
{
	if (argc < 3) return 2;
	FILE *sf = fopen(argv[1], "r"); if (!sf) return 3;
	vt_open(argv[2]); fixed_key(&kiss, 0x55); fixed_key(&ksub, 0x66); fixed_key(&kother, 0x77);
	char *line = malloc(1 << 20);
	while (fgets(line, 1 << 20, sf)) {
		KV kv; kv_parse(&kv, line); if (!kv.n) continue;
		const char *kind = kv_str(&kv, "kind", "cert"); ent_seed((uint64_t)kv_int(&kv, "seed", 3));
		size_t sl, sidl, dl; uint8_t *serial = kv_hex(&kv, "serial", &sl), *sid = kv_hex(&kv, "sid", &sidl), *der = kv_hex(&kv, "der", &dl);
		if (!sidl) { sid = (uint8_t *)SM2_DEFAULT_ID; sidl = SM2_DEFAULT_ID_LENGTH; }
		if (!strcmp(kind, "cert") || !strcmp(kind, "req") || !strcmp(kind, "crl")) {
			uint8_t iss[512], sub[512], ex[4096], out[16384], *p = out; size_t il, sbl, el = 0, ol = 0; int rc;
			rc = build_name(iss, &il, sizeof iss, &kv, "i"); if (rc == 1) rc = build_name(sub, &sbl, sizeof sub, &kv, "");
			SM2_KEY ksub_saved = ksub; int selfs = (int)kv_int(&kv, "self", 0);      // self=1: a self-signed object (subject = issuer, subject key = issuing key)
			if (selfs) { memcpy(sub, iss, il); sbl = il; ksub = kiss; }
			if (rc == 1) rc = build_exts(ex, &el, sizeof ex, &kv);
			time_t nb = tv(&kv, "nb", "nbs"), na = tv(&kv, "na", "nas");
			if (kv_int(&kv, "nonext", 0)) na = (time_t)-1;          // a CRL without nextUpdate (the field is OPTIONAL; -1 = absent, when issuing and when parsing)
			uint8_t rev[4096]; size_t rl = 0;
			if (rc == 1 && !strcmp(kind, "crl")) {
				char rb[2048]; snprintf(rb, sizeof rb, "%s", kv_str(&kv, "revoked", "")); char *sp = NULL; uint8_t *rp = rev;
				for (char *t = strtok_r(rb, ",", &sp); t && rc == 1; t = strtok_r(NULL, ",", &sp)) { uint8_t s[64]; if (!strcmp(t, "-")) continue;
						// <serial>[:<reason>[:<invalidity date, days>]]  (reason -1 / date -1: extension absent)
						long reason = -1, inv = -1; char *c1 = strchr(t, ':'); if (c1) { *c1++ = 0; reason = atol(c1); char *c2 = strchr(c1, ':'); if (c2) inv = atol(c2 + 1); }
						int n = vh_unhex(t, s, 64);
						if (reason == -1 && inv == -1) rc = x509_revoked_cert_to_der(s, (size_t)n, nb - 3600, NULL, 0, &rp, &rl);
						else rc = x509_revoked_cert_to_der_ex(s, (size_t)n, nb - 3600, (int)reason, inv < 0 ? (time_t)-1 : (time_t)inv * 86400, NULL, 0, &rp, &rl); }
			}
			if (rc == 1) {
				if (!strcmp(kind, "cert")) rc = x509_cert_sign_to_der(X509_version_v3, serial, sl, OID_sm2sign_with_sm3, iss, il, nb, na, sub, sbl, &ksub, NULL, 0, NULL, 0, el ? ex : NULL, el, &kiss, (char *)sid, sidl, &p, &ol);
				else if (!strcmp(kind, "req")) rc = x509_req_sign_to_der(X509_version_v1, sub, sbl, &ksub, ex /* empty attribute set: the tools pass a buffer with length 0 */, 0, OID_sm2sign_with_sm3, &ksub, (char *)sid, sidl, &p, &ol);
				else rc = x509_crl_sign_to_der(X509_version_v2, OID_sm2sign_with_sm3, iss, il, nb, na, rl ? rev : NULL, rl, el ? ex : NULL, el, &kiss, (char *)sid, sidl, &p, &ol);
			}
			uint8_t pk[64]; sm2_z256_point_to_bytes(&ksub.public_key, pk);
			vt_begin("Issue"); vt_int("id", kv_int(&kv, "id", 0)); vt_str("kind", kind); vt_int("rc", rc); vt_bytes("serial", serial, sl); vt_bytes("issuer", iss, il); vt_bytes("subject", sub, sbl);
			vt_time("nb", nb); vt_time("na", na); vt_bytes("exts", ex, el); vt_bytes("pub", pk, 64); vt_bytes("revoked", rev, rl); vt_hex("der", out, rc == 1 ? ol : 0); vt_end();
			if (rc == 1) {
				// parse back
				int ver = -9, alg1 = -9, alg2 = -9; const uint8_t *ps = NULL, *pi = NULL, *psub = NULL, *pe = NULL, *sig = NULL, *prev = NULL; size_t psl = 0, pil = 0, psubl = 0, pel = 0, sigl = 0, prevl = 0; time_t t1 = 12345, t2 = 12345 /* a field the parser does not set stays visible */; SM2_KEY pub; memset(&pub, 0, sizeof pub); int prc;
				if (!strcmp(kind, "cert")) prc = x509_cert_get_details(out, ol, &ver, &ps, &psl, &alg1, &pi, &pil, &t1, &t2, &psub, &psubl, &pub, NULL, NULL, NULL, NULL, &pe, &pel, &alg2, &sig, &sigl);
				else if (!strcmp(kind, "req")) { const uint8_t *at; size_t atl; prc = x509_req_get_details(out, ol, &ver, &psub, &psubl, &pub, &at, &atl, &alg2, &sig, &sigl); }
				else prc = x509_crl_get_details(out, ol, &ver, &alg1, &pi, &pil, &t1, &t2, &prev, &prevl, &pe, &pel, &alg2, &sig, &sigl);
				uint8_t ppk[64] = {0}; if (prc == 1 && strcmp(kind, "crl")) sm2_z256_point_to_bytes(&pub.public_key, ppk);
				vt_begin("Parse"); vt_int("rc", prc); vt_int("version", ver); vt_bytes("serial", ps, psl); vt_bytes("issuer", pi, pil); vt_bytes("subject", psub, psubl); vt_time("nb", t1); vt_time("na", t2);
				// the library's own walk over the extensions it handed back
				{ long walked = 0; const uint8_t *wp = pe; size_t wl = pel; while (wl && walked >= 0) { int xo, xc; uint32_t nodes[32]; size_t nn; const uint8_t *xv; size_t xvl;
					if (x509_ext_from_der(&xo, nodes, &nn, &xc, &xv, &xvl, &wp, &wl) != 1) walked = -1; else walked++; } vt_int("extwalk", walked); }
				vt_bytes("exts", pe, pel); vt_bytes("pub", ppk, strcmp(kind, "crl") ? 64 : 0); vt_bytes("revoked", prev, prevl); vt_int("alg1", alg1); vt_int("alg2", alg2); vt_end();
			}
			ksub = ksub_saved;
		} else if (!strcmp(kind, "verify")) {
			const char *obj = kv_str(&kv, "obj", "cert"); const SM2_KEY *k = !strcmp(kv_str(&kv, "key", "right"), "right") ? (strcmp(obj, "req") ? &kiss : &ksub) : &kother; int rc;
			// via=cacert ca=<hex>: the issuer given as a certificate (name and key are taken from it); via=self: the object is its own issuer certificate
			const char *via = kv_str(&kv, "via", "key"); size_t cal = 0; uint8_t *cader = kv_hex(&kv, "ca", &cal);
			if (!strcmp(via, "self")) rc = x509_cert_verify_by_ca_cert(der, dl, der, dl, (char *)sid, sidl);
			else if (!strcmp(via, "cacert")) rc = !strcmp(obj, "crl") ? x509_crl_verify_by_ca_cert(der, dl, cader, cal, (char *)sid, sidl) : x509_cert_verify_by_ca_cert(der, dl, cader, cal, (char *)sid, sidl);
			else if (!strcmp(via, "signedca")) rc = x509_signed_verify_by_ca_cert(der, dl, cader, cal, (char *)sid, sidl);
			else if (!strcmp(obj, "cert")) rc = x509_signed_verify(der, dl, k, (char *)sid, sidl);
			else if (!strcmp(obj, "req")) { if (k == &ksub) rc = x509_req_verify(der, dl, (char *)sid, sidl); else rc = x509_signed_verify(der, dl, k, (char *)sid, sidl); }
			else rc = x509_signed_verify(der, dl, k, (char *)sid, sidl); // x509_crl_verify is declared but not built; CRLs verify through the generic signed-object check
			vt_begin("Verify"); vt_int("id", kv_int(&kv, "id", 0)); vt_int("rc", rc); vt_end();
		} else if (!strcmp(kind, "lookup")) {
			time_t rd = 0; const uint8_t *ee; size_t eel; int rc = x509_crl_find_revoked_cert_by_serial_number(der, dl, serial, sl, &rd, &ee, &eel);
			int reason = -1; time_t inv = -1; const uint8_t *ci = NULL; size_t cil = 0; int xrc = 0;
			if (rc == 1 && ee && eel) xrc = x509_crl_entry_exts_get(ee, eel, &reason, &inv, &ci, &cil);
			vt_begin("Lookup"); vt_int("id", kv_int(&kv, "id", 0)); vt_int("rc", rc); vt_int("rd", rc == 1 ? (long)rd : 0); vt_int("xrc", xrc); vt_int("reason", reason); vt_int("inv", inv == (time_t)-1 ? -1 : (long)(inv / 86400)); vt_end();
		}
		vt_begin("Reset"); vt_end();
	}
	vt_close(); return 0;
}
