// C09 driver: the library's TLS server (or client) on an inherited socket, talking to a peer that is NOT the library (tools/roguepeer.py).
// usage: srvdrv <creddir> <trace> <fd> <proto> <role: server|client> <own cred|-> <trust|->
// events: HsRet{rc, peer_certs_len}, Data{rc, got}, End
#define _GNU_SOURCE
#include <stdio.h>
#include <stdlib.h>
#include <string.h>
#include <unistd.h>
#include <signal.h>
#include <gmssl/tls.h>
#include <gmssl/sm2.h>
#include "vh.h"

static uint8_t *slurp(const char *p, size_t *n) { FILE *f = fopen(p, "rb"); if (!f) { *n = 0; return NULL; } fseek(f, 0, SEEK_END); long l = ftell(f); fseek(f, 0, SEEK_SET); uint8_t *b = malloc(l + 1); *n = fread(b, 1, l, f); fclose(f); return b; }
static int loadkey(const char *p, SM2_KEY *k) { size_t n; uint8_t *h = slurp(p, &n); if (!h) return 0; h[n] = 0; uint8_t d[32]; vh_unhex((char *)h, d, 32); sm2_z256_t z; sm2_z256_from_bytes(z, d); free(h); return sm2_key_set_private_key(k, z) == 1; }

int main(int argc, char **argv)
{
	if (argc < 8) return 2;
	signal(SIGPIPE, SIG_IGN);       // the peer may hang up at any point
	const char *dir = argv[1]; vt_open(argv[2]); int fd = atoi(argv[3]), proto = atoi(argv[4]), is_server = !strcmp(argv[5], "server");
	TLS_CTX ctx; TLS_CONNECT *conn = calloc(1, sizeof *conn); memset(&ctx, 0, sizeof ctx);
	ent_seed(4242); ent_tag(is_server ? "S" : "C");
	tls_ctx_init(&ctx, proto, is_server ? TLS_server_mode : TLS_client_mode); ctx.quiet = 1;
	char p[512]; size_t n;
	if (strcmp(argv[6], "-")) {
		snprintf(p, sizeof p, "%s/%s/chain.der", dir, argv[6]); ctx.certs = slurp(p, &n); ctx.certslen = n;
		SM2_KEY k; snprintf(p, sizeof p, "%s/%s/sign.key", dir, argv[6]); if (loadkey(p, &k)) ctx.signkey = k;
		snprintf(p, sizeof p, "%s/%s/enc.key", dir, argv[6]); if (loadkey(p, &k)) ctx.kenckey = k;
	}
	if (strcmp(argv[7], "-")) { snprintf(p, sizeof p, "%s/%s/ca.der", dir, argv[7]); ctx.cacerts = slurp(p, &n); ctx.cacertslen = n; ctx.verify_depth = 5; }
	if (tls_init(conn, &ctx) != 1) { vt_begin("HsRet"); vt_int("rc", -9); vt_int("peer_certs_len", 0); vt_end(); vt_begin("End"); vt_end(); vt_close(); return 0; }
	tls_set_socket(conn, fd);
	int rc = tls_do_handshake(conn);
	vt_begin("HsRet"); vt_int("rc", rc); vt_int("peer_certs_len", (long)(is_server ? conn->client_certs_len : conn->server_certs_len)); vt_end();
	if (rc == 1) {
		uint8_t buf[256]; size_t got = 0; int r = proto == TLS_protocol_tls13 ? tls13_recv(conn, buf, sizeof buf, &got) : tls_recv(conn, buf, sizeof buf, &got);
		vt_begin("Data"); vt_int("rc", r); vt_hex("got", buf, r == 1 ? got : 0); vt_end();
		// VH_RECV_AGAIN: an application that keeps asking, also after a refused record (a retry loop, a second reader): only what the peer wrote as application data is ever delivered
		for (int i = 0; getenv("VH_RECV_AGAIN") && i < 4; i++) {
			got = 0; int r2 = proto == TLS_protocol_tls13 ? tls13_recv(conn, buf, sizeof buf, &got) : tls_recv(conn, buf, sizeof buf, &got);
			vt_begin("Again"); vt_int("rc", r2); vt_int("n", (long)(r2 == 1 ? got : 0)); vt_hex("got", buf, r2 == 1 ? got : 0); vt_end();
		}
	}
	shutdown(fd, 2);
	vt_begin("End"); vt_end(); vt_close(); return 0;
}
