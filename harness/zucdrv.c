// C04 driver (stream ciphers): ZUC-128 / ZUC-256 keystream, byte and word (EEA3) encryption, EIA3 / ZUC MACs, ChaCha20 keystream.
// script: f=<fn> api=oneshot|stream key= iv= msg= nbits= nwords= count= bearer= dir= macbits= counter= chunks=a,b,c
// events as modedrv: Call{f,..,in,out,rc} or Init / Update{in,out,rc} / Finish{out,rc}
#define _GNU_SOURCE
#include <stdio.h>
#include <stdlib.h>
#include <string.h>
#include <gmssl/zuc.h>
#include <gmssl/chacha20.h>
#include "vh.h"

static void be(const uint32_t *w, size_t n, uint8_t *o) { for (size_t i = 0; i < n; i++) { o[4 * i] = (uint8_t)(w[i] >> 24); o[4 * i + 1] = (uint8_t)(w[i] >> 16); o[4 * i + 2] = (uint8_t)(w[i] >> 8); o[4 * i + 3] = (uint8_t)w[i]; } }
static void common(const KV *kv, const char *f, const uint8_t *key, size_t kl, const uint8_t *iv, size_t il)
{
	vt_int("id", kv_int(kv, "id", 0)); vt_str("f", f); vt_bytes("key", key, kl); vt_bytes("iv", iv, il); vt_int("nbits", kv_int(kv, "nbits", 0)); vt_int("nwords", kv_int(kv, "nwords", 0));
	vt_int("count", kv_int(kv, "count", 0)); vt_int("bearer", kv_int(kv, "bearer", 0)); vt_int("dir", kv_int(kv, "dir", 0)); vt_int("macbits", kv_int(kv, "macbits", 32));
	size_t cl; uint8_t *ctr = kv_hex(kv, "counter", &cl); vt_bytes("counter", ctr, cl);
}
int main(int argc, char **argv)
{
	if (argc < 3) return 2;
	FILE *sf = fopen(argv[1], "r"); if (!sf) return 3;
	vt_open(argv[2]);
	char *line = malloc(1 << 18);
	while (fgets(line, 1 << 18, sf)) {
		KV kv; kv_parse(&kv, line); if (!kv.n) continue;
		const char *f = kv_str(&kv, "f", "zuc_ks"), *api = kv_str(&kv, "api", "oneshot"); size_t kl, il, ml, cl;
		uint8_t *key = kv_hex(&kv, "key", &kl), *iv = kv_hex(&kv, "iv", &il), *msg = kv_hex(&kv, "msg", &ml), *ctrb = kv_hex(&kv, "counter", &cl);
		long nbits = kv_int(&kv, "nbits", (long)ml * 8), nwords = kv_int(&kv, "nwords", 0), chunks[64]; int nch = kv_ints(&kv, "chunks", chunks, 64);
		if (!strcmp(api, "oneshot")) {
			uint8_t *out = vh_exact(ml + 4 * (size_t)nwords + 64 * (size_t)nwords + 32); size_t ol = 0; int rc = 1;
			if (!strcmp(f, "zuc_ks")) { ZUC_STATE s; uint32_t *w = calloc((size_t)nwords + 1, 4); zuc_init(&s, key, iv); zuc_generate_keystream(&s, (size_t)nwords, w); be(w, (size_t)nwords, out); ol = 4 * (size_t)nwords; free(w); }
			else if (!strcmp(f, "zuc256_ks")) { ZUC256_STATE s; uint32_t *w = calloc((size_t)nwords + 1, 4); zuc256_init(&s, key, iv); zuc256_generate_keystream(&s, (size_t)nwords, w); be(w, (size_t)nwords, out); ol = 4 * (size_t)nwords; free(w); }
			else if (!strcmp(f, "zuc_enc")) { ZUC_STATE s; zuc_init(&s, key, iv); zuc_encrypt(&s, msg, ml, out); ol = ml; }
			else if (!strcmp(f, "eea3")) { size_t nw = ((size_t)nbits + 31) / 32; uint32_t *in = calloc(nw + 1, 4), *o = calloc(nw + 1, 4);
				for (size_t i = 0; i < nw; i++) in[i] = ((uint32_t)msg[4 * i] << 24) | ((uint32_t)msg[4 * i + 1] << 16) | ((uint32_t)msg[4 * i + 2] << 8) | msg[4 * i + 3];   // msg is supplied padded to whole words
				zuc_eea_encrypt(in, o, (size_t)nbits, key, (uint32_t)kv_int(&kv, "count", 0), (ZUC_UINT5)kv_int(&kv, "bearer", 0), (ZUC_BIT)kv_int(&kv, "dir", 0)); be(o, nw, out); ol = 4 * nw; free(in); free(o); }
			else if (!strcmp(f, "eia3")) { size_t nby = (((size_t)nbits + 31) / 32) * 4; uint32_t *in = calloc(nby / 4 + 1, 4); memcpy(in, msg, nby);      // as the library's own test does: the message bytes in memory order, typed as words
				uint32_t m = zuc_eia_generate_mac(in, (size_t)nbits, key, (uint32_t)kv_int(&kv, "count", 0), (ZUC_UINT5)kv_int(&kv, "bearer", 0), (ZUC_BIT)kv_int(&kv, "dir", 0)); be(&m, 1, out); ol = 4; free(in); }
			else if (!strcmp(f, "chacha20_ks")) { CHACHA20_STATE s; uint32_t c0 = (uint32_t)ctrb[0] | ((uint32_t)ctrb[1] << 8) | ((uint32_t)ctrb[2] << 16) | ((uint32_t)ctrb[3] << 24);
				chacha20_init(&s, key, iv, c0); chacha20_generate_keystream(&s, (size_t)nwords, out); ol = 64 * (size_t)nwords; }
			else rc = -99;
			vt_begin("Call"); common(&kv, f, key, kl, iv, il); vt_str("api", api); vt_bytes("in", msg, ml); vt_int("rc", rc); vt_bytes("out", out, ol); vt_end();
		} else {
			// streaming: the message bytes in the given chunks; the MACs take the trailing (nbits % 8) bits with the last partial byte at finish
			vt_begin("Init"); common(&kv, f, key, kl, iv, il); vt_str("api", api); vt_int("rc", 1); vt_end();
			ZUC_CTX zc; ZUC_MAC_CTX mc; ZUC256_MAC_CTX m2; int macbits = (int)kv_int(&kv, "macbits", 32);
			if (!strcmp(f, "zuc_enc")) zuc_encrypt_init(&zc, key, iv); else if (!strcmp(f, "zuc_mac")) zuc_mac_init(&mc, key, iv); else zuc256_mac_init(&m2, key, iv, macbits);
			size_t whole = (size_t)nbits / 8, pos = 0; int ismac = strcmp(f, "zuc_enc") != 0; size_t tail = ismac ? 0 : 0;
			(void)tail;
			for (int i = 0; i <= nch; i++) {
				size_t n = i < nch ? (size_t)chunks[i] : (ismac ? 0 : whole - pos); if (pos + n > whole) n = whole - pos; if (i == nch && n == 0) break;
				uint8_t *in = vh_exact(n); memcpy(in, msg + pos, n); uint8_t *out = vh_exact(n + 8); size_t ol = 0; int rc = 1;
				if (!strcmp(f, "zuc_enc")) rc = zuc_encrypt_update(&zc, in, n, out, &ol); else if (!strcmp(f, "zuc_mac")) zuc_mac_update(&mc, in, n); else zuc256_mac_update(&m2, in, n);
				vt_begin("Update"); vt_bytes("in", in, n); vt_int("rc", rc); vt_bytes("out", out, ol); vt_end(); pos += n;
			}
			uint8_t out[64]; size_t ol = 0; int rc = 1;
			if (!strcmp(f, "zuc_enc")) rc = zuc_encrypt_finish(&zc, out, &ol);
			else { size_t restbits = (size_t)nbits - 8 * pos; uint8_t *rest = vh_exact((restbits + 7) / 8); memcpy(rest, msg + pos, (restbits + 7) / 8);
				if (!strcmp(f, "zuc_mac")) { zuc_mac_finish(&mc, rest, restbits, out); ol = 4; } else { zuc256_mac_finish(&m2, rest, restbits, out); ol = (size_t)macbits / 8; }
				vt_begin("Update"); vt_bytes("in", rest, (restbits + 7) / 8); vt_int("rc", 1); vt_bytes("out", out, 0); vt_end(); }
			vt_begin("Finish"); vt_int("rc", rc); vt_bytes("out", out, ol); vt_end();
		}
		vt_begin("Reset"); vt_end();
	}
	vt_close(); return 0;
}
