// C01 / C02 driver: SM2 signature and encryption interfaces.
// script lines (hex bytes):
//  op=z       pub=<64> id=<hex> [idlen=N]                      -> Z
//  op=verify  iface=dgst|ctx|do pub=<64> id= msg= dgst= sig=    (do: sig = r||s 64 bytes)
//  op=sign    iface=dgst|fixlen|do|ctx d=<32> id= msg= dgst= chunks= reps= seed=
//  op=encrypt iface=der|fixlen|do|ctx pub=<64> msg= psize= seed=  -> ciphertext + entropy draws
//  op=decrypt iface=der|do|ctx d=<32> ct= chunks=
//  op=ecdh    d=<32> peer=<65>
#include <stdio.h>
#include <stdlib.h>
#include <string.h>
#include <gmssl/sm2.h>
#include <gmssl/sm3.h>
#include "vh.h"

static int setpub(SM2_KEY *k, const uint8_t *p64) { SM2_Z256_POINT P; if (sm2_z256_point_from_bytes(&P, p64) != 1) return -1; return sm2_key_set_public_key(k, &P); }
static int setpriv(SM2_KEY *k, const uint8_t *d) { sm2_z256_t z; sm2_z256_from_bytes(z, d); return sm2_key_set_private_key(k, z); }
static void log_draws(long from)
{
	// the draws of this operation (at most the last 40), so that the specification can relate the nonce to the entropy consumed
	long n = ent_draws(); if (n - from > 40) from = n - 40;
	uint8_t buf[40 * 32]; size_t l = 0; long cnt = 0;
	for (long i = from + 1; i <= n; i++) { const ENT_DRAW *d = ent_get(i); if (d && d->len == 32 && !d->failed) { memcpy(buf + l, d->data, 32); l += 32; cnt++; } }
	vt_int("ndraws", n - from); vt_bytes("draws32", buf, l);
}

int main(int argc, char **argv)
{
	if (argc < 3) return 2;
	FILE *sf = fopen(argv[1], "r"); if (!sf) return 3;
	vt_open(argv[2]);
	char *line = malloc(1 << 20);
	while (fgets(line, 1 << 20, sf)) {
		KV kv; kv_parse(&kv, line); if (!kv.n) continue;
		const char *op = kv_str(&kv, "op", "verify"), *iface = kv_str(&kv, "iface", "dgst");
		size_t publen, idl, msgl, dgl, sigl, dl, ctl, peerl; uint8_t *pub = kv_hex(&kv, "pub", &publen), *id = kv_hex(&kv, "ident", &idl), *msg = kv_hex(&kv, "msg", &msgl),
			*dg = kv_hex(&kv, "dgst", &dgl), *sig = kv_hex(&kv, "sig", &sigl), *d = kv_hex(&kv, "d", &dl), *ct = kv_hex(&kv, "ct", &ctl), *peer = kv_hex(&kv, "peer", &peerl);
		long chunks[64]; int nch = kv_ints(&kv, "chunks", chunks, 64); long reps = kv_int(&kv, "reps", 1);
		SM2_KEY key; memset(&key, 0, sizeof key); int rc = -99;
		ent_seed((uint64_t)kv_int(&kv, "seed", 1));
		{ size_t fl; uint8_t *first = kv_hex(&kv, "first", &fl); for (size_t o = 0; first && o + 32 <= fl; o += 32) ent_push32(first + o); }      // nonce values chosen by the script for the first 32-byte draws
		if (!strcmp(op, "z")) {
			uint8_t z[32] = {0}; size_t idlen = (size_t)kv_int(&kv, "idlen", (long)idl);
			rc = setpub(&key, pub); if (rc == 1) rc = sm2_compute_z(z, &key.public_key, (char *)id, idlen);
			vt_begin("Sm2"); vt_int("id", kv_int(&kv, "id", 0)); vt_str("op", op); vt_int("rc", rc); vt_bytes("z", z, rc == 1 ? 32 : 0); vt_end();
		} else if (!strcmp(op, "verify")) {
			rc = setpub(&key, pub);
			if (rc == 1) {
				if (!strcmp(iface, "dgst")) rc = sm2_verify(&key, dg, sig, sigl);
				else if (!strcmp(iface, "do")) { SM2_SIGNATURE s; memcpy(s.r, sig, 32); memcpy(s.s, sig + 32, 32); rc = sm2_do_verify(&key, dg, &s); }
				else { SM2_VERIFY_CTX c; rc = sm2_verify_init(&c, &key, (char *)id, idl);
					// prejunk: the context first absorbs other bytes and is then reset -- the verdict must be the one for the message alone
					{ size_t jl; uint8_t *junk = kv_hex(&kv, "prejunk", &jl); if (rc == 1 && junk && jl) { sm2_verify_update(&c, junk, jl); rc = sm2_verify_reset(&c); } }
					size_t off = 0; for (int i = 0; i <= nch && rc == 1; i++) { size_t n = i < nch ? (size_t)chunks[i] : msgl - off; if (off + n > msgl) n = msgl - off; if (n || i < nch) rc = sm2_verify_update(&c, msg + off, n) == 1 || n == 0 ? 1 : -1; off += n; }
					if (rc == 1) rc = sm2_verify_finish(&c, sig, sigl); }
			} else rc = -50;
			vt_begin("Sm2"); vt_int("id", kv_int(&kv, "id", 0)); vt_str("op", op); vt_str("iface", iface); vt_int("rc", rc); vt_end();
		} else if (!strcmp(op, "sign")) {
			rc = setpriv(&key, d);
			SM2_SIGN_CTX c; int ctx_ready = 0;
			for (long r = 0; r < reps; r++) {
				uint8_t out[80] = {0}; size_t ol = 0; SM2_SIGNATURE s; memset(&s, 0, sizeof s); long d0 = ent_draws(); int rr = rc;
				if (rr == 1) {
					if (!strcmp(iface, "dgst")) rr = sm2_sign(&key, dg, out, &ol);
					else if (!strcmp(iface, "fixlen")) { ol = (size_t)kv_int(&kv, "siglen", 71); rr = sm2_sign_fixlen(&key, dg, ol, out); }
					else if (!strcmp(iface, "do")) { rr = sm2_do_sign(&key, dg, &s); memcpy(out, s.r, 32); memcpy(out + 32, s.s, 32); ol = 64; }
					else { if (!ctx_ready) { rr = sm2_sign_init(&c, &key, (char *)id, idl); ctx_ready = rr == 1; } else rr = sm2_sign_reset(&c);
						size_t off = 0; for (int i = 0; i <= nch && rr == 1; i++) { size_t n = i < nch ? (size_t)chunks[i] : msgl - off; if (off + n > msgl) n = msgl - off; if (n) rr = sm2_sign_update(&c, msg + off, n); off += n; }
						if (rr == 1) rr = sm2_sign_finish(&c, out, &ol); }
				}
				vt_begin("Sm2"); vt_int("id", kv_int(&kv, "id", 0)); vt_str("op", op); vt_str("iface", iface); vt_int("rep", r); vt_int("rc", rr); vt_bytes("sig", out, rr == 1 ? ol : 0); log_draws(d0); vt_end();
			}
		} else if (!strcmp(op, "encrypt")) {
			rc = setpub(&key, pub); uint8_t out[512] = {0}; size_t ol = 0; long d0 = ent_draws(); long psize = kv_int(&kv, "psize", 69); long slotused = -1;
			if (rc == 1) {
				if (!strcmp(iface, "der")) rc = sm2_encrypt(&key, msg, msgl, out, &ol);
				else if (!strcmp(iface, "fixlen")) rc = sm2_encrypt_fixlen(&key, msg, msgl, (int)psize, out, &ol);
				else if (!strcmp(iface, "do")) { SM2_CIPHERTEXT c; rc = sm2_do_encrypt(&key, msg, msgl, &c); if (rc == 1) { uint8_t *p = out; ol = 0; rc = sm2_ciphertext_to_der(&c, &p, &ol); } }
				else if (!strcmp(iface, "pre")) {      // the pre-computed nonce table: slot `slot` of sm2_encrypt_pre_compute, used through sm2_do_encrypt_ex
					SM2_ENC_PRE_COMP pre[SM2_ENC_PRE_COMP_NUM]; SM2_CIPHERTEXT c; long slot = kv_int(&kv, "slot", 0) % SM2_ENC_PRE_COMP_NUM; rc = sm2_encrypt_pre_compute(pre);
					// 0 from sm2_do_encrypt_ex = "this nonce gives an all-zero key stream, take another one": the caller's loop
					if (rc == 1) { do { rc = sm2_do_encrypt_ex(&key, &pre[slot], msg, msgl, &c); } while (rc == 0 && ++slot < SM2_ENC_PRE_COMP_NUM); slotused = slot; }
					if (rc == 1) { uint8_t *p = out; ol = 0; rc = sm2_ciphertext_to_der(&c, &p, &ol); } }
				else { SM2_ENC_CTX c; rc = sm2_encrypt_init(&c);
					{ size_t jl; uint8_t *junk = kv_hex(&kv, "prejunk", &jl); if (rc == 1 && junk && jl) { sm2_encrypt_update(&c, junk, jl); rc = sm2_encrypt_reset(&c); } }
					size_t off = 0; for (int i = 0; i <= nch && rc == 1; i++) { size_t n = i < nch ? (size_t)chunks[i] : msgl - off; if (off + n > msgl) n = msgl - off; if (n) rc = sm2_encrypt_update(&c, msg + off, n); off += n; }
					if (rc == 1) rc = sm2_encrypt_finish(&c, &key, out, &ol); }
			} else rc = -50;
			vt_begin("Sm2"); vt_int("id", kv_int(&kv, "id", 0)); vt_str("op", op); vt_str("iface", iface); vt_int("rc", rc); vt_int("slotused", slotused); vt_bytes("ct", out, rc == 1 ? ol : 0); log_draws(d0); vt_end();
		} else if (!strcmp(op, "decrypt")) {
			rc = setpriv(&key, d); uint8_t out[512] = {0}; size_t ol = 0;
			if (rc == 1) {
				if (!strcmp(iface, "der")) rc = sm2_decrypt(&key, ct, ctl, out, &ol);
				else if (!strcmp(iface, "do")) { SM2_CIPHERTEXT c; const uint8_t *p = ct; size_t l = ctl; rc = sm2_ciphertext_from_der(&c, &p, &l); if (rc == 1 && l) rc = -3; if (rc == 1) rc = sm2_do_decrypt(&key, &c, out, &ol); }
				else { SM2_DEC_CTX c; rc = sm2_decrypt_init(&c);
					{ size_t jl; uint8_t *junk = kv_hex(&kv, "prejunk", &jl); if (rc == 1 && junk && jl) { sm2_decrypt_update(&c, junk, jl); rc = sm2_decrypt_reset(&c); } }
					size_t off = 0; for (int i = 0; i <= nch && rc == 1; i++) { size_t n = i < nch ? (size_t)chunks[i] : ctl - off; if (off + n > ctl) n = ctl - off; if (n) rc = sm2_decrypt_update(&c, ct + off, n); off += n; }
					if (rc == 1) rc = sm2_decrypt_finish(&c, &key, out, &ol); }
			}
			vt_begin("Sm2"); vt_int("id", kv_int(&kv, "id", 0)); vt_str("op", op); vt_str("iface", iface); vt_int("rc", rc); vt_bytes("pt", out, rc == 1 ? ol : 0); vt_end();
		} else if (!strcmp(op, "ecdh")) {
			rc = setpriv(&key, d); uint8_t sh[64] = {0}; if (rc == 1) rc = sm2_ecdh(&key, peer, peerl, sh);
			vt_begin("Sm2"); vt_int("id", kv_int(&kv, "id", 0)); vt_str("op", op); vt_int("rc", rc); vt_bytes("shared", sh, rc == 1 ? 64 : 0); vt_end();
		}
		vt_begin("Reset"); vt_end();
	}
	vt_close(); return 0;
}
