// C18 driver: every randomised API operation under an interposed entropy source (seeded stream, failure injection).
// usage: entdrv <script> <trace-out>;  script line: op=<name> seed=<n> failat=<i> reps=<r>
// events: OpBegin{op,seed,failat}  Draw{i,n,ok,pos}  OpEnd{rc,outlen,out(<=96 bytes),eph(<=64 bytes)}
#include <stdio.h>
#include <stdlib.h>
#include <string.h>
#include <gmssl/sm2.h>
#include <gmssl/sm9.h>
#include <gmssl/x509.h>
#include <gmssl/cms.h>
#include <gmssl/tls.h>
#include <gmssl/rand.h>
#include <gmssl/sm3_xmss.h>
#include "vh.h"

static SM2_KEY k1, k2; static SM9_SIGN_MASTER_KEY sm; static SM9_SIGN_KEY sk; static SM9_ENC_MASTER_KEY em; static SM9_ENC_KEY ek;
static SM9_EXCH_MASTER_KEY xm; static uint8_t *cert1; static size_t cert1len;
static uint8_t msg[64];

static void fixed_key(SM2_KEY *k, uint8_t b) { uint8_t d[32]; memset(d, b, 32); d[0] = 0x11; sm2_z256_t z; sm2_z256_from_bytes(z, d); sm2_key_set_private_key(k, z); }

static uint8_t *mkcert(size_t *len)
{
	uint8_t serial[8] = {1,2,3,4,5,6,7,8}, name[256]; size_t namelen = 0; uint8_t *out = malloc(2048), *p = out; *len = 0;
	x509_name_set(name, &namelen, sizeof name, "CN", "Beijing", "Haidian", "PKU", "CS", "ent");
	time_t nb = vh_now - 86400, na = vh_now + 86400 * 300;
	if (x509_cert_sign_to_der(X509_version_v3, serial, sizeof serial, OID_sm2sign_with_sm3, name, namelen, nb, na, name, namelen, &k1, NULL, 0, NULL, 0, NULL, 0,
		&k1, SM2_DEFAULT_ID, SM2_DEFAULT_ID_LENGTH, &p, len) != 1) return NULL;
	return out;
}

// each op: returns rc, fills out/outlen (the emitted object) and eph/ephlen (the ephemeral public value it should contain)
static long persist_rep;
static int run_op(const char *op, uint8_t *out, size_t *outlen, uint8_t *eph, size_t *ephlen)
{
	*outlen = 0; *ephlen = 0; int rc = -99;
	if (!strcmp(op, "sm2_keygen")) { SM2_KEY k; memset(&k, 0, sizeof k); rc = sm2_key_generate(&k); if (rc == 1) { sm2_z256_point_to_bytes(&k.public_key, out); *outlen = 64; memcpy(eph, out, 64); *ephlen = 64; } }
	else if (!strcmp(op, "sm2_sign")) { rc = sm2_sign(&k1, msg, out, outlen); if (rc == 1) { memcpy(eph, out, *outlen < 40 ? *outlen : 40); *ephlen = *outlen < 40 ? *outlen : 40; } }
	else if (!strcmp(op, "sm2_sign_fixlen")) { rc = sm2_sign_fixlen(&k1, msg, 72, out); if (rc == 1) { *outlen = 72; memcpy(eph, out, 40); *ephlen = 40; } }
	else if (!strcmp(op, "sm2_do_sign")) { SM2_SIGNATURE s; rc = sm2_do_sign(&k1, msg, &s); if (rc == 1) { memcpy(out, s.r, 32); memcpy(out + 32, s.s, 32); *outlen = 64; memcpy(eph, s.r, 32); *ephlen = 32; } }
	else if (!strcmp(op, "sm2_sign_ctx")) { SM2_SIGN_CTX c; rc = sm2_sign_init(&c, &k1, SM2_DEFAULT_ID, SM2_DEFAULT_ID_LENGTH);
		if (rc == 1) rc = sm2_sign_update(&c, msg, 40); if (rc == 1) rc = sm2_sign_finish(&c, out, outlen); if (rc == 1) { memcpy(eph, out, 40); *ephlen = 40; } else *outlen = 0; }
	else if (!strcmp(op, "sm2_sign_ctx_persist")) {            // ONE signing context for the whole history: nonces are precomputed in batches inside the context
		static SM2_SIGN_CTX pc; static int pc_ok;      // a context whose initialisation failed is not used: the next signature initialises it again
		if (persist_rep == 0) pc_ok = 0;
		if (!pc_ok) { rc = sm2_sign_init(&pc, &k1, SM2_DEFAULT_ID, SM2_DEFAULT_ID_LENGTH); pc_ok = rc == 1; } else rc = sm2_sign_reset(&pc);
		if (rc == 1) rc = sm2_sign_update(&pc, msg, 40); if (rc == 1) rc = sm2_sign_finish(&pc, out, outlen); if (rc == 1) { memcpy(eph, out, 40); *ephlen = 40; } else *outlen = 0; }
	else if (!strcmp(op, "sm2_encrypt")) { rc = sm2_encrypt(&k1, msg, 33, out, outlen); if (rc == 1) { memcpy(eph, out, 48); *ephlen = 48; } else *outlen = 0; }
	else if (!strcmp(op, "sm2_encrypt_fixlen")) { rc = sm2_encrypt_fixlen(&k1, msg, 33, SM2_ciphertext_typical_point_size, out, outlen); if (rc == 1) { memcpy(eph, out, 48); *ephlen = 48; } else *outlen = 0; }
	else if (!strcmp(op, "sm2_do_encrypt")) { SM2_CIPHERTEXT c; rc = sm2_do_encrypt(&k1, msg, 33, &c); if (rc == 1) { memcpy(out, c.point.x, 32); memcpy(out + 32, c.point.y, 32); *outlen = 64; memcpy(eph, out, 64); *ephlen = 64; } }
	else if (!strcmp(op, "sm2_encrypt_ctx")) { SM2_ENC_CTX c; rc = sm2_encrypt_init(&c); if (rc == 1) rc = sm2_encrypt_update(&c, msg, 33); if (rc == 1) rc = sm2_encrypt_finish(&c, &k1, out, outlen);
		if (rc == 1) { memcpy(eph, out, 48); *ephlen = 48; } else *outlen = 0; }
	else if (!strcmp(op, "pkcs8_encrypt")) { uint8_t *p = out; rc = sm2_private_key_info_encrypt_to_der(&k1, "P@ssw0rd", &p, outlen); if (rc == 1) { memcpy(eph, out, 96); *ephlen = 96; } else *outlen = 0; }
	else if (!strcmp(op, "sm9_sign_master_keygen")) { SM9_SIGN_MASTER_KEY m; memset(&m, 0, sizeof m); rc = sm9_sign_master_key_generate(&m); if (rc == 1) { uint8_t b[129]; sm9_z256_twist_point_to_uncompressed_octets(&m.Ppubs, b); memcpy(out, b + 1, 96); *outlen = 96; memcpy(eph, out, 64); *ephlen = 64; } }
	else if (!strcmp(op, "sm9_enc_master_keygen")) { SM9_ENC_MASTER_KEY m; memset(&m, 0, sizeof m); rc = sm9_enc_master_key_generate(&m); if (rc == 1) { uint8_t b[65]; sm9_z256_point_to_uncompressed_octets(&m.Ppube, b); memcpy(out, b + 1, 64); *outlen = 64; memcpy(eph, out, 64); *ephlen = 64; } }
	else if (!strcmp(op, "sm9_sign")) { SM9_SIGN_CTX c; sm9_sign_init(&c); sm9_sign_update(&c, msg, 40); rc = sm9_sign_finish(&c, &sk, out, outlen); if (rc == 1) { memcpy(eph, out, 64); *ephlen = 64; } else *outlen = 0; }
	else if (!strcmp(op, "sm9_encrypt")) { rc = sm9_encrypt(&em, "Bob", 3, msg, 20, out, outlen); if (rc == 1) { memcpy(eph, out, 80); *ephlen = 80; } else *outlen = 0; }
	else if (!strcmp(op, "sm9_kem")) { uint8_t kb[32]; SM9_Z256_POINT C; rc = sm9_kem_encrypt(&em, "Bob", 3, 32, kb, &C); if (rc == 1) { uint8_t b[65]; sm9_z256_point_to_uncompressed_octets(&C, b); memcpy(out, b + 1, 64); *outlen = 64; memcpy(eph, out, 64); *ephlen = 64; } }
	else if (!strcmp(op, "sm9_exch_1A")) { SM9_Z256_POINT RA; sm9_z256_t rA; rc = sm9_exch_step_1A(&xm, "Bob", 3, &RA, rA); if (rc == 1) { uint8_t b[65]; sm9_z256_point_to_uncompressed_octets(&RA, b); memcpy(out, b + 1, 64); *outlen = 64; memcpy(eph, out, 64); *ephlen = 64; } }
	else if (!strcmp(op, "x509_cert_sign")) { size_t l; uint8_t *c = mkcert(&l); rc = c ? 1 : -1; if (c) { size_t n = l < 1024 ? l : 1024; memcpy(out, c + l - 80, 80); *outlen = 80; memcpy(eph, c + l - 72, 40); *ephlen = 40; free(c); } }
	else if (!strcmp(op, "cms_sign")) { CMS_CERTS_AND_KEY s = { cert1, cert1len, &k1 }; uint8_t *cms = malloc(8192); size_t l = 0;
		rc = cms_sign(cms, &l, &s, 1, OID_cms_data, msg, 40, NULL, 0); if (rc == 1) { memcpy(out, cms + l - 80, 80); *outlen = 80; memcpy(eph, cms + l - 72, 40); *ephlen = 40; } free(cms); }
	else if (!strcmp(op, "cms_envelop")) { uint8_t key[16] = {1}, iv[16] = {2}; uint8_t *cms = malloc(8192); size_t l = 0;
		rc = cms_envelop(cms, &l, cert1, cert1len, OID_sm4_cbc, key, 16, iv, 16, OID_cms_data, msg, 40, NULL, 0, NULL, 0); if (rc == 1) { memcpy(out, cms, 64); *outlen = 64; memset(eph, 0, 64); for (size_t i = 0; i < l; i++) eph[i % 64] ^= cms[i]; *ephlen = 64; } free(cms); }
	else if (!strcmp(op, "tls_record_iv")) { SM3_HMAC_CTX h; sm3_hmac_init(&h, msg, 32); SM4_KEY k; sm4_set_encrypt_key(&k, msg); uint8_t seq[8] = {0}, hdr[5] = {23, 3, 3, 0, 20}; uint8_t rec[256]; size_t l = 0;
		rc = tls_cbc_encrypt(&h, &k, seq, hdr, msg, 20, rec, &l); if (rc == 1) { memcpy(out, rec, 32); *outlen = 32; memcpy(eph, rec, 16); *ephlen = 16; } }
	else if (!strcmp(op, "sm3_xmss_keygen")) { SM3_XMSS_KEY xk; memset(&xk, 0, sizeof xk); rc = sm3_xmss_key_generate(&xk, XMSS_SM3_10);
		if (rc == 1) { memcpy(out, xk.seed, 32); memcpy(out + 32, xk.root, 32); *outlen = 64; memcpy(eph, xk.root, 32); *ephlen = 32; sm3_xmss_key_cleanup(&xk); } }
	else if (!strcmp(op, "rand_bytes")) { rc = rand_bytes(out, 32); if (rc == 1) { *outlen = 32; memcpy(eph, out, 32); *ephlen = 32; } }
	return rc;
}

int main(int argc, char **argv)
{
	if (argc < 3) return 2;
	FILE *sf = fopen(argv[1], "r"); if (!sf) return 3;
	vt_open(argv[2]);
	for (int i = 0; i < 64; i++) msg[i] = (uint8_t)(i * 7 + 1);
	fixed_key(&k1, 0x42); fixed_key(&k2, 0x77);
	ent_seed(999); ent_tag("setup");
	sm9_sign_master_key_generate(&sm); sm9_sign_master_key_extract_key(&sm, "Alice", 5, &sk);
	sm9_enc_master_key_generate(&em); sm9_enc_master_key_extract_key(&em, "Bob", 3, &ek);
	sm9_enc_master_key_generate((SM9_ENC_MASTER_KEY *)&xm);
	cert1 = mkcert(&cert1len); if (!cert1) { fprintf(stderr, "entdrv: cannot build certificate\n"); return 4; }
	char line[512];
	while (fgets(line, sizeof line, sf)) {
		KV kv; kv_parse(&kv, line); if (!kv.n) continue;
		const char *op = kv_str(&kv, "op", "rand_bytes"); long seed = kv_int(&kv, "seed", 1), failat = kv_int(&kv, "failat", 0), reps = kv_int(&kv, "reps", 1);
		long high = kv_int(&kv, "high", 0);
		ent_tag("op"); ent_seed((uint64_t)seed); ent_fail_at(failat); ent_high_for(high); ent_log(reps <= 4 && high <= 4);
		ent_fail_from(kv_int(&kv, "failfrom", 0), (int)kv_int(&kv, "errno", 0));
		{ size_t egl = 0; uint8_t *eg = kv_hex(&kv, "edge", &egl); if (egl == 32) ent_push32(eg); }      // edge=<64 hex>: the first 32-byte draw delivers exactly these bytes
		for (long r = 0; r < reps; r++) {
			uint8_t *out = calloc(1, 16384), eph[128]; size_t ol = 0, el = 0; long d0 = ent_draws();
			vt_begin("OpBegin"); vt_str("op", op); vt_int("seed", seed); vt_int("failat", failat); vt_int("rep", r); vt_end();
			int persist = strstr(op, "_persist") != NULL; persist_rep = r; long f0 = ent_failures();
			int rc = run_op(op, out, &ol, eph, &el);
			vt_begin("OpEnd"); vt_str("op", op); vt_int("rep", r); vt_int("rc", rc); vt_int("draws", ent_draws() - d0); vt_int("entfail", persist ? (ent_failures() > f0) : ent_failed()); vt_int("persist", persist); vt_int("outlen", (long)ol);
			vt_bytes("out", out, ol < 96 ? ol : 96); vt_bytes("eph", eph, el); vt_int("high", high);
			// the 32-byte draws of this operation that a scalar range can accept (not FF..FF), oldest first, at most 8: the secret scalar must be one of them
			{ uint8_t cand[8 * 32]; size_t cl = 0; for (long i = d0 + 1; i <= ent_draws() && cl < sizeof cand; i++) { const ENT_DRAW *d = ent_get(i); if (!d || d->len != 32 || d->failed) continue;
				int ff = 1; for (int j = 0; j < 32; j++) if (d->data[j] != 0xFF) ff = 0; if (!ff) { memcpy(cand + cl, d->data, 32); cl += 32; } } vt_bytes("cand", cand, cl); }
			vt_end();
			free(out);
		}
		ent_fail_at(0); ent_fail_from(0, 0);
		vt_begin("Reset"); vt_end();
	}
	vt_close(); return 0;
}
