// C16 driver: CMS sign / verify / encrypt / decrypt / envelop / deenvelop / sign_and_envelop / deenvelop_and_verify.
// script: op=<name> certs=<hex,hex..> keys=<hex32,..> rcerts=<hex,..> content=<hex> key=<hex16> iv=<hex16> cms=<hex> rkey=<hex32> rcert=<hex> prov=raw|der|pem
#define _GNU_SOURCE
#include <stdio.h>
#include <stdlib.h>
#include <string.h>
#include <gmssl/sm2.h>
#include <gmssl/cms.h>
#include <gmssl/x509.h>
#include <gmssl/oid.h>
#include <gmssl/pem.h>
#include <gmssl/asn1.h>
#include "vh.h"

static int split_hex(const char *s, uint8_t **out, size_t *lens, int max)
{
	int n = 0; char *buf = strdup(s), *sp = NULL;
	for (char *t = strtok_r(buf, ",", &sp); t && n < max; t = strtok_r(NULL, ",", &sp)) { if (!strcmp(t, "-")) continue; size_t l = strlen(t) / 2; out[n] = malloc(l + 1); vh_unhex(t, out[n], l); lens[n] = l; n++; }
	free(buf); return n;
}
// a private key object obtained in three ways: from the raw scalar (fresh public key computation), via ECPrivateKey DER, via encrypted PKCS#8 PEM
static int mkkey(SM2_KEY *k, const uint8_t *d32, const char *prov)
{
	sm2_z256_t z; sm2_z256_from_bytes(z, d32); SM2_KEY t;
	if (sm2_key_set_private_key(&t, z) != 1) return -1;
	if (!strcmp(prov, "raw")) { *k = t; return 1; }
	if (!strcmp(prov, "der")) { uint8_t b[512], *p = b; size_t l = 0; const uint8_t *cp = b; if (sm2_private_key_to_der(&t, &p, &l) != 1) return -1; return sm2_private_key_from_der(k, &cp, &l); }
	char *txt = NULL; size_t tl = 0; FILE *fp = open_memstream(&txt, &tl); if (sm2_private_key_info_encrypt_to_pem(&t, "pw", fp) != 1) { fclose(fp); return -1; } fclose(fp);
	FILE *rf = fmemopen(txt, tl, "r"); int rc = sm2_private_key_info_decrypt_from_pem(k, "pw", rf); fclose(rf); free(txt); return rc;
}

int main(int argc, char **argv)
{
	if (argc < 3) return 2;
	FILE *sf = fopen(argv[1], "r"); if (!sf) return 3;
	vt_open(argv[2]);
	char *line = malloc(1 << 22);
	while (fgets(line, 1 << 22, sf)) {
		KV kv; kv_parse(&kv, line); if (!kv.n) continue;
		const char *op = kv_str(&kv, "op", "sign"); int ctype = !strcmp(kv_str(&kv, "ctype", "data"), "data") ? OID_cms_data : cms_content_type_from_name(kv_str(&kv, "ctype", "data")); ent_seed((uint64_t)kv_int(&kv, "seed", 9));
		uint8_t *certs[8], *keys[8], *rcerts[8]; size_t cl[8], kl[8], rl[8];
		int nc = split_hex(kv_str(&kv, "certs", "-"), certs, cl, 8), nk = split_hex(kv_str(&kv, "keys", "-"), keys, kl, 8), nr = split_hex(kv_str(&kv, "rcerts", "-"), rcerts, rl, 8);
		size_t ctl, keyl, ivl, cmsl, rkl, rcl; uint8_t *content = kv_hex(&kv, "content", &ctl), *key = kv_hex(&kv, "key", &keyl), *iv = kv_hex(&kv, "iv", &ivl), *cmsin = kv_hex(&kv, "cms", &cmsl),
			*rkey = kv_hex(&kv, "rkey", &rkl), *rcert = kv_hex(&kv, "rcert", &rcl);
		SM2_KEY sk[8]; CMS_CERTS_AND_KEY signers[8]; for (int i = 0; i < nc && i < nk; i++) { mkkey(&sk[i], keys[i], "raw"); signers[i].certs = certs[i]; signers[i].certs_len = cl[i]; signers[i].sign_key = &sk[i]; }
		uint8_t rcat[16384]; size_t rcatl = 0; for (int i = 0; i < nr; i++) { memcpy(rcat + rcatl, rcerts[i], rl[i]); rcatl += rl[i]; }
		size_t cap = ctl * 2 + 16384; uint8_t *cms = malloc(cap); size_t cmslen = 0; int rc = -99;
		uint8_t *out = malloc(cmsl + ctl + 4096); size_t outl = 0; int ct = -1; const uint8_t *pc = NULL, *p1, *p2, *p3, *p4, *p5, *p6; size_t pcl = 0, l1 = 0, l2 = 0, l3 = 0, l4 = 0, l5 = 0, l6 = 0;
		vt_begin("Cms"); vt_int("id", kv_int(&kv, "id", 0)); vt_str("op", op);
		if (!strcmp(op, "sign")) { rc = cms_sign(cms, &cmslen, signers, (size_t)(nc < nk ? nc : nk), ctype, content, ctl, NULL, 0); vt_int("rc", rc); vt_hex("cms", cms, rc == 1 ? cmslen : 0); }
		else if (!strcmp(op, "verify")) { rc = cms_verify(cmsin, cmsl, NULL, 0, NULL, 0, &ct, &pc, &pcl, &p1, &l1, &p2, &l2, &p3, &l3); if (rc == 1 && ct == OID_cms_data) { const uint8_t *q; size_t ql; /* as the command-line tool does: the data content is returned as its OCTET STRING */ if (asn1_octet_string_from_der(&q, &ql, &pc, &pcl) != 1 || pcl) rc = -55; else { pc = q; pcl = ql; } }
			vt_int("rc", rc); vt_int("ctype", ct); vt_hex("content", pc, rc == 1 ? pcl : 0); vt_hex("certs", p1, rc == 1 ? l1 : 0); vt_int("sislen", rc == 1 ? (long)l3 : 0); }
		else if (!strcmp(op, "encrypt")) { rc = cms_encrypt(cms, &cmslen, OID_sm4_cbc, key, keyl, iv, ivl, ctype, content, ctl, NULL, 0, NULL, 0); vt_int("rc", rc); vt_hex("cms", cms, rc == 1 ? cmslen : 0); }
		else if (!strcmp(op, "decrypt")) { int alg; rc = cms_decrypt(cmsin, cmsl, &alg, key, keyl, &ct, out, &outl, &p1, &l1, &p2, &l2); vt_int("rc", rc); vt_hex("content", out, rc == 1 ? outl : 0); }
		else if (!strcmp(op, "envelop")) { rc = cms_envelop(cms, &cmslen, rcat, rcatl, OID_sm4_cbc, key, keyl, iv, ivl, ctype, content, ctl, NULL, 0, NULL, 0); vt_int("rc", rc); vt_hex("cms", cms, rc == 1 ? cmslen : 0); }
		else if (!strcmp(op, "deenvelop")) { SM2_KEY rk; int kr = mkkey(&rk, rkey, kv_str(&kv, "prov", "raw"));
			rc = kr == 1 ? cms_deenvelop(cmsin, cmsl, &rk, rcert, rcl, &ct, out, &outl, &p1, &l1, &p2, &l2, &p3, &l3) : -77; vt_int("rc", rc); vt_hex("content", out, rc == 1 ? outl : 0); }
		else if (!strcmp(op, "sign_and_envelop")) { rc = cms_sign_and_envelop(cms, &cmslen, signers, (size_t)(nc < nk ? nc : nk), rcat, rcatl, OID_sm4_cbc, key, keyl, iv, ivl, ctype, content, ctl, NULL, 0, NULL, 0, NULL, 0); vt_int("rc", rc); vt_hex("cms", cms, rc == 1 ? cmslen : 0); }
		else if (!strcmp(op, "deenvelop_and_verify")) { SM2_KEY rk; int kr = mkkey(&rk, rkey, kv_str(&kv, "prov", "raw"));
			rc = kr == 1 ? cms_deenvelop_and_verify(cmsin, cmsl, &rk, rcert, rcl, NULL, 0, NULL, 0, &ct, out, &outl, &p1, &l1, &p2, &l2, &p3, &l3, &p4, &l4, &p5, &l5, &p6, &l6) : -77; vt_int("rc", rc); vt_hex("content", out, rc == 1 ? outl : 0); vt_hex("certs", p3, rc == 1 ? l3 : 0); }
		vt_end(); vt_begin("Reset"); vt_end();
		free(cms); free(out);
	}
	vt_close(); return 0;
}
