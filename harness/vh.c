#define _GNU_SOURCE
#include "vh.h"
#include <pthread.h>
#include <errno.h>
#include <unistd.h>

static FILE *tf;
static pthread_mutex_t tmu = PTHREAD_MUTEX_INITIALIZER;
static long tseq;

void vt_open(const char *path) { tf = fopen(path, "w"); if (!tf) { perror(path); exit(3); } setvbuf(tf, NULL, _IOFBF, 1 << 20); }
void vt_close(void) { if (tf) { fclose(tf); tf = NULL; } }
void vt_begin(const char *ev) { pthread_mutex_lock(&tmu); if (tf) fprintf(tf, "{\"q\":%ld,\"e\":\"%s\"", ++tseq, ev); }
void vt_int(const char *k, long v) { if (tf) fprintf(tf, ",\"%s\":%ld", k, v); }
void vt_str(const char *k, const char *v) { if (tf) fprintf(tf, ",\"%s\":\"%s\"", k, v); }
void vt_bytes(const char *k, const uint8_t *p, size_t n)
{
	if (!tf) return;
	fprintf(tf, ",\"%s\":[", k);
	for (size_t i = 0; i < n; i++) fprintf(tf, i ? ",%u" : "%u", p[i]);
	fputc(']', tf);
}
void vt_hex(const char *k, const uint8_t *p, size_t n)
{
	if (!tf) return;
	fprintf(tf, ",\"%s\":\"", k);
	for (size_t i = 0; i < n; i++) fprintf(tf, "%02x", p[i]);
	fputc('"', tf);
}
void vt_raw(const char *k, const char *json) { if (tf) fprintf(tf, ",\"%s\":%s", k, json); }
void vt_end(void) { if (tf) { fputs("}\n", tf); fflush(tf); } pthread_mutex_unlock(&tmu); }

// ---------------- entropy ----------------
typedef struct {
	uint64_t s; long draws, bytes, fail_at, pos, nfail, high, fail_from; int fail_errno; int failed, log, nforced, iforced; uint8_t forced[8][32]; const char *tag;
	ENT_DRAW ring[256];
} ENT;
static __thread ENT ent = { .s = 0x9e3779b97f4a7c15ULL };

uint64_t vh_rand(uint64_t *st) { uint64_t z = (*st += 0x9e3779b97f4a7c15ULL); z = (z ^ (z >> 30)) * 0xbf58476d1ce4e5b9ULL; z = (z ^ (z >> 27)) * 0x94d049bb133111ebULL; return z ^ (z >> 31); }
void vh_fill(uint64_t *st, uint8_t *p, size_t n) { for (size_t i = 0; i < n; i++) p[i] = (uint8_t)(vh_rand(st) >> 24); }

void ent_seed(uint64_t seed) { ent.s = seed * 0x2545F4914F6CDD1DULL + 0x1234567; ent.pos = 0; ent.high = 0; ent.nforced = ent.iforced = 0; ent_reset_counters(); }
void ent_fail_at(long i) { ent.fail_at = i; }
void ent_reset_counters(void) { ent.draws = ent.bytes = 0; ent.failed = 0; }
long ent_draws(void) { return ent.draws; }
long ent_bytes(void) { return ent.bytes; }
int ent_failed(void) { return ent.failed; }
long ent_failures(void) { return ent.nfail; }
void ent_log(int on) { ent.log = on; }
void ent_tag(const char *t) { ent.tag = t; }
void ent_high_for(long k) { ent.high = k; }
void ent_fail_from(long i, int err) { ent.fail_from = i; ent.fail_errno = err; }
void ent_push32(const uint8_t v[32]) { if (ent.nforced < 8) memcpy(ent.forced[ent.nforced++], v, 32); }
const ENT_DRAW *ent_get(long i) { if (i < 1 || i > ent.draws || ent.draws - i >= 256) return NULL; return &ent.ring[i & 255]; }

int getentropy(void *buf, size_t len)
{
	if (len > 256) { errno = EIO; return -1; }
	ent.draws++;
	ENT_DRAW *d = &ent.ring[ent.draws & 255];
	d->idx = ent.draws; d->pos = ent.pos; d->len = len; d->failed = 0;
	if ((ent.fail_at && ent.draws == ent.fail_at) || (ent.fail_from && ent.draws >= ent.fail_from)) {
		ent.failed = 1; ent.nfail++; d->failed = 1;
		if (ent.log) { vt_begin("Draw"); vt_str("who", ent.tag ? ent.tag : "-"); vt_int("i", ent.draws); vt_int("n", (long)len); vt_int("ok", 0); vt_end(); }
		errno = (ent.fail_from && ent.fail_errno) ? ent.fail_errno : EIO; return -1;
	}
	vh_fill(&ent.s, (uint8_t *)buf, len);
	if (ent.high > 0 && len == 32) { memset(buf, 0xFF, len); ent.high--; }
	else if (len == 32 && ent.iforced < ent.nforced) memcpy(buf, ent.forced[ent.iforced++], 32);       // values the script chose for the next 32-byte draws     // a run of draws that no scalar range accepts (the stream position still advances)
	memcpy(d->data, buf, len);
	ent.pos += (long)len; ent.bytes += (long)len;
	if (ent.log) { vt_begin("Draw"); vt_str("who", ent.tag ? ent.tag : "-"); vt_int("i", ent.draws); vt_int("n", (long)len); vt_int("ok", 1); vt_int("pos", d->pos); vt_bytes("b", d->data, len); vt_end(); }
	return 0;
}

// ---------------- time ----------------
time_t vh_now = 1790000000; // 2026-09-21
time_t time(time_t *t) { if (t) *t = vh_now; return vh_now; }

// ---------------- misc ----------------
uint8_t *vh_exact(size_t n) { if (n == 0) { uint8_t *p = malloc(1); return p + 1; } return malloc(n); }
int vh_unhex(const char *s, uint8_t *out, size_t max)
{
	size_t n = strlen(s) / 2; if (n > max) return -1;
	for (size_t i = 0; i < n; i++) { unsigned v; if (sscanf(s + 2 * i, "%2x", &v) != 1) return -1; out[i] = (uint8_t)v; }
	return (int)n;
}

// ---------------- key=value lines ----------------
void kv_parse(KV *kv, char *line)
{
	kv->n = 0; char *sp = NULL;
	for (char *t = strtok_r(line, " \t\r\n", &sp); t && kv->n < 64; t = strtok_r(NULL, " \t\r\n", &sp)) {
		char *v = strchr(t, '='); if (!v) continue; *v++ = 0;
		kv->k[kv->n] = t; kv->v[kv->n] = v; kv->n++;
	}
}
const char *kv_str(const KV *kv, const char *k, const char *d) { for (int i = 0; i < kv->n; i++) if (!strcmp(kv->k[i], k)) return kv->v[i]; return d; }
long kv_int(const KV *kv, const char *k, long d) { const char *s = kv_str(kv, k, NULL); return s ? atol(s) : d; }
int kv_has(const KV *kv, const char *k) { return kv_str(kv, k, NULL) != NULL; }
uint8_t *kv_hex(const KV *kv, const char *k, size_t *len)
{
	const char *s = kv_str(kv, k, "-"); if (!strcmp(s, "-")) s = "";
	size_t n = strlen(s) / 2; uint8_t *b = vh_exact(n);
	for (size_t i = 0; i < n; i++) { unsigned v = 0; sscanf(s + 2 * i, "%2x", &v); b[i] = (uint8_t)v; }
	*len = n; return b;
}
int kv_ints(const KV *kv, const char *k, long *out, int max)
{
	const char *s = kv_str(kv, k, ""); int n = 0;
	while (*s && n < max) { out[n++] = strtol(s, (char **)&s, 10); if (*s == ',') s++; }
	return n;
}
