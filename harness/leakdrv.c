// C19 driver: operations that handle secrets, with file descriptors 1 and 2 captured per operation.
// usage: leakdrv <trace-out>   events: Op{name, explicit, secrets:[hex...], rc, fd1:<hex of captured bytes>, fd2:<hex>}
#define _GNU_SOURCE
#include <stdio.h>
#include <stdlib.h>
#include <string.h>
#include <unistd.h>
#include <fcntl.h>
#include <gmssl/sm2.h>
#include <gmssl/sm9.h>
#include <gmssl/hex.h>
#include <gmssl/pem.h>
#include <gmssl/x509.h>
#include <gmssl/x509_ext.h>
#include <gmssl/oid.h>
#include <time.h>
#include <gmssl/cms.h>
#include <gmssl/sm4.h>
#include <gmssl/tls.h>
#include "vh.h"

static int cap1, cap2, save1, save2; static char p1[64], p2[64];
static void cap_begin(void)
{
	fflush(stdout); fflush(stderr);
	strcpy(p1, "/tmp/leak1XXXXXX"); strcpy(p2, "/tmp/leak2XXXXXX"); cap1 = mkstemp(p1); cap2 = mkstemp(p2);
	save1 = dup(1); save2 = dup(2); dup2(cap1, 1); dup2(cap2, 2);
}
static size_t slurpfd(int fd, uint8_t *b, size_t max) { lseek(fd, 0, SEEK_SET); ssize_t n = read(fd, b, max); return n > 0 ? (size_t)n : 0; }
static char secrets[16][600]; static int nsec;
static void secret(const void *p, size_t n) { if (nsec < 16 && n <= 256) { for (size_t i = 0; i < n; i++) sprintf(secrets[nsec] + 2 * i, "%02x", ((const uint8_t *)p)[i]); nsec++; } }
static void cap_end(const char *name, int explicit_print, int rc)
{
	fflush(stdout); fflush(stderr); dup2(save1, 1); dup2(save2, 2); close(save1); close(save2);
	static uint8_t b1[1 << 16], b2[1 << 16]; size_t n1 = slurpfd(cap1, b1, sizeof b1), n2 = slurpfd(cap2, b2, sizeof b2);
	close(cap1); close(cap2); unlink(p1); unlink(p2);
	vt_begin("Op"); vt_str("name", name); vt_int("explicit", explicit_print); vt_int("rc", rc);
	for (int i = 0; i < nsec; i++) { char k[8]; sprintf(k, "s%d", i); vt_str(k, secrets[i]); }
	vt_int("nsec", nsec); vt_hex("fd1", b1, n1); vt_hex("fd2", b2, n2); vt_end();
	nsec = 0;
}

int main(int argc, char **argv)
{
	if (argc < 2) return 2;
	vt_open(argv[1]); ent_seed(4242);
	uint8_t buf[8192], out[8192]; size_t len, outlen; int rc;
	SM2_KEY key, key2; uint8_t d[32];
	// key generation
	cap_begin(); rc = sm2_key_generate(&key); sm2_z256_to_bytes(key.private_key, d); secret(d, 32); cap_end("sm2_key_generate", 0, rc);
	sm2_key_generate(&key2);
	// explicit print of the key to stdout: the one allowed way for a private key to reach fd 1
	cap_begin(); rc = sm2_key_print(stdout, 0, 0, "key", &key); secret(d, 32); cap_end("sm2_key_print", 1, rc);
	// password-encrypted PEM export to a designated file, then import with the right and with a wrong password
	const char *pass = "Secr3tPassw0rd!";
	FILE *fp = fopen("/tmp/leak_key.pem", "w");
	cap_begin(); rc = sm2_private_key_info_encrypt_to_pem(&key, pass, fp); secret(d, 32); secret(pass, strlen(pass)); cap_end("pkcs8_encrypt_to_pem", 0, rc); fclose(fp);
	fp = fopen("/tmp/leak_key.pem", "r"); SM2_KEY k3;
	cap_begin(); rc = sm2_private_key_info_decrypt_from_pem(&k3, pass, fp); secret(d, 32); secret(pass, strlen(pass)); cap_end("pkcs8_decrypt_from_pem", 0, rc); fclose(fp);
	fp = fopen("/tmp/leak_key.pem", "r");
	cap_begin(); rc = sm2_private_key_info_decrypt_from_pem(&k3, "Wr0ngPassw0rd!!", fp); secret(d, 32); secret("Wr0ngPassw0rd!!", 15); secret(pass, strlen(pass)); cap_end("pkcs8_decrypt_wrong_password", 0, rc); fclose(fp);
	unlink("/tmp/leak_key.pem");
	// unencrypted private key export to a designated buffer / file
	uint8_t *p = buf; len = 0;
	cap_begin(); rc = sm2_private_key_to_der(&key, &p, &len); secret(d, 32); cap_end("sm2_private_key_to_der", 0, rc);
	const uint8_t *cp = buf; size_t l2 = len;
	cap_begin(); rc = sm2_private_key_from_der(&k3, &cp, &l2); secret(d, 32); cap_end("sm2_private_key_from_der", 0, rc);
	buf[len / 2] ^= 0x55; cp = buf; l2 = len;
	cap_begin(); rc = sm2_private_key_from_der(&k3, &cp, &l2); secret(d, 32); cap_end("sm2_private_key_from_der_corrupt", 0, rc);
	// an explicit print of session secrets to a stream the caller designates that is NOT fd 1 / fd 2: they go there and nowhere else
	{ uint8_t pms[48], cr[32], sr[32], ms[48], kb[96]; for (int i = 0; i < 48; i++) { pms[i] = (uint8_t)(0x30 + i); ms[i] = (uint8_t)(0x90 + i); } for (int i = 0; i < 32; i++) { cr[i] = (uint8_t)i; sr[i] = (uint8_t)(0xE0 + i); }
	  for (int i = 0; i < 96; i++) kb[i] = (uint8_t)(i * 7 + 5);
	  FILE *sf = fopen("/tmp/leak_secrets.txt", "w");
	  cap_begin(); rc = tls_secrets_print(sf, pms, 48, cr, sr, ms, kb, 96, 0, 0); secret(pms, 48); secret(ms, 48); secret(kb, 32); secret(kb + 64, 16); cap_end("tls_secrets_print_to_designated_file", 0, rc);
	  fclose(sf); unlink("/tmp/leak_secrets.txt"); }
	// sign / decrypt / ecdh
	uint8_t dgst[32] = {7}; size_t siglen;
	cap_begin(); rc = sm2_sign(&key, dgst, out, &siglen); secret(d, 32); cap_end("sm2_sign", 0, rc);
	uint8_t pt[48]; for (int i = 0; i < 48; i++) pt[i] = (uint8_t)(0xA0 + i);
	sm2_encrypt(&key, pt, 48, buf, &len);
	cap_begin(); rc = sm2_decrypt(&key, buf, len, out, &outlen); secret(d, 32); secret(pt, 48); cap_end("sm2_decrypt", 0, rc);
	buf[len - 3] ^= 1;
	cap_begin(); rc = sm2_decrypt(&key, buf, len, out, &outlen); secret(d, 32); secret(pt, 48); cap_end("sm2_decrypt_tampered", 0, rc);
	uint8_t peer[65]; sm2_z256_point_to_uncompressed_octets(&key2.public_key, peer); uint8_t shared[64];
	cap_begin(); rc = sm2_ecdh(&key, peer, 65, shared); secret(d, 32); secret(shared, 32); cap_end("sm2_ecdh", 0, rc);
	// hex decoding of key material with a typo (odd length): must not be echoed
	char hexkey[80]; for (int i = 0; i < 32; i++) sprintf(hexkey + 2 * i, "%02x", d[i]); hexkey[63] = 0;
	cap_begin(); rc = hex_to_bytes(hexkey, 63, out, &outlen); { char t[64]; memcpy(t, hexkey, 62); secret(d, 31); } cap_end("hex_to_bytes_odd_length_key", 0, rc);
	// SM9
	SM9_SIGN_MASTER_KEY sm; SM9_SIGN_KEY sk; SM9_ENC_MASTER_KEY em; SM9_ENC_KEY ek; uint8_t ks[32];
	cap_begin(); rc = sm9_sign_master_key_generate(&sm); sm9_z256_to_bytes(sm.ks, ks); secret(ks, 32); cap_end("sm9_sign_master_key_generate", 0, rc);
	cap_begin(); rc = sm9_sign_master_key_extract_key(&sm, "Alice", 5, &sk); secret(ks, 32); cap_end("sm9_sign_master_key_extract_key", 0, rc);
	SM9_SIGN_CTX sc; 
	cap_begin(); sm9_sign_init(&sc); sm9_sign_update(&sc, pt, 48); rc = sm9_sign_finish(&sc, &sk, out, &outlen); secret(ks, 32); cap_end("sm9_sign", 0, rc);
	sm9_enc_master_key_generate(&em); sm9_enc_master_key_extract_key(&em, "Bob", 3, &ek); uint8_t ke[32]; sm9_z256_to_bytes(em.ke, ke);
	sm9_encrypt(&em, "Bob", 3, pt, 48, buf, &len);
	cap_begin(); rc = sm9_decrypt(&ek, "Bob", 3, buf, len, out, &outlen); secret(ke, 32); secret(pt, 48); cap_end("sm9_decrypt", 0, rc);
	cap_begin(); rc = sm9_decrypt(&ek, "Eve", 3, buf, len, out, &outlen); secret(ke, 32); secret(pt, 48); cap_end("sm9_decrypt_wrong_id", 0, rc);
	// symmetric: CBC decrypt with bad padding, GCM decrypt with bad tag (plaintext / key must not be reported)
	uint8_t k16[16], iv[16]; memcpy(k16, d, 16); memcpy(iv, d + 16, 16); SM4_KEY ek4, dk4; sm4_set_encrypt_key(&ek4, k16); sm4_set_decrypt_key(&dk4, k16);
	sm4_cbc_padding_encrypt(&ek4, iv, pt, 40, buf, &len); buf[len - 1] ^= 1;
	cap_begin(); rc = sm4_cbc_padding_decrypt(&dk4, iv, buf, len, out, &outlen); secret(k16, 16); secret(pt, 32); cap_end("sm4_cbc_padding_decrypt_bad", 0, rc);
	uint8_t tag[16]; sm4_gcm_encrypt(&ek4, iv, 12, NULL, 0, pt, 40, buf, 16, tag); tag[0] ^= 1;
	cap_begin(); rc = sm4_gcm_decrypt(&ek4, iv, 12, NULL, 0, buf, 40, tag, 16, out); secret(k16, 16); secret(pt, 32); cap_end("sm4_gcm_decrypt_bad_tag", 0, rc);
	// TLS record unprotect with a wrong MAC
	SM3_HMAC_CTX h; sm3_hmac_init(&h, d, 32); uint8_t seq[8] = {0}, hdr[5] = {23, 3, 3, 0, 40};
	tls_cbc_encrypt(&h, &ek4, seq, hdr, pt, 40, buf, &len); buf[len - 1] ^= 1; hdr[3] = (uint8_t)(len >> 8); hdr[4] = (uint8_t)len;
	cap_begin(); rc = tls_cbc_decrypt(&h, &dk4, seq, hdr, buf, len, out, &outlen); secret(k16, 16); secret(d, 32); secret(pt, 32); cap_end("tls_cbc_decrypt_tampered", 0, rc);
	// every value of the padding-length byte of a CBC-protected record (TLCP / TLS 1.2 record layer) and of plain CBC: the byte is steered through the
	// last byte of the preceding ciphertext block; the failure paths may not report the decrypted record
	uint8_t pt2[208]; for (int i = 0; i < 208; i++) pt2[i] = (uint8_t)(i * 37 + 11);
	for (int v = 1; v < 256; v++) {
		uint8_t hdr2[5] = {23, 3, 3, 0, 200}; char nm[64];
		tls_cbc_encrypt(&h, &ek4, seq, hdr2, pt2, 200, buf, &len); buf[len - 17] ^= (uint8_t)v; hdr2[3] = (uint8_t)(len >> 8); hdr2[4] = (uint8_t)len;
		snprintf(nm, sizeof nm, "tls_cbc_decrypt_padlen_xor_%d", v);
		cap_begin(); rc = tls_cbc_decrypt(&h, &dk4, seq, hdr2, buf, len, out, &outlen); secret(k16, 16); secret(d, 32); secret(pt2, 200); cap_end(nm, 0, rc);
		if (v % 16 == 1) {
			sm4_cbc_padding_encrypt(&ek4, iv, pt2, 200, buf, &len); buf[len - 17] ^= (uint8_t)v; snprintf(nm, sizeof nm, "sm4_cbc_padding_decrypt_padlen_xor_%d", v);
			cap_begin(); rc = sm4_cbc_padding_decrypt(&dk4, iv, buf, len, out, &outlen); secret(k16, 16); secret(pt2, 200); cap_end(nm, 0, rc);
		}
	}
	{ uint8_t hdr2[5] = {23, 3, 3, 0, 200}; tls_cbc_encrypt(&h, &ek4, seq, hdr2, pt2, 200, buf, &len); buf[20] ^= 4; hdr2[3] = (uint8_t)(len >> 8); hdr2[4] = (uint8_t)len;
	  cap_begin(); rc = tls_cbc_decrypt(&h, &dk4, seq, hdr2, buf, len, out, &outlen); secret(k16, 16); secret(d, 32); secret(pt2, 200); cap_end("tls_cbc_decrypt_bad_mac", 0, rc); }
	// ---- failure paths of the private-key readers: a container that holds this private scalar with ANOTHER key's public point (right and wrong
	// branch of the consistency check), and every single-byte change of the plain containers; nothing of the scalar may be printed on any of them ----
	{
		SM2_KEY km = key; km.public_key = key2.public_key; SM2_KEY kr; uint8_t c1[512], c2[1024], c3[2048]; size_t n1 = 0, n2 = 0, n3 = 0; uint8_t *q; const uint8_t *cq; size_t ql; const uint8_t *at; size_t al;
		q = c1; sm2_private_key_to_der(&km, &q, &n1); q = c2; sm2_private_key_info_to_der(&km, &q, &n2); q = c3; sm2_private_key_info_encrypt_to_der(&km, pass, &q, &n3);
		cq = c1; ql = n1; cap_begin(); rc = sm2_private_key_from_der(&kr, &cq, &ql); secret(d, 32); cap_end("ecprivatekey_public_mismatch", 0, rc);
		cq = c2; ql = n2; cap_begin(); rc = sm2_private_key_info_from_der(&kr, &at, &al, &cq, &ql); secret(d, 32); cap_end("privatekeyinfo_public_mismatch", 0, rc);
		cq = c3; ql = n3; cap_begin(); rc = sm2_private_key_info_decrypt_from_der(&kr, &at, &al, pass, &cq, &ql); secret(d, 32); secret(pass, strlen(pass)); cap_end("pkcs8_public_mismatch", 0, rc);
		n1 = n2 = 0; q = c1; sm2_private_key_to_der(&key, &q, &n1); q = c2; sm2_private_key_info_to_der(&key, &q, &n2);
		char nm[64]; uint8_t *o1 = memmem(c1, n1, d, 32), *o2 = memmem(c2, n2, d, 32);     // where the scalar sits: a change inside it makes the changed scalar the secret
		for (size_t i = 0; i < n1; i++) for (int b = 0; b < 8; b += 7) { c1[i] ^= (uint8_t)(1 << b); cq = c1; ql = n1; snprintf(nm, sizeof nm, "ecprivatekey_flip:%zu.%d", i, b);
			cap_begin(); rc = sm2_private_key_from_der(&kr, &cq, &ql); secret(d, 32); if (o1) secret(o1, 32); cap_end(nm, 0, rc); c1[i] ^= (uint8_t)(1 << b); }
		for (size_t i = 0; i < n2; i++) for (int b = 0; b < 8; b += 7) { c2[i] ^= (uint8_t)(1 << b); cq = c2; ql = n2; snprintf(nm, sizeof nm, "privatekeyinfo_flip:%zu.%d", i, b);
			cap_begin(); rc = sm2_private_key_info_from_der(&kr, &at, &al, &cq, &ql); secret(d, 32); if (o2) secret(o2, 32); cap_end(nm, 0, rc); c2[i] ^= (uint8_t)(1 << b); }
	}
	// ---- SM9 master and user private keys: every single-byte change of their DER, the master secret written as 32 raw octets without the 00 pad a DER INTEGER
	// with the top bit set needs (a 'negative' INTEGER the generic decoder refuses), and the encrypted PKCS#8 forms with the right and a wrong password ----
	{
		SM9_SIGN_MASTER_KEY sm; SM9_ENC_MASTER_KEY em; SM9_SIGN_KEY sk; SM9_ENC_KEY ek; memset(&sm, 0, sizeof sm); memset(&em, 0, sizeof em);
		uint8_t ks9[32], ke9[32]; for (int i = 0; i < 32; i++) { ks9[i] = (uint8_t)(0x91 + i * 5); ke9[i] = (uint8_t)(0xa3 + i * 3); } ks9[0] = 0x9b; ke9[0] = 0x8d;      // top bit set, below N
		sm9_z256_from_bytes(sm.ks, ks9); sm9_z256_twist_point_mul_generator(&sm.Ppubs, sm.ks); sm9_z256_from_bytes(em.ke, ke9); sm9_z256_point_mul_generator(&em.Ppube, em.ke);
		sm9_sign_master_key_extract_key(&sm, "Alice", 5, &sk); sm9_enc_master_key_extract_key(&em, "Bob", 3, &ek);
		uint8_t dsb[65], deb[129]; sm9_z256_point_to_uncompressed_octets(&sk.ds, dsb); sm9_z256_twist_point_to_uncompressed_octets(&ek.de, deb);
		uint8_t b1[1024], b2[1024]; size_t n1 = 0, n2 = 0; uint8_t *q; const uint8_t *cq; size_t ql; char nm[64]; SM9_SIGN_MASTER_KEY t1; SM9_ENC_MASTER_KEY t2; SM9_SIGN_KEY t3; SM9_ENC_KEY t4;
		q = b1; sm9_sign_master_key_to_der(&sm, &q, &n1); q = b2; sm9_enc_master_key_to_der(&em, &q, &n2);
		uint8_t *o1 = memmem(b1, n1, ks9, 32), *o2 = memmem(b2, n2, ke9, 32);
		for (size_t i = 0; i < n1; i++) { b1[i] ^= 0x01; cq = b1; ql = n1; snprintf(nm, sizeof nm, "sm9_sign_master_flip:%zu", i); cap_begin(); rc = sm9_sign_master_key_from_der(&t1, &cq, &ql); secret(ks9, 32); if (o1) secret(o1, 32); cap_end(nm, 0, rc); b1[i] ^= 0x01; }
		for (size_t i = 0; i < n2; i++) { b2[i] ^= 0x80; cq = b2; ql = n2; snprintf(nm, sizeof nm, "sm9_enc_master_flip:%zu", i); cap_begin(); rc = sm9_enc_master_key_from_der(&t2, &cq, &ql); secret(ke9, 32); if (o2) secret(o2, 32); cap_end(nm, 0, rc); b2[i] ^= 0x80; }
		// the secret as INTEGER of 32 octets without the 00 pad: drop the pad octet and shorten the two enclosing lengths
		if (o1 && o1 > b1 + 3 && o1[-1] == 0x00 && o1[-2] == 33) { uint8_t c[1024]; size_t off = (size_t)(o1 - b1); memcpy(c, b1, off - 1); memcpy(c + off - 1, o1, n1 - off); c[off - 2] = 32; if (c[1] == 0x81) c[2]--; else c[1]--;
			cq = c; ql = n1 - 1; cap_begin(); rc = sm9_sign_master_key_from_der(&t1, &cq, &ql); secret(ks9, 32); cap_end("sm9_sign_master_unpadded_integer", 0, rc); }
		if (o2 && o2 > b2 + 3 && o2[-1] == 0x00 && o2[-2] == 33) { uint8_t c[1024]; size_t off = (size_t)(o2 - b2); memcpy(c, b2, off - 1); memcpy(c + off - 1, o2, n2 - off); c[off - 2] = 32; if (c[1] == 0x81) c[2]--; else c[1]--;
			cq = c; ql = n2 - 1; cap_begin(); rc = sm9_enc_master_key_from_der(&t2, &cq, &ql); secret(ke9, 32); cap_end("sm9_enc_master_unpadded_integer", 0, rc); }
		// user keys
		n1 = n2 = 0; q = b1; sm9_sign_key_to_der(&sk, &q, &n1); q = b2; sm9_enc_key_to_der(&ek, &q, &n2);
		for (size_t i = 0; i < n1; i += 1) { b1[i] ^= 0x04; cq = b1; ql = n1; snprintf(nm, sizeof nm, "sm9_sign_key_flip:%zu", i); cap_begin(); rc = sm9_sign_key_from_der(&t3, &cq, &ql); secret(dsb + 1, 32); secret(dsb + 33, 32); cap_end(nm, 0, rc); b1[i] ^= 0x04; }
		for (size_t i = 0; i < n2; i += 1) { b2[i] ^= 0x04; cq = b2; ql = n2; snprintf(nm, sizeof nm, "sm9_enc_key_flip:%zu", i); cap_begin(); rc = sm9_enc_key_from_der(&t4, &cq, &ql); secret(deb + 1, 32); secret(deb + 65, 32); cap_end(nm, 0, rc); b2[i] ^= 0x04; }
		// encrypted forms
		n1 = 0; q = b1; rc = sm9_sign_master_key_info_encrypt_to_der(&sm, pass, &q, &n1);
		cq = b1; ql = n1; cap_begin(); rc = sm9_sign_master_key_info_decrypt_from_der(&t1, pass, &cq, &ql); secret(ks9, 32); secret(pass, strlen(pass)); cap_end("sm9_sign_master_pkcs8_decrypt", 0, rc);
		cq = b1; ql = n1; cap_begin(); rc = sm9_sign_master_key_info_decrypt_from_der(&t1, "Wr0ngPassw0rd!!", &cq, &ql); secret(ks9, 32); secret(pass, strlen(pass)); secret("Wr0ngPassw0rd!!", 15); cap_end("sm9_sign_master_pkcs8_wrong_password", 0, rc);
	}
	// ---- plain (unencrypted) private-key PEM files, in the forms a reader meets: as the library writes them, and a PrivateKeyInfo that carries the optional
	// attributes field (accepted with a warning): the scalar stays off fd 1/2 on all of them ----
	{
		uint8_t pki[512], pk2[600]; size_t pl = 0, l3; uint8_t *q = pki; SM2_KEY kr; FILE *f; const uint8_t *cq; const uint8_t *at; size_t al;
		sm2_private_key_info_to_der(&key, &q, &pl);
		// append [0] IMPLICIT SET OF Attribute { commonName = "hi" } and re-encode the outer SEQUENCE (content < 256 bytes: 30 81 xx)
		static const uint8_t attrs[] = { 0xa0, 0x0d, 0x30, 0x0b, 0x06, 0x03, 0x55, 0x04, 0x03, 0x31, 0x04, 0x0c, 0x02, 'h', 'i' };
		{ size_t hdr = (pki[1] & 0x80) ? 2 + (size_t)(pki[1] & 0x7f) : 2, clen = pl - hdr + sizeof attrs; pk2[0] = 0x30; pk2[1] = 0x81; pk2[2] = (uint8_t)clen; memcpy(pk2 + 3, pki + hdr, pl - hdr); memcpy(pk2 + 3 + pl - hdr, attrs, sizeof attrs); l3 = 3 + clen; }
		f = fopen("/tmp/leak_plain.pem", "w"); sm2_private_key_info_to_pem(&key, f); fclose(f);
		f = fopen("/tmp/leak_plain.pem", "r"); cap_begin(); rc = sm2_private_key_info_from_pem(&kr, f); secret(d, 32); cap_end("privatekeyinfo_from_pem", 0, rc); fclose(f);
		f = fopen("/tmp/leak_attrs.pem", "w"); pem_write(f, "PRIVATE KEY", pk2, l3); fclose(f);
		f = fopen("/tmp/leak_attrs.pem", "r"); cap_begin(); rc = sm2_private_key_info_from_pem(&kr, f); secret(d, 32); cap_end("privatekeyinfo_from_pem_with_attributes", 0, rc); fclose(f);
		cq = pk2; size_t ql = l3; cap_begin(); rc = sm2_private_key_info_from_der(&kr, &at, &al, &cq, &ql); secret(d, 32); cap_end("privatekeyinfo_from_der_with_attributes", 0, rc);
		f = fopen("/tmp/leak_ec.pem", "w"); sm2_private_key_to_pem(&key, f); fclose(f);
		f = fopen("/tmp/leak_ec.pem", "r"); cap_begin(); rc = sm2_private_key_from_pem(&kr, f); secret(d, 32); cap_end("ecprivatekey_from_pem", 0, rc); fclose(f);
		// the wrong reader for the file (label mismatch) and a truncated file
		f = fopen("/tmp/leak_ec.pem", "r"); cap_begin(); rc = sm2_private_key_info_from_pem(&kr, f); secret(d, 32); cap_end("privatekeyinfo_from_pem_wrong_label", 0, rc); fclose(f);
		{ FILE *in = fopen("/tmp/leak_plain.pem", "r"); char b2[2048]; size_t n = fread(b2, 1, sizeof b2, in); fclose(in); f = fopen("/tmp/leak_trunc.pem", "w"); fwrite(b2, 1, n * 2 / 3, f); fclose(f); }
		f = fopen("/tmp/leak_trunc.pem", "r"); cap_begin(); rc = sm2_private_key_info_from_pem(&kr, f); secret(d, 32); cap_end("privatekeyinfo_from_pem_truncated", 0, rc); fclose(f);
		unlink("/tmp/leak_plain.pem"); unlink("/tmp/leak_attrs.pem"); unlink("/tmp/leak_ec.pem"); unlink("/tmp/leak_trunc.pem");
	}
	// ---- loading credentials into a TLS context from files: certificates, password-protected keys; right and wrong passwords, a damaged key file, a key that does not
	// match its certificate -- passwords and scalars stay off fd 1/2 on every branch ----
	{
		const char *pa = "S1gnKeyPassw0rd#A", *pb = "Kenc-Key-Passphrase-B", *wrong = "n0t-the-passw0rd";
		SM2_KEY ks, ke; sm2_key_generate(&ks); sm2_key_generate(&ke); uint8_t ds[32], de[32]; sm2_z256_to_bytes(ks.private_key, ds); sm2_z256_to_bytes(ke.private_key, de);
		uint8_t name[256]; size_t nl = 0; x509_name_set(name, &nl, sizeof name, "CN", "BJ", "HD", "Org", "Unit", "leak test");
		uint8_t serial[8] = {1, 2, 3, 4, 5, 6, 7, 8}, ex1[128], ex2[128], c1[1024], c2[1024]; size_t e1 = 0, e2 = 0, l1 = 0, l2 = 0; uint8_t *q;
		x509_exts_add_key_usage(ex1, &e1, sizeof ex1, 1, X509_KU_DIGITAL_SIGNATURE); x509_exts_add_key_usage(ex2, &e2, sizeof ex2, 1, X509_KU_KEY_ENCIPHERMENT);
		time_t nb = time(NULL) - 86400, na = nb + 86400 * 300;
		q = c1; x509_cert_sign_to_der(X509_version_v3, serial, 8, OID_sm2sign_with_sm3, name, nl, nb, na, name, nl, &ks, NULL, 0, NULL, 0, ex1, e1, &ks, SM2_DEFAULT_ID, SM2_DEFAULT_ID_LENGTH, &q, &l1);
		serial[7] = 9; q = c2; x509_cert_sign_to_der(X509_version_v3, serial, 8, OID_sm2sign_with_sm3, name, nl, nb, na, name, nl, &ke, NULL, 0, NULL, 0, ex2, e2, &ks, SM2_DEFAULT_ID, SM2_DEFAULT_ID_LENGTH, &q, &l2);
		FILE *f;
		f = fopen("/tmp/leak_chain1.pem", "w"); x509_cert_to_pem(c1, l1, f); fclose(f);
		f = fopen("/tmp/leak_chain2.pem", "w"); x509_cert_to_pem(c1, l1, f); x509_cert_to_pem(c2, l2, f); fclose(f);
		f = fopen("/tmp/leak_sign.pem", "w"); sm2_private_key_info_encrypt_to_pem(&ks, pa, f); fclose(f);
		f = fopen("/tmp/leak_kenc.pem", "w"); sm2_private_key_info_encrypt_to_pem(&ke, pb, f); fclose(f);
		// a damaged copy of the kenc key file (one base64 character in the middle changed) and a key file holding another key
		{ FILE *in = fopen("/tmp/leak_kenc.pem", "r"); char buf2[4096]; size_t n = fread(buf2, 1, sizeof buf2, in); fclose(in); buf2[n / 2] = buf2[n / 2] == 'A' ? 'B' : 'A'; f = fopen("/tmp/leak_kenc_bad.pem", "w"); fwrite(buf2, 1, n, f); fclose(f); }
		f = fopen("/tmp/leak_other.pem", "w"); sm2_private_key_info_encrypt_to_pem(&key2, pb, f); fclose(f);
		struct { const char *name; int tlcp; const char *chain, *sk, *sp, *ek, *ep; } cases[] = {
			{ "tls_ctx_key:ok", 0, "/tmp/leak_chain1.pem", "/tmp/leak_sign.pem", pa, NULL, NULL },
			{ "tls_ctx_key:wrong_password", 0, "/tmp/leak_chain1.pem", "/tmp/leak_sign.pem", wrong, NULL, NULL },
			{ "tls_ctx_key:key_does_not_match", 0, "/tmp/leak_chain1.pem", "/tmp/leak_kenc.pem", pb, NULL, NULL },
			{ "tls_ctx_key:no_such_file", 0, "/tmp/leak_chain1.pem", "/tmp/leak_nonexistent.pem", pa, NULL, NULL },
			{ "tlcp_ctx_keys:ok", 1, "/tmp/leak_chain2.pem", "/tmp/leak_sign.pem", pa, "/tmp/leak_kenc.pem", pb },
			{ "tlcp_ctx_keys:wrong_sign_password", 1, "/tmp/leak_chain2.pem", "/tmp/leak_sign.pem", wrong, "/tmp/leak_kenc.pem", pb },
			{ "tlcp_ctx_keys:wrong_kenc_password", 1, "/tmp/leak_chain2.pem", "/tmp/leak_sign.pem", pa, "/tmp/leak_kenc.pem", wrong },
			{ "tlcp_ctx_keys:passwords_swapped", 1, "/tmp/leak_chain2.pem", "/tmp/leak_sign.pem", pb, "/tmp/leak_kenc.pem", pa },
			{ "tlcp_ctx_keys:damaged_kenc_file", 1, "/tmp/leak_chain2.pem", "/tmp/leak_sign.pem", pa, "/tmp/leak_kenc_bad.pem", pb },
			{ "tlcp_ctx_keys:kenc_key_does_not_match", 1, "/tmp/leak_chain2.pem", "/tmp/leak_sign.pem", pa, "/tmp/leak_other.pem", pb },
			{ "tlcp_ctx_keys:sign_key_does_not_match", 1, "/tmp/leak_chain2.pem", "/tmp/leak_other.pem", pb, "/tmp/leak_kenc.pem", pb },
			{ "tlcp_ctx_keys:no_such_kenc_file", 1, "/tmp/leak_chain2.pem", "/tmp/leak_sign.pem", pa, "/tmp/leak_nonexistent.pem", pb },
		};
		for (size_t i = 0; i < sizeof cases / sizeof cases[0]; i++) {
			TLS_CTX *tc = calloc(1, sizeof *tc); tls_ctx_init(tc, cases[i].tlcp ? TLS_protocol_tlcp : TLS_protocol_tls12, cases[i].tlcp ? TLS_server_mode : TLS_client_mode);
			cap_begin();
			rc = cases[i].tlcp ? tls_ctx_set_tlcp_server_certificate_and_keys(tc, cases[i].chain, cases[i].sk, cases[i].sp, cases[i].ek, cases[i].ep) : tls_ctx_set_certificate_and_key(tc, cases[i].chain, cases[i].sk, cases[i].sp);
			secret(ds, 32); secret(de, 32); secret(d, 32); secret(pa, strlen(pa)); secret(pb, strlen(pb)); secret(wrong, strlen(wrong));
			cap_end(cases[i].name, 0, rc);
			tls_ctx_cleanup(tc); free(tc);
		}
		unlink("/tmp/leak_chain1.pem"); unlink("/tmp/leak_chain2.pem"); unlink("/tmp/leak_sign.pem"); unlink("/tmp/leak_kenc.pem"); unlink("/tmp/leak_kenc_bad.pem"); unlink("/tmp/leak_other.pem");
	}
	vt_close(); return 0;
}
