#!/usr/bin/env python3
"""(Re)generate section 0 of DESIGN.md from tools/design_sec0.md, known-findings.txt and seeded/*/meta.json."""
import json, glob, re, os
V = os.path.dirname(os.path.dirname(os.path.abspath(__file__)))
src = open(os.path.join(V, "tools", "design_sec0.md")).read()
fixes = [l.strip() for l in open(os.path.join(V, "known-findings.txt")) if l.startswith("fixed:")]
rows = []
for l in fixes:
    m = re.match(r"fixed: property=(\S+) (\S+) (.*)", l)
    rows.append("| %s | `%s` | %s |" % (m.group(1), m.group(2), m.group(3)))
fx = "| property | commit | what failed |\n|---|---|---|\n" + "\n".join(rows)
seeds = []
for f in sorted(glob.glob(os.path.join(V, "seeded", "S*", "meta.json"))):
    m = json.load(open(f))
    seeds.append("| %s | %s | %s | %s | %s |" % (m["id"], m["property"], m["what"], m["needs_to_manifest"], m["detected_by"]))
st = "| id | property | change | needs | detected by |\n|---|---|---|---|---|\n" + "\n".join(seeds)
regs = []
for f in sorted(glob.glob(os.path.join(V, "seeded", "R*", "meta.json"))):
    m = json.load(open(f))
    regs.append("| %s | %s | %s | %s | %s |" % (m["id"], m["property"], m["what"], m["needs_to_manifest"], m["detected_by"]))
if regs:
    st += "\n\nRegression and validation seeds (the code as it was before one of the fixes above, or a hand-written change made to validate a new check; kept as patches so that `tools/seedrun.sh` can show the check still sees them; not from sub-agents):\n\n| id | property | change | needs | detected by |\n|---|---|---|---|---|\n" + "\n".join(regs)
c06 = open(os.path.join(V, "tools", "design_c06.md")).read() if os.path.exists(os.path.join(V, "tools", "design_c06.md")) else "(see the C06 row above)"
src = src.replace("NUMBERED_FIXES", fx).replace("SEED_TABLE", st).replace("C06_DETAIL", c06.strip())
nst = sum(1 for f in glob.glob(os.path.join(V, "seeded", "S*", "meta.json")) if json.load(open(f)).get("strengthened"))
src = src.replace("seven only after the check was", "%d only after the check was" % nst)
src = src.replace("(33 at the time of writing)", "(%d at the time of writing)" % len(fixes)).replace("all twenty are detected", "all %d are detected" % len(seeds))
d = open(os.path.join(V, "DESIGN.md")).read()
a = d.find("## 0. As built")
b = d.find("## 1. Stance")
if a < 0:
    d = d[:b] + src + "\n\n" + d[b:]
else:
    d = d[:a] + src + "\n\n" + d[b:]
open(os.path.join(V, "DESIGN.md"), "w").write(d)
print("DESIGN.md section 0: %d fixes, %d seeded changes" % (len(fixes), len(seeds)))
