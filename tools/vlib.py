"""Common machinery for all GmSSL property checks.

build_lib()      - build /repo's current working tree into a static archive (per variant)
cc_driver()      - compile a harness driver against that archive with the library's own -D flags
tlc()            - run TLC under a timeout, parse states/transitions/violations/prints
validate()       - trace validation of Reset-separated executions with rejection bisection
Check            - per-run bookkeeping: violations, known findings, evidence file
"""
import os, sys, json, subprocess, time, fcntl, hashlib, re, shutil, random, glob, fnmatch

VERIF = os.path.dirname(os.path.dirname(os.path.abspath(__file__)))
REPO = os.environ.get("VERIF_REPO", "/repo")
BUILD = os.environ.get("VERIF_BUILD", os.path.join(VERIF, "build"))      # overridable so that a seeded tree can be checked next to a running check
SPEC = os.path.join(VERIF, "spec")
HARNESS = os.path.join(VERIF, "harness")
EVID = os.environ.get("VERIF_EVID", os.path.join(VERIF, "evidence"))
GUARD = "GMSSL_VERIF"
NCPU = os.cpu_count() or 4

SAN_UB = "bounds,pointer-overflow,null,object-size"
VARIANTS = {
    # name: (compiler, cflags, cmake options)
    "asan":  ("clang", "-O1 -g -fsanitize=address -fsanitize=%s -fno-sanitize-recover=%s -fno-omit-frame-pointer" % (SAN_UB, SAN_UB), []),
    "plain": ("gcc", "-g", []),
    "tsan":  ("clang", "-O1 -g -fsanitize=thread -fno-omit-frame-pointer", []),
    "msan":  ("clang", "-O1 -g -fsanitize=memory -fno-omit-frame-pointer", []),
    "small": ("gcc", "-g", ["-DENABLE_SMALL_FOOTPRINT=ON"]),
    "aesni": ("gcc", "-g", ["-DENABLE_SM4_AESNI=ON"]),
    "avx2":  ("gcc", "-g", ["-DENABLE_SM4_AVX2=ON"]),
    "amd64": ("gcc", "-g", ["-DENABLE_SM2_AMD64=ON", "-DENABLE_ASM_UNDERSCORE_PREFIX=OFF"]),
    "cov":   ("gcc", "-O0 -g --coverage", []),
}


def log(*a):
    print(*a, file=sys.stderr, flush=True)


def sh(cmd, timeout=1200, **kw):
    return subprocess.run(cmd, shell=isinstance(cmd, str), timeout=timeout, capture_output=True, text=True, **kw)


class _Lock:
    def __init__(self, path):
        os.makedirs(os.path.dirname(path), exist_ok=True)
        self.f = open(path, "w")

    def __enter__(self):
        fcntl.flock(self.f, fcntl.LOCK_EX)

    def __exit__(self, *a):
        fcntl.flock(self.f, fcntl.LOCK_UN)
        self.f.close()


def build_lib(variant="asan"):
    """Build libgmssl.a for `variant` from REPO's working tree (incremental). Returns build dir."""
    variant = os.environ.get("VERIF_FORCE_VARIANT") or variant        # coverage measurement of the checks themselves (tools/covrun.sh): every build becomes this one
    comp, cflags, opts = VARIANTS[variant]
    d = os.path.join(BUILD, "lib_" + variant)
    with _Lock(os.path.join(BUILD, "lock_" + variant)):
        if not os.path.exists(os.path.join(d, "build.ninja")):
            os.makedirs(d, exist_ok=True)
            cmd = ["cmake", "-S", REPO, "-B", d, "-G", "Ninja", "-DCMAKE_C_COMPILER=" + comp,
                   "-DCMAKE_BUILD_TYPE=None", "-DBUILD_SHARED_LIBS=OFF", "-DCMAKE_EXPORT_COMPILE_COMMANDS=ON",
                   "-DCMAKE_C_FLAGS=%s -D%s" % (cflags, GUARD)] + opts
            r = sh(cmd)
            if r.returncode != 0:
                raise RuntimeError("cmake failed for %s:\n%s\n%s" % (variant, r.stdout[-3000:], r.stderr[-3000:]))
        r = sh(["ninja", "-C", d, "gmssl"])
        if r.returncode != 0:
            raise RuntimeError("library build failed (%s):\n%s\n%s" % (variant, r.stdout[-6000:], r.stderr[-3000:]))
    return d


def build_cli(variant="asan"):
    """Build the gmssl command line tool (tools/*.c) for `variant` from REPO's working tree. Returns the path of the executable."""
    variant = os.environ.get("VERIF_FORCE_VARIANT") or variant
    d = build_lib(variant)
    with _Lock(os.path.join(BUILD, "lock_" + variant)):
        r = sh(["ninja", "-C", d, "gmssl-bin"])
        if r.returncode != 0:
            raise RuntimeError("command line tool build failed (%s):\n%s\n%s" % (variant, r.stdout[-6000:], r.stderr[-3000:]))
    return os.path.join(d, "bin", "gmssl")


def lib_defines(variant):
    d = os.path.join(BUILD, "lib_" + variant)
    cc = json.load(open(os.path.join(d, "compile_commands.json")))
    for e in cc:
        if e["file"].endswith("src/sm3.c"):
            return [t for t in e["command"].split() if t.startswith("-D")]
    return []


def cc_driver(name, sources, variant="asan", extra=(), libs=("-lpthread", "-ldl", "-lm")):
    """Compile harness sources + libgmssl.a(variant) into BUILD/bin_<variant>/<name>."""
    variant = os.environ.get("VERIF_FORCE_VARIANT") or variant
    d = build_lib(variant)
    comp, cflags, _ = VARIANTS[variant]
    outd = os.path.join(BUILD, "bin_" + variant)
    os.makedirs(outd, exist_ok=True)
    out = os.path.join(outd, name)
    srcs = [s if os.path.isabs(s) else os.path.join(HARNESS, s) for s in sources]
    arch = os.path.join(d, "bin", "libgmssl.a")
    # rebuild if any input newer than output
    newest = max([os.path.getmtime(p) for p in srcs + [arch] + glob.glob(os.path.join(HARNESS, "*.h"))])
    if os.path.exists(out) and os.path.getmtime(out) >= newest:
        return out
    with _Lock(os.path.join(BUILD, "lock_bin_%s_%s" % (variant, name))):
        cmd = [comp] + cflags.split() + ["-O1", "-w", "-I" + os.path.join(REPO, "include"), "-I" + HARNESS, "-I" + os.path.join(REPO, "src")] + \
            lib_defines(variant) + list(extra) + srcs + [arch] + list(libs) + ["-o", out + ".tmp"]
        r = sh(cmd)
        if r.returncode != 0:
            raise RuntimeError("driver build failed (%s/%s):\n%s" % (variant, name, r.stderr[-6000:]))
        os.replace(out + ".tmp", out)
    return out


# ----------------------------------------------------------------------------------------------
# TLC
# ----------------------------------------------------------------------------------------------
_TLC_CP = "/opt/veriftools/tla/tla2tools.jar:/opt/veriftools/tla/CommunityModules-deps.jar"


def tlc(spec, cfg=None, env=None, workers=1, timeout=900, simulate=None, depth=None, coverage=False,
        xmx="4g", tag=None, extra=(), seed=None, dfs=False, deadlock=None):
    """Run TLC on SPEC/<spec>.tla with SPEC/<cfg>.cfg. Returns dict(ok, states, distinct, violated, prints, out, rc...)"""
    tag = tag or ("%s_%d_%d" % (spec, os.getpid(), int(time.time() * 1000) % 100000000))
    meta = os.path.join(BUILD, "tlc", tag)
    shutil.rmtree(meta, ignore_errors=True)
    os.makedirs(meta, exist_ok=True)
    e = dict(os.environ)
    jopts = "-Xss512m -Djava.io.tmpdir=" + meta          # TLC's scratch directories stay under build/ (nothing is left in /tmp)
    if dfs:
        jopts += " -Dtlc2.tool.queue.IStateQueue=StateDeque"
    e["JAVA_TOOL_OPTIONS"] = jopts
    if env:
        e.update({k: str(v) for k, v in env.items()})
    cmd = ["timeout", str(timeout), "java", "-XX:+UseParallelGC", "-Xmx" + xmx, "-cp", _TLC_CP, "tlc2.TLC",
           "-workers", str(workers), "-metadir", meta, "-noGenerateSpecTE",
           "-config", os.path.join(SPEC, (cfg or spec) + ".cfg")]
    if simulate:
        cmd += ["-simulate", "num=%d" % simulate]
    if depth:
        cmd += ["-depth", str(depth)]
    if coverage:
        cmd += ["-coverage", "1"]
    if seed is not None:
        cmd += ["-seed", str(seed)]
    if deadlock is False:
        cmd += ["-deadlock"]
    cmd += list(extra) + [os.path.join(SPEC, spec + ".tla")]
    t0 = time.time()
    r = subprocess.run(cmd, capture_output=True, text=True, env=e, cwd=SPEC)
    out = r.stdout
    res = {"rc": r.returncode, "out": out, "err": r.stderr, "wall": time.time() - t0, "cmd": " ".join(cmd[2:])}
    m = re.findall(r"(\d+) states generated, (\d+) distinct states found", out)
    if m:
        res["states"] = int(m[-1][1])
        res["transitions"] = int(m[-1][0])
    else:
        res["states"] = res["transitions"] = 0
    m = re.search(r"The depth of the complete state graph search is (\d+)", out)
    res["depth"] = int(m.group(1)) if m else 0
    res["violated"] = re.findall(r"Error: (?:Invariant|Action property|Temporal properties|Property) ?(\S*) (?:is|was|were) violated", out)
    if "Error: Deadlock reached" in out:
        res["violated"].append("Deadlock")
    res["errors"] = [l for l in out.splitlines() if l.startswith("Error:")]
    res["timeout"] = r.returncode == 124
    res["finished"] = "Model checking completed" in out or "Finished in" in out
    res["ok"] = r.returncode == 0 and not res["errors"]
    res["prints"] = _collect_prints(out)
    if coverage:
        res["coverage"] = re.findall(r"^<(\w+) line \d+, col \d+ to line \d+, col \d+ of module (\w+)>: (\d+):(\d+)", out, re.M)
    shutil.rmtree(meta, ignore_errors=True)
    return res


def _collect_prints(out):
    """values printed by PrintT, one string each (TLC breaks long values over several lines)"""
    res, cur, bal = [], None, 0
    for l in out.splitlines():
        if cur is None:
            if l.startswith("<<") or l.startswith('"'):
                cur, bal = l, 0
            else:
                continue
        else:
            cur += " " + l.strip()
        s = re.sub(r'"(?:[^"\\]|\\.)*"', '""', l)
        bal += s.count("<<") - s.count(">>") + s.count("[") - s.count("]") + s.count("{") - s.count("}") + s.count("(") - s.count(")")
        if bal <= 0:
            res.append(re.sub(r'^<<\s+', '<<', cur))
            cur = None
    return res


def _tail(out, n=1500):
    """the useful end of a TLC log: from the first error line on, else the last n characters"""
    i = out.find("Semantic errors")
    if i < 0:
        i = out.find("Error:")
    return out[i:i + n] if i >= 0 else out[-n:]


def tlc_model(spec, cfg=None, allow_zero=(), require_actions=True, **kw):
    """Exhaustive model check; returns result and raises RuntimeError on tool failure (not on violation)."""
    kw.setdefault("workers", min(NCPU, 8))
    kw.setdefault("coverage", True)
    r = tlc(spec, cfg, **kw)
    if r["rc"] not in (0, 12, 13) and not r["violated"]:
        raise RuntimeError("TLC failed on %s/%s rc=%s\n%s\n%s" % (spec, cfg, r["rc"], _tail(r["out"]), r["err"][-500:]))
    if require_actions and r.get("coverage") is not None and not r["violated"]:
        zero = [a for a, mod, taken, gen in r["coverage"] if int(gen) == 0 and a not in allow_zero]
        r["zero_actions"] = zero
    return r


def parse_tla_value(s):
    """Parse the small subset of TLA+ value syntax TLC prints: tuples, ints, strings, booleans, records, sets."""
    pos = [0]
    n = len(s)

    def ws():
        while pos[0] < n and s[pos[0]] in " \n\t\r":
            pos[0] += 1

    def val():
        ws()
        c = s[pos[0]]
        if s.startswith("<<", pos[0]):
            pos[0] += 2
            out = []
            ws()
            if s.startswith(">>", pos[0]):
                pos[0] += 2
                return out
            while True:
                out.append(val())
                ws()
                if s.startswith(">>", pos[0]):
                    pos[0] += 2
                    return out
                assert s[pos[0]] == ",", s[pos[0]:pos[0] + 20]
                pos[0] += 1
        if c == "{":
            pos[0] += 1
            out = []
            ws()
            if s[pos[0]] == "}":
                pos[0] += 1
                return out
            while True:
                out.append(val())
                ws()
                if s[pos[0]] == "}":
                    pos[0] += 1
                    return out
                pos[0] += 1
        if c == "[":
            pos[0] += 1
            out = {}
            while True:
                ws()
                m = re.match(r"(\w+)\s*\|->", s[pos[0]:])
                pos[0] += m.end()
                out[m.group(1)] = val()
                ws()
                if s[pos[0]] == "]":
                    pos[0] += 1
                    return out
                pos[0] += 1
        if c == '"':
            j = pos[0] + 1
            buf = []
            while s[j] != '"':
                if s[j] == "\\":
                    j += 1
                buf.append(s[j])
                j += 1
            pos[0] = j + 1
            return "".join(buf)
        m = re.match(r"-?\d+", s[pos[0]:])
        if m:
            pos[0] += m.end()
            return int(m.group(0))
        m = re.match(r"TRUE|FALSE", s[pos[0]:])
        if m:
            pos[0] += m.end()
            return m.group(0) == "TRUE"
        m = re.match(r"\w+", s[pos[0]:])
        pos[0] += m.end()
        return m.group(0)

    return val()


def write_ndjson(path, events):
    with open(path, "w") as f:
        for e in events:
            f.write(json.dumps(e, separators=(",", ":")) + "\n")


def read_ndjson(path):
    out = []
    with open(path) as f:
        for l in f:
            l = l.strip()
            if l:
                try:
                    out.append(json.loads(l))
                except Exception:
                    out.append({"e": "Garbled", "raw": l[:200]})
    return out


def judge(spec, cases, cfg=None, shards=None, timeout=900, tag=None, env=None, xmx="2g"):
    """Evaluate a TLA+ judge operator on a list of JSON cases.  The spec reads IOEnv.TRACE as Cases, steps i=1..N
    and prints <<"MISMATCH", i, ...>> for each case the TLA+ definition disagrees with.  Sharded over processes.
    Returns (list of (case_index, info), total_states)."""
    import concurrent.futures as cf
    if not cases:
        return [], 0
    shards = shards or min(NCPU, max(1, len(cases) // 50))
    chunks = [list(range(k, len(cases), shards)) for k in range(shards)]
    tag = tag or spec
    os.makedirs(os.path.join(BUILD, "traces"), exist_ok=True)

    def run(k):
        idx = chunks[k]
        if not idx:
            return [], 0
        p = os.path.join(BUILD, "traces", "%s_%d_%d.ndjson" % (tag, os.getpid(), k))
        write_ndjson(p, [cases[i] for i in idx])
        ee = {"TRACE": p}
        ee.update(env or {})
        r = tlc(spec, cfg, env=ee, workers=1, timeout=timeout, tag="%s_%d_%d" % (tag, os.getpid(), k), xmx=xmx)
        bad = []
        for l in r["prints"]:
            if l.startswith('<<"MISMATCH"'):
                v = parse_tla_value(l)
                bad.append((idx[v[1] - 1], v[2:]))
        if not r["finished"] or r["errors"]:
            raise RuntimeError("judge %s shard %d failed rc=%s: %s\n%s" % (spec, k, r["rc"], r["errors"][:3], _tail(r["out"])))
        if r["states"] < len(idx):
            raise RuntimeError("judge %s shard %d evaluated %d of %d cases" % (spec, k, r["states"], len(idx)))
        os.unlink(p)
        return bad, r["states"]

    bad = []
    st = 0
    with cf.ThreadPoolExecutor(shards) as ex:
        for b, s in ex.map(run, range(shards)):
            bad += b
            st += s
    return sorted(bad), st


def validate(spec, executions, cfg=None, shards=None, timeout=900, tag=None, env=None, max_reject=8, dfs=False, xmx="2g"):
    """Trace validation.  `executions` is a list of event lists; they are concatenated with {"e":"Reset"} separators and
    checked against SPEC/<spec>.tla, which must print <<"REJECTED", line>> from its POSTCONDITION when the longest
    explained prefix is shorter than the trace.  Returns (rejected: list of (exec_index, event_index, event), states)."""
    import concurrent.futures as cf
    if not executions:
        return [], 0
    shards = shards or min(NCPU, max(1, len(executions) // 20))
    chunks = [list(range(k, len(executions), shards)) for k in range(shards)]
    tag = tag or spec
    os.makedirs(os.path.join(BUILD, "traces"), exist_ok=True)

    def run(k):
        idx = list(chunks[k])
        rejected = []
        states = 0
        rounds = 0
        while idx and rounds <= max_reject:
            rounds += 1
            evs = []
            owner = []
            for i in idx:
                for j, e in enumerate(executions[i]):
                    evs.append(e)
                    owner.append((i, j))
                evs.append({"e": "Reset"})
                owner.append((i, len(executions[i])))
            p = os.path.join(BUILD, "traces", "%s_%d_%d.ndjson" % (tag, os.getpid(), k))
            write_ndjson(p, evs)
            ee = {"TRACE": p}
            ee.update(env or {})
            r = tlc(spec, cfg, env=ee, workers=1, timeout=timeout, tag="%s_%d_%d" % (tag, os.getpid(), k), dfs=dfs, xmx=xmx)
            states += r["states"]
            rej = [parse_tla_value(l) for l in r["prints"] if l.startswith('<<"REJECTED"')]
            seen_exec = set()
            for l in r["prints"]:
                if l.startswith('<<"MISMATCH"'):
                    ln = min(max(parse_tla_value(l)[1], 1), len(owner))
                    i, j = owner[ln - 1]
                    if i not in seen_exec:
                        seen_exec.add(i)
                        rejected.append((i, j, executions[i][j] if j < len(executions[i]) else {"e": "Reset"}))
            other = [x for x in r["errors"] if "Postcondition" not in x and "POSTCONDITION" not in x and "post-condition" not in x.lower()]
            if r["timeout"] or (other and not rej) or (not r["finished"] and not rej):
                raise RuntimeError("trace validation %s shard %d failed rc=%s: %s\n%s" % (spec, k, r["rc"], other[:3], _tail(r["out"])))
            if not rej:
                os.unlink(p)
                break
            line = rej[0][1]
            line = min(max(line, 1), len(owner))
            i, j = owner[line - 1]
            ev = executions[i][j] if j < len(executions[i]) else {"e": "Reset"}
            rejected.append((i, j, ev))
            idx = idx[idx.index(i) + 1:]
        return rejected, states

    rej = []
    st = 0
    with cf.ThreadPoolExecutor(shards) as ex:
        for b, s in ex.map(run, range(shards)):
            rej += b
            st += s
    return sorted(rej, key=lambda x: x[0]), st


# ----------------------------------------------------------------------------------------------
# Check bookkeeping
# ----------------------------------------------------------------------------------------------
def load_known():
    known, fixed = [], []
    p = os.path.join(VERIF, "known-findings.txt")
    if os.path.exists(p):
        for l in open(p):
            l = l.strip()
            m = re.match(r"known: property=(\S+) key=(\S+) (.*)", l)
            if m:
                known.append((m.group(1), m.group(2), m.group(3)))
            m = re.match(r"fixed: property=(\S+) (\S+) (.*)", l)
            if m:
                fixed.append((m.group(1), m.group(2), m.group(3)))
    return known, fixed


class Check:
    def __init__(self, pid, level, tier=None):
        self.pid = pid
        self.level = level
        self.tier = tier or os.environ.get("VERIF_TIER", "quick")
        if self.tier not in ("quick", "thorough"):
            self.tier = "quick"
        self.seed = int(os.environ.get("VERIF_SEED", "1") or 1)
        self.rng = random.Random(self.seed)
        self.t0 = time.time()
        self.violations = []
        self.known_hits = {}
        self.notes = []
        self.cov = {"evaluations": 0, "distinct_nontrivial": 0, "samples": [], "states": 0, "transitions": 0,
                    "traces_validated_against_impl": 0, "tlc_runs": [], "trusted_base": []}
        self.assumptions = []
        self._distinct = set()
        self.known, self.fixed = load_known()
        rd = os.path.join(EVID, "replays", pid)
        if os.path.isdir(rd):                      # replays describe this run only
            for fn in os.listdir(rd):
                try:
                    os.unlink(os.path.join(rd, fn))
                except OSError:
                    pass
        os.makedirs(rd, exist_ok=True)

    @property
    def quick(self):
        return self.tier == "quick"

    def note(self, s):
        self.notes.append(s)
        log("[%s] %s" % (self.pid, s))

    def add_model(self, r, name):
        """Account an exhaustive/simulated TLC run on the abstract model; a violation of the model itself is a tool error."""
        self.cov["states"] += r["states"]
        self.cov["transitions"] += r["transitions"]
        self.cov["tlc_runs"].append({"model": name, "states": r["states"], "transitions": r["transitions"], "depth": r.get("depth", 0),
                                     "wall_s": round(r["wall"], 1), "finished": bool(r["finished"]),
                                     "zero_coverage_actions": r.get("zero_actions", [])})
        if r["violated"] or not r["finished"]:
            raise RuntimeError("model %s: violated=%s finished=%s\n%s" % (name, r["violated"], r["finished"], _tail(r["out"])))
        if r.get("zero_actions"):
            raise RuntimeError("model %s: actions never taken (vacuity guard): %s" % (name, r["zero_actions"]))

    def count(self, n=1, distinct_key=None):
        self.cov["evaluations"] += n
        if distinct_key is not None:
            self._distinct.add(distinct_key if isinstance(distinct_key, (str, int, tuple)) else json.dumps(distinct_key, sort_keys=True))

    def sample(self, s, cap=6):
        if len(self.cov["samples"]) < cap:
            self.cov["samples"].append(s)

    def violation(self, key, what, replay_obj=None):
        """Report a violation identified by `key` (stable identity of the failing case). Known findings are matched by key."""
        for (pid, k, text) in self.known:
            if pid == self.pid and (k == key or fnmatch.fnmatchcase(key, k)):
                self.known_hits.setdefault(k, (text, 0))
                self.known_hits[k] = (text, self.known_hits[k][1] + 1)
                return False
        safe = re.sub(r"[^A-Za-z0-9_.-]", "_", key)
        if len(safe) > 80:          # long keys: keep the file names distinct
            safe = safe[:70] + "_" + hashlib.sha1(key.encode()).hexdigest()[:9]
        path = os.path.join(EVID, "replays", self.pid, safe + ".json")
        with open(path, "w") as f:
            json.dump({"property": self.pid, "key": key, "what": what, "case": replay_obj, "seed": self.seed, "tier": self.tier}, f, indent=1, default=str)
        self.violations.append((key, what, path))
        return True

    def finish(self, rule, extra=None, trusted=(), assumptions=()):
        for k, (text, n) in self.known_hits.items():
            print("KNOWN-FINDING: property=%s key=%s %s (%d case(s) this run)" % (self.pid, k, text, n))
        seen = set()
        for key, what, path in self.violations:
            if path in seen:
                continue
            seen.add(path)
            print("VIOLATION property=%s replay=%s" % (self.pid, path))
            print("  key=%s %s" % (key, what))
        cov = self.cov
        cov["distinct_nontrivial"] = max(cov["distinct_nontrivial"], len(self._distinct))
        cov["rule"] = rule
        cov["trusted_base"] = list(trusted) or cov["trusted_base"]
        cov["known_findings_hit"] = {k: n for k, (t, n) in self.known_hits.items()}
        cov["notes"] = self.notes[:40]
        if extra:
            cov.update(extra)
        if not cov["samples"]:
            cov["samples"] = ["(no sample recorded)"]
        ev = {"property_id": self.pid, "tier": self.tier, "seed": self.seed, "level": self.level, "coverage": cov,
              "assumptions": list(assumptions) or self.assumptions, "wall_s": round(time.time() - self.t0, 1),
              "violations": len(seen)}
        os.makedirs(EVID, exist_ok=True)
        with open(os.path.join(EVID, self.pid + ".json"), "w") as f:
            json.dump(ev, f, indent=1, default=str)
        log("[%s] %s tier: %d evaluations, %d distinct, %d model states, %d traces, %d violation(s), %.0fs" % (
            self.pid, self.tier, cov["evaluations"], cov["distinct_nontrivial"], cov["states"], cov["traces_validated_against_impl"], len(seen), time.time() - self.t0))
        return 1 if seen else 0


def run_driver(exe, args=(), env=None, timeout=300, stdin=None):
    """Run a harness executable; returns (rc, stdout, stderr, sanitizer_report or None)."""
    e = dict(os.environ)
    e["ASAN_OPTIONS"] = "detect_leaks=0:abort_on_error=0:exitcode=99:allocator_may_return_null=1"
    e["UBSAN_OPTIONS"] = "print_stacktrace=1:halt_on_error=1:exitcode=98"
    e["TSAN_OPTIONS"] = "exitcode=97:halt_on_error=0"
    e["MSAN_OPTIONS"] = "exitcode=96"
    if env:
        e.update({k: str(v) for k, v in env.items()})
    try:
        r = subprocess.run([exe] + [str(a) for a in args], capture_output=True, timeout=timeout, env=e, input=stdin)
    except subprocess.TimeoutExpired as ex:
        return "TIMEOUT", (ex.stdout or b""), (ex.stderr or b""), None
    err = r.stderr.decode(errors="replace")
    san = None
    m = re.search(r"(ERROR: \w+Sanitizer: [^\n]*|runtime error: [^\n]*|WARNING: ThreadSanitizer: [^\n]*|WARNING: MemorySanitizer: [^\n]*)", err)
    if m:
        frames = re.findall(r"#\d+ 0x[0-9a-f]+ in (\w+)", err)[:6]
        san = m.group(1)[:200] + " @ " + ">".join(frames)
    return r.returncode, r.stdout, err, san
