"""Interpreter for the edit programs of spec/Mutate.tla: applies a program (list of [slot, kind, arg, fix]) to a seed object.
TLV objects are edited on their tree (independent DER reader/writer, nothing from the library); other formats on byte positions."""
import copy, sys
sys.setrecursionlimit(20000)

SLOTMAX = 11


class Node:
    __slots__ = ("tag", "val", "kids", "orig_len", "lenval", "lenbytes", "extra", "anc")

    def __init__(self, tag, val=None, kids=None, orig_len=0):
        self.tag, self.val, self.kids, self.orig_len = tag, val, kids, orig_len
        self.lenval = None; self.lenbytes = None; self.extra = b""; self.anc = False


def parse(b, off=0, end=None, depth=0):
    out = []
    end = len(b) if end is None else end
    while off < end:
        if end - off < 2:
            raise ValueError("short")
        t = b[off]; l = b[off + 1]; o = off + 2
        if l & 0x80:
            k = l & 0x7f
            if k == 0 or k > 4 or o + k > end:
                raise ValueError("len")
            l = int.from_bytes(b[o:o + k], "big"); o += k
        if o + l > end:
            raise ValueError("over")
        kids = None
        if t & 0x20 and depth < 40:
            try:
                kids = parse(b, o, o + l, depth + 1)
            except ValueError:
                kids = None
        # OCTET STRING / BIT STRING wrapping DER (extension values, signatures): descend when the content parses completely
        if kids is None and t in (4, 3) and l > 2 and depth < 40:
            try:
                skip = 1 if t == 3 else 0
                inner = parse(b, o + skip, o + l, depth + 1)
                if inner and b[o + skip] in (0x30, 0x31, 0x02, 0x03, 0x04, 0x06, 0xa0):
                    n = Node(t, None, inner, l); n.extra = b""; n.lenbytes = None
                    n.val = bytes(b[o:o + skip])       # leading unused-bits octet kept as a prefix
                    out.append(n); off = o + l
                    continue
            except ValueError:
                pass
        out.append(Node(t, bytes(b[o:o + l]) if kids is None else None, kids, l)); off = o + l
    return out


def enc_len(n):
    if n < 0x80: return bytes([n])
    b = n.to_bytes(max(1, (n.bit_length() + 7) // 8), "big")
    return bytes([0x80 + len(b)]) + b


def encode(node, fix, pos=None, base=0):
    """returns bytes; pos (dict) receives id(node) -> offset of the node's first byte relative to base"""
    if pos is not None:
        pos[id(node)] = base
    if node.kids is not None:
        prefix = node.val or b""
        body = bytearray(prefix)
        # header size is not known before the body: offsets of children are recorded relative to the body and shifted afterwards
        sub = {}
        for k in node.kids:
            body += encode(k, fix, sub, len(body))
        body += node.extra
    else:
        body = bytearray(node.val + node.extra); sub = {}
    actual = len(body)
    if node.lenbytes is not None:
        lb = node.lenbytes(actual) if callable(node.lenbytes) else node.lenbytes
    elif node.lenval is not None:
        lb = enc_len(node.lenval & 0xffffffff)
    elif node.anc and not fix:
        lb = enc_len(node.orig_len)
    else:
        lb = enc_len(actual)
    hdr = bytes([node.tag & 0xff]) + lb
    if pos is not None:
        for k, v in sub.items():
            pos[k] = base + len(hdr) + v
    return hdr + bytes(body)


def preorder(nodes, parent=None, acc=None):
    acc = [] if acc is None else acc
    for i, n in enumerate(nodes):
        acc.append((n, parent, i))
        if n.kids is not None:
            preorder(n.kids, n, acc)
    return acc


def mark_ancestors(roots, target):
    def rec(nodes):
        for n in nodes:
            if n is target:
                return True
            if n.kids is not None and rec(n.kids):
                n.anc = True
                return True
        return False
    rec(roots)


def apply_tree(seed, prog):
    """seed: DER bytes; prog: list of (slot, kind, arg, fix).  Returns mutant bytes or None when the program does not apply."""
    try:
        roots = parse(seed)
    except ValueError:
        return None
    cut = None
    fixall = True
    for slot, kind, arg, fix in prog:
        flat = preorder(roots)
        if not flat:
            return None
        node, parent, idx = flat[min(len(flat) - 1, slot * (len(flat) - 1) // SLOTMAX)]
        sibs = parent.kids if parent is not None else roots
        fixall = fixall and fix
        if kind == "len+": node.lenval = node.orig_len + arg
        elif kind == "len-": node.lenval = max(0, node.orig_len - arg)
        elif kind == "len=": node.lenval = 0xffffffff if arg == -1 else arg
        elif kind == "lenform":
            if arg == 0: node.lenbytes = b"\x80"
            elif arg == 5: node.lenbytes = (lambda a: b"\x85\x00" + a.to_bytes(4, "big"))
            else: node.lenbytes = (lambda a, k=arg: bytes([0x80 + k]) + (a & ((1 << (8 * k)) - 1)).to_bytes(k, "big"))
        elif kind == "tag=": node.tag = arg
        elif kind == "trunc": cut = (node, arg)
        elif kind == "drop":
            if parent is None and len(roots) == 1: return None
            del sibs[idx]
        elif kind == "dup": sibs.insert(idx, copy.deepcopy(node))
        elif kind == "rep":
            if len(encode(node, True)) * arg > 60000: return None
            for _ in range(arg): sibs.insert(idx, copy.deepcopy(node))
        elif kind == "swap":
            if idx + 1 >= len(sibs): return None
            sibs[idx], sibs[idx + 1] = sibs[idx + 1], sibs[idx]
        elif kind == "empty":
            if node.kids is not None: node.kids = []; node.val = b""
            else: node.val = b""
        elif kind == "grow": node.extra += (b"\x00\xff" * (arg // 2 + 1))[:arg]
        elif kind == "fill":
            def fill(n):
                if n.kids is not None:
                    for k in n.kids: fill(k)
                else: n.val = bytes([arg]) * len(n.val)
            fill(node)
        elif kind == "nest":
            inner = copy.deepcopy(node)
            for _ in range(arg):
                inner = Node(0x30, None, [inner], 0)
            sibs[idx] = inner
            node = inner
        else:
            return None
        mark_ancestors(roots, node)
    pos = {}
    out = bytearray()
    for r in roots:
        out += encode(r, fixall, pos, len(out))
    if cut is not None:
        node, arg = cut
        if id(node) not in pos: return None
        out = out[:pos[id(node)] + arg]
    return bytes(out)


def positions(n):
    """structural byte positions of a non-TLV object of n bytes, indexed by slot (record / handshake headers, first vectors, tail)"""
    base = list(range(0, 12)) + [38, 39, 43, 44, 45, 46, 47, 76, 77, 78]
    base += [n // 2, n - 3, n - 2, n - 1]
    return [p for p in base if 0 <= p < n]


def apply_bytes(seed, prog, text=False):
    b = bytearray(seed)
    for slot, kind, arg, fix in prog:
        ps = positions(len(b))
        if not ps:
            return None
        p = ps[min(len(ps) - 1, slot * (len(ps) - 1) // SLOTMAX)]
        if kind in ("len+", "len-"):
            b[p] = (b[p] + (arg if kind == "len+" else -arg)) & 0xff
        elif kind == "len=":
            v = (0xffffffff if arg == -1 else arg)
            w = v.to_bytes(4, "big").lstrip(b"\x00") or b"\x00"
            b[p:p + len(w)] = w[:max(0, len(b) - p)]
        elif kind == "lenform": b[p] = [0x80, 0x81, 0x82, 0x83, 0x84, 0x85][arg]
        elif kind == "tag=": b[p] = arg
        elif kind == "trunc": b = b[:p + arg]
        elif kind == "drop": del b[p:p + 4]
        elif kind == "dup": b[p:p] = b[p:p + 16]
        elif kind == "rep": b[p:p] = bytes(b[p:p + 60]) * arg if text or arg <= 80 else bytes(b[p:p + 60]) * 80
        elif kind == "swap":
            if p + 8 > len(b): return None
            b[p:p + 8] = b[p + 4:p + 8] + b[p:p + 4]
        elif kind == "empty": b = b[:p]
        elif kind == "grow": b[p:p] = ((b"A=\n-" if text else b"\x00\xff") * (arg // 2 + 1))[:arg]
        elif kind == "fill": b[p:p + 8] = bytes([arg if not text else [0x20, 0x7f, 0x80, 0xff][[0, 127, 128, 255].index(arg)]]) * len(b[p:p + 8])
        elif kind == "nest": b[p:p] = b[:p][-min(p, arg):]
        else:
            return None
    return bytes(b)


# ---------------------------------------------------------------------------------------------------------------------
# TLS records: trees of length-prefixed vectors (no tags).  VNode.pre = number of length octets (0: fixed bytes).
class VNode:
    __slots__ = ("pre", "val", "kids", "lenval", "extra", "orig_len", "anc")

    def __init__(self, pre, val=None, kids=None):
        self.pre, self.val, self.kids = pre, val, kids
        self.lenval = None; self.extra = b""; self.orig_len = 0; self.anc = False


def _vec(b, off, pre):
    n = int.from_bytes(b[off:off + pre], "big")
    if off + pre + n > len(b):
        raise ValueError("vec")
    return b[off + pre:off + pre + n], off + pre + n


def _exts(b):
    kids, off = [], 0
    while off < len(b):
        if off + 4 > len(b): raise ValueError("ext")
        data, nxt = _vec(b, off + 2, 2)
        kids.append(VNode(0, None, [VNode(0, bytes(b[off:off + 2])), VNode(2, bytes(data))]))
        off = nxt
    return kids


# handshake type -> candidate layouts.  ClientKeyExchange: ECDHE point<1> (TLS 1.2) or encrypted pre-master secret<2> (TLCP); ServerKeyExchange: signature<2> (TLCP)
# or curve_type+named_curve, point<1>, [algorithm], signature<2> (TLS 1.2); CertificateVerify: [algorithm] signature<2>; CertificateRequest: types<1> [algorithms<2>]
# names<2> (TLS 1.2 / TLCP) or context<1> extensions<2> (TLS 1.3); Finished: verify_data; ServerHelloDone: empty; NewSessionTicket (TLS 1.3)
_LAYOUTS = {16: [[1], [2]], 12: [[2], [-3, 1, -2, 2], [-3, 1, 2]], 15: [[2], [-2, 2]], 13: [[1, 2, 2], [1, 2]], 20: [[-99]], 14: [[-99]], 4: [[-4, -4, 1, 2, 2]]}


def parse_tls(rec):
    """record -> VNode tree, or None when the layout is not one of the handled handshake messages"""
    try:
        if len(rec) < 9 or rec[0] != 22:
            return None
        body, end = _vec(rec, 3, 2)
        if end != len(rec): return None
        ht = body[0]
        hb, hend = _vec(body, 1, 3)
        if hend != len(body): return None
        fields = []
        if ht in (1, 2):
            off = 34
            fields.append(VNode(0, bytes(hb[:34])))
            sid, off = _vec(hb, off, 1); fields.append(VNode(1, bytes(sid)))
            if ht == 1:
                cs, off = _vec(hb, off, 2); fields.append(VNode(2, bytes(cs)))
                cm, off = _vec(hb, off, 1); fields.append(VNode(1, bytes(cm)))
            else:
                fields.append(VNode(0, bytes(hb[off:off + 3]))); off += 3
            if off < len(hb):
                ex, off2 = _vec(hb, off, 2)
                fields.append(VNode(2, None, _exts(ex)))
                if off2 != len(hb): return None
        elif ht == 11:
            off = 0
            lst, off2 = _vec(hb, 0, 3)
            if off2 == len(hb):                      # TLS 1.2 / TLCP: certs<3> of cert<3>
                kids, o = [], 0
                while o < len(lst):
                    c, o = _vec(lst, o, 3); kids.append(VNode(3, bytes(c)))
                fields.append(VNode(3, None, kids))
            else:                                    # TLS 1.3: context<1> list<3> of (cert<3> exts<2>)
                ctx, off = _vec(hb, 0, 1); fields.append(VNode(1, bytes(ctx)))
                lst, off2 = _vec(hb, off, 3)
                if off2 != len(hb): return None
                kids, o = [], 0
                while o < len(lst):
                    c, o = _vec(lst, o, 3); e, o = _vec(lst, o, 2)
                    kids.append(VNode(0, None, [VNode(3, bytes(c)), VNode(2, bytes(e))]))
                fields.append(VNode(3, None, kids))
        elif ht == 8:                                # EncryptedExtensions
            ex, off2 = _vec(hb, 0, 2)
            if off2 != len(hb): return None
            fields.append(VNode(2, None, _exts(ex)))
        elif ht in _LAYOUTS:                         # short messages: the first layout (fixed octets / length-prefixed vectors) that consumes the body exactly
            for layout in _LAYOUTS[ht]:
                try:
                    fs, off = [], 0
                    for pre in layout:
                        if pre < 0:                  # -k: k fixed octets; -99: all the rest
                            k = len(hb) - off if pre == -99 else -pre
                            if off + k > len(hb): raise ValueError("fixed")
                            fs.append(VNode(0, bytes(hb[off:off + k]))); off += k
                        else:
                            v, off = _vec(hb, off, pre); fs.append(VNode(pre, bytes(v)))
                    if off == len(hb):
                        fields = fs
                        break
                except (ValueError, IndexError):
                    continue
            else:
                return None
        else:
            return None
        hs = VNode(0, None, [VNode(0, bytes([ht])), VNode(3, None, fields)])
        root = VNode(0, None, [VNode(0, bytes(rec[:3])), VNode(2, None, [hs])])
        return root
    except (ValueError, IndexError):
        return None


def vencode(n, fix):
    body = (b"".join(vencode(k, fix) for k in n.kids) if n.kids is not None else n.val) + n.extra
    if n.pre == 0:
        return body
    if n.lenval is not None: l = n.lenval
    elif n.anc and not fix: l = n.orig_len
    else: l = len(body)
    return (l & ((1 << (8 * n.pre)) - 1)).to_bytes(n.pre, "big") + body


def _vlen(n):
    return len((b"".join(vencode(k, True) for k in n.kids) if n.kids is not None else n.val))


def apply_tls(seed, prog):
    root = parse_tls(seed)
    if root is None:
        return None
    def setorig(n):
        n.orig_len = _vlen(n)
        for k in (n.kids or []): setorig(k)
    setorig(root)
    fixall = True
    for slot, kind, arg, fix in prog:
        flat = preorder([root])
        node, parent, idx = flat[min(len(flat) - 1, slot * (len(flat) - 1) // SLOTMAX)]
        fixall = fixall and fix
        sibs = parent.kids if parent is not None else None
        if kind == "len+": node.lenval = node.orig_len + arg
        elif kind == "len-": node.lenval = max(0, node.orig_len - arg)
        elif kind == "len=": node.lenval = 0xffffffff if arg == -1 else arg
        elif kind in ("dup", "rep") and sibs is not None:
            for _ in range(1 if kind == "dup" else arg): sibs.insert(idx, copy.deepcopy(node))
        elif kind == "drop" and sibs is not None and len(sibs) > 1: del sibs[idx]
        elif kind == "swap" and sibs is not None and idx + 1 < len(sibs): sibs[idx], sibs[idx + 1] = sibs[idx + 1], sibs[idx]
        elif kind == "empty":
            if node.kids is not None: node.kids = []
            else: node.val = b""
        elif kind == "grow": node.extra += (b"\x00\xff" * (arg // 2 + 1))[:arg]
        elif kind == "fill":
            def fill(n):
                if n.kids is not None:
                    for k in n.kids: fill(k)
                else: n.val = bytes([arg]) * len(n.val)
            fill(node)
        else:
            return None
        def mark(n):
            if n is node: return True
            for k in (n.kids or []):
                if mark(k):
                    n.anc = True
                    return True
            return False
        mark(root)
    out = vencode(root, fixall)
    return out if len(out) <= 5 + 18432 else None


def per_node_repeats(seed, counts=(1, 2, 4, 5, 8, 9, 16, 17, 33), maxout=70000):
    """the slot abstraction of apply_tree reaches a dozen positions of a tree; fixed-size arrays of parsed members sit behind SETs and SEQUENCE OFs anywhere in it.
    For every member of every constructed node: the member repeated `count` more times (lengths repaired).  Yields (name, mutant)."""
    try:
        roots = parse(seed)
    except (ValueError, RecursionError):
        return
    flat = preorder(roots)
    for k in range(len(flat)):
        node, parent, idx = flat[k]
        if parent is None:
            continue
        one = len(encode(node, True))
        for cnt in counts:
            if one * cnt + len(seed) > maxout:
                break
            r2 = parse(seed)
            f2 = preorder(r2)
            n2, p2, i2 = f2[k]
            import copy
            for _ in range(cnt):
                p2.kids.insert(i2, copy.deepcopy(n2))
            try:
                yield "node%d.rep%d" % (k, cnt), b"".join(encode(t, True) for t in r2)
            except Exception:
                break
