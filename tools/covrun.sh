#!/bin/bash
# usage: covrun.sh [check ids...] : run the quick tiers against a gcov build of the library (own build / evidence directories under /tmp) and list, per source
# file, the functions no check executed.  A way of finding what the checks do not reach; not part of any registered command.
B=/tmp/covbuild; rm -rf $B /tmp/covevid; mkdir -p $B
export VERIF_FORCE_VARIANT=cov VERIF_BUILD=$B VERIF_EVID=/tmp/covevid
cd /verif
for c in ${@:-C01 C02 C03 C04 C05 C06 C07 C08 C09 C10 C11 C12 C13 C14 C15 C16 C17 C18 C19 C20}; do
  timeout 3000 ./check $c quick > $B/$c.log 2>&1; echo "$c rc=$? $(tail -1 $B/$c.log | cut -c1-100)"
done
cd $B/lib_cov && gcovr -r /repo --object-directory . --json-summary-pretty -o $B/cov_summary.json >/dev/null 2>&1
gcovr -r /repo --object-directory . --txt -o $B/cov.txt >/dev/null 2>&1
echo "summary in $B/cov.txt"
