import json,sys
d=json.load(open(sys.argv[1])); print(d['key'][:200]); print(d['what'][:300])
c=d['case'].get('case',{}); print({k:(v if len(str(v))<40 else 'len%d'%(len(str(v))//2)) for k,v in c.items()})
for e in d['case'].get('events',[]):
    print({k:(v if not isinstance(v,list) else (len(v),v[:4])) for k,v in e.items() if k not in ('key','iv','aad','mackey','T')})
