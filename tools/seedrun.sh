#!/bin/bash
# usage: seedrun.sh <Sid> <check id>... : apply the seeded patch to /repo, run the quick checks, revert
S=$1; shift
git -C /repo apply /verif/seeded/$S/patch.diff || exit 2
for c in "$@"; do
  out=$(cd /verif && ./check $c quick 2>&1); rc=$?
  echo "== $S vs $c: exit=$rc, $(echo "$out" | grep -c '^VIOLATION') VIOLATION lines"; echo "$out" | grep -A1 '^VIOLATION' | head -4 | cut -c1-300
done
git -C /repo checkout -- . ; git -C /repo status --short | grep -v _build
