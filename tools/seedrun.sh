#!/bin/bash
# usage: seedrun.sh <Sid> <check id>... : check a seeded change on a private copy of the tree (own worktree, build and evidence directories), so that /repo and
# /verif/build are never touched and other checks may run at the same time.  Equivalent to: git -C /repo apply <patch>; ./check <id> quick; git -C /repo checkout -- .
S=$1; shift
W=/tmp/seedrun_$S; rm -rf $W; mkdir -p $W
git -C /repo worktree add -q --detach $W/repo HEAD || exit 2
git -C $W/repo apply /verif/seeded/$S/patch.diff || { git -C /repo worktree remove --force $W/repo; exit 2; }
export VERIF_REPO=$W/repo VERIF_BUILD=$W/build VERIF_EVID=$W/evidence
for c in "$@"; do
  out=$(cd /verif && ./check $c quick 2>&1); rc=$?
  echo "== $S vs $c: exit=$rc, $(echo "$out" | grep -c '^VIOLATION') VIOLATION lines"; echo "$out" | grep -A1 '^VIOLATION' | head -4 | cut -c1-300
done
git -C /repo worktree remove --force $W/repo; git -C /repo worktree prune; rm -rf $W
