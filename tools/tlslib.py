"""Shared helpers for the TLS checks (C08 C09 C10 C11-live): scenarios, driver runs, trace annotation."""
import os, sys, json
sys.path.insert(0, os.path.dirname(os.path.abspath(__file__)))
import vlib

BAD_CHAIN = ("untrusted", "fakeroot", "fakerootsent", "fakeroot1", "expired", "notyet", "caexpired", "issuernotca", "issuernobc", "badsig", "cabadsig",
             "wrongissuerkey", "leafku", "leafkunc", "leafencnc", "pathlen", "encbadsig", "encexpired", "encotherissuer", "encselfsigned", "encwrongissuerkey")


def cred_facts(name, trust):
    """(chain valid against trust, possession of sign key, possession of enc key) by construction of tools/mkcreds.py"""
    if name == "-":
        return False, False, True
    suffix = name.split("_", 1)[1]
    ok = suffix not in BAD_CHAIN and trust in ("trust_root", "trust_multi")
    return ok, suffix != "signkeymismatch", suffix != "enckeymismatch"


def annotate(events):
    for e in events:
        if e.get("e") == "Start":
            sok, sposs, senc = cred_facts(e["scred"], e["ctrust"])
            cok, cposs, _ = cred_facts(e["ccred"], e["strust"])
            e.update({"sok": sok, "sposs": sposs, "senc": senc, "cok": cok, "cposs": cposs})
    return events


def ensure_creds():
    d = os.path.join(vlib.BUILD, "creds")
    import hashlib
    want = hashlib.sha1(open(os.path.join(vlib.VERIF, "tools", "mkcreds.py"), "rb").read()).hexdigest()
    stamp = os.path.join(d, "STAMP")
    if not os.path.exists(stamp) or open(stamp).read().strip() != want:      # (re)built when the generator changes
        r = vlib.sh([sys.executable, os.path.join(vlib.VERIF, "tools", "mkcreds.py"), d])
        if r.returncode != 0:
            raise RuntimeError("mkcreds failed: " + r.stderr[-2000:])
        with open(stamp, "w") as f:
            f.write(want + "\n")
    return d


def scn_line(d):
    return " ".join("%s=%s" % (k, v) for k, v in d.items())


def run_scenarios(scns, variant="asan", procs=None, tag="tls", timeout=600):
    """Run scenario dicts through tlsdrv in parallel processes. Returns list of (scenario, events, stderr_text, sanitizer) per scenario."""
    import concurrent.futures as cf
    exe = vlib.cc_driver("tlsdrv", ["tlsdrv.c", "vh.c"], variant)
    creds = ensure_creds()
    procs = procs or min(vlib.NCPU, max(1, len(scns) // 4))
    chunks = [scns[k::procs] for k in range(procs)]
    td = os.path.join(vlib.BUILD, "traces")
    os.makedirs(td, exist_ok=True)

    def run_once(k, todo, attempt):
        sf = os.path.join(td, "%s_%d_%d_%d.scn" % (tag, os.getpid(), k, attempt))
        tf = os.path.join(td, "%s_%d_%d_%d.raw" % (tag, os.getpid(), k, attempt))
        with open(sf, "w") as f:
            for s in todo:
                f.write(scn_line(s) + "\n")
        rc, out, err, san = vlib.run_driver(exe, [creds, sf, tf], timeout=timeout)
        evs = vlib.read_ndjson(tf) if os.path.exists(tf) else []
        per = []
        cur = None
        for e in evs:
            if e.get("e") == "Start":
                cur = []
                per.append(cur)
            if cur is not None:
                cur.append(e)
        res = []
        for i, s in enumerate(todo):
            if i >= len(per):
                break
            ev = per[i]
            complete = bool(ev) and ev[-1].get("e") == "End"
            res.append({"scn": s, "events": annotate(ev), "complete": complete, "rc": rc, "san": None if complete else (san or "process ended (rc=%s) without sanitizer report" % rc),
                        "stderr": err if (i == 0 or not complete) else "", "stdout": out if i == 0 else b""})
            if not complete:
                break
        if not res and todo:   # died before the first Start
            res.append({"scn": todo[0], "events": [], "complete": False, "rc": rc, "san": san or "process ended (rc=%s) before the first scenario" % rc, "stderr": err, "stdout": out})
        for p in (sf, tf):
            try:
                os.unlink(p)
            except OSError:
                pass
        return res

    def run(k):
        todo = list(chunks[k])
        res = []
        attempt = 0
        while todo and attempt < 200:
            attempt += 1
            r = run_once(k, todo, attempt)
            res += r
            todo = todo[len(r):]      # a crash ends the batch after the crashing scenario; carry on with the rest in a new process
        return res

    out = []
    with cf.ThreadPoolExecutor(procs) as ex:
        for r in ex.map(run, range(procs)):
            out += r
    return out
