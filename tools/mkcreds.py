#!/usr/bin/env python3
"""Generate TLS credential sets (DER chains, raw private keys) with the reference X.509 writer.
Layout: <out>/<set>/{chain.der, sign.key, enc.key?}  and <out>/<trust>/ca.der
Sets are independent of the C library (reference SM2 signer + DER writer)."""
import os, sys
sys.path.insert(0, os.path.join(os.path.dirname(os.path.abspath(__file__)), "..", "ref"))
from derw import *

NOW = 1790000000
DAY = 86400


def key(i):
    d = (0x1f2e3d4c5b6a79880123456789abcdef0fedcba987654321a5a5a5a5c3c3c3c3 * (i + 3) + i) % (n - 3) + 1
    return d, mul(d, G)


KEYS = {nm: key(i) for i, nm in enumerate(["root", "ca1", "ca2", "srv", "enc", "cli", "evil", "other", "clienc"])}
_k = [0x77777]


def nonce():
    _k[0] = (_k[0] * 6364136223846793005 + 1442695040888963407) % (n - 2) + 1
    return _k[0]


def mk(subject, subj_key, issuer, issuer_key, exts, nb=NOW - 30 * DAY, na=NOW + 300 * DAY, serial=None, corrupt=False):
    serial = serial or (nonce() % (1 << 63)) | (1 << 62)
    return cert(serial, issuer, subject, KEYS[subj_key][1], nb, na, exts, KEYS[issuer_key][0], KEYS[issuer_key][1], nonce(), corrupt_sig=corrupt)


def ca_exts(plc): return [ext_bc(True, plc), ext_ku(["keyCertSign", "cRLSign"])]


LEAF_SIGN = [ext_ku(["digitalSignature"])]
LEAF_ENC = [ext_ku(["keyEncipherment"])]


def write(out, name, chain=None, sign=None, enc=None, ca=None):
    d = os.path.join(out, name)
    os.makedirs(d, exist_ok=True)
    if chain is not None: open(os.path.join(d, "chain.der"), "wb").write(b"".join(chain))
    if sign is not None: open(os.path.join(d, "sign.key"), "w").write(i2b(KEYS[sign][0]).hex())
    if enc is not None: open(os.path.join(d, "enc.key"), "w").write(i2b(KEYS[enc][0]).hex())
    if ca is not None: open(os.path.join(d, "ca.der"), "wb").write(b"".join(ca))


def main(out):
    root = mk("VRoot", "root", "VRoot", "root", ca_exts(None))
    evil = mk("VRoot", "evil", "VRoot", "evil", ca_exts(None))      # same name, different key
    evil2 = mk("EvilRoot", "evil", "EvilRoot", "evil", ca_exts(None))
    write(out, "trust_root", ca=[root])
    write(out, "trust_evil", ca=[evil2])
    # trust bundles of several roots: "trust_multi" = unrelated roots and then the real one, below the 2048 octets a connection keeps (tls_init copies the bundle);
    # "trust_big" = unrelated roots only, above that size -- an endpoint given it either refuses to start or trusts none of the peers of these sets
    bigs = [mk("BigRoot%d" % i, "other", "BigRoot%d" % i, "other", ca_exts(None)) for i in range(8)]
    multi = bigs[:3] + [root]
    while len(b"".join(multi)) > 2048: multi = multi[1:]
    big = list(bigs)
    assert len(b"".join(big)) > 2048 + 400 and len(multi) >= 2
    write(out, "trust_multi", ca=multi)
    write(out, "trust_big", ca=big)
    # intermediates: for depth d the chain below the root has d-1 CAs; pathLen = number of CAs below
    ca1_p0 = mk("VCA1", "ca1", "VRoot", "root", ca_exts(0))
    ca1_p1 = mk("VCA1", "ca1", "VRoot", "root", ca_exts(1))
    ca2_p0 = mk("VCA2", "ca2", "VCA1", "ca1", ca_exts(0))

    def issuer_of(depth):
        return {1: ("VRoot", "root", []), 2: ("VCA1", "ca1", [ca1_p0]), 3: ("VCA2", "ca2", [ca2_p0, ca1_p1])}[depth]

    for depth in (1, 2, 3):
        iname, ikey, cas = issuer_of(depth)
        srv = mk("VServer", "srv", iname, ikey, LEAF_SIGN)
        enc = mk("VServer", "enc", iname, ikey, LEAF_ENC)
        cli = mk("VClient", "cli", iname, ikey, LEAF_SIGN)
        write(out, "srv_d%d" % depth, chain=[srv] + cas, sign="srv")
        write(out, "tlcp_d%d" % depth, chain=[srv, enc] + cas, sign="srv", enc="enc")
        write(out, "cli_d%d" % depth, chain=[cli] + cas, sign="cli")

    # ---- defective credentials (depth 2) ----
    iname, ikey, cas = issuer_of(2)

    def leafset(prefix, subj, skey, with_enc):
        def chain(leaf, cas_, encleaf=None):
            if with_enc:
                return [leaf, encleaf or mk(subj, "enc", iname, ikey, LEAF_ENC)] + cas_
            return [leaf] + cas_
        good = mk(subj, skey, iname, ikey, LEAF_SIGN)
        # untrusted root: whole chain issued under another root with different name
        e_ca1 = mk("VCA1", "ca1", "EvilRoot", "evil", ca_exts(0))
        write(out, prefix + "_untrusted", chain=chain(good, [e_ca1]), sign=skey, enc="enc" if with_enc else None)
        # same-name root with different key: chain CA signed by the evil key
        e2_ca1 = mk("VCA1", "ca1", "VRoot", "evil", ca_exts(0))
        write(out, prefix + "_fakeroot", chain=chain(good, [e2_ca1]), sign=skey, enc="enc" if with_enc else None)
        # ... and the same with the look-alike root itself sent at the end of the chain (a verifier that trusts a root by its name alone accepts this)
        write(out, prefix + "_fakerootsent", chain=chain(good, [e2_ca1, evil]), sign=skey, enc="enc" if with_enc else None)
        # leaf issued directly under the look-alike root, which is sent along
        write(out, prefix + "_fakeroot1", chain=chain(mk(subj, skey, "VRoot", "evil", LEAF_SIGN), [evil], mk(subj, "enc", "VRoot", "evil", LEAF_ENC)), sign=skey, enc="enc" if with_enc else None)
        write(out, prefix + "_expired", chain=chain(mk(subj, skey, iname, ikey, LEAF_SIGN, nb=NOW - 100 * DAY, na=NOW - DAY), cas),
              sign=skey, enc="enc" if with_enc else None)
        write(out, prefix + "_notyet", chain=chain(mk(subj, skey, iname, ikey, LEAF_SIGN, nb=NOW + DAY, na=NOW + 100 * DAY), cas),
              sign=skey, enc="enc" if with_enc else None)
        write(out, prefix + "_caexpired", chain=chain(good, [mk("VCA1", "ca1", "VRoot", "root", ca_exts(0), nb=NOW - 100 * DAY, na=NOW - DAY)]),
              sign=skey, enc="enc" if with_enc else None)
        # issuer not a CA: intermediate has cA absent and end-entity key usage / cA FALSE
        notca = mk("VCA1", "ca1", "VRoot", "root", [ext_bc(False, None), ext_ku(["digitalSignature"])])
        write(out, prefix + "_issuernotca", chain=chain(good, [notca]), sign=skey, enc="enc" if with_enc else None)
        nobc = mk("VCA1", "ca1", "VRoot", "root", [])
        write(out, prefix + "_issuernobc", chain=chain(good, [nobc]), sign=skey, enc="enc" if with_enc else None)
        write(out, prefix + "_badsig", chain=chain(mk(subj, skey, iname, ikey, LEAF_SIGN, corrupt=True), cas), sign=skey,
              enc="enc" if with_enc else None)
        write(out, prefix + "_cabadsig", chain=chain(good, [mk("VCA1", "ca1", "VRoot", "root", ca_exts(0), corrupt=True)]), sign=skey,
              enc="enc" if with_enc else None)
        # leaf signed by a key that is not the named issuer's
        write(out, prefix + "_wrongissuerkey", chain=chain(mk(subj, skey, iname, "other", LEAF_SIGN), cas), sign=skey,
              enc="enc" if with_enc else None)
        # private key does not match the certificate
        write(out, prefix + "_signkeymismatch", chain=chain(good, cas), sign="other", enc="enc" if with_enc else None)
        if with_enc:
            write(out, prefix + "_enckeymismatch", chain=chain(good, cas), sign=skey, enc="other")
            write(out, prefix + "_encbadsig", chain=chain(good, cas, mk(subj, "enc", iname, ikey, LEAF_ENC, corrupt=True)), sign=skey, enc="enc")
            # the encryption certificate comes from somewhere else entirely: an issuer name that matches nothing the verifier knows / the right name under another key
            write(out, prefix + "_encotherissuer", chain=chain(good, cas, mk(subj, "enc", "RogueCA", "evil", LEAF_ENC)), sign=skey, enc="enc")
            write(out, prefix + "_encselfsigned", chain=chain(good, cas, mk(subj, "enc", subj, "enc", LEAF_ENC)), sign=skey, enc="enc")
            write(out, prefix + "_encwrongissuerkey", chain=chain(good, cas, mk(subj, "enc", iname, "other", LEAF_ENC)), sign=skey, enc="enc")
            write(out, prefix + "_encexpired", chain=chain(good, cas, mk(subj, "enc", iname, ikey, LEAF_ENC, nb=NOW - 100 * DAY, na=NOW - DAY)), sign=skey, enc="enc")
        # leaf is a CA certificate / wrong key usage
        write(out, prefix + "_leafku", chain=chain(mk(subj, skey, iname, ikey, [ext_ku(["keyCertSign"])]), cas), sign=skey,
              enc="enc" if with_enc else None)
        # ... the same restriction in a keyUsage extension that is NOT marked critical (criticality says whether an unknown extension may be ignored, not
        # whether a known one applies), and a leaf whose only permitted use is key encipherment offered as the signing certificate
        write(out, prefix + "_leafkunc", chain=chain(mk(subj, skey, iname, ikey, [ext_ku(["keyCertSign"], crit=False)]), cas), sign=skey, enc="enc" if with_enc else None)
        write(out, prefix + "_leafencnc", chain=chain(mk(subj, skey, iname, ikey, [ext_ku(["keyEncipherment"], crit=False)]), cas), sign=skey, enc="enc" if with_enc else None)
        # pathLen violated: two CAs below a pathLen-0 CA
        ca1_bad = mk("VCA1", "ca1", "VRoot", "root", ca_exts(0))
        leaf3 = mk(subj, skey, "VCA2", "ca2", LEAF_SIGN)
        ch = [leaf3] + ([mk(subj, "enc", "VCA2", "ca2", LEAF_ENC)] if with_enc else []) + [ca2_p0, ca1_bad]
        write(out, prefix + "_pathlen", chain=ch, sign=skey, enc="enc" if with_enc else None)

    leafset("srv", "VServer", "srv", False)
    leafset("tlcp", "VServer", "srv", True)
    leafset("cli", "VClient", "cli", False)
    open(os.path.join(out, "STAMP"), "w").write("ok\n")


if __name__ == "__main__":
    main(sys.argv[1])
