#!/bin/bash
# usage: seedbatch.sh <NN> <Sid> <checks...>: confirm the seed in /tmp/seedNN, store it as seeded/<Sid>, run the checks against it
n=$1; S=$2; shift; shift
/verif/tools/seedconfirm.sh /tmp/seed$n $S 2>&1 | grep -v "^ctest" | tr '\n' ' '
grep -o "[0-9]*% tests passed, [0-9]* tests failed out of [0-9]*" /verif/seeded/$S/confirm.txt | tr '\n' ' '; echo
/verif/tools/seedrun.sh $S "$@" 2>&1 | cut -c1-280 | grep -v "^VIOLATION" | head -8
