#!/usr/bin/env python3
"""Setup-time guard: the IV constants typed into spec/Crypto.tla equal the reference implementations' (derived per the standards)."""
import re, sys, os
V = os.path.dirname(os.path.dirname(os.path.abspath(__file__)))
sys.path.insert(0, os.path.join(V, "ref"))
import sharef, sm3ref
s = open(os.path.join(V, "spec", "Crypto.tla")).read()
def tla(name):
    m = re.search(name + r" == <<([^>]*)>>", s)
    return [int(x) for x in m.group(1).replace("\n", " ").split(",")]
def bytesof(words, wb): return [b for w in words for b in w.to_bytes(wb, "big")]
bad = 0
for n, w, wb in [("SM3IV", sm3ref.IV, 4), ("SHA1IV", sharef.SHA1_IV, 4), ("SHA256IV", sharef.SHA256_IV, 4), ("SHA224IV", sharef.SHA224_IV, 4),
                 ("SHA512IV", sharef.SHA512_IV, 8), ("SHA384IV", sharef.SHA384_IV, 8), ("SHA512_224IV", sharef.SHA512_224_IV, 8), ("SHA512_256IV", sharef.SHA512_256_IV, 8)]:
    if tla(n) != bytesof(w, wb):
        print("constant %s in Crypto.tla differs from reference; correct: <<%s>>" % (n, ",".join(map(str, bytesof(w, wb)))))
        bad = 1
import sm2ref, sm9ref
def tla2(path, name):
    m = re.search(name + r" == <<([^>]*)>>", open(os.path.join(V, "spec", path)).read())
    return [int(x) for x in m.group(1).replace("\n", " ").split(",")]
for path, n, v in [("Sm2Curve.tla", "HexP", sm2ref.p), ("Sm2Curve.tla", "HexA", sm2ref.a), ("Sm2Curve.tla", "HexB", sm2ref.b), ("Sm2Curve.tla", "HexN", sm2ref.n),
                   ("Sm2Curve.tla", "HexGx", sm2ref.G[0]), ("Sm2Curve.tla", "HexGy", sm2ref.G[1]), ("ImportJudge.tla", "HexP9", sm9ref.p)]:
    if tla2(path, n) != list(v.to_bytes(32, "big")):
        print("constant %s in %s differs from the reference" % (n, path))
        bad = 1
sys.exit(bad)
