"""The command line tools (tools/*.c, `gmssl <command>`) driven as a user drives them: files in, files out.  The tools are the documented way to use the
streaming interfaces, and they add their own buffering on top of the library (4096-byte reads, shared in/out buffers) -- sizes around multiples of that
buffer are where they differ from the one-shot calls the drivers make.  Every run is an execution whose events are judged by CryptoTrace.tla."""
import os, sys, subprocess, hashlib
sys.path.insert(0, os.path.join(os.path.dirname(os.path.abspath(__file__)), "..", "ref"))
import vlib
import constructions as K

T = K.Tab()
KEY = bytes.fromhex("00112233445566778899aabbccddeeff")
KEY2 = bytes.fromhex("0f1e2d3c4b5a69788796a5b4c3d2e1f0")
MACKEY = bytes(range(0x40, 0x60))
IV16 = bytes.fromhex("000102030405060708090a0b0c0d0e0f")
IV12 = IV16[:12]
AAD = b"header-of-the-file"


def run(exe, args, timeout=120):
    env = dict(os.environ, ASAN_OPTIONS="detect_leaks=0:abort_on_error=0", UBSAN_OPTIONS="print_stacktrace=1")
    try:
        r = subprocess.run([exe] + args, stdout=subprocess.PIPE, stderr=subprocess.PIPE, timeout=timeout, env=env)
    except subprocess.TimeoutExpired:
        return -99, b"", b"timeout", "timeout after %ds" % timeout
    err = r.stderr.decode(errors="replace")
    san = err[-1500:] if ("Sanitizer" in err or "runtime error" in err) else (("signal %d" % -r.returncode) if r.returncode < 0 else None)
    return r.returncode, r.stdout, err, san


def msg(n, salt):
    out = b""; i = 0
    while len(out) < n:
        out += hashlib.sha256(b"%d:%d" % (salt, i)).digest(); i += 1
    return out[:n]


# mode -> (encrypt args, decrypt args, reference(m) -> expected protected bytes or None, authenticated?)
def modes():
    hx = lambda b: b.hex()
    return {
        "sm4_ecb": (["-encrypt", "-key", hx(KEY)], ["-decrypt", "-key", hx(KEY)], lambda m: K.ecb_enc(T, "sm4", KEY, m) if len(m) % 16 == 0 else None, False),
        "sm4_cbc": (["-encrypt", "-key", hx(KEY), "-iv", hx(IV16)], ["-decrypt", "-key", hx(KEY), "-iv", hx(IV16)], lambda m: K.cbc_pad_enc(T, "sm4", KEY, IV16, m), False),
        "sm4_ctr": (["-encrypt", "-key", hx(KEY), "-iv", hx(IV16)], ["-decrypt", "-key", hx(KEY), "-iv", hx(IV16)], lambda m: K.ctr_enc(T, "sm4", KEY, IV16, m), False),
        "sm4_ofb": (["-encrypt", "-key", hx(KEY), "-iv", hx(IV16)], ["-decrypt", "-key", hx(KEY), "-iv", hx(IV16)], lambda m: K.ofb_enc(T, "sm4", KEY, IV16, m), False),
        "sm4_cfb": (["-encrypt", "-sbytes", "16", "-key", hx(KEY), "-iv", hx(IV16)], ["-decrypt", "-sbytes", "16", "-key", hx(KEY), "-iv", hx(IV16)], lambda m: K.cfb(T, "sm4", KEY, IV16, 16, m, True), False),
        "sm4_gcm": (["-encrypt", "-key", hx(KEY), "-iv", hx(IV12), "-aad_hex", hx(AAD)], ["-decrypt", "-key", hx(KEY), "-iv", hx(IV12), "-aad_hex", hx(AAD)],
                    lambda m: b"".join(K.gcm_enc(T, "sm4", KEY, IV12, AAD, m, 16)), True),
        "sm4_cbc_sm3_hmac": (["-encrypt", "-key", hx(KEY + MACKEY), "-iv", hx(IV16), "-aad_hex", hx(AAD)], ["-decrypt", "-key", hx(KEY + MACKEY), "-iv", hx(IV16), "-aad_hex", hx(AAD)],
                             lambda m: K.cbc_hmac_enc(T, KEY, MACKEY, IV16, AAD, m), True),
        "sm4_ctr_sm3_hmac": (["-encrypt", "-key", hx(KEY + MACKEY), "-iv", hx(IV16), "-aad_hex", hx(AAD)], ["-decrypt", "-key", hx(KEY + MACKEY), "-iv", hx(IV16), "-aad_hex", hx(AAD)],
                             lambda m: K.ctr_hmac_enc(T, KEY, MACKEY, IV16, AAD, m), True),
        "zuc": (["-key", hx(KEY), "-iv", hx(IV16)], ["-key", hx(KEY), "-iv", hx(IV16)], None, False),
    }


def roundtrip(exe, wd, mode, n, salt=1, tamper=True):
    """one file of n bytes through `gmssl <mode>` both ways.  Returns (events, sanitizer report or None)."""
    enc, dec, ref, auth = modes()[mode]
    os.makedirs(wd, exist_ok=True)
    base = os.path.join(wd, "%s_%d" % (mode, n))
    m = msg(n, salt)
    open(base + ".m", "wb").write(m)
    for suffix in (".c", ".d", ".t", ".td"):
        if os.path.exists(base + suffix): os.remove(base + suffix)
    rc1, _, e1, san1 = run(exe, [mode] + enc + ["-in", base + ".m", "-out", base + ".c"])
    ct = open(base + ".c", "rb").read() if os.path.exists(base + ".c") else b""
    rc2, _, e2, san2 = run(exe, [mode] + dec + ["-in", base + ".c", "-out", base + ".d"]) if rc1 == 0 else (-1, b"", "", None)
    back = open(base + ".d", "rb").read() if os.path.exists(base + ".d") else b""
    want = ref(m) if ref else None
    evs = [{"e": "CliRoundTrip", "f": "cli:" + mode, "n": n, "rc1": 1 if rc1 == 0 else -1, "rc2": 1 if rc2 == 0 else -1, "midlen": len(ct), "expectmid": len(want) if want is not None else len(ct),
            "outlen": len(back), "same": 1 if back == m else 0, "refsame": 1 if (want is None or ct == want) else 0, "stderr": (e1 + e2)[-300:]}]
    san = san1 or san2
    if auth and tamper and rc1 == 0 and ct:
        for what, pos in (("first", 0), ("middle", len(ct) // 2), ("tag", len(ct) - 1)) + ((("block2", 4096 + 5),) if len(ct) > 4200 else ()):
            x = bytearray(ct); x[pos] ^= 0x20
            open(base + ".t", "wb").write(bytes(x))
            if os.path.exists(base + ".td"): os.remove(base + ".td")
            rc3, _, e3, san3 = run(exe, [mode] + dec + ["-in", base + ".t", "-out", base + ".td"])
            # (a streaming tool has written the plaintext of earlier chunks before it can know the tag: what counts is the exit status)
            evs.append({"e": "CliTamper", "f": "cli:" + mode, "n": n, "what": what, "rc": 1 if rc3 == 0 else -1, "outlen": 0})
            san = san or san3
    for suffix in (".m", ".c", ".d", ".t", ".td"):
        if os.path.exists(base + suffix): os.remove(base + suffix)
    return evs, san


def sweep(c, prop, which, sizes, tag):
    """run the tools in `which` over `sizes` in parallel; returns [(key, events)] and reports sanitizer findings as violations of `prop`."""
    import concurrent.futures as cf
    exe = vlib.build_cli("asan")
    wd = os.path.join(vlib.BUILD, "cli_" + tag)
    jobs = [(mode, n) for mode in which for n in sizes if not (mode == "sm4_ecb" and n % 16)]
    out = []
    with cf.ThreadPoolExecutor(14) as ex:
        for (mode, n), (evs, san) in zip(jobs, ex.map(lambda j: roundtrip(exe, wd, j[0], j[1]), jobs)):
            key = "%s:cli:%s:len%d" % (prop.lower(), mode, n)
            c.count(1, key)
            if san:
                c.violation(key + ":crash", "the command line tool crashed or tripped a sanitizer: %s" % str(san)[:400], {"mode": mode, "n": n, "report": str(san)[:3000]})
                continue
            out.append((key, evs))
    return out
