"""The command line tools (tools/*.c, `gmssl <command>`) driven as a user drives them: files in, files out.  The tools are the documented way to use the
streaming interfaces, and they add their own buffering on top of the library (4096-byte reads, shared in/out buffers) -- sizes around multiples of that
buffer are where they differ from the one-shot calls the drivers make.  Every run is an execution whose events are judged by CryptoTrace.tla."""
import os, sys, subprocess, hashlib
sys.path.insert(0, os.path.join(os.path.dirname(os.path.abspath(__file__)), "..", "ref"))
import vlib
import constructions as K

T = K.Tab()
KEY = bytes.fromhex("00112233445566778899aabbccddeeff")
KEY2 = bytes.fromhex("0f1e2d3c4b5a69788796a5b4c3d2e1f0")
MACKEY = bytes(range(0x40, 0x60))
IV16 = bytes.fromhex("000102030405060708090a0b0c0d0e0f")
IV12 = IV16[:12]
AAD = b"header-of-the-file"


def run(exe, args, timeout=120):
    env = dict(os.environ, ASAN_OPTIONS="detect_leaks=0:abort_on_error=0", UBSAN_OPTIONS="print_stacktrace=1")
    try:
        r = subprocess.run([exe] + args, stdout=subprocess.PIPE, stderr=subprocess.PIPE, timeout=timeout, env=env)
    except subprocess.TimeoutExpired:
        return -99, b"", b"timeout", "timeout after %ds" % timeout
    err = r.stderr.decode(errors="replace")
    san = err[-1500:] if ("Sanitizer" in err or "runtime error" in err) else (("signal %d" % -r.returncode) if r.returncode < 0 else None)
    return r.returncode, r.stdout, err, san


def msg(n, salt):
    out = b""; i = 0
    while len(out) < n:
        out += hashlib.sha256(b"%d:%d" % (salt, i)).digest(); i += 1
    return out[:n]


# mode -> (encrypt args, decrypt args, reference(m) -> expected protected bytes or None, authenticated?)
def modes():
    hx = lambda b: b.hex()
    return {
        "sm4_ecb": (["-encrypt", "-key", hx(KEY)], ["-decrypt", "-key", hx(KEY)], lambda m: K.ecb_enc(T, "sm4", KEY, m) if len(m) % 16 == 0 else None, False),
        "sm4_cbc": (["-encrypt", "-key", hx(KEY), "-iv", hx(IV16)], ["-decrypt", "-key", hx(KEY), "-iv", hx(IV16)], lambda m: K.cbc_pad_enc(T, "sm4", KEY, IV16, m), False),
        "sm4_ctr": (["-encrypt", "-key", hx(KEY), "-iv", hx(IV16)], ["-decrypt", "-key", hx(KEY), "-iv", hx(IV16)], lambda m: K.ctr_enc(T, "sm4", KEY, IV16, m), False),
        "sm4_ofb": (["-encrypt", "-key", hx(KEY), "-iv", hx(IV16)], ["-decrypt", "-key", hx(KEY), "-iv", hx(IV16)], lambda m: K.ofb_enc(T, "sm4", KEY, IV16, m), False),
        "sm4_cfb": (["-encrypt", "-sbytes", "16", "-key", hx(KEY), "-iv", hx(IV16)], ["-decrypt", "-sbytes", "16", "-key", hx(KEY), "-iv", hx(IV16)], lambda m: K.cfb(T, "sm4", KEY, IV16, 16, m, True), False),
        "sm4_gcm": (["-encrypt", "-key", hx(KEY), "-iv", hx(IV12), "-aad_hex", hx(AAD)], ["-decrypt", "-key", hx(KEY), "-iv", hx(IV12), "-aad_hex", hx(AAD)],
                    lambda m: b"".join(K.gcm_enc(T, "sm4", KEY, IV12, AAD, m, 16)), True),
        "sm4_cbc_sm3_hmac": (["-encrypt", "-key", hx(KEY + MACKEY), "-iv", hx(IV16), "-aad_hex", hx(AAD)], ["-decrypt", "-key", hx(KEY + MACKEY), "-iv", hx(IV16), "-aad_hex", hx(AAD)],
                             lambda m: K.cbc_hmac_enc(T, KEY, MACKEY, IV16, AAD, m), True),
        "sm4_ctr_sm3_hmac": (["-encrypt", "-key", hx(KEY + MACKEY), "-iv", hx(IV16), "-aad_hex", hx(AAD)], ["-decrypt", "-key", hx(KEY + MACKEY), "-iv", hx(IV16), "-aad_hex", hx(AAD)],
                             lambda m: K.ctr_hmac_enc(T, KEY, MACKEY, IV16, AAD, m), True),
        "zuc": (["-key", hx(KEY), "-iv", hx(IV16)], ["-key", hx(KEY), "-iv", hx(IV16)], None, False),
    }


def roundtrip(exe, wd, mode, n, salt=1, tamper=True):
    """one file of n bytes through `gmssl <mode>` both ways.  Returns (events, sanitizer report or None)."""
    enc, dec, ref, auth = modes()[mode]
    os.makedirs(wd, exist_ok=True)
    base = os.path.join(wd, "%s_%d" % (mode, n))
    m = msg(n, salt)
    open(base + ".m", "wb").write(m)
    for suffix in (".c", ".d", ".t", ".td"):
        if os.path.exists(base + suffix): os.remove(base + suffix)
    rc1, _, e1, san1 = run(exe, [mode] + enc + ["-in", base + ".m", "-out", base + ".c"])
    ct = open(base + ".c", "rb").read() if os.path.exists(base + ".c") else b""
    rc2, _, e2, san2 = run(exe, [mode] + dec + ["-in", base + ".c", "-out", base + ".d"]) if rc1 == 0 else (-1, b"", "", None)
    back = open(base + ".d", "rb").read() if os.path.exists(base + ".d") else b""
    want = ref(m) if ref else None
    evs = [{"e": "CliRoundTrip", "f": "cli:" + mode, "n": n, "rc1": 1 if rc1 == 0 else -1, "rc2": 1 if rc2 == 0 else -1, "midlen": len(ct), "expectmid": len(want) if want is not None else len(ct),
            "outlen": len(back), "same": 1 if back == m else 0, "refsame": 1 if (want is None or ct == want) else 0, "stderr": (e1 + e2)[-300:]}]
    san = san1 or san2
    if auth and tamper and rc1 == 0 and ct:
        for what, pos in (("first", 0), ("middle", len(ct) // 2), ("tag", len(ct) - 1)) + ((("block2", 4096 + 5),) if len(ct) > 4200 else ()):
            x = bytearray(ct); x[pos] ^= 0x20
            open(base + ".t", "wb").write(bytes(x))
            if os.path.exists(base + ".td"): os.remove(base + ".td")
            rc3, _, e3, san3 = run(exe, [mode] + dec + ["-in", base + ".t", "-out", base + ".td"])
            # (a streaming tool has written the plaintext of earlier chunks before it can know the tag: what counts is the exit status)
            evs.append({"e": "CliTamper", "f": "cli:" + mode, "n": n, "what": what, "rc": 1 if rc3 == 0 else -1, "outlen": 0})
            san = san or san3
    for suffix in (".m", ".c", ".d", ".t", ".td"):
        if os.path.exists(base + suffix): os.remove(base + suffix)
    return evs, san


def sweep(c, prop, which, sizes, tag):
    """run the tools in `which` over `sizes` in parallel; returns [(key, events)] and reports sanitizer findings as violations of `prop`."""
    import concurrent.futures as cf
    exe = vlib.build_cli("asan")
    wd = os.path.join(vlib.BUILD, "cli_" + tag)
    jobs = [(mode, n) for mode in which for n in sizes if not (mode == "sm4_ecb" and n % 16)]
    out = []
    with cf.ThreadPoolExecutor(14) as ex:
        for (mode, n), (evs, san) in zip(jobs, ex.map(lambda j: roundtrip(exe, wd, j[0], j[1]), jobs)):
            key = "%s:cli:%s:len%d" % (prop.lower(), mode, n)
            c.count(1, key)
            if san:
                c.violation(key + ":crash", "the command line tool crashed or tripped a sanitizer: %s" % str(san)[:400], {"mode": mode, "n": n, "report": str(san)[:3000]})
                continue
            out.append((key, evs))
    return out


# ---------------------------------------------------------------------------------------------------------------------------------
# public-key tools as a session (spec/Cli.tla): artefacts produced by one tool, opened by another under right and wrong circumstances
# ---------------------------------------------------------------------------------------------------------------------------------
class Session:
    def __init__(self, exe, wd):
        self.exe, self.wd, self.evs, self.san, self.nid = exe, wd, [], None, 0
        os.makedirs(wd, exist_ok=True)

    def p(self, name): return os.path.join(self.wd, name)

    def tool(self, args, timeout=120):
        rc, out, err, san = run(self.exe, args, timeout=timeout)
        self.san = self.san or san
        return rc, out, err

    def write(self, name, data):
        open(self.p(name), "wb").write(data); return self.p(name)

    def read(self, name):
        return open(self.p(name), "rb").read() if os.path.exists(self.p(name)) else b""

    def produce(self, tool, args, outname, admissible=True):
        if os.path.exists(self.p(outname)): os.remove(self.p(outname))
        rc, out, err = self.tool([tool] + args)
        self.nid += 1
        self.evs.append({"e": "CliProduce", "id": self.nid, "tool": tool, "admissible": 1 if admissible else 0, "rc": 0 if rc == 0 else (rc if rc > 0 else 1), "outlen": len(self.read(outname)), "stderr": err[-200:]})
        return self.nid if rc == 0 else None

    def open(self, src, tool, args, what, untouched=True, rightkey=True, rightid=True, rightmsg=True, outname=None, original=None):
        if outname and os.path.exists(self.p(outname)): os.remove(self.p(outname))
        rc, out, err = self.tool([tool] + args)
        same = 1 if (outname is None or self.read(outname) == original) else 0
        self.evs.append({"e": "CliOpen", "src": src, "tool": tool, "what": what, "untouched": int(untouched), "rightkey": int(rightkey), "rightid": int(rightid), "rightmsg": int(rightmsg),
                         "rc": 0 if rc == 0 else (rc if rc > 0 else 1), "same": same, "stderr": err[-200:]})


def flip(data, pos, mask=0x01):
    x = bytearray(data); x[pos % len(x)] ^= mask; return bytes(x)


def pem_der(pem):
    import base64, re
    m = re.search(rb"-----BEGIN ([^-]+)-----\s*(.*?)\s*-----END \1-----", pem, re.S)
    return base64.b64decode(re.sub(rb"\s", b"", m.group(2)))


def pem_flip(pem, frac, label=None):
    """the DER inside a PEM file with one bit changed at the given position (a fraction of its length, or an absolute offset; negative = from the end), re-encoded"""
    import base64, re
    m = re.search(rb"-----BEGIN ([^-]+)-----\s*(.*?)\s*-----END \1-----", pem, re.S)
    der = base64.b64decode(re.sub(rb"\s", b"", m.group(2)))
    der = flip(der, int(len(der) * frac) if isinstance(frac, float) else (frac if frac >= 0 else len(der) + frac), 0x04)
    b64 = base64.b64encode(der)
    body = b"\n".join(b64[i:i + 64] for i in range(0, len(b64), 64))
    return b"-----BEGIN " + m.group(1) + b"-----\n" + body + b"\n-----END " + m.group(1) + b"-----\n"


def sm2_session(exe, wd, sizes, salt, part="sign"):
    s = Session(exe, wd); P = "P@ss-%d" % salt
    s.tool(["sm2keygen", "-pass", P, "-out", s.p("k.pem"), "-pubout", s.p("p.pem")])
    s.tool(["sm2keygen", "-pass", P, "-out", s.p("k2.pem"), "-pubout", s.p("p2.pem")])
    for n in (sizes if part == "sign" else []):
        m = msg(n, salt); s.write("m", m)
        for idargs, idname in (([], "default"), (["-id", "alice@example"], "custom")):
            sid = s.produce("sm2sign", ["-key", s.p("k.pem"), "-pass", P] + idargs + ["-in", s.p("m"), "-out", s.p("sig")], "sig")
            if not sid: continue
            sig = s.read("sig")
            V = lambda what, mm=None, sg=None, pub="p.pem", ida=idargs, **kw: (s.write("m2", m if mm is None else mm), s.write("sig2", sig if sg is None else sg),
                                                                               s.open(sid, "sm2verify", ["-pubkey", s.p(pub)] + ida + ["-in", s.p("m2"), "-sig", s.p("sig2")], "%s:%s:len%d" % (what, idname, n), **kw))
            V("genuine")
            V("otherkey", pub="p2.pem", rightkey=False)
            V("otherid", ida=["-id", "bob@example"], rightid=False)
            if idargs: V("defaultid", ida=[], rightid=False)
            V("msg+1", mm=m + b"\x00", rightmsg=False)
            if n:
                V("msg-1", mm=m[:-1], rightmsg=False)
                V("msgflip-last", mm=flip(m, n - 1), rightmsg=False)
                V("msgflip-first", mm=flip(m, 0, 0x80), rightmsg=False)
                if n > 4096: V("msgflip-4096", mm=flip(m, 4096), rightmsg=False)
            for k in (4, len(sig) // 2, len(sig) - 1):
                V("sigflip%d" % k, sg=flip(sig, k), untouched=False)
            V("sigtrunc", sg=sig[:-1], untouched=False)
            if len(sig) < 72:             # (the tool reads at most the largest signature size: what follows 72 octets is not part of what it was given)
                V("sigext", sg=sig + b"\x00", untouched=False)
    if part == "sign":
        return s
    for n in (1, 16, 100, 254, 255):
        m = msg(n, salt + 7); s.write("m", m)
        cid = s.produce("sm2encrypt", ["-pubkey", s.p("p.pem"), "-in", s.p("m"), "-out", s.p("ct")], "ct")
        if not cid: continue
        ct = s.read("ct")
        D = lambda what, c=None, key="k.pem", **kw: (s.write("ct2", ct if c is None else c), s.open(cid, "sm2decrypt", ["-key", s.p(key), "-pass", P, "-in", s.p("ct2"), "-out", s.p("pt")], "%s:len%d" % (what, n), outname="pt", original=m, **kw))
        D("genuine"); D("otherkey", key="k2.pem", rightkey=False)
        for k in (5, len(ct) // 3, len(ct) - n - 3, len(ct) - 1):
            D("ctflip%d" % k, c=flip(ct, k), untouched=False)
        D("cttrunc", c=ct[:-1], untouched=False)
    for n in (256, 300, 5000):
        s.write("m", msg(n, salt)); s.produce("sm2encrypt", ["-pubkey", s.p("p.pem"), "-in", s.p("m"), "-out", s.p("ct")], "ct", admissible=False)
    return s


def sm9_session(exe, wd, sizes, salt):
    s = Session(exe, wd); P = "pw%d" % salt
    s.tool(["sm9setup", "-alg", "sm9sign", "-pass", P, "-out", s.p("sm.pem"), "-pubout", s.p("smp.pem")])
    s.tool(["sm9setup", "-alg", "sm9sign", "-pass", P, "-out", s.p("sm2.pem"), "-pubout", s.p("smp2.pem")])
    s.tool(["sm9keygen", "-alg", "sm9sign", "-in", s.p("sm.pem"), "-inpass", P, "-id", "Alice", "-out", s.p("sk.pem"), "-outpass", P])
    for n in sizes:
        m = msg(n, salt); s.write("m", m)
        sid = s.produce("sm9sign", ["-key", s.p("sk.pem"), "-pass", P, "-in", s.p("m"), "-out", s.p("sig")], "sig")
        if not sid: continue
        sig = s.read("sig")
        V = lambda what, mm=None, sg=None, mpk="smp.pem", ident="Alice", **kw: (s.write("m2", m if mm is None else mm), s.write("sig2", sig if sg is None else sg),
                                                                               s.open(sid, "sm9verify", ["-in", s.p("m2"), "-pubmaster", s.p(mpk), "-id", ident, "-sig", s.p("sig2")], "%s:len%d" % (what, n), **kw))
        V("genuine"); V("otherid", ident="Alicf", rightid=False); V("otherid-prefix", ident="Alic", rightid=False); V("othermaster", mpk="smp2.pem", rightkey=False)
        V("msg+1", mm=m + b"\x00", rightmsg=False)
        if n:
            V("msgflip-last", mm=flip(m, n - 1), rightmsg=False)
            if n > 4096: V("msgflip-4096", mm=flip(m, 4096), rightmsg=False)
        for k in (4, len(sig) // 2, len(sig) - 1):
            V("sigflip%d" % k, sg=flip(sig, k), untouched=False)
    s.tool(["sm9setup", "-alg", "sm9encrypt", "-pass", P, "-out", s.p("em.pem"), "-pubout", s.p("emp.pem")])
    s.tool(["sm9keygen", "-alg", "sm9encrypt", "-in", s.p("em.pem"), "-inpass", P, "-id", "Bob", "-out", s.p("ek.pem"), "-outpass", P])
    s.tool(["sm9keygen", "-alg", "sm9encrypt", "-in", s.p("em.pem"), "-inpass", P, "-id", "Carol", "-out", s.p("ek2.pem"), "-outpass", P])
    for n in (1, 32, 100, 255):
        m = msg(n, salt + 3); s.write("m", m)
        cid = s.produce("sm9encrypt", ["-pubmaster", s.p("emp.pem"), "-id", "Bob", "-in", s.p("m"), "-out", s.p("ct")], "ct")
        if not cid: continue
        ct = s.read("ct")
        D = lambda what, c=None, key="ek.pem", ident="Bob", **kw: (s.write("ct2", ct if c is None else c), s.open(cid, "sm9decrypt", ["-key", s.p(key), "-pass", P, "-id", ident, "-in", s.p("ct2"), "-out", s.p("pt")], "%s:len%d" % (what, n), outname="pt", original=m, **kw))
        D("genuine"); D("otherid", ident="Bobby", rightid=False); D("otherkey", key="ek2.pem", ident="Carol", rightkey=False)
        for k in (6, len(ct) // 2, len(ct) - 1):
            D("ctflip%d" % k, c=flip(ct, k), untouched=False)
    for n in (256, 257, 4096):
        s.write("m", msg(n, salt)); s.produce("sm9encrypt", ["-pubmaster", s.p("emp.pem"), "-id", "Bob", "-in", s.p("m"), "-out", s.p("ct")], "ct", admissible=False)
    return s


def pki(s, P):
    """root -> sub CA -> signing and encryption certificates, with the cert tools"""
    dn = ["-C", "CN", "-ST", "Beijing", "-L", "Haidian", "-O", "PKU", "-OU", "CS"]
    for k in ("rootkey", "cakey", "signkey", "enckey", "evilkey"):
        s.tool(["sm2keygen", "-pass", P, "-out", s.p(k + ".pem")])
    s.tool(["certgen"] + dn + ["-CN", "ROOTCA", "-days", "3650", "-key", s.p("rootkey.pem"), "-pass", P, "-out", s.p("root.pem"), "-key_usage", "keyCertSign", "-key_usage", "cRLSign", "-ca"])
    s.tool(["certgen"] + dn + ["-CN", "ROOTCA", "-days", "3650", "-key", s.p("evilkey.pem"), "-pass", P, "-out", s.p("evilroot.pem"), "-key_usage", "keyCertSign", "-key_usage", "cRLSign", "-ca"])
    s.tool(["reqgen"] + dn + ["-CN", "Sub CA", "-key", s.p("cakey.pem"), "-pass", P, "-out", s.p("careq.pem")])
    s.tool(["reqsign", "-in", s.p("careq.pem"), "-days", "365", "-key_usage", "keyCertSign", "-path_len_constraint", "0", "-cacert", s.p("root.pem"), "-key", s.p("rootkey.pem"), "-pass", P, "-out", s.p("ca.pem"), "-ca"])
    for nm, ku in (("sign", "digitalSignature"), ("enc", "keyEncipherment")):
        s.tool(["reqgen"] + dn + ["-CN", "localhost", "-key", s.p(nm + "key.pem"), "-pass", P, "-out", s.p(nm + "req.pem")])
        s.tool(["reqsign", "-in", s.p(nm + "req.pem"), "-days", "365", "-key_usage", ku, "-cacert", s.p("ca.pem"), "-key", s.p("cakey.pem"), "-pass", P, "-out", s.p(nm + "cert.pem")])
    return all(os.path.exists(s.p(f)) for f in ("root.pem", "ca.pem", "signcert.pem", "enccert.pem"))


def cms_session(exe, wd, sizes, salt):
    s = Session(exe, wd); P = "P@ssw0rd%d" % salt
    if not pki(s, P):
        raise RuntimeError("the certificate tools did not produce the test PKI in %s" % wd)
    for n in sizes:
        m = msg(n, salt); s.write("m", m)
        sid = s.produce("cmssign", ["-key", s.p("signkey.pem"), "-pass", P, "-cert", s.p("signcert.pem"), "-in", s.p("m"), "-out", s.p("s.pem")], "s.pem")
        if sid:
            pem = s.read("s.pem")
            V = lambda what, x=None, **kw: (s.write("s2.pem", pem if x is None else x), s.open(sid, "cmsverify", ["-in", s.p("s2.pem"), "-out", s.p("o")], "%s:len%d" % (what, n), outname="o", original=m, **kw))
            V("genuine")
            # what the signature covers and the signature itself (the certificates travelling with the message are not validated by cmsverify: no anchor is given)
            der = pem_der(pem); at = der.find(m[:16]) if n >= 16 else -1
            for off in ([at + 3, at + n // 2, at + n - 1] if at > 0 else []) + [-3, -20, -50]:
                V("flip@%d" % off, x=pem_flip(pem, off), untouched=False)
        if n:
            cid = s.produce("cmsencrypt", ["-rcptcert", s.p("enccert.pem"), "-in", s.p("m"), "-out", s.p("c.pem")], "c.pem")
            if cid:
                pem = s.read("c.pem")
                D = lambda what, x=None, key="enckey.pem", cert="enccert.pem", **kw: (s.write("c2.pem", pem if x is None else x),
                                                                                    s.open(cid, "cmsdecrypt", ["-key", s.p(key), "-pass", P, "-cert", s.p(cert), "-in", s.p("c2.pem"), "-out", s.p("d")], "%s:len%d" % (what, n), outname="d", original=m, **kw))
                D("genuine"); D("otherkey", key="signkey.pem", cert="signcert.pem", rightkey=False)
                for off in (60, 120, 180, 230):          # recipient identification and encrypted key (the content itself carries no integrity check: known finding of C16, not probed here)
                    D("flip@%d" % off, x=pem_flip(pem, off), untouched=False)
    return s


def chain_session(exe, wd, salt):
    s = Session(exe, wd); P = "P@ssw0rd%d" % salt
    if not pki(s, P):
        raise RuntimeError("the certificate tools did not produce the test PKI in %s" % wd)
    chain = s.read("signcert.pem") + s.read("ca.pem")
    s.nid += 1; s.evs.append({"e": "CliProduce", "id": s.nid, "tool": "reqsign", "admissible": 1, "rc": 0, "outlen": len(chain)})
    cid = s.nid
    V = lambda what, ch=None, ca="root.pem", **kw: (s.write("chain.pem", chain if ch is None else ch), s.open(cid, "certverify", ["-in", s.p("chain.pem"), "-cacert", s.p(ca)], what, **kw))
    V("genuine"); V("otherroot-samename", ca="evilroot.pem", rightkey=False); V("no-intermediate", ch=s.read("signcert.pem"), untouched=False)
    V("wrong-order", ch=s.read("ca.pem") + s.read("signcert.pem"), untouched=False)
    for fr in (0.1, 0.4, 0.6, 0.9, 0.99):
        V("leafflip@%.2f" % fr, ch=pem_flip(s.read("signcert.pem"), fr) + s.read("ca.pem"), untouched=False)
        V("caflip@%.2f" % fr, ch=s.read("signcert.pem") + pem_flip(s.read("ca.pem"), fr), untouched=False)
    V("enc-leaf-as-signer", ch=s.read("enccert.pem") + s.read("ca.pem"))          # a chain is a chain: certverify does not ask for a purpose
    # a certificate issued by an END-ENTITY certificate (no basicConstraints, keyUsage digitalSignature only): its issuer is not a CA
    dn = ["-C", "CN", "-ST", "Beijing", "-L", "Haidian", "-O", "PKU", "-OU", "CS"]
    s.tool(["sm2keygen", "-pass", P, "-out", s.p("l2key.pem")])
    s.tool(["reqgen"] + dn + ["-CN", "below-a-leaf", "-key", s.p("l2key.pem"), "-pass", P, "-out", s.p("l2req.pem")])
    s.tool(["reqsign", "-in", s.p("l2req.pem"), "-days", "30", "-key_usage", "digitalSignature", "-cacert", s.p("signcert.pem"), "-key", s.p("signkey.pem"), "-pass", P, "-out", s.p("l2cert.pem")])
    if s.read("l2cert.pem"):
        V("issuer-not-a-ca", ch=s.read("l2cert.pem") + s.read("signcert.pem") + s.read("ca.pem"), untouched=False)
    return s


def sessions(c, prop, which, tag, sizes):
    """run the named sessions, report sanitizer findings, return [(key, events)] for validation by Cli.tla"""
    import concurrent.futures as cf, shutil
    exe = vlib.build_cli("asan")
    wd = os.path.join(vlib.BUILD, "cli_" + tag)
    shutil.rmtree(wd, ignore_errors=True)
    fns = {"sm2sign": lambda d, k: sm2_session(exe, d, sizes, k, "sign"), "sm2enc": lambda d, k: sm2_session(exe, d, sizes, k, "enc"), "sm9": lambda d, k: sm9_session(exe, d, sizes, k), "cms": lambda d, k: cms_session(exe, d, sizes, k), "chain": lambda d, k: chain_session(exe, d, k), "digest": lambda d, k: digest_session(exe, d, sizes, k)}
    jobs = [(w, k) for w in which for k in (1, 2)]
    out = []
    with cf.ThreadPoolExecutor(8) as ex:
        for (w, k), s in zip(jobs, ex.map(lambda j: fns[j[0]](os.path.join(wd, "%s%d" % j), j[1]), jobs)):
            key = "%s:cli:%s-session:%d" % (prop.lower(), w, k)
            c.count(len(s.evs), key)
            if s.san:
                c.violation(key + ":crash", "a command line tool crashed or tripped a sanitizer: %s" % str(s.san)[:400], {"report": str(s.san)[:3000]})
            out.append((key, s.evs))
    shutil.rmtree(wd, ignore_errors=True)
    return out


def judge_sessions(c, runs, tag):
    rej, states = vlib.validate("Cli", [evs for _, evs in runs], tag=tag + "clis", timeout=900)
    c.cov["cli_session_events"] = c.cov.get("cli_session_events", 0) + sum(len(e) for _, e in runs)
    c.cov["traces_validated_against_impl"] = c.cov.get("traces_validated_against_impl", 0) + len(runs)
    for i, j, ev in rej:
        key, evs = runs[i]
        if ev.get("e") == "CliDigest":
            what = "`gmssl %s` (%s) printed %s, the reference construction gives %s (exit status %s)" % (ev.get("tool"), ev.get("what"), str(ev.get("got"))[:70], str(ev.get("expect"))[:70], ev.get("rc"))
        elif ev.get("e") == "CliProduce":
            what = "`gmssl %s` exited with status %s for %s input (output %d bytes)" % (ev.get("tool"), ev.get("rc"), "admissible" if ev.get("admissible") else "inadmissible", ev.get("outlen", -1))
        else:
            facts = [k for k in ("untouched", "rightkey", "rightid", "rightmsg") if not ev.get(k)]
            what = "`gmssl %s` (%s) exited with status %s although %s%s" % (ev.get("tool"), ev.get("what"), ev.get("rc"), ("everything offered was genuine" if not facts else "not " + ", not ".join(facts)),
                                                                          "" if ev.get("same") else "; the content given back differs from the original")
        c.violation("%s:%s" % (key, ev.get("what", ev.get("tool"))), what, {"event": ev, "events_before": evs[max(0, j - 3):j]})


def digest_session(exe, wd, sizes, salt):
    """sm3 / sm3hmac / sm3_pbkdf2 tools against ref/: files of sizes around the padding and the tools' buffer boundaries"""
    import sm3ref
    s = Session(exe, wd)
    def D(tool, args, what, expect):
        rc, out, err = s.tool([tool] + args)
        s.evs.append({"e": "CliDigest", "tool": tool, "what": what, "rc": 0 if rc == 0 else 1, "got": out.decode(errors="replace").strip().lower(), "expect": expect, "stderr": err[-200:]})
    for n in sizes:
        m = msg(n, salt); s.write("m", m)
        D("sm3", ["-in", s.p("m")], "sm3:len%d" % n, sm3ref.sm3(m).hex())
        for kl in (16, 32):
            k = msg(kl, salt + 50 + kl)
            D("sm3hmac", ["-key", k.hex(), "-in", s.p("m")], "sm3hmac:key%d:len%d" % (kl, n), K.hmac(T, "sm3", k, m).hex())
    D("sm3", ["-in_str", "abc"], "sm3:in_str", sm3ref.sm3(b"abc").hex())
    def pbkdf2(pw, sl, it, ol):        # (the tool's minimum is 10000 iterations: OpenSSL's SM3 through hashlib where present, else the project's own reference)
        try:
            return hashlib.pbkdf2_hmac("sm3", pw, sl, it, ol)
        except Exception:
            return K.pbkdf2(T, "sm3", pw, sl, it, ol)
    for pw, sl, it, ol in (("password", 8, 10000, 32), ("P@ssw0rd", 16, 10001, 16), ("x", 64, 10000, 48), ("a-longer-pass-phrase-than-one-block-of-sm3-which-is-64-bytes-long!!", 8, 10000, 64), ("pw", 9, 10000, 33)):
        saltb = msg(sl, salt + 90)
        D("sm3_pbkdf2", ["-pass", pw, "-salt", saltb.hex(), "-iter", str(it), "-outlen", str(ol), "-hex"], "pbkdf2:%s:salt%d:iter%d:out%d" % (pw[:8], sl, it, ol), pbkdf2(pw.encode(), saltb, it, ol).hex())
    return s
