"""Shared machinery for the crypto trace checks (C03 C04 C05 C11-api): script writing, driver runs, table annotation."""
import os, sys, json
sys.path.insert(0, os.path.dirname(os.path.abspath(__file__)))
sys.path.insert(0, os.path.join(os.path.dirname(os.path.abspath(__file__)), "..", "ref"))
import vlib
import constructions as K


def hx(b):
    return bytes(b).hex() if len(b) else "-"


def tlc_chunkings(kind="md"):
    """Behaviour generation: every chunking the Stream model produces for a full-length message (abstract chunk lengths)."""
    r = vlib.tlc("Stream", "Stream_gen_" + kind, workers=1, timeout=300)
    out = [vlib.parse_tla_value(p)[1] for p in r["prints"] if p.startswith('<<"CHUNKS"')]
    if not out or r["errors"]:
        raise RuntimeError("behaviour generation from Stream.tla failed: %s" % r["errors"][:2])
    return out, r


def scale(chunks, B):
    """abstract chunk length class (model block size 3) -> real length for block size B"""
    m = {0: 0, 1: 1, 2: B - 1, 3: B, 4: B + 1, 5: 2 * B - 1, 6: 2 * B, 7: 2 * B + 1}
    return [m[c] for c in chunks]


def run_script(driver, sources, lines, variant="asan", procs=None, tag="cr", timeout=900, env=None):
    """Run script lines (list of dict) through a driver in parallel; returns list of (case dict, events, sanitizer) in input order."""
    import concurrent.futures as cf
    exe = vlib.cc_driver(driver, sources, variant)
    procs = procs or min(vlib.NCPU, max(1, len(lines) // 50))
    idx = [list(range(k, len(lines), procs)) for k in range(procs)]
    td = os.path.join(vlib.BUILD, "traces")
    os.makedirs(td, exist_ok=True)

    def run(k):
        todo = idx[k]
        res = {}
        attempt = 0
        while todo and attempt < 100:
            attempt += 1
            sf = os.path.join(td, "%s_%d_%d_%d.scr" % (tag, os.getpid(), k, attempt))
            tf = os.path.join(td, "%s_%d_%d_%d.raw" % (tag, os.getpid(), k, attempt))
            with open(sf, "w") as f:
                for i in todo:
                    f.write(" ".join("%s=%s" % kv for kv in lines[i].items()) + "\n")
            rc, out, err, san = vlib.run_driver(exe, [sf, tf], timeout=timeout, env=env)
            evs = vlib.read_ndjson(tf) if os.path.exists(tf) else []
            per = [[]]
            for e in evs:
                if e.get("e") == "Reset":
                    per.append([])
                else:
                    per[-1].append(e)
            done = len(per) - 1          # complete executions
            for j in range(done):
                res[todo[j]] = (per[j], None)
            for p in (sf, tf):
                try:
                    os.unlink(p)
                except OSError:
                    pass
            if done < len(todo):
                # the process died inside case todo[done]
                res[todo[done]] = (per[done] if done < len(per) else [], san or "driver ended rc=%s: %s" % (rc, err[-300:]))
                todo = todo[done + 1:]
            else:
                todo = []
        return res

    allres = {}
    with cf.ThreadPoolExecutor(procs) as ex:
        for r in ex.map(run, range(procs)):
            allres.update(r)
    return [(lines[i],) + allres.get(i, ([], "not run")) for i in range(len(lines))]


def B(x):
    return bytes(x)


def table_for(ev, fed):
    """Run the reference construction for the operation described by event `ev` on input `fed`; return the primitive table."""
    t = K.Tab()
    f = ev["f"]
    g = lambda k: bytes(ev.get(k, []))
    c = ev.get("c", "sm4")
    if f == "hash":
        K.hashn(t, ev["alg"], fed)
    elif f == "hmac":
        K.hmac(t, ev["alg"], g("key"), fed)
    elif f == "sm3kdf":
        K.counter_kdf(t, "sm3", fed, ev["outlen"])
    elif f == "sm2kdf":
        K.counter_kdf(t, "sm3", g("z"), ev["outlen"])
    elif f == "pbkdf2":
        K.pbkdf2(t, ev["alg"], g("pass"), g("salt"), ev["iter"], ev["outlen"])
    elif f == "hkdf_extract":
        K.hkdf_extract(t, ev["alg"], g("salt"), g("ikm"))
    elif f == "hkdf_expand":
        K.hkdf_expand(t, ev["alg"], g("prk"), g("info"), ev["outlen"])
    elif f == "ecb_enc":
        K.ecb_enc(t, c, g("key"), fed)
    elif f == "ecb_dec":
        K.ecb_dec(t, c, g("key"), fed)
    elif f == "cbc_enc":
        K.cbc_pad_enc(t, c, g("key"), g("iv"), fed)
    elif f == "cbc_dec":
        K.cbc_pad_dec(t, c, g("key"), g("iv"), fed)
    elif f == "cbc_enc_blocks":
        K.cbc_enc(t, c, g("key"), g("iv"), fed)
    elif f == "cbc_dec_blocks":
        K.cbc_dec(t, c, g("key"), g("iv"), fed)
    elif f == "ctr":
        K.ctr_enc(t, c, g("key"), g("iv"), fed)
    elif f == "ctr32":
        K.ctr32_enc(t, c, g("key"), g("iv"), fed)
    elif f == "ofb":
        K.ofb_enc(t, c, g("key"), g("iv"), fed)
    elif f in ("cfb_enc", "cfb_dec"):
        K.cfb(t, c, g("key"), g("iv"), ev["s"], fed, f == "cfb_enc")
    elif f in ("xts_enc", "xts_dec"):
        if len(fed) >= 16:
            K.xts(t, c, g("key")[:16], g("key")[16:], g("iv"), fed, f == "xts_enc")
    elif f in ("xts_units_enc", "xts_units_dec"):
        u = ev["unit"]
        if len(fed) % u == 0:
            iv = g("iv")
            for j in range(len(fed) // u):
                tw = (int.from_bytes(iv, "little") + j) % (1 << 128)
                K.xts(t, c, g("key")[:16], g("key")[16:], tw.to_bytes(16, "little"), fed[u * j:u * j + u], f == "xts_units_enc")
    elif f == "cbc_mac":
        K.cbc_mac(t, c, g("key"), fed)
    elif f == "gcm_enc":
        K.gcm_enc(t, c, g("key"), g("iv"), g("aad"), fed, ev["taglen"])
    elif f == "gcm_dec":
        tl = ev["taglen"]
        if len(fed) >= tl:
            K.gcm_dec(t, c, g("key"), g("iv"), g("aad"), fed[:len(fed) - tl], fed[len(fed) - tl:])
    elif f == "ccm_enc":
        K.ccm_enc(t, c, g("key"), g("iv"), g("aad"), fed, ev["taglen"])
    elif f == "ccm_dec":
        tl = ev["taglen"]
        if len(fed) >= tl:
            K.ccm_dec(t, c, g("key"), g("iv"), g("aad"), fed[:len(fed) - tl], fed[len(fed) - tl:])
    elif f == "cbc_hmac_enc":
        K.cbc_hmac_enc(t, g("key"), g("mackey"), g("iv"), g("aad"), fed)
    elif f == "cbc_hmac_dec":
        K.cbc_hmac_dec(t, g("key"), g("mackey"), g("iv"), g("aad"), fed)
    elif f == "ctr_hmac_enc":
        K.ctr_hmac_enc(t, g("key"), g("mackey"), g("iv"), g("aad"), fed)
    elif f == "ctr_hmac_dec":
        K.ctr_hmac_dec(t, g("key"), g("mackey"), g("iv"), g("aad"), fed)
    elif f == "tls_cbc_enc":
        K.tls_cbc_body(t, g("mackey"), g("key"), g("seq"), g("hdr3"), g("iv"), fed)
    elif f == "tls_cbc_dec":
        K.tls_cbc_open(t, g("mackey"), g("key"), g("seq"), g("hdr3"), fed)
    elif f == "tls13_enc":
        K.tls13_body(t, g("key"), g("iv"), g("seq"), ev["type"], fed, ev["padlen"])
    elif f == "tls13_dec":
        K.tls13_open(t, g("key"), g("iv"), g("seq"), fed)
    elif f in ("zuc_ks", "zuc256_ks", "zuc_enc", "eea3", "eia3", "zuc_mac", "zuc256_mac", "chacha20_ks"):
        import zucref, chacharef
        ksb = lambda words: b"".join(w.to_bytes(4, "big") for w in words)
        key, iv = g("key"), g("iv")
        nbits = ev.get("nbits", 0)
        if f == "zuc_ks":
            t._rec("zuc", key + iv, ksb(zucref.zuc_keystream(key, iv, ev["nwords"] + 2)))
        elif f == "zuc256_ks":
            t._rec("zuc256", key + iv, ksb(zucref.zuc256_keystream(key, iv, ev["nwords"] + 2)))
        elif f == "zuc_enc":
            t._rec("zuc", key + iv, ksb(zucref.zuc_keystream(key, iv, len(fed) // 4 + 3)))
        elif f in ("eea3", "eia3"):
            c4 = bytes(ev["count4"]); b5, d = ev["bearer"], ev["dir"]
            if f == "eea3":
                h = c4 + bytes([(b5 << 3) | (d << 2), 0, 0, 0]); iv2 = h + h
                t._rec("zuc", key + iv2, ksb(zucref.zuc_keystream(key, iv2, len(fed) // 4 + 3)))
            else:
                h = bytearray(2 * (c4 + bytes([b5 << 3, 0, 0, 0]))); h[8] ^= d << 7; h[14] ^= d << 7
                t._rec("zuc", key + bytes(h), ksb(zucref.zuc_keystream(key, bytes(h), (nbits + 31) // 32 + 5)))
        elif f == "zuc_mac":
            t._rec("zuc", key + iv, ksb(zucref.zuc_keystream(key, iv, (nbits + 31) // 32 + 5)))
        elif f == "zuc256_mac":
            mb = ev["macbits"]
            t._rec("zuc256mac%d" % mb, key + iv, ksb(zucref.zuc256_mac_keystream(key, iv, mb, (nbits + 2 * mb + 31) // 32 + 3)))
        else:
            ctr = int.from_bytes(g("counter"), "little")
            for i in range(ev["nwords"]):
                cc = (ctr + i) & 0xffffffff
                t._rec("chacha", key + cc.to_bytes(4, "little") + iv, chacharef.chacha20_block(key, cc, iv))
    else:
        raise RuntimeError("no reference construction for f=%s" % f)
    return t.json()


def annotate(events):
    """Attach the primitive table to the Init / Call event of one execution."""
    if not events:
        return events
    head = events[0]
    if "count" in head and "count4" not in head:                 # 32-bit value: TLC integers are signed 32-bit
        head["count4"] = list(int(head.pop("count")).to_bytes(4, "big"))
    if head["e"] == "Call":
        head["T"] = table_for(head, bytes(head.get("in", [])))
    elif head["e"] == "Init":
        fed = b"".join(bytes(e["in"]) for e in events if e["e"] == "Update" and (e.get("rc") == 1 or len(e["in"])))
        fed += b"".join(bytes(e.get("rest", [])) for e in events if e["e"] == "Finish")
        head["T"] = table_for(head, fed)
    return events


def cancelling(tag):
    """modifications of an integrity value that a sloppy comparison does not see although a single-bit flip it does: differences that cancel in a byte sum
    (0x80 in two bytes, 0x40 in four), in an XOR fold (the same mask in two bytes), in any order-insensitive compare (two bytes swapped), and beyond the
    first 4 / 8 / 16 bytes.  Returns [(name, modified)]; entries equal to the original are left out."""
    t = bytes(tag); n = len(t); out = []

    def mod(name, edits):
        x = bytearray(t)
        for i, m in edits:
            if i < n:
                x[i] ^= m
        if bytes(x) != t:
            out.append((name, bytes(x)))
    if n >= 2:
        for i, j in ((0, 1), (0, n - 1), (n // 2 - 1, n // 2), (n - 2, n - 1)):
            if i != j:
                mod("x80@%d,%d" % (i, j), [(i, 0x80), (j, 0x80)])
                mod("x01@%d,%d" % (i, j), [(i, 0x01), (j, 0x01)])
                mod("x5a@%d,%d" % (i, j), [(i, 0x5a), (j, 0x5a)])
    if n >= 4:
        mod("x40@0..3", [(k, 0x40) for k in range(4)])
        mod("x40@last4", [(n - 1 - k, 0x40) for k in range(4)])
    for i, j in ((0, 1), (0, n - 1), (n // 2, n - 1)):
        if i < j < n and t[i] != t[j]:
            x = bytearray(t); x[i], x[j] = x[j], x[i]; out.append(("swap@%d,%d" % (i, j), bytes(x)))
    for k in (4, 8, 12, 16, n - 1):
        if 0 < k < n:
            mod("tail-from-%d" % k, [(q, 0xff) for q in range(k, n)])
            mod("byte%d" % k, [(k, 0x01)])
    seen, uniq = set(), []
    for nm, v in out:
        if v not in seen:
            seen.add(v); uniq.append((nm, v))
    return uniq
