"""A TLCP / TLS 1.2 *client that is not the library*: written from the protocol definitions over the project's reference primitives
(ref/sm2ref.py, sm3ref.py, sm4ref.py, constructions.py).  It can follow the protocol honestly or deviate from it in the ways only a
hostile peer can (empty Certificate list, no CertificateVerify, CertificateVerify under another key or over a stale transcript ...),
while still computing a correct Finished -- so the library server's own checks are the only thing between it and a completed handshake.
Used by checks/c09.py against harness/srvdrv.c (the library server on an inherited socket)."""
import os, socket, subprocess, sys, json, hashlib
sys.path.insert(0, os.path.join(os.path.dirname(os.path.abspath(__file__)), "..", "ref"))
import sm2ref, sm3ref, constructions as K, derw
import mutlib

T = K.Tab()


def sm3(b): return sm3ref.sm3(bytes(b))
def prf(secret, label, seed, n): return K.tls_prf(T, "sm3", secret, label, seed, n)
def u16(n): return n.to_bytes(2, "big")
def u24(n): return n.to_bytes(3, "big")
def hs(t, body): return bytes([t]) + u24(len(body)) + body

# A key-holding peer can put ANY bytes into a handshake message, also behind the record protection.  MUT = (handshake type, edit program):
# the message of that type is built honestly, edited (vector tree when it is a hello / certificate / extensions message, bytes otherwise) and sent.
def maybe_mutate(MUT, t, m):
    if MUT is None or MUT[0] != t:
        return m
    rec = b"\x16\x03\x03" + u16(len(m)) + m
    out = mutlib.apply_tls(rec, MUT[1]) if len(m) < 16000 else None
    if out is not None and len(out) > 5:
        return out[5:]
    out = mutlib.apply_bytes(m, MUT[1])
    return out if out else m


class Peer:
    def __init__(self, sock, version, mut=None):
        self.s, self.ver, self.mut = sock, version, mut
        self.transcript = b""
        self.wseq = self.rseq = 0
        self.keys = None
        self.enc_out = self.enc_in = False

    def send_record(self, rtype, payload):
        hdr3 = bytes([rtype]) + self.ver
        if self.enc_out:
            mk, k = self.keys["cmac"], self.keys["ckey"]
            body = K.tls_cbc_body(T, mk, k, self.wseq.to_bytes(8, "big"), hdr3, bytes(range(16)), payload)
            if payload.startswith(BAD_MARK):            # a record whose integrity check cannot succeed: one ciphertext bit in the block that carries MAC octets
                body = body[:len(body) - 20] + bytes([body[len(body) - 20] ^ 0x10]) + body[len(body) - 19:]
            self.wseq += 1
        else:
            body = payload
        self.s.sendall(hdr3 + u16(len(body)) + body)

    def send_hs(self, t, body):
        m = maybe_mutate(self.mut, t, hs(t, body))[:16384]
        self.transcript += m
        self.send_record(22, m)

    def recv_exact(self, n):
        b = b""
        while len(b) < n:
            c = self.s.recv(n - len(b))
            if not c:
                return None
            b += c
        return b

    def recv_record(self):
        h = self.recv_exact(5)
        if not h:
            return None
        body = self.recv_exact(int.from_bytes(h[3:5], "big"))
        if body is None:
            return None
        if self.enc_in and h[0] != 21 or (self.enc_in and h[0] == 21 and len(body) > 2):
            pt = K.tls_cbc_open(T, self.keys["smac"], self.keys["skey"], self.rseq.to_bytes(8, "big"), h[:3], body)
            self.rseq += 1
            return h[0], pt
        return h[0], body


def spki_point(cert_der):
    """public key point of a certificate (uncompressed BIT STRING of 66 bytes)"""
    for n, _, _ in mutlib.preorder(mutlib.parse(cert_der)):
        if n.tag == 3 and n.kids is None and len(n.val) == 66 and n.val[:2] == b"\x00\x04":
            return (int.from_bytes(n.val[2:34], "big"), int.from_bytes(n.val[34:66], "big"))
    raise ValueError("no SM2 public key in certificate")


def split_certs(der):
    out, off = [], 0
    while off < len(der):
        t, v, nxt = derw.read_tlv(der, off)
        out.append(der[off:nxt]); off = nxt
    return out


BAD_MARK = b"not-authentic:"                         # payload prefix of a record that is sent with a broken MAC / tag (post_hs_badmac)
POST_MARK = bytes((i * 29 + 101) & 255 for i in range(48))          # recognisable plaintext of the post-handshake records below (C19 searches fd 1/2 for it)


def wrong_finished(deviation, vd):
    """verify_data that is not the right one: one bit off, or off in a way that cancels in a byte sum / XOR fold / order-insensitive / shortened comparison"""
    if deviation == "finished_wrong": return bytes([vd[0] ^ 1]) + vd[1:]
    if deviation == "finished_x80x2": return bytes([vd[0] ^ 0x80, vd[1] ^ 0x80]) + vd[2:]
    if deviation == "finished_swap": return (vd[1:2] + vd[0:1] + vd[2:]) if vd[0] != vd[1] else bytes([vd[0] ^ 0x5a, vd[1] ^ 0x5a]) + vd[2:]
    if deviation == "finished_tail": return vd[:8] + bytes(b ^ 0xff for b in vd[8:])
    return vd


def degenerate_sig(deviation, sig):
    """a possession proof that proves nothing: the signature field empty, a well-formed SEQUENCE of two zero INTEGERs, the genuine one cut to its first half"""
    if "sig_empty" in deviation: return b""
    if "sig_zero" in deviation: return derw.seq(derw.dint(0), derw.dint(0))
    if "sig_half" in deviation: return sig[:len(sig) // 2]
    return sig


def post_list(deviation):
    """the records a peer sends right after the handshake when asked to (before its ordinary application data)"""
    if deviation == "post_hs_data_then_badmac":       # genuine application data, then a record whose MAC / tag does not verify
        return [(23, b"early"), post_hs("post_hs_badmac")]
    r = post_hs(deviation)
    return [r] if r else []


def post_hs(deviation):
    """(record / inner content type, payload) a peer sends right after the handshake when asked to: a protected record that is NOT application data"""
    if deviation == "post_hs_handshake":
        return 22, b"\x04" + u24(4 + 4 + 1 + 2 + len(POST_MARK) + 2) + bytes(4) + bytes(4) + b"\x00" + u16(len(POST_MARK)) + POST_MARK + u16(0)     # NewSessionTicket-shaped
    if deviation == "post_hs_ccs":
        return 20, b"\x01" + POST_MARK
    if deviation == "post_hs_unknown":
        return 99, POST_MARK
    if deviation == "post_hs_zero":           # TLS 1.3: a TLSInnerPlaintext with no content and no content type (one zero octet); elsewhere: record type 0
        return 0, b""
    if deviation == "post_hs_zero16":
        return 0, bytes(16)
    if deviation == "post_hs_badmac":         # application data whose MAC / tag does not verify (what an on-path change of a record looks like to the receiver)
        return 23, BAD_MARK + POST_MARK
    if deviation == "post_hs_alert1":         # an alert record that is not two octets long
        return 21, b"\x02"
    if deviation == "post_hs_alert3":
        return 21, b"\x01\x00\x00"
    if deviation == "post_hs_alert_warn":     # a well-formed alert that is not close_notify
        return 21, b"\x01\x5a"
    if deviation == "post_hs_empty_data":     # application data of length zero
        return 23, b""
    return None


def tlcp_client(sock, deviation, client_chain=b"", client_d=0, other_d=12345, proto=257, mut=None):
    """TLCP (ECC_SM4_CBC_SM3: the pre-master secret travels under the server's encryption certificate) or TLS 1.2 (ECDHE_SM4_CBC_SM3) client.
    returns dict(completed=bool, server_finished_ok=bool, alert=...)"""
    tlcp = proto == 257
    ver = b"\x01\x01" if tlcp else b"\x03\x03"
    p = Peer(sock, ver, mut)
    crandom = bytes((i * 7 + 3) & 255 for i in range(32))
    p.send_hs(1, ver + crandom + b"\x00" + u16(2) + (b"\xe0\x13" if tlcp else b"\xe0\x11") + b"\x01\x00")
    ske = None
    srandom, certs, creq = None, [], False
    while True:
        r = p.recv_record()
        if r is None:
            return {"completed": False, "why": "closed during server flight"}
        rt, body = r
        if rt == 21:
            return {"completed": False, "alert": list(body)}
        if rt != 22:
            return {"completed": False, "why": "unexpected record %d" % rt}
        p.transcript += body
        t = body[0]; b = body[4:]
        if t == 2:
            srandom = b[2:34]
        elif t == 11:
            lst = b[3:]; off = 0
            while off < len(lst):
                n = int.from_bytes(lst[off:off + 3], "big"); certs.append(lst[off + 3:off + 3 + n]); off += 3 + n
        elif t == 12:
            ske = b
        elif t == 13:
            creq = True
        elif t == 14:
            break
    if tlcp:
        encP = spki_point(certs[1])
        pms = b"\x01\x01" + bytes((i * 5 + 1) & 255 for i in range(46))
    else:
        # ServerKeyExchange: curve_type(1) named_curve(2) point<1> sig_alg(2) signature<2>
        pl = ske[3]; sx = int.from_bytes(ske[5:37], "big"); sy = int.from_bytes(ske[37:69], "big")
        assert pl == 65 and ske[4] == 4
        ce = 0x4242424242424242424242424242424242424242424242424242424242424242 % sm2ref.n
        cP = sm2ref.mul(ce, sm2ref.G)
        pms = sm2ref.i2b(sm2ref.mul(ce, (sx, sy))[0])
    master = prf(pms, b"master secret", crandom + srandom, 48)
    kb = prf(master, b"key expansion", srandom + crandom, 96)
    p.keys = {"cmac": kb[0:32], "smac": kb[32:64], "ckey": kb[64:80], "skey": kb[80:96]}
    chain = split_certs(client_chain) if client_chain else []
    send_cert = deviation not in ("no_cert_msg",)
    if creq and send_cert:
        lst = b"" if deviation.startswith("empty_cert") else b"".join(u24(len(c)) + c for c in chain)
        p.send_hs(11, u24(len(lst)) + lst)
    pre_cke = p.transcript
    if deviation == "ccs_early":            # ChangeCipherSpec before the key exchange
        p.send_record(20, b"\x01")
    if tlcp:
        C1, C2, C3 = sm2ref.encrypt(encP, pms, 0x1234567890abcdef1234567890abcdef)
        ct = derw.seq(derw.dint(C1[0]), derw.dint(C1[1]), derw.doctets(C3), derw.doctets(C2))
        p.send_hs(16, u16(len(ct)) + ct)
    else:
        p.send_hs(16, bytes([65]) + b"\x04" + sm2ref.i2b(cP[0]) + sm2ref.i2b(cP[1]))
    if creq and deviation in ("honest", "cv_wrong_key", "cv_stale_transcript", "empty_cert_with_cv", "cv_sig_empty", "cv_sig_zero", "cv_sig_half"):
        d = client_d if deviation in ("honest", "cv_stale_transcript") or deviation.startswith("cv_sig_") else other_d
        P = sm2ref.mul(d, sm2ref.G)
        tr = pre_cke if deviation == "cv_stale_transcript" else p.transcript
        # TLCP signs the SM3 hash of the handshake messages, TLS 1.2 the messages themselves (both through SM2 with Z)
        r_, s_ = sm2ref.sign(d, P, sm3(tr) if tlcp else tr, 0x3333333333333333333333333333333333333333)
        sig = degenerate_sig(deviation, derw.seq(derw.dint(r_), derw.dint(s_)))
        p.send_hs(15, u16(len(sig)) + sig)
    if deviation != "no_ccs":
        p.send_record(20, b"\x01")
    if deviation == "ccs_twice":
        p.send_record(20, b"\x01")
    p.enc_out = deviation != "finished_plain"
    vd = prf(master, b"client finished", sm3(p.transcript), 12)
    vd = wrong_finished(deviation, vd)
    if deviation != "no_finished":
        p.send_hs(20, vd)
    p.enc_out = True
    if deviation == "no_finished":          # straight to application data
        p.send_record(23, b"ping")
    # server: CCS, Finished
    res = {"completed": False, "creq": creq}
    r = p.recv_record()
    if r is None:
        res["why"] = "closed after client Finished"; return res
    if r[0] == 21:
        res["alert"] = list(r[1]); return res
    if r[0] != 20:
        res["why"] = "expected CCS, got %d" % r[0]; return res
    p.enc_in = True
    r = p.recv_record()
    if r is None or r[1] is None:
        res["why"] = "no / unreadable server Finished"; return res
    exp = prf(master, b"server finished", sm3(p.transcript), 12)
    res["server_finished_ok"] = (r[0] == 22 and r[1][:1] == b"\x14" and r[1][4:16] == exp)
    res["completed"] = True
    for _r in post_list(deviation): p.send_record(*_r)
    p.send_record(23, b"ping")
    return res


# ---------------------------------------------------------------------------------------------------------------------
# TLS 1.3 (TLS_SM4_GCM_SM3, curve sm2p256v1, sm2sig_sm3 with the RFC 8998 identity)
TLS13_ID = b"TLSv1.3+GM+Cipher+Suite"
def xlabel(secret, label, ctx, n): return K.hkdf_expand_label(T, "sm3", secret, label, ctx, n)
def derive(secret, label, transcript): return xlabel(secret, label, sm3(transcript), 32)


class Peer13:
    def __init__(self, sock, mut=None):
        self.s = sock; self.mut = mut; self.transcript = b""; self.wk = self.rk = None; self.wseq = self.rseq = 0
    def set_write(self, secret): self.wk = (xlabel(secret, b"key", b"", 16), xlabel(secret, b"iv", b"", 12)); self.wseq = 0
    def set_read(self, secret): self.rk = (xlabel(secret, b"key", b"", 16), xlabel(secret, b"iv", b"", 12)); self.rseq = 0
    def send_plain(self, rtype, payload): self.s.sendall(bytes([rtype]) + b"\x03\x03" + u16(len(payload)) + payload)
    def send_enc(self, rtype, payload):
        body = K.tls13_body(T, self.wk[0], self.wk[1], self.wseq.to_bytes(8, "big"), rtype, payload, 0); self.wseq += 1
        if payload.startswith(BAD_MARK):                # ... here: one bit of the tag
            body = body[:-1] + bytes([body[-1] ^ 0x10])
        self.s.sendall(b"\x17\x03\x03" + u16(len(body)) + body)
    def send_hs(self, t, body, enc=True):
        m = maybe_mutate(self.mut, t, hs(t, body))[:16384]; self.transcript += m
        (self.send_enc if enc else self.send_plain)(22, m)
    def recv_exact(self, n):
        b = b""
        while len(b) < n:
            c = self.s.recv(n - len(b))
            if not c: return None
            b += c
        return b
    def recv_record(self):
        h = self.recv_exact(5)
        if not h: return None
        body = self.recv_exact(int.from_bytes(h[3:5], "big"))
        if body is None: return None
        if h[0] == 23 and self.rk:
            r = K.tls13_open(T, self.rk[0], self.rk[1], self.rseq.to_bytes(8, "big"), body); self.rseq += 1
            return r if r else (0, None)
        return h[0], body


def tls13_client(sock, deviation, client_chain=b"", client_d=0, other_d=12345, mut=None):
    p = Peer13(sock, mut)
    crandom = bytes((i * 11 + 5) & 255 for i in range(32))
    ce = 0x5151515151515151515151515151515151515151515151515151515151515151 % sm2ref.n
    cP = sm2ref.mul(ce, sm2ref.G)
    point = b"\x04" + sm2ref.i2b(cP[0]) + sm2ref.i2b(cP[1])
    ext = lambda t, d: u16(t) + u16(len(d)) + d
    exts = ext(43, b"\x02\x03\x04") + ext(10, u16(2) + u16(41)) + ext(13, u16(2) + u16(0x0708)) + ext(51, u16(4 + 65) + u16(41) + u16(65) + point)
    p.send_hs(1, b"\x03\x03" + crandom + b"\x00" + u16(2) + b"\x00\xc6" + b"\x01\x00" + u16(len(exts)) + exts, enc=False)
    r = p.recv_record()
    if r is None or r[0] != 22:
        return {"completed": False, "why": "no ServerHello: %r" % (r,)}
    sh = r[1]; p.transcript += sh
    b = sh[4:]; off = 2 + 32; off += 1 + b[off]; off += 3               # version, random, session id, suite, compression
    el = int.from_bytes(b[off:off + 2], "big"); ex = b[off + 2:off + 2 + el]; sP = None; o = 0
    while o < len(ex):
        t = int.from_bytes(ex[o:o + 2], "big"); l = int.from_bytes(ex[o + 2:o + 4], "big"); d = ex[o + 4:o + 4 + l]; o += 4 + l
        if t == 51: sP = (int.from_bytes(d[5:37], "big"), int.from_bytes(d[37:69], "big"))
    shared = sm2ref.i2b(sm2ref.mul(ce, sP)[0])
    zeros = bytes(32)
    early = K.hkdf_extract(T, "sm3", zeros, zeros)
    hsec = K.hkdf_extract(T, "sm3", derive(early, b"derived", b""), shared)
    chs, shs = derive(hsec, b"c hs traffic", p.transcript), derive(hsec, b"s hs traffic", p.transcript)
    master = K.hkdf_extract(T, "sm3", derive(hsec, b"derived", b""), zeros)
    p.set_read(shs); p.set_write(chs)
    creq = False; got_fin = False
    while not got_fin:
        r = p.recv_record()
        if r is None or r[1] is None: return {"completed": False, "why": "server flight unreadable"}
        if r[0] == 21: return {"completed": False, "alert": list(r[1])}
        m = r[1]; t = m[0]
        if t == 13: creq = True
        if t == 20:
            fk = xlabel(shs, b"finished", b"", 32)
            if K.hmac(T, "sm3", fk, sm3(p.transcript)) != m[4:36]: return {"completed": False, "why": "server Finished wrong"}
            got_fin = True
        p.transcript += m
    cap, sap = derive(master, b"c ap traffic", p.transcript), derive(master, b"s ap traffic", p.transcript)
    chain = split_certs(client_chain) if client_chain else []
    if creq and deviation != "no_cert_msg":
        lst = b"" if deviation.startswith("empty_cert") else b"".join(u24(len(c)) + c + u16(0) for c in chain)
        p.send_hs(11, b"\x00" + u24(len(lst)) + lst)
    pre = p.transcript
    if creq and deviation in ("honest", "cv_wrong_key", "cv_stale_transcript", "empty_cert_with_cv", "cv_alg_other", "cv_sig_empty", "cv_sig_zero", "cv_sig_half"):
        d = client_d if deviation in ("honest", "cv_stale_transcript") or deviation.startswith("cv_sig_") else other_d
        P = sm2ref.mul(d, sm2ref.G)
        tr = p.transcript[:-10] if deviation == "cv_stale_transcript" else p.transcript
        tbs = b"\x20" * 64 + b"TLS 1.3, client CertificateVerify\x00" + sm3(tr)
        r_, s_ = sm2ref.sign(d, P, tbs, 0x3333333333333333333333333333333333333333, TLS13_ID)
        sig = degenerate_sig(deviation, derw.seq(derw.dint(r_), derw.dint(s_)))
        p.send_hs(15, u16(0x0403 if deviation == "cv_alg_other" else 0x0708) + u16(len(sig)) + sig)
    fk = xlabel(chs, b"finished", b"", 32)
    vd = K.hmac(T, "sm3", fk, sm3(p.transcript))
    vd = wrong_finished(deviation, vd)
    if deviation == "finished_plain": p.send_hs(20, vd, enc=False)
    elif deviation != "no_finished": p.send_hs(20, vd)
    p.set_write(cap); p.set_read(sap)
    for _r in post_list(deviation): p.send_enc(*_r)
    p.send_enc(23, b"ping")
    # the server reports completion in its own trace; from here the peer only learns it by an alert or a hang-up
    p.s.settimeout(3)
    try:
        r = p.recv_record()
    except (socket.timeout, OSError):
        r = "timeout"
    return {"completed": False, "creq": creq, "after": str(r)[:60]}          # in TLS 1.3 the server Finished precedes client authentication: nothing to observe here


# ---------------------------------------------------------------------------------------------------------------------
# The other role: a server that is not the library, for the library CLIENT's authentication of its peer (server-auth handshakes).
def cbc_server(sock, proto, deviation, chain_der, sign_d, enc_d=0, other_d=54321, mut=None):
    """TLCP (proto 257) or TLS 1.2 (771) server.  Deviations: ske_wrong_key, ske_stale_random, no_ske, finished_wrong, finished_plain, no_ccs"""
    tlcp = proto == 257
    ver = b"\x01\x01" if tlcp else b"\x03\x03"
    p = Peer(sock, ver, mut)
    r = p.recv_record()
    if r is None or r[0] != 22: return {"completed": False, "why": "no ClientHello"}
    ch = r[1]; p.transcript += ch
    crandom = ch[6:38]
    srandom = bytes((i * 13 + 7) & 255 for i in range(32))
    ext = lambda t, d: u16(t) + u16(len(d)) + d
    # the library's TLS 1.2 client insists on its ec_point_formats / supported_groups / signature_algorithms extensions being answered
    e_pf, e_gr, e_sa = ext(11, b"\x01\x00"), ext(10, u16(2) + u16(41)), ext(13, u16(2) + u16(0x0708))
    sx = b"" if tlcp else (e_pf if "only_ecpf" in deviation else e_pf + e_sa if "no_groups" in deviation else e_pf + e_gr if "no_sigalg" in deviation else e_pf + e_gr + e_sa)
    suite = (b"\xe0\x13" if tlcp else b"\xe0\x11")
    if deviation == "suite_not_offered": suite = b"\xe0\x11" if tlcp else b"\xe0\x13"
    if deviation == "suite_unknown": suite = b"\xc0\x2f"
    hver = {"version_lower": b"\x03\x01", "version_other": b"\x03\x04"}.get(deviation, ver)
    comp = b"\x01" if deviation == "compression_nonzero" else b"\x00"
    p.send_hs(2, hver + srandom + b"\x00" + suite + comp + (u16(len(sx)) + sx if sx else b""))
    certs = split_certs(chain_der)
    lst = b"".join(u24(len(c)) + c for c in certs)
    p.send_hs(11, u24(len(lst)) + lst)
    d = other_d if "ske_wrong_key" in deviation else sign_d
    P = sm2ref.mul(d, sm2ref.G)
    cr = bytes(32) if deviation == "ske_stale_random" else crandom
    if tlcp:
        tbs = cr + srandom + u24(len(certs[1])) + certs[1]
    else:
        se = 0x6161616161616161616161616161616161616161616161616161616161616161 % sm2ref.n
        sP = sm2ref.mul(se, sm2ref.G)
        params = b"\x03" + u16(41) + bytes([65]) + b"\x04" + sm2ref.i2b(sP[0]) + sm2ref.i2b(sP[1])
        tbs = cr + srandom + params
    r_, s_ = sm2ref.sign(d, P, tbs, 0x4444444444444444444444444444444444444444)
    sig = degenerate_sig(deviation, derw.seq(derw.dint(r_), derw.dint(s_)))
    if deviation != "no_ske":
        p.send_hs(12, (u16(len(sig)) + sig) if tlcp else (params + u16(0x0403 if "ske_alg_other" in deviation else 0x0708) + u16(len(sig)) + sig))
    p.send_hs(14, b"")
    # client: ClientKeyExchange, CCS, Finished
    r = p.recv_record()
    if r is None: return {"completed": False, "why": "client hung up after the server flight"}
    if r[0] == 21: return {"completed": False, "alert": list(r[1])}
    cke = r[1]; p.transcript += cke
    try:
        if tlcp:
            ct = cke[6:]
            nodes = [n for n, _, _ in mutlib.preorder(mutlib.parse(ct))]
            x, y, h3, c2 = [n.val for n in nodes[1:5]]
            pms = sm2ref.decrypt(enc_d, (int.from_bytes(x, "big"), int.from_bytes(y, "big")), c2, h3)
        else:
            pt = cke[5:]
            pms = sm2ref.i2b(sm2ref.mul(se, (int.from_bytes(pt[1:33], "big"), int.from_bytes(pt[33:65], "big")))[0])
    except Exception as ex:
        return {"completed": False, "why": "cannot read ClientKeyExchange: %r" % ex}
    if pms is None: return {"completed": False, "why": "pre-master does not decrypt"}
    master = prf(pms, b"master secret", crandom + srandom, 48)
    kb = prf(master, b"key expansion", srandom + crandom, 96)
    # this side writes with the server keys and reads with the client keys
    p.keys = {"cmac": kb[32:64], "smac": kb[0:32], "ckey": kb[80:96], "skey": kb[64:80]}
    r = p.recv_record()
    if r is None or r[0] != 20: return {"completed": False, "why": "no ChangeCipherSpec from the client: %r" % (r,)}
    p.enc_in = True
    r = p.recv_record()
    if r is None or r[1] is None: return {"completed": False, "why": "client Finished unreadable"}
    exp = prf(master, b"client finished", sm3(p.transcript), 12)
    if r[1][4:16] != exp: return {"completed": False, "why": "client Finished wrong"}
    p.transcript += r[1]
    if deviation != "no_ccs":
        p.send_record(20, b"\x01")
    p.enc_out = deviation != "finished_plain"
    vd = prf(master, b"server finished", sm3(p.transcript), 12)
    vd = wrong_finished(deviation, vd)
    p.send_hs(20, vd)
    p.enc_out = True
    for _r in post_list(deviation): p.send_record(*_r)
    p.send_record(23, b"ping")
    return {"completed": True}


def tls13_server(sock, deviation, chain_der, sign_d, other_d=54321, mut=None):
    """TLS 1.3 server.  Deviations: no_cv (Certificate, then Finished), no_cert (neither), cv_wrong_key, cv_stale_transcript, cv_client_context, finished_wrong"""
    p = Peer13(sock, mut)
    r = p.recv_record()
    if r is None or r[0] != 22: return {"completed": False, "why": "no ClientHello"}
    ch = r[1]; p.transcript += ch
    b = ch[4:]; off = 2 + 32; sid = b[off + 1:off + 1 + b[off]]; off += 1 + b[off]
    off += 2 + int.from_bytes(b[off:off + 2], "big"); off += 1 + b[off]
    el = int.from_bytes(b[off:off + 2], "big"); ex = b[off + 2:off + 2 + el]; cP = None; o = 0
    while o < len(ex):
        t = int.from_bytes(ex[o:o + 2], "big"); l = int.from_bytes(ex[o + 2:o + 4], "big"); dd = ex[o + 4:o + 4 + l]; o += 4 + l
        if t == 51: cP = (int.from_bytes(dd[7:39], "big"), int.from_bytes(dd[39:71], "big"))
    if cP is None: return {"completed": False, "why": "no key_share"}
    se = 0x7171717171717171717171717171717171717171717171717171717171717171 % sm2ref.n
    sP = sm2ref.mul(se, sm2ref.G)
    ext = lambda t, d: u16(t) + u16(len(d)) + d
    exts = ext(43, b"\x03\x04") + ext(51, u16(41) + u16(65) + b"\x04" + sm2ref.i2b(sP[0]) + sm2ref.i2b(sP[1]))
    srandom = bytes((i * 17 + 9) & 255 for i in range(32))
    if deviation == "sid_not_echoed": sid = bytes([b ^ 1 for b in sid]) if sid else b"\x01"
    suite13 = b"\xc0\x2f" if deviation == "suite_unknown" else (b"\x13\x01" if deviation == "suite_not_offered" else b"\x00\xc6")
    if deviation == "version_other": exts = ext(43, b"\x03\x03") + exts[6:]
    if deviation == "no_key_share": exts = ext(43, b"\x03\x04")                       # a ServerHello that selects TLS 1.3 but carries no key_share at all
    if deviation == "key_share_empty": exts = ext(43, b"\x03\x04") + ext(51, b"")
    comp13 = b"\x01" if deviation == "compression_nonzero" else b"\x00"
    p.send_hs(2, b"\x03\x03" + srandom + bytes([len(sid)]) + sid + suite13 + comp13 + u16(len(exts)) + exts, enc=False)
    shared = sm2ref.i2b(sm2ref.mul(se, cP)[0])
    zeros = bytes(32)
    early = K.hkdf_extract(T, "sm3", zeros, zeros)
    hsec = K.hkdf_extract(T, "sm3", derive(early, b"derived", b""), shared)
    chs, shs = derive(hsec, b"c hs traffic", p.transcript), derive(hsec, b"s hs traffic", p.transcript)
    master = K.hkdf_extract(T, "sm3", derive(hsec, b"derived", b""), zeros)
    p.set_write(shs); p.set_read(chs)
    p.send_hs(8, u16(0))
    certs = split_certs(chain_der)
    if deviation != "no_cert":
        lst = b"".join(u24(len(c)) + c + u16(0) for c in certs)
        p.send_hs(11, b"\x00" + u24(len(lst)) + lst)
    if deviation not in ("no_cv", "no_cert"):
        d = other_d if deviation in ("cv_wrong_key", "cv_alg_other") else sign_d
        P = sm2ref.mul(d, sm2ref.G)
        tr = p.transcript[:-7] if deviation == "cv_stale_transcript" else p.transcript
        ctx = b"TLS 1.3, client CertificateVerify\x00" if deviation == "cv_client_context" else b"TLS 1.3, server CertificateVerify\x00"
        r_, s_ = sm2ref.sign(d, P, b"\x20" * 64 + ctx + sm3(tr), 0x4444444444444444444444444444444444444444, TLS13_ID)
        sig = degenerate_sig(deviation, derw.seq(derw.dint(r_), derw.dint(s_)))
        p.send_hs(15, u16(0x0403 if deviation == "cv_alg_other" else 0x0708) + u16(len(sig)) + sig)
    fk = xlabel(shs, b"finished", b"", 32)
    vd = K.hmac(T, "sm3", fk, sm3(p.transcript))
    vd = wrong_finished(deviation, vd)
    p.send_hs(20, vd)
    cap, sap = derive(master, b"c ap traffic", p.transcript), derive(master, b"s ap traffic", p.transcript)
    r = p.recv_record()
    if r is None or r[1] is None: return {"completed": False, "why": "no client Finished"}
    if r[0] == 21: return {"completed": False, "alert": list(r[1])}
    fkc = xlabel(chs, b"finished", b"", 32)
    ok = r[1][:1] == b"\x14" and r[1][4:36] == K.hmac(T, "sm3", fkc, sm3(p.transcript))
    p.set_write(sap); p.set_read(cap)
    for _r in post_list(deviation): p.send_enc(*_r)
    p.send_enc(23, b"ping")
    return {"completed": ok}


def run_server(creddir, exe, proto, scred, ctrust, deviation, timeout=60, mut=None, capture=False):
    """spawn the library CLIENT on one end of a socketpair, play the independent server with credential set `scred` on the other"""
    a, b = socket.socketpair()
    import tempfile
    tf = tempfile.NamedTemporaryFile(prefix="rogue_", suffix=".ndjson", dir=os.path.dirname(creddir), delete=False); tf.close()
    env = dict(os.environ, ASAN_OPTIONS="detect_leaks=0:abort_on_error=0:exitcode=99", UBSAN_OPTIONS="halt_on_error=1:exitcode=98")
    pr = subprocess.Popen([exe, creddir, tf.name, str(b.fileno()), str(proto), "client", "-", ctrust], pass_fds=(b.fileno(),), stdout=subprocess.PIPE if capture else subprocess.DEVNULL, stderr=subprocess.PIPE, env=env)
    b.close(); a.settimeout(timeout)
    chain = open(os.path.join(creddir, scred, "chain.der"), "rb").read()
    rd = lambda f: int(open(os.path.join(creddir, scred, f)).read().strip(), 16) if os.path.exists(os.path.join(creddir, scred, f)) else 0
    try:
        view = tls13_server(a, deviation, chain, rd("sign.key"), mut=mut) if proto == 772 else cbc_server(a, proto, deviation, chain, rd("sign.key"), rd("enc.key"), mut=mut)
    except (socket.timeout, ConnectionError, OSError) as ex:
        view = {"completed": False, "why": "socket: %r" % ex}
    except Exception as ex:
        if mut is None: raise
        view = {"completed": False, "why": "peer logic: %r" % ex}
    try: a.close()
    except OSError: pass
    try: outb, err = pr.communicate(timeout=timeout)
    except subprocess.TimeoutExpired:
        pr.kill(); outb, err = pr.communicate()
    evs = [json.loads(l) for l in open(tf.name) if l.strip()]
    os.unlink(tf.name)
    e = err.decode(errors="replace"); san = None
    if "Sanitizer" in e or "runtime error" in e or pr.returncode not in (0,):
        san = e[-600:] if ("Sanitizer" in e or "runtime error" in e) else ("exit code %s" % pr.returncode)
    return (view, evs, san, (outb or b"") + b"\n" + err) if capture else (view, evs, san)


def run(creddir, exe, proto, scred, strust, deviation, ccred="cli_d2", timeout=60, mut=None, capture=False):
    """spawn the library server on one end of a socketpair, play the rogue client on the other; returns (client view, server events)"""
    a, b = socket.socketpair()
    import tempfile
    tf = tempfile.NamedTemporaryFile(prefix="rogue_", suffix=".ndjson", dir=os.path.dirname(creddir), delete=False); tf.close()
    env = dict(os.environ, ASAN_OPTIONS="detect_leaks=0:abort_on_error=0:exitcode=99", UBSAN_OPTIONS="halt_on_error=1:exitcode=98")
    pr = subprocess.Popen([exe, creddir, tf.name, str(b.fileno()), str(proto), "server", scred, strust], pass_fds=(b.fileno(),), stdout=subprocess.PIPE if capture else subprocess.DEVNULL, stderr=subprocess.PIPE, env=env)
    b.close()
    a.settimeout(timeout)
    chain = open(os.path.join(creddir, ccred, "chain.der"), "rb").read()
    d = int(open(os.path.join(creddir, ccred, "sign.key")).read().strip(), 16)
    try:
        view = tls13_client(a, deviation, chain, d, mut=mut) if proto == 772 else tlcp_client(a, deviation, chain, d, proto=proto, mut=mut)
    except (socket.timeout, ConnectionError, OSError) as ex:
        view = {"completed": False, "why": "socket: %r" % ex}
    except Exception as ex:
        if mut is None: raise
        view = {"completed": False, "why": "peer logic: %r" % ex}
    try:
        a.close()
    except OSError:
        pass
    try:
        outb, err = pr.communicate(timeout=timeout)
    except subprocess.TimeoutExpired:
        pr.kill(); outb, err = pr.communicate()
    evs = [json.loads(l) for l in open(tf.name) if l.strip()]
    os.unlink(tf.name)
    san = None
    e = err.decode(errors="replace")
    if "Sanitizer" in e or "runtime error" in e or pr.returncode not in (0,):
        san = e[-600:] if ("Sanitizer" in e or "runtime error" in e) else ("exit code %s" % pr.returncode)
    return (view, evs, san, (outb or b"") + b"\n" + err) if capture else (view, evs, san)


if __name__ == "__main__":
    creddir, exe = sys.argv[1], sys.argv[2]
    for dev in sys.argv[3:]:
        proto = int(os.environ.get("PROTO", "257"))
        if os.environ.get("ROLE") == "server":
            v, evs, san = run_server(creddir, exe, proto, "tlcp_d2" if proto == 257 else "srv_d2", "trust_root", dev)
            print(dev, v, [(e["e"], e.get("rc"), e.get("peer_certs_len")) for e in evs], san)
            continue
        v, evs, san = run(creddir, exe, proto, "tlcp_d2" if proto == 257 else "srv_d2", "trust_root", dev)
        print(dev, v, [(e["e"], e.get("rc"), e.get("peer_certs_len")) for e in evs], san)
