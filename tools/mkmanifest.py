#!/usr/bin/env python3
"""Writes /verif/MANIFEST.json from the table below (one source of truth for what is claimed)."""
import json, os
V = os.path.dirname(os.path.dirname(os.path.abspath(__file__)))

CLAIMS = {
    # id: (level, technique, text, note, design_ref)
    "C08": ("model_checking",
            "TLC model checking of Tls.tla/TlsStream.tla + trace validation of real connections against TlsTrace.tla",
            "TLC checks key agreement and honest-run liveness for the three handshakes and the chunked stream contract exhaustively on the small model; "
            "every real connection (3 protocols x auth modes x chain depths x write/read size classes x fragmentation) is validated event by event "
            "against the same actions, with the stream content recomputed by TLC from the offset function.",
            "Trusted: TLC, the proxy/driver harness/tlsdrv.c, reference X.509 writer. Scheduling of the two endpoint threads is explored only as far as the OS and the fragmenting proxy produce it.",
            "4/C08"),
}

PENDING_REASON = "check under construction in this round (see DESIGN.md section 4); not claimed until it runs clean on the unchanged tree"


def main():
    props = [json.loads(l) for l in open(os.path.join(V, "properties.jsonl"))]
    checks = []
    na = []
    for p in props:
        pid = p["id"]
        if pid in CLAIMS:
            level, tech, text, note, ref = CLAIMS[pid]
            checks.append({
                "property_id": pid,
                "quick_cmd": "./check %s quick" % pid,
                "thorough_cmd": "./check %s thorough" % pid,
                "evidence_file": "evidence/%s.json" % pid,
                "replay_cmd_template": "./check %s --replay {path}" % pid,
                "engine": "tlc",
                "level_claimed": {"category": level, "text": text, "design_ref": "DESIGN.md section " + ref},
                "level_note": note,
                "technique": tech,
            })
        else:
            na.append({"property_id": pid, "reason": NA.get(pid, PENDING_REASON)})
    m = {
        "version": 1,
        "setup_cmd": "./setup.sh",
        "hooks": {"guard": "GMSSL_VERIF", "enable": "checks configure /repo with CMake into /verif/build/lib_<variant> with -DGMSSL_VERIF in CMAKE_C_FLAGS (no source hooks exist: all observation is at the public API, the wire, getentropy/time interposition and sanitizers)",
                  "baseline_off_cmd": "cmake -S /repo -B /tmp/gmssl_baseline -G Ninja >/dev/null && cmake --build /tmp/gmssl_baseline >/dev/null && ctest --test-dir /tmp/gmssl_baseline -j8 --timeout 900; rc=$?; rm -rf /tmp/gmssl_baseline; exit $rc",
                  "source_commits": [], "add_only": True},
        "engines": [{"name": "tlc", "path": "tools/vlib.py", "serves_properties": sorted(CLAIMS), "kind_free_text": "TLA+ specifications in spec/ checked by TLC (exhaustive small models, liveness, behaviour generation) and bound to the code by trace validation / replay through C drivers in harness/"}],
        "checks": checks,
        "not_applicable": na,
        "notes": "See DESIGN.md. Known findings and fix records: known-findings.txt.",
    }
    json.dump(m, open(os.path.join(V, "MANIFEST.json"), "w"), indent=1)
    print("claimed:", [c["property_id"] for c in checks])


NA = {}

if __name__ == "__main__":
    main()
