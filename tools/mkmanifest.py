#!/usr/bin/env python3
"""Writes /verif/MANIFEST.json from the table below (one source of truth for what is claimed)."""
import json, os
V = os.path.dirname(os.path.dirname(os.path.abspath(__file__)))

CLAIMS = {
    # id: (level, technique, text, note, design_ref)
    "C04": ("model_checking",
            "TLC model checking of Stream.tla (enc/dec/aead buffer machines) + trace validation against CryptoTrace.tla where TLC recomputes every mode from Modes.tla over block-cipher tables + file round trips through the command line tools validated against CryptoTrace.tla",
            "Every SM4/AES mode of the API (ECB, CBC+padding, CBC blocks, CTR, CTR32, CFB-s, OFB, XTS one-shot and data-unit streaming, GCM, CCM, CBC-MAC, encrypt-then-MAC composites; one-shot, streaming, in place, "
            "block_cipher dispatch) is driven with TLC-generated chunkings and dense lengths; TLC judges each execution by evaluating the mode's definition written from its standard; decryption inputs come from the independent reference.",
            "Trusted: TLC; block functions of ref/sm4ref.py, ref/aesref.py and GF(2^128) multiplication of ref/gf128ref.py (standard vectors). ZUC and ChaCha20 are not yet bound to the specification in this tier (see DESIGN.md).",
            "4/C04"),
    "C05": ("fault_enumeration",
            "TLC model checking of Aead.tla (ideal MAC, one tamper, all chunkings) + enumeration of the bit-flip/truncation/extension neighbourhood validated against CryptoTrace.tla + authenticated command line tools (round trip, modified files)",
            "For each AEAD scheme and API style the genuine tuple must decrypt to the plaintext TLC computes, and every enumerated modification of nonce, AAD, ciphertext and tag must be refused (contract: a touched tuple is never accepted).",
            "Trusted: TLC, reference encryption producing the genuine tuples. Known finding: the CBC/CTR+HMAC composites do not authenticate the IV.",
            "4/C05"),
    "C11": ("model_checking",
            "TLC model checking of Tls.tla/Aead.tla + trace validation of the record-protection API against the layouts in Modes.tla and of live connections with faulted application records against TlsTrace.tla",
            "TLC recomputes the protected record bytes from the CBC+HMAC and TLS 1.3 layouts (IV from the interposed entropy source), checks identity for every payload length class, refusal of the whole modification neighbourhood, "
            "other sequence numbers and forged all-padding plaintexts; live connections behind the proxy show that duplicated, swapped, dropped or altered application records are refused.",
            "Trusted: TLC, reference primitive tables, harness drivers. Identity over all lengths is observed through the library's own protect+unprotect with bytes compared by the driver.",
            "4/C11"),
    "C06": ("exploration",
            "TLC model checking of Wire.tla (the TLV reader on every byte string to the bound; the variant without one length check must violate) + conformance of the real reader against it (WireJudge.tla) + TLC-enumerated edit programs "
            "(Mutate.tla) applied to library-made seed objects and live handshake records, run through every consumer under AddressSanitizer/UBSan and MemorySanitizer, + an independent key-holding peer (edited handshake messages, post-handshake records) whose receive sessions are validated against RecvTrace.tla",
            "132 seed objects (every decoder family x variants) x all single edit programs (tree edits with and without length repair, byte edits, TLS vector-tree edits, repetitions), all prefixes, byte overwrites; both peers of the three "
            "handshakes with record-level edit programs at every record position; an independent peer that holds the keys edits every handshake message (also under the record protection) and sends refused / broken-MAC records to an application that keeps reading. Memory errors are observed by the sanitizers with exact-size input and output allocations; termination by an alarm.",
            "Trusted: ASan/UBSan as observers, TLC, tools/mutlib.py. Not a proof of memory safety: coverage is the enumerated grammar. Mutants made slow by a huge PBKDF2 iteration count are counted, not reported.",
            "4/C06 and 0.2.1"),
    "C07": ("model_checking",
            "TLC model checking of Chain.tla (ghost variables sound/must vs the path walk, full attribute product, negative config) + replay of TLC-judged chains into x509_certs_verify(_tlcp) + certverify command line sessions validated against Cli.tla",
            "TLC covers every chain of leaf [+TLCP encryption leaf] + intermediates + anchor over the attribute product while visiting a few hundred abstract states, proving accept => sound and reject => ~must for the "
            "modelled walk and that the incremental ghosts equal the whole-chain property functions; as-built chains with every one- and two-attribute change plus simulated walks are concretised with the reference "
            "X.509 writer and the code's verdict is compared with the property value TLC computed. Unsound chains are also built with the other criticality of the known extensions, and with the root sent along (genuine / a look-alike of the same name).",
            "Trusted: TLC, reference DER/X.509 writer and SM2 signer, interposed clock. Attribute classes stand for concrete representatives.",
            "4/C07"),
    "C08": ("model_checking",
            "TLC model checking of Tls.tla/TlsStream.tla + trace validation of real connections against TlsTrace.tla",
            "TLC checks key agreement and honest-run liveness for the three handshakes and the chunked stream contract exhaustively on the small model; "
            "every real connection (3 protocols x auth modes x chain depths x write/read size classes x fragmentation) is validated event by event "
            "against the same actions, with the stream content recomputed by TLC from the offset function.",
            "Trusted: TLC, the proxy/driver harness/tlsdrv.c, reference X.509 writer. Scheduling of the two endpoint threads is explored only as far as the OS and the fragmenting proxy produce it.",
            "4/C08"),
    "C01": ("model_checking",
            "TLC model checking of Sm2Sig.tla (nonce pool / chunking) + TLC evaluation of Sm2Judge.tla (Z, e, strict DER, ranges and nonce relations in BigNat, scalar-multiplication chains) on replayed acceptance cases and signing traces + command line sessions (sm2sign / sm2verify) validated against Cli.tla",
            "TLC computes Z (ENTL from idlen) and the digest over the SM3 table, decides the acceptance verdict of every enumerated candidate (24 DER forms x valid signatures, 7x7 r/s classes, r+s=n, context mutations, bit flips) for all three verification interfaces, "
            "and checks every produced signature of the four signing interfaces: canonical DER, ranges, s(1+d)+rd = k and r = e + x([k]G) mod n for the recovered nonce, no nonce reuse across pool refills.",
            "Trusted: TLC, SM3 table; the truth of the curve equation / x([k]G) comes from the reference implementation and is justified by TLC-checked double-and-add chains for a sample of nonces.",
            "4/C01"),
    "C02": ("model_checking",
            "TLC evaluation of Sm2Judge.tla on encryption traces, the malformed-ciphertext space and ECDH cases (strict DER via Der.tla, curve membership in BigNat, KDF / C2 / C3 from Crypto.tla) + command line sessions (sm2encrypt / sm2decrypt) validated against Cli.tla",
            "Every ciphertext the six encryption interfaces produce (lengths 1..255) is judged by TLC (canonical DER, C1 on the curve, C2 and C3 recomputed from the shared point) and decrypted back; reference-made ciphertexts, "
            "17 encoding forms, C1 classes, C3/C2 modifications and bit flips are decided by the executable DecryptExpected definition; ECDH results must equal the reference [d]Q both ways and refuse invalid peers. C1 = [k]G is checked against the nonce actually drawn from the interposed entropy source, the first nonce is forced to one with an all-zero key stream, the pre-computed nonce table is driven slot by slot, compressed peer shares and the all-zero C1 with a consistent forgery are covered.",
            "Trusted: TLC, SM3 table, reference scalar multiplication for the shared point.",
            "4/C02"),
    "C03": ("model_checking",
            "TLC model checking of Stream.tla (md buffer machine, all chunkings) + behaviour generation + trace validation against CryptoTrace.tla where TLC recomputes every construction from Crypto.tla over compression-function tables + digest / MAC / PBKDF2 command line tools validated against Cli.tla",
            "TLC explores every chunking of the partial-block buffer machine on a small block and generates the transition-covering chunkings; each real execution (6 hash algorithms, HMAC, PBKDF2, HKDF, SM3/SM2 KDF, every API path) is validated by TLC recomputing padding, length encoding, chaining, ipad/opad, F, expand and counter rules from the TLA+ definitions -- only the compression function values come from reference tables.",
            "Trusted: TLC; compression functions of ref/sm3ref.py and ref/sharef.py (self-tested against standard vectors). SHA-512/224 and /256 are outside the property. Messages above 2^32 bits only in the thorough tier.",
            "4/C03"),
    "C09": ("model_checking",
            "TLC model checking of Tls.tla over all credential-fact combinations (+ negative configs) + trace validation of live handshakes with defective credentials and of handshakes against an independent deviating peer",
            "TLC proves on the model that a verifier completes only for a valid chain and proven key possession (64 credential combinations x 3 protocols x auth modes, and that removing either check is caught); "
            "live handshakes with credentials carrying exactly one defect each are validated against the same receive rules, so a verifier that completes with a defective peer has no explanation; an independent client and server for TLCP / TLS 1.2 / TLS 1.3 (tools/roguepeer.py, over the reference primitives) "
            "play the deviations only a hostile peer can produce (empty certificate list, CertificateVerify / ServerKeyExchange missing, under another key, algorithm label or transcript, hello extensions withheld, message sequence broken) with a correct Finished, judged by RogueTrace.tla.",
            "Trusted: TLC, harness/tlsdrv.c, tools/mkcreds.py (each credential set has exactly the named defect by construction with the reference SM2 signer / DER writer).",
            "4/C09"),
    "C10": ("fault_enumeration",
            "TLC model checking of Tls.tla with a proxy adversary + replay of every enumerated fault on real handshakes, validated against TlsTrace.tla",
            "The model's single-fault space (every record x drop/duplicate/swap/truncate/inject/flip, every point of three handshakes) is explored exhaustively by TLC with the invariant "
            "'both complete => each consumed exactly what the other sent'; the same faults are applied by a record-aware proxy to real handshakes (quick: all record-level faults and one bit per plaintext byte; "
            "thorough: every bit) and each execution must be explained by the contract with the invariant holding in every explaining state.",
            "Trusted: TLC, the proxy (it logs the fault it effectively applied). Multi-fault schedules are explored in the model only.",
            "4/C10"),
    "C12": ("model_checking",
            "TLC evaluation of ImportJudge.tla (curve membership / ranges in BigNat with residue witnesses) over the product import-path x value-class, replayed into every import interface",
            "TLC decides for each enumerated (path, value class) whether the import must succeed -- coordinates below p, curve equation (exact big-integer check of the residue witness), never infinity, scalar in [1, n-2], "
            "container public key matching -- and the library's verdict and exported coordinates are compared with it on all paths (raw, octets incl. every prefix class, SPKI DER/PEM, certificate, TLS key exchange and key share, ECDH peer, ECPrivateKey, PKCS#8, SM2 C1, SM9 points, compress/decompress).",
            "Trusted: TLC; container encodings and witnesses from the references (a wrong witness cannot make a wrong verdict pass); reference [d]G and SM9 twist membership as oracle columns.",
            "4/C12"),
    "C13": ("exploration",
            "TLC evaluation of Z256Judge.tla: one exact BigNat relation per exported sm2_z256_* operation on boundary-biased operands, with quotient/slope witnesses and TLC-checked scalar-multiplication chains",
            "TLC is used as an exact big-integer relation checker: integer add/sub/mul/cmp/shift, Booth recoding, mod p / mod n / Montgomery operations (congruences with witnesses), point add/dbl/neg/sub incl. P=Q, P=-Q, infinity and "
            "non-normalised Jacobian inputs (chord/tangent relations), and scalar multiplication by four routes against the reference with chains for a sample. Sampling is boundary-biased, not exhaustive.",
            "Trusted: TLC; witnesses cannot make a wrong result pass; reference [k]P and exponentiation values. Thorough adds the ENABLE_SM2_AMD64 build.",
            "4/C13"),
    "C14": ("model_checking",
            "TLC enumeration of DerVec.tla (strict DER decoders / canonical encoders as executable definitions) with replay of the vectors, TLC evaluation of TextJudge.tla for base64/hex/PEM, composite round trips",
            "TLC enumerates every byte string up to 4 bytes over a boundary alphabet behind each primitive tag and computes verdict, value and consumed length (length, INTEGER, int, BOOLEAN, BIT STRING, OID), canonical encodings of integers, OIDs and "
            "times across the UTCTime/GeneralizedTime switch, and UTF-8/Printable/IA5 validity; the library must agree on each vector. Base64/hex/PEM are judged by TLC against RFC 4648 definitions in all chunkings, with malformed text and capacities "
            "around the data size; composite objects round-trip with dry-run length = written length and identical re-encoding; wrong passwords never open a key.",
            "Trusted: TLC and the TLA+ definitions. Tolerated (either answer): non-minimal OID subidentifiers, non-zero BIT STRING padding bits, the empty bit string, invalid UTF-8, base64 spare bits.",
            "4/C14"),
    "C15": ("model_checking",
            "TLC model checking of X509Obj.tla + trace validation of issue / parse / verify / lookup events against X509Trace.tla",
            "Objects are issued through the library over classes of admissible field values, parsed back and compared field by field by TLC; verification must succeed exactly under the issuing key and signer ID on the untouched object "
            "(other key, other IDs and single-bit modifications must fail); CRL lookup must report a serial exactly when it is listed. The parsed-back Extensions are walked by TLC (count, order, OID, criticality, value) and sizes are swept across the DER length-form switches.",
            "Trusted: TLC, the driver's record of the supplied fields. Field values are seeded class representatives.",
            "4/C15"),
    "C16": ("model_checking",
            "TLC model checking of Cms.tla + trace validation of cms_* calls against CmsTrace.tla + CMS command line sessions validated against Cli.tla",
            "Messages are produced by the top-level cms_* interfaces for 1..4 signers x 1..4 recipients x content classes and two content types; every recipient opens with a key object built from the raw scalar, ECPrivateKey DER and encrypted PKCS#8 PEM; "
            "outsiders, mismatched keys, zero SignerInfos (message rewritten with an independent DER writer), a SignerInfo made with a foreign key and located bit flips of content / signature / encrypted key / IV / ciphertext must fail. Signer identifiers (issuerAndSerialNumber) are tamper regions too, recipient sets put the right RecipientInfo behind look-alikes, and an encryptedKey holding more than a content-encryption key must be refused without overflow.",
            "Trusted: TLC, ref/derw.py region location, ref/sm4ref.py (classifies which CBC changes keep the padding intact: those are the recorded known finding for unauthenticated Enveloped/EncryptedData).",
            "4/C16"),
    "C17": ("exploration",
            "TLC model checking of Sm9.tla + TLC evaluation of the Sm9Field.tla tower formulas on recorded operations (Sm9Judge.tla) + trace validation of scheme calls against Sm9Trace.tla + SM9 command line sessions validated against Cli.tla",
            "Every exported sm9_z256_* operation is called on boundary-biased operands; F_p/F_N/F_p^2/F_p^4/F_p^12 results are checked congruent to the integer-evaluated defining formula (quotient witnesses), G1 sums by chord/tangent "
            "relations, G2 results against the reference and the twist equation, the pairing against the reference and bilinearity / order / non-degeneracy on the library's own outputs; signatures, ciphertexts and exchanges are produced "
            "over master keys x identities x messages and cross-checked with the reference in both directions, with other identity / message / master, bit flips, boundary h and substituted S required to fail.",
            "Trusted: TLC, ref/sm9ref.py (self-tested on the GM/T 0044 worked example) for Frobenius, exponentiation, scalar multiplication, pairing and the scheme facts; witnesses are untrusted.",
            "4/C17"),
    "C18": ("fault_enumeration",
            "TLC model checking of Entropy.tla + link-time getentropy interposition with a failure injected at every draw index, validated against EntropyTrace.tla",
            "Every randomised API operation and the three handshakes in both roles are run clean, on an equal and a different entropy stream, repeated within one stream, and with the source failing at each draw index; "
            "TLC checks on the recorded events that positions are consumed once and in order, that a failed draw means failure and nothing but an alert emitted, that success consumed entropy, and that ephemeral values are equal exactly for equal streams and never repeat. Runs of rejected (out-of-range) draws precede the good ones, and the secret scalar behind every successful SM2 key generation / signature / encryption must be one of the in-range values drawn.",
            "Trusted: TLC, the interposed getentropy/send in the harness. An encrypted TLS 1.3 alert is recognised by its length.",
            "4/C18"),
    "C19": ("exploration",
            "Leak.tla judge over Op events: fd 1/2 captured per operation and searched for every secret the harness can name",
            "API operations that handle secrets (success and failure paths) and 48 handshake scenarios (honest, defective credentials, tampering, failing entropy) are run with stdout/stderr captured; private scalars, "
            "all entropy draws, master secret, key block, IVs, passwords and plaintext are searched raw, hex, base64, word-swapped and by 16-byte windows; only an explicit print may show a secret. Failure paths of the key readers (every single-byte change, mismatching public key), of loading TLS credentials from files, and protected post-handshake records of other content types sent by an independent peer are included.",
            "Only secrets the harness can name are searched; default build configuration.",
            "4/C19"),
    "C20": ("model_checking",
            "TLC model checking of Threads.tla (all interleavings of call entry / return, liveness under fairness; the hidden-state variant must violate) + TLC-enumerated call-level schedules replayed into the real library + "
            "trace validation against ThreadsTrace.tla + ThreadSanitizer on free-running runs",
            "A 12-kind mixed workload (hash, ciphers, SM2/SM9, DER/X.509/CMS, record protection, complete TLS 1.2/1.3 handshakes) runs per thread with a per-thread entropy stream: sequentially (definition of the results), free-running "
            "with 2..16 threads under ASan and TSan, and under every call-level schedule of 3x2 and 2x4 enumerated by TLC (thorough: 2000 of 4x3); every operation must return its sequential digest, really succeed, in program order. The same runs are repeated over streaming objects (one multi-call object per thread, operation k = its k-th call; all threads on one kind with different keys), so state hidden behind contexts shows under the schedules.",
            "Trusted: TLC, ThreadSanitizer/AddressSanitizer, the sequential run as the definition of results. Free-running runs sample the OS scheduler.",
            "4/C20"),
}

PENDING_REASON = "check under construction in this round (see DESIGN.md section 4); not claimed until it runs clean on the unchanged tree"


def main():
    props = [json.loads(l) for l in open(os.path.join(V, "properties.jsonl"))]
    checks = []
    na = []
    for p in props:
        pid = p["id"]
        if pid in CLAIMS:
            level, tech, text, note, ref = CLAIMS[pid]
            checks.append({
                "property_id": pid,
                "quick_cmd": "./check %s quick" % pid,
                "thorough_cmd": "./check %s thorough" % pid,
                "evidence_file": "evidence/%s.json" % pid,
                "replay_cmd_template": "./check %s --replay {path}" % pid,
                "engine": "tlc",
                "level_claimed": {"category": level, "text": text, "design_ref": "DESIGN.md section " + ref},
                "level_note": note,
                "technique": tech,
            })
        else:
            na.append({"property_id": pid, "reason": NA.get(pid, PENDING_REASON)})
    m = {
        "version": 1,
        "setup_cmd": "./setup.sh",
        "hooks": {"guard": "GMSSL_VERIF", "enable": "checks configure /repo with CMake into /verif/build/lib_<variant> with -DGMSSL_VERIF in CMAKE_C_FLAGS (no source hooks exist: all observation is at the public API, the wire, getentropy/time interposition and sanitizers)",
                  "baseline_off_cmd": "cmake -S /repo -B /tmp/gmssl_baseline -G Ninja >/dev/null && cmake --build /tmp/gmssl_baseline >/dev/null && ctest --test-dir /tmp/gmssl_baseline -j8 --timeout 900 -E 'tlcp_commands|tls12_commands|tls13_commands'; rc=$?; rm -rf /tmp/gmssl_baseline; exit $rc",
                  "source_commits": [], "add_only": True},
        "engines": [{"name": "tlc", "path": "tools/vlib.py", "serves_properties": sorted(CLAIMS), "kind_free_text": "TLA+ specifications in spec/ checked by TLC (exhaustive small models, liveness, behaviour generation) and bound to the code by trace validation / replay through C drivers in harness/"}],
        "checks": checks,
        "not_applicable": na,
        "notes": "See DESIGN.md. Known findings and fix records: known-findings.txt.",
    }
    json.dump(m, open(os.path.join(V, "MANIFEST.json"), "w"), indent=1)
    print("claimed:", [c["property_id"] for c in checks])


NA = {}

if __name__ == "__main__":
    main()
