#!/bin/bash
# usage: seedconfirm.sh <worktree> <Sid> -- confirms a seeded change independently (demo 0 on original / 1 on changed, ctest unchanged) and stores it under /verif/seeded/<Sid>
set -u
W=$1; S=$2; D=/verif/seeded/$S; mkdir -p $D
cd $W || exit 2
git diff -- src include > $D/patch.diff
cp demo.c notes.md $D/ 2>/dev/null
git checkout -q -- src include
build() { rm -rf $W/$1; cmake -G Ninja -B $W/$1 -S $W >/dev/null 2>&1 && cmake --build $W/$1 >/dev/null 2>&1; }
demo() { cc -I$W/include $D/demo.c -L$W/$1/bin -lgmssl -Wl,-rpath,$W/$1/bin -lm -lpthread -o $W/$1/demo_bin 2>$W/$1/demo_cc.log || { echo "demo_compile_failed"; return; }; (cd $W/$1; timeout 300 ./demo_bin >demo_out.txt 2>&1; echo $?); }
tests() { (ctest --test-dir $W/$1 -j8 --timeout 900 2>&1 | grep -E "tests passed|Failed" | tr '\n' ' '); }
build cb_orig; o=$(demo cb_orig); to=$(tests cb_orig)
git apply $D/patch.diff || { echo "patch does not apply"; exit 3; }
build cb_new; n=$(demo cb_new); tn=$(tests cb_new)
{ echo "demo_on_original_exit=$o"; echo "demo_on_patched_exit=$n"; echo "ctest_original: $to"; echo "ctest_patched:  $tn"; } > $D/confirm.txt
cat $D/confirm.txt
rm -rf $W/cb_orig $W/cb_new
