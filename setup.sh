#!/bin/bash
# Offline setup: build nothing outside /verif; self-test the reference implementations, parse every specification.
set -e
cd "$(dirname "$0")"
mkdir -p build evidence
for f in sm3ref sm4ref sm2ref sharef aesref zucref chacharef gf128ref constructions; do
  [ -f ref/$f.py ] && (cd ref && python3 $f.py >/dev/null)
done
for f in spec/*.tla; do
  (cd spec && tla-sany "$(basename $f)" > /dev/null 2>&1) || { echo "SANY failed: $f"; (cd spec && tla-sany "$(basename $f)" | tail -20); exit 1; }
done
python3 tools/check_consts.py
python3 tools/mkcreds.py build/creds
python3 -c "import sys; sys.path.insert(0,'tools'); import vlib; vlib.build_lib('asan')"
echo "setup ok"
