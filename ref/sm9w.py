# Witness makers for spec/Sm9Field.tla / Sm9Judge.tla: the tower formulas evaluated over the integers WITHOUT reduction (mirroring the
# TLA+ definitions), and the quotient witnesses TLC needs to check "formula == result (mod p)".  Untrusted: TLC checks every relation.
from sm9ref import p, N
LIMB = 4096
def limbs(v):
    out = []
    while v:
        out.append(v % LIMB); v //= LIMB
    return out
def wit(V, r, m=p):
    """witness for V == r (mod m): side 0: V = r + k m ; side 1: V + k m = r"""
    return {"k": limbs(abs(V - r) // m), "s": 0 if V >= r else 1}
# Fp2 = (a0, a1), Fp4 = (b0, b1), Fp12 = (c0, c1, c2); plain integers
def f2add(a, b): return (a[0] + b[0], a[1] + b[1])
def f2sub(a, b): return (a[0] - b[0], a[1] - b[1])
def f2neg(a): return (-a[0], -a[1])
def f2scale(k, a): return (k * a[0], k * a[1])
def f2mul(a, b): return (a[0] * b[0] - 2 * a[1] * b[1], a[0] * b[1] + a[1] * b[0])
def f2mulu(a): return (-2 * a[1], a[0])
def f2mulfp(a, k): return (a[0] * k, a[1] * k)
def f2conj(a): return (a[0], -a[1])
F2Z, F2O = (0, 0), (1, 0)
def f4add(a, b): return (f2add(a[0], b[0]), f2add(a[1], b[1]))
def f4sub(a, b): return (f2sub(a[0], b[0]), f2sub(a[1], b[1]))
def f4neg(a): return (f2neg(a[0]), f2neg(a[1]))
def f4scale(k, a): return (f2scale(k, a[0]), f2scale(k, a[1]))
def f4mul(a, b): return (f2add(f2mul(a[0], b[0]), f2mulu(f2mul(a[1], b[1]))), f2add(f2mul(a[0], b[1]), f2mul(a[1], b[0])))
def f4mulv(a): return (f2mulu(a[1]), a[0])
def f4mulfp(a, k): return (f2mulfp(a[0], k), f2mulfp(a[1], k))
def f4mulfp2(a, c): return (f2mul(a[0], c), f2mul(a[1], c))
def f4conj(a): return (a[0], f2neg(a[1]))
F4Z, F4O = (F2Z, F2Z), (F2O, F2Z)
def f12add(a, b): return tuple(f4add(x, y) for x, y in zip(a, b))
def f12sub(a, b): return tuple(f4sub(x, y) for x, y in zip(a, b))
def f12neg(a): return tuple(f4neg(x) for x in a)
def f12scale(k, a): return tuple(f4scale(k, x) for x in a)
def f12mul(a, b):
    return (f4add(f4mul(a[0], b[0]), f4mulv(f4add(f4mul(a[1], b[2]), f4mul(a[2], b[1])))),
            f4add(f4add(f4mul(a[0], b[1]), f4mul(a[1], b[0])), f4mulv(f4mul(a[2], b[2]))),
            f4add(f4add(f4mul(a[0], b[2]), f4mul(a[1], b[1])), f4mul(a[2], b[0])))
F12O = (F4O, F4Z, F4Z)
def flat2(a): return [a[0], a[1]]
def flat4(a): return flat2(a[0]) + flat2(a[1])
def flat12(a): return flat4(a[0]) + flat4(a[1]) + flat4(a[2])
def b2i(b): return int.from_bytes(b, 'big')
def f2b(b): return (b2i(b[32:64]), b2i(b[0:32]))
def f4b(b): return (f2b(b[64:128]), f2b(b[0:64]))
def f12b(b): return (f4b(b[256:384]), f4b(b[128:256]), f4b(b[0:128]))

def tower_witness(op, a, b, k, r):
    """(lvl, [witness per coordinate]) for a formula-judged tower operation; a, b, r: byte strings, k: int"""
    fam, name = op.split("_", 1)
    lvl = int(fam[2:])
    if lvl == 2:
        A, R = f2b(a), f2b(r); B = f2b(b) if len(b) == 64 else F2Z
        lhs = {"add": lambda: f2add(A, B), "sub": lambda: f2sub(A, B), "neg": lambda: f2neg(A), "dbl": lambda: f2scale(2, A), "tri": lambda: f2scale(3, A), "haf": lambda: f2scale(2, R),
               "a_mul_u": lambda: f2mulu(A), "mul": lambda: f2mul(A, B), "inplace_mul": lambda: f2mul(A, B), "mul_u": lambda: f2mulu(f2mul(A, B)), "mul_fp": lambda: f2mulfp(A, k),
               "sqr": lambda: f2mul(A, A), "inplace_sqr": lambda: f2mul(A, A), "sqr_u": lambda: f2mulu(f2mul(A, A)), "inv": lambda: f2mul(A, R), "div": lambda: f2mul(R, B),
               "conjugate": lambda: f2conj(A), "frobenius": lambda: f2conj(A)}[name]()
        rhs = A if name in ("haf", "div") else (F2O if name == "inv" else R)
        return 2, [wit(v, x) for v, x in zip(flat2(lhs), flat2(rhs))]
    if lvl == 4:
        A, R = f4b(a), f4b(r); B = f4b(b) if len(b) == 128 else F4Z
        lhs = {"add": lambda: f4add(A, B), "sub": lambda: f4sub(A, B), "neg": lambda: f4neg(A), "dbl": lambda: f4scale(2, A), "haf": lambda: f4scale(2, R), "a_mul_v": lambda: f4mulv(A),
               "mul": lambda: f4mul(A, B), "inplace_mul": lambda: f4mul(A, B), "mul_fp": lambda: f4mulfp(A, k), "mul_fp2": lambda: f4mulfp2(A, f2b(b)), "mul_v": lambda: f4mulv(f4mul(A, B)),
               "sqr": lambda: f4mul(A, A), "inplace_sqr": lambda: f4mul(A, A), "sqr_v": lambda: f4mulv(f4mul(A, A)), "inv": lambda: f4mul(A, R), "conjugate": lambda: f4conj(A)}[name]()
        rhs = A if name == "haf" else (F4O if name == "inv" else R)
        return 4, [wit(v, x) for v, x in zip(flat4(lhs), flat4(rhs))]
    A, R = f12b(a), f12b(r); B = f12b(b) if len(b) == 384 else A
    lhs = {"add": lambda: f12add(A, B), "sub": lambda: f12sub(A, B), "neg": lambda: f12neg(A), "dbl": lambda: f12scale(2, A), "tri": lambda: f12scale(3, A), "mul": lambda: f12mul(A, B),
           "inplace_mul": lambda: f12mul(A, B), "sqr": lambda: f12mul(A, A), "inplace_sqr": lambda: f12mul(A, A), "inv": lambda: f12mul(A, R)}[name]()
    rhs = F12O if name == "inv" else R
    return 12, [wit(v, x) for v, x in zip(flat12(lhs), flat12(rhs))]

def g1_step(P1, P2):
    """affine chord/tangent step on y^2 = x^3 + 5 with the witnesses of Sm9Field!AddOK9 (finite result assumed)"""
    x1, y1 = P1; x2, y2 = P2
    dbl = P1 == P2
    lam = 3 * x1 * x1 * pow(2 * y1, -1, p) % p if dbl else (y2 - y1) * pow(x2 - x1, -1, p) % p
    x3 = (lam * lam - x1 - x2) % p; y3 = (lam * (x1 - x3) - y1) % p
    w1 = wit(lam * 2 * y1, 3 * x1 * x1) if dbl else wit(lam * x2 + y1, lam * x1 + y2)
    # Cong9(A, B): A == B (mod p) as DiffModOK(A, B, p, k, s, 0): side 0: A = B + k p
    def cw(A, B): return {"k": limbs(abs(A - B) // p), "s": 0 if A >= B else 1}
    w1 = cw(lam * 2 * y1, 3 * x1 * x1) if dbl else cw(lam * x2 + y1, lam * x1 + y2)
    w2 = cw(x3 + x1 + x2, lam * lam); w3 = cw(y3 + y1 + lam * x3, lam * x1)
    return {"lam": limbs(lam), "w1k": w1["k"], "w1s": w1["s"], "w2k": w2["k"], "w2s": w2["s"], "w3k": w3["k"], "w3s": w3["s"]}
def oncurve_w(x, y):
    A, B = y * y, x * x * x + 5
    return {"wck": limbs(abs(A - B) // p), "wcs": 0 if A >= B else 1}
def ontwist_w(x, y):
    """witnesses for y^2 - (x^3 + 5u) == 0 over Fp2 (x, y: Fp2 as (a0, a1))"""
    v = f2sub(f2mul(y, y), f2add(f2mul(f2mul(x, x), x), (0, 5)))
    return [wit(c, 0) for c in flat2(v)]
