# Witness makers for the BigNat relations of spec/BigNat.tla and spec/Sm2Curve.tla (untrusted helpers: TLC checks every relation).
from sm2ref import p, a, b, n, G, add, mul
LIMB = 4096
def limbs(v):
    out = []
    while v:
        out.append(v % LIMB); v //= LIMB
    return out
def diffmod(A, B, m):
    """witness (k, side, r) for A == B + r (mod m), 0 <= r < m:  side 0: A = B + r + k*m ; side 1: A + k*m = B + r"""
    r = (A - B) % m
    if A >= B + r:
        return limbs((A - B - r) // m), 0, limbs(r)
    return limbs((B + r - A) // m), 1, limbs(r)
def cong(A, B, m=p):
    k, side, r = diffmod(A, B, m)
    assert r == [], "not congruent"
    return k, side
def add_step(P1, P2):
    """one affine addition/doubling P1 + P2 with its witnesses, as a record for Sm2Judge!StepOK"""
    x1, y1 = P1; x2, y2 = P2
    dbl = P1 == P2
    lam = (3 * x1 * x1 + a) * pow(2 * y1, -1, p) % p if dbl else (y2 - y1) * pow(x2 - x1, -1, p) % p
    x3 = (lam * lam - x1 - x2) % p; y3 = (lam * (x1 - x3) - y1) % p
    w1 = cong(lam * 2 * y1, 3 * x1 * x1 + a) if dbl else cong(lam * x2 + y1, lam * x1 + y2)
    w2 = cong(x3 + x1 + x2, lam * lam)
    w3 = cong(y3 + y1 + lam * x3, lam * x1)
    L = limbs
    return {"x1": L(x1), "y1": L(y1), "x2": L(x2), "y2": L(y2), "x3": L(x3), "y3": L(y3), "lam": L(lam),
            "w1k": w1[0], "w1s": w1[1], "w2k": w2[0], "w2s": w2[1], "w3k": w3[0], "w3s": w3[1], "dbl": dbl}, (x3, y3)
def chain(k, base):
    """left-to-right double-and-add chain for [k]base (k >= 1, never hitting infinity for the k used here)"""
    steps = []
    R = base
    for bit in bin(k)[3:]:
        st, R = add_step(R, R); steps.append(st)
        if bit == '1':
            st, R = add_step(R, base); steps.append(st)
    return steps, R
if __name__ == '__main__':
    k = 0x1234567890abcdef1234567890abcdef
    st, R = chain(k, G); assert R == mul(k, G); print('witness ok', len(st))
