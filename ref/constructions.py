# Reference constructions above the primitives, run over a recording table (Tab).  Every primitive call made here
# becomes a row [p, i, o] of the table handed to TLC, which recomputes the same constructions from spec/Crypto.tla
# and spec/Modes.tla.  The Python results are used only to know which primitive calls are needed (and as a quick
# pre-screen); TLC's evaluation of the TLA+ definitions is the judge.
import struct
import sm3ref, sm4ref, sharef, aesref, gf128ref

ALG = {  # name: (primitive, block, lenbytes, iv words, wordbytes, out)
    "sm3": ("sm3", 64, 8, sm3ref.IV, 4, 32),
    "sha1": ("sha1", 64, 8, sharef.SHA1_IV, 4, 20),
    "sha224": ("sha256", 64, 8, sharef.SHA224_IV, 4, 28),
    "sha256": ("sha256", 64, 8, sharef.SHA256_IV, 4, 32),
    "sha384": ("sha512", 128, 16, sharef.SHA384_IV, 8, 48),
    "sha512": ("sha512", 128, 16, sharef.SHA512_IV, 8, 64),
    "sha512-224": ("sha512", 128, 16, sharef.SHA512_224_IV, 8, 28),
    "sha512-256": ("sha512", 128, 16, sharef.SHA512_256_IV, 8, 32),
}
_CF = {"sm3": (sm3ref.CF, 4), "sha1": (sharef.sha1_cf, 4), "sha256": (sharef.sha256_cf, 4), "sha512": (sharef.sha512_cf, 8)}


class Tab:
    def __init__(self):
        self.rows = {}
        self._rk = {}

    def _rec(self, p, i, o):
        self.rows[(p, bytes(i))] = bytes(o)
        return bytes(o)

    def cf(self, prim, h, block):
        key = (prim, bytes(h) + bytes(block))
        if key in self.rows:
            return self.rows[key]
        fn, wb = _CF[prim]
        words = [int.from_bytes(h[i:i + wb], "big") for i in range(0, len(h), wb)]
        out = b"".join(w.to_bytes(wb, "big") for w in fn(words, bytes(block)))
        return self._rec(prim, bytes(h) + bytes(block), out)

    def E(self, c, k, b):
        key = (c + "e", bytes(k) + bytes(b))
        if key in self.rows:
            return self.rows[key]
        if c == "sm4":
            rk = self._rk.setdefault(bytes(k), sm4ref.rks(bytes(k)))
            o = sm4ref.enc_block(rk, bytes(b))
        else:
            o = aesref.aes_encrypt_block(bytes(k), bytes(b))
        return self._rec(c + "e", bytes(k) + bytes(b), o)

    def D(self, c, k, b):
        key = (c + "d", bytes(k) + bytes(b))
        if key in self.rows:
            return self.rows[key]
        if c == "sm4":
            rk = self._rk.setdefault(bytes(k), sm4ref.rks(bytes(k)))
            o = sm4ref.dec_block(rk, bytes(b))
        else:
            o = aesref.aes_decrypt_block(bytes(k), bytes(b))
        return self._rec(c + "d", bytes(k) + bytes(b), o)

    def gfmul(self, x, y):
        return self._rec("gfmul", bytes(x) + bytes(y), gf128ref.gf128_mul(bytes(x), bytes(y)))

    def json(self):
        return [{"p": p, "i": list(i), "o": list(o)} for (p, i), o in self.rows.items()]


def xor(a, b): return bytes(x ^ y for x, y in zip(a, b))


def md_pad(alg, n):
    prim, B, L, iv, wb, out = ALG[alg]
    z = (B - L - 1 - n) % B
    return b"\x80" + b"\0" * z + (8 * n).to_bytes(L, "big")


def hashn(t, alg, m):
    prim, B, L, iv, wb, out = ALG[alg]
    h = b"".join(w.to_bytes(wb, "big") for w in iv)
    p = bytes(m) + md_pad(alg, len(m))
    for i in range(0, len(p), B):
        h = t.cf(prim, h, p[i:i + B])
    return h[:out]


def hmac(t, alg, key, msg):
    B = ALG[alg][1]
    k = hashn(t, alg, key) if len(key) > B else bytes(key)
    k0 = k + b"\0" * (B - len(k))
    return hashn(t, alg, xor(k0, b"\x5c" * B) + hashn(t, alg, xor(k0, b"\x36" * B) + bytes(msg)))


def pbkdf2(t, alg, pw, salt, it, outlen):
    hl = ALG[alg][5]
    out = b""
    for i in range(1, -(-outlen // hl) + 1):
        u = hmac(t, alg, pw, bytes(salt) + struct.pack(">I", i))
        acc = u
        for _ in range(it - 1):
            u = hmac(t, alg, pw, u)
            acc = xor(acc, u)
        out += acc
    return out[:outlen]


def hkdf_extract(t, alg, salt, ikm):
    return hmac(t, alg, salt if len(salt) else b"\0" * ALG[alg][5], ikm)


def hkdf_expand(t, alg, prk, info, outlen):
    hl = ALG[alg][5]
    out = b""
    prev = b""
    for i in range(1, -(-outlen // hl) + 1):
        prev = hmac(t, alg, prk, prev + bytes(info) + bytes([i]))
        out += prev
    return out[:outlen]


def counter_kdf(t, alg, z, outlen):
    hl = ALG[alg][5]
    return b"".join(hashn(t, alg, bytes(z) + struct.pack(">I", i)) for i in range(1, -(-outlen // hl) + 1))[:outlen]


def tls_prf(t, alg, secret, label, seed, outlen):
    hl = ALG[alg][5]
    s = bytes(label) + bytes(seed)
    a = s
    out = b""
    for _ in range(-(-outlen // hl)):
        a = hmac(t, alg, secret, a)
        out += hmac(t, alg, secret, a + s)
    return out[:outlen]


def hkdf_expand_label(t, alg, secret, label, ctx, outlen):
    info = struct.pack(">H", outlen) + bytes([len(label) + 6]) + b"tls13 " + bytes(label) + bytes([len(ctx)]) + bytes(ctx)
    return hkdf_expand(t, alg, secret, info, outlen)


# ---------------------------------- modes ----------------------------------
def blocks(s): return [s[i:i + 16] for i in range(0, len(s) - len(s) % 16, 16)]


def ecb_enc(t, c, k, m): return b"".join(t.E(c, k, b) for b in blocks(m))
def ecb_dec(t, c, k, m): return b"".join(t.D(c, k, b) for b in blocks(m))


def cbc_enc(t, c, k, iv, m):
    out = b""
    prev = bytes(iv)
    for b in blocks(m):
        prev = t.E(c, k, xor(b, prev))
        out += prev
    return out


def cbc_dec(t, c, k, iv, ct):
    out = b""
    prev = bytes(iv)
    for b in blocks(ct):
        out += xor(t.D(c, k, b), prev)
        prev = b
    return out


def pkcs7(m):
    p = 16 - len(m) % 16
    return bytes(m) + bytes([p]) * p


def unpad(p):
    if not p or len(p) % 16 or not 1 <= p[-1] <= 16 or p[-p[-1]:] != bytes([p[-1]]) * p[-1]:
        return None
    return p[:-p[-1]]


def cbc_pad_enc(t, c, k, iv, m): return cbc_enc(t, c, k, iv, pkcs7(m))
def cbc_pad_dec(t, c, k, iv, ct): return None if (not ct or len(ct) % 16) else unpad(cbc_dec(t, c, k, iv, ct))


def ctr_block(ctr, n, w):
    v = (int.from_bytes(ctr[16 - w:], "big") + n) % (1 << (8 * w))
    return bytes(ctr[:16 - w]) + v.to_bytes(w, "big")


def ctr_stream(t, c, k, ctr, n, w): return b"".join(t.E(c, k, ctr_block(ctr, i, w)) for i in range(-(-n // 16)))[:n]
def ctr_enc(t, c, k, ctr, m): return xor(m, ctr_stream(t, c, k, ctr, len(m), 16))
def ctr32_enc(t, c, k, ctr, m): return xor(m, ctr_stream(t, c, k, ctr, len(m), 4))


def ofb_enc(t, c, k, iv, m):
    ks = b""
    x = bytes(iv)
    while len(ks) < len(m):
        x = t.E(c, k, x)
        ks += x
    return xor(m, ks)


def cfb(t, c, k, iv, s, data, enc):
    reg = bytes(iv)
    out = b""
    for j in range(0, len(data), s):
        seg = data[j:j + s]
        o = xor(seg, t.E(c, k, reg)[:len(seg)])
        out += o
        fb = o if enc else seg
        reg = reg[s:] + fb + b"\0" * (s - len(fb))
    return out


def mulx(tw):
    v = int.from_bytes(tw, "big")
    lsb = v & 1
    v >>= 1
    if lsb:
        v ^= 0xE1 << 120
    return v.to_bytes(16, "big")


def xts(t, c, k1, k2, tweak, m, enc):
    f = (lambda tw, b: xor(t.E(c, k1, xor(b, tw)), tw)) if enc else (lambda tw, b: xor(t.D(c, k1, xor(b, tw)), tw))
    tws = [t.E(c, k2, tweak)]
    n, r = divmod(len(m), 16)
    for _ in range(n + 1):
        tws.append(mulx(tws[-1]))
    full = n if r == 0 else n - 1
    out = b"".join(f(tws[i], m[16 * i:16 * i + 16]) for i in range(full))
    if r == 0:
        return out
    if enc:
        cc = f(tws[n - 1], m[16 * (n - 1):16 * n])
        pp = m[16 * n:] + cc[r:]
        return out + f(tws[n], pp) + cc[:r]
    pp = f(tws[n], m[16 * (n - 1):16 * n])
    cc = m[16 * n:] + pp[r:]
    return out + f(tws[n - 1], cc) + pp[:r]


def cbc_mac(t, c, k, m):
    if not m:
        return b"\0" * 16
    p = bytes(m) + b"\0" * (-len(m) % 16)
    x = b"\0" * 16
    for b in blocks(p):
        x = t.E(c, k, xor(x, b))
    return x


def zpad(s): return bytes(s) + b"\0" * (-len(s) % 16)


def ghash_blocks(t, h, s):
    x = b"\0" * 16
    for b in blocks(s):
        x = t.gfmul(xor(x, b), h)
    return x


def ghash(t, h, aad, ct): return ghash_blocks(t, h, zpad(aad) + zpad(ct) + (8 * len(aad)).to_bytes(8, "big") + (8 * len(ct)).to_bytes(8, "big"))


def gcm_j0(t, h, iv):
    return bytes(iv) + b"\0\0\0\1" if len(iv) == 12 else ghash_blocks(t, h, zpad(iv) + b"\0" * 8 + (8 * len(iv)).to_bytes(8, "big"))


def gcm_enc(t, c, k, iv, aad, m, taglen):
    h = t.E(c, k, b"\0" * 16)
    j0 = gcm_j0(t, h, iv)
    ct = xor(m, ctr_stream(t, c, k, ctr_block(j0, 1, 4), len(m), 4))
    tag = xor(t.E(c, k, j0), ghash(t, h, aad, ct))
    return ct, tag[:taglen]


def gcm_dec(t, c, k, iv, aad, ct, tag):
    h = t.E(c, k, b"\0" * 16)
    j0 = gcm_j0(t, h, iv)
    full = xor(t.E(c, k, j0), ghash(t, h, aad, ct))
    pt = xor(ct, ctr_stream(t, c, k, ctr_block(j0, 1, 4), len(ct), 4))   # rows needed only when the tag matches; harmless otherwise
    return pt if full[:len(tag)] == bytes(tag) else None


def ccm_b0(nonce, alen, mlen, tlen):
    q = 15 - len(nonce)
    flags = (64 if alen else 0) + 8 * ((tlen - 2) // 2) + (q - 1)
    return bytes([flags]) + bytes(nonce) + mlen.to_bytes(q, "big")


def ccm_aad(alen): return b"" if alen == 0 else (alen.to_bytes(2, "big") if alen < 65280 else b"\xff\xfe" + alen.to_bytes(4, "big"))
def ccm_ctr(nonce, i): return bytes([15 - len(nonce) - 1]) + bytes(nonce) + i.to_bytes(15 - len(nonce), "big")


def ccm_tag_raw(t, c, k, nonce, aad, m, tlen):
    b = ccm_b0(nonce, len(aad), len(m), tlen) + (zpad(ccm_aad(len(aad)) + bytes(aad)) if len(aad) else b"") + zpad(m)
    x = b"\0" * 16
    for blk in blocks(b):
        x = t.E(c, k, xor(x, blk))
    return x


def ccm_stream(t, c, k, nonce, n): return b"".join(t.E(c, k, ccm_ctr(nonce, i)) for i in range(1, -(-n // 16) + 1))[:n]


def ccm_enc(t, c, k, nonce, aad, m, tlen):
    ct = xor(m, ccm_stream(t, c, k, nonce, len(m)))
    return ct, xor(ccm_tag_raw(t, c, k, nonce, aad, m, tlen), t.E(c, k, ccm_ctr(nonce, 0)))[:tlen]


def ccm_dec(t, c, k, nonce, aad, ct, tag):
    m = xor(ct, ccm_stream(t, c, k, nonce, len(ct)))
    tt = xor(ccm_tag_raw(t, c, k, nonce, aad, m, len(tag)), t.E(c, k, ccm_ctr(nonce, 0)))[:len(tag)]
    return m if tt == bytes(tag) else None


def cbc_hmac_enc(t, k, mk, iv, aad, m):
    ct = cbc_pad_enc(t, "sm4", k, iv, m)
    return ct + hmac(t, "sm3", mk, bytes(aad) + ct)


def cbc_hmac_dec(t, k, mk, iv, aad, data):
    if len(data) < 48:
        return None
    ct, mac = data[:-32], data[-32:]
    good = hmac(t, "sm3", mk, bytes(aad) + ct) == mac
    pt = cbc_pad_dec(t, "sm4", k, iv, ct)
    return pt if good else None


def ctr_hmac_enc(t, k, mk, ctr, aad, m):
    ct = ctr_enc(t, "sm4", k, ctr, m)
    return ct + hmac(t, "sm3", mk, bytes(aad) + ct)


def ctr_hmac_dec(t, k, mk, ctr, aad, data):
    if len(data) < 32:
        return None
    ct, mac = data[:-32], data[-32:]
    good = hmac(t, "sm3", mk, bytes(aad) + ct) == mac
    pt = ctr_enc(t, "sm4", k, ctr, ct)
    return pt if good else None


# ---------------------------------- TLS records ----------------------------------
def tls_cbc_body(t, mk, k, seq, hdr3, iv, payload):
    mac = hmac(t, "sm3", mk, bytes(seq) + bytes(hdr3) + len(payload).to_bytes(2, "big") + bytes(payload))
    pl = 16 - (len(payload) + 32) % 16
    return bytes(iv) + cbc_enc(t, "sm4", k, iv, bytes(payload) + mac + bytes([pl - 1]) * pl)


def tls_cbc_open(t, mk, k, seq, hdr3, body):
    if len(body) < 64 or len(body) % 16:
        return None
    pt = cbc_dec(t, "sm4", k, body[:16], body[16:])
    pv = pt[-1]
    if pv + 33 > len(pt) or pt[-pv - 1:] != bytes([pv]) * (pv + 1):
        return None
    payload, mac = pt[:-pv - 33], pt[-pv - 33:-pv - 1]
    good = hmac(t, "sm3", mk, bytes(seq) + bytes(hdr3) + len(payload).to_bytes(2, "big") + payload) == mac
    return payload if good else None


def tls13_body(t, k, iv, seq, typ, payload, padlen):
    inner = bytes(payload) + bytes([typ]) + b"\0" * padlen
    hdr = b"\x17\x03\x03" + (len(inner) + 16).to_bytes(2, "big")
    ct, tag = gcm_enc(t, "sm4", k, xor(iv, b"\0\0\0\0" + bytes(seq)), hdr, inner, 16)
    return ct + tag


def tls13_open(t, k, iv, seq, body):
    if len(body) < 17:
        return None
    hdr = b"\x17\x03\x03" + len(body).to_bytes(2, "big")
    pt = gcm_dec(t, "sm4", k, xor(iv, b"\0\0\0\0" + bytes(seq)), hdr, body[:-16], body[-16:])
    if pt is None:
        return None
    i = len(pt)
    while i and pt[i - 1] == 0:
        i -= 1
    return None if i == 0 else (pt[i - 1], pt[:i - 1])


if __name__ == "__main__":
    import hashlib, hmac as pyhmac
    t = Tab()
    for alg, hn in (("sha1", "sha1"), ("sha224", "sha224"), ("sha256", "sha256"), ("sha384", "sha384"), ("sha512", "sha512"), ("sm3", "sm3")):
        for n in (0, 1, 55, 56, 63, 64, 65, 111, 112, 127, 128, 129, 300):
            m = bytes(range(256))[:n] if n <= 256 else bytes(range(256)) + bytes(n - 256)
            try:
                assert hashn(t, alg, m) == hashlib.new(hn, m).digest(), (alg, n)
                assert hmac(t, alg, b"k" * 200, m) == pyhmac.new(b"k" * 200, m, hn).digest()
            except ValueError:
                pass
    assert pbkdf2(t, "sha256", b"password", b"salt", 2, 40) == hashlib.pbkdf2_hmac("sha256", b"password", b"salt", 2, 40)
    # RFC 5869 test case 1
    prk = hkdf_extract(t, "sha256", bytes(range(13)), b"\x0b" * 22)
    assert prk.hex() == "077709362c2e32df0ddc3f0dc47bba6390b6c73bb50f9c3122ec844ad7c2b3e5"
    assert hkdf_expand(t, "sha256", prk, bytes(range(0xf0, 0xfa)), 42).hex() == "3cb25f25faacd57a90434f64d0362f2a2d2d0a90cf1a5a4c5db02d56ecc4c5bf34007208d5b887185865"
    # SP 800-38A F.2.1 CBC-AES128, F.5.1 CTR, SP 800-38C example 1, GCM test case 4
    k = bytes.fromhex("2b7e151628aed2a6abf7158809cf4f3c")
    pt = bytes.fromhex("6bc1bee22e409f96e93d7e117393172aae2d8a571e03ac9c9eb76fac45af8e51")
    assert cbc_enc(t, "aes", k, bytes(range(16)), pt).hex() == "7649abac8119b246cee98e9b12e9197d5086cb9b507219ee95db113a917678b2"
    assert ctr_enc(t, "aes", k, bytes.fromhex("f0f1f2f3f4f5f6f7f8f9fafbfcfdfeff"), pt).hex() == "874d6191b620e3261bef6864990db6ce9806f66b7970fdff8617187bb9fffdff"
    assert cfb(t, "aes", k, bytes(range(16)), 16, pt, True).hex() == "3b3fd92eb72dad20333449f8e83cfb4ac8a64537a0b3a93fcde3cdad9f1ce58b"
    assert ofb_enc(t, "aes", k, bytes(range(16)), pt).hex() == "3b3fd92eb72dad20333449f8e83cfb4a7789508d16918f03f53c52dac54ed825"
    ck = bytes.fromhex("404142434445464748494a4b4c4d4e4f")
    ct, tag = ccm_enc(t, "aes", ck, bytes.fromhex("10111213141516"), bytes.fromhex("0001020304050607"), bytes.fromhex("20212223"), 4)
    assert (ct + tag).hex() == "7162015b4dac255d"
    gk = bytes.fromhex("feffe9928665731c6d6a8f9467308308")
    gp = bytes.fromhex("d9313225f88406e5a55909c5aff5269a86a7a9531534f7da2e4c303d8a318a721c3c0c95956809532fcf0e2449a6b525b16aedf5aa0de657ba637b39")
    ct, tag = gcm_enc(t, "aes", gk, bytes.fromhex("cafebabefacedbaddecaf888"), bytes.fromhex("feedfacedeadbeeffeedfacedeadbeefabaddad2"), gp, 16)
    assert tag.hex() == "5bc94fbc3221a5db94fae95ae7121a47"
    assert gcm_dec(t, "aes", gk, bytes.fromhex("cafebabefacedbaddecaf888"), bytes.fromhex("feedfacedeadbeeffeedfacedeadbeefabaddad2"), ct, tag) == gp
    m = bytes(range(50))
    assert xts(t, "sm4", k, ck, bytes(16), xts(t, "sm4", k, ck, bytes(16), m, True), False) == m
    print("constructions ok")
