# independent AES (FIPS-197) written from the standard text: S-box computed from its definition
# (multiplicative inverse in GF(2^8) mod x^8+x^4+x^3+x+1 followed by the affine map, sec. 5.1.1).
from functools import lru_cache
def xtime(a): a<<=1; return (a^0x11b) if a&0x100 else a
def gmul(a,b):                       # GF(2^8) multiplication, sec. 4.2
    r=0
    while b:
        if b&1: r^=a
        a=xtime(a); b>>=1
    return r
def _sbox():
    inv=[0]*256
    for a in range(1,256):
        for b in range(1,256):
            if gmul(a,b)==1: inv[a]=b; break
    S=[]
    for x in range(256):
        b=inv[x]; y=0
        for i in range(8):           # b'_i = b_i ^ b_(i+4) ^ b_(i+5) ^ b_(i+6) ^ b_(i+7) ^ c_i, c=0x63
            bit=(b>>i ^ b>>((i+4)%8) ^ b>>((i+5)%8) ^ b>>((i+6)%8) ^ b>>((i+7)%8) ^ 0x63>>i)&1
            y|=bit<<i
        S.append(y)
    return S
SBOX=_sbox()
INV_SBOX=[0]*256
for _i,_v in enumerate(SBOX): INV_SBOX[_v]=_i
_M2=[gmul(x,2) for x in range(256)]; _M3=[gmul(x,3) for x in range(256)]
_M9=[gmul(x,9) for x in range(256)]; _M11=[gmul(x,11) for x in range(256)]
_M13=[gmul(x,13) for x in range(256)]; _M14=[gmul(x,14) for x in range(256)]

@lru_cache(maxsize=64)
def key_expansion(key):              # sec. 5.2; returns Nr+1 round keys of 16 bytes (words in order)
    Nk=len(key)//4; assert len(key) in (16,24,32); Nr=Nk+6
    w=[list(key[4*i:4*i+4]) for i in range(Nk)]; rc=1
    for i in range(Nk,4*(Nr+1)):
        t=list(w[i-1])
        if i%Nk==0:
            t=t[1:]+t[:1]; t=[SBOX[b] for b in t]; t[0]^=rc; rc=xtime(rc)
        elif Nk>6 and i%Nk==4: t=[SBOX[b] for b in t]
        w.append([a^b for a,b in zip(w[i-Nk],t)])
    return [sum(w[4*r:4*r+4],[]) for r in range(Nr+1)]

# state is kept as the 16 input bytes in order: index = row + 4*col (sec. 3.4)
_SHIFT=[(i+4*(i%4))%16 for i in range(16)]         # ShiftRows: out[r+4c]=in[r+4((c+r)%4)]
_ISHIFT=[(i-4*(i%4))%16 for i in range(16)]
def _mix(s):
    o=[]
    for c in range(0,16,4):
        a,b,cc,d=s[c:c+4]
        o+=[_M2[a]^_M3[b]^cc^d, a^_M2[b]^_M3[cc]^d, a^b^_M2[cc]^_M3[d], _M3[a]^b^cc^_M2[d]]
    return o
def _imix(s):
    o=[]
    for c in range(0,16,4):
        a,b,cc,d=s[c:c+4]
        o+=[_M14[a]^_M11[b]^_M13[cc]^_M9[d], _M9[a]^_M14[b]^_M11[cc]^_M13[d],
            _M13[a]^_M9[b]^_M14[cc]^_M11[d], _M11[a]^_M13[b]^_M9[cc]^_M14[d]]
    return o
def aes_encrypt_block(key,block):    # Cipher(), sec. 5.1
    assert len(block)==16
    rk=key_expansion(bytes(key)); Nr=len(rk)-1
    s=[a^b for a,b in zip(block,rk[0])]
    for r in range(1,Nr+1):
        s=[SBOX[s[j]] for j in _SHIFT]               # SubBytes+ShiftRows
        if r<Nr: s=_mix(s)
        s=[a^b for a,b in zip(s,rk[r])]
    return bytes(s)
def aes_decrypt_block(key,block):    # InvCipher(), sec. 5.3
    assert len(block)==16
    rk=key_expansion(bytes(key)); Nr=len(rk)-1
    s=[a^b for a,b in zip(block,rk[Nr])]
    for r in range(Nr-1,-1,-1):
        s=[INV_SBOX[s[j]] for j in _ISHIFT]          # InvShiftRows+InvSubBytes
        s=[a^b for a,b in zip(s,rk[r])]
        if r>0: s=_imix(s)
    return bytes(s)

if __name__=='__main__':
    h=bytes.fromhex
    assert SBOX[0]==0x63 and SBOX[1]==0x7c and SBOX[0x53]==0xed and SBOX[0xff]==0x16 and sorted(SBOX)==list(range(256))
    assert gmul(0x57,0x83)==0xc1 and gmul(0x57,0x13)==0xfe           # sec. 4.2 examples
    # Appendix A.1 key expansion spot checks (w4, w43)
    rk=key_expansion(h('2b7e151628aed2a6abf7158809cf4f3c'))
    assert bytes(rk[1][:4]).hex()=='a0fafe17' and bytes(rk[10][12:]).hex()=='b6630ca6'
    # Appendix A.2 / A.3 last words
    assert bytes(key_expansion(h('8e73b0f7da0e6452c810f32b809079e562f8ead2522c6b7b'))[12][12:]).hex()=='01002202'
    assert bytes(key_expansion(h('603deb1015ca71be2b73aef0857d77811f352c073b6108d72d9810a30914dff4'))[14][12:]).hex()=='706c631e'
    # Appendix B
    assert aes_encrypt_block(h('2b7e151628aed2a6abf7158809cf4f3c'),h('3243f6a8885a308d313198a2e0370734')).hex()=='3925841d02dc09fbdc118597196a0b32'
    # Appendix C.1 / C.2 / C.3
    pt=h('00112233445566778899aabbccddeeff')
    for n,ct in [(16,'69c4e0d86a7b0430d8cdb78070b4c55a'),(24,'dda97ca4864cdfe06eaf70a0ec0d7191'),(32,'8ea2b7ca516745bfeafc49904b496089')]:
        k=bytes(range(n))
        assert aes_encrypt_block(k,pt).hex()==ct,n
        assert aes_decrypt_block(k,h(ct))==pt,n
    # SP 800-38A F.1.1 ECB-AES128 block 1 (extra)
    assert aes_encrypt_block(h('2b7e151628aed2a6abf7158809cf4f3c'),h('6bc1bee22e409f96e93d7e117393172a')).hex()=='3ad77bb40d7a3660a89ecaf32466ef97'
    import time; t=time.perf_counter()
    for i in range(2000): pt=aes_encrypt_block(k,pt)
    for i in range(2000): pt=aes_decrypt_block(k,pt)
    dt=(time.perf_counter()-t)/4000
    assert pt==h('00112233445566778899aabbccddeeff')
    print('aesref ok (%.0f us/block)'%(dt*1e6))
