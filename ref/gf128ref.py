# independent GCM GF(2^128) multiplication and GHASH (NIST SP 800-38D sec. 6.3, 6.4) written from the standard.
# Bit order: the leftmost bit of byte 0 is x_0 (coefficient of z^0); R = 11100001 || 0^120.
_R=0xe1<<120
def gf128_mul_int(X,Y):              # Algorithm 1: X . Y on 128-bit ints (big-endian view of the blocks)
    Z=0; V=Y
    for i in range(127,-1,-1):       # x_0 is the most significant bit of the big-endian integer
        if (X>>i)&1: Z^=V
        V=(V>>1)^_R if V&1 else V>>1
    return Z
def gf128_mul(x,y):
    assert len(x)==16 and len(y)==16
    return gf128_mul_int(int.from_bytes(x,'big'),int.from_bytes(y,'big')).to_bytes(16,'big')
def ghash_blocks(h,data):            # Algorithm 2: GHASH_H over a whole number of blocks
    assert len(h)==16 and len(data)%16==0
    H=int.from_bytes(h,'big'); Y=0
    for i in range(0,len(data),16): Y=gf128_mul_int(Y^int.from_bytes(data[i:i+16],'big'),H)
    return Y.to_bytes(16,'big')
def ghash(h,aad,ct):                 # S of Algorithm 4 step 5: GHASH_H(A || 0^v || C || 0^u || [len(A)]_64 || [len(C)]_64)
    pad=lambda b: bytes(b)+bytes(-len(b)%16)
    return ghash_blocks(h,pad(aad)+pad(ct)+(8*len(aad)).to_bytes(8,'big')+(8*len(ct)).to_bytes(8,'big'))

if __name__=='__main__':
    import os,sys; sys.path.insert(0,os.path.dirname(os.path.abspath(__file__)))
    from aesref import aes_encrypt_block
    h=bytes.fromhex
    def gcm_encrypt(key,iv,aad,pt):  # Algorithm 4 with AES from aesref
        H=aes_encrypt_block(key,bytes(16))
        J0=iv+b'\x00\x00\x00\x01' if len(iv)==12 else ghash(H,b'',iv)   # for len!=96: GHASH(IV||0^(s+64)||[len(IV)]_64)
        inc=lambda b: b[:12]+((int.from_bytes(b[12:],'big')+1)&0xffffffff).to_bytes(4,'big')
        ct=bytearray(); cb=J0
        for i in range(0,len(pt),16):
            cb=inc(cb); ct+=bytes(a^b for a,b in zip(pt[i:i+16],aes_encrypt_block(key,cb)))
        S=ghash(H,aad,bytes(ct))
        return bytes(ct),bytes(a^b for a,b in zip(S,aes_encrypt_block(key,J0))),H,S
    one=h('80'+'00'*15)               # the multiplicative identity in GCM bit order
    a=h('66e94bd4ef8a2c3b884cfa59ca342b2e'); b=h('0388dace60b6a392f328c2b971b2fe78')
    assert gf128_mul(a,one)==a and gf128_mul(one,a)==a and gf128_mul(a,b)==gf128_mul(b,a)
    assert gf128_mul(h('40'+'00'*15),h('00'*15+'01'))==h('e1'+'00'*15)      # z * z^127 = R
    # GCM spec (McGrew-Viega) test case 1: K=0, IV=0, empty P
    c,t,H,S=gcm_encrypt(bytes(16),bytes(12),b'',b'')
    assert H.hex()=='66e94bd4ef8a2c3b884cfa59ca342b2e' and S==bytes(16) and t.hex()=='58e2fccefa7e3061367f1d57a4e7455a'
    # test case 2
    c,t,H,S=gcm_encrypt(bytes(16),bytes(12),b'',bytes(16))
    assert c.hex()=='0388dace60b6a392f328c2b971b2fe78' and S.hex()=='f38cbb1ad69223dcc3457ae5b6b0f885'
    assert t.hex()=='ab6e47d42cec13bdf53a67b21257bddf'
    assert gf128_mul(c,H).hex()=='5e2ec746917062882c85b0685353deb7'         # X_1 of test case 2
    # test case 3
    K=h('feffe9928665731c6d6a8f9467308308'); IV=h('cafebabefacedbaddecaf888')
    P=h('d9313225f88406e5a55909c5aff5269a86a7a9531534f7da2e4c303d8a318a72'
        '1c3c0c95956809532fcf0e2449a6b525b16aedf5aa0de657ba637b391aafd255')
    C=('42831ec2217774244b7221b784d0d49ce3aa212f2c02a4e035c17e2329aca12e'
       '21d514b25466931c7d8f6a5aac84aa051ba30b396a0aac973d58e091473f5985')
    c,t,H,S=gcm_encrypt(K,IV,b'',P)
    assert H.hex()=='b83b533708bf535d0aa6e52980d53b78' and c.hex()==C
    assert S.hex()=='7f1b32b81b820d02614f8895ac1d4eac' and t.hex()=='4d5c2af327cd64a62cf35abd2ba6fab4'
    # test case 4 (AAD, partial final block)
    A=h('feedfacedeadbeeffeedfacedeadbeefabaddad2')
    c,t,H,S=gcm_encrypt(K,IV,A,P[:60])
    assert c.hex()==C[:120] and S.hex()=='698e57f70e6ecc7fd9463b7260a9ae5f' and t.hex()=='5bc94fbc3221a5db94fae95ae7121a47'
    # test case 5 (64-bit IV -> J0 via GHASH)
    c,t,H,S=gcm_encrypt(K,h('cafebabefacedbad'),A,P[:60])
    assert t.hex()=='3612d2e79e3b0785561be14aaca2fccb'
    print('gf128ref ok')
