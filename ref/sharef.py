# independent SHA-1 / SHA-2 family (FIPS 180-4) written from the standard text.
# Constants are derived the way FIPS 180-4 defines them (fractional parts of square / cube
# roots of the first primes; SHA-512/t IVs via the SHA-512/t IV generation function, sec. 5.3.6).
from math import isqrt
M32=0xffffffff; M64=0xffffffffffffffff
def _primes(n):
    ps=[]; c=2
    while len(ps)<n:
        if all(c%p for p in ps): ps.append(c)
        c+=1
    return ps
def _icbrt(n):
    x=1<<((n.bit_length()+2)//3)
    while True:
        y=(2*x+n//(x*x))//3
        if y>=x: return x
        x=y
_P=_primes(80)
K256=[_icbrt(p<<96)&M32 for p in _P[:64]]          # sec. 4.2.2
K512=[_icbrt(p<<192)&M64 for p in _P]              # sec. 4.2.3
K1=[0x5a827999,0x6ed9eba1,0x8f1bbcdc,0xca62c1d6]   # sec. 4.2.1
SHA1_IV=[0x67452301,0xefcdab89,0x98badcfe,0x10325476,0xc3d2e1f0]
SHA256_IV=[isqrt(p<<64)&M32 for p in _P[:8]]       # sec. 5.3.3
SHA512_IV=[isqrt(p<<128)&M64 for p in _P[:8]]      # sec. 5.3.5
SHA384_IV=[isqrt(p<<128)&M64 for p in _P[8:16]]    # sec. 5.3.4
SHA224_IV=[x&M32 for x in SHA384_IV]               # sec. 5.3.2 (second 32 bits of the same roots)

def _rol32(x,n): return ((x<<n)|(x>>(32-n)))&M32
def _ror32(x,n): return ((x>>n)|(x<<(32-n)))&M32
def _ror64(x,n): return ((x>>n)|(x<<(64-n)))&M64

def sha1_cf(h,block):
    assert len(h)==5 and len(block)==64
    W=[int.from_bytes(block[4*i:4*i+4],'big') for i in range(16)]
    for t in range(16,80): W.append(_rol32(W[t-3]^W[t-8]^W[t-14]^W[t-16],1))
    a,b,c,d,e=h
    for t in range(80):
        if t<20: f=(b&c)^(~b&M32&d)
        elif t<40 or t>=60: f=b^c^d
        else: f=(b&c)^(b&d)^(c&d)
        T=(_rol32(a,5)+f+e+K1[t//20]+W[t])&M32
        e=d; d=c; c=_rol32(b,30); b=a; a=T
    return [(x+y)&M32 for x,y in zip(h,[a,b,c,d,e])]

def sha256_cf(h,block):
    assert len(h)==8 and len(block)==64
    W=[int.from_bytes(block[4*i:4*i+4],'big') for i in range(16)]
    for t in range(16,64):
        x=W[t-2]; s1=_ror32(x,17)^_ror32(x,19)^(x>>10)
        x=W[t-15]; s0=_ror32(x,7)^_ror32(x,18)^(x>>3)
        W.append((s1+W[t-7]+s0+W[t-16])&M32)
    a,b,c,d,e,f,g,hh=h
    for t in range(64):
        S1=_ror32(e,6)^_ror32(e,11)^_ror32(e,25); ch=(e&f)^(~e&M32&g)
        S0=_ror32(a,2)^_ror32(a,13)^_ror32(a,22); maj=(a&b)^(a&c)^(b&c)
        T1=(hh+S1+ch+K256[t]+W[t])&M32; T2=(S0+maj)&M32
        hh=g; g=f; f=e; e=(d+T1)&M32; d=c; c=b; b=a; a=(T1+T2)&M32
    return [(x+y)&M32 for x,y in zip(h,[a,b,c,d,e,f,g,hh])]

def sha512_cf(h,block):
    assert len(h)==8 and len(block)==128
    W=[int.from_bytes(block[8*i:8*i+8],'big') for i in range(16)]
    for t in range(16,80):
        x=W[t-2]; s1=_ror64(x,19)^_ror64(x,61)^(x>>6)
        x=W[t-15]; s0=_ror64(x,1)^_ror64(x,8)^(x>>7)
        W.append((s1+W[t-7]+s0+W[t-16])&M64)
    a,b,c,d,e,f,g,hh=h
    for t in range(80):
        S1=_ror64(e,14)^_ror64(e,18)^_ror64(e,41); ch=(e&f)^(~e&M64&g)
        S0=_ror64(a,28)^_ror64(a,34)^_ror64(a,39); maj=(a&b)^(a&c)^(b&c)
        T1=(hh+S1+ch+K512[t]+W[t])&M64; T2=(S0+maj)&M64
        hh=g; g=f; f=e; e=(d+T1)&M64; d=c; c=b; b=a; a=(T1+T2)&M64
    return [(x+y)&M64 for x,y in zip(h,[a,b,c,d,e,f,g,hh])]

def _ser(h,w): return b''.join(x.to_bytes(w,'big') for x in h)
def pad(m,bs):   # sec. 5.1: 0x80, zeros, bit length in bs/8 bytes (8 for 512-bit blocks, 16 for 1024-bit)
    lb=bs//8; return m+b'\x80'+b'\x00'*((-len(m)-1-lb)%bs)+(8*len(m)).to_bytes(lb,'big')
def _md(m,iv,cf,bs,w,outlen,table):
    h=list(iv); p=pad(bytes(m),bs)
    for i in range(0,len(p),bs):
        h2=cf(h,p[i:i+bs])
        if table is not None: table.append((_ser(h,w),p[i:i+bs],_ser(h2,w)))
        h=h2
    return _ser(h,w)[:outlen]

def _sha512t_iv(t):  # sec. 5.3.6
    name=b'SHA-512/%d'%t
    out=_md(name,[x^0xa5a5a5a5a5a5a5a5 for x in SHA512_IV],sha512_cf,128,8,64,None)
    return [int.from_bytes(out[8*i:8*i+8],'big') for i in range(8)]
SHA512_224_IV=_sha512t_iv(224)
SHA512_256_IV=_sha512t_iv(256)

def sha1(m,table=None): return _md(m,SHA1_IV,sha1_cf,64,4,20,table)
def sha224(m,table=None): return _md(m,SHA224_IV,sha256_cf,64,4,28,table)
def sha256(m,table=None): return _md(m,SHA256_IV,sha256_cf,64,4,32,table)
def sha384(m,table=None): return _md(m,SHA384_IV,sha512_cf,128,8,48,table)
def sha512(m,table=None): return _md(m,SHA512_IV,sha512_cf,128,8,64,table)
def sha512_224(m,table=None): return _md(m,SHA512_224_IV,sha512_cf,128,8,28,table)
def sha512_256(m,table=None): return _md(m,SHA512_256_IV,sha512_cf,128,8,32,table)

if __name__=='__main__':
    # constants as printed in FIPS 180-4
    assert K256[:4]==[0x428a2f98,0x71374491,0xb5c0fbcf,0xe9b5dba5] and K256[63]==0xc67178f2
    assert K512[0]==0x428a2f98d728ae22 and K512[1]==0x7137449123ef65cd and K512[79]==0x6c44198c4a475817
    assert SHA256_IV==[0x6a09e667,0xbb67ae85,0x3c6ef372,0xa54ff53a,0x510e527f,0x9b05688c,0x1f83d9ab,0x5be0cd19]
    assert SHA224_IV==[0xc1059ed8,0x367cd507,0x3070dd17,0xf70e5939,0xffc00b31,0x68581511,0x64f98fa7,0xbefa4fa4]
    assert SHA512_IV==[0x6a09e667f3bcc908,0xbb67ae8584caa73b,0x3c6ef372fe94f82b,0xa54ff53a5f1d36f1,
                       0x510e527fade682d1,0x9b05688c2b3e6c1f,0x1f83d9abfb41bd6b,0x5be0cd19137e2179]
    assert SHA384_IV==[0xcbbb9d5dc1059ed8,0x629a292a367cd507,0x9159015a3070dd17,0x152fecd8f70e5939,
                       0x67332667ffc00b31,0x8eb44a8768581511,0xdb0c2e0d64f98fa7,0x47b5481dbefa4fa4]
    assert SHA512_224_IV==[0x8c3d37c819544da2,0x73e1996689dcd4d6,0x1dfab7ae32ff9c82,0x679dd514582f9fcf,
                           0x0f6d2b697bd44da8,0x77e36f7304c48942,0x3f9d85a86a1d36c8,0x1112e6ad91d692a1]
    assert SHA512_256_IV==[0x22312194fc2bf72c,0x9f555fa3c84c64c2,0x2393b86b6f53b151,0x963877195940eabd,
                           0x96283ee2a88effe3,0xbe5e1e2553863992,0x2b0199fc2c85b8aa,0x0eb72ddc81c52ca2]
    m448=b'abcdbcdecdefdefgefghfghighijhijkijkljklmklmnlmnomnopnopq'
    m896=b'abcdefghbcdefghicdefghijdefghijkefghijklfghijklmghijklmnhijklmnoijklmnopjklmnopqklmnopqrlmnopqrsmnopqrstnopqrstu'
    assert len(m448)*8==448 and len(m896)*8==896
    V=[(sha1,b'abc','a9993e364706816aba3e25717850c26c9cd0d89d'),
       (sha1,b'','da39a3ee5e6b4b0d3255bfef95601890afd80709'),
       (sha1,m448,'84983e441c3bd26ebaae4aa1f95129e5e54670f1'),
       (sha224,b'abc','23097d223405d8228642a477bda255b32aadbce4bda0b3f7e36c9da7'),
       (sha224,b'','d14a028c2a3a2bc9476102bb288234c415a2b01f828ea62ac5b3e42f'),
       (sha224,m448,'75388b16512776cc5dba5da1fd890150b0c6455cb4f58b1952522525'),
       (sha256,b'abc','ba7816bf8f01cfea414140de5dae2223b00361a396177a9cb410ff61f20015ad'),
       (sha256,b'','e3b0c44298fc1c149afbf4c8996fb92427ae41e4649b934ca495991b7852b855'),
       (sha256,m448,'248d6a61d20638b8e5c026930c3e6039a33ce45964ff2167f6ecedd419db06c1'),
       (sha384,b'abc','cb00753f45a35e8bb5a03d699ac65007272c32ab0eded1631a8b605a43ff5bed8086072ba1e7cc2358baeca134c825a7'),
       (sha384,b'','38b060a751ac96384cd9327eb1b1e36a21fdb71114be07434c0cc7bf63f6e1da274edebfe76f65fbd51ad2f14898b95b'),
       (sha384,m896,'09330c33f71147e83d192fc782cd1b4753111b173b3b05d22fa08086e3b0f712fcc7c71a557e2db966c3e9fa91746039'),
       (sha512,b'abc','ddaf35a193617abacc417349ae20413112e6fa4e89a97ea20a9eeee64b55d39a2192992a274fc1a836ba3c23a3feebbd454d4423643ce80e2a9ac94fa54ca49f'),
       (sha512,b'','cf83e1357eefb8bdf1542850d66d8007d620e4050b5715dc83f4a921d36ce9ce47d0d13c5d85f2b0ff8318d2877eec2f63b931bd47417a81a538327af927da3e'),
       (sha512,m896,'8e959b75dae313da8cf4f72814fc143f8f7779c6eb9f7fa17299aeadb6889018501d289e4900f7e4331b99dec4b5433ac7d329eeb6dd26545e96e55b874be909'),
       (sha512_224,b'abc','4634270f707b6a54daae7530460842e20e37ed265ceee9a43e8924aa'),
       (sha512_224,b'','6ed0dd02806fa89e25de060c19d3ac86cabb87d6a0ddd05c333b84f4'),
       (sha512_224,m896,'23fec5bb94d60b23308192640b0c453335d664734fe40e7268674af9'),
       (sha512_256,b'abc','53048e2681941ef99b2e29b76b4c7dabe4c2d0c634fc6d46e0e2f13107e7af23'),
       (sha512_256,b'','c672b8d1ef56ed28ab87c3622c5114069bdd3ad7b8f9737498d0c01ecef0967a'),
       (sha512_256,m896,'3928e184fb8690f840da3988121d31be65cb9d3ef83ee6146feac861e19b563a')]
    for f,m,d in V: assert f(m).hex()==d,(f.__name__,m,f(m).hex())
    # table argument: chaining values serialised full width, chain is consistent, last h_out truncates to the digest
    assert (lambda t:(sha224(b'abc',t),t[0][0]))([])[1]==_ser(SHA224_IV,4) and (lambda t:(sha384(b'abc',t),t[0][0]))([])[1]==_ser(SHA384_IV,8)
    for f,w,bs,m in [(sha1,20,64,m448),(sha224,32,64,m448),(sha256,32,64,m448),(sha384,64,128,m896),
                     (sha512,64,128,m896),(sha512_224,64,128,m896),(sha512_256,64,128,m896)]:
        t=[]; d=f(m,t)
        assert len(t)==2 and all(len(a)==w and len(b)==bs and len(c)==w for a,b,c in t)
        assert t[0][2]==t[1][0] and t[1][2][:len(d)]==d and t[0][1][:len(m)+1]==m+b'\x80'
        assert t[1][1]==bytes(bs-2)+(8*len(m)).to_bytes(2,'big')
    # one-million 'a' (FIPS 180 long-message example)
    assert sha1(b'a'*1000000).hex()=='34aa973cd4c4daa4f61eeb2bdbad27316534016f'
    assert sha256(b'a'*1000000).hex()=='cdc76e5c9914fb9281a1c7e284d73e67f1809a48a497200e046d39ccc7112cd0'
    note=''
    try:   # optional cross-check only
        import hashlib
        for n in [0,1,55,56,63,64,65,111,112,119,120,127,128,129,239,240,300]:
            m=bytes((7*i+n)&0xff for i in range(n))
            for f,name in [(sha1,'sha1'),(sha224,'sha224'),(sha256,'sha256'),(sha384,'sha384'),(sha512,'sha512'),
                           (sha512_224,'sha512_224'),(sha512_256,'sha512_256')]:
                try: hh=hashlib.new(name,m)
                except ValueError: continue
                assert hh.hexdigest()==f(m).hex(),(name,n)
        note=' (+hashlib cross-check)'
    except ImportError: pass
    print('sharef ok'+note)
