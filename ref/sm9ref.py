# Independent pure-Python reference for SM9 (GM/T 0044-2016 / GB/T 38635), written from the
# mathematics of the standard.  Standard library only.  NOT constant time, NOT for production.
#
# ---------------------------------------------------------------------------------------------
# CONVENTIONS
#
#  Field tower (as in the standard):
#      Fp2  = Fp [u]/(u^2 + 2)      element (a0, a1)      = a0 + a1*u        a0,a1 ints mod p
#      Fp4  = Fp2[v]/(v^2 - u)      element (b0, b1)      = b0 + b1*v        b0,b1 in Fp2
#      Fp12 = Fp4[w]/(w^3 - v)      element (c0, c1, c2)  = c0 + c1*w + c2*w^2   ci in Fp4
#    so w^6 = u, w^12 = -2.  All tuples are LOW coefficient first.  This is the same order GmSSL
#    uses in memory (sm9_z256_fp2_t a = {a0, a1}, fp4 = {b0, b1}, fp12 = {c0, c1, c2}).
#
#  Byte serialisation (the standard, and GmSSL's *_to_bytes) writes the HIGH coefficient first:
#      Fp2  -> a1 || a0                                  (64 bytes)
#      Fp4  -> b1 || b0            = b1.a1 b1.a0 b0.a1 b0.a0          (128 bytes)
#      Fp12 -> c2 || c1 || c0                                          (384 bytes)
#      G1 point -> 04 || x || y                                        (65 bytes)
#      G2 point -> 04 || x.a1 || x.a0 || y.a1 || y.a0                  (129 bytes)
#
#  Curves:  E : y^2 = x^3 + 5 over Fp           (G1 = E(Fp), cofactor 1)
#           E': y^2 = x^3 + 5u over Fp2         (G2 = order-N subgroup of the twist E'(Fp2))
#           untwist psi: E' -> E(Fp12), (x', y') -> (x' * w^-2, y' * w^-3)
#  Points are affine tuples; the point at infinity is None.
#      G1 point: (x, y)                 G2 point: ((x0, x1), (y0, y1))
#
#  pairing(Q, P): Q in G2 FIRST, P in G1 second (GmSSL's sm9_z256_pairing argument order); it is
#  the standard's R-ate pairing e(P, Q) with final exponentiation (p^12-1)/N.
#
#  Lengths: every klen in this file is in BYTES (GmSSL sm3_kdf convention; the standard uses bits).
#
#  hid bytes: 0x01 sign, 0x02 key exchange, 0x03 encryption.  H1 prefix 0x01, H2 prefix 0x02.
#
#  Public-key encryption: GmSSL's sm9_do_encrypt is the standard's "XOR with KDF" mode
#  (K = K1||K2, |K1| = mlen, |K2| = 32, C2 = M xor K1) but computes C3 with HMAC-SM3(K2, C2),
#  whereas GM/T 0044 defines MAC(K2, Z) = SM3(Z || K2).  encrypt()/decrypt() take mac='hmac'
#  (default, GmSSL compatible) or mac='std' (the standard; needed for the Annex vector).
#  Ciphertext order is C1 || C3 || C2 (GmSSL wraps that as DER SEQUENCE{0, C1, C3, C2}).
# ---------------------------------------------------------------------------------------------

try:
    from sm3ref import sm3
except ImportError:                                            # own small SM3 (GB/T 32905)
    def _rol(x, n):
        n %= 32
        return ((x << n) | (x >> (32 - n))) & 0xffffffff

    def sm3(m, table=None):
        V = [0x7380166f, 0x4914b2b9, 0x172442d7, 0xda8a0600,
             0xa96f30bc, 0x163138aa, 0xe38dee4d, 0xb0fb0e4e]
        m = bytes(m)
        bitlen = 8 * len(m)
        m += b'\x80'
        m += b'\x00' * ((56 - len(m)) % 64) + bitlen.to_bytes(8, 'big')
        for o in range(0, len(m), 64):
            W = [int.from_bytes(m[o + 4 * i:o + 4 * i + 4], 'big') for i in range(16)]
            for j in range(16, 68):
                x = W[j - 16] ^ W[j - 9] ^ _rol(W[j - 3], 15)
                W.append(x ^ _rol(x, 15) ^ _rol(x, 23) ^ _rol(W[j - 13], 7) ^ W[j - 6])
            A, B, C, D, E, F, G, H = V
            for j in range(64):
                T = 0x79cc4519 if j < 16 else 0x7a879d8a
                a12 = _rol(A, 12)
                SS1 = _rol((a12 + E + _rol(T, j)) & 0xffffffff, 7)
                SS2 = SS1 ^ a12
                if j < 16:
                    FF = A ^ B ^ C
                    GG = E ^ F ^ G
                else:
                    FF = (A & B) | (A & C) | (B & C)
                    GG = (E & F) | (~E & 0xffffffff & G)
                TT1 = (FF + D + SS2 + (W[j] ^ W[j + 4])) & 0xffffffff
                TT2 = (GG + H + SS1 + W[j]) & 0xffffffff
                D, C, B, A = C, _rol(B, 9), A, TT1
                H, G, F = G, _rol(F, 19), E
                E = TT2 ^ _rol(TT2, 9) ^ _rol(TT2, 17)
            V = [x ^ y for x, y in zip([A, B, C, D, E, F, G, H], V)]
        return b''.join(x.to_bytes(4, 'big') for x in V)


def sm3_hmac(key, data):
    """HMAC-SM3 (RFC 2104 construction, block size 64)."""
    if len(key) > 64:
        key = sm3(key)
    key = key + b'\x00' * (64 - len(key))
    return sm3(bytes(k ^ 0x5c for k in key) + sm3(bytes(k ^ 0x36 for k in key) + data))


# =============================================================================================
# Parameters
# =============================================================================================
t = 0x600000000058F98A
p = 36 * t**4 + 36 * t**3 + 24 * t**2 + 6 * t + 1
N = 36 * t**4 + 36 * t**3 + 18 * t**2 + 6 * t + 1
TR = 6 * t**2 + 1                       # trace of Frobenius; #E(Fp) = p + 1 - TR = N
B = 5                                   # E: y^2 = x^3 + 5
assert p == 0xB640000002A3A6F1D603AB4FF58EC74521F2934B1A7AEEDBE56F9B27E351457D
assert N == 0xB640000002A3A6F1D603AB4FF58EC74449F2934B18EA8BEEE56EE19CD69ECF25
assert p + 1 - TR == N
ATE_LOOP = 6 * t + 2                    # R-ate loop parameter a = 6t+2

P1 = (0x93DE051D62BF718FF5ED0704487D01D6E1E4086909DC3280E8C4E4817C66DDDD,
      0x21FE8DDA4F21E607631065125C395BBC1C1C00CBFA6024350C464CD70A3EA616)
# The standard prints Fp2 coordinates high coefficient first: x = (x1, x0).  Stored here low first.
P2 = ((0x3722755292130B08D2AAB97FD34EC120EE265948D19C17ABF9B7213BAF82D65B,      # x0
       0x85AEF3D078640C98597B6027B441A01FF1DD2C190F5E93C454806C11D8806141),     # x1
      (0xA7CF28D519BE3DA65F3170153D278FF247EFBA98A71A08116215BBA5C999A7C7,      # y0
       0x17509B092E845C1266BA0D262CBEE6ED0736A96FA347C8BD856DC76B84EBEB96))     # y1

HID_SIGN, HID_EXCH, HID_ENC = 0x01, 0x02, 0x03


# =============================================================================================
# Fp2 = Fp[u]/(u^2+2)
# =============================================================================================
FP2_ZERO = (0, 0)
FP2_ONE = (1, 0)
FP2_U = (0, 1)

def fp2(a0, a1=0): return (a0 % p, a1 % p)
def fp2_add(a, b): return ((a[0] + b[0]) % p, (a[1] + b[1]) % p)
def fp2_sub(a, b): return ((a[0] - b[0]) % p, (a[1] - b[1]) % p)
def fp2_neg(a): return (-a[0] % p, -a[1] % p)
def fp2_mul(a, b): return ((a[0] * b[0] - 2 * a[1] * b[1]) % p, (a[0] * b[1] + a[1] * b[0]) % p)
def fp2_sqr(a): return ((a[0] * a[0] - 2 * a[1] * a[1]) % p, (2 * a[0] * a[1]) % p)
def fp2_mul_fp(a, k): return (a[0] * k % p, a[1] * k % p)
def fp2_mul_u(a): return (-2 * a[1] % p, a[0])                 # (a0 + a1 u) u = -2 a1 + a0 u
def fp2_conj(a): return (a[0], -a[1] % p)                      # = a^p   (u^p = -u)
def fp2_is_zero(a): return a[0] == 0 and a[1] == 0

def fp2_inv(a):
    n = pow(a[0] * a[0] + 2 * a[1] * a[1], -1, p)              # 1/Norm(a), Norm = a0^2 + 2 a1^2
    return (a[0] * n % p, -a[1] * n % p)

def fp2_pow(a, e):
    if e < 0:
        a, e = fp2_inv(a), -e
    r = FP2_ONE
    for bit in bin(e)[2:]:
        r = fp2_sqr(r)
        if bit == '1':
            r = fp2_mul(r, a)
    return r

def fp2_frobenius(a, k=1): return fp2_conj(a) if k & 1 else a


# =============================================================================================
# Fp4 = Fp2[v]/(v^2-u)
# =============================================================================================
FP4_ZERO = (FP2_ZERO, FP2_ZERO)
FP4_ONE = (FP2_ONE, FP2_ZERO)
FP4_V = (FP2_ZERO, FP2_ONE)

def fp4_add(a, b): return (fp2_add(a[0], b[0]), fp2_add(a[1], b[1]))
def fp4_sub(a, b): return (fp2_sub(a[0], b[0]), fp2_sub(a[1], b[1]))
def fp4_neg(a): return (fp2_neg(a[0]), fp2_neg(a[1]))
def fp4_is_zero(a): return fp2_is_zero(a[0]) and fp2_is_zero(a[1])
def fp4_mul_v(a): return (fp2_mul_u(a[1]), a[0])               # (b0 + b1 v) v = u b1 + b0 v

def fp4_mul(a, b):
    return (fp2_add(fp2_mul(a[0], b[0]), fp2_mul_u(fp2_mul(a[1], b[1]))),
            fp2_add(fp2_mul(a[0], b[1]), fp2_mul(a[1], b[0])))

def fp4_sqr(a):
    return (fp2_add(fp2_sqr(a[0]), fp2_mul_u(fp2_sqr(a[1]))),
            fp2_mul_fp(fp2_mul(a[0], a[1]), 2))

def fp4_inv(a):
    n = fp2_inv(fp2_sub(fp2_sqr(a[0]), fp2_mul_u(fp2_sqr(a[1]))))   # 1/(b0^2 - u b1^2)
    return (fp2_mul(a[0], n), fp2_neg(fp2_mul(a[1], n)))

def fp4_pow(a, e):
    if e < 0:
        a, e = fp4_inv(a), -e
    r = FP4_ONE
    for bit in bin(e)[2:]:
        r = fp4_sqr(r)
        if bit == '1':
            r = fp4_mul(r, a)
    return r

def fp4_frobenius(a, k=1):
    # (b0 + b1 v)^(p^k) = b0^(p^k) + b1^(p^k) * v^(p^k - 1) * v ;  v = w^3
    g = _frob_gamma(k)[3]
    return (fp2_frobenius(a[0], k), fp2_mul(fp2_frobenius(a[1], k), g))


# =============================================================================================
# Fp12 = Fp4[w]/(w^3-v)
# =============================================================================================
FP12_ZERO = (FP4_ZERO, FP4_ZERO, FP4_ZERO)
FP12_ONE = (FP4_ONE, FP4_ZERO, FP4_ZERO)
FP12_W = (FP4_ZERO, FP4_ONE, FP4_ZERO)

def fp12_add(a, b): return (fp4_add(a[0], b[0]), fp4_add(a[1], b[1]), fp4_add(a[2], b[2]))
def fp12_sub(a, b): return (fp4_sub(a[0], b[0]), fp4_sub(a[1], b[1]), fp4_sub(a[2], b[2]))
def fp12_neg(a): return (fp4_neg(a[0]), fp4_neg(a[1]), fp4_neg(a[2]))
def fp12_is_one(a): return a == FP12_ONE

def fp12_mul(a, b):
    a0, a1, a2 = a
    b0, b1, b2 = b
    m = fp4_mul
    r0 = fp4_add(m(a0, b0), fp4_mul_v(fp4_add(m(a1, b2), m(a2, b1))))
    r1 = fp4_add(fp4_add(m(a0, b1), m(a1, b0)), fp4_mul_v(m(a2, b2)))
    r2 = fp4_add(fp4_add(m(a0, b2), m(a1, b1)), m(a2, b0))
    return (r0, r1, r2)

def fp12_sqr(a):
    a0, a1, a2 = a
    m = fp4_mul
    a12 = m(a1, a2)
    a01 = m(a0, a1)
    r0 = fp4_add(fp4_sqr(a0), fp4_mul_v(fp4_add(a12, a12)))
    r1 = fp4_add(fp4_add(a01, a01), fp4_mul_v(fp4_sqr(a2)))
    a02 = m(a0, a2)
    r2 = fp4_add(fp4_add(a02, a02), fp4_sqr(a1))
    return (r0, r1, r2)

def fp12_inv(a):
    c0, c1, c2 = a
    A = fp4_sub(fp4_sqr(c0), fp4_mul_v(fp4_mul(c1, c2)))
    Bc = fp4_sub(fp4_mul_v(fp4_sqr(c2)), fp4_mul(c0, c1))
    C = fp4_sub(fp4_sqr(c1), fp4_mul(c0, c2))
    F = fp4_add(fp4_mul(c0, A), fp4_mul_v(fp4_add(fp4_mul(c2, Bc), fp4_mul(c1, C))))
    Fi = fp4_inv(F)
    return (fp4_mul(A, Fi), fp4_mul(Bc, Fi), fp4_mul(C, Fi))

def fp12_pow(a, e):
    if e < 0:
        a, e = fp12_inv(a), -e
    r = FP12_ONE
    for bit in bin(e)[2:]:
        r = fp12_sqr(r)
        if bit == '1':
            r = fp12_mul(r, a)
    return r

_gamma_cache = {}
def _frob_gamma(k):
    """[ (w^(p^k - 1))^i for i in 0..5 ] as Fp2 elements.  w^6 = u so w^(p^k-1) = u^((p^k-1)/6)."""
    k %= 12
    if k not in _gamma_cache:
        assert (p**k - 1) % 6 == 0
        g = fp2_pow(FP2_U, (p**k - 1) // 6)
        L = [FP2_ONE]
        for _ in range(5):
            L.append(fp2_mul(L[-1], g))
        _gamma_cache[k] = L
    return _gamma_cache[k]

def fp12_frobenius(a, k=1):
    """a^(p^k).  Writing a = sum_{i<6} d_i w^i with d_i in Fp2, a^(p^k) = sum d_i^(p^k) g^i w^i,
    g = w^(p^k-1).  In the tower: c0=(d0,d3), c1=(d1,d4), c2=(d2,d5)."""
    g = _frob_gamma(k)
    f = lambda d, i: fp2_mul(fp2_frobenius(d, k), g[i])
    (d0, d3), (d1, d4), (d2, d5) = a
    return ((f(d0, 0), f(d3, 3)), (f(d1, 1), f(d4, 4)), (f(d2, 2), f(d5, 5)))


# =============================================================================================
# G1 = E(Fp): y^2 = x^3 + 5   (affine, None = infinity)
# =============================================================================================
def g1_on_curve(P):
    """P=(x,y) ints.  True iff 0<=x,y<p and y^2 = x^3+5.  Infinity (None) -> True."""
    if P is None:
        return True
    x, y = P
    return 0 <= x < p and 0 <= y < p and (y * y - x * x * x - B) % p == 0

def g1_neg(P): return None if P is None else (P[0], -P[1] % p)

def g1_add(P, Q):
    if P is None: return Q
    if Q is None: return P
    x1, y1 = P
    x2, y2 = Q
    if x1 == x2:
        if (y1 + y2) % p == 0:
            return None
        lam = 3 * x1 * x1 * pow(2 * y1, -1, p) % p
    else:
        lam = (y2 - y1) * pow(x2 - x1, -1, p) % p
    x3 = (lam * lam - x1 - x2) % p
    return (x3, (lam * (x1 - x3) - y1) % p)

def g1_dbl(P): return g1_add(P, P)

def g1_mul(k, P):
    """[k]P, k any integer (reduced mod N)."""
    k %= N
    R = None
    for bit in bin(k)[2:]:
        R = g1_add(R, R)
        if bit == '1':
            R = g1_add(R, P)
    return R

def g1_in_group(P): return P is not None and g1_on_curve(P)     # cofactor 1


# =============================================================================================
# G2 on the twist E'(Fp2): y^2 = x^3 + 5u
# =============================================================================================
B_TWIST = (0, B)                                               # 5u

def g2_on_curve(Q):
    """Q=((x0,x1),(y0,y1)) meaning x = x0 + x1*u, y = y0 + y1*u.  True iff on y^2 = x^3 + 5u.
    (Curve membership only; use g2_in_group for the order-N subgroup check.)"""
    if Q is None:
        return True
    x, y = Q
    if not all(0 <= c < p for c in (x[0], x[1], y[0], y[1])):
        return False
    return fp2_sub(fp2_sqr(y), fp2_add(fp2_mul(fp2_sqr(x), x), B_TWIST)) == FP2_ZERO

def g2_neg(Q): return None if Q is None else (Q[0], fp2_neg(Q[1]))

def _g2_slope(T, V):
    """Slope of the line through T and V on the twist (tangent if T == V); None if vertical."""
    (x1, y1), (x2, y2) = T, V
    if x1 == x2:
        if fp2_is_zero(fp2_add(y1, y2)):
            return None
        return fp2_mul(fp2_mul_fp(fp2_sqr(x1), 3), fp2_inv(fp2_mul_fp(y1, 2)))
    return fp2_mul(fp2_sub(y2, y1), fp2_inv(fp2_sub(x2, x1)))

def g2_add(T, V):
    if T is None: return V
    if V is None: return T
    lam = _g2_slope(T, V)
    if lam is None:
        return None
    x3 = fp2_sub(fp2_sub(fp2_sqr(lam), T[0]), V[0])
    return (x3, fp2_sub(fp2_mul(lam, fp2_sub(T[0], x3)), T[1]))

def g2_dbl(Q): return g2_add(Q, Q)

def g2_mul(k, Q, reduce=True):
    """[k]Q.  k is reduced mod N unless reduce=False (the twist has a cofactor)."""
    if reduce:
        k %= N
    if k < 0:
        k, Q = -k, g2_neg(Q)
    R = None
    for bit in bin(k)[2:]:
        R = g2_add(R, R)
        if bit == '1':
            R = g2_add(R, Q)
    return R

def g2_in_group(Q):
    return Q is not None and g2_on_curve(Q) and g2_mul(N, Q, reduce=False) is None

def g2_frobenius(Q, k=1):
    """The p^k-Frobenius of E(Fp12) pulled back to the twist:
    psi^-1 o pi^k o psi : (x', y') -> (x'^(p^k) * g^-2, y'^(p^k) * g^-3),  g = w^(p^k - 1)."""
    if Q is None:
        return None
    g = _frob_gamma(k)[1]
    gi = fp2_inv(g)
    gi2 = fp2_sqr(gi)
    return (fp2_mul(fp2_frobenius(Q[0], k), gi2), fp2_mul(fp2_frobenius(Q[1], k), fp2_mul(gi2, gi)))

def g2_untwist(Q):
    """psi(Q) in E(Fp12): (x' w^-2, y' w^-3), as a pair of Fp12 elements (for self-checks)."""
    wi = fp12_inv(FP12_W)
    wi2 = fp12_sqr(wi)
    ex = ((Q[0], FP2_ZERO), FP4_ZERO, FP4_ZERO)
    ey = ((Q[1], FP2_ZERO), FP4_ZERO, FP4_ZERO)
    return (fp12_mul(ex, wi2), fp12_mul(ey, fp12_mul(wi2, wi)))


# =============================================================================================
# R-ate pairing
# =============================================================================================
def _line(T, V, P):
    """Line through psi(T), psi(V) (tangent if T == V) evaluated at P in E(Fp), scaled by w^3:
        (yP - yT - lam (xP - xT)) * w^3   with lam = lam' / w, xT = xT'/w^2, yT = yT'/w^3
      = (lam' xT' - yT')  +  (-lam' xP) w^2  +  yP w^3
    The factor w^3 = v lies in Fp4 and vertical lines lie in Fp6; both are removed by the final
    exponentiation, so this equals the standard's g_{T,V}(P) up to such factors."""
    if T is None or V is None:
        return FP12_ONE
    lam = _g2_slope(T, V)
    if lam is None:
        return FP12_ONE
    xP, yP = P
    c00 = fp2_sub(fp2_mul(lam, T[0]), T[1])
    return ((c00, (yP, 0)), FP4_ZERO, (fp2_mul_fp(lam, -xP % p), FP2_ZERO))

def miller_loop(Q, P):
    """f_{6t+2,Q}(P) * l_{[6t+2]Q, pi(Q)}(P) * l_{[6t+2]Q + pi(Q), -pi^2(Q)}(P)  (no final exp)."""
    f = FP12_ONE
    T = Q
    for bit in bin(ATE_LOOP)[3:]:
        f = fp12_mul(fp12_sqr(f), _line(T, T, P))
        T = g2_add(T, T)
        if bit == '1':
            f = fp12_mul(f, _line(T, Q, P))
            T = g2_add(T, Q)
    Q1 = g2_frobenius(Q, 1)
    Q2 = g2_neg(g2_frobenius(Q, 2))
    f = fp12_mul(f, _line(T, Q1, P))
    T = g2_add(T, Q1)
    f = fp12_mul(f, _line(T, Q2, P))
    return f

HARD_EXP = (p**4 - p**2 + 1) // N
assert (p**4 - p**2 + 1) % N == 0

def final_exp(f):
    """f^((p^12-1)/N) = ((f^(p^6-1))^(p^2+1))^((p^4-p^2+1)/N)."""
    f = fp12_mul(fp12_frobenius(f, 6), fp12_inv(f))
    f = fp12_mul(fp12_frobenius(f, 2), f)
    return fp12_pow(f, HARD_EXP)

def final_exp_naive(f):
    return fp12_pow(f, (p**12 - 1) // N)

def pairing(Q, P):
    """R-ate pairing of GM/T 0044: e(P, Q) with P in G1, Q in G2.  NOTE argument order (G2, G1).
    Returns an Fp12 element (nested tuples, low coefficient first)."""
    if Q is None or P is None:
        return FP12_ONE
    if not g1_on_curve(P):
        raise ValueError('P not on E(Fp)')
    if not g2_on_curve(Q):
        raise ValueError("Q not on E'(Fp2)")
    return final_exp(miller_loop(Q, P))


# =============================================================================================
# Serialisation
# =============================================================================================
def i2b(x, n=32): return int(x).to_bytes(n, 'big')
def b2i(b): return int.from_bytes(b, 'big')

def fp2_to_bytes(a): return i2b(a[1]) + i2b(a[0])
def fp4_to_bytes(a): return fp2_to_bytes(a[1]) + fp2_to_bytes(a[0])
def fp12_to_bytes(a):
    """384 bytes, standard order: c2 || c1 || c0, each Fp4 b1 || b0, each Fp2 a1 || a0."""
    return fp4_to_bytes(a[2]) + fp4_to_bytes(a[1]) + fp4_to_bytes(a[0])

def _fp_from(b):
    x = b2i(b)
    if x >= p:
        raise ValueError('field element >= p')
    return x

def fp2_from_bytes(b):
    if len(b) != 64: raise ValueError('length')
    return (_fp_from(b[32:]), _fp_from(b[:32]))
def fp4_from_bytes(b):
    if len(b) != 128: raise ValueError('length')
    return (fp2_from_bytes(b[64:]), fp2_from_bytes(b[:64]))
def fp12_from_bytes(b):
    if len(b) != 384: raise ValueError('length')
    return (fp4_from_bytes(b[256:]), fp4_from_bytes(b[128:256]), fp4_from_bytes(b[:128]))

def g1_to_bytes(P):
    """04 || x || y (65 bytes)."""
    if P is None: raise ValueError('infinity')
    return b'\x04' + i2b(P[0]) + i2b(P[1])

def g1_from_bytes(b):
    if len(b) != 65 or b[0] != 4: raise ValueError('bad G1 encoding')
    P = (_fp_from(b[1:33]), _fp_from(b[33:65]))
    if not g1_on_curve(P): raise ValueError('not on curve')
    return P

def g2_to_bytes(Q):
    """04 || x1 || x0 || y1 || y0 (129 bytes)."""
    if Q is None: raise ValueError('infinity')
    return b'\x04' + fp2_to_bytes(Q[0]) + fp2_to_bytes(Q[1])

def g2_from_bytes(b, check_order=False):
    """GmSSL checks curve membership only; check_order=True additionally checks [N]Q = O."""
    if len(b) != 129 or b[0] != 4: raise ValueError('bad G2 encoding')
    Q = (fp2_from_bytes(b[1:65]), fp2_from_bytes(b[65:129]))
    if not g2_on_curve(Q): raise ValueError('not on twist')
    if check_order and not g2_in_group(Q): raise ValueError('not in G2')
    return Q

# -- minimal DER for the GM/T 0080 containers GmSSL emits --------------------------------------
def _der(tag, body):
    n = len(body)
    if n < 0x80: L = bytes([n])
    else:
        lb = n.to_bytes((n.bit_length() + 7) // 8, 'big')
        L = bytes([0x80 | len(lb)]) + lb
    return bytes([tag]) + L + body

def signature_to_der(h, S):
    """SM9Signature ::= SEQUENCE { h OCTET STRING(32), S BIT STRING(04||x||y) }"""
    return _der(0x30, _der(0x04, i2b(h)) + _der(0x03, b'\x00' + g1_to_bytes(S)))

def ciphertext_to_der(C1, C2, C3):
    """SM9Cipher ::= SEQUENCE { EnType INTEGER(0), C1 BIT STRING, C3 OCTET STRING, C2 OCTET STRING }"""
    return _der(0x30, _der(0x02, b'\x00') + _der(0x03, b'\x00' + g1_to_bytes(C1))
                + _der(0x04, C3) + _der(0x04, C2))


# =============================================================================================
# Hash-to-range and KDF
# =============================================================================================
_HLEN = 8 * ((5 * N.bit_length() + 31) // 32)                  # 8*ceil(5*log2(N)/32) = 320 bits
assert _HLEN == 320

def _Hn(prefix, z):
    """H_prefix(Z, N): Ha = first 40 bytes of SM3(prefix||Z||00000001) || SM3(prefix||Z||00000002);
    result = (Ha mod (N-1)) + 1, in [1, N-1]."""
    ha = b''
    ct = 1
    while 8 * len(ha) < _HLEN:
        ha += sm3(bytes([prefix]) + z + ct.to_bytes(4, 'big'))
        ct += 1
    return b2i(ha[:_HLEN // 8]) % (N - 1) + 1

def H1(id, hid):
    """H1(ID || hid, N).  id: bytes, hid: int 0..255."""
    return _Hn(0x01, bytes(id) + bytes([hid]))

def H2(msg, w_bytes):
    """H2(M || w, N).  w_bytes: the 384-byte serialisation of w."""
    return _Hn(0x02, bytes(msg) + bytes(w_bytes))

def kdf(z, klen):
    """KDF(Z, klen): SM3(Z||ct) for ct=1,2,... (32-bit big endian), klen in BYTES."""
    out = b''
    ct = 1
    while len(out) < klen:
        out += sm3(z + ct.to_bytes(4, 'big'))
        ct += 1
    return out[:klen]


# =============================================================================================
# Keys
# =============================================================================================
def sign_master_pub(ks): return g2_mul(ks, P2)                 # Ppub-s = [ks]P2 in G2
def enc_master_pub(ke): return g1_mul(ke, P1)                  # Ppub-e = [ke]P1 in G1

def _extract_scalar(msk, id, hid):
    t1 = (H1(id, hid) + msk) % N
    if t1 == 0:
        raise ValueError('t1 == 0: master key must be regenerated')
    return msk * pow(t1, -1, N) % N

def sign_key_extract(ks, id, hid=HID_SIGN):
    """dsA = [ks * (H1(ID||hid)+ks)^-1] P1  in G1."""
    return g1_mul(_extract_scalar(ks, id, hid), P1)

def enc_key_extract(ke, id, hid=HID_ENC):
    """deB = [ke * (H1(ID||hid)+ke)^-1] P2  in G2."""
    return g2_mul(_extract_scalar(ke, id, hid), P2)

def exch_key_extract(ke, id):
    """Key-exchange private key: same as enc_key_extract but hid = 0x02."""
    return enc_key_extract(ke, id, HID_EXCH)


# =============================================================================================
# Signature
# =============================================================================================
def sign(Ppubs, dsA, msg, r):
    """Returns (h, S): h int in [1,N-1], S in G1.  Raises ValueError if r == h mod N (standard: retry)."""
    if not 1 <= r < N:
        raise ValueError('r out of range')
    g = pairing(Ppubs, P1)
    w = fp12_pow(g, r)
    h = H2(msg, fp12_to_bytes(w))
    l = (r - h) % N
    if l == 0:
        raise ValueError('l == 0, choose another r')
    return h, g1_mul(l, dsA)

def verify(Ppubs, id, msg, h, S, hid=HID_SIGN):
    if not (isinstance(h, int) and 1 <= h < N):
        return False
    if S is None or not g1_on_curve(S):
        return False
    g = pairing(Ppubs, P1)
    tt = fp12_pow(g, h)
    h1 = H1(id, hid)
    Pq = g2_add(g2_mul(h1, P2), Ppubs)
    u = pairing(Pq, S)
    w = fp12_mul(u, tt)
    return H2(msg, fp12_to_bytes(w)) == h


# =============================================================================================
# KEM and public-key encryption
# =============================================================================================
def _QB(Ppub, id, hid): return g1_add(g1_mul(H1(id, hid), P1), Ppub)

def kem_encap(Ppube, id, r, klen, hid=HID_ENC):
    """Returns (C1, K): C1 = [r]([H1(ID||hid)]P1 + Ppube), K = KDF(x_C1||y_C1 || w || ID, klen),
    w = e(Ppube, P2)^r.  Raises ValueError if K is all zero (standard: retry)."""
    if not 1 <= r < N:
        raise ValueError('r out of range')
    C = g1_mul(r, _QB(Ppube, id, hid))
    w = fp12_pow(pairing(P2, Ppube), r)
    K = kdf(g1_to_bytes(C)[1:] + fp12_to_bytes(w) + bytes(id), klen)
    if klen and not any(K):
        raise ValueError('K all zero, choose another r')
    return C, K

def kem_decap(deB, id, C1, klen):
    """Returns K, or None if C1 is not in G1 or K is all zero."""
    if C1 is None or not g1_on_curve(C1):
        return None
    w = pairing(deB, C1)
    K = kdf(g1_to_bytes(C1)[1:] + fp12_to_bytes(w) + bytes(id), klen)
    if klen and not any(K):
        return None
    return K

K2_LEN = 32

def _mac(mode, k2, c2):
    if mode == 'hmac': return sm3_hmac(k2, c2)                  # GmSSL
    if mode == 'std': return sm3(c2 + k2)                       # GM/T 0044: MAC(K2,Z) = Hv(Z||K2)
    raise ValueError('mac mode')

def encrypt(Ppube, id, msg, r, mac='hmac', hid=HID_ENC):
    """Returns (C1, C2, C3).  Wire order is C1 || C3 || C2.
    K = KDF(C1||w||ID, mlen+32); K1 = K[:mlen]; K2 = K[mlen:]; C2 = M xor K1; C3 = MAC(K2, C2).
    (GmSSL always derives 255+32 bytes and uses K[mlen:mlen+32]; identical since KDF output is
    prefix-stable.)  Raises ValueError if K1 is all zero (standard: retry)."""
    msg = bytes(msg)
    C1, K = kem_encap(Ppube, id, r, len(msg) + K2_LEN, hid)
    K1, K2 = K[:len(msg)], K[len(msg):]
    if msg and not any(K1):
        raise ValueError('K1 all zero, choose another r')
    C2 = bytes(a ^ b for a, b in zip(msg, K1))
    return C1, C2, _mac(mac, K2, C2)

def decrypt(deB, id, C1, C2, C3, mac='hmac'):
    """Returns the plaintext bytes, or None on any failure."""
    C2 = bytes(C2)
    K = kem_decap(deB, id, C1, len(C2) + K2_LEN)
    if K is None:
        return None
    K1, K2 = K[:len(C2)], K[len(C2):]
    if C2 and not any(K1):
        return None
    if _mac(mac, K2, C2) != bytes(C3):
        return None
    return bytes(a ^ b for a, b in zip(C2, K1))


# =============================================================================================
# Key exchange (hid = 0x02).  A is the initiator, B the responder.
# =============================================================================================
def exch_R(Ppube, id_peer, r):
    """R = [r]([H1(ID_peer||0x02)]P1 + Ppube)."""
    if not 1 <= r < N:
        raise ValueError('r out of range')
    return g1_mul(r, _QB(Ppube, id_peer, HID_EXCH))

def exch_RA(Ppube, idB, rA): return exch_R(Ppube, idB, rA)
def exch_RB(Ppube, idA, rB): return exch_R(Ppube, idA, rB)

def _exch_sk(idA, idB, RA, RB, g1, g2, g3, klen):
    z = (bytes(idA) + bytes(idB) + g1_to_bytes(RA)[1:] + g1_to_bytes(RB)[1:]
         + fp12_to_bytes(g1) + fp12_to_bytes(g2) + fp12_to_bytes(g3))
    return kdf(z, klen)

def exch_B(Ppube, idA, idB, deB, rB, RA, RB, klen):
    """Responder: g1 = e(RA, deB), g2 = e(Ppube,P2)^rB, g3 = g1^rB.
    Returns (g1, g2, g3, SK) with SK = KDF(IDA||IDB||RA||RB||g1||g2||g3, klen)."""
    if RA is None or not g1_on_curve(RA):
        raise ValueError('RA not in G1')
    g1 = pairing(deB, RA)
    g2 = fp12_pow(pairing(P2, Ppube), rB)
    g3 = fp12_pow(g1, rB)
    return g1, g2, g3, _exch_sk(idA, idB, RA, RB, g1, g2, g3, klen)

def exch_A(Ppube, idA, idB, deA, rA, RA, RB, klen):
    """Initiator: g1 = e(Ppube,P2)^rA, g2 = e(RB, deA), g3 = g2^rA.  Returns (g1, g2, g3, SK)."""
    if RB is None or not g1_on_curve(RB):
        raise ValueError('RB not in G1')
    g1 = fp12_pow(pairing(P2, Ppube), rA)
    g2 = pairing(deA, RB)
    g3 = fp12_pow(g2, rA)
    return g1, g2, g3, _exch_sk(idA, idB, RA, RB, g1, g2, g3, klen)

def exch_confirm(tag, g1, g2, g3, idA, idB, RA, RB):
    """Optional key confirmation (not implemented by GmSSL):
    SB/S1 = Hash(0x82||g1||Hash(g2||g3||IDA||IDB||RA||RB)),  SA/S2 with tag 0x83."""
    inner = sm3(fp12_to_bytes(g2) + fp12_to_bytes(g3) + bytes(idA) + bytes(idB)
                + g1_to_bytes(RA)[1:] + g1_to_bytes(RB)[1:])
    return sm3(bytes([tag]) + fp12_to_bytes(g1) + inner)


# =============================================================================================
# Self-test
# =============================================================================================
if __name__ == '__main__':
    import random, time, sys
    rnd = random.Random(0x5139)
    results = []
    def check(name, ok, kind):
        results.append((name, ok, kind))
        print('%-4s [%s] %s' % ('ok' if ok else 'FAIL', kind, name))
    H = lambda s: int(s.replace(' ', ''), 16)
    def rfp2(): return (rnd.randrange(p), rnd.randrange(p))
    def rfp4(): return (rfp2(), rfp2())
    def rfp12(): return (rfp4(), rfp4(), rfp4())

    # ---- SM3 / field sanity ------------------------------------------------------------------
    check('sm3("abc")', sm3(b'abc').hex() ==
          '66c7f0f462eeedd9d1f2d46bdc10e4e24167c4875cf2f7a2297da02b8f4ba8e0', 'STD')
    check('u^2=-2, v^2=u, w^3=v', fp2_sqr(FP2_U) == (p - 2, 0) and fp4_sqr(FP4_V) == (FP2_U, FP2_ZERO)
          and fp12_mul(FP12_W, fp12_sqr(FP12_W)) == (FP4_V, FP4_ZERO, FP4_ZERO), 'ALG')
    a, b, c = rfp12(), rfp12(), rfp12()
    check('Fp12 ring laws / sqr / inv',
          fp12_mul(a, b) == fp12_mul(b, a)
          and fp12_mul(fp12_mul(a, b), c) == fp12_mul(a, fp12_mul(b, c))
          and fp12_mul(a, fp12_add(b, c)) == fp12_add(fp12_mul(a, b), fp12_mul(a, c))
          and fp12_sqr(a) == fp12_mul(a, a)
          and fp12_mul(a, fp12_inv(a)) == FP12_ONE, 'ALG')
    a2, a4 = rfp2(), rfp4()
    check('Fp2/Fp4 inv, sqr', fp2_mul(a2, fp2_inv(a2)) == FP2_ONE and fp4_mul(a4, fp4_inv(a4)) == FP4_ONE
          and fp2_sqr(a2) == fp2_mul(a2, a2) and fp4_sqr(a4) == fp4_mul(a4, a4), 'ALG')
    check('frobenius == x^p (Fp2, Fp4, Fp12), frob^k', fp2_frobenius(a2) == fp2_pow(a2, p)
          and fp4_frobenius(a4) == fp4_pow(a4, p)
          and fp12_frobenius(a) == fp12_pow(a, p)
          and fp12_frobenius(a, 2) == fp12_frobenius(fp12_frobenius(a))
          and fp12_frobenius(a, 6) == fp12_frobenius(fp12_frobenius(a, 3), 3)
          and fp12_frobenius(a, 12) == a, 'ALG')
    check('fp12 bytes roundtrip', fp12_from_bytes(fp12_to_bytes(a)) == a and len(fp12_to_bytes(a)) == 384, 'ALG')

    # ---- groups ------------------------------------------------------------------------------
    check('P1 on E, [N]P1 = O', g1_on_curve(P1) and g1_mul(N - 1, P1) == g1_neg(P1), 'STD')
    check("P2 on E', [N]P2 = O", g2_on_curve(P2) and g2_in_group(P2), 'STD')
    check('on-curve predicates reject', not g1_on_curve((P1[0], P1[1] ^ 1))
          and not g2_on_curve((P2[0], (P2[1][0] ^ 1, P2[1][1])))
          and not g2_on_curve(((P2[0][1], P2[0][0]), (P2[1][1], P2[1][0]))), 'ALG')
    ux, uy = g2_untwist(P2)
    check('untwist(P2) on E(Fp12); pi(untwist) == untwist(g2_frobenius)',
          fp12_sub(fp12_sqr(uy), fp12_mul(fp12_sqr(ux), ux)) == ((fp2(B), FP2_ZERO), FP4_ZERO, FP4_ZERO)
          and (fp12_frobenius(ux), fp12_frobenius(uy)) == g2_untwist(g2_frobenius(P2))
          and (fp12_frobenius(ux, 2), fp12_frobenius(uy, 2)) == g2_untwist(g2_frobenius(P2, 2)), 'ALG')
    check('pi(Q) = [p]Q on G2 (trace-zero subgroup)', g2_frobenius(P2) == g2_mul(p % N, P2), 'ALG')
    check('G1/G2 bytes roundtrip', g1_from_bytes(g1_to_bytes(P1)) == P1
          and g2_from_bytes(g2_to_bytes(P2), True) == P2, 'ALG')
    k1, k2 = rnd.randrange(N), rnd.randrange(N)
    check('scalar mul homomorphic', g1_add(g1_mul(k1, P1), g1_mul(k2, P1)) == g1_mul(k1 + k2, P1)
          and g2_add(g2_mul(k1, P2), g2_mul(k2, P2)) == g2_mul(k1 + k2, P2), 'ALG')

    # ---- pairing -----------------------------------------------------------------------------
    t0 = time.perf_counter()
    e0 = pairing(P2, P1)
    dt = time.perf_counter() - t0
    print('     one pairing: %.3f s' % dt)
    check('non-degenerate e(P2,P1) != 1', e0 != FP12_ONE, 'ALG')
    check('e^N == 1', fp12_pow(e0, N) == FP12_ONE, 'ALG')
    check('final_exp == naive f^((p^12-1)/N)',
          final_exp_naive(miller_loop(P2, P1)) == e0, 'ALG')
    sa, sb = rnd.randrange(1, 1 << 20), rnd.randrange(1, 1 << 20)
    check('bilinear e([a]Q,[b]P) == e(Q,P)^(ab), small a,b',
          pairing(g2_mul(sa, P2), g1_mul(sb, P1)) == fp12_pow(e0, sa * sb), 'ALG')
    check('bilinear, full-size a,b; each argument separately',
          pairing(g2_mul(k1, P2), P1) == fp12_pow(e0, k1)
          and pairing(P2, g1_mul(k2, P1)) == fp12_pow(e0, k2), 'ALG')
    check('e(Q,-P) == e(Q,P)^-1, e(O,P) == 1',
          fp12_mul(pairing(P2, g1_neg(P1)), e0) == FP12_ONE and pairing(None, P1) == FP12_ONE, 'ALG')

    # ---- GM/T 0044.2 Annex A: signature --------------------------------------------------------
    ks = H('0130E78459D78545CB54C587E02CF480CE0B66340F319F348A1D5B1F2DC5F4')
    Ppubs = sign_master_pub(ks)
    check('sig: Ppub-s', Ppubs == (
        (H('29DBA116152D1F786CE843ED24A3B573414D2177386A92DD8F14D65696EA5E32'),
         H('9F64080B3084F733E48AFF4B41B565011CE0711C5E392CFB0AB1B6791B94C408')),
        (H('41E00A53DDA532DA1A7CE027B7A46F741006E85F5CDFF0730E75C05FB4E3216D'),
         H('69850938ABEA0112B57329F447E3A0CBAD3E2FDB1A77F335E89E1408D0EF1C25'))), 'STD')
    check('sig: H1(Alice||01)', H1(b'Alice', 1) ==
          H('2ACC468C3926B0BDB2767E99FF26E084DE9CED8DBC7D5FBF418027B667862FAB'), 'STD')
    dsA = sign_key_extract(ks, b'Alice')
    check('sig: dsA', dsA == (H('A5702F05CF1315305E2D6EB64B0DEB923DB1A0BCF0CAFF90523AC8754AA69820'),
                              H('78559A844411F9825C109F5EE3F52D720DD01785392A727BB1556952B2B013D3')), 'STD')
    gs = pairing(Ppubs, P1)
    check('sig: g = e(P1,Ppub-s) first 32 bytes', fp12_to_bytes(gs)[:32].hex().upper() ==
          '4E378FB5561CD0668F906B731AC58FEE25738EDF09CADC7A29C0ABC0177AEA6D', 'STD')
    r = H('033C8616B06704813203DFD00965022ED15975C662337AED648835DC4B1CBE')
    msg = b'Chinese IBS standard'
    check('sig: w = g^r first 32 bytes', fp12_to_bytes(fp12_pow(gs, r))[:32].hex().upper() ==
          '81377B8FDBC2839B4FA2D0E0F8AA6853BBBE9E9C4099608F8612C6078ACD7563', 'STD')
    h, S = sign(Ppubs, dsA, msg, r)
    check('sig: h', h == H('823C4B21E4BD2DFE1ED92C606653E996668563152FC33F55D7BFBB9BD9705ADB'), 'STD')
    check('sig: S', S == (H('73BF96923CE58B6AD0E13E9643A406D8EB98417C50EF1B29CEF9ADB48B6D598C'),
                          H('856712F1C2E0968AB7769F42A99586AED139D5B8B3E15891827CC2ACED9BAA05')), 'STD')
    check('sig: verify ok', verify(Ppubs, b'Alice', msg, h, S), 'ALG')
    check('sig: verify rejects (msg, id, h, S, range)',
          not verify(Ppubs, b'Alice', msg + b'!', h, S) and not verify(Ppubs, b'Alicf', msg, h, S)
          and not verify(Ppubs, b'Alice', msg, h ^ 1, S) and not verify(Ppubs, b'Alice', msg, h, g1_dbl(S))
          and not verify(Ppubs, b'Alice', msg, 0, S) and not verify(Ppubs, b'Alice', msg, N, S)
          and not verify(Ppubs, b'Alice', msg, h, None), 'ALG')
    check('sig: DER length 104', len(signature_to_der(h, S)) == 104, 'ALG')

    # ---- GM/T 0044.4 / .5 Annex A: KEM and encryption ------------------------------------------
    ke = H('01EDEE3778F441F8DEA3D9FA0ACC4E07EE36C93F9A08618AF4AD85CEDE1C22')
    Ppube = enc_master_pub(ke)
    check('enc: Ppub-e', Ppube == (H('787ED7B8A51F3AB84E0A66003F32DA5C720B17ECA7137D39ABC66E3C80A892FF'),
                                   H('769DE61791E5ADC4B9FF85A31354900B202871279A8C49DC3F220F644C57A7B1')), 'STD')
    deB = enc_key_extract(ke, b'Bob')
    check('enc: deB', deB == (
        (H('115BAE85F5D8BC6C3DBD9E5342979ACCCF3C2F4F28420B1CB4F8C0B59A19B158'),
         H('94736ACD2C8C8796CC4785E938301A139A059D3537B6414140B2D31EECF41683')),
        (H('27538A62E7F7BFB51DCE08704796D94C9D56734F119EA44732B50E31CDEB75C1'),
         H('7AA5E47570DA7600CD760A0CF7BEAF71C447F3844753FE74FA7BA92CA7D3B55F'))), 'STD')
    check('enc: deB in G2', g2_in_group(deB), 'ALG')
    rk = H('74015F8489C01EF4270456F9E6475BFB602BDE7F33FD482AB4E3684A6722')
    Ck, Kk = kem_encap(Ppube, b'Bob', rk, 32)
    check('kem: C', Ck == (H('1EDEE2C3F465914491DE44CEFB2CB434AB02C308D9DC5E2067B4FED5AAAC8A0F'),
                           H('1C9B4C435ECA35AB83BB734174C0F78FDE81A53374AFF3B3602BBC5E37BE9A4C')), 'STD')
    check('kem: K', Kk.hex().upper() ==
          '4FF5CF86D2AD40C8F4BAC98D76ABDBDE0C0E2F0A829D3F911EF5B2BCE0695480', 'STD')
    check('kem: decap == encap', kem_decap(deB, b'Bob', Ck, 32) == Kk, 'ALG')
    re_ = H('AAC0541779C8FC45E3E2CB25C12B5D2576B2129AE8BB5EE2CBE5EC9E785C')
    pt = b'Chinese IBE standard'
    C1, C2, C3 = encrypt(Ppube, b'Bob', pt, re_, mac='std')
    check('enc: C1', C1 == (H('2445471164490618E1EE20528FF1D545B0F14C8BCAA44544F03DAB5DAC07D8FF'),
                            H('42FFCA97D57CDDC05EA405F2E586FEB3A6930715532B8000759F13059ED59AC0')), 'STD')
    check('enc: C2 (XOR mode)', C2.hex().upper() == '1B5F5B0E951489682F3E64E1378CDD5DA9513B1C', 'STD')
    check('enc: C3 (standard MAC = SM3(C2||K2))', C3.hex().upper() ==
          'BA672387BCD6DE5016A158A52BB2E7FC429197BCAB70B25AFEE37A2B9DB9F367', 'STD')
    check('enc: decrypt (std mac)', decrypt(deB, b'Bob', C1, C2, C3, mac='std') == pt, 'ALG')
    D1, D2, D3 = encrypt(Ppube, b'Bob', pt, re_)
    check('enc: hmac mode roundtrip, same C1/C2, different C3',
          decrypt(deB, b'Bob', D1, D2, D3) == pt and (D1, D2) == (C1, C2) and D3 != C3
          and D3 == sm3_hmac(kdf(g1_to_bytes(C1)[1:] + fp12_to_bytes(pairing(deB, C1)) + b'Bob', 52)[20:], C2), 'ALG')
    check('enc: decrypt rejects (C2, C3, id, C1, mode)',
          decrypt(deB, b'Bob', D1, D2[:-1] + bytes([D2[-1] ^ 1]), D3) is None
          and decrypt(deB, b'Bob', D1, D2, bytes(32)) is None
          and decrypt(deB, b'Bov', D1, D2, D3) is None
          and decrypt(deB, b'Bob', g1_dbl(D1), D2, D3) is None
          and decrypt(deB, b'Bob', (D1[0], D1[1] ^ 1), D2, D3) is None
          and decrypt(deB, b'Bob', D1, D2, D3, mac='std') is None, 'ALG')
    E1, E2, E3 = encrypt(Ppube, b'Bob', b'', re_)
    check('enc: empty message roundtrip', E2 == b'' and decrypt(deB, b'Bob', E1, E2, E3) == b'', 'ALG')
    check('enc: DER length for 255-byte msg == 367',
          len(ciphertext_to_der(*encrypt(Ppube, b'Bob', bytes(255), re_))) == 367, 'ALG')

    # ---- GM/T 0044.3 Annex A: key exchange -----------------------------------------------------
    kx = H('02E65B0762D042F51F0D23542B13ED8CFA2E9A0E7206361E013A283905E31F')
    Ppubx = enc_master_pub(kx)
    check('exch: Ppub-e', Ppubx == (H('9174542668E8F14AB273C0945C3690C66E5DD09678B86F734C4350567ED06283'),
                                    H('54E598C6BF749A3DACC9FFFEDD9DB6866C50457CFC7AA2A4AD65C3168FF74210')), 'STD')
    deA_x = exch_key_extract(kx, b'Alice')
    deB_x = exch_key_extract(kx, b'Bob')
    rA = H('5879DD1D51E175946F23B1B41E93BA31C584AE59A426EC1046A4D03B06C8')
    rB = H('018B98C44BEF9F8537FB7D071B2C928B3BC65BD3D69E1EEE213564905634FE')
    RA = exch_RA(Ppubx, b'Bob', rA)
    RB = exch_RB(Ppubx, b'Alice', rB)
    check('exch: RA', RA == (H('7CBA5B19069EE66AA79D490413D11846B9BA76DD22567F809CF23B6D964BB265'),
                             H('A9760C99CB6F706343FED05637085864958D6C90902ABA7D405FBEDF7B781599')), 'STD')
    check('exch: RB', RB == (H('861E91485FB7623D2794F495031A35598B493BD45BE37813ABC710FCC1F34482'),
                             H('32D906A469EBC1216A802A7052D5617CD430FB56FBA729D41D9BD668E9EB9600')), 'STD')
    gB = exch_B(Ppubx, b'Alice', b'Bob', deB_x, rB, RA, RB, 16)
    gA = exch_A(Ppubx, b'Alice', b'Bob', deA_x, rA, RA, RB, 16)
    check('exch: both sides agree on g1,g2,g3,SK', gA == gB, 'ALG')
    check('exch: SK', gA[3].hex().upper() == 'C5C13A8F59A97CDEAE64F16A2272A9E7', 'STD')
    check('exch: SB', exch_confirm(0x82, *gB[:3], b'Alice', b'Bob', RA, RB).hex().upper() ==
          '3BB4BCEE8139C960B4D6566DB1E0D5F0B2767680E5E1BF934103E6C66E40FFEE', 'STD')
    check('exch: SA', exch_confirm(0x83, *gA[:3], b'Alice', b'Bob', RA, RB).hex().upper() ==
          '195D1B7256BA7E0E67C71202A25F8C94FF8241702C2F55D613AE1C6B98215172', 'STD')

    # ---- random end-to-end -------------------------------------------------------------------
    ks2, ke2 = rnd.randrange(1, N), rnd.randrange(1, N)
    Pp2, Pe2 = sign_master_pub(ks2), enc_master_pub(ke2)
    ida, idb = b'carol@example', b'dave@example'
    d2 = sign_key_extract(ks2, ida)
    h2, S2 = sign(Pp2, d2, b'hello', rnd.randrange(1, N))
    check('random: sign/verify', verify(Pp2, ida, b'hello', h2, S2) and not verify(Pp2, idb, b'hello', h2, S2), 'ALG')
    de2 = enc_key_extract(ke2, idb)
    m2 = bytes(rnd.randrange(256) for _ in range(77))
    check('random: encrypt/decrypt', decrypt(de2, idb, *encrypt(Pe2, idb, m2, rnd.randrange(1, N))) == m2, 'ALG')
    xa, xb = exch_key_extract(ke2, ida), exch_key_extract(ke2, idb)
    ra2, rb2 = rnd.randrange(1, N), rnd.randrange(1, N)
    RA2, RB2 = exch_RA(Pe2, idb, ra2), exch_RB(Pe2, ida, rb2)
    check('random: exchange agreement', exch_A(Pe2, ida, idb, xa, ra2, RA2, RB2, 48)
          == exch_B(Pe2, ida, idb, xb, rb2, RA2, RB2, 48), 'ALG')

    bad = [n for n, ok, _ in results if not ok]
    print('%d checks, %d failed; STD = value from GM/T 0044 Annex, ALG = algebraic/self-consistency'
          % (len(results), len(bad)))
    sys.exit(1 if bad else 0)
