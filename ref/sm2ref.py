# SM2 reference (GB/T 32918): affine curve arithmetic on Python integers, Z value, sign with explicit nonce,
# verify, KDF, encrypt with explicit nonce, decrypt, ECDH.  Independent of the C library.
from sm3ref import sm3
p=0xfffffffeffffffffffffffffffffffffffffffff00000000ffffffffffffffff
a=p-3; b=0x28e9fa9e9d9f5e344d5a9e4bcf6509a7f39789f515ab8f92ddbcbd414d940e93
n=0xfffffffeffffffffffffffffffffffff7203df6b21c6052b53bbf40939d54123
G=(0x32c4ae2c1f1981195f9904466a39c9948fe30bbff2660be1715a4589334c74c7,0xbc3736a2f4f6779c59bdcee36b692153d0a9877cc62a474002df32e52139f0a0)
DEFAULT_ID=b'1234567812345678'
def on_curve(P):
    if P is None: return False
    x,y=P
    return 0<=x<p and 0<=y<p and (y*y-(x*x*x+a*x+b))%p==0
def add(P,Q):
    if P is None: return Q
    if Q is None: return P
    x1,y1=P; x2,y2=Q
    if x1==x2 and (y1+y2)%p==0: return None
    lam=(3*x1*x1+a)*pow(2*y1,-1,p)%p if P==Q else (y2-y1)*pow(x2-x1,-1,p)%p
    x3=(lam*lam-x1-x2)%p; return (x3,(lam*(x1-x3)-y1)%p)
def neg(P): return None if P is None else (P[0],(-P[1])%p)
def mul(k,P):
    R=None
    if k<0: k=-k; P=neg(P)
    for bit in bin(k)[2:]:
        R=add(R,R)
        if bit=='1': R=add(R,P)
    return R
def i2b(x,l=32): return x.to_bytes(l,'big')
def b2i(b): return int.from_bytes(b,'big')
def zvalue(P,ident=DEFAULT_ID):
    return sm3((len(ident)*8%65536).to_bytes(2,'big')+ident+i2b(a)+i2b(b)+i2b(G[0])+i2b(G[1])+i2b(P[0])+i2b(P[1]))
def digest(P,msg,ident=DEFAULT_ID): return b2i(sm3(zvalue(P,ident)+msg))
def sign_e(d,e,k):
    """returns (r,s) or None when the nonce must be rejected"""
    x1=mul(k,G)[0]; r=(e+x1)%n
    if r==0 or r+k==n: return None
    s=(pow(1+d,-1,n)*(k-r*d))%n
    if s==0: return None
    return r,s
def sign(d,P,msg,k,ident=DEFAULT_ID): return sign_e(d,digest(P,msg,ident),k)
def verify_e(P,e,r,s):
    if not(1<=r<n and 1<=s<n): return False
    t=(r+s)%n
    if t==0: return False
    Q=add(mul(s,G),mul(t,P))
    if Q is None: return False
    return (e+Q[0])%n==r
def verify(P,msg,r,s,ident=DEFAULT_ID): return verify_e(P,digest(P,msg,ident),r,s)
def kdf(z,klen):
    out=b''; ct=1
    while len(out)<klen: out+=sm3(z+ct.to_bytes(4,'big')); ct+=1
    return out[:klen]
def encrypt(P,msg,k):
    """returns (C1 point, C2 bytes, C3 bytes) or None if the KDF output is all zero"""
    C1=mul(k,G); x2,y2=mul(k,P)
    t=kdf(i2b(x2)+i2b(y2),len(msg))
    if not any(t): return None
    C2=bytes(u^v for u,v in zip(msg,t)); C3=sm3(i2b(x2)+msg+i2b(y2))
    return C1,C2,C3
def decrypt(d,C1,C2,C3):
    if not on_curve(C1): return None
    x2,y2=mul(d,C1)
    t=kdf(i2b(x2)+i2b(y2),len(C2))
    if not any(t): return None
    m=bytes(u^v for u,v in zip(C2,t))
    if sm3(i2b(x2)+m+i2b(y2))!=C3: return None
    return m
def ecdh(d,Q): return mul(d,Q)
def sqrt_p(v):
    r=pow(v,(p+1)//4,p)
    return r if r*r%p==v%p else None
def lift_x(x,odd):
    y=sqrt_p((x*x*x+a*x+b)%p)
    if y is None: return None
    if (y&1)!=odd: y=p-y
    return (x,y)
if __name__=='__main__':
    # GB/T 32918.2 Annex A style self-checks on the recommended curve
    assert on_curve(G) and mul(n,G) is None and mul(n-1,G)==neg(G)
    d=0x3945208F7B2144B13F36E38AC6D39F95889393692860B51A42FB81EF4DF7C5B8
    P=mul(d,G)
    assert P==(0x09F9DF311E5421A150DD7D161E4BC5C672179FAD1833FC076BB08FF356F35020,0xCCEA490CE26775A52DC6EA718CC1AA600AED05FBF35E084A6632F6072DA9AD13)
    k=0x59276E27D506861A16680F3AD9C02DCCEF3CC1FA3CDBE4CE6D54B80DEAC1BC21
    r,s=sign(d,P,b'message digest',k)
    assert r==0xF5A03B0648D2C4630EEAC513E1BB81A15944DA3827D5B74143AC7EACEEE720B3 and s==0xB1B6AA29DF212FD8763182BC0D421CA1BB9038FD1F7F42D4840B69C485BBC1AA
    assert verify(P,b'message digest',r,s) and not verify(P,b'message digesu',r,s)
    C=encrypt(P,b'encryption standard',k); assert decrypt(d,*C)==b'encryption standard'
    assert C[2].hex()=='59983c18f809e262923c53aec295d30383b54e39d609d160afcb1908d0bd8766' and C[1].hex()=='21886ca989ca9c7d58087307ca93092d651efa'
    print('sm2ref ok')
