# Reference DER writer/reader and X.509 object builder (independent of the C library).
import time, calendar
from sm2ref import *

def dlen(n):
    if n < 128: return bytes([n])
    b = n.to_bytes((n.bit_length() + 7) // 8, 'big'); return bytes([0x80 + len(b)]) + b
def tlv(t, c): return bytes([t]) + dlen(len(c)) + c
def seq(*xs): return tlv(0x30, b''.join(xs))
def dset(*xs): return tlv(0x31, b''.join(xs))
def dint(v):
    b = v.to_bytes(max(1, (v.bit_length() + 8) // 8), 'big')
    while len(b) > 1 and b[0] == 0 and b[1] < 128: b = b[1:]
    return tlv(2, b)
def dbool(v): return tlv(1, b'\xff' if v else b'\x00')
def doctets(b): return tlv(4, b)
def dbits(b, unused=0): return tlv(3, bytes([unused]) + b)
def dnull(): return b'\x05\x00'
def oid_content(arcs):
    out = b""
    for x in [arcs[0] * 40 + arcs[1]] + list(arcs[2:]):       # X.690 8.19.4: the first two arcs share one subidentifier
        s = [x & 0x7f]; x >>= 7
        while x: s.append(0x80 | (x & 0x7f)); x >>= 7
        out += bytes(reversed(s))
    return out
def oid(arcs): return tlv(6, oid_content(arcs))
def explicit(n, c): return tlv(0xa0 + n, c)
def implicit(n, c, constructed=False): return tlv((0xa0 if constructed else 0x80) + n, c)

OID_SM2SIGN = (1, 2, 156, 10197, 1, 501); OID_EC = (1, 2, 840, 10045, 2, 1); OID_SM2 = (1, 2, 156, 10197, 1, 301)
OID_SM3 = (1, 2, 156, 10197, 1, 401); OID_SM4_CBC = (1, 2, 156, 10197, 1, 104, 2)
OID_AT = {'C': (2, 5, 4, 6), 'ST': (2, 5, 4, 8), 'L': (2, 5, 4, 7), 'O': (2, 5, 4, 10), 'OU': (2, 5, 4, 11), 'CN': (2, 5, 4, 3)}
OID_CE = {'aki': (2, 5, 29, 35), 'ski': (2, 5, 29, 14), 'ku': (2, 5, 29, 15), 'bc': (2, 5, 29, 19), 'eku': (2, 5, 29, 37),
          'san': (2, 5, 29, 17), 'cp': (2, 5, 29, 32), 'crldp': (2, 5, 29, 31), 'nc': (2, 5, 29, 30)}
OID_KP = {'serverAuth': (1, 3, 6, 1, 5, 5, 7, 3, 1), 'clientAuth': (1, 3, 6, 1, 5, 5, 7, 3, 2), 'codeSigning': (1, 3, 6, 1, 5, 5, 7, 3, 3),
          'emailProtection': (1, 3, 6, 1, 5, 5, 7, 3, 4), 'timeStamping': (1, 3, 6, 1, 5, 5, 7, 3, 8), 'OCSPSigning': (1, 3, 6, 1, 5, 5, 7, 3, 9),
          'any': (2, 5, 29, 37, 0)}

def name(attrs):
    """attrs: list of (type, string[, tag]) -> RDNSequence; a plain str means CN with country CN"""
    if isinstance(attrs, str): attrs = [('C', 'CN', 0x13), ('CN', attrs, 0x0c)]
    out = []
    for a in attrs:
        t, v = a[0], a[1]; tag = a[2] if len(a) > 2 else (0x13 if t == 'C' else 0x0c)
        out.append(dset(seq(oid(OID_AT[t]), tlv(tag, v.encode() if isinstance(v, str) else v))))
    return seq(*out)
def utctime(t): return tlv(0x17, time.strftime('%y%m%d%H%M%SZ', time.gmtime(t)).encode())
def gentime(t): return tlv(0x18, time.strftime('%Y%m%d%H%M%SZ', time.gmtime(t)).encode())
def x509time(t): return utctime(t) if time.gmtime(t).tm_year < 2050 else gentime(t)
def point_octets(P): return b'\x04' + i2b(P[0]) + i2b(P[1])
def spki(P): return seq(seq(oid(OID_EC), oid(OID_SM2)), dbits(point_octets(P)))
def ext(o, crit, val): return seq(oid(o), *([dbool(True)] if crit else []), doctets(val))
def ext_bc(ca, plc=None, crit=True):
    inner = (dbool(True) if ca else b'') + (dint(plc) if plc is not None and plc >= 0 else b'')
    return ext(OID_CE['bc'], crit, seq(inner))
KU_BITS = {'digitalSignature': 0, 'nonRepudiation': 1, 'keyEncipherment': 2, 'dataEncipherment': 3, 'keyAgreement': 4,
           'keyCertSign': 5, 'cRLSign': 6, 'encipherOnly': 7, 'decipherOnly': 8}
def ku_bits(names):
    v = 0
    for nm in names: v |= 1 << (15 - KU_BITS[nm])
    b = v.to_bytes(2, 'big')
    if b[1] == 0: b = b[:1]
    last = b[-1]; unused = 0
    while last and not (last & 1): last >>= 1; unused += 1
    if not v: b = b''; unused = 0
    return dbits(b, unused)
def ext_ku(names, crit=True): return ext(OID_CE['ku'], crit, ku_bits(names))
def ext_eku(names, crit=False): return ext(OID_CE['eku'], crit, seq(*[oid(OID_KP[x]) for x in names]))
def ext_ski(kid, crit=False): return ext(OID_CE['ski'], crit, doctets(kid))
def ext_aki(kid, crit=False): return ext(OID_CE['aki'], crit, seq(implicit(0, kid)))
def ext_unknown(crit): return ext((1, 2, 3, 4, 5, 6, 7), crit, doctets(b'xyz'))
def sigval(r, s): return seq(dint(r), dint(s))
def sign_tbs(tbs, d, P, k, ident=DEFAULT_ID): return sign(d, P, tbs, k, ident)
def tbs_cert(serial, issuer, subject, subjP, nb, na, exts, version=2):
    return seq(*([explicit(0, dint(version))] if version else []), dint(serial), seq(oid(OID_SM2SIGN)), name(issuer),
               seq(x509time(nb), x509time(na)), name(subject), spki(subjP), *([explicit(3, seq(*exts))] if exts else []))
def cert(serial, issuer, subject, subjP, nb, na, exts, issuer_d, issuer_P, k, corrupt_sig=False, version=2):
    tbs = tbs_cert(serial, issuer, subject, subjP, nb, na, exts, version)
    r, s = sign(issuer_d, issuer_P, tbs, k)
    if corrupt_sig: s = (s ^ 1) or 2
    return seq(tbs, seq(oid(OID_SM2SIGN)), dbits(sigval(r, s)))

# ---- tiny DER reader (for cross-parsing) ----
def read_tlv(b, off=0):
    t = b[off]; l = b[off + 1]; o = off + 2
    if l & 0x80:
        nb = l & 0x7f; l = int.from_bytes(b[o:o + nb], 'big'); o += nb
    return t, b[o:o + l], o + l
def children(c):
    out = []; o = 0
    while o < len(c):
        t, v, o = read_tlv(c, o); out.append((t, v))
    return out

def pem(label, der):
    import base64
    b = base64.b64encode(der).decode()
    return '-----BEGIN %s-----\n' % label + ''.join(b[i:i + 64] + '\n' for i in range(0, len(b), 64)) + '-----END %s-----\n' % label
