# independent SM3 (GB/T 32905-2016) written from the standard text
M32=0xffffffff
def rol(x,n): n%=32; return ((x<<n)|(x>>(32-n)))&M32
def P0(x): return x^rol(x,9)^rol(x,17)
def P1(x): return x^rol(x,15)^rol(x,23)
IV=[0x7380166f,0x4914b2b9,0x172442d7,0xda8a0600,0xa96f30bc,0x163138aa,0xe38dee4d,0xb0fb0e4e]
def CF(V,B):
    W=[int.from_bytes(B[4*i:4*i+4],'big') for i in range(16)]
    for j in range(16,68):
        W.append(P1(W[j-16]^W[j-9]^rol(W[j-3],15))^rol(W[j-13],7)^W[j-6])
    W1=[W[j]^W[j+4] for j in range(64)]
    A,Bb,C,D,E,F,G,H=V
    for j in range(64):
        T=0x79cc4519 if j<16 else 0x7a879d8a
        SS1=rol((rol(A,12)+E+rol(T,j))&M32,7); SS2=SS1^rol(A,12)
        if j<16: FF=A^Bb^C; GG=E^F^G
        else: FF=(A&Bb)|(A&C)|(Bb&C); GG=(E&F)|((~E)&M32&G)
        TT1=(FF+D+SS2+W1[j])&M32; TT2=(GG+H+SS1+W[j])&M32
        D=C; C=rol(Bb,9); Bb=A; A=TT1; H=G; G=rol(F,19); F=E; E=P0(TT2)
    return [a^b for a,b in zip([A,Bb,C,D,E,F,G,H],V)]
def pad(m):
    l=len(m)*8; m=m+b'\x80'; m+=b'\x00'*((56-len(m))%64); return m+l.to_bytes(8,'big')
def sm3(m, table=None):
    V=IV; p=pad(m)
    for i in range(0,len(p),64):
        V2=CF(V,p[i:i+64])
        if table is not None: table.append((V,p[i:i+64],V2))
        V=V2
    return b''.join(x.to_bytes(4,'big') for x in V)
if __name__=='__main__':
    assert sm3(b'abc').hex()=='66c7f0f462eeedd9d1f2d46bdc10e4e24167c4875cf2f7a2297da02b8f4ba8e0'
    assert sm3(b'abcd'*16).hex()=='debe9ff92275b8a138604889c18e5a4d6fdb70e5387e5765293dcba39c0c5732'
    import hashlib
    try:
        for n in [0,1,55,56,63,64,65,119,120,200]:
            assert hashlib.new('sm3',bytes(range(n%256))*1).hexdigest()==sm3(bytes(range(n%256))).hex()
        print("sm3ref ok (+hashlib cross-check)")
    except ValueError: print("sm3ref ok")
