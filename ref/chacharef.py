# independent ChaCha20 block function (RFC 8439 sec. 2.1-2.4) written from the RFC text
M32=0xffffffff
def _rol(x,n): return ((x<<n)|(x>>(32-n)))&M32
def quarter_round(s,a,b,c,d):        # sec. 2.1 / 2.2, operates in place on the 16-word state
    s[a]=(s[a]+s[b])&M32; s[d]=_rol(s[d]^s[a],16)
    s[c]=(s[c]+s[d])&M32; s[b]=_rol(s[b]^s[c],12)
    s[a]=(s[a]+s[b])&M32; s[d]=_rol(s[d]^s[a],8)
    s[c]=(s[c]+s[d])&M32; s[b]=_rol(s[b]^s[c],7)
def chacha20_state(key,counter,nonce):   # sec. 2.3: constants | key | counter | nonce, all little-endian words
    assert len(key)==32 and len(nonce)==12 and 0<=counter<=M32
    le=lambda b: [int.from_bytes(b[i:i+4],'little') for i in range(0,len(b),4)]
    return [0x61707865,0x3320646e,0x79622d32,0x6b206574]+le(key)+[counter]+le(nonce)
def chacha20_block(key,counter,nonce):
    init=chacha20_state(key,counter,nonce); s=list(init)
    for _ in range(10):
        quarter_round(s,0,4,8,12); quarter_round(s,1,5,9,13); quarter_round(s,2,6,10,14); quarter_round(s,3,7,11,15)
        quarter_round(s,0,5,10,15); quarter_round(s,1,6,11,12); quarter_round(s,2,7,8,13); quarter_round(s,3,4,9,14)
    return b''.join(((a+b)&M32).to_bytes(4,'little') for a,b in zip(s,init))
def chacha20_encrypt(key,counter,nonce,data):   # sec. 2.4
    out=bytearray()
    for j in range(0,len(data),64):
        ks=chacha20_block(key,(counter+j//64)&M32,nonce)
        out+=bytes(a^b for a,b in zip(data[j:j+64],ks))
    return bytes(out)

if __name__=='__main__':
    h=bytes.fromhex
    # sec. 2.1.1 quarter round
    s=[0x11111111,0x01020304,0x9b8d6f43,0x01234567]; quarter_round(s,0,1,2,3)
    assert s==[0xea2a92f4,0xcb1cf8ce,0x4581472e,0x5881c4bb]
    # sec. 2.3.2 block function
    key=bytes(range(32))
    assert chacha20_block(key,1,h('000000090000004a00000000')).hex()==(
        '10f1e7e4d13b5915500fdd1fa32071c4c7d1f4c733c068030422aa9ac3d46c4e'
        'd2826446079faa0914c2d705d98b02a2b5129cd1de164eb9cbd083e8a2503c4e')
    # sec. 2.4.2 encryption
    pt=(b"Ladies and Gentlemen of the class of '99: If I could offer you only one tip for the future, "
        b"sunscreen would be it.")
    n=h('000000000000004a00000000')
    assert len(pt)==114
    assert chacha20_block(key,1,n).hex()==('224f51f3401bd9e12fde276fb8631ded8c131f823d2c06e27e4fcaec9ef3cf78'
                                           '8a3b0aa372600a92b57974cded2b9334794cba40c63e34cdea212c4cf07d41b7')
    assert chacha20_block(key,2,n)[:50].hex()==('69a6749f3f630f4122cafe28ec4dc47e26d4346d70b98c73f3e9c53ac40c5945'
                                                '398b6eda1a832c89c167eacd901d7e2bf363')
    ct=chacha20_encrypt(key,1,n,pt)
    assert ct.hex()==('6e2e359a2568f98041ba0728dd0d6981e97e7aec1d4360c20a27afccfd9fae0b'
                      'f91b65c5524733ab8f593dabcd62b3571639d624e65152ab8f530c359f0861d8'
                      '07ca0dbf500d6a6156a38e088a22b65e52bc514d16ccf806818ce91ab7793736'
                      '5af90bbf74a35be6b40b8eedf2785e42874d')
    assert chacha20_encrypt(key,1,n,ct)==pt
    # appendix A.1 test vector #1 (all-zero key/nonce, counter 0)
    assert chacha20_block(bytes(32),0,bytes(12)).hex()==(
        '76b8e0ada0f13d90405d6ae55386bd28bdd219b8a08ded1aa836efcc8b770dc7'
        'da41597c5157488d7724e03fb8d84a376a43b8f41518a11cc387b669b2ee6586')
    print('chacharef ok')
