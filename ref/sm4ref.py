# independent SM4 (GB/T 32907-2016) from the standard text
SBOX=bytes.fromhex(
"d690e9fecce13db716b614c228fb2c052b679a762abe04c3aa441326498606999c4250f491ef987a33540b43edcfac62"
"e4b31ca9c908e89580df94fa758f3fa64707a7fcf37317ba83593c19e6854fa8686b81b27164da8bf8eb0f4b70569d35"
"1e240e5e6358d1a225227c3b01217887d40046579fd327524c3602e7a0c4c89eeabf8ad240c738b5a3f7f2cef96115a1"
"e0ae5da49b341a55ad933230f58cb1e31df6e22e8266ca60c02923ab0d534e6fd5db3745defd8e2f03ff6a726d6c5b51"
"8d1baf92bbddbc7f11d95c411f105ad80ac13188a5cd7bbd2d74d012b8e5b4b08969974a0c96777e65b9f109c56ec684"
"18f07dec3adc4d2079ee5f3ed7cb3948")
FK=[0xa3b1bac6,0x56aa3350,0x677d9197,0xb27022dc]
CK=[sum((((4*i+j)*7)%256)<<(24-8*j) for j in range(4)) for i in range(32)]
M=0xffffffff
def rol(x,n): return ((x<<n)|(x>>(32-n)))&M
def tau(a): return int.from_bytes(bytes(SBOX[b] for b in a.to_bytes(4,'big')),'big')
def Lf(b): return b^rol(b,2)^rol(b,10)^rol(b,18)^rol(b,24)
def Lk(b): return b^rol(b,13)^rol(b,23)
def rks(key):
    K=[int.from_bytes(key[4*i:4*i+4],'big')^FK[i] for i in range(4)]
    for i in range(32): K.append(K[i]^Lk(tau(K[i+1]^K[i+2]^K[i+3]^CK[i])))
    return K[4:]
def enc_block(rk,blk):
    X=[int.from_bytes(blk[4*i:4*i+4],'big') for i in range(4)]
    for i in range(32): X.append(X[i]^Lf(tau(X[i+1]^X[i+2]^X[i+3]^rk[i])))
    return b''.join(x.to_bytes(4,'big') for x in X[35:31:-1])
if __name__=='__main__':
    k=bytes.fromhex('0123456789abcdeffedcba9876543210')
    assert enc_block(rks(k),k).hex()=='681edf34d206965e86b3e94f536e4246'; print('sm4ref ok')
def dec_block(rk,blk): return enc_block(rk[::-1],blk)
