# independent ZUC-128 (3GPP "Specification of the 3GPP Confidentiality and Integrity Algorithms 128-EEA3 &
# 128-EIA3, Document 2: ZUC Specification" / GM/T 0001), 128-EEA3 / 128-EIA3 (Document 1, TS 35.221),
# and ZUC-256 (ZUC design team, "The ZUC-256 Stream Cipher", 2018), written from the specification texts.
M31=0x7fffffff; M32=0xffffffff

# S0: the three-round Feistel-like construction over 4-bit P1,P2,P3 with final <<<5 given in the ZUC design and
# evaluation report; S1: the table from the specification (self-test checks it is affine-of-inverse in GF(2^8)).
_P1=[9,15,0,14,15,15,2,10,0,4,0,12,7,5,3,9]
_P2=[8,13,6,5,7,0,12,4,11,1,14,10,15,3,9,2]
_P3=[2,6,10,6,0,13,10,15,3,3,13,5,0,9,12,13]
def _s0(x):
    x1,x2=x>>4,x&15
    q1=x1^_P1[x2]; q2=x2^_P2[q1]; q3=q1^_P3[q2]
    y=(q3<<4)|q2
    return ((y<<5)|(y>>3))&0xff
S0=[_s0(x) for x in range(256)]
S1=[0x55,0xc2,0x63,0x71,0x3b,0xc8,0x47,0x86,0x9f,0x3c,0xda,0x5b,0x29,0xaa,0xfd,0x77,
    0x8c,0xc5,0x94,0x0c,0xa6,0x1a,0x13,0x00,0xe3,0xa8,0x16,0x72,0x40,0xf9,0xf8,0x42,
    0x44,0x26,0x68,0x96,0x81,0xd9,0x45,0x3e,0x10,0x76,0xc6,0xa7,0x8b,0x39,0x43,0xe1,
    0x3a,0xb5,0x56,0x2a,0xc0,0x6d,0xb3,0x05,0x22,0x66,0xbf,0xdc,0x0b,0xfa,0x62,0x48,
    0xdd,0x20,0x11,0x06,0x36,0xc9,0xc1,0xcf,0xf6,0x27,0x52,0xbb,0x69,0xf5,0xd4,0x87,
    0x7f,0x84,0x4c,0xd2,0x9c,0x57,0xa4,0xbc,0x4f,0x9a,0xdf,0xfe,0xd6,0x8d,0x7a,0xeb,
    0x2b,0x53,0xd8,0x5c,0xa1,0x14,0x17,0xfb,0x23,0xd5,0x7d,0x30,0x67,0x73,0x08,0x09,
    0xee,0xb7,0x70,0x3f,0x61,0xb2,0x19,0x8e,0x4e,0xe5,0x4b,0x93,0x8f,0x5d,0xdb,0xa9,
    0xad,0xf1,0xae,0x2e,0xcb,0x0d,0xfc,0xf4,0x2d,0x46,0x6e,0x1d,0x97,0xe8,0xd1,0xe9,
    0x4d,0x37,0xa5,0x75,0x5e,0x83,0x9e,0xab,0x82,0x9d,0xb9,0x1c,0xe0,0xcd,0x49,0x89,
    0x01,0xb6,0xbd,0x58,0x24,0xa2,0x5f,0x38,0x78,0x99,0x15,0x90,0x50,0xb8,0x95,0xe4,
    0xd0,0x91,0xc7,0xce,0xed,0x0f,0xb4,0x6f,0xa0,0xcc,0xf0,0x02,0x4a,0x79,0xc3,0xde,
    0xa3,0xef,0xea,0x51,0xe6,0x6b,0x18,0xec,0x1b,0x2c,0x80,0xf7,0x74,0xe7,0xff,0x21,
    0x5a,0x6a,0x54,0x1e,0x41,0x31,0x92,0x35,0xc4,0x33,0x07,0x0a,0xba,0x7e,0x0e,0x34,
    0x88,0xb1,0x98,0x7c,0xf3,0x3d,0x60,0x6c,0x7b,0xca,0xd3,0x1f,0x32,0x65,0x04,0x28,
    0x64,0xbe,0x85,0x9b,0x2f,0x59,0x8a,0xd7,0xb0,0x25,0xac,0xaf,0x12,0x03,0xe2,0xf2]
_used0=None; _used1=None             # optional S-box coverage tracking for the self-test

def _rol31(x,n): return ((x<<n)|(x>>(31-n)))&M31
def _rol32(x,n): return ((x<<n)|(x>>(32-n)))&M32
def _add31(a,b): c=a+b; return (c&M31)+(c>>31)
def _L1(x): return x^_rol32(x,2)^_rol32(x,10)^_rol32(x,18)^_rol32(x,24)
def _L2(x): return x^_rol32(x,8)^_rol32(x,14)^_rol32(x,22)^_rol32(x,30)
def _S(x):
    b0,b1,b2,b3=x>>24,(x>>16)&255,(x>>8)&255,x&255
    if _used0 is not None: _used0.update((b0,b2)); _used1.update((b1,b3))
    return (S0[b0]<<24)|(S1[b1]<<16)|(S0[b2]<<8)|S1[b3]

class _Zuc:
    """LFSR s[0..15] (31-bit cells) + FSM registers R1,R2; shared by ZUC-128 and ZUC-256."""
    def __init__(self,s):
        self.s=list(s); self.R1=self.R2=0
        assert len(self.s)==16 and all(0<=x<=M31 for x in self.s)
        for _ in range(32):                   # initialisation stage
            X=self._br(); W=self._F(X); self._lfsr(W>>1)
        X=self._br(); self._F(X); self._lfsr(None)   # first working step, output discarded
    def _br(self):                            # bit reorganisation
        s=self.s
        return (((s[15]&0x7fff8000)<<1)|(s[14]&0xffff), ((s[11]&0xffff)<<16)|(s[9]>>15),
                ((s[7]&0xffff)<<16)|(s[5]>>15), ((s[2]&0xffff)<<16)|(s[0]>>15))
    def _F(self,X):                           # nonlinear function F
        W=((X[0]^self.R1)+self.R2)&M32
        W1=(self.R1+X[1])&M32; W2=self.R2^X[2]
        self.R1=_S(_L1(((W1&0xffff)<<16)|(W2>>16)))
        self.R2=_S(_L2(((W2&0xffff)<<16)|(W1>>16)))
        return W
    def _lfsr(self,u):                        # u is None: work mode; else initialisation mode with u=W>>1
        s=self.s
        v=_add31(_rol31(s[15],15),_rol31(s[13],17)); v=_add31(v,_rol31(s[10],21))
        v=_add31(v,_rol31(s[4],20)); v=_add31(v,_rol31(s[0],8)); v=_add31(v,s[0])
        if u is not None: v=_add31(v,u)
        if v==0: v=M31
        self.s=s[1:]+[v]
    def word(self):
        X=self._br(); Z=self._F(X)^X[3]; self._lfsr(None); return Z

_D128=[0x44d7,0x26bc,0x626b,0x135e,0x5789,0x35e2,0x7135,0x09af,0x4d78,0x2f13,0x6bc4,0x1af1,0x5e26,0x3c4d,0x789a,0x47ac]
def zuc_keystream(key,iv,nwords):
    assert len(key)==16 and len(iv)==16
    z=_Zuc([(key[i]<<23)|(_D128[i]<<8)|iv[i] for i in range(16)])     # s_i = k_i || d_i || iv_i
    return [z.word() for _ in range(nwords)]

_D256={0:  [0x22,0x2f,0x24,0x2a,0x6d,0x40,0x40,0x40,0x40,0x40,0x40,0x40,0x40,0x52,0x10,0x30],   # keystream
       32: [0x22,0x2f,0x25,0x2a,0x6d,0x40,0x40,0x40,0x40,0x40,0x40,0x40,0x40,0x52,0x10,0x30],   # 32-bit MAC
       64: [0x23,0x2f,0x24,0x2a,0x6d,0x40,0x40,0x40,0x40,0x40,0x40,0x40,0x40,0x52,0x10,0x30],   # 64-bit MAC
       128:[0x23,0x2f,0x25,0x2a,0x6d,0x40,0x40,0x40,0x40,0x40,0x40,0x40,0x40,0x52,0x10,0x30]}   # 128-bit MAC
def zuc256_unpack_iv(iv23):
    """GmSSL 23-byte IV -> the 25 values IV0..IV24 of the spec (17 bytes, then eight 6-bit values, big-endian packed)."""
    assert len(iv23)==23
    t=int.from_bytes(iv23[17:],'big')
    return list(iv23[:17])+[(t>>(42-6*i))&0x3f for i in range(8)]
def _zuc256_state(key,iv23,d):
    assert len(key)==32
    K=key; I=zuc256_unpack_iv(iv23)
    def c(a,b,cc,dd): return (a<<23)|(b<<16)|(cc<<8)|dd                  # 8 || 7 || 8 || 8 bits
    return [c(K[0],d[0],K[21],K[16]), c(K[1],d[1],K[22],K[17]), c(K[2],d[2],K[23],K[18]),
            c(K[3],d[3],K[24],K[19]), c(K[4],d[4],K[25],K[20]), c(I[0],d[5]|I[17],K[5],K[26]),
            c(I[1],d[6]|I[18],K[6],K[27]), c(I[10],d[7]|I[19],K[7],I[2]), c(K[8],d[8]|I[20],I[3],I[11]),
            c(K[9],d[9]|I[21],I[12],I[4]), c(I[5],d[10]|I[22],K[10],K[28]), c(K[11],d[11]|I[23],I[6],I[13]),
            c(K[12],d[12]|I[24],I[7],I[14]), c(K[13],d[13],I[15],I[8]),
            c(K[14],d[14]|(K[31]>>4),I[16],I[9]), c(K[15],d[15]|(K[31]&15),K[30],K[29])]
def zuc256_keystream(key,iv23,nwords):
    z=_Zuc(_zuc256_state(key,iv23,_D256[0])); return [z.word() for _ in range(nwords)]
def zuc256_mac_keystream(key,iv23,macbits,nwords):
    z=_Zuc(_zuc256_state(key,iv23,_D256[macbits])); return [z.word() for _ in range(nwords)]
def zuc256_mac(key,iv23,macbits,data,nbits=None):
    """ZUC-256 MAC of the first nbits bits of data (default: all); returns the tag as an int of macbits bits."""
    if nbits is None: nbits=8*len(data)
    t=macbits; nw=(nbits+2*t+31)//32
    ks=zuc256_mac_keystream(key,iv23,macbits,nw)
    Z=int.from_bytes(b''.join(w.to_bytes(4,'big') for w in ks),'big'); tot=32*nw
    win=lambda i: (Z>>(tot-i-t))&((1<<t)-1)                              # t keystream bits starting at bit i
    tag=win(0)
    for i in range(nbits):
        if (data[i>>3]>>(7-(i&7)))&1: tag^=win(t+i)
    return tag^win(t+nbits)

def eea3(ck,count,bearer,direction,nbits,data):
    """128-EEA3: returns ceil(nbits/8) bytes; bits beyond nbits in the last byte are zero."""
    assert len(ck)==16 and 0<=count<=M32 and 0<=bearer<32 and direction in (0,1)
    iv=count.to_bytes(4,'big')+bytes([(bearer<<3)|(direction<<2),0,0,0]); iv+=iv
    nb=(nbits+7)//8; assert len(data)>=nb
    ks=b''.join(w.to_bytes(4,'big') for w in zuc_keystream(ck,iv,(nbits+31)//32))
    out=bytearray(a^b for a,b in zip(data[:nb],ks))
    if nbits%8: out[-1]&=(0xff00>>(nbits%8))&0xff
    return bytes(out)
def eia3(ik,count,bearer,direction,nbits,data):
    """128-EIA3: returns the 32-bit MAC as an int."""
    assert len(ik)==16 and 0<=count<=M32 and 0<=bearer<32 and direction in (0,1)
    iv=bytearray(2*(count.to_bytes(4,'big')+bytes([bearer<<3,0,0,0])))
    iv[8]^=direction<<7; iv[14]^=direction<<7
    L=(nbits+31)//32+2
    ks=zuc_keystream(ik,bytes(iv),L)
    Z=int.from_bytes(b''.join(w.to_bytes(4,'big') for w in ks),'big'); tot=32*L
    win=lambda i: (Z>>(tot-i-32))&M32
    T=0
    for i in range(nbits):
        if (data[i>>3]>>(7-(i&7)))&1: T^=win(i)
    return T^win(nbits)^ks[L-1]

if __name__=='__main__':
    h=bytes.fromhex
    # --- S-box structure checks
    assert sorted(S0)==list(range(256)) and sorted(S1)==list(range(256))
    assert S0[:16]==[0x3e,0x72,0x5b,0x47,0xca,0xe0,0x00,0x33,0x04,0xd1,0x54,0x98,0x09,0xb9,0x6d,0xcb]   # spec table row 0
    assert S0[16:32]==[0x7b,0x1b,0xf9,0x32,0xaf,0x9d,0x6a,0xa5,0xb8,0x2d,0xfc,0x1d,0x08,0x53,0x03,0x90]
    def _gm(a,b,poly):
        r=0
        while b:
            if b&1: r^=a
            a<<=1
            if a&0x100: a^=poly
            b>>=1
        return r
    def _s1_affine(poly):                     # is S1(x)^S1(0) GF(2)-linear in x^-1 over GF(2)[x]/poly ?
        inv=[0]*256
        for a in range(1,256):
            c=[b for b in range(1,256) if _gm(a,b,poly)==1]
            if len(c)!=1: return False
            inv[a]=c[0]
        Lm=[0]*256
        for x in range(256): Lm[inv[x]]=S1[x]^S1[0]
        return all(Lm[a^b]==Lm[a]^Lm[b] for a in range(256) for b in (1,2,4,8,16,32,64,128))
    assert _s1_affine(0x18b)                  # x^8+x^7+x^3+x+1: every entry of the S1 table is pinned by this
    _used0=set(); _used1=set()
    # --- ZUC-128 keystream, ZUC specification test vectors 1-4
    assert zuc_keystream(bytes(16),bytes(16),2)==[0x27bede74,0x018082da]
    assert zuc_keystream(b'\xff'*16,b'\xff'*16,2)==[0x0657cfa0,0x7096398b]
    assert zuc_keystream(h('3d4c4be96a82fdaeb58f641db17b455b'),h('84319aa8de6915ca1f6bda6bfbd8c766'),2)==[0x14f1c272,0x3279c419]
    z=zuc_keystream(h('4d320bfad4c285bfd6b8bd00f39d8b41'),h('52959daba0bf176ece2dc315049eb574'),2000)
    assert z[:2]==[0xed4400e7,0x0633e5c5] and z[1999]==0x7a574cdb
    assert len(_used0)==256 and len(_used1)==256      # the vectors exercised every S-box entry
    # --- 128-EEA3 test set 1 (193 bits)
    ck=h('173d14ba5003731d7a60049470f00a29')
    ibs=h('6cf65340735552ab0c9752fa6f9025fe0bd675d9005875b200000000')
    obs=h('a6c85fc66afb8533aafc2518dfe784940ee1e4b030238cc800000000')
    assert eea3(ck,0x66035492,0xf,0,0xc1,ibs)==obs[:25]
    assert eea3(ck,0x66035492,0xf,0,0xc1,obs)==ibs[:25]
    # --- 128-EIA3 test sets 1, 2, 3
    assert eia3(bytes(16),0,0,0,1,bytes(4))==0xc8a9595e
    assert eia3(h('47054125561eb2dda94059da05097850'),0x561eb2dd,0x14,0,90,bytes(12))==0x6719a088
    m3=h('983b41d47d780c9e1ad11d7eb70391b1de0b35da2dc62f83e7b78d6306ca0ea07e941b7be91348f9fcb170e2217fecd9'
         '7f9f68adb16e5d7d21e569d280ed775cebde3f4093c5388100000000')
    assert eia3(h('c9e6cec4607c72db000aefa88385ab0a'),0xa94059da,0xa,1,577,m3)==0xfae8ff0b
    # --- ZUC-256 keystream vectors from the ZUC-256 paper (all-zero and all-one key/IV)
    assert zuc256_unpack_iv(bytes(17)+h('fc0000000001'))==[0]*17+[0x3f,0,0,0,0,0,0,1]
    assert zuc256_unpack_iv(bytes(17)+h('041083105187'))==[0]*17+[1,1,2,3,4,5,6,7]
    assert zuc256_keystream(bytes(32),bytes(23),20)==[
        0x58d03ad6,0x2e032ce2,0xdafc683a,0x39bdcb03,0x52a2bc67,0xf1b7de74,0x163ce3a1,0x01ef5558,0x9639d75b,0x95fa681b,
        0x7f090df7,0x56391ccc,0x903b7612,0x744d544c,0x17bc3fad,0x8b163b08,0x21787c0b,0x97775bb8,0x4943c6bb,0xe8ad8afd]
    assert zuc256_keystream(b'\xff'*32,b'\xff'*23,20)==[
        0x3356cbae,0xd1a1c18b,0x6baa4ffe,0x343f777c,0x9e15128f,0x251ab65b,0x949f7b26,0xef7157f2,0x96dd2fa9,0xdf95e3ee,
        0x7a5be02e,0xc32ba585,0x505af316,0xc2f9ded2,0x7cdbd935,0xe441ce11,0x15fd0a80,0xbb7aef67,0x68989416,0xb8fac8c2]
    # --- ZUC-256 MAC vectors from the ZUC-256 paper (pin the three MAC d-constant sets)
    macv=[(0x00,0x00,400,  0x9b972a74,0x673e54990034d38c,0xd85e54bbcb9600967084c952a1654b26),
          (0x00,0x11,4000, 0x8754f5cf,0x130dc225e72240cc,0xdf1e8307b31cc62beca1ac6f8190c22f),
          (0xff,0x00,400,  0x1f3079b4,0x8c71394d39957725,0xa35bb274b567c48b28319f111af34fbd),
          (0xff,0x11,4000, 0x5c7c8b88,0xea1dee544bb6223b,0x3a83b554be408ca5494124ed9d473205)]
    for kb,mb,n,t32,t64,t128 in macv:
        k=bytes([kb])*32; iv=bytes([kb])*23; m=bytes([mb])*(n//8)
        assert zuc256_mac(k,iv,32,m)==t32,(kb,mb,32,hex(zuc256_mac(k,iv,32,m)))
        assert zuc256_mac(k,iv,64,m)==t64,(kb,mb,64)
        assert zuc256_mac(k,iv,128,m)==t128,(kb,mb,128)
    print('zucref ok')
