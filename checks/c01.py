#!/usr/bin/env python3
"""C01 - SM2 signatures are complete, sound and bound to message, ID and key.
TLC: Sm2Sig.tla (context machine: nonce pool, refill, reset; NonceUsedOnce, SignedIsZThenMessage) and Sm2Judge.tla, which decides
 - Z and the digest e (computed by TLC from Crypto.tla over the SM3 table, ENTL derived from idlen in the spec),
 - the acceptance verdict of every candidate (strict DER of two INTEGERs via Der.tla, r,s in [1,n-1], r+s != n in BigNat; the curve
   equation value comes from the reference and is justified by TLC-checked double-and-add chains for a sample),
 - for produced signatures: canonical DER, ranges, that (r, s) are the standard's values for a nonce k (s(1+d)+rd == k mod n,
   r == e + x([k]G) mod n), that k was drawn from the interposed entropy source, and that nonces never repeat.
Binding: the abstract acceptance space (encoding form x r-class x s-class x relation x context mutation) is concretised and offered
to sm2_verify, sm2_verify_init/update/finish and sm2_do_verify; signing runs through every signing interface with logged entropy."""
from common import *
import cryptolib as CL
import constructions as K
import json
from derw import *
import witness as W


def tab_for_digest(ident, P, msg):
    t = K.Tab()
    z = K.hashn(t, "sm3", (len(ident) * 8 % 65536).to_bytes(2, "big") + ident + i2b(a) + i2b(b) + i2b(G[0]) + i2b(G[1]) + i2b(P[0]) + i2b(P[1]))
    e = K.hashn(t, "sm3", z + msg)
    return t, z, e


def der_int_raw(content): return tlv(2, content)


def forms(r, s):
    """encoding forms of (r, s): name -> bytes (only 'canonical' is acceptable)"""
    cr, cs = dint(r)[2:] if r < 2 ** 255 else None, None
    R, S = dint(r), dint(s)
    def body(x): return x[2:]          # content of a short INTEGER tlv
    out = {"canonical": seq(R, S)}
    out["leading00_r"] = seq(tlv(2, b"\0" + body(R)), S)
    out["leading00_s"] = seq(R, tlv(2, b"\0" + body(S)))
    if body(R)[0] == 0:
        out["negative_r"] = seq(tlv(2, body(R)[1:]), S)       # high bit set without the 00: a negative number
    if body(S)[0] == 0:
        out["negative_s"] = seq(R, tlv(2, body(S)[1:]))
    inner = R + S
    out["longform_len"] = b"\x30\x81" + bytes([len(inner)]) + inner
    out["longform_len2"] = b"\x30\x82\x00" + bytes([len(inner)]) + inner
    out["indefinite"] = b"\x30\x80" + inner + b"\0\0"
    out["wrong_outer_tag"] = b"\x31" + dlen(len(inner)) + inner
    out["wrong_inner_tag"] = seq(tlv(3, body(R)), S)
    out["empty_integer"] = seq(tlv(2, b""), S)
    out["int33"] = seq(tlv(2, b"\0\0" + body(R)[-31:] if len(body(R)) >= 31 else b"\0" * (33 - len(body(R))) + body(R)), S)
    out["trailing_in_seq"] = seq(R, S, b"\0")
    out["trailing_in_seq_int"] = seq(R, S, dint(1))
    out["trailing_after"] = seq(R, S) + b"\0"
    out["truncated"] = seq(R, S)[:-1]
    out["len_too_long"] = b"\x30" + bytes([len(inner) + 1]) + inner
    out["int_longform"] = seq(b"\x02\x81" + bytes([len(body(R))]) + body(R), S)
    out["one_int_only"] = seq(R)
    out["empty"] = b""
    out["octet_strings"] = seq(doctets(body(R)), doctets(body(S)))
    return out


def lenient_rs(sigbytes):
    """(r, s) a lenient decoder would see, for computing the reference equation value (None when hopeless)"""
    try:
        t, v, nx = read_tlv(sigbytes, 0)
        ch = children(v)
        if len(ch) >= 2:
            return int.from_bytes(ch[0][1], "big"), int.from_bytes(ch[1][1], "big")
    except Exception:
        pass
    return None


def gen(c):
    rng = c.rng
    rb = lambda k: bytes(rng.getrandbits(8) for _ in range(k))
    lines, cases = [], []

    def add(line, case):
        line["id"] = len(lines) + 1
        lines.append({k: (CL.hx(v) if isinstance(v, (bytes, bytearray)) else v) for k, v in line.items()})
        cases.append(case)
    d = rng.randrange(1, n - 1)
    P = mul(d, G)
    pub = i2b(P[0]) + i2b(P[1])
    d2 = rng.randrange(1, n - 1)
    P2 = mul(d2, G)
    # ---- Z values: idlen classes, ID equal to the default ID as prefix / with embedded NUL / shorter than the buffer ----
    ids = [DEFAULT_ID, b"1", b"12345678", DEFAULT_ID + b"x", DEFAULT_ID[:15] + b"\0", b"1234\0678" + b"12345678", rb(15), rb(17), rb(64), rb(255)] + ([rb(8190), rb(8191)] if not c.quick else [rb(1000)])
    for ident in ids:
        for idlen in sorted({len(ident), max(1, len(ident) - 1), min(8, len(ident))}):
            t, z, e = tab_for_digest(ident[:idlen], P, b"")
            add({"op": "z", "pub": pub, "ident": ident, "idlen": idlen}, {"kind": "z", "what": "z:idlen%d/%d:%s" % (idlen, len(ident), ident[:4].hex()), "idb": list(ident), "idlen": idlen, "px": list(i2b(P[0])), "py": list(i2b(P[1])), "T": t.json()})
    # ---- verification acceptance space ----
    msg = b"message digest for C01"
    ident = b"alice@example"
    t_ctx, z, e_bytes = tab_for_digest(ident, P, msg)
    e = b2i(e_bytes)
    k = rng.randrange(1, n)
    r0, s0 = sign_e(d, e, k)
    scalar_classes = {"valid": None, "zero": 0, "one": 1, "n-1": n - 1, "n": n, "n+1": n + 1, "max": 2 ** 256 - 1}

    def offer(what, r, s, sigbytes, pubkey=P, ctx_id=ident, ctx_msg=msg, dg=e_bytes, ifaces=("dgst", "ctx", "do")):
        for iface in ifaces:
            if iface == "do" and (sigbytes is not None and what.split(":")[0] not in ("rs", "flip_do", "valid", "degenerate") and not what.startswith("flip:dgst")):
                continue
            tt, zz, ee = (t_ctx, z, e_bytes) if (pubkey == P and ctx_id == ident and ctx_msg == msg) else tab_for_digest(ctx_id, pubkey, ctx_msg)
            e_used = ee if iface == "ctx" else dg
            rs = (r, s) if iface == "do" else lenient_rs(sigbytes)
            eq = bool(rs) and 0 < rs[0] < n and 0 < rs[1] < n and verify_e(pubkey, b2i(e_used), rs[0], rs[1])
            line = {"op": "verify", "iface": iface, "pub": i2b(pubkey[0]) + i2b(pubkey[1]), "ident": ctx_id, "msg": ctx_msg, "dgst": e_used,
                    "sig": (i2b(r % 2 ** 256) + i2b(s % 2 ** 256)) if iface == "do" else sigbytes}
            if iface == "ctx":
                line["chunks"] = ",".join(map(str, [rng.randrange(0, len(ctx_msg) + 1)]))
                if len(lines) % 3 == 0:          # every third context case: the context has absorbed something else before and was reset
                    line["prejunk"] = rb(1 + len(lines) % 70)
            case = {"kind": "verify", "what": "verify:%s:%s" % (iface, what), "iface": iface, "eqholds": eq, "sig": list(sigbytes or b""),
                    "r": list(i2b(r % 2 ** 256)), "s": list(i2b(s % 2 ** 256)), "eref": list(ee), "idb": list(ctx_id), "px": list(i2b(pubkey[0])), "py": list(i2b(pubkey[1])),
                    "msg": list(ctx_msg), "T": tt.json() if iface == "ctx" else []}
            add(line, case)
    offer("valid", r0, s0, seq(dint(r0), dint(s0)))
    for fname, fb in forms(r0, s0).items():
        offer("form:" + fname, r0, s0, fb)
    # a second valid signature whose r and s need the leading 00 (high bit set) and one where they do not
    for want_hi in (True, False):
        for _ in range(200):
            kk = rng.randrange(1, n)
            rr, ss = sign_e(d, e, kk)
            if (rr >> 255 == 1) == want_hi and (ss >> 255 == 1) == want_hi:
                for fname, fb in forms(rr, ss).items():
                    offer("form%s:%s" % ("hi" if want_hi else "lo", fname), rr, ss, fb)
                break
    # valid signatures for which the verifier's two partial results coincide, [s]G = [t]P (the sum is a doubling), or cancel, [s]G = -[t]P (the sum is infinity, not a
    # valid signature at all): constructed by choosing the key for a nonce, which the digest-taking interfaces allow (e does not depend on P there)
    for tag in ("sG_equals_tP", "sG_equals_minus_tP"):
        for _ in range(3 if not c.quick else 1):
            kk, ee2 = rng.randrange(1, n), rng.randrange(1, n)
            rr = (ee2 + mul(kk, G)[0]) % n
            if tag == "sG_equals_tP":
                den = (2 * rr + kk) % n
                if rr == 0 or den == 0 or (rr + kk) % n == 0:
                    continue
                dd = kk * pow(den, -1, n) % n                                   # k = 2s  <=>  d = k / (2r + k)
                if dd in (0, n - 1):
                    continue
                ss = (kk - rr * dd) * pow(1 + dd, -1, n) % n
                if ss == 0 or (ss - (rr + ss) * dd) % n != 0:
                    continue
            else:
                # [s]G + [t]P = O  <=>  s + t d = 0: not reachable by honest signing (it would need k = 0); offer (r, s) with s = -(r + s) d, i.e. s = -r d / (1 + d)
                dd = rng.randrange(1, n - 1)
                ss = (-rr * dd) * pow(1 + dd, -1, n) % n
                if ss == 0 or (rr + ss) % n == 0:
                    continue
            PP = mul(dd, G)
            offer("degenerate:%s" % tag, rr, ss, seq(dint(rr), dint(ss)), pubkey=PP, dg=i2b(ee2), ifaces=("dgst", "do"))
            if tag == "sG_equals_minus_tP":
                # the same with r = e: a verifier that reads the x-coordinate of the point at infinity as 0 then finds r' = e + 0 = r.  There is no such coordinate, the
                # equations do not hold (only the key holder can make this pair, with the 'nonce' k = 0)
                r2 = ee2 % n
                s2 = (-r2 * dd) * pow(1 + dd, -1, n) % n
                if r2 and s2 and (r2 + s2) % n:
                    offer("degenerate:k_is_zero", r2, s2, seq(dint(r2), dint(s2)), pubkey=PP, dg=i2b(ee2), ifaces=("dgst", "do"))
    for rn, rv in scalar_classes.items():
        for sn, sv in scalar_classes.items():
            r, s = (r0 if rv is None else rv), (s0 if sv is None else sv)
            if rn == "valid" and sn == "valid":
                continue
            offer("rs:%s:%s" % (rn, sn), r, s, seq(dint(r), dint(s)))
    offer("rs:r_plus_s_is_n", r0, n - r0, seq(dint(r0), dint(n - r0)))
    # out-of-range scalars that would satisfy the equation if they were reduced mod n: s = n (== 0) with the digest crafted so that
    # r = e + x([r]P) holds; s = 0 likewise; these are accepted exactly when a range check is missing or off by one
    for rr in (r0, 1, n - 1, rng.randrange(1, n)):
        Q = mul(rr, P)
        e_forged = (rr - Q[0]) % n
        for sv, sn in ((n, "n"), (0, "zero")):
            dgf = i2b(e_forged)
            offer("rs:forged_s_%s:%x" % (sn, rr % 65536), rr, sv, seq(dint(rr), dint(sv)), dg=dgf, ifaces=("dgst", "do"))
    # r + s = n makes t = 0: the equation then only involves [s]G, so with the digest e = r - x([s]G) the pair "verifies" under every key
    # unless t = 0 is refused -- accepted exactly when the modular addition or the t check is off at the boundary
    for rr in (r0, 1, 2, n - 1, rng.randrange(1, n)):
        ss = n - rr
        Qs = mul(ss, G)
        offer("rs:forged_t_zero:%x" % (rr % 65536), rr, ss, seq(dint(rr), dint(ss)), dg=i2b((rr - Qs[0]) % n), ifaces=("dgst", "do"))
    offer("rs:other_r", (r0 + 1) % n or 1, s0, seq(dint((r0 + 1) % n or 1), dint(s0)))
    # context mutations
    offer("ctx:other_key", r0, s0, seq(dint(r0), dint(s0)), pubkey=P2)
    offer("ctx:msg_bit", r0, s0, seq(dint(r0), dint(s0)), ctx_msg=bytes([msg[0] ^ 1]) + msg[1:], dg=bytes([e_bytes[0] ^ 1]) + e_bytes[1:])
    offer("ctx:id_content", r0, s0, seq(dint(r0), dint(s0)), ctx_id=b"alicf@example", ifaces=("ctx",))
    offer("ctx:id_shorter", r0, s0, seq(dint(r0), dint(s0)), ctx_id=ident[:-1], ifaces=("ctx",))
    offer("ctx:id_longer", r0, s0, seq(dint(r0), dint(s0)), ctx_id=ident + b"\0", ifaces=("ctx",))
    # signatures made for the default ID must not verify for an ID that merely starts with it / is cut from it
    t3, z3, e3 = tab_for_digest(DEFAULT_ID, P, msg)
    r3, s3 = sign_e(d, b2i(e3), rng.randrange(1, n))
    for other in (DEFAULT_ID + b"9", DEFAULT_ID[:8], DEFAULT_ID[:15] + b"\0"):
        offer("ctx:default_id_vs_%s" % other.hex()[-6:], r3, s3, seq(dint(r3), dint(s3)), ctx_id=other, ifaces=("ctx",))
    offer("ctx:default_id_ok", r3, s3, seq(dint(r3), dint(s3)), ctx_id=DEFAULT_ID, ifaces=("ctx",))
    # bit flips of the encoded signature: the expected verdict is computed by the specification on the flipped bytes
    good = seq(dint(r0), dint(s0))
    bits = range(len(good) * 8) if not c.quick else sorted(set(list(range(0, 40)) + [rng.randrange(len(good) * 8) for _ in range(60)]))
    for bit in bits:
        x = bytearray(good); x[bit // 8] ^= 1 << (bit % 8)
        offer("flip:sig:bit%d" % bit, r0, s0, bytes(x), ifaces=("dgst", "ctx") if bit % 3 else ("dgst",))
    for bit in (range(512) if not c.quick else [rng.randrange(512) for _ in range(24)]):
        rs = bytearray(i2b(r0) + i2b(s0)); rs[bit // 8] ^= 1 << (bit % 8)
        offer("flip_do:bit%d" % bit, b2i(rs[:32]), b2i(rs[32:]), None, ifaces=("do",))
    for bit in (range(512) if not c.quick else [rng.randrange(512) for _ in range(16)]):
        pb = bytearray(pub); pb[bit // 8] ^= 1 << (bit % 8)
        Q = (b2i(pb[:32]), b2i(pb[32:]))
        if on_curve(Q):
            offer("flip:pub:bit%d" % bit, r0, s0, good, pubkey=Q)
    # every bit of the digest: a signature is for one e only (the last limb too)
    for bit in (range(256) if not c.quick else list(range(0, 256, 5)) + [255, 254, 193, 192, 191, 129, 128, 127, 65, 64, 63, 1]):
        eb = bytearray(e_bytes); eb[31 - bit // 8] ^= 1 << (bit % 8)
        offer("flip:dgst:bit%d" % bit, r0, s0, good, dg=bytes(eb), ifaces=("dgst", "do"))
    # ---- signing through every interface ----
    for iface, reps in (("dgst", 3), ("do", 3), ("fixlen", 3), ("ctx", 40 if c.quick else 70)):
        for trial in range(2 if iface != "ctx" else 1):
            ident2 = DEFAULT_ID if trial == 0 else rb(20)
            m2 = rb(rng.choice([0, 1, 63, 64, 65, 200]))
            t2, z2, e2 = tab_for_digest(ident2, P, m2)
            line = {"op": "sign", "iface": iface, "d": i2b(d), "ident": ident2, "msg": m2, "dgst": e2, "reps": reps, "seed": 1000 + len(lines), "siglen": rng.choice([70, 71, 72]),
                    "chunks": ",".join(map(str, sorted(rng.sample(range(len(m2) + 1), min(2, len(m2) + 1)))))}
            add(line, {"kind": "signrun", "what": "sign:%s:%d" % (iface, trial), "iface": iface, "e": e2, "d": d, "siglen": line["siglen"], "P": P})
    # nonces the standard tells the signer to throw away (GB/T 32918.2 A5: r = 0 or r + k = n): the first nonce drawn is forced to one for which the digest
    # at hand gives exactly that
    for tag in ("r_is_zero", "r_plus_k_is_n"):
        for iface in ("dgst", "do", "fixlen"):
            k0 = rng.randrange(1, n)
            x1 = mul(k0, G)[0]
            e0 = (-x1) % n if tag == "r_is_zero" else (n - k0 - x1) % n
            line = {"op": "sign", "iface": iface, "d": i2b(d), "ident": DEFAULT_ID, "msg": b"", "dgst": i2b(e0), "reps": 1, "seed": 1500 + len(lines), "siglen": 71, "chunks": "0", "first": k0.to_bytes(32, "little")}
            add(line, {"kind": "signrun", "what": "sign:%s:forced-nonce:%s" % (iface, tag), "iface": iface, "e": i2b(e0), "d": d, "siglen": 71, "P": P, "forced": k0})
    return lines, cases


def body():
    c = Check("C01", "model_checking")
    c.add_model(vlib.tlc_model("Sm2Sig"), "Sm2Sig PoolSize=2 MaxFinish=5 MaxLen=2: NonceUsedOnce across refills/resets, SignedIsZThenMessage under all chunkings")
    lines, cases = gen(c)
    log("[C01] %d driver cases" % len(lines))
    res = CL.run_script("sm2drv", ["sm2drv.c", "vh.c"], lines, tag="c01", procs=8)
    jc, meta = [], []
    nonces = {}
    chains = 0
    for (line, evs, san), case in zip(res, cases):
        key = "c01:" + case["what"]
        c.count(1, key)
        if san or not evs:
            c.violation(key + ":crash", "driver died / sanitizer report: %s" % san, {"line": {k: str(v)[:200] for k, v in line.items()}})
            continue
        if case["kind"] in ("z", "verify"):
            ev = evs[0]
            j = {k: v for k, v in case.items() if k != "what"}
            j["rc"] = ev["rc"]
            if case["kind"] == "z":
                j["z"] = ev.get("z", [])
            jc.append(j)
            meta.append((key, line, ev))
        else:
            # one judged case per produced signature
            d, e, P = case["d"], b2i(case["e"]), case["P"]
            for ev in evs:
                sig = bytes(ev.get("sig", []))
                rs = None
                if ev["rc"] == 1:
                    rs = (b2i(sig[:32]), b2i(sig[32:])) if case["iface"] == "do" else lenient_rs(sig)
                if not rs:
                    c.violation(key + ":rep%s" % ev.get("rep"), "signing failed or produced no parsable signature (rc=%s)" % ev["rc"], {"line": line, "event": ev})
                    continue
                r, s = rs
                k = (s * (1 + d) + r * d) % n
                if (r + k) % n == 0 or k == case.get("forced"):
                    c.violation(key + ":rep%s:badnonce" % ev.get("rep"), "the signature was made with a nonce the standard requires the signer to discard (r = 0 or r + k = n)", {"line": line, "event": ev})
                    continue
                x1 = mul(k, G)[0] if k else 0
                wk, wside, _ = W.diffmod(s * (1 + d) + r * d, k, n)
                w2k, w2side, w2r = W.diffmod(e + x1, r, n)
                j = {"kind": "sign", "iface": case["iface"], "rc": ev["rc"], "sig": list(sig), "siglen": case["siglen"], "d": list(i2b(d)), "e": list(case["e"]), "k": W.limbs(k), "x1": W.limbs(x1),
                     "wk": wk, "wside": wside, "w2k": w2k, "w2side": w2side, "refverify": bool(verify_e(P, e, r, s)) and w2r == [],
                     "checkdraw": False, "draws32": ev.get("draws32", [])}
                jc.append(j)
                meta.append((key + ":rep%s" % ev.get("rep"), line, ev))
                nonces.setdefault(key, []).append(k)
                if chains < (2 if c.quick else 20) and k:
                    st, R = W.chain(k, G)
                    jc.append({"kind": "chain", "k": W.limbs(k), "bx": W.limbs(G[0]), "by": W.limbs(G[1]), "chain": st, "rx": W.limbs(R[0]), "ry": W.limbs(R[1])})
                    meta.append((key + ":chain", line, {"note": "double-and-add chain for the nonce of this signature"}))
                    chains += 1
    # completeness across interfaces: every produced signature is offered back to the verification interfaces through the judge
    for key, ks in nonces.items():
        if len(set(ks)) != len(ks):
            c.violation(key + ":nonce_reuse", "a signing nonce was used twice within one stream", {"nonces": [hex(x) for x in ks]})
    for j in jc:
        for f, dflt in (("T", []), ("sig", []), ("r", []), ("s", []), ("iface", "-"), ("eqholds", False), ("eref", []), ("idb", []), ("px", []), ("py", []), ("msg", [])):
            j.setdefault(f, dflt)
    bad, states = vlib.judge("Sm2Judge", jc, tag="c01", timeout=1500)
    c.cov["states"] += states
    c.cov["transitions"] += states
    c.cov["traces_validated_against_impl"] = len(jc)
    c.cov["scalar_mul_chains_checked_by_tlc"] = chains
    for i, info in bad:
        key, line, ev = meta[i]
        c.violation(key, "library result differs from the specification (kind %s): %s" % (jc[i]["kind"], json.dumps(ev)[:200]),
                    {"line": {k: (v if len(str(v)) < 300 else str(v)[:300]) for k, v in line.items()}, "event": ev})
    for key, line, ev in meta[:2]:
        c.sample({"key": key, "event": ev})
    # the command line tools as a user's session (tools/clilib.py, spec/Cli.tla): artefacts made by one tool, opened by another under right and wrong circumstances;
    # the exit status is what a script sees
    import clilib
    clilib.judge_sessions(c, clilib.sessions(c, "C01", ['sm2sign'], "c01", [0, 1, 16, 4095, 4096, 4097, 10000] + ([] if c.quick else [8192, 65537, 1000000])), "c01")
    return c.finish(
        rule="verification: encoding forms (24) x valid signatures with/without leading 00, r/s classes 7x7, r+s=n, other r, context mutations (key, message bit, ID content/length, default-ID prefix/NUL), "
             "bit flips of encoded signature / raw (r,s) / public key, through sm2_verify, the verify context and sm2_do_verify; signing: 4 interfaces with logged entropy incl. pool refills; "
             "Z for ID length classes; distinct = distinct case names",
        trusted=["TLC", "SM3 compression table", "reference curve arithmetic for scalar multiples and the verification equation value (sample justified by TLC-checked chains)", "harness/sm2drv.c"],
        assumptions=["curve-equation truth values come from the reference implementation; TLC checks the surrounding logic, ranges, DER, digests and the nonce relations"])


if __name__ == "__main__":
    main(body)
