#!/usr/bin/env python3
"""C16 - CMS messages round-trip for every signer / recipient set and reject tampering.
TLC: Cms.tla (Sign / Envelop / SignAndEnvelop / Tamper / Verify / Open over 4 parties x 3 key provenances: NoSignerNeverVerifies,
OnlyRecipientsOpen, ProvenanceIrrelevant) and CmsTrace.tla, the judge of the recorded calls.  Binding: messages are produced by the
library's top-level interfaces for 1..4 signers x 1..4 recipients x content classes x content types, opened by every recipient with a
key object obtained from the raw scalar, from ECPrivateKey DER and from encrypted PKCS#8 PEM, by a non-recipient, by a recipient's
certificate with another key; every located region (content, signature, encrypted key, IV, ciphertext) is bit-flipped; messages with
zero signer infos are built by rewriting a library message with an independent DER writer."""
from common import *
import cryptolib as CL
import json, hashlib
import derw, sm2ref, sm4ref

NB, NA = 1600000000, 2100000000
DRV = ("cmsdrv", ["cmsdrv.c", "vh.c"])


def short(s):
    return s if not isinstance(s, str) or len(s) <= 64 else "sha256:" + hashlib.sha256(s.encode()).hexdigest()


class World:
    def __init__(self):
        self.rd = 0x1111111111111111111111111111111111111111111111111111111111111111 % sm2ref.n
        self.rP = sm2ref.mul(self.rd, sm2ref.G)
        self.issuer = [('C', 'CN', 0x13), ('O', 'Verification', 0x0c), ('CN', 'CMS Root', 0x0c)]
        self.root = derw.cert(1, self.issuer, self.issuer, self.rP, NB, NA, [derw.ext_bc(True), derw.ext_ku(['keyCertSign', 'cRLSign'])], self.rd, self.rP, 12345)
        self.d, self.cert = {}, {}
        for i in range(1, 7):
            d = int.from_bytes(hashlib.sha256(b"party%d" % i).digest(), 'big') % (sm2ref.n - 2) + 1
            P = sm2ref.mul(d, sm2ref.G)
            subj = [('C', 'CN', 0x13), ('ST', 'Beijing', 0x0c), ('O', 'Verification', 0x0c), ('OU', 'Party', 0x0c), ('CN', 'party %d' % i, 0x0c)]
            # recipients are found by issuer and serial number: 1 and 2 differ only in the last serial octet, 5 has the serial of 1 under another issuer name
            # of the same encoded length, 3 and 4 have other lengths (one with a leading zero octet)
            serial = [0x1001, 0x1002, 0x80, 0xffeeddccbbaa99887766554433221100aabb, 0x1001, 6][i - 1]
            issuer = self.issuer if i != 5 else [('C', 'CN', 0x13), ('O', 'Verification', 0x0c), ('CN', 'CMS Rood', 0x0c)]
            self.d[i] = d.to_bytes(32, 'big')
            self.cert[i] = derw.cert(serial, issuer, subj, P, NB, NA, [derw.ext_ku(['digitalSignature', 'keyEncipherment'])], self.rd, self.rP, 777 + i)


# ---- DER tree (independent of the library) ----
def parse(b, off=0, end=None, depth=0):
    """list of nodes [tag, hdr_off, val_off, val_len, children|None]"""
    out = []
    end = len(b) if end is None else end
    while off < end:
        t = b[off]; l = b[off + 1]; o = off + 2
        if l & 0x80:
            k = l & 0x7f; l = int.from_bytes(b[o:o + k], 'big'); o += k
        kids = parse(b, o, o + l, depth + 1) if t & 0x20 else None
        out.append([t, off, o, l, kids]); off = o + l
    return out


def enc(node, b):
    t, _, vo, vl, kids = node
    return derw.tlv(t, b[vo:vo + vl] if kids is None else b"".join(enc(k, b) for k in kids))


def replace_value(cms, off, ln, new):
    """the message with the primitive value at (off, ln) replaced by `new`, every enclosing length re-encoded"""
    def rec(node):
        t, _, vo, vl, kids = node
        if kids is None:
            return derw.tlv(t, new if (vo, vl) == (off, ln) else cms[vo:vo + vl])
        return derw.tlv(t, b"".join(rec(k) for k in kids))
    return rec(parse(cms)[0])


def regions(cms, kind):
    """located value ranges: name -> [(off, len)]"""
    top = parse(cms)[0]; inner = top[4][1][4][0]; f = inner[4]
    r = {}
    def eci(node):
        k = node[4]
        r.setdefault("iv", []).append((k[1][4][1][2], k[1][4][1][3]))
        r.setdefault("ciphertext", []).append((k[2][2], k[2][3]))
    def rinfos(node):
        for ri in node[4]:
            r.setdefault("enckey", []).append((ri[4][3][2], ri[4][3][3]))
    def sinfos(node):
        for si in node[4]:
            octs = [x for x in si[4] if x[0] == 4]
            r.setdefault("signature", []).append((octs[-1][2], octs[-1][3]))
            # what ties this SignerInfo to its certificate: issuerAndSerialNumber (every SignerInfo has to verify, so one that no longer names a certificate
            # of the message cannot be passed over -- the same reading under which a damaged signature of the second signer must fail)
            ias = si[4][1]
            r.setdefault("sidissuer", []).append((ias[4][0][2], ias[4][0][3]))
            r.setdefault("sidserial", []).append((ias[4][1][2], ias[4][1][3]))
    if kind == "sign":
        ci = f[2][4]
        r["ctype"] = [(ci[0][2], ci[0][3])]          # the inner contentType: the signed digest covers the content-info header
        if len(ci) > 1:
            c = ci[1][4][0]
            if c[3]:
                r["content"] = [(c[2], c[3])]
        sinfos(f[-1])
    elif kind == "encrypt":
        eci(f[1])
    elif kind == "envelop":
        rinfos(f[1]); eci(f[2])
    else:
        rinfos(f[1]); eci(f[3]); sinfos(f[-1])
        r["ctype"] = [(f[3][4][0][2], f[3][4][0][3])]
    return r


def without_signer_infos(cms):
    top = parse(cms)[0]
    inner = top[4][1][4][0]
    inner[4][-1][4] = []
    return enc(top, cms)


def last_block_padok(cms, reg, key):
    """does the (modified) ciphertext still end in well-formed padding under the content key?  (IV only matters for a one-block ciphertext)"""
    (co, cl), (io, il) = reg["ciphertext"][0], reg["iv"][0]
    ct = cms[co:co + cl]
    if cl == 0 or cl % 16:
        return False
    prev = ct[-32:-16] if cl >= 32 else cms[io:io + il]
    if len(prev) != 16:
        return False
    p = bytes(a ^ b for a, b in zip(sm4ref.dec_block(sm4ref.rks(key), ct[-16:]), prev))
    n = p[-1]
    return 1 <= n <= 16 and p[-n:] == bytes([n]) * n


def body():
    c = Check("C16", "model_checking")
    c.add_model(vlib.tlc_model("Cms"), "Cms: 4 parties x 3 key provenances: NoSignerNeverVerifies, OnlyRecipientsOpen, ProvenanceIrrelevant")
    W = World(); rng = c.rng
    rb = lambda k: bytes(rng.getrandbits(8) for _ in range(k))
    lens = [0, 1, 15, 16, 17, 100, 1000] + ([] if c.quick else [4096, 65535, 65536])
    make, meta = [], []
    hx = CL.hx

    def add_make(op, S, R, content, ctype="data", chain=False, light=False):
        key, iv = rb(16), rb(16)
        line = {"op": op, "id": len(make) + 1, "content": hx(content) if content else "-", "ctype": ctype, "key": hx(key), "iv": hx(iv), "seed": rng.randrange(1 << 30)}
        if S:
            line["certs"] = ",".join(hx(W.cert[i] + (W.root if chain else b"")) for i in S); line["keys"] = ",".join(hx(W.d[i]) for i in S)
        if R:
            line["rcerts"] = ",".join(hx(W.cert[i]) for i in R)
        make.append(line); meta.append(dict(op=op, S=S, R=R, content=content, key=key, iv=iv, chain=chain, ctype=ctype, light=light))
    # every signer-count x recipient-count with a small content, then content classes with varying sets
    for ns in range(1, 5):
        S = list(range(1, ns + 1))
        add_make("sign", S, [], rb(33))
        for nr in range(1, 5):
            R = [((ns + j) % 4) + 1 for j in range(nr)]
            add_make("sign_and_envelop", S, R, rb(20 + nr))
    for nr in range(1, 5):
        add_make("envelop", [], rng.sample([1, 2, 3, 4], nr), rb(47))
    # recipient sets in which the right RecipientInfo is not the first candidate: same serial length, same serial under another issuer, both orders
    for R in ([1, 2], [2, 1], [1, 5], [5, 1], [2, 5, 1], [5, 2, 1, 3]):
        add_make("envelop", [], R, rb(31))
        add_make("sign_and_envelop", [3], R, rb(29))
    # content sizes walking across the DER length-form switches of the content, the ciphertext and their wrappers (round trips only, no tamper sweep)
    sweep = (list(range(96, 132)) + list(range(224, 260))) if c.quick else (list(range(90, 140)) + list(range(216, 262)) + list(range(65480, 65540, 3)))
    for L in sweep:
        ct = rb(L)
        add_make("sign", [1 + L % 4], [], ct, light=True)
        add_make("encrypt", [], [], ct, light=True)
        add_make("envelop", [], [1 + L % 4, 1 + (L + 1) % 4], ct, light=True)
        add_make("sign_and_envelop", [1 + (L + 2) % 4], [1 + L % 4], ct, light=True)
    for L in lens:
        ct = rb(L)
        add_make("sign", rng.sample([1, 2, 3, 4], rng.randrange(1, 4)), [], ct)
        add_make("encrypt", [], [], ct)
        add_make("envelop", [], rng.sample([1, 2, 3, 4], rng.randrange(1, 4)), ct)
        add_make("sign_and_envelop", rng.sample([1, 2, 3, 4], rng.randrange(1, 3)), rng.sample([1, 2, 3, 4], rng.randrange(1, 4)), ct)
    # another content type: the content is then a DER value
    nested = derw.seq(derw.dint(1), derw.doctets(rb(40)))
    add_make("sign", [2], [], nested, ctype="signedData")
    add_make("sign_and_envelop", [1], [3], nested, ctype="signedData")
    add_make("envelop", [], [4], nested, ctype="signedData")
    add_make("encrypt", [], [], nested, ctype="signedData")
    # a signer information made with a key that does not belong to the certificate is not a valid one
    badsig = len(make)
    make.append({"op": "sign", "id": len(make) + 1, "content": hx(b"wrong key"), "certs": hx(W.cert[1]), "keys": hx(W.d[2]), "seed": 5}); meta.append(dict(op="sign", S=[1], R=[], content=b"wrong key", key=b"", iv=b"", chain=False, ctype="data", wrongkey=True))

    resA = CL.run_script(*DRV, make, tag="c16a", procs=8)
    execs, follow, fmeta = [], [], []

    def fol(key, line, facts):
        line["id"] = len(follow) + 1
        follow.append(line); fmeta.append((key, facts))
    for (line, evs, san), m in zip(resA, meta):
        key = "c16:%s:s%d%s:r%d%s:len%d:%s" % (m["op"], len(m["S"]), "".join(map(str, m["S"])) and "[%s]" % "".join(map(str, m["S"])), len(m["R"]), "".join(map(str, m["R"])) and "[%s]" % "".join(map(str, m["R"])), len(m["content"]), m["ctype"])
        c.count(1, key)
        if san or not evs:
            c.violation(key + ":crash", "driver died / sanitizer report: %s" % san, {"line": {k: str(v)[:200] for k, v in line.items()}})
            continue
        ev = dict(evs[0]); cmshex = ev.pop("cms", ""); ev["cmslen"] = len(cmshex) // 2
        execs.append((key + ":make", [ev]))
        if ev.get("rc") != 1:
            continue
        cms = bytes.fromhex(cmshex); content = m["content"]; op = m["op"]
        expect = content.hex(); expectcerts = hx(b"".join(W.cert[i] + (W.root if m["chain"] else b"") for i in m["S"]))
        try:
            reg = regions(cms, op)
        except Exception as e:
            c.violation(key + ":structure", "produced message does not have the expected structure: %r" % e, {"cms": cmshex[:400]})
            continue
        base = {"ctype": m["ctype"]}
        if op == "sign":
            if m.get("wrongkey"):
                fol(key + ":verify:signer-key-not-the-certificates", dict(base, op="verify", cms=cmshex), dict(nsi=0, tampered=False, expect=expect, expectcerts=expectcerts))
            else:
                fol(key + ":verify", dict(base, op="verify", cms=cmshex), dict(nsi=len(m["S"]), tampered=False, expect=expect, expectcerts=expectcerts))
                fol(key + ":verify:zero-signer-infos", dict(base, op="verify", cms=hx(without_signer_infos(cms))), dict(nsi=0, tampered=False, expect=expect, expectcerts=expectcerts))
        elif op == "encrypt":
            fol(key + ":decrypt", dict(base, op="decrypt", cms=cmshex, key=hx(m["key"])), dict(rightkey=True, tampered=False, expect=expect))
            wk = bytearray(m["key"]); wk[rng.randrange(16)] ^= 1 << rng.randrange(8)
            # a wrong symmetric key is noticed only through the padding; judged only when the reference says the padding is destroyed
            if not last_block_padok(cms, reg, bytes(wk)):
                fol(key + ":decrypt:wrongkey", dict(base, op="decrypt", cms=cmshex, key=hx(bytes(wk))), dict(rightkey=False, tampered=False, expect=expect))
        else:
            dop = "deenvelop" if op == "envelop" else "deenvelop_and_verify"
            for r in m["R"]:
                for prov in (("raw",) if m.get("light") else ("raw", "der", "pem")):
                    fol(key + ":open:p%d:%s" % (r, prov), dict(base, op=dop, cms=cmshex, rkey=hx(W.d[r]), rcert=hx(W.cert[r]), prov=prov),
                        dict(rightkey=True, tampered=False, nsi=len(m["S"]), expect=expect, expectcerts=expectcerts))
            outsider = [i for i in range(1, 7) if i not in m["R"]][0]
            fol(key + ":open:outsider", dict(base, op=dop, cms=cmshex, rkey=hx(W.d[outsider]), rcert=hx(W.cert[outsider]), prov="raw"), dict(rightkey=False, tampered=False, nsi=len(m["S"]), expect=expect))
            fol(key + ":open:recipient-cert-other-key", dict(base, op=dop, cms=cmshex, rkey=hx(W.d[outsider]), rcert=hx(W.cert[m["R"][0]]), prov="raw"), dict(rightkey=False, tampered=False, nsi=len(m["S"]), expect=expect))
            # an encryptedKey that is a perfectly good SM2 ciphertext (made for this recipient) of something LONGER than a content-encryption key: the opener
            # has 16..32 bytes of room for what comes out of it
            for klen in ((33, 64, 255) if not m.get("light") else ()):
                r0 = m["R"][0]
                P0 = sm2ref.mul(int.from_bytes(W.d[r0], "big"), sm2ref.G)
                C1, C2, C3 = sm2ref.encrypt(P0, rb(klen), rng.randrange(1, sm2ref.n))
                big = derw.seq(derw.dint(C1[0]), derw.dint(C1[1]), derw.doctets(C3), derw.doctets(C2))
                off0, ln0 = reg["enckey"][0]
                fol(key + ":open:enckey-holds-%d-bytes" % klen, dict(base, op=dop, cms=hx(replace_value(cms, off0, ln0, big)), rkey=hx(W.d[r0]), rcert=hx(W.cert[r0]), prov="raw"),
                    dict(rightkey=True, tampered=True, nsi=len(m["S"]), expect=expect))
            # the C3 hash inside the first recipient's encryptedKey (an SM2 ciphertext) changed in ways that cancel in a sloppy comparison
            if not m.get("light"):
                off0, ln0 = reg["enckey"][0]; ek = cms[off0:off0 + ln0]; i3 = ek.find(b"\x04\x20")
                if i3 > 0:
                    r0 = m["R"][0]
                    for nm, tx in CL.cancelling(ek[i3 + 2:i3 + 34]):
                        x = cms[:off0 + i3 + 2] + tx + cms[off0 + i3 + 34:]
                        fol(key + ":open:enckey-c3:%s" % nm, dict(base, op=dop, cms=hx(x), rkey=hx(W.d[r0]), rcert=hx(W.cert[r0]), prov="raw"), dict(rightkey=True, tampered=True, nsi=len(m["S"]), expect=expect))
            if op == "sign_and_envelop":
                fol(key + ":open:zero-signer-infos", dict(base, op=dop, cms=hx(without_signer_infos(cms)), rkey=hx(W.d[m["R"][0]]), rcert=hx(W.cert[m["R"][0]]), prov="raw"), dict(rightkey=True, tampered=False, nsi=0, expect=expect))
        if m.get("wrongkey") or m.get("light"):
            continue
        # located single-bit modifications
        for name, spans in reg.items():
            for si, (off, ln) in enumerate(spans):
                if ln == 0:
                    continue
                nb = ln * 8
                if name == "ctype":
                    bits = range(nb - 16, nb)
                elif c.quick:
                    bits = sorted(set([0, 7, nb - 1, nb - 8] + [rng.randrange(nb) for _ in range(3 if ln > 64 else 6)]))
                elif ln <= 128 and line["id"] % 3 == 0:
                    bits = range(nb)
                else:
                    bits = sorted(set([0, 7, nb - 1, nb - 8] + list(range(max(0, nb - 256), nb, 5)) + [rng.randrange(nb) for _ in range(24)]))
                for bit in bits:
                    x = bytearray(cms); x[off + bit // 8] ^= 0x80 >> (bit % 8)
                    fk = "%s:flip:%s%d:bit%d" % (key, name, si, bit)
                    if op == "sign":
                        fol(fk, dict(base, op="verify", cms=hx(x)), dict(nsi=len(m["S"]), tampered=True, expect=expect, expectcerts=expectcerts))
                    elif op == "encrypt":
                        pk = ":padok" if last_block_padok(bytes(x), reg, m["key"]) else ":padbad"
                        fol(fk + pk, dict(base, op="decrypt", cms=hx(x), key=hx(m["key"])), dict(rightkey=True, tampered=True, expect=expect))
                    else:
                        dop = "deenvelop" if op == "envelop" else "deenvelop_and_verify"
                        # a change to one recipient's encrypted key concerns that recipient
                        r = m["R"][si] if name == "enckey" else m["R"][bit % len(m["R"])]
                        pk = ""
                        if op == "envelop" and name in ("iv", "ciphertext"):
                            pk = ":padok" if last_block_padok(bytes(x), reg, m["key"]) else ":padbad"
                        fol(fk + ":p%d" % r + pk, dict(base, op=dop, cms=hx(x), rkey=hx(W.d[r]), rcert=hx(W.cert[r]), prov="raw"), dict(rightkey=True, tampered=True, nsi=len(m["S"]), expect=expect))
    resB = CL.run_script(*DRV, follow, tag="c16b", procs=14)
    for (line, evs, san), (key, facts) in zip(resB, fmeta):
        c.count(1, key)
        if san or not evs:
            c.violation(key + ":crash", "driver died / sanitizer report on a message: %s" % san, {"line": {k: str(v)[:300] for k, v in line.items()}})
            continue
        ev = dict(evs[0], **facts)
        ev.setdefault("nsi", 1); ev.setdefault("rightkey", True); ev.setdefault("certs", ""); ev.setdefault("expectcerts", "")
        for f in ("content", "expect", "certs", "expectcerts"):
            ev[f] = short(ev.get(f, ""))
        execs.append((key, [ev]))
    rej, states = vlib.validate("CmsTrace", [e[1] for e in execs], tag="c16", timeout=1200)
    c.cov["traces_validated_against_impl"] = len(execs)
    c.cov["trace_states"] = states
    for i, j, ev in rej:
        key, evs = execs[i]
        c.violation(key, "call %s is not allowed by the CMS contract: %s" % (ev.get("op"), json.dumps({k: (v if not isinstance(v, str) or len(v) < 70 else "<%d>" % len(v)) for k, v in ev.items()})[:400]),
                    {"events": evs})
    for key, evs in execs[:1] + execs[-1:]:
        c.sample({"key": key, "events": [json.dumps(e)[:300] for e in evs]})
    # the command line tools as a user's session (tools/clilib.py, spec/Cli.tla): artefacts made by one tool, opened by another under right and wrong circumstances;
    # the exit status is what a script sees
    import clilib
    clilib.judge_sessions(c, clilib.sessions(c, "C16", ['cms'], "c16", [0, 1, 16, 4095, 4096, 4097, 10000] + ([] if c.quick else [8192, 65537, 1000000])), "c16")
    return c.finish(
        rule="messages: signers 1..4 x recipients 1..4, content lengths %s, content types data and signedData(DER value), signer chains with and without the CA certificate; "
             "per message: every recipient x {raw, DER, PEM} key object, outsider, recipient certificate with another key, zero signer infos, signer key not matching the certificate, "
             "bit flips in every located region (quick: ends + random; thorough: all bits of short regions for every third message); distinct = distinct case keys" % lens,
        trusted=["TLC (CmsTrace.tla judge)", "ref/derw.py (DER rewriting and region location)", "ref/sm4ref.py (padding survival classification for unauthenticated CBC)"],
        assumptions=["contents are seeded random strings of each length class"])


if __name__ == "__main__":
    main(body)
