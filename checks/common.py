import os, sys
sys.path.insert(0, os.path.join(os.path.dirname(os.path.abspath(__file__)), "..", "tools"))
sys.path.insert(0, os.path.join(os.path.dirname(os.path.abspath(__file__)), "..", "ref"))
import vlib
from vlib import Check, log


def main(fn):
    """Run a check body; tool failures exit 2 (never reported as a property violation)."""
    try:
        rc = fn()
    except Exception as ex:
        import traceback
        traceback.print_exc()
        print("CHECK-ERROR: %s" % (str(ex)[:500].replace("\n", " | ")))
        sys.exit(2)
    sys.exit(rc)
