#!/usr/bin/env python3
"""C14 - encodings round-trip, are canonical, and respect buffer capacities.
TLC (DerVec.tla over Der.tla) enumerates small inputs of every primitive ASN.1 type exhaustively and computes the strict decoder's
answer (verdict, value, consumed) and the canonical encoding (length, INTEGER, int, BOOLEAN, BIT STRING, OID decode/encode, UTF-8 /
Printable / IA5 validators, UTCTime / GeneralizedTime <-> (days, seconds)); the vectors are replayed into the library.
TextJudge.tla judges base64 / hex / PEM: encoders against RFC 4648 computed by TLC, decoders on well-formed and malformed text in all
chunkings, PEM read with capacities around the data size (guard zones).  Composite objects (signature, ciphertext, SPKI, ECPrivateKey,
PKCS#8 plain and encrypted, Name) are round-tripped: dry-run length = written length, decode consumes everything, re-encoding is
identical, and a wrong password never opens an encrypted key."""
from common import *
import cryptolib as CL
import json, base64, hashlib
from derw import seq, dint, doctets

KINDS = ["length", "integer", "int", "boolean", "bitstring", "oid", "utf8", "printable", "encint", "encoid", "time"]


def der_vectors(c):
    lines, exp = [], []
    for k in KINDS:
        r = vlib.tlc("DerVec", "DerVec_" + k, workers=1, timeout=900, xmx="4g")
        if r["errors"] or not r["prints"]:
            raise RuntimeError("DerVec %s: %s" % (k, r["errors"][:2]))
        c.cov["tlc_runs"].append({"model": "DerVec Kind=%s (vectors computed by TLC)" % k, "states": r["states"], "vectors": len(r["prints"])})
        c.cov["states"] += r["states"]
        c.cov["transitions"] += r["transitions"]
        vs = [vlib.parse_tla_value(p) for p in r["prints"] if p.startswith('<<"V"')]
        if c.quick and len(vs) > 9000:
            c.rng.shuffle(vs)
            vs = vs[:9000]
        for v in vs:
            kind, inp, res = v[1], v[2], v[3]
            if kind in ("encint",):
                lines.append({"kind": kind, "val": inp[0]})
            elif kind == "encoid":
                lines.append({"kind": kind, "arcs": ",".join(map(str, inp))})
            elif kind == "time":
                days, secs, year = inp
                if res[1]:
                    lines.append({"kind": kind, "days": days, "secs": secs, "utc": 1}); exp.append((kind, inp, res, v[4], 1))
                lines.append({"kind": kind, "days": days, "secs": secs, "utc": 0}); exp.append((kind, inp, res, v[4], 0))
                continue
            else:
                lines.append({"kind": kind, "in": CL.hx(bytes(inp))})
            exp.append((kind, inp, res, None, None))
    # OIDs at the upper end of the quantifier, beyond what TLC enumerates: up to 32 arcs of 32 bits (canonical encoding from the reference writer)
    import derw
    M32 = 0xffffffff
    for arcs in ([2, M32 - 80] + [M32] * 30, [2, 0xffffff00] + [M32] * 30, [1, 39] + [M32] * 30, [0, 0] + [0] * 30, [2, 999, 3], [2, 40], [2, 47, 1 << 28, (1 << 28) - 1, 1 << 21, 1 << 14, 1 << 7],
                 [1, 2] + [M32] * 29, [2, M32 - 80, 0] + [(1 << 28) + i for i in range(29)]):
        lines.append({"kind": "encoid", "arcs": ",".join(map(str, arcs))})
        exp.append(("encoid", arcs, (1, list(derw.oid(arcs)), 0), None, None))
    # INTEGERs read into a C int at and beyond its upper end (longer than the strings TLC enumerates): 2^31 - 1 is the last value it can carry; 2^31 .. 2^32 - 1
    # (five content octets 00 xx ..) and larger are refused, not wrapped into a negative number
    for hx, ok_, val_ in (("02047fffffff", 1, 2147483647), ("02047ffffffe", 1, 2147483646), ("0203800000", 0, 0), ("02050080000000", 0, 0), ("02050080000001", 0, 0), ("020500ffffffff", 0, 0),
                          ("020500fffffffe", 0, 0), ("02050100000000", 0, 0), ("0205007fffffff", 0, 0), ("02060080000000ff", 0, 0)):
        b_ = bytes.fromhex(hx)
        lines.append({"kind": "int", "in": hx}); exp.append(("int", list(b_), (ok_, [val_] if ok_ else [], len(b_) if ok_ else 0), None, None))
    for i, l in enumerate(lines):
        l["id"] = i + 1
    res = CL.run_script("derdrv", ["derdrv.c", "vh.c"], lines, tag="c14d", procs=8)
    for (line, evs, san), (kind, inp, r, gen, utc) in zip(res, exp):
        key = "c14:der:%s:%s" % (kind, ("utc" if utc else "gen") + str(inp) if kind == "time" else (bytes(inp).hex() if kind not in ("encint", "encoid") else ",".join(map(str, inp))))
        c.count(1, key)
        if san or not evs:
            c.violation(key + ":crash", "driver died / sanitizer report: %s" % san, {"line": line})
            continue
        ev = evs[0]
        ok, val, used = r
        c.cov["traces_validated_against_impl"] += 1
        if ok == 2:
            continue          # the specification tolerates either answer for this vector
        if kind in ("length", "integer", "int", "boolean", "bitstring", "oid"):
            lib_ok = ev["rc"] == 1
            if lib_ok != (ok == 1):
                c.violation(key, "decoder verdict %s, strict DER says %s" % (ev["rc"], "accept" if ok else "reject"), {"line": line, "library": ev, "spec": r})
            elif ok and (ev["val"][:len(val)] != val or ev["used"] != used):
                c.violation(key, "decoded value / consumed length differ: library %s used %s, specification %s used %s" % (ev["val"], ev["used"], val, used), {"line": line, "library": ev})
        elif kind == "utf8":
            if (ev["rc"] == 1) != (ok == 1):
                c.violation(key, "UTF-8 validator says %s, RFC 3629 says %s" % (ev["rc"], "valid" if ok else "invalid"), {"line": line})
        elif kind == "printable":
            if (ev["rc"] == 1) != (ok == 1) or (ev["val"][0] == 1) != (val[0] == 1):
                c.violation(key, "PrintableString / IA5String validator disagrees with X.680", {"line": line, "library": ev, "spec": r})
        elif kind in ("encint", "encoid"):
            if ev["rc"] != 1 or ev["out"] != val or ev["dry"] != len(val):
                c.violation(key, "encoder output differs from the canonical DER (or dry-run length %s != written %s)" % (ev["dry"], len(ev["out"])), {"line": line, "library": ev, "spec": val})
            elif kind == "encoid" and (ev["val"][0] != 1 or ev["val"][1] != 0 or ev["val"][2:] != list(inp)):
                c.violation(key, "OID does not decode back to the arcs that were encoded", {"line": line, "library": ev})
        elif kind == "time":
            want = (val if utc else gen)
            tlv = [0x17 if utc else 0x18, len(want)] + want
            days, secs, year = inp
            if ev["rc"] != 1 or ev["out"] != tlv or ev["dry"] != len(tlv):
                c.violation(key, "time encoding differs: library %s, specification %s" % (bytes(ev["out"]), bytes(tlv)), {"line": line, "library": ev})
            elif ev["val"][0] != 1 or ev["val"][1] != 0 or ev["val"][2:4] != [days, secs]:
                if not (utc and year >= 2000 and False):
                    c.violation(key, "time does not decode back to the instant that was encoded: %s" % ev["val"], {"line": line, "library": ev})


def text_cases(c, chunkings):
    rng = c.rng
    rb = lambda k: bytes(rng.getrandbits(8) for _ in range(k))
    lines, cases = [], []

    def add(line, case):
        line["id"] = len(lines) + 1
        lines.append({k: (CL.hx(v) if isinstance(v, (bytes, bytearray)) else v) for k, v in line.items()})
        cases.append(case)
    lens = list(range(0, 100)) + [191, 192, 193, 1000, 4096] if c.quick else list(range(0, 400)) + [1000, 4095, 4096]
    for n in lens:
        d = rb(n)
        ch = CL.scale(rng.choice(chunkings), 48)
        add({"kind": "b64enc", "data": d, "chunks": ",".join(map(str, ch))}, {"kind": "b64enc", "data": list(d)})
        txt = base64.encodebytes(d) if n % 2 else base64.b64encode(d)       # with and without line breaks (76-char lines)
        txt64 = b"".join(base64.b64encode(d)[i:i + 64] + b"\n" for i in range(0, len(base64.b64encode(d)), 64))
        for t in (txt64,):
            cuts = CL.scale(rng.choice(chunkings), 64)
            add({"kind": "b64dec", "text": t, "chunks": ",".join(map(str, cuts))}, {"kind": "b64dec", "text": list(t)})
        add({"kind": "hexdec", "text": d.hex().encode() if n % 3 else d.hex().upper().encode()}, {"kind": "hexdec", "text": list(d.hex().encode() if n % 3 else d.hex().upper().encode())})
    # malformed text
    good = base64.b64encode(rb(48))
    for i in range(40 if c.quick else 400):
        t = bytearray(good)
        pos = rng.randrange(len(t))
        kind = rng.randrange(5)
        if kind == 0: t[pos] = rng.choice(b"!@#$%^&*()_-~\x00\xff ")
        elif kind == 1: t = t[:-1 - rng.randrange(3)]
        elif kind == 2: t[rng.randrange(len(t) - 4)] = ord("=")
        elif kind == 3: t = t + b"A" * (1 + rng.randrange(3))
        else: t = bytearray(base64.b64encode(rb(rng.choice([1, 2, 4, 5]))))[:-1] + b"\x01"
        t = bytes(t) + b"\n"
        add({"kind": "b64dec", "text": t, "chunks": "%d" % rng.randrange(0, len(t))}, {"kind": "b64dec", "text": list(t)})
        h = bytearray(rb(8).hex().encode())
        if i % 2: h[rng.randrange(len(h))] = rng.choice(b"gGxX -\x00")
        else: h = h[:-1]
        add({"kind": "hexdec", "text": bytes(h)}, {"kind": "hexdec", "text": list(h)})
    # deterministic malformed base64: every octet value substituted at every position of a two-quantum text, the usual suspects inserted at every
    # position, each with the chunk boundary before / after / away from the damage; '=' at every position with every boundary
    base = b"QUJDREVG"
    alphabet = set(b"ABCDEFGHIJKLMNOPQRSTUVWXYZabcdefghijklmnopqrstuvwxyz0123456789+/")
    for v in range(256):
        for pos in range(len(base)):
            t = base[:pos] + bytes([v]) + base[pos + 1:] + b"\n"
            for cut in sorted({0, pos, pos + 1} if c.quick else set(range(len(t)))):
                add({"kind": "b64dec", "text": t, "chunks": "%d" % cut}, {"kind": "b64dec", "text": list(t)})
    for v in b"-=!_.,:;*\x00\x7f\x80\xff \t\r\n":
        for pos in range(len(base) + 1):
            t = base[:pos] + bytes([v]) + base[pos:] + b"\n"
            for cut in range(len(t)):
                add({"kind": "b64dec", "text": t, "chunks": "%d" % cut}, {"kind": "b64dec", "text": list(t)})
    for t in (b"QQ==QUJD\n", b"QQ==\nQUJD\n", b"QUI=QUJD\n", b"QUI=\nQUJD\n", b"QUJDQQ==QUJD\n", b"QQ==\n\n", b"QQ==\n=\n", b"QUJD=\n", b"QUJD==\n", b"Q===\n", b"====\n", b"=QUJ\n"):
        for cut in range(len(t)):
            add({"kind": "b64dec", "text": t, "chunks": "%d" % cut}, {"kind": "b64dec", "text": list(t)})
    # every octet value in each position of a two-character hex text, and inside a base64 quantum: the alphabets are exactly the standard ones
    for v in range(256):
        for t in (bytes([v, 0x34]), bytes([0x34, v]), bytes([0x61, 0x62, v, 0x39])):
            add({"kind": "hexdec", "text": t}, {"kind": "hexdec", "text": list(t)})
    # PEM with capacities around the data size
    for n in ([1, 47, 48, 49, 100, 600] if c.quick else [1, 2, 47, 48, 49, 95, 96, 97, 100, 600, 4096]):     # pem_write refuses empty data
        d = rb(n)
        for cap in sorted({max(0, n - 1), n, n + 1, max(0, n - 48), n + 100, 1}):
            add({"kind": "pem", "data": d, "maxlen": cap}, {"kind": "pem", "data": list(d), "maxlen": cap})
    for i in range(10 if c.quick else 60):
        body = base64.b64encode(rb(60))
        bad = bytearray(body)
        bad[rng.randrange(len(bad))] = ord("!")
        txt = b"-----BEGIN TEST DATA-----\n" + bytes(bad) + b"\n-----END TEST DATA-----\n"
        add({"kind": "pemtext", "text": txt, "maxlen": 100}, {"kind": "pemtext", "maxlen": 100, "badbody": True})
        big = b"-----BEGIN TEST DATA-----\n" + b"".join(base64.b64encode(rb(48)) + b"\n" for _ in range(12)) + b"-----END TEST DATA-----\n"
        add({"kind": "pemtext", "text": big, "maxlen": 100 + i}, {"kind": "pemtext", "maxlen": 100 + i, "badbody": False})
    # PEM bodies that are not base64 of anything: characters outside the alphabet (also at a quantum boundary), data after the padded block,
    # a foreign END line inside the body
    for body in (b"QUJD-REVG\n", b"QUJD-!!!!\n", b"QUJD\n-\n", b"QUJD\n-QUJD\n", b"-QUJD\n", b"QUJD-\n", b"QQ==\nQUJD\n", b"QUI=\nQUJD\n", b"QUJD\nQQ==\nQUJD\n", b"QQ==QUJD\n",
                 b"QUJD\n-----END OTHER DATA-----\nQUJD\n", b"QUJD\n-----END TEST DATA----\n", b"QUJD!\n", b"!QUJD\n", b"QUJ\n", b"QUJDR\n", b"QUJD\nQ\n", b"Q=JD\n", b"QU=D\n"):
        add({"kind": "pemtext", "text": b"-----BEGIN TEST DATA-----\n" + body + b"-----END TEST DATA-----\n", "maxlen": 100}, {"kind": "pemtext", "maxlen": 100, "badbody": True})
    for body, data in ((b"QUJD\n", b"ABC"), (b"QUJD\r\n", b"ABC"), (b"QUJDREVG\nQQ==\n", b"ABCDEFA"), (b"QUJD\nQUI=\n", b"ABCAB"), (b"QQ==\n", b"A")):
        add({"kind": "pemtext", "text": b"-----BEGIN TEST DATA-----\n" + body + b"-----END TEST DATA-----\n", "maxlen": 100}, {"kind": "pemtext", "maxlen": 100, "badbody": False, "data": list(data), "good": True})
    return lines, cases


def body():
    c = Check("C14", "model_checking")
    c.add_model(vlib.tlc_model("Stream", "Stream_enc", coverage=False), "Stream: the buffering contract of the base64 encoder/decoder contexts (3-byte / 4-character quanta), all chunkings")
    der_vectors(c)
    chunkings, r = CL.tlc_chunkings("enc")
    lines, cases = text_cases(c, chunkings)
    # composite objects
    comp = [{"kind": "composite", "obj": o, "seed": s, "id": 900000 + i} for i, (o, s) in enumerate((o, s) for o in ("sig", "ciphertext", "pubkeyinfo", "privkey", "pkcs8", "pkcs8enc", "name") for s in range(1, (6 if c.quick else 40)))]
    # SM9 keys, with master secrets that begin with 0, 1, 2 zero octets (their INTEGER is then shorter than 32 octets) and SM2 private keys likewise
    comp += [{"kind": "composite", "obj": o, "seed": sd, "lead": ld, "id": 940000 + i, "_tag": "lead%d:seed%d" % (ld, sd)} for i, (o, ld, sd) in enumerate(
        (o, ld, sd) for o in ("sm9signmaster", "sm9encmaster", "sm9signkey", "sm9enckey") for ld in (0, 1, 2, 31) for sd in range(1, 3 if c.quick else 8))]
    # SM2 ciphertext / signature DER whose sizes walk across the capacity of the decoded object and the DER length-form switches: accepted ones re-encode
    # identically, oversized ones are refused (the decoded object is an exact-size allocation)
    import sm2ref
    Pc = sm2ref.mul(0x1234567, sm2ref.G)
    sized = []
    for L in sorted(set([1, 2, 31, 32, 33, 100, 127, 128, 129, 200, 253, 254, 255, 256, 257, 300, 366, 367, 400, 1000] + ([] if c.quick else list(range(240, 270))))):
        sized.append(("ctder", seq(dint(Pc[0]), dint(Pc[1]), doctets(bytes(range(32))), doctets(bytes((i * 7 + L) & 255 for i in range(L)))), L <= 255, "c2len%d" % L))
    for rl, sl in ((32, 32), (31, 32), (32, 1), (1, 1), (33, 32), (32, 33), (40, 32)):
        rv = int.from_bytes(b"\x7f" + b"\x11" * (rl - 1), "big"); sv = int.from_bytes(b"\x7e" + b"\x22" * (sl - 1), "big")
        sized.append(("sigder", seq(dint(rv), dint(sv)), rl <= 32 and sl <= 32, "r%d_s%d" % (rl, sl)))
    comp += [{"kind": "composite", "obj": o, "data": d.hex(), "seed": 1, "id": 950000 + i, "_expect": ok, "_tag": tag} for i, (o, d, ok, tag) in enumerate(sized)]
    res = CL.run_script("textdrv", ["textdrv.c", "vh.c"], [{k: v for k, v in l.items() if not k.startswith("_")} for l in lines + comp], tag="c14t", procs=8)
    res = [(orig, evs, san) for orig, (_, evs, san) in zip(lines + comp, res)]
    jc, meta = [], []
    for (line, evs, san), case in zip(res, cases + [None] * len(comp)):
        if case is None:
            key = "c14:composite:%s:%s" % (line["obj"], line.get("_tag") or "seed%s" % line["seed"])
            c.count(1, key)
            if san or not evs:
                c.violation(key + ":crash", "driver died / sanitizer report: %s" % san, {"line": {k: str(v)[:200] for k, v in line.items()}})
                continue
            ev = evs[0]
            c.cov["traces_validated_against_impl"] += 1
            if "_expect" in line:
                if line["_expect"] and not (ev["rcdec"] == 1 and ev["left"] == 0 and ev["resame"]):
                    c.violation(key, "a canonical encoding within the object's capacity is not accepted / does not re-encode identically (rc=%s, left=%s)" % (ev["rcdec"], ev["left"]), {"line": {k: str(v)[:200] for k, v in line.items()}, "library": ev})
                elif not line["_expect"] and ev["rcdec"] == 1:
                    c.violation(key, "an encoding that does not fit the decoded object is accepted", {"line": {k: str(v)[:200] for k, v in line.items()}, "library": ev})
                continue
            problems = []
            if ev["rcenc"] != 1: problems.append("encoding failed")
            if ev["dry"] != ev["len"] and line["obj"] != "pkcs8enc": problems.append("dry-run length %s != written length %s" % (ev["dry"], ev["len"]))
            if ev["rcdec"] != 1 or ev["left"] != 0: problems.append("decoding failed or did not consume exactly the encoded bytes (rc=%s, left=%s)" % (ev["rcdec"], ev["left"]))
            if not ev["same"]: problems.append("decoded value differs from the encoded one / a wrong password opened the key")
            if not ev["resame"]: problems.append("re-encoding is not identical")
            if problems:
                c.violation(key, "; ".join(problems), {"line": line, "library": ev})
            continue
        body = line.get("text") or line.get("data") or ""
        key = "c14:text:%s:%s" % (case["kind"], (body if len(body) <= 40 else body[:24] + "~" + hashlib.sha1(body.encode()).hexdigest()[:12]) + ":" + str(line.get("chunks", line.get("maxlen", ""))))
        c.count(1, key)
        if san or not evs:
            c.violation(key + ":crash", "driver died / sanitizer report: %s" % san, {"line": {k: str(v)[:200] for k, v in line.items()}})
            continue
        ev = evs[0]
        j = dict(case)
        j.update(rc=ev["rc"], out=ev.get("out", []), text=case.get("text", ev.get("text", [])), wrc=ev.get("wrc", 1), written=ev.get("written", 0), body=ev.get("body", []))
        if case["kind"] == "b64enc":
            j["text"] = ev.get("text", [])
        for f, d in (("data", []), ("maxlen", 0), ("badbody", False), ("good", False)):
            j.setdefault(f, d)
        jc.append(j)
        meta.append((key, line, ev))
    bad, states = vlib.judge("TextJudge", jc, tag="c14", timeout=1200)
    c.cov["states"] += states
    c.cov["transitions"] += states
    c.cov["traces_validated_against_impl"] += len(jc)
    for i, info in bad:
        key, line, ev = meta[i]
        c.violation(key, "text codec result differs from the specification (%s): rc=%s written=%s" % (jc[i]["kind"], ev.get("rc"), ev.get("written")),
                    {"line": {k: (v if len(str(v)) < 300 else str(v)[:300]) for k, v in line.items()}, "library": {k: (v if not isinstance(v, list) or len(v) < 80 else "<%d>" % len(v)) for k, v in ev.items()}})
    for key, line, ev in meta[:2]:
        c.sample({"key": key, "library": {k: (v if not isinstance(v, list) or len(v) < 40 else "<%d>" % len(v)) for k, v in ev.items()}})
    return c.finish(
        rule="DER: every byte string of up to 4 bytes over a 9-symbol alphabet behind each primitive tag (quick: 9000 sampled per type), UTF-8 strings up to 4 bytes over 19 boundary bytes, "
             "integers 0..300 + boundaries, OIDs over 13 arc values, 84 instants across the UTCTime/GeneralizedTime switch; text: all lengths 0..99 (+ boundaries) with TLC chunkings, malformed classes, "
             "PEM capacities around the data size; composites: 7 object types x seeds; distinct = distinct vectors",
        trusted=["TLC (Der.tla, DerVec.tla, TextJudge.tla definitions)", "harness/derdrv.c, harness/textdrv.c"],
        assumptions=["base64 text with non-zero spare bits is a don't-care", "UTCTime years are interpreted per RFC 5280 (50..99 -> 19xx)"])


if __name__ == "__main__":
    main(body)
