#!/usr/bin/env python3
"""C08 - honest TLCP / TLS 1.2 / TLS 1.3 peers agree on keys and deliver data intact.
TLC: Tls.tla (honest runs: agreement invariant, liveness), TlsStream.tla (fragmentation / chunked reads).
Binding: real connections through harness/tlsdrv.c, every execution validated against TlsTrace.tla."""
from common import *
import tlslib

PROTOS = (257, 771, 772)


def scenarios(c):
    scns = []
    sid = [0]

    def add(proto, mutual, depth, cs, ss, frag=0):
        sid[0] += 1
        s = {"id": sid[0], "proto": proto, "scred": ("tlcp_d%d" if proto == 257 else "srv_d%d") % depth, "ctrust": "trust_root",
             "cs": cs, "ss": ss, "frag": frag}
        if mutual:
            s["ccred"] = "cli_d%d" % depth
            if mutual == 1:
                s["strust"] = "trust_root"          # (mutual == 2: the client holds a certificate and key, the server does not ask for one)
        scns.append(s)

    # size classes around the record limit x read capacities; both directions
    pairs_q = [(1, 1), (100, 7), (16383, 16384), (16384, 20000), (16385, 4096), (32768, 16384), (50000, 20000)]
    pairs_t = pairs_q + [(2, 1), (300, 1), (16385, 1000), (16386, 16385), (49152, 16384), (50000, 9999), (40000, 333), (1000, 3)]
    pairs = pairs_q if c.quick else pairs_t
    for proto in PROTOS:
        # a client configured with a certificate and key facing a server that has no CA list and therefore sends no CertificateRequest
        add(proto, 2, 2, "w10,r10:64,x", "r10:64,w10,r1:8")
        add(proto, 2, 1, "w16385,r100:64,x", "r16385:16384,w100,r1:8", frag=c.seed + 5)
        for mutual in (0, 1):
            for depth in (1, 2, 3):
                # a straight exchange with orderly close
                add(proto, mutual, depth, "w10,r10:64,x", "r10:64,w10,r1:8")
            for i, (n, cap) in enumerate(pairs):
                depth = 1 + i % 3
                # client -> server of size n read with capacity cap, then the same the other way, then close
                add(proto, mutual, depth, "w%d,r%d:%d,x" % (n, n, cap), "r%d:%d,w%d,r1:8" % (n, cap, n), frag=(i % 2) * (c.seed + i))
            # both directions at once: both write first, then both read
            for i, (n, m) in enumerate([(50000, 16385), (16384, 16384), (1, 50000)] if c.quick else [(50000, 16385), (16384, 16384), (1, 50000), (33000, 33000), (20000, 7)]):
                add(proto, mutual, 1 + i % 3, "w%d,r%d:16384,x" % (n, m), "w%d,r%d:20000,r1:8" % (m, n), frag=c.seed + 100 + i)
            # several writes, interleaved small reads
            add(proto, mutual, 2, "w5,w17000,w1,r3:2,r40:64,x", "r10:3,r16996:5000,w43,r17:17,r1:1", frag=c.seed + 7)
            # a record is read only in part, the reader then WRITES, and only afterwards drains the rest (an echo loop with a small buffer): both roles
            for i, (n, cap, back) in enumerate([(4000, 1600, 100), (16384, 1, 16384), (300, 7, 1)] if c.quick else [(4000, 1600, 100), (16384, 1, 16384), (300, 7, 1), (16385, 16000, 50), (2, 1, 20000)]):
                # (TLS 1.3 sends in that state; TLCP / TLS 1.2 refuse the write -- 'W' = an attempt that may be refused -- and send once the record is drained)
                mid = "W%d,r%d:%d" % (back, n - cap, cap) + ("" if proto == 772 else ",w%d" % back)
                add(proto, mutual, 1 + i % 3, "w%d,r%d:256,w10,x" % (n, back), "r%d:%d,%s,r10:64,r1:8" % (cap, cap, mid), frag=c.seed + 200 + i)
                add(proto, mutual, 1 + i % 3, "r%d:%d,%s,r10:64,x" % (cap, cap, mid), "w%d,r%d:256,w10,r1:8" % (n, back), frag=c.seed + 300 + i)
            if not c.quick:
                for k in range(20):
                    rr = c.rng
                    n, m = rr.choice([1, 7, 100, 16383, 16384, 16385, 30000, 50000]), rr.choice([1, 5, 16384, 16385, 50000])
                    cap1, cap2 = rr.choice([7, 100, 4096, 16384, 20000]), rr.choice([64, 1000, 16384, 20000])
                    if m // cap1 > 3000 or n // cap2 > 3000:
                        continue
                    add(proto, mutual, 1 + k % 3, "w%d,r%d:%d,x" % (n, m, cap1), "r%d:%d,w%d,r1:8" % (n, cap2, m), frag=c.seed * 31 + k)
    return scns


def body():
    c = Check("C08", "model_checking")
    # --- the specification on its own ---
    c.add_model(vlib.tlc_model("MCTls", "MCTls_live", coverage=False), "Tls honest liveness (FairSpec => <>BothDone), 3 protocols x auth modes")
    c.add_model(vlib.tlc_model("MCTls", "MCTls_cred", allow_zero=("CSkipCR", "CReject", "SReject")), "Tls Budget=0: Agreement/Auth invariants over all credential cases")
    c.add_model(vlib.tlc_model("TlsStream", coverage=False), "TlsStream MaxPlain=3 MaxWrite=5 MaxCap=4 MaxBytes=8, liveness EventuallyAll")
    # --- the implementation against the specification ---
    scns = scenarios(c)
    res = tlslib.run_scenarios(scns, tag="c08")
    execs = []
    for r in res:
        s = r["scn"]
        key = "tlsdrv:p%s:m%d:%s:cs=%s:ss=%s:frag=%s" % (s["proto"], 1 if "strust" in s else (2 if "ccred" in s else 0), s["scred"], s["cs"], s["ss"], s.get("frag", 0))
        c.count(1, key)
        if r["san"] or not r["complete"]:
            c.violation(key + ":crash", "driver died or sanitizer report during honest connection: %s" % (r["san"] or "incomplete trace (rc=%s)" % r["rc"]),
                        {"scenario": s, "stderr": r["stderr"][-3000:]})
            continue
        execs.append((key, s, r["events"]))
    rej, states = vlib.validate("TlsTrace", [e[2] for e in execs], tag="c08")
    c.cov["traces_validated_against_impl"] = len(execs)
    c.cov["trace_states"] = states
    for i, j, ev in rej:
        key, s, evs = execs[i]
        c.violation(key, "execution is not a behaviour of the TLS contract: first unexplained event #%d %s" % (j, json_short(ev)),
                    {"scenario": s, "event_index": j, "events": evs[max(0, j - 12):j + 3]})
    for key, s, evs in execs[:2]:
        c.sample({"scenario": s, "trace_excerpt": [json_short(e) for e in evs[:6]] + ["..."] + [json_short(e) for e in evs[-5:]]})
    return c.finish(
        rule="one execution per (protocol, auth mode, chain depth, write/read size class, fragmentation seed); distinct = distinct scenario keys; "
             "each execution is validated event by event against TlsTrace.tla (handshake contract, key/version/suite agreement, stream content by offset function)",
        trusted=["TLC", "harness/tlsdrv.c proxy and event logging", "tools/mkcreds.py reference X.509 writer"],
        assumptions=["endpoints run in one process over socketpairs; scheduling explored only as far as the OS and the fragmenting proxy produce it"])


def json_short(e):
    import json
    s = json.dumps(e, separators=(",", ":"))
    return s if len(s) < 220 else s[:217] + "..."


if __name__ == "__main__":
    main(body)
