#!/usr/bin/env python3
"""C19 - secret material never appears on diagnostic channels.
LeakModel.tla states the design rule (only a print the caller asked for puts a secret on a descriptor; the debug-trace build violates it).
Leak.tla is the judge of Op events: an operation that is not an explicit print may not put any secret the harness can name on
file descriptor 1 or 2.  The observations come from (a) harness/leakdrv.c (key generation/import/export, PKCS#8 open with right and
wrong password, sign, decrypt, ECDH, SM9, failure paths of symmetric decryption and record unprotection) with fd 1/2 captured per
operation, and (b) the three handshakes in both roles and auth modes, honest and failing (defective credentials, tampered records,
failing entropy), with the process's stdout/stderr searched for every secret the harness knows: private scalars, every entropy draw
(ephemeral scalars, pre-master secret), master secret, key block, traffic keys and IVs, transferred plaintext."""
from common import *
import cryptolib as CL
import tlslib, json, base64, os


def encodings(b):
    """searchable encodings of a secret: raw, hex (both cases), base64 and byte-swapped 32-bit words in hex"""
    out = [b, b.hex().encode(), b.hex().upper().encode(), base64.b64encode(b).rstrip(b"=")]
    if len(b) % 4 == 0:
        sw = b"".join(b[i:i + 4][::-1] for i in range(0, len(b), 4))
        out += [sw.hex().encode(), sw.hex().upper().encode()]
    return out


def find(hay, secrets):
    hits = []
    import re
    hay = hay + b"\n" + re.sub(rb"[\s:,]", b"", hay)      # dumps are often broken into lines or groups
    for name, sec in secrets:
        if len(sec) < 8:
            continue
        for enc in encodings(sec):
            if enc and enc in hay:
                hits.append(name)
                break
        else:
            # any 16-byte window of a longer secret in hex (sub-fields of key blocks)
            if len(sec) > 16:
                hx = sec.hex()
                for i in range(0, len(sec) - 15, 4):
                    w = hx[2 * i:2 * i + 32].encode()
                    if w in hay or w.upper() in hay:
                        hits.append(name + "[%d:%d]" % (i, i + 16))
                        break
    return hits


def body():
    c = Check("C19", "exploration")
    c.add_model(vlib.tlc_model("LeakModel", require_actions=False), "LeakModel: 3 objects, operations succeed / fail / are printed on request: OnlyAskedSecretsAppear")
    neg = vlib.tlc("LeakModel", "LeakModel_neg", workers=2, coverage=False, timeout=300)
    if "OnlyAskedSecretsAppear" not in neg["violated"]:
        raise RuntimeError("LeakModel_neg.cfg (unconditional key tracing) no longer violates OnlyAskedSecretsAppear")
    ops = []
    # (a) API operations
    exe = vlib.cc_driver("leakdrv", ["leakdrv.c", "vh.c"])
    tf = os.path.join(vlib.BUILD, "traces", "c19_%d.ndjson" % os.getpid())
    os.makedirs(os.path.dirname(tf), exist_ok=True)
    rc, out, err, san = vlib.run_driver(exe, [tf])
    if rc != 0 or san:
        raise RuntimeError("leakdrv failed rc=%s %s" % (rc, san))
    for e in vlib.read_ndjson(tf):
        secrets = [("s%d" % i, bytes.fromhex(e["s%d" % i])) for i in range(e["nsec"])]
        hay = bytes.fromhex(e["fd1"]) + b"\n" + bytes.fromhex(e["fd2"])
        hits = find(hay, secrets)
        ops.append(("c19:api:" + e["name"], {"e": "Op", "name": e["name"], "explicit": e["explicit"], "hits": hits, "nsec": e["nsec"], "bytes_on_fd12": len(hay) - 1},
                    hay[:600].decode(errors="replace")))
    os.unlink(tf)
    # (b) handshakes: honest, defective credentials, tampering, entropy failure
    scns = []
    for proto in (257, 771, 772):
        sp = "tlcp" if proto == 257 else "srv"
        for mutual in (0, 1):
            b = {"proto": proto, "scred": sp + "_d2", "ctrust": "trust_root", "cs": "w200,r100:64,x", "ss": "r200:64,w100,r1:8", "drawlog": 1, "cseed": 21, "sseed": 22}
            if mutual:
                b.update({"ccred": "cli_d2", "strust": "trust_root"})
            scns.append(dict(b))
            scns.append(dict(b, scred=sp + "_expired"))
            scns.append(dict(b, scred=sp + "_signkeymismatch"))
            scns.append(dict(b, fault="flip", dir="s2c", idx=2, off=9, bit=1))
            scns.append(dict(b, fault="flip", dir="c2s", idx=3, off=3, bit=0))
            scns.append(dict(b, fault="dup", dir="c2s", idx=6))
            scns.append(dict(b, cfail=2))
            scns.append(dict(b, sfail=3))
            # a reader that has taken only part of a record and then writes (refused by TLCP / TLS 1.2 while received data is buffered) or shuts down: the unread
            # plaintext stays where it is
            scns.append(dict(b, ss="r64:64,W100,r136:64,w100,r1:8"))
            scns.append(dict(b, ss="r40:40,x"))
            scns.append(dict(b, cs="w200,r30:30,W50,r70:64,x"))
    for i, s in enumerate(scns):
        s["id"] = i + 1
    creds = tlslib.ensure_creds()
    res = tlslib.run_scenarios(scns, tag="c19", procs=len(scns))     # one scenario per process: its stdout/stderr belong to it
    for r in res:
        s = r["scn"]
        key = "c19:hs:p%s:m%d:%s:%s" % (s["proto"], 1 if "strust" in s else 0, s["scred"], ("%s-%s-%s" % (s["fault"], s["dir"], s["idx"])) if s.get("fault") else ("cfail%s" % s["cfail"] if s.get("cfail") else ("sfail%s" % s["sfail"] if s.get("sfail") else "honest")))
        if (s["cs"], s["ss"]) != ("w200,r100:64,x", "r200:64,w100,r1:8"):
            key += ":cs=%s:ss=%s" % (s["cs"].replace(",", "_"), s["ss"].replace(",", "_"))
        if r["san"] or not r["complete"]:
            c.note("scenario %s did not complete (%s): judged by C06/C08-C10, skipped here" % (key, r["san"]))
            continue
        secrets = []
        for name in {s["scred"], s.get("ccred", "-")} - {"-"}:
            for kf in ("sign.key", "enc.key"):
                p = os.path.join(creds, name, kf)
                if os.path.exists(p):
                    secrets.append(("%s/%s" % (name, kf), bytes.fromhex(open(p).read().strip())))
        for e in r["events"]:
            if e["e"] == "Draw" and e.get("ok") == 1 and e["n"] >= 16:
                secrets.append(("draw:%s:%d" % (e["who"], e["i"]), bytes(e["b"])))
            if e["e"] == "HsRet" and e.get("rc") == 1:
                kb = bytes.fromhex(e["keys"])
                if s["proto"] == 772:
                    secrets += [("tls13:%s:client_write_iv" % e["who"], kb[0:12]), ("tls13:%s:server_write_iv" % e["who"], kb[12:24])]
                else:
                    secrets += [("%s:master_secret" % e["who"], kb[:48]), ("%s:key_block" % e["who"], kb[48:144])]
        secrets.append(("plaintext c2s", bytes(((o * 131 + (o >> 8) * 17 + 3) & 255) for o in range(200))))
        secrets.append(("plaintext s2c", bytes(((o * 131 + (o >> 8) * 17 + 77 + 3) & 255) for o in range(200))))
        hay = (r["stdout"] or b"") + b"\n" + r["stderr"].encode(errors="replace")
        hits = find(hay, secrets)
        # hello randoms and key shares are public: a draw that went on the wire in clear is not a secret -- only count draws that are not
        # transmitted: rather than guess, report any hit; the public randoms never appear on fd 1/2 in a quiet build either
        ops.append((key, {"e": "Op", "name": key, "explicit": 0, "hits": hits, "nsec": len(secrets), "bytes_on_fd12": len(hay) - 1}, hay[-600:].decode(errors="replace")))
    # (c) a peer that is not the library sends, right after the handshake, correctly protected records that are not application data (a NewSessionTicket-shaped
    # handshake message, a ChangeCipherSpec, an unknown type) carrying a recognisable plaintext: whatever the receiver makes of them, the decrypted bytes stay off fd 1/2
    import roguepeer, concurrent.futures as cf
    sexe = vlib.cc_driver("srvdrv", ["srvdrv.c", "vh.c"])
    jobs = [(proto, role, dev) for proto in (257, 771, 772) for role in ("server", "client") for dev in ("post_hs_handshake", "post_hs_ccs", "post_hs_unknown")]

    def one(j):
        proto, role, dev = j
        sp = "tlcp" if proto == 257 else "srv"
        if role == "server":          # the library is the server, the independent client deviates
            return j, roguepeer.run(creds, sexe, proto, sp + "_d2", "-", dev, capture=True)
        return j, roguepeer.run_server(creds, sexe, proto, sp + "_d2", "trust_root", dev, capture=True)
    with cf.ThreadPoolExecutor(9) as ex:
        for (proto, role, dev), (view, evs, san, hay) in ex.map(one, jobs):
            key = "c19:posths:p%d:library-%s:%s" % (proto, role, dev)
            if san:
                c.note("%s: library process ended abnormally (%s): judged by C06, skipped here" % (key, str(san)[:120]))
                continue
            hs = [e for e in evs if e.get("e") == "HsRet"]
            if not hs or hs[0].get("rc") != 1:
                raise RuntimeError("%s: the handshake with the independent peer did not complete, the scenario tests nothing: %s %s" % (key, view, hs))
            hits = find(hay, [("post-handshake record plaintext", roguepeer.POST_MARK)])
            ops.append((key, {"e": "Op", "name": key, "explicit": 0, "hits": hits, "nsec": 1, "bytes_on_fd12": len(hay) - 1}, hay[-600:].decode(errors="replace")))
    for key, ev, _ in ops:
        c.count(1, key)
    rej, states = vlib.validate("Leak", [[ev] for _, ev, _ in ops], tag="c19", shards=2)
    c.cov["traces_validated_against_impl"] = len(ops)
    c.cov["trace_states"] = states
    c.cov["secrets_searched"] = sum(ev["nsec"] for _, ev, _ in ops)
    c.cov["bytes_on_fd1_fd2"] = sum(ev["bytes_on_fd12"] for _, ev, _ in ops)
    for i, j, ev in rej:
        key, e, excerpt = ops[i]
        c.violation(key, "secret material on stdout/stderr: %s" % e["hits"][:6], {"operation": e, "output_excerpt": excerpt})
    for key, ev, _ in ops[:2] + ops[-1:]:
        c.sample({"key": key, "event": ev})
    return c.finish(
        rule="one Op event per library operation (API operations with fd 1/2 captured per operation; one handshake scenario per process); non-trivial = operations that wrote "
             "anything to fd 1/2 or handle at least one secret; distinct = distinct operation keys; secrets are searched raw, hex (both cases), base64, word-swapped, and by 16-byte windows",
        trusted=["TLC (Leak.tla judge)", "the harness's knowledge of the secrets (entropy log, credential files, public TLS_CONNECT fields)"],
        assumptions=["only secrets the harness can name are searched; TLS 1.3 traffic keys are covered through their IVs and the logged ephemeral scalars"])


if __name__ == "__main__":
    main(body)
