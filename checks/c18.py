#!/usr/bin/env python3
"""C18 - randomised operations are fresh, entropy-driven and fail closed.
TLC: Entropy.tla (operations x draws x every failure index x retries: Fresh, EntropyDriven, FailsClosed).
Binding: getentropy is interposed in the harness.  For every randomised API operation and for the three handshakes in both roles:
a clean run learns the number of draws N; then the source is made to fail at EVERY draw index 1..N; the operation is run twice on
equal streams and on a different stream; and repeated in one stream.  All events are validated against EntropyTrace.tla."""
from common import *
import cryptolib as CL
import tlslib, json

OPS = ["rand_bytes", "sm2_keygen", "sm2_sign", "sm2_sign_fixlen", "sm2_do_sign", "sm2_sign_ctx", "sm2_encrypt", "sm2_encrypt_fixlen", "sm2_do_encrypt", "sm2_encrypt_ctx",
       "pkcs8_encrypt", "sm9_sign_master_keygen", "sm9_enc_master_keygen", "sm9_sign", "sm9_encrypt", "sm9_kem", "sm9_exch_1A", "x509_cert_sign", "cms_sign", "cms_envelop",
       "tls_record_iv", "sm3_xmss_keygen"]
PERSIST = ["sm2_sign_ctx_persist"]            # one context across a whole history (nonces precomputed in batches of 32)
HISTORY = ["sm2_do_sign", "sm2_sign_ctx", "sm2_do_encrypt", "sm2_keygen", "sm9_sign", "tls_record_iv", "rand_bytes", "sm9_exch_1A"]


NONCE_OPS = ("sm2_keygen", "sm2_do_sign", "sm2_sign", "sm2_sign_fixlen", "sm2_do_encrypt", "sm2_encrypt", "sm2_encrypt_fixlen")
D1 = int.from_bytes(b"\x11" + b"\x42" * 31, "big")          # entdrv's fixed signing key


def two_ints(der):
    """(a, b) of SEQUENCE { INTEGER a, INTEGER b, ... } read leniently from a possibly truncated prefix"""
    i = 2 + (der[1] & 0x7f if der[1] & 0x80 else 0)
    out = []
    for _ in range(2):
        ln = der[i + 1]; out.append(int.from_bytes(der[i + 2:i + 2 + ln], "big")); i += 2 + ln
    return out


def nonce_source(ev):
    """index (1-based) of the drawn value that is the secret scalar behind a successful result, 0 if none: the draw is read as the library's
    sm2_z256_rand_range does (32 bytes straight into the limbs, little-endian here) and must lie in [1, n-1]"""
    from sm2ref import n, G, mul
    out = bytes(ev.get("out", [])); op = ev["op"]
    # (either byte order of the draw is accepted: how the 32 bytes become a scalar is the implementation's business, that the scalar IS a draw is the property's)
    raw = [bytes(ev["cand"][i:i + 32]) for i in range(0, len(ev.get("cand", [])), 32)]
    cands = [int.from_bytes(b, "little") for b in raw] + [int.from_bytes(b, "big") for b in raw]
    try:
        if op in ("sm2_do_sign", "sm2_sign", "sm2_sign_fixlen"):
            r, s_ = (int.from_bytes(out[:32], "big"), int.from_bytes(out[32:64], "big")) if op == "sm2_do_sign" else two_ints(out)
            want = lambda k: 0 < k < n and k == (s_ * (1 + D1) + r * D1) % n
        else:
            pt = (int.from_bytes(out[:32], "big"), int.from_bytes(out[32:64], "big")) if op in ("sm2_keygen", "sm2_do_encrypt") else tuple(two_ints(out))
            want = lambda k: 0 < k < n and mul(k, G) == pt
    except Exception:
        return 0
    for i, k in enumerate(cands):
        if want(k):
            return i % len(raw) + 1
    return 0


def api_part(c):
    # phase 1: learn the number of draws of each operation
    res = CL.run_script("entdrv", ["entdrv.c", "vh.c"], [{"op": op, "seed": 11, "failat": 0, "reps": 1} for op in OPS], tag="c18a", procs=8)
    ndraws = {}
    for (case, evs, san) in res:
        if san:
            c.violation("c18:%s:clean:crash" % case["op"], "driver died in a clean run: %s" % san, {"case": case})
            continue
        end = [e for e in evs if e["e"] == "OpEnd"]
        ndraws[case["op"]] = end[0]["draws"] if end else 0
    c.cov["draws_per_operation"] = ndraws
    # phase 2: per operation one execution: clean (seed A), clean again (A), clean (B), a failure at every draw index, and a history
    lines, owner = [], []
    reps = 40 if c.quick else 1000
    for op in ndraws:
        n = ndraws[op]
        group = [{"op": op, "seed": 11, "failat": 0, "reps": 1}, {"op": op, "seed": 11, "failat": 0, "reps": 1}, {"op": op, "seed": 12 + c.seed, "failat": 0, "reps": 1}]
        idxs = range(1, n + 1) if (not c.quick or n <= 40) else list(range(1, 34)) + [n - 1, n]
        group += [{"op": op, "seed": 11, "failat": i, "reps": 1} for i in idxs]
        if op in HISTORY:
            group.append({"op": op, "seed": 77 + c.seed, "failat": 0, "reps": reps})
        for g in group:
            lines.append(g)
            owner.append(op)
    # a source that delivers a run of values no scalar range accepts (FF..FF) before it behaves: the operation either fails or uses a later, in-range draw --
    # never the rejected value, and never the same value twice (rand_range gives up after 100 tries)
    for op in NONCE_OPS:
        if op in ndraws:
            for high in (1, 2, 50, 99, 100, 101, 102, 150):
                lines.append({"op": op, "seed": 21, "failat": 0, "reps": 2, "high": high}); owner.append(op)
    # a source whose first 32-byte value sits at the edge of the scalar range: the group order n itself, just above it, between n and the field prime p, p, the
    # largest 256-bit values, zero (each delivered in both byte orders): a successful result is still built on a drawn value in [1, n-1]
    from sm2ref import n as N_, p as P_
    for op in NONCE_OPS:
        if op in ndraws:
            for v in (N_, N_ + 1, N_ + 5, (N_ + P_) // 2, P_ - 1, P_, P_ + 1, 2 ** 256 - 2, 0, N_ - 1):
                for order in ("little", "big"):
                    lines.append({"op": op, "seed": 23, "failat": 0, "reps": 1, "edge": v.to_bytes(32, order).hex(), "_edge": "%s%+d:%s" % ((("n", v - N_) if abs(v - N_) < 10 else ("p", v - P_) if abs(v - P_) < 10 else ("v", v % 1000)) + (order,))}); owner.append(op)
    # a source that stays down from some draw on, whatever reason it gives (EINTR = 4, EAGAIN = 11, EIO = 5, ENOSYS = 38): an operation that needs that draw fails
    # -- a bounded retry on "interrupted" must end in failure, not in success with a buffer nobody filled
    for op in ndraws:
        n = ndraws[op]
        if n < 1:
            continue
        for err in (4, 11, 5, 38):
            for ff in sorted({1, n}):
                lines.append({"op": op, "seed": 11, "failat": 0, "reps": 1, "failfrom": ff, "errno": err, "_edge": "down-from-%d-errno%d" % (ff, err)}); owner.append(op)
    # persistent contexts: a history of 70 signatures with the source failing at each draw index of the first three nonce batches
    for op in PERSIST:
        ndraws[op] = 0
        for fa in [0] + (list(range(1, 100)) if not c.quick else list(range(30, 70)) + [1, 2, 96]):
            lines.append({"op": op, "seed": 31, "failat": fa, "reps": 70}); owner.append(op)
    # (lines with a source that stays down run on their own with a short time limit: an operation that spins on such a source is reported, not waited for)
    down = [i for i, ln in enumerate(lines) if ln.get("failfrom")]
    rest = [i for i, ln in enumerate(lines) if not ln.get("failfrom")]
    res = [None] * len(lines)
    for i, r in zip(rest, CL.run_script("entdrv", ["entdrv.c", "vh.c"], [lines[i] for i in rest], tag="c18b", procs=1 if len(rest) < 50 else 12)):
        res[i] = r
    for i, r in zip(down, CL.run_script("entdrv", ["entdrv.c", "vh.c"], [lines[i] for i in down], tag="c18d", procs=16, timeout=10)):
        res[i] = r
    per_op = {}
    for (case, evs, san), op in zip(res, owner):
        key = "c18:%s:seed%s:failat%s:reps%s%s%s" % (op, case["seed"], case["failat"], case["reps"], ":high%s" % case["high"] if case.get("high") else "", ":edge=%s" % case["_edge"] if case.get("_edge") else "")
        c.count(1, key)
        if san:
            c.violation(key + ":crash", "driver died / sanitizer report: %s" % san, {"case": case})
            continue
        for e in evs:
            if e["e"] == "OpEnd":
                e["failat"] = case["failat"] or case.get("failfrom", 0)
                e["nonceop"] = 1 if (op in NONCE_OPS and e["rc"] == 1 and (case["reps"] <= 4)) else 0
                e["nsrc"] = nonce_source(e) if e["nonceop"] else 0
                e.pop("cand", None)
                if e["nonceop"]:
                    c.cov["nonce_source_checked"] = c.cov.get("nonce_source_checked", 0) + 1
        if case.get("high") or case.get("edge") or case.get("failfrom"):
            evs = [{"e": "Group"}] + evs            # its own stream history: the comparison with other runs of the same seed does not apply
        per_op.setdefault(op, [{"e": "Group"}]).extend(evs)
    return [("c18:api:" + op, evs) for op, evs in per_op.items()]


def hs_part(c):
    """the three handshakes, both roles: a failure at every draw of the endpoint under test"""
    execs = []
    protos = (257, 771, 772)
    base = {}
    scn = []
    for proto in protos:
        for mutual in (0, 1):
            s = {"proto": proto, "scred": "tlcp_d2" if proto == 257 else "srv_d2", "ctrust": "trust_root", "cs": "w10,p", "ss": "p,w10", "drawlog": 1, "cseed": 5, "sseed": 6}
            if mutual:
                s.update({"ccred": "cli_d2", "strust": "trust_root"})
            scn.append(s)
    for i, s in enumerate(scn):
        s["id"] = i + 1
    clean = tlslib.run_scenarios([dict(s) for s in scn], tag="c18h", procs=6)
    faults = []
    for r in clean:
        s = r["scn"]
        if not r["complete"]:
            raise RuntimeError("clean handshake did not complete for %s" % s)
        for who, fld in (("C", "cfail"), ("S", "sfail")):
            n = max([e["i"] for e in r["events"] if e["e"] == "Draw" and e["who"] == who] + [0])
            idxs = range(1, n + 1) if (not c.quick or n <= 12) else sorted(set(list(range(1, 9)) + [n // 2, n - 2, n - 1, n]))
            for i in idxs:
                faults.append(dict(s, **{fld: i}))
            c.cov.setdefault("handshake_draws", {})["p%s:m%d:%s" % (s["proto"], 1 if "strust" in s else 0, who)] = n
    for i, s in enumerate(faults):
        s["id"] = 100 + i
    res = tlslib.run_scenarios(faults, tag="c18f", procs=16, timeout=1200)
    for r in list(clean) + res:
        s = r["scn"]
        who = "C" if s.get("cfail") else ("S" if s.get("sfail") else None)
        fa = s.get("cfail") or s.get("sfail") or 0
        key = "c18:hs:p%s:m%d:%s:failat%s" % (s["proto"], 1 if "strust" in s else 0, who or "clean", fa)
        c.count(1, key)
        if r["san"] or not r["complete"]:
            c.violation(key + ":crash", "driver died or sanitizer report with a failing entropy source: %s" % (r["san"] or "incomplete"), {"scenario": s, "stderr": r["stderr"][-2000:]})
            continue
        for w in (("C", "S") if who is None else (who,)):
            evs = [{"e": "Group"}, {"e": "OpBegin", "op": "hs", "seed": 0, "failat": fa, "rep": 0}]
            for e in r["events"]:
                if e["e"] == "Draw" and e["who"] == w:
                    evs.append(e)
                elif e["e"] == "Sent" and e["who"] == w:
                    alert = e["rtype"] == 21 or (s["proto"] == 772 and e["rtype"] == 23 and e["n"] == 24)
                    evs.append({"e": "Emit", "kind": "alert" if alert else "record"})
                elif e["e"] == "HsRet" and e["who"] == w:
                    evs.append({"e": "OpEnd", "op": "hs", "rc": e["rc"], "draws": e["draws"], "entfail": e["entfail"], "failat": fa, "rep": 0, "persist": 0, "outlen": 0, "nonceop": 0, "nsrc": 0, "eph": e.get("keys", "-") + key})
            execs.append((key + ":" + w, evs))
    return execs


def body():
    c = Check("C18", "fault_enumeration")
    c.add_model(vlib.tlc_model("Entropy"), "Entropy MaxOps=3 MaxDraws=3 MaxRetries=1, every failAt: Fresh, EntropyDriven, FailsClosed")
    execs = api_part(c) + hs_part(c)
    rej, states = vlib.validate("EntropyTrace", [e[1] for e in execs], tag="c18", timeout=1200, shards=8)
    c.cov["traces_validated_against_impl"] = len(execs)
    c.cov["trace_states"] = states
    for i, j, ev in rej:
        key, evs = execs[i]
        begin = [e for e in evs[:j + 1] if e["e"] == "OpBegin"][-1:] or [{}]
        sub = "%s:seed%s:failat%s" % (key, begin[0].get("seed"), begin[0].get("failat"))
        what = "failed to fail closed / not entropy-driven / value reused"
        if ev.get("e") == "OpEnd":
            if ev.get("nonceop") == 1 and ev.get("nsrc") == 0:
                what = "the operation reported success, but the secret scalar behind its result is not one of the in-range values it drew from the entropy source (high-streak of %s rejected draws)" % ev.get("high", 0)
            elif (ev.get("entfail") == 1 or begin[0].get("failat")) and ev.get("rc") == 1:
                what = "the operation reported success although the entropy source failed at draw %s" % begin[0].get("failat")
            elif begin[0].get("failat"):
                what = "the operation emitted a non-alert message after the entropy source failed at draw %s" % begin[0].get("failat")
            elif ev.get("rc") == 1 and ev.get("draws") == 0:
                what = "the operation succeeded without drawing entropy"
            else:
                what = "ephemeral value does not depend on the entropy stream as required (equal streams <=> equal values; no repeats within a stream)"
        c.violation(sub, what, {"event_index": j, "events": evs[max(0, j - 10):j + 2]})
    for key, evs in execs[1:2]:
        c.sample({"key": key, "events": [json.dumps(e)[:160] for e in evs[:14]]})
    c.cov["exhaustive"] = not c.quick
    return c.finish(
        rule="per operation: clean run (learns N draws), second run on the equal stream, run on a different stream, one run per failure index 1..N (quick: up to 33 + last two; "
             "handshakes: first 8, middle, last 3), history of %d repetitions in one stream for the signing/encryption/key-generation operations; distinct = distinct (operation, seed, failure index)" % (40 if c.quick else 1000),
        trusted=["TLC", "interposed getentropy in harness/vh.c", "harness/entdrv.c, harness/tlsdrv.c (send() interposed to log emissions in program order)"],
        assumptions=["an encrypted TLS 1.3 alert is recognised by its length (24 bytes)"])


if __name__ == "__main__":
    main(body)
