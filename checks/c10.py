#!/usr/bin/env python3
"""C10 - in-flight tampering with the handshake is always detected.
TLC: Tls.tla with a proxy adversary (budget 1 exhaustive, budget 2-3 by simulation in thorough).
Binding: every fault the model enumerates is concretised on real handshakes (every record x fault kind, payload bit flips),
and each execution is validated against TlsTrace.tla with the C10 invariant evaluated in every explaining state."""
from common import *
import tlslib, json

PROTOS = (257, 771, 772)


def base(proto, mutual):
    s = {"proto": proto, "scred": "tlcp_d2" if proto == 257 else "srv_d2", "ctrust": "trust_root", "cs": "w10,p", "ss": "p,w10"}
    if mutual:
        s.update({"ccred": "cli_d2", "strust": "trust_root"})
    return s


def body():
    c = Check("C10", "fault_enumeration")
    c.add_model(vlib.tlc_model("MCTls", "MCTls_adv"), "Tls Budget=1: every single proxy fault at every point, 3 protocols x auth modes; TamperDetected, AppOnlyFromPeer")
    r = vlib.tlc("MCTls", "MCTls_vac", workers=8, timeout=300)
    if "NoFaultedCompletion" not in r["violated"]:
        raise RuntimeError("vacuity guard: the model never completes after a fault hit a running receiver")
    c.cov["tlc_runs"].append({"model": "vacuity witness: trailing duplicate completes (NoFaultedCompletion violated as expected)", "states": r["states"]})
    if not c.quick:
        r = vlib.tlc("MCTls", "MCTls_adv3", workers=16, timeout=1500, simulate=30000, depth=70, seed=c.seed)
        if r["violated"] or r["errors"]:
            raise RuntimeError("Tls Budget=3 simulation: %s %s" % (r["violated"], r["errors"][:2]))
        c.cov["tlc_runs"].append({"model": "Tls Budget=3 simulation num=30000/worker depth=70", "states": r["states"], "transitions": r["transitions"]})
        c.cov["states"] += r["states"]
    # honest runs to learn the handshake records of each configuration
    honest = tlslib.run_scenarios([dict(base(p, m), id=i) for i, (p, m) in enumerate((p, m) for p in PROTOS for m in (0, 1))], tag="c10h", procs=6)
    scns = []
    for r in honest:
        s = r["scn"]
        if not r["complete"] or r["events"][-1].get("crc") != 1 or r["events"][-1].get("src") != 1:
            raise RuntimeError("honest baseline run failed for %s (C08 territory): %s" % (s, r["san"]))
        recs = [e for e in r["events"] if e["e"] == "Rec"]
        # handshake records = those before the first application-data write
        evs = r["events"]
        first_w = min(i for i, e in enumerate(evs) if e["e"] == "WriteBegin")
        hs = [e for e in evs[:first_w] if e["e"] == "Rec"] + [e for e in evs[first_w:] if e["e"] == "Rec" and e["rtype"] != 23 and not (s["proto"] == 772)]
        hsrecs = [e for e in recs if (e["dir"], e["idx"]) in {(x["dir"], x["idx"]) for x in hs}]
        # in TLS 1.3 everything after ServerHello has type 23: take records logged before both HsRet events
        for e in hsrecs:
            for kind in ("drop", "dup", "swap", "trunc"):
                scns.append(dict(s, fault=kind, dir=e["dir"], idx=e["idx"]))
            for k in range(9):      # 0 replayed first record, 1 handshake message, 2 ChangeCipherSpec, 3 close_notify, 4 application data, 5 empty handshake record, 6/7 warning alerts, 8 HelloRequest
                scns.append(dict(s, fault="inject", dir=e["dir"], idx=e["idx"], off=k))
            n = e["len"] - 5
            # plaintext handshake messages other than Certificate: every byte; Certificate and encrypted records: every 8th byte (quick)
            plain = e["rtype"] == 22 and e["hs"] in (1, 2, 12, 13, 14, 15, 16) or e["rtype"] == 20
            st = 1 if not c.quick else (1 if plain else 8)
            for off in range(0, n, st):
                bits = range(8) if not c.quick else [(off * 5 + e["idx"]) % 8]
                for bit in bits:
                    scns.append(dict(s, fault="flip", dir=e["dir"], idx=e["idx"], off=off, bit=bit))
            # the fields of the hello messages that carry a choice (message type, length, version): every other value an attacker would put there -- the neighbouring
            # versions (03 01 .. 03 04, 01 01), type and length off by small amounts -- not only single-bit neighbours
            if e["rtype"] == 22 and e["hs"] in (1, 2):
                for off in (0, 3, 4, 5):
                    for mask in ((1, 2, 3, 4, 5, 6, 7) if off in (4, 5) else (3, 5, 6)):
                        scns.append(dict(s, fault="xor", dir=e["dir"], idx=e["idx"], off=off, bit=mask))
            if c.quick and n > 1:   # always the last payload byte too
                scns.append(dict(s, fault="flip", dir=e["dir"], idx=e["idx"], off=n - 1, bit=0))
    for i, s in enumerate(scns):
        s["id"] = i + 1
    log("[C10] %d faulted handshakes" % len(scns))
    res = tlslib.run_scenarios(scns, tag="c10", procs=16, timeout=3000)
    execs = []
    eff = 0
    for r in res:
        s = r["scn"]
        key = "tlsdrv:p%s:m%d:%s:%s:%s:off=%s:bit=%s" % (s["proto"], 1 if "strust" in s else 0, s["fault"], s["dir"], s["idx"], s.get("off", 0), s.get("bit", 0))
        if r["san"] or not r["complete"]:
            c.violation(key + ":crash", "driver died or sanitizer report: %s" % (r["san"] or "incomplete trace rc=%s" % r["rc"]), {"scenario": s, "stderr": r["stderr"][-3000:]})
            continue
        applied = [e for e in r["events"] if e["e"] == "Rec" and e["fault"] != "none"]
        c.count(1, key if applied else None)
        eff += 1 if applied else 0
        execs.append((key, s, r["events"]))
    rej, states = vlib.validate("TlsTrace", [e[2] for e in execs], tag="c10", timeout=1500)
    c.cov["traces_validated_against_impl"] = len(execs)
    c.cov["effective_faults"] = eff
    c.cov["trace_states"] = states
    both = 0
    for key, s, evs in execs:
        end = evs[-1]
        if end.get("crc") == 1 and end.get("src") == 1:
            both += 1
    c.cov["both_completed_after_fault"] = both   # trailing duplicates / faults landing after the handshake; each one was explained by the contract
    for i, j, ev in rej:
        key, s, evs = execs[i]
        c.violation(key, "faulted execution is not a behaviour of the TLS contract (tamper detection): first unexplained event #%d %s" % (j, json.dumps(ev)[:200]),
                    {"scenario": s, "event_index": j, "events": evs[max(0, j - 14):j + 3]})
    for key, s, evs in execs[5:7]:
        c.sample({"scenario": s, "events": [json.dumps(e)[:160] for e in evs if e["e"] in ("Rec", "HsRet", "Read", "Close")][-8:]})
    c.cov["exhaustive"] = not c.quick
    return c.finish(
        rule="for each of 3 protocols x 2 auth modes: every handshake record x {drop, duplicate, swap-with-next, truncate, 9 injections} and "
             + ("every bit of every payload byte" if not c.quick else "one bit of every byte of the plaintext handshake messages (ClientHello, ServerHello, key exchanges, CertificateRequest, ServerHelloDone, CertificateVerify, ChangeCipherSpec) and of every 8th byte of Certificate and encrypted records") +
             "; non-trivial = the proxy logged an effectively applied fault; distinct = distinct (config, fault, record, offset, bit)",
        trusted=["TLC", "harness/tlsdrv.c proxy (logs the fault it effectively applied)"],
        assumptions=["single-fault schedules concretely; multi-fault schedules only in the model (simulation)"])


if __name__ == "__main__":
    main(body)
