#!/usr/bin/env python3
"""C03 - hash, MAC and KDF interfaces equal their standards under every chunking.
TLC: Stream.tla (buffer machine "md": all chunkings, small block) and behaviour generation of transition-covering chunkings.
Binding: every API path of every algorithm is driven with those chunkings scaled to the real block size; each execution is
validated against CryptoTrace.tla, where TLC recomputes padding, chaining, HMAC, PBKDF2, HKDF and the counter KDFs from
Crypto.tla over compression-function tables of the reference implementations."""
from common import *
import cryptolib as CL
import json

# SHA-512/224 and SHA-512/256 are not in the property (and the library computes truncated SHA-512 for them, see DESIGN.md section 7)
ALGS = {"sm3": 64, "sha1": 64, "sha224": 64, "sha256": 64, "sha384": 128, "sha512": 128}
NATIVE = ("sm3", "sha1", "sha224", "sha256", "sha384", "sha512")


def cases(c, chunkings):
    rng = c.rng
    out = []

    def msg(n):
        return bytes(rng.getrandbits(8) for _ in range(n))

    def add(**kw):
        kw["id"] = len(out) + 1
        out.append(kw)
    # --- hashes: every TLC chunking on every API path ---
    for alg, B in ALGS.items():
        apis = ["generic"] + (["native"] if alg in NATIVE else []) + (["sm3digest"] if alg == "sm3" else [])
        for api in apis:
            sel = chunkings if (api == "generic" or not c.quick) else chunkings[::2]
            for ch in sel:
                real = CL.scale(ch, B)
                add(f="hash", api=api, alg=alg, msg=CL.hx(msg(sum(real))), chunks=",".join(map(str, real)))
        # every length 0..3B+1: one-shot, and streaming with one split (all splits in thorough)
        for n in range(0, 3 * B + 2):
            m = msg(n)
            add(f="hash", api="oneshot", alg=alg, msg=CL.hx(m))
            splits = range(0, n + 1) if not c.quick else [rng.randrange(0, n + 1)]
            if not c.quick and alg not in ("sm3", "sha256", "sha512"):
                splits = [rng.randrange(0, n + 1) for _ in range(4)]
            for s in splits:
                add(f="hash", api="native" if alg in NATIVE else "generic", alg=alg, msg=CL.hx(m), chunks="%d,%d" % (s, n - s))
    # --- HMAC: key lengths around the block size x chunkings ---
    for alg, B in ALGS.items():
        for kl in (0, 1, 12, B - 1, B, B + 1, 4 * B):
            key = msg(kl)
            apis = ["generic", "oneshot"] + (["native"] if alg == "sm3" else []) + (["sm3digest"] if alg == "sm3" and 12 <= kl <= 64 else [])
            # an interface may refuse the empty key (outside the property's stated domain); if it accepts it the value must be right
            extra = {"mayrefuse": 1} if kl == 0 else {}
            for api in apis:
                sel = chunkings[:: (16 if c.quick else 4)]
                for ch in sel:
                    real = CL.scale(ch, B)
                    m = msg(sum(real))
                    if api == "oneshot":
                        add(f="hmac", api=api, alg=alg, key=CL.hx(key), msg=CL.hx(m), **extra)
                    else:
                        add(f="hmac", api=api, alg=alg, key=CL.hx(key), msg=CL.hx(m), chunks=",".join(map(str, real)), **extra)
                for n in (0, 1, B - 1, B):
                    add(f="hmac", api=api, alg=alg, key=CL.hx(key), msg=CL.hx(msg(n)), **extra, **({} if api == "oneshot" else {"chunks": str(n)}))
    # --- PBKDF2 (structure of F with small iteration counts), HKDF, counter KDFs ---
    for alg in (["sm3", "sha256", "sha1", "sha512"] if c.quick else list(ALGS)):
        hl = {"sm3": 32, "sha1": 20, "sha224": 28, "sha256": 32, "sha384": 48, "sha512": 64, "sha512-224": 28, "sha512-256": 32}[alg]
        if alg == "sm3":
            for it in (1, 2, 3, 7):
                for ol in (1, hl - 1, hl, hl + 1, 2 * hl, 2 * hl + 5):
                    for _ in range(2):
                        pl, sl = rng.choice([0, 1, 8, 64, 65, 200]), rng.choice([1, 8, 16, 64])
                        add(f="pbkdf2", api="sm3", alg=alg, **{"pass": CL.hx(msg(pl))}, salt=CL.hx(msg(sl)), iter=it, outlen=ol)
        for sl in (0, 1, hl, 100):
            for il in (0, 1, hl, 150):
                add(f="hkdf_extract", api="generic", alg=alg, salt=CL.hx(msg(sl)), ikm=CL.hx(msg(il)))
                if alg == "sm3":
                    add(f="hkdf_extract", api="sm3", alg=alg, salt=CL.hx(msg(sl)), ikm=CL.hx(msg(il)))
        for ol in (1, hl - 1, hl, hl + 1, 3 * hl, 255):
            for il in (0, 10):
                add(f="hkdf_expand", api="generic", alg=alg, prk=CL.hx(msg(hl)), info=CL.hx(msg(il)), outlen=ol)
                if alg == "sm3":
                    add(f="hkdf_expand", api="sm3", alg=alg, prk=CL.hx(msg(hl)), info=CL.hx(msg(il)), outlen=ol)
    # counter KDFs past 256 output blocks (the block counter needs its second octet), HKDF at its maximum of 255 blocks
    add(f="sm3kdf", api="sm3", z=CL.hx(msg(40)), outlen=8192 + 33, chunks="7")
    add(f="sm2kdf", api="sm2", z=CL.hx(msg(64)), outlen=8192 + 1)
    add(f="hkdf_expand", api="generic", alg="sm3", prk=CL.hx(msg(32)), info=CL.hx(msg(3)), outlen=255 * 32)
    add(f="hkdf_expand", api="sm3", alg="sm3", prk=CL.hx(msg(32)), info=CL.hx(msg(3)), outlen=255 * 32)
    # input lengths across the padding boundaries of the hash (the 4-byte counter follows the input: 52..63 mod 64 is where input + counter + padding needs a second
    # block) x output lengths of one, two and several blocks
    for zl in sorted(set(list(range(50, 70)) + list(range(114, 132)) + [0, 1, 32, 100, 180, 183, 188, 191, 192, 193])):
        for ol in ((16, 33, 64, 100) if zl not in (1, 32, 64, 65, 100) else ()):
            z = msg(zl)
            if zl: add(f="sm2kdf", api="sm2", z=CL.hx(z), outlen=ol)
            add(f="sm3kdf", api="sm3", z=CL.hx(z), outlen=ol, chunks="%d" % rng.randrange(0, zl + 1))
    for zl in (1, 32, 64, 65, 100):
        for ol in (1, 31, 32, 33, 64, 255):
            z = msg(zl)
            add(f="sm2kdf", api="sm2", z=CL.hx(z), outlen=ol)
            add(f="sm3kdf", api="sm3", z=CL.hx(z), outlen=ol, chunks="%d" % rng.randrange(0, zl + 1))
    return out


def key_of(case):
    return "hashdrv:%s:%s:%s:%s" % (case["f"], case.get("api"), case.get("alg", "sm3"),
                                    ":".join("%s=%s" % (k, (v if len(str(v)) < 24 else "len%d" % (len(str(v)) // 2))) for k, v in case.items() if k not in ("f", "api", "alg", "id")))


def run_variant(c, variant, cs, tag):
    res = CL.run_script("hashdrv", ["hashdrv.c", "vh.c"], cs, variant=variant, tag=tag)
    execs = []
    for case, evs, san in res:
        k = key_of(case) + ("" if variant == "asan" else ":" + variant)
        c.count(1, k)
        if san:
            c.violation(k + ":crash", "driver died / sanitizer report: %s" % san, {"case": case})
            continue
        execs.append((k, case, CL.annotate(evs)))
    rej, states = vlib.validate("CryptoTrace", [e[2] for e in execs], tag=tag, timeout=1500)
    c.cov["traces_validated_against_impl"] += len(execs)
    c.cov["trace_states"] = c.cov.get("trace_states", 0) + states
    for i, j, ev in rej:
        k, case, evs = execs[i]
        short = {kk: (vv if kk != "T" else "<%d rows>" % len(vv)) for kk, vv in ev.items()}
        c.violation(k, "result differs from the standard's function of the concatenated input (event #%d %s)" % (j, json.dumps(short)[:300]),
                    {"case": case, "event_index": j, "events": [{kk: vv for kk, vv in e.items() if kk != "T"} for e in evs]})
    return execs


def body():
    c = Check("C03", "model_checking")
    c.add_model(vlib.tlc_model("Stream", "Stream_md", coverage=False), "Stream Kind=md B=3 MaxLen=11: all chunkings (<=6 chunks, lengths 0..4), compress calls = blocks of Pad(fed)")
    chunkings, r = CL.tlc_chunkings("md")
    c.cov["tlc_runs"].append({"model": "Stream behaviour generation (md)", "behaviours": len(chunkings), "states": r["states"]})
    cs = cases(c, chunkings)
    log("[C03] %d cases" % len(cs))
    execs = run_variant(c, "asan", cs, "c03")
    if not c.quick:
        for variant in ("small", "plain"):
            try:
                run_variant(c, variant, cs[::3], "c03" + variant)
            except RuntimeError as ex:
                c.note("variant %s not run: %s" % (variant, str(ex)[:200]))
    for k, case, evs in execs[:1] + execs[len(execs) // 2:len(execs) // 2 + 1]:
        c.sample({"case": {kk: (vv if len(str(vv)) < 80 else str(vv)[:77] + "...") for kk, vv in case.items()},
                  "events": [json.dumps({kk: (vv if kk not in ("T", "in") else "<%d>" % len(vv)) for kk, vv in e.items()})[:200] for e in evs]})
    # the hash / MAC / PBKDF2 command line tools (tools/clilib.py, spec/Cli.tla) on files of sizes around the padding and buffer boundaries
    import clilib
    clilib.judge_sessions(c, clilib.sessions(c, "C03", ["digest"], "c03", [0, 1, 55, 56, 63, 64, 65, 119, 120, 4095, 4096, 4097, 8191, 8192, 8193, 10000] + ([] if c.quick else [65535, 65536, 65537, 1000000])), "c03")
    return c.finish(
        rule="cases = (algorithm, API path, key/salt/output length class, chunking); chunkings are the 256 behaviours TLC generates from Stream.tla scaled to "
             "the real block size, plus every length 0..3*block+1 with splits; distinct = distinct case keys; every execution is judged by TLC recomputing the "
             "construction from Crypto.tla",
        trusted=["TLC", "ref/sm3ref.py, ref/sharef.py compression functions (self-tested against the standards' vectors)", "harness/hashdrv.c"],
        assumptions=["PBKDF2 is checked through the parameterised interface with small iteration counts (structure of F), not at the PKCS#8 iteration count",
                     "messages with bit length above 2^32 are not in this tier"])


if __name__ == "__main__":
    main(body)
