#!/usr/bin/env python3
"""C06 - no memory-safety violation on arbitrary untrusted input.
What TLA+ decides here: (1) Wire.tla, the TLV reader all DER consumers rest on, transcribed check for check and run by TLC on every
byte string over an 11-value alphabet up to the bound: NoOverread, ScopesNested, termination, agreement of the step machine with the
functional reader; without one of the checks (Wire_neg.cfg) TLC finds the over-reading input.  WireJudge.tla then compares the real
asn1_any_type_from_der-based walk with that reader on the same strings (exhaustive to length 4 / 5, sampled beyond).  (2) Mutate.tla,
the grammar of structure-aware edit programs (tree edits of TLV objects, byte/field edits of text and TLS formats, record-level
edits of live handshakes): TLC enumerates the programs, tools/mutlib.py applies each to every seed object the library itself
produced, and every consumer (harness/fuzzdrv.c: decode + verify + print per format; harness/tlsdrv.c: both peers at every handshake
record) runs on the result under AddressSanitizer + UBSan with exact-size input and output allocations.  Memory safety itself is
observed by the sanitizers and by termination of every call; a TLA+ model cannot decide it."""
from common import *
import cryptolib as CL
import tlslib, mutlib, json, os, itertools

ALPHABET = [0, 1, 2, 3, 4, 48, 128, 129, 130, 133, 255]
TREE_TARGETS = {"asn1", "x509_cert", "x509_exts", "x509_name", "x509_crl", "x509_req", "cms", "pkcs8", "sm2_sig", "sm2_ct", "sm9_sig", "sm9_ct", "sm9_key"}
TEXT_TARGETS = {"pem", "base64", "hex", "http"}
TARGETS = ["asn1", "oid", "x509_cert", "x509_exts", "x509_name", "x509_crl", "x509_req", "cms", "pkcs8", "pem", "base64", "hex", "sm2_sig", "sm2_ct", "sm2_point", "sm9_sig", "sm9_ct",
           "sm9_key", "tls_record", "tls_cbc", "tls13_gcm", "http", "tls13_inner", "tls_cbc_inner"]


def edit_programs(cfg, limit=None):
    r = vlib.tlc("Mutate", cfg, workers=2, coverage=False, timeout=600)
    if r["violated"] or r["errors"] or not r["finished"]:
        raise RuntimeError("edit program generation %s failed: %s" % (cfg, r["errors"][:2]))
    progs = []
    for l in r["prints"]:
        if l.startswith('<<"EDIT"'):
            v = vlib.parse_tla_value(l)[1]
            progs.append([tuple(e) for e in v])
            if limit and len(progs) >= limit:
                break
    return progs, r["states"]


import os


def body():
    c = Check("C06", "exploration")
    q = c.quick
    rng = c.rng
    c.add_model(vlib.tlc_model("Wire", "Wire" if q else "Wire_full", timeout=3000, xmx="16g"), "Wire: the TLV reader on every byte string over an 11-value alphabet up to length %d: NoOverread, ScopesNested, MachineAgreesWithFunction%s" % (4 if q else 6, ", Terminates" if q else ""))
    neg = vlib.tlc("Wire", "Wire_neg", workers=4, coverage=False, timeout=300)
    if "NoOverread" not in neg["violated"]:
        raise RuntimeError("Wire_neg.cfg (one length check removed) no longer violates NoOverread")
    c.note("Wire_neg.cfg: without the long-form length check TLC finds an over-read after %d states, as it must" % neg["states"])
    # ---- (1) reader core conformance
    maxlen = 4 if q else 5
    strings = [bytes(t) for n in range(0, maxlen + 1) for t in itertools.product(ALPHABET, repeat=n)]
    strings += [bytes(rng.choice(ALPHABET + [5, 6, 12, 160]) for _ in range(rng.randrange(maxlen + 1, 14))) for _ in range(4000 if q else 40000)]
    lines = [{"kind": "walk", "in": CL.hx(s), "id": i + 1} for i, s in enumerate(strings)]
    res = CL.run_script("derdrv", ["derdrv.c", "vh.c"], lines, tag="c06w", procs=12)
    cases, cmeta = [], []
    for (line, evs, san), s in zip(res, strings):
        key = "c06:walk:%s" % s.hex()
        c.count(1, key)
        if san or not evs:
            c.violation(key + ":crash", "the TLV reader crashed / sanitizer report: %s" % san, {"data": s.hex()})
            continue
        cases.append({"data": list(s), "rc": evs[0]["rc"], "nodes": (evs[0].get("val") or [0])[0]}); cmeta.append(key)
    bad, states = vlib.judge("WireJudge", cases, tag="c06w", timeout=1800, shards=16)
    c.cov["states"] += states
    c.cov["traces_validated_against_impl"] += len(cases)
    for i, info in bad:
        c.violation(cmeta[i], "the library's TLV walk disagrees with the checked reader: rc=%s nodes=%s" % (cases[i]["rc"], cases[i]["nodes"]), {"case": cases[i]})
    # ---- (2) structured mutants of library-made objects through every consumer
    progs1, st = edit_programs("Mutate")
    c.cov["states"] += st
    progs2 = []
    if not q:
        allp = [p for p in progs1]
        progs2 = [rng.choice(allp) + rng.choice(allp) for _ in range(3000)]
    exe = vlib.cc_driver("fuzzdrv", ["fuzzdrv.c", "vh.c"])
    targets = TARGETS
    slines = []
    for t in targets:
        slines.append({"id": len(slines) + 1, "target": t, "sample": 1, "variant": 0})
    r0 = CL.run_script("fuzzdrv", ["fuzzdrv.c", "vh.c"], slines, tag="c06s", procs=4)
    seeds = []
    more = []
    for (line, evs, san) in r0:
        if san or not evs or "sample" not in evs[0]:
            raise RuntimeError("fuzzdrv could not produce a sample for %s: %s" % (line["target"], san))
        seeds.append((line["target"], 0, bytes.fromhex(evs[0]["sample"])))
        for v in range(1, int(evs[0].get("nvariants", 1))):
            more.append({"id": len(more) + 1, "target": line["target"], "sample": 1, "variant": v})
    for (line, evs, san) in CL.run_script("fuzzdrv", ["fuzzdrv.c", "vh.c"], more, tag="c06s2", procs=4) if more else []:
        if san or not evs or "sample" not in evs[0]:
            raise RuntimeError("fuzzdrv could not produce sample %s/%s: %s" % (line["target"], line["variant"], san))
        seeds.append((line["target"], line["variant"], bytes.fromhex(evs[0]["sample"])))
    c.cov["seed_objects"] = len(seeds)
    mlines, mmeta = [], []

    def addm(target, variant, data, what):
        if data is None or len(data) > 70000:
            return
        mlines.append({"id": len(mlines) + 1, "target": target, "data": CL.hx(data) if data else "-", "alarm": 30})
        mmeta.append("c06:%s:v%d:%s" % (target, variant, what))
    for target, variant, seed in seeds:
        addm(target, variant, seed, "valid")
        tree = target in TREE_TARGETS or (target not in TEXT_TARGETS and seed[:1] == b"\x30")
        plist = progs1 if (not q or len(seeds) < 40) else progs1[(variant % 3)::3]
        if plist is not progs1:      # the quick tier thins the programs per seed variant, but never the repetition edits (bounded output arrays)
            plist = plist + [p for p in progs1 if p[0][1] == "rep" and p not in plist]
        for p in plist + progs2[: (0 if q else 400)]:
            name = "+".join("%d.%s.%s.%s" % (s, k, a, "f" if f else "n") for s, k, a, f in p)
            if tree:
                addm(target, variant, mutlib.apply_tree(seed, p), name)
            if target == "tls_record":
                addm(target, variant, mutlib.apply_tls(seed, p), "v:" + name)
            if not tree or p[0][1] in ("trunc", "fill", "grow", "len=", "tag="):
                addm(target, variant, mutlib.apply_bytes(seed, p, text=target in TEXT_TARGETS), "b:" + name)
        # every member of every constructed node repeated to just below / at / above small array bounds (4, 8, 16, 32): positions the slot abstraction does not reach
        if tree and len(seed) < 6000:
            for nm, mut in mutlib.per_node_repeats(seed, counts=((3, 4, 8, 16, 32) if q else (1, 2, 3, 4, 5, 7, 8, 9, 15, 16, 17, 31, 32, 33, 64))):
                addm(target, variant, mut, nm)
        # every prefix of small objects, every single byte set to 0 / 0xff for the first 160 bytes
        step = 1 if len(seed) < 400 else 7
        for n in range(0, len(seed), step):
            addm(target, variant, seed[:n], "prefix%d" % n)
        for off in range(0, min(len(seed), 160 if q else 600)):
            for v in (0x00, 0xff) if q else (0x00, 0x7f, 0x80, 0xff):
                if seed[off] != v:
                    addm(target, variant, seed[:off] + bytes([v]) + seed[off + 1:], "set%d=%02x" % (off, v))
    # CBC inner plaintexts of every length class with every boundary value of the padding-length byte: L bytes = free bytes || (p + 1) bytes of value p,
    # for p around L - 33 (the largest honest value), L - 32, L - 31, L - 1 and 255 -- the arithmetic content = L - 32 - p - 1 must never go negative unnoticed
    for L in ([48, 64, 80, 272] if q else list(range(48, 320, 16))):
        for p in sorted({L - 35, L - 34, L - 33, L - 32, L - 31, L - 30, L - 17, L - 2, L - 1, 0, 1, 15, 16, 255} & set(range(0, 256))):
            if p + 1 <= L:
                free = bytes(rng.getrandbits(8) for _ in range(L - p - 1))
                addm("tls_cbc_inner", 0, free + bytes([p]) * (p + 1), "padsweep:L%d:p%d" % (L, p))
            addm("tls_cbc_inner", 0, bytes(rng.getrandbits(8) for _ in range(L - 1)) + bytes([p]), "padbyte:L%d:p%d" % (L, p))
    log("[C06] %d seed objects, %d mutants" % (len(seeds), len(mlines)))
    resm = CL.run_script("fuzzdrv", ["fuzzdrv.c", "vh.c"], mlines, tag="c06m", procs=16, timeout=1800)
    accepted = 0
    slow = 0

    def huge_pbkdf2_count(hexdata):
        """a password-based container whose PBKDF2 iteration count was driven up: the call is slow in proportion, not stuck"""
        try:
            b = bytes.fromhex(hexdata) if hexdata != "-" else b""
            if b[:5] == b"-----":
                import base64
                b = base64.b64decode(b"".join(l for l in b.split(b"\n") if l and not l.startswith(b"-----")), validate=False)
            i = b.find(bytes.fromhex("2a864886f70d01050c"))
            if i < 0:
                return False
            flat = mutlib.preorder(mutlib.parse(b))
            return any(n.tag == 2 and n.kids is None and len(n.val) >= 3 and not (n.val[0] & 0x80) and int.from_bytes(n.val, "big") > 200000 for n, _, _ in flat)
        except Exception:
            return False
    for (line, evs, san), key in zip(resm, mmeta):
        c.count(1, key)
        if (san or not evs) and "rc=-14" in str(san) and huge_pbkdf2_count(line["data"]):
            slow += 1
            continue
        if san or not evs:
            c.violation(key, "consumer %s crashed, hung or tripped a sanitizer on a malformed object: %s" % (line["target"], str(san)[:500]), {"target": line["target"], "data": line["data"][:20000], "report": str(san)[:3000]})
        elif evs[0].get("rc") == 1:
            accepted += 1
    # the same mutants under MemorySanitizer ("without using uninitialised memory"): quick takes every fifth (by position, so every target and every kind of edit is
    # in it), thorough all.  (What this found on the unchanged tree: sm2_z256_point_from_hex ignoring a failed hex decode, an untested URI pointer in the
    # CRLDistributionPoints reader -- fixes 0a53bca, 15b1dd3.)
    sel = list(range(0, len(mlines), 5)) if q else list(range(len(mlines)))
    resx = CL.run_script("fuzzdrv", ["fuzzdrv.c", "vh.c"], [mlines[i] for i in sel], variant="msan", tag="c06x", procs=16, timeout=1800)
    for (line, evs, san), i in zip(resx, sel):
        key = mmeta[i] + ":msan"
        c.count(1, key)
        if (san or not evs) and "rc=-14" in str(san) and huge_pbkdf2_count(line["data"]):
            continue
        if san or not evs:
            c.violation(key, "consumer %s used uninitialised memory (MemorySanitizer), crashed or hung on a malformed object: %s" % (line["target"], str(san)[:500]), {"target": line["target"], "data": line["data"][:20000], "report": str(san)[:3000]})
    c.cov["mutants_under_msan"] = len(sel)
    c.cov["mutants"] = len(mlines)
    c.cov["mutants_accepted_by_decoder"] = accepted
    c.cov["mutants_slow_by_pbkdf2_iteration_count"] = slow
    # ---- (3) both peers of live handshakes, every record position, record-level edit programs
    sprogs, st = edit_programs("Mutate_stream")
    c.cov["states"] += st
    scns = []
    for proto in (257, 771, 772):
        sp = "tlcp" if proto == 257 else "srv"
        for mutual in (0, 1):
            base = {"proto": proto, "scred": sp + "_d2", "ctrust": "trust_root", "cs": "w100,r100:64,x", "ss": "r100:64,w100,r1:8"}
            if mutual:
                base.update({"ccred": "cli_d2", "strust": "trust_root"})
            for dirn in ("c2s", "s2c"):
                for idx in range(1, 9):
                    for p in sprogs:
                        (slot, kind, arg, fix), = p
                        off = [0, 1, 2, 3, 4, 5, 6, 7, 8, 9, 38, 39, 43, 44, 70, 120][slot]
                        if kind in ("drop", "dup", "swap", "trunc", "inject") and slot != 0 and not (kind == "inject" and slot < 5):
                            continue
                        s = dict(base, fault=kind, dir=dirn, idx=idx, off=(arg if kind == "inject" else off), bit=(arg if kind in ("setb", "pad", "flip", "hdrflip") else 0))
                        scns.append(s)
    if q:
        rng.shuffle(scns)
        scns = scns[:1500]
    for i, s in enumerate(scns):
        s["id"] = i + 1
    rs = tlslib.run_scenarios(scns, tag="c06t", procs=16, timeout=1500)
    done = 0
    for r in rs:
        s = r["scn"]
        key = "c06:tls:p%s:m%d:%s:idx%s:%s:off%s:v%s" % (s["proto"], 1 if "strust" in s else 0, s["dir"], s["idx"], s["fault"], s["off"], s["bit"])
        c.count(1, key)
        done += 1
        if r["san"] or not r["complete"]:
            c.violation(key, "a TLS endpoint crashed, hung or tripped a sanitizer on a modified peer stream: %s" % str(r["san"])[:500], {"scenario": s, "report": str(r["san"])[:3000], "stderr": r["stderr"][-1500:]})
    c.cov["tls_scenarios"] = done
    if done < len(scns):
        c.note("%d of %d TLS scenarios ran (a crashed process ends its chunk; the crash itself is reported)" % (done, len(scns)))
    # ---- (4) a peer that HOLDS THE KEYS: the independent client / server of tools/roguepeer.py builds each handshake message honestly, applies an
    # edit program to it (also to the messages that travel under the record protection) and carries on; the library endpoint must return
    import roguepeer, concurrent.futures as cf
    rexe = vlib.cc_driver("srvdrv", ["srvdrv.c", "vh.c"])
    rcreds = tlslib.ensure_creds()
    kinds_used = ("len+", "len-", "len=", "trunc", "drop", "dup", "rep", "empty", "grow", "fill", "swap")
    eprogs = [p for p in progs1 if p[0][1] in kinds_used and p[0][0] in (0, 2, 4, 6, 8, 10, 11)]
    rjobs = []
    for proto, sp in ((257, "tlcp"), (771, "srv"), (772, "srv")):
        for role, types in (("client", (1, 11, 16, 15, 20) if proto != 772 else (1, 11, 15, 20)), ("server", (2, 11, 12, 14, 20) if proto != 772 else (2, 8, 11, 15, 20))):
            for t in types:
                for p in eprogs:
                    rjobs.append((proto, sp + "_d2", role, t, p))
    if q:
        # quick: a sample of everything, plus -- deterministically -- every edit that empties a field or sets a length to 0 / 1 in the short messages
        # (key exchange, CertificateVerify, CertificateRequest, Finished, ServerHelloDone), with consistent and with stale outer lengths
        must = [j for j in rjobs if j[3] in (16, 15, 12, 13, 14, 20) and j[4][0][1] in ("empty", "len=") and (j[4][0][1] == "empty" or j[4][0][2] in (0, 1))]
        rng.shuffle(rjobs)
        rjobs = rjobs[:160] + [j for j in must if j not in rjobs[:160]]
    rdone = 0
    with cf.ProcessPoolExecutor(14) as ex:
        futs = {}
        for j in rjobs:
            proto, cred, role, t, p = j
            if role == "client":
                futs[ex.submit(roguepeer.run, rcreds, rexe, proto, cred, "trust_root", "honest", "cli_d2", 30, (t, p))] = j
            else:
                futs[ex.submit(roguepeer.run_server, rcreds, rexe, proto, cred, "trust_root", "honest", 30, (t, p))] = j
        for f in cf.as_completed(futs):
            proto, cred, role, t, p = futs[f]
            key = "c06:peer:p%d:rogue-%s:hs%d:%s" % (proto, role, t, "+".join("%d.%s.%s.%s" % (s_, k_, a_, "f" if f_ else "n") for s_, k_, a_, f_ in p))
            c.count(1, key)
            rdone += 1
            try:
                view, evs, san = f.result()
            except Exception as exn:
                c.violation(key, "the independent peer itself failed: %r" % exn, {})
                continue
            ended = any(e.get("e") == "End" for e in evs)
            if san or not ended:
                c.violation(key, "a library endpoint crashed, hung or tripped a sanitizer on an edited handshake message from a key-holding peer: %s" % str(san)[:500], {"peer_view": view, "events": evs, "report": str(san)[:3000]})
    c.cov["keyholding_peer_handshakes"] = rdone
    # ---- (5) "without using uninitialised memory" on the handshake paths: the same independent peer against a MemorySanitizer build of the library
    # endpoint -- every protocol x both roles x both authentication modes honestly, then a sample of the edited handshakes.  (ASan cannot see a
    # length that was never assigned -- tls12_do_accept's server_exts_len, fixed in 4f9e001, was found by reading and is pinned here.)
    mexe = vlib.cc_driver("srvdrv", ["srvdrv.c", "vh.c"], "msan")
    mjobs = []
    for proto, sp in ((257, "tlcp"), (771, "srv"), (772, "srv")):
        for mutual in ("trust_root", "-"):
            mjobs.append((proto, sp + "_d2", "client", mutual, None))
        mjobs.append((proto, sp + "_d2", "server", "trust_root", None))
    extra = [j for j in rjobs]
    rng.shuffle(extra)
    for proto, cred, role, t, p in extra[:(40 if q else 400)]:
        mjobs.append((proto, cred, role, "trust_root", (t, p)))
    # after the handshake the key-holding peer sends correctly protected records that are not application data (a handshake message, a ChangeCipherSpec, an unknown
    # type, alerts of one, two and three octets, a TLSInnerPlaintext that is all padding), then "ping"; the application asks again after the refusal (VH_RECV_AGAIN):
    # a refused record is never handed out later, and asking again neither crashes nor reads what was never written.  Both sanitizer builds.
    POSTHS = ("post_hs_zero", "post_hs_zero16", "post_hs_handshake", "post_hs_ccs", "post_hs_unknown", "post_hs_alert1", "post_hs_alert3", "post_hs_alert_warn", "post_hs_empty_data", "post_hs_badmac", "post_hs_data_then_badmac")
    for proto, sp in ((257, "tlcp"), (771, "srv"), (772, "srv")):
        for dev in POSTHS:
            for ex_ in (mexe, rexe):
                mjobs.append((proto, sp + "_d2", "client", "-", (dev, ex_)))
                mjobs.append((proto, sp + "_d2", "server", "trust_root", (dev, ex_)))
    # hello messages of TLS 1.3 with a missing or emptied extension (key_share, supported_versions, signature_algorithms ...): what the receiver does not find
    # it must not use (fix afd976b: the client ran the ECDH on a key share that was never written); deterministic in both tiers, MemorySanitizer build
    for role, t in (("client", 1), ("server", 2)):
        for p in eprogs:
            if p[0][1] in ("drop", "empty"):
                mjobs.append((772, "srv_d2", role, "trust_root", (t, p)))
    for dev in ("no_key_share", "key_share_empty"):
        mjobs.append((772, "srv_d2", "server", "trust_root", (dev, mexe, "refuse")))
    mdone = 0
    recv_traces = []
    os.environ["VH_RECV_AGAIN"] = "1"
    with cf.ProcessPoolExecutor(14) as ex:
        futs = {}
        for j in mjobs:
            proto, cred, role, mutual, mp = j
            dev, exe_, mp_ = ("honest", mexe, mp) if (mp is None or not isinstance(mp[0], str)) else (mp[0], mp[1], None)
            j = (proto, cred, role, mutual, mp if (mp is None or not isinstance(mp[0], str)) else (mp[0], mp[1]) + tuple(mp[2:]))
            if role == "client":
                futs[ex.submit(roguepeer.run, rcreds, exe_, proto, cred, mutual, dev, "cli_d2", 60, mp_)] = j
            else:
                futs[ex.submit(roguepeer.run_server, rcreds, exe_, proto, cred, mutual, dev, 60, mp_)] = j
        os.environ.pop("VH_RECV_AGAIN", None)
        for f in cf.as_completed(futs):
            proto, cred, role, mutual, mp = futs[f]
            posths = mp is not None and isinstance(mp[0], str)
            key = "c06:%s:p%d:rogue-%s:%s:%s" % ("msan" if not posths or mp[1] == mexe else "asan", proto, role, "mutual" if mutual != "-" else "oneway",
                                                "honest" if mp is None else mp[0] if posths else "hs%d:%s" % (mp[0], "+".join("%d.%s.%s.%s" % (s_, k_, a_, "f" if f_ else "n") for s_, k_, a_, f_ in mp[1])))
            c.count(1, key)
            mdone += 1
            try:
                view, evs, san = f.result()
            except Exception as exn:
                c.violation(key, "the independent peer itself failed: %r" % exn, {})
                continue
            ended = any(e.get("e") == "End" for e in evs)
            if san or not ended:
                c.violation(key, "a library endpoint used uninitialised memory (MemorySanitizer), crashed or hung in a handshake with the independent peer: %s" % str(san)[:500], {"peer_view": view, "events": evs, "report": str(san)[:3000]})
            elif posths and len(mp) > 2:
                if any(e.get("e") == "HsRet" and e.get("rc") == 1 for e in evs):
                    c.violation(key, "the handshake completed although the hello lacked what the key exchange needs", {"peer_view": view, "events": evs})
            elif (mp is None or posths) and not any(e.get("e") == "HsRet" and e.get("rc") == 1 for e in evs):
                c.violation(key, "the honest handshake with the independent peer did not complete under the sanitizer build", {"peer_view": view, "events": evs})
            elif posths:
                # what the application may be given after the handshake: only what the peer wrote as application data, in order, at most once (RecvTrace.tla)
                tr = []
                for rt_, pl_ in roguepeer.post_list(mp[0]) + [(23, b"ping")]:
                    tr.append({"e": "PeerData", "data": list(pl_)} if (rt_ == 23 and not pl_.startswith(roguepeer.BAD_MARK)) else {"e": "PeerOther", "what": mp[0]})
                tr += [{"e": "Recv", "rc": e.get("rc"), "data": list(bytes.fromhex(e.get("got", ""))) if e.get("rc") == 1 else []} for e in evs if e.get("e") in ("Data", "Again")]
                recv_traces.append((key, tr, view, evs))
    rej, st_ = vlib.validate("RecvTrace", [t[1] for t in recv_traces], tag="c06r", timeout=600)
    c.cov["trace_states"] = c.cov.get("trace_states", 0) + st_
    c.cov["receive_sessions_validated"] = len(recv_traces)
    for i, j_, ev in rej:
        key, tr, view, evs = recv_traces[i]
        c.violation(key, "the application was handed bytes the peer never wrote as application data (a refused record came back on a later receive, or data was delivered twice): %s" % bytes(ev.get("data", []))[:40].hex(),
                    {"peer_view": view, "events": evs, "trace": tr})
    c.cov["msan_handshakes"] = mdone
    c.sample({"seeds": ["%s/v%d (%d bytes)" % (t, v, len(s)) for t, v, s in seeds][:40]})
    return c.finish(
        rule="reader core: all strings over %s up to length %d + random longer ones; mutants: every single edit program of Mutate.tla on every seed object (tree and byte interpretation), all prefixes, "
             "byte overwrites of the first %d bytes (thorough: + 3000 random edit pairs); TLS: 3 protocols x auth modes x both directions x record 1..8 x record-level edit programs (quick: 1500 sampled); "
             "distinct = distinct mutant keys" % (ALPHABET, maxlen, 160 if q else 600),
        trusted=["AddressSanitizer / UBSan (bounds, pointer-overflow, null, object-size) as the observer of memory errors", "TLC (Wire.tla, WireJudge.tla, Mutate.tla)", "tools/mutlib.py (independent DER reader/writer)"],
        assumptions=["memory safety is observed, not proved: coverage is the enumerated grammar, not all byte strings up to 64 KiB", "MemorySanitizer (uninitialised reads) observes the handshake paths only (honest + sampled edited handshakes with the independent peer); the decoder sweeps run under ASan/UBSan"])


if __name__ == "__main__":
    main(body)
