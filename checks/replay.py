import sys, json
p = json.load(open(sys.argv[2]))
print(json.dumps(p, indent=1)[:20000])
print("To re-run the failing case: VERIF_SEED=%s ./check %s %s" % (p.get("seed"), sys.argv[1], p.get("tier")))
