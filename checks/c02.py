#!/usr/bin/env python3
"""C02 - SM2 encryption and ECDH are correct and reject malformed ciphertexts.
TLC: Sm2Sig.tla (context machines / nonce pool) and Sm2Judge.tla, which decides
 - for produced ciphertexts: strict canonical DER, C1 a finite curve point (BigNat residue witness), C2 = M xor KDF(x2||y2) and
   C3 = SM3(x2||M||y2) computed by TLC from Crypto.tla over the SM3 table, (x2,y2) = [d]C1 from the reference;
 - for offered ciphertexts: the decryption verdict and plaintext (strict DER, |C2| in 1..255, C1 on the curve, KDF not all zero, C3);
 - ECDH: accepted only for a valid finite peer point, result equal to the reference's [d]Q, symmetric for key pairs.
Binding: every encryption interface (DER, fixed point size x3, raw struct, context) for plaintext lengths 1..255; decryption of
reference-made and library-made ciphertexts through every decryption interface; the malformed-ciphertext space and bit flips."""
from common import *
import cryptolib as CL
import constructions as K
import json
from derw import *
import witness as W


def pt_w(x, y):
    k, side, r = W.diffmod(y * y, x * x * x + a * x + b, p)
    return {"wk": k, "wside": side, "wr": r}


def ct_der(C1, C3, C2): return seq(dint(C1[0]), dint(C1[1]), doctets(C3), doctets(C2))


def lenient_ct(ct):
    try:
        t, v, nx = read_tlv(ct, 0)
        ch = children(v)
        if len(ch) >= 4:
            return (int.from_bytes(ch[0][1], "big"), int.from_bytes(ch[1][1], "big")), ch[2][1], ch[3][1]
    except Exception:
        pass
    return None


def kdf_table(d, C1, c2len, msg_for_c3):
    """SM3 rows needed to evaluate KDF(x2||y2, n) and C3 for the shared point [d]C1 (when C1 is a curve point)"""
    t = K.Tab()
    if C1 is None or not on_curve(C1):
        return t, b"", b""
    S = mul(d, C1)
    if S is None:
        return t, b"", b""
    x2, y2 = i2b(S[0]), i2b(S[1])
    if 1 <= c2len <= 300:
        kk = K.counter_kdf(t, "sm3", x2 + y2, c2len)
        m = bytes(u ^ v for u, v in zip(msg_for_c3, kk)) if msg_for_c3 is not None else b""
        K.hashn(t, "sm3", x2 + m + y2)
    return t, x2, y2


def decrypt_case(d, ct, what, iface):
    dec = lenient_ct(ct)
    C1 = dec[0] if dec else None
    c2 = dec[2] if dec else b""
    t, x2, y2 = kdf_table(d, C1 if (C1 and C1[0] < p and C1[1] < p) else None, len(c2), c2)
    w = pt_w(C1[0], C1[1]) if C1 else {"wk": [], "wside": 0, "wr": [1]}
    return {"kind": "decrypt", "what": what, "ct": list(ct), "x2": list(x2), "y2": list(y2), "T": t.json(), **w}


def gen(c):
    rng = c.rng
    rb = lambda k: bytes(rng.getrandbits(8) for _ in range(k))
    lines, cases = [], []

    def add(line, case):
        line["id"] = len(lines) + 1
        lines.append({k: (CL.hx(v) if isinstance(v, (bytes, bytearray)) else v) for k, v in line.items()})
        cases.append(case)
    d = rng.randrange(1, n - 1)
    P = mul(d, G)
    pub = i2b(P[0]) + i2b(P[1])
    # ---- encryption through every interface, plaintext lengths 1..255 ----
    lens = range(1, 256) if not c.quick else sorted(set([1, 2, 15, 16, 17, 31, 32, 33, 63, 64, 65, 127, 128, 200, 254, 255] + [rng.randrange(1, 256) for _ in range(10)]))
    for ln in lens:
        for iface, extra in (("der", {}), ("do", {}), ("ctx", dict({"chunks": "%d" % rng.randrange(0, ln + 1)}, **({"prejunk": rb(1 + ln % 40)} if ln % 2 else {}))), ("fixlen", {"psize": 68}), ("fixlen", {"psize": 69}), ("fixlen", {"psize": 70})):
            if c.quick and iface == "fixlen" and ln % 3 != extra["psize"] % 3:
                continue
            add(dict({"op": "encrypt", "iface": iface, "pub": pub, "msg": rb(ln), "seed": 500 + len(lines)}, **extra),
                {"kind": "encrun", "what": "encrypt:%s%s:len%d" % (iface, extra.get("psize", ""), ln), "iface": iface, "d": d, "psize": extra.get("psize", 0)})
    # the pre-computed nonce table (sm2_encrypt_pre_compute + sm2_do_encrypt_ex): every slot
    for slot in range(8):
        for ln in ([1, 33] if c.quick else [1, 16, 33, 200, 255]):
            add({"op": "encrypt", "iface": "pre", "slot": slot, "pub": pub, "msg": rb(ln), "seed": 900 + len(lines)},
                {"kind": "encrun", "what": "encrypt:pre%d:len%d" % (slot, ln), "iface": "pre", "d": d, "psize": 0, "slot": slot})
    # nonces whose key stream is all zero for a 1-byte (2-byte: thorough) plaintext must not be used (GB/T 32918.4 step A5): the first nonce drawn is forced to such
    # a value for every interface; and a nonce whose key stream EQUALS the plaintext (C2 all zero) is a perfectly good one
    def find_k(want, ln):
        k = 1000 + rng.randrange(1 << 20)
        while True:
            S = mul(k, P); t = kdf(i2b(S[0]) + i2b(S[1]), ln)
            if want(t):
                return k, t
            k += 1
    for ln in (1,):          # (a 2-byte plaintext would need about 2^16 reference scalar multiplications to find such a nonce)
        k0, _ = find_k(lambda t: not any(t), ln)
        for iface, extra in (("der", {}), ("do", {}), ("ctx", {"chunks": "0"}), ("fixlen", {"psize": 69}), ("pre", {"slot": 0})):
            add(dict({"op": "encrypt", "iface": iface, "pub": pub, "msg": rb(ln), "seed": 950 + len(lines), "first": k0.to_bytes(32, "little")}, **extra),
                {"kind": "encrun", "what": "encrypt:%s:len%d:zero-keystream-nonce-first" % (iface, ln), "iface": iface, "d": d, "psize": extra.get("psize", 0), "slot": 0, "forced": k0})
            k1, t1 = find_k(lambda t: any(t), ln)          # a fresh one per interface (the check below also looks for repeated C1)
            add(dict({"op": "encrypt", "iface": iface, "pub": pub, "msg": t1, "seed": 960 + len(lines), "first": k1.to_bytes(32, "little")}, **extra),
                {"kind": "encrun", "what": "encrypt:%s:len%d:keystream-equals-plaintext" % (iface, ln), "iface": iface, "d": d, "psize": extra.get("psize", 0), "slot": 0})
    # ---- interoperability: ciphertexts made by the reference decrypt in the library (all interfaces) ----
    for ln in ([1, 16, 33, 255] if c.quick else [1, 2, 16, 31, 32, 33, 100, 254, 255]):
        m = rb(ln)
        r = None
        while r is None:
            r = encrypt(P, m, rng.randrange(1, n))
        ct = ct_der(*[r[0], r[2], r[1]])
        for iface in ("der", "do", "ctx"):
            add({"op": "decrypt", "iface": iface, "d": i2b(d), "ct": ct, "chunks": "%d" % rng.randrange(0, len(ct) + 1)}, decrypt_case(d, ct, "interop:%s:len%d" % (iface, ln), iface))
    # ---- the malformed-ciphertext space ----
    m = rb(20)
    # the ciphertext behind the encoding-form cases has a C3 that ends (and another that begins) in 00: a decoder that pads or strips a short HASH
    # field then still "matches" -- exactly the encodings that must be refused
    for _ in range(4000):
        C1, C2, C3 = encrypt(P, m, rng.randrange(1, n))
        if C3[-1] == 0:
            break
    good = ct_der(C1, C3, C2)
    X, Y, H, Cc = dint(C1[0]), dint(C1[1]), doctets(C3), doctets(C2)
    inner = X + Y + H + Cc
    forms = {"canonical": good, "leading00_x": seq(tlv(2, b"\0" + X[2:]), Y, H, Cc), "longform_len": b"\x30\x81" + bytes([len(inner)]) + inner,
             "indefinite": b"\x30\x80" + inner + b"\0\0", "trailing_after": good + b"\0", "trailing_in_seq": seq(X, Y, H, Cc, b"\0"), "truncated": good[:-1],
             "wrong_outer_tag": b"\x31" + dlen(len(inner)) + inner, "x_as_octets": seq(doctets(X[2:]), Y, H, Cc), "hash31": seq(X, Y, doctets(C3[:31]), Cc),
             "hash33": seq(X, Y, doctets(C3 + b"\0"), Cc), "c2_empty": seq(X, Y, H, doctets(b"")), "missing_c2": seq(X, Y, H), "swapped_hash_c2": seq(X, Y, Cc, H),
             "c2_longform": seq(X, Y, H, b"\x04\x81" + bytes([len(C2)]) + C2), "empty": b""}
    if X[2] == 0:
        forms["negative_x"] = seq(tlv(2, X[3:]), Y, H, Cc)
    for fname, fb in forms.items():
        for iface in ("der", "ctx") + (("do",) if fname == "canonical" else ()):
            add({"op": "decrypt", "iface": iface, "d": i2b(d), "ct": fb, "chunks": "%d" % rng.randrange(0, len(fb) + 1)}, decrypt_case(d, fb, "form:%s:%s" % (iface, fname), iface))
    # C1 classes
    Q = mul(rng.randrange(1, n), G)
    small = next(lift_x(x, 0) for x in range(1, 50) if lift_x(x, 0))
    classes = {"other_valid_point": Q, "neg_y": (C1[0], p - C1[1]), "wrong_y": (C1[0], (C1[1] + 1) % p), "zero_zero": (0, 0), "x_is_p": (p, C1[1]), "y_is_p": (C1[0], p),
               "x_plus_p": (small[0] + p, small[1]), "x_max": (2 ** 256 - 1, C1[1]),
               # coordinates equal to p are congruent to 0: (p, sqrt(b)) is the curve point (0, sqrt(b)) written with an out-of-range x
               "x_is_p_congruent": (p, sqrt_p(b)), "x_is_p_congruent_neg": (p, p - sqrt_p(b)), "x_zero_valid": (0, sqrt_p(b))}
    for cname, pt in classes.items():
        fb = ct_der(pt, C3, C2)
        add({"op": "decrypt", "iface": "der", "d": i2b(d), "ct": fb}, decrypt_case(d, fb, "c1:%s" % cname, "der"))
    # the all-zero C1 again, this time with C2 / C3 made consistent with the degenerate shared point a decoder would compute for it (infinity, read back as
    # x2 = y2 = 0): the forger needs no key for this, so only the check on C1 itself can refuse it
    for ln in (1, 14, 33):
        mm = rb(ln); z = bytes(32)
        forged = ct_der((0, 0), sm3(z + mm + z), bytes(u ^ v for u, v in zip(mm, kdf(z + z, ln))))
        for iface in ("der", "do", "ctx"):
            add({"op": "decrypt", "iface": iface, "d": i2b(d), "ct": forged, "chunks": "%d" % (len(forged) // 2)}, decrypt_case(d, forged, "c1:zero_zero_consistent:%s:len%d" % (iface, ln), iface))
    # C3 / C2 modifications, C2 lengths 255 and 256
    add({"op": "decrypt", "iface": "der", "d": i2b(d), "ct": ct_der(C1, bytes([C3[0] ^ 1]) + C3[1:], C2)}, decrypt_case(d, ct_der(C1, bytes([C3[0] ^ 1]) + C3[1:], C2), "c3:flipped", "der"))
    for nm, c3x in CL.cancelling(C3):          # differences that cancel in a sloppy comparison of C3
        fb = ct_der(C1, c3x, C2)
        for iface in ("der", "do", "ctx"):
            add({"op": "decrypt", "iface": iface, "d": i2b(d), "ct": fb, "chunks": "%d" % (len(fb) // 3)}, decrypt_case(d, fb, "c3:%s:%s" % (nm, iface), iface))
    for ln in (255, 256):
        mm = rb(ln)
        k = rng.randrange(1, n)
        S = mul(k, P)
        t = kdf(i2b(S[0]) + i2b(S[1]), ln)
        big = ct_der(mul(k, G), sm3(i2b(S[0]) + mm + i2b(S[1])), bytes(u ^ v for u, v in zip(mm, t)))
        add({"op": "decrypt", "iface": "der", "d": i2b(d), "ct": big}, decrypt_case(d, big, "c2:len%d" % ln, "der"))
    # bit flips of a valid ciphertext: the verdict for the flipped bytes is computed by the specification
    bits = range(len(good) * 8) if not c.quick else sorted(set(list(range(0, 48)) + [rng.randrange(len(good) * 8) for _ in range(80)]))
    for bit in bits:
        x = bytearray(good); x[bit // 8] ^= 1 << (bit % 8)
        add({"op": "decrypt", "iface": "der" if bit % 2 else "ctx", "d": i2b(d), "ct": bytes(x), "chunks": "7"}, decrypt_case(d, bytes(x), "flip:bit%d" % bit, "der"))
    # ---- ECDH ----
    keys = [(rng.randrange(1, n - 1)) for _ in range(3)] + [1, n - 2]
    for i, da in enumerate(keys):
        for j, db in enumerate(keys):
            if i < j or (i == j and i == 0):
                PB = mul(db, G)
                S = mul(da, PB)
                add({"op": "ecdh", "d": i2b(da), "peer": b"\x04" + i2b(PB[0]) + i2b(PB[1])}, {"kind": "ecdh", "what": "ecdh:%d:%d" % (i, j), "peerok": True, "qx": list(i2b(PB[0])), "qy": list(i2b(PB[1])), "x2": list(i2b(S[0])), "y2": list(i2b(S[1])), **pt_w(*PB)})
                PA = mul(da, G)
                add({"op": "ecdh", "d": i2b(db), "peer": b"\x04" + i2b(PA[0]) + i2b(PA[1])}, {"kind": "ecdh", "what": "ecdh:%d:%d:sym" % (j, i), "peerok": True, "qx": list(i2b(PA[0])), "qy": list(i2b(PA[1])), "x2": list(i2b(S[0])), "y2": list(i2b(S[1])), **pt_w(*PA)})
    # ciphertexts whose C1 coordinates have DIFFERENT encoded lengths: a leading zero octet in x only, in y only, in both (DER INTEGERs drop it), a top bit
    # set in one and not the other (DER adds 00) -- made by the reference for nonces searched for that shape; they decrypt like any other
    want = {"x-short": lambda X, Y: X < 2 ** 248 <= Y, "y-short": lambda X, Y: Y < 2 ** 248 <= X, "x-short-y-top": lambda X, Y: X < 2 ** 248 and Y >= 2 ** 255,
            "y-short-x-top": lambda X, Y: Y < 2 ** 248 and X >= 2 ** 255, "x-top-y-not": lambda X, Y: X >= 2 ** 255 > Y >= 2 ** 248, "y-top-x-not": lambda X, Y: Y >= 2 ** 255 > X >= 2 ** 248}
    kk_ = 1000 + c.seed
    while want and kk_ < 1000 + c.seed + 4000:
        kk_ += 1
        C1s = mul(kk_, G)
        for nm in [n_ for n_, f_ in want.items() if f_(C1s[0], C1s[1])][:1]:
            del want[nm]
            S2 = mul(kk_, P); mm = rb(19)
            t_ = kdf(i2b(S2[0]) + i2b(S2[1]), len(mm))
            ctd = ct_der(C1s, sm3(i2b(S2[0]) + mm + i2b(S2[1])), bytes(u ^ v for u, v in zip(mm, t_)))
            for iface in ("der", "ctx"):
                add({"op": "decrypt", "iface": iface, "d": i2b(d), "ct": ctd, "chunks": "5"}, decrypt_case(d, ctd, "c1shape:%s:%s" % (nm, iface), "der"))
    # private keys of particular shapes (the last admissible values below n, whose windowed recoding ends in a borrow chain; small values; single bits; limb
    # boundaries): the shared point with one fixed peer, and the decryption of a ciphertext the reference made for that key
    dshapes = [n - 2 - i for i in range(14)] + [2, 3, 7, 8, 15, 16, 17, 31, 33, 2 ** 64 - 1, 2 ** 64, 2 ** 64 + 1, 2 ** 128 + 1, 2 ** 192, 2 ** 255, 2 ** 255 + 2 ** 64, (2 ** 256 // 3) % n, (2 ** 256 // 5) % n]
    if c.quick:
        dshapes = dshapes[:14] + dshapes[14::2]
    dbf = rng.randrange(1, n - 1); PBf = mul(dbf, G)
    for ds in dshapes:
        S = mul(ds, PBf)
        add({"op": "ecdh", "d": i2b(ds), "peer": b"\x04" + i2b(PBf[0]) + i2b(PBf[1])}, {"kind": "ecdh", "what": "ecdh:dshape:%s" % (("n-%d" % (n - ds)) if n - ds < 100 else hex(ds)[:14]), "peerok": True, "qx": list(i2b(PBf[0])), "qy": list(i2b(PBf[1])),
                                                                                          "x2": list(i2b(S[0])), "y2": list(i2b(S[1])), **pt_w(PBf[0], PBf[1])})
        kk_ = rng.randrange(1, n - 1); Pd = mul(ds, G); S2 = mul(kk_, Pd); mm = rb(23)
        t_ = kdf(i2b(S2[0]) + i2b(S2[1]), len(mm))
        ctd = ct_der(mul(kk_, G), sm3(i2b(S2[0]) + mm + i2b(S2[1])), bytes(u ^ v for u, v in zip(mm, t_)))
        add({"op": "decrypt", "iface": "der", "d": i2b(ds), "ct": ctd}, decrypt_case(ds, ctd, "dshape:%s" % (("n-%d" % (n - ds)) if n - ds < 100 else hex(ds)[:14]), "der"))
    # the peer's share in compressed form (02 / 03 || x): same point, same shared secret -- both parities, and the wrong parity byte gives the other point
    for i in range(6 if c.quick else 24):
        da, db = rng.randrange(1, n - 1), rng.randrange(1, n - 1)
        PB = mul(db, G); S = mul(da, PB)
        pre = 2 + (PB[1] & 1)
        add({"op": "ecdh", "d": i2b(da), "peer": bytes([pre]) + i2b(PB[0])}, {"kind": "ecdh", "what": "ecdh:compressed:%d:prefix%02x" % (i, pre), "peerok": True, "qx": list(i2b(PB[0])), "qy": list(i2b(PB[1])), "x2": list(i2b(S[0])), "y2": list(i2b(S[1])), **pt_w(*PB)})
        PBn = (PB[0], p - PB[1]); Sn = mul(da, PBn)
        add({"op": "ecdh", "d": i2b(da), "peer": bytes([pre ^ 1]) + i2b(PB[0])}, {"kind": "ecdh", "what": "ecdh:compressed:%d:prefix%02x" % (i, pre ^ 1), "peerok": True, "qx": list(i2b(PBn[0])), "qy": list(i2b(PBn[1])), "x2": list(i2b(Sn[0])), "y2": list(i2b(Sn[1])), **pt_w(*PBn)})
    xbad = next(x for x in range(2, 200) if lift_x(x, 0) is None)
    add({"op": "ecdh", "d": i2b(d), "peer": b"\x02" + i2b(xbad)}, {"kind": "ecdh", "what": "ecdh:compressed:x_not_on_curve", "peerok": False, "qx": list(i2b(xbad)), "qy": [0] * 32, "x2": [], "y2": [], **pt_w(xbad, 0)})
    for cname, pt in classes.items():
        if cname in ("other_valid_point", "neg_y"):
            continue
        Sv = mul(d, pt) if on_curve(pt) else None      # a valid finite peer point must be accepted and give [d]Q
        add({"op": "ecdh", "d": i2b(d), "peer": b"\x04" + i2b(pt[0] % 2 ** 256) + i2b(pt[1] % 2 ** 256)}, {"kind": "ecdh", "what": "ecdh:peer:%s" % cname, "peerok": True, "qx": list(i2b(pt[0] % 2 ** 256)), "qy": list(i2b(pt[1] % 2 ** 256)),
            "x2": list(i2b(Sv[0])) if Sv else [], "y2": list(i2b(Sv[1])) if Sv else [], **pt_w(pt[0], pt[1])})
    add({"op": "ecdh", "d": i2b(d), "peer": b"\x00"}, {"kind": "ecdh", "what": "ecdh:peer:infinity_octet", "peerok": False, "qx": [0] * 32, "qy": [0] * 32, "x2": [], "y2": [], **pt_w(0, 0)})
    add({"op": "ecdh", "d": i2b(d), "peer": b"\x05" + pub}, {"kind": "ecdh", "what": "ecdh:peer:bad_prefix", "peerok": False, "qx": list(pub[:32]), "qy": list(pub[32:]), "x2": [], "y2": [], **pt_w(P[0], P[1])})
    return lines, cases, d, P


def body():
    c = Check("C02", "model_checking")
    c.add_model(vlib.tlc_model("Sm2Sig"), "Sm2Sig context machine (shared by the signing and encryption contexts): nonce pool never reuses, input independent of chunking")
    lines, cases, d, P = gen(c)
    log("[C02] %d driver cases" % len(lines))
    res = CL.run_script("sm2drv", ["sm2drv.c", "vh.c"], lines, tag="c02", procs=8)
    jc, meta = [], []
    c1s = []
    extra_lines, extra_cases = [], []
    for (line, evs, san), case in zip(res, cases):
        key = "c02:" + case["what"]
        c.count(1, key)
        if san or not evs:
            c.violation(key + ":crash", "driver died / sanitizer report: %s" % san, {"line": {k: str(v)[:200] for k, v in line.items()}})
            continue
        ev = evs[0]
        if case["kind"] == "encrun":
            ct = bytes(ev.get("ct", []))
            dec = lenient_ct(ct) if ev["rc"] == 1 else None
            if not dec:
                c.violation(key, "encryption failed or produced no parsable ciphertext (rc=%s)" % ev["rc"], {"line": line, "event": ev})
                continue
            C1 = dec[0]
            msg = bytes.fromhex(line["msg"])
            # "the GB/T 32918.4 value for the nonce drawn": C1 = [k]G for the nonce taken from the entropy source (32-byte draws written straight into the
            # four 64-bit limbs, i.e. little-endian on this platform; rejected when 0 or >= n);
            # the table interface uses the slot-th nonce of its eight, every other interface the last one it drew
            d32 = [bytes(ev.get("draws32", [])[i:i + 32]) for i in range(0, len(ev.get("draws32", [])), 32)]
            ks = [k for k in (int.from_bytes(b, "little") for b in d32) if 0 < k < n]
            ksbe = [k for k in (int.from_bytes(b, "big") for b in d32) if 0 < k < n]          # the other byte order is as good (implementation's business)
            su = ev.get("slotused", -1) if ev.get("slotused", -1) >= 0 else case.get("slot", 0)
            k = (ks[su] if len(ks) > su else None) if case["iface"] == "pre" else (ks[-1] if ks else None)
            if case.get("forced") and k == case["forced"]:
                c.violation(key + ":zerostream", "the ciphertext was made with a nonce whose key stream is all zero (C2 = M in clear)", {"line": line, "event": ev})
                continue
            if (k is None or mul(k, G) != (C1[0], C1[1])) and not any(mul(kb, G) == (C1[0], C1[1]) for kb in ksbe[-9:]):
                c.violation(key + ":nonce", "C1 of the ciphertext is not [k]G for the nonce drawn from the entropy source (%d draws logged)" % len(ks), {"line": line, "event": ev})
                continue
            t, x2, y2 = kdf_table(d, C1 if C1[0] < p and C1[1] < p else None, len(msg), None)
            if x2:
                K.hashn(t, "sm3", x2 + msg + y2)
            jc.append({"kind": "encrypt", "iface": case["iface"], "rc": ev["rc"], "ct": list(ct), "msg": list(msg), "x2": list(x2), "y2": list(y2), "T": t.json(),
                       "ctlen": {68: 32 + 32 + 4 + 34 + 2 + len(msg) + (2 if len(msg) < 128 else 3) + (2 if 70 + len(msg) < 128 else 3), 0: 0}.get(0, 0), **pt_w(C1[0], C1[1])})
            meta.append((key, line, ev))
            c1s.append(C1)
            # the library's own ciphertext must decrypt through every decryption interface (judged like any other ciphertext)
            for iface in ("der", "ctx", "do")[: (1 if c.quick and len(msg) % 4 else 3)]:
                extra_lines.append(dict({"op": "decrypt", "iface": iface, "d": CL.hx(i2b(d)), "ct": CL.hx(ct), "chunks": "%d" % (len(ct) // 2), "id": 100000 + len(extra_lines)},
                                        **({"prejunk": CL.hx(ct[:7])} if iface == "ctx" and len(extra_lines) % 2 else {})))
                extra_cases.append(decrypt_case(d, ct, "roundtrip:%s:%s" % (iface, case["what"]), iface))
        else:
            j = {k: v for k, v in case.items() if k != "what"}
            j["rc"] = ev["rc"]
            j["pt"] = ev.get("pt", [])
            j["shared"] = ev.get("shared", [])
            jc.append(j)
            meta.append((key, line, ev))
    if len(set(c1s)) != len(c1s):
        c.violation("c02:c1_reuse", "two encryptions used the same ephemeral point C1", {})
    res2 = CL.run_script("sm2drv", ["sm2drv.c", "vh.c"], extra_lines, tag="c02b", procs=8)
    for (line, evs, san), case in zip(res2, extra_cases):
        key = "c02:" + case["what"]
        c.count(1, key)
        if san or not evs:
            c.violation(key + ":crash", "driver died / sanitizer report: %s" % san, {"line": {k: str(v)[:200] for k, v in line.items()}})
            continue
        j = {k: v for k, v in case.items() if k != "what"}
        j.update(rc=evs[0]["rc"], pt=evs[0].get("pt", []), shared=[])
        jc.append(j)
        meta.append((key, line, evs[0]))
    for j in jc:
        for f, dflt in (("T", []), ("ct", []), ("msg", []), ("x2", []), ("y2", []), ("pt", []), ("shared", []), ("iface", "-"), ("ctlen", 0), ("peerok", True), ("qx", []), ("qy", []), ("wk", []), ("wside", 0), ("wr", [])):
            j.setdefault(f, dflt)
        if j["kind"] == "encrypt" and j["iface"] == "fixlen":
            j["ctlen"] = len(j["ct"])     # the fixed-size variants are judged for content here; their exact size is part of C14's encoding checks
    bad, states = vlib.judge("Sm2Judge", jc, tag="c02", timeout=1500)
    c.cov["states"] += states
    c.cov["transitions"] += states
    c.cov["traces_validated_against_impl"] = len(jc)
    for i, info in bad:
        key, line, ev = meta[i]
        c.violation(key, "library result differs from the specification (kind %s): rc=%s" % (jc[i]["kind"], ev.get("rc")),
                    {"line": {k: (v if len(str(v)) < 300 else str(v)[:300]) for k, v in line.items()}, "event": ev})
    for key, line, ev in meta[:2]:
        c.sample({"key": key, "event": {k: (v if not isinstance(v, list) or len(v) < 40 else "<%d bytes>" % len(v)) for k, v in ev.items()}})
    # the command line tools as a user's session (tools/clilib.py, spec/Cli.tla): artefacts made by one tool, opened by another under right and wrong circumstances;
    # the exit status is what a script sees
    import clilib
    clilib.judge_sessions(c, clilib.sessions(c, "C02", ['sm2enc'], "c02", [0, 1, 16, 4095, 4096, 4097, 10000] + ([] if c.quick else [8192, 65537, 1000000])), "c02")
    return c.finish(
        rule="encryption: 6 interfaces x plaintext lengths (quick: 26 lengths, thorough: all 1..255), every produced ciphertext judged by TLC and decrypted back through the decryption interfaces; "
             "decryption: reference-made ciphertexts (interoperability), 17 encoding forms, 8 C1 classes, C3/C2 modifications, |C2| = 255/256, bit flips; ECDH: key pairs both ways, peer classes; "
             "distinct = distinct case names",
        trusted=["TLC", "SM3 compression table", "reference scalar multiplication for the shared point [d]C1 and ECDH result", "harness/sm2drv.c"],
        assumptions=["the shared point is taken from the reference implementation; TLC checks membership of C1, the KDF, C2, C3 and the DER"])


if __name__ == "__main__":
    main(body)
