#!/usr/bin/env python3
"""C20 - independent objects can be used concurrently with sequential results.
TLC: Threads.tla -- every interleaving of call entries and returns of NT threads x K operations on their own objects gives each
thread the results it gets alone (SequentialResults), everyone finishes under fairness; the same model with a library-internal
scratch cell (Threads_neg.cfg) must violate it, which shows what the check is looking for.  Binding: harness/thrdrv.c runs a mixed
workload (hashing, ciphers, SM2/SM9 sign-verify-encrypt, DER / X.509 / CMS, record protection, complete TLS 1.2/1.3 handshakes on
socketpairs) per thread with a per-thread entropy stream: once sequentially, then free-running with 2..16 threads (AddressSanitizer
and ThreadSanitizer builds), then under every call-level schedule TLC enumerates for 3x2 and 2x4 (thorough: a sample of 4x3).
ThreadsTrace.tla requires program order, the sequential digests, real successes and the schedule to be followed."""
from common import *
import cryptolib as CL
import tlslib, json, os

MINONES = {"sm3": 0, "sm9sign": 4, "sm2sign": 4, "cms": 3, "der": 5, "sm9enc": 3, "record": 2, "sm2enc": 3, "sm4gcm": 2, "handshake": 4, "sm4cbc": 2, "x509": 5, "st-nbrec": 2}


def schedules(cfg, every=1, limit=None):
    r = vlib.tlc("Threads", cfg, workers=4, coverage=False, timeout=900)
    if r["violated"] or r["errors"] or not r["finished"]:
        raise RuntimeError("schedule generation %s failed: %s" % (cfg, r["errors"][:2]))
    out = []
    for i, l in enumerate(r["prints"]):
        if l.startswith('<<"SCHED"') and i % every == 0:
            out.append(vlib.parse_tla_value(l)[1])
            if limit and len(out) >= limit:
                break
    return out, r["states"]


def run(variant, lines, creds, tag, procs):
    """each script line is one run; returns per line (events, sanitizer report)"""
    import concurrent.futures as cf
    exe = vlib.cc_driver("thrdrv", ["thrdrv.c", "vh.c"], variant)
    td = os.path.join(vlib.BUILD, "traces"); os.makedirs(td, exist_ok=True)
    idx = [list(range(k, len(lines), procs)) for k in range(procs)]

    def one(k):
        if not idx[k]:
            return {}
        sf = os.path.join(td, "%s_%d_%d.scr" % (tag, os.getpid(), k)); tf = sf[:-4] + ".raw"
        with open(sf, "w") as f:
            for i in idx[k]:
                f.write(" ".join("%s=%s" % kv for kv in lines[i].items()) + "\n")
        rc, out, err, san = vlib.run_driver(exe, [sf, tf, creds], timeout=1500, env={"TSAN_OPTIONS": "halt_on_error=0 report_signal_unsafe=0 second_deadlock_stack=1"})
        evs = vlib.read_ndjson(tf) if os.path.exists(tf) else []
        per, curr = {}, None
        for e in evs:
            if e["e"] == "Run":
                curr = e["run"]; per[curr] = [e]
            elif curr is not None:
                per[curr].append(e)
        for p in (sf, tf):
            if os.path.exists(p): os.unlink(p)
        return {i: (per.get(lines[i]["id"], []), san if (san or rc != 0) else None, rc) for i in idx[k]}
    res = {}
    with cf.ThreadPoolExecutor(procs) as ex:
        for d in ex.map(one, range(procs)):
            res.update(d)
    return [res[i] for i in range(len(lines))]


def body():
    c = Check("C20", "model_checking")
    c.add_model(vlib.tlc_model("Threads"), "Threads: 3 threads x 2 operations, call entry / return interleaved freely: SequentialResults, EveryoneFinishes (fair)")
    neg = vlib.tlc("Threads", "Threads_neg", workers=2, coverage=False, timeout=300)
    if "SequentialResults" not in neg["violated"]:
        raise RuntimeError("Threads_neg.cfg (library-internal scratch cell) no longer violates SequentialResults: the model lost its teeth")
    c.note("Threads_neg.cfg: hidden library state violates SequentialResults after %d states, as it must" % neg["states"])
    creds = tlslib.ensure_creds()
    q = c.quick
    s32, st1 = schedules("Threads_gen32")
    s24, st2 = schedules("Threads_gen24")
    c.cov["states"] += st1 + st2
    scheds = [(3, 2, s) for s in s32] + [(2, 4, s) for s in s24]
    if not q:
        s43, st3 = schedules("Threads_gen43", every=181, limit=2000)
        c.cov["states"] += st3
        scheds += [(4, 3, s) for s in s43]
    seeds = [11, 12] if q else [11, 12, 13, 14, 15, 16]
    lines, meta = [], []

    def add(variant, **kw):
        kw["id"] = len(lines) + 1
        lines.append(kw); meta.append(variant)
        if kw["mode"] != "free" or variant == "asan":       # the same run over streaming objects (one multi-call object per thread, operation k = its k-th call)
            k2 = dict(kw, work="stream", id=len(lines) + 1)
            lines.append(k2); meta.append(variant)
            if kw["mode"] != "seq":          # ... and with all threads holding objects of ONE kind under different keys: state hidden per kind shows here
                nf = kw.pop("_nf", len(lines))
                fam = nf % 11
                for ln in ({"mode": "seq"}, {}):
                    k3 = dict(kw, work="stream", fam=fam, id=len(lines) + 1, **ln)
                    if ln:
                        k3.pop("sched", None)
                    lines.append(k3); meta.append(variant)
    # baselines: the same workloads run sequentially (threads one after another)
    shapes = sorted({(t, k) for t, k, _ in scheds} | {(2, 12), (4, 10), (8, 8), (16, 6)})
    for seed in seeds:
        for (t, k) in shapes:
            add("asan", mode="seq", threads=t, ops=k, seed=seed)
    for seed in seeds:
        for (t, k) in [(2, 12), (4, 10), (8, 8), (16, 6)]:
            for rep in range(2 if q else 6):
                add("asan", mode="free", threads=t, ops=k, seed=seed)
            add("tsan", mode="free", threads=t, ops=k, seed=seed)
            if not q:
                add("tsan", mode="free", threads=t, ops=k, seed=seed)
    for i, (t, k, s) in enumerate(scheds):
        add("asan", mode="sched", threads=t, ops=k, seed=seeds[i % len(seeds)], sched=",".join(map(str, s)))
    results = [None] * len(lines)
    for variant in ("asan", "tsan"):
        sel = [i for i, v in enumerate(meta) if v == variant]
        try:
            rr = run(variant, [lines[i] for i in sel], creds, "c20" + variant, 12 if variant == "asan" else 6)
        except RuntimeError as ex:
            if variant == "tsan":
                raise
            raise
        for i, r in zip(sel, rr):
            results[i] = r
    base = {}
    for line, (evs, san, rc) in zip(lines, results):
        if line["mode"] == "seq":
            base[(line["threads"], line["ops"], line["seed"], line.get("work", "mixed"), line.get("fam", -1))] = {(e["t"], e["k"]): e for e in evs if e["e"] == "Op"}
    execs = []
    for line, variant, (evs, san, rc) in zip(lines, meta, results):
        key = "c20:%s:%s%s:t%d:k%d:seed%d%s" % (variant, line["mode"], ("-stream" + ("%d" % line["fam"] if "fam" in line else "")) if line.get("work") == "stream" else "", line["threads"], line["ops"], line["seed"], (":" + line["sched"].replace(",", "")) if "sched" in line else ":#%d" % line["id"])
        c.count(1, key)
        if san:
            c.violation(key + ":sanitizer", "sanitizer report / abnormal end (rc=%s) in a %s run: %s" % (rc, line["mode"], str(san)[:600]), {"line": line, "report": str(san)[:4000]})
            continue
        b = base.get((line["threads"], line["ops"], line["seed"], line.get("work", "mixed"), line.get("fam", -1)), {})
        out = []
        for e in evs:
            e = dict(e)
            if e["e"] == "Run":
                e["sched"] = [int(x) for x in line["sched"].split(",")] if "sched" in line else []
            elif e["e"] == "Op":
                be = b.get((e["t"], e["k"]))
                e["expect"] = be["d"] if be else "?"
                e["minones"] = MINONES.get(e["kind"], 1)         # streaming kinds: every call of the object returns 1
            out.append(e)
        out.append({"e": "Reset"})
        execs.append((key, out))
    rej, states = vlib.validate("ThreadsTrace", [[e for e in ev if e["e"] != "Reset"] + [] for _, ev in execs], tag="c20", timeout=1200)
    c.cov["traces_validated_against_impl"] = len(execs)
    c.cov["trace_states"] = states
    for i, j, ev in rej:
        key, evs = execs[i]
        c.violation(key, "event is not allowed by the independence contract (program order / sequential digest / success / schedule): %s" % json.dumps(ev)[:300], {"events": evs[:80]})
    for key, evs in execs[:1] + execs[-1:]:
        c.sample({"key": key, "events": [json.dumps(e)[:200] for e in evs[:6]]})
    c.cov["schedules_replayed"] = len(scheds)
    return c.finish(
        rule="runs: sequential baselines; free-running 2/4/8/16 threads x seeds (ASan twice, TSan once; thorough 6+2); every call-level schedule of 3 threads x 2 ops (90) and 2 threads x 4 ops (70) from TLC "
             "(thorough: + 2000 of the 369600 schedules of 4 x 3); 12 operation kinds incl. complete handshakes; distinct = distinct run keys",
        trusted=["TLC (ThreadsTrace.tla judge, Threads.tla schedule enumeration)", "ThreadSanitizer / AddressSanitizer", "the sequential run as the definition of each operation's result"],
        assumptions=["free-running runs sample the scheduler's interleavings; call-level schedules are exhaustive for the small shapes only"])


if __name__ == "__main__":
    main(body)
