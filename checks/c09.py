#!/usr/bin/env python3
"""C09 - TLS peer authentication cannot be bypassed.
TLC: Tls.tla over the full product of credential facts (AuthServer/AuthClient invariants) + negative configs.
Binding: live handshakes with credentials carrying exactly one defect each, validated against TlsTrace.tla."""
from common import *
import tlslib, json

PROTOS = (257, 771, 772)
DEFECTS = ["untrusted", "fakeroot", "fakerootsent", "fakeroot1", "expired", "notyet", "caexpired", "issuernotca", "issuernobc", "badsig", "cabadsig",
           "wrongissuerkey", "signkeymismatch", "leafku", "leafkunc", "leafencnc", "pathlen"]
TLCP_ONLY = ["enckeymismatch", "encbadsig", "encexpired", "encotherissuer", "encselfsigned", "encwrongissuerkey"]


def scenarios(c):
    scns = []
    n = [0]

    def add(**kw):
        n[0] += 1
        s = {"id": n[0], "cs": "w10,p", "ss": "p,w10"}
        s.update(kw)
        scns.append(s)
    for proto in PROTOS:
        sp = "tlcp" if proto == 257 else "srv"
        for mutual in (0, 1):
            base = {"proto": proto, "ctrust": "trust_root"}
            if mutual:
                base.update({"ccred": "cli_d2", "strust": "trust_root"})
            # controls: good credentials complete
            add(scred=sp + "_d2", **base)
            # server-side defects, verified by the client
            for d in DEFECTS + (TLCP_ONLY if proto == 257 else []):
                add(scred="%s_%s" % (sp, d), **base)
            # good server chain but the client trusts a different root
            add(scred=sp + "_d2", proto=proto, ctrust="trust_evil", **({"ccred": "cli_d2", "strust": "trust_root"} if mutual else {}))
        # client-side defects, verified by the server
        for d in DEFECTS:
            add(proto=proto, scred=sp + "_d2", ctrust="trust_root", ccred="cli_" + d, strust="trust_root")
        add(proto=proto, scred=sp + "_d2", ctrust="trust_root", ccred="-", strust="trust_root")          # no client certificate
        add(proto=proto, scred=sp + "_d2", ctrust="trust_root", ccred="cli_d2", strust="trust_evil")      # server trusts another root
        # trust bundles of several roots: the real root behind unrelated ones completes; a bundle too large for a connection (unrelated roots only) never makes
        # an endpoint run without anchors -- neither the client facing an untrusted server nor the server facing a client with no / an untrusted certificate
        add(proto=proto, scred=sp + "_d2", ctrust="trust_multi", ccred="cli_d2", strust="trust_multi")
        add(proto=proto, scred=sp + "_untrusted", ctrust="trust_big")
        add(proto=proto, scred=sp + "_d2", ctrust="trust_big")
        add(proto=proto, scred=sp + "_d2", ctrust="trust_root", ccred="cli_untrusted", strust="trust_big")
        add(proto=proto, scred=sp + "_d2", ctrust="trust_root", ccred="-", strust="trust_big")
        if not c.quick:
            for depth in (1, 3):
                add(proto=proto, scred="%s_d%d" % (sp, depth), ctrust="trust_evil")
                add(proto=proto, scred="%s_d%d" % (sp, depth), ctrust="trust_root", ccred="cli_d%d" % depth, strust="trust_evil")
    return scns


def body():
    c = Check("C09", "model_checking")
    c.add_model(vlib.tlc_model("MCTls", "MCTls_cred", allow_zero=("CSkipCR", "CReject", "SReject")), "Tls Budget=0, all 64 credential-fact combinations x 3 protocols x auth modes: AuthServer, AuthClient")
    c.add_model(vlib.tlc_model("MCTls", "MCTls_adv"), "Tls Budget=1 with good credentials: Auth invariants under one adversary action")
    # non-vacuity: with the certificate / possession checks removed from the receive rule TLC must find the bypass
    for cfg, inv in (("MCTls_nochain", "AuthServer"), ("MCTls_noposs", "AuthClient")):
        r = vlib.tlc("MCTlsNeg", cfg, workers=8, timeout=300)
        if inv not in r["violated"]:
            raise RuntimeError("negative config %s did not violate %s (vacuity guard)" % (cfg, inv))
        c.cov["tlc_runs"].append({"model": "negative config " + cfg, "violated_as_expected": inv, "states": r["states"]})
    scns = scenarios(c)
    res = tlslib.run_scenarios(scns, tag="c09")
    execs = []
    for r in res:
        s = r["scn"]
        key = "tlsdrv:p%s:scred=%s:ccred=%s:ctrust=%s:strust=%s" % (s["proto"], s["scred"], s.get("ccred", "-"), s.get("ctrust", "-"), s.get("strust", "-"))
        c.count(1, key)
        if r["san"] or not r["complete"]:
            c.violation(key + ":crash", "driver died or sanitizer report: %s" % (r["san"] or "incomplete trace rc=%s" % r["rc"]), {"scenario": s, "stderr": r["stderr"][-3000:]})
            continue
        execs.append((key, s, r["events"]))
    rej, states = vlib.validate("TlsTrace", [e[2] for e in execs], tag="c09")
    c.cov["traces_validated_against_impl"] = len(execs)
    c.cov["trace_states"] = states
    for i, j, ev in rej:
        key, s, evs = execs[i]
        c.violation(key, "execution is not a behaviour of the TLS contract (authentication / agreement): first unexplained event #%d %s" % (j, json.dumps(ev)[:200]),
                    {"scenario": s, "event_index": j, "events": evs[max(0, j - 12):j + 3]})
    # the TLCP, TLS 1.2 and TLS 1.3 servers against a peer that is not the library: protocol deviations only a hostile client can produce
    import roguepeer, concurrent.futures as cf
    exe = vlib.cc_driver("srvdrv", ["srvdrv.c", "vh.c"])
    creds = tlslib.ensure_creds()
    DEV = {  # deviation -> (certificate presented, chains to the anchors, possession proved)
        "honest": (True, True, True), "empty_cert": (False, False, False), "empty_cert_with_cv": (False, False, True), "no_cert_msg": (False, False, False),
        "cert_no_cv": (True, True, False), "cv_wrong_key": (True, True, False), "cv_stale_transcript": (True, True, False), "cv_alg_other": (True, True, False),
        # a CertificateVerify whose signature field proves nothing: empty, two zero INTEGERs, half of the genuine one
        "cv_sig_empty": (True, True, False), "cv_sig_zero": (True, True, False), "cv_sig_half": (True, True, False),
        # sequence deviations with otherwise good credentials: never a completed handshake
        "ccs_early": (True, True, True), "no_ccs": (True, True, True), "ccs_twice": (True, True, True), "finished_plain": (True, True, True), "finished_wrong": (True, True, True), "no_finished": (True, True, True),
        "finished_x80x2": (True, True, True), "finished_swap": (True, True, True), "finished_tail": (True, True, True)}
    MALFORMED = {"ccs_early", "no_ccs", "ccs_twice", "finished_plain", "finished_wrong", "no_finished", "finished_x80x2", "finished_swap", "finished_tail"}
    jobs = []
    for proto, sp in ((257, "tlcp"), (771, "srv"), (772, "srv")):
        jobs += [(proto, sp + "_d2", "trust_root", d, "cli_d2") for d in DEV if not (proto == 772 and "ccs" in d) and not (proto != 772 and d == "cv_alg_other")]          # TLS 1.3 has no ChangeCipherSpec
        jobs += [(proto, sp + "_d2", "trust_evil", "honest", "cli_d2"), (proto, sp + "_d2", "trust_root", "honest", "cli_untrusted"), (proto, sp + "_d2", "-", "honest", "cli_d2"),
                 (proto, sp + "_d3", "trust_root", "empty_cert", "cli_d2"), (proto, sp + "_d1", "trust_root", "cert_no_cv", "cli_d3")]
        jobs += [(proto, sp + "_d2", "-", d, "cli_d2") for d in sorted(MALFORMED) if not (proto == 772 and "ccs" in d)]            # the same sequence deviations without client authentication
    def one(j):
        proto, scred, strust, dev, ccred = j
        return j, roguepeer.run(creds, exe, proto, scred, strust, dev, ccred=ccred)
    rexecs = []
    with cf.ThreadPoolExecutor(8) as ex:
        for j, (view, evs, san) in ex.map(one, jobs):
            proto, scred, strust, dev, ccred = j
            key = "c09:rogue:p%d:scred=%s:strust=%s:ccred=%s:%s" % (proto, scred, strust, ccred, dev)
            c.count(1, key)
            hr = [e for e in evs if e["e"] == "HsRet"]
            if san or not hr or not any(e["e"] == "End" for e in evs):
                c.violation(key + ":crash", "the library server crashed / tripped a sanitizer / never returned against a deviating peer: %s" % str(san)[:300], {"peer_view": view, "server_events": evs})
                continue
            cert, ok, poss = DEV[dev]
            ok = ok and strust == "trust_root" and ccred != "cli_untrusted"
            data = [e for e in evs if e["e"] == "Data"]
            rexecs.append((key, [{"e": "Rogue", "dev": dev, "mutual": strust != "-", "cCert": cert, "cOK": ok, "cPoss": poss, "wellformed": dev not in MALFORMED, "srvrc": hr[0]["rc"], "peerdone": bool(view.get("completed")),
                                  "delivered": bool(data and data[0].get("rc") == 1 and data[0].get("got") == "70696e67")}], view))
    # ... and the library client against an independent server (server-auth handshakes): deviation -> (possession proved, sequence well formed)
    SDEV = {257: {"honest": (True, True), "ske_wrong_key": (False, True), "ske_stale_random": (False, True), "no_ske": (False, False), "finished_wrong": (True, False), "finished_plain": (True, False), "no_ccs": (True, False)},
            772: {"honest": (True, True), "no_cv": (False, False), "no_cert": (False, False), "cv_wrong_key": (False, True), "cv_stale_transcript": (False, True), "cv_client_context": (False, True), "finished_wrong": (True, False)}}
    SDEV[772]["cv_alg_other"] = (False, True)
    for pr_ in (257, 772):
        for dname in ("finished_x80x2", "finished_swap", "finished_tail"):
            SDEV[pr_][dname] = (True, False)
    for dname in ("sig_empty", "sig_zero", "sig_half"):          # degenerate signatures in the server's possession proof
        SDEV[257]["ske_" + dname] = (False, True)
        SDEV[772]["cv_" + dname] = (False, True)
    for pr in (257, 772):          # negotiation answers the client did not ask for (771 is derived from 257 below)
        for dname in ("suite_not_offered", "suite_unknown", "version_other", "compression_nonzero") + (("version_lower",) if pr == 257 else ()):
            SDEV[pr][dname] = (True, False)
    SDEV[771] = dict(SDEV[257])
    # TLS 1.2: the hello extensions the client relies on are not all echoed, and the key exchange is signed by somebody else / under another algorithm label
    for dname in ("only_ecpf+ske_wrong_key", "no_groups+ske_wrong_key", "no_sigalg+ske_wrong_key", "ske_alg_other+ske_wrong_key", "ske_alg_other"):
        SDEV[771][dname] = (False, False)
    sjobs = []
    for proto, sp in ((257, "tlcp"), (771, "srv"), (772, "srv")):
        sjobs += [(proto, sp + "_d2", "trust_root", d) for d in SDEV[proto]]
        sjobs += [(proto, sp + "_d2", "trust_evil", "honest"), (proto, sp + "_untrusted", "trust_root", "honest"), (proto, sp + "_expired", "trust_root", "honest"), (proto, sp + "_d3", "trust_root", "honest")]
    def sone(j):
        proto, scred, ctrust, dev = j
        return j, roguepeer.run_server(creds, exe, proto, scred, ctrust, dev)
    with cf.ThreadPoolExecutor(8) as ex:
        for j, (view, evs, san) in ex.map(sone, sjobs):
            proto, scred, ctrust, dev = j
            key = "c09:rogue-server:p%d:scred=%s:ctrust=%s:%s" % (proto, scred, ctrust, dev)
            c.count(1, key)
            hr = [e for e in evs if e["e"] == "HsRet"]
            if san or not hr or not any(e["e"] == "End" for e in evs):
                c.violation(key + ":crash", "the library client crashed / tripped a sanitizer / never returned against a deviating server: %s" % str(san)[:300], {"peer_view": view, "client_events": evs})
                continue
            poss, wf = SDEV[proto][dev]
            data = [e for e in evs if e["e"] == "Data"]
            rexecs.append((key, [{"e": "RogueS", "dev": dev, "sOK": ctrust == "trust_root" and scred.split("_")[1] in ("d2", "d3"), "sPoss": poss, "wellformed": wf, "clirc": hr[0]["rc"],
                                  "delivered": bool(data and data[0].get("rc") == 1 and data[0].get("got") == "70696e67")}], view))
    rej2, st2 = vlib.validate("RogueTrace", [e[1] for e in rexecs], tag="c09r")
    c.cov["traces_validated_against_impl"] += len(rexecs)
    c.cov["rogue_peer_handshakes"] = len(rexecs)
    for i, j, ev in rej2:
        key, evs, view = rexecs[i]
        c.violation(key, "the library endpoint's verdict on a deviating peer is not the contract's: %s" % json.dumps(ev)[:300], {"event": ev, "peer_view": view})
    outcomes = {}
    for key, s, evs in execs:
        end = evs[-1]
        outcomes[key] = (end.get("crc"), end.get("src"))
    c.cov["outcomes_sample"] = dict(list(outcomes.items())[:12])
    for key, s, evs in execs[1:3]:
        c.sample({"scenario": s, "handshake_returns": outcomes[key]})
    return c.finish(
        rule="one live handshake per (protocol, verifying role, credential defect) with credentials built by the reference X.509 writer; "
             "distinct = distinct (protocol, credential sets, trust sets); the facts (chain valid, key possessed) are bound in the Start event and the "
             "verifier's completion must be explained by Tls.tla's receive rules",
        trusted=["TLC", "harness/tlsdrv.c", "tools/mkcreds.py (defect construction)", "tools/roguepeer.py (an independent TLCP client over the reference primitives; its honest run must be accepted)"],
        assumptions=["credential defects are those of DESIGN.md C09; each set has exactly the one named defect by construction"])


if __name__ == "__main__":
    main(body)
